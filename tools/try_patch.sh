#!/bin/sh
# usage: tools/try_patch.sh <patch.diff> [suite:cases ...]
# Applies a patch to /repo, rebuilds the harness, runs the given suites, prints a summary, reverts.
set -u
PATCH="$1"; shift
export RUSTUP_TOOLCHAIN=1.88.0 CARGO_NET_OFFLINE=true
cd /repo && git apply "$PATCH" || { echo "patch does not apply"; exit 2; }
trap 'cd /repo && git checkout -- . ' EXIT
( cd /verif/harness && cargo build --offline 2>&1 | grep -E "^error" -A8 | head -20 )
python3 /verif/tools/params.py || echo "PARAMS BROKEN"
[ $# -eq 0 ] && set -- kv:200 proc:200 apply:300 catchup:200 delta:40 fill:30 wire:150 fd:200 listen:150 select:100 loop:100
for sc in "$@"; do
  s=${sc%%:*}; c=${sc##*:}
  /verif/build/cargo/debug/vharness $s ${VERIF_SEED:-4242} $c /tmp/try_$s.trace > /dev/null 2>&1
  out=$(cd /verif && ulimit -s unlimited; timeout 600 build/extract/driver /tmp/try_$s.trace)
  echo "== $s: $(echo "$out" | tail -1)"
  echo "$out" | grep -E "^MONITOR-FAIL" | sed 's/case=.*//' | sort | uniq -c | sort -rn | head -5
  echo "$out" | grep -A3 "^MISMATCH" | cut -c1-260 | head -8
done
