#!/bin/sh
# usage: tools/try_worktree.sh <worktree-with-the-change-applied> [suite:cases ...]
# Like try_patch.sh but does not touch /repo: builds a scratch copy of the harness against the
# given worktree (which must contain the change), runs the suites, prints a summary.
set -u
WT="$1"; shift
export RUSTUP_TOOLCHAIN=1.88.0 CARGO_NET_OFFLINE=true
H=/tmp/h-$(basename "$WT")
rm -rf "$H"; mkdir -p "$H"
cp -r /verif/harness/src /verif/harness/Cargo.toml /verif/harness/Cargo.lock "$H/" 2>/dev/null
mkdir -p "$H/.cargo"; printf '[net]\noffline = true\n[build]\ntarget-dir = "target"\n' > "$H/.cargo/config.toml"
sed -i "s#/repo/chitchat#$WT/chitchat#" "$H/Cargo.toml"
( cd "$H" && cargo build --offline 2>&1 | grep -E "^error" -A8 | head -20 )
BIN="$H/target/debug/vharness"
[ -x "$BIN" ] || { echo "harness build failed"; exit 2; }
[ $# -eq 0 ] && set -- kv:200 proc:200 apply:300 catchup:200 delta:40 fill:30 wire:150 fd:200 listen:150 select:100 loop:100
for sc in "$@"; do
  s=${sc%%:*}; c=${sc##*:}
  "$BIN" $s ${VERIF_SEED:-4242} $c "$H/try_$s.trace" > /dev/null 2>&1
  out=$(cd /verif && ulimit -s unlimited; timeout 900 build/extract/driver "$H/try_$s.trace")
  echo "== $s: $(echo "$out" | tail -1)"
  echo "$out" | grep -E "^MONITOR-FAIL" | sed 's/case=.*//' | sort | uniq -c | sort -rn | head -5
  echo "$out" | grep -A3 "^MISMATCH" | cut -c1-260 | head -8
done
rm -rf "$H"
