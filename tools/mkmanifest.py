#!/usr/bin/env python3
"""Regenerates MANIFEST.json from tools/propcfg.py (claimed properties) and properties.jsonl."""
import json
import os
import sys
sys.path.insert(0, os.path.dirname(os.path.abspath(__file__)))
import propcfg

ROOT = propcfg.ROOT
props = [json.loads(l) for l in open(os.path.join(ROOT, "properties.jsonl"))]
claimed = set(propcfg.PROPS)
m = {
    "version": 1,
    "setup_cmd": "./setup.sh",
    "hooks": {
        "guard": "cargo feature `verif` of crate chitchat (chitchat/Cargo.toml [features] verif = [])",
        "enable": "harness/Cargo.toml depends on chitchat = { path = \"/repo/chitchat\", features = [\"verif\"] }; rebuilt by `cargo build --offline` in /verif/harness (RUSTUP_TOOLCHAIN=1.88.0) on every check",
        "baseline_off_cmd": "cd /repo && . /w/out/rust_env.sh && cargo test --workspace --no-fail-fast --offline",
        "source_commits": ["3971004", "51d570a"],
        "add_only": True,
    },
    "engines": [{
        "name": "coq-model+correspondence",
        "path": "/verif/check",
        "serves_properties": sorted(claimed),
        "kind_free_text": "Coq 8.16.1 theorems (coq/properties/Cxx.v) over a hand-written executable Gallina model (coq/theories); the model is tied to /repo's current sources on every run by (1) constants regenerated from the sources (tools/params.py -> Params.v, theorems re-checked against it) and (2) a correspondence check: a Rust harness linking /repo/chitchat (feature verif) and the model extracted to OCaml run the same generated histories / byte strings and every observation is compared; boolean monitors extracted from Coq are evaluated on the implementation's dumped states to find concrete failing inputs",
    }],
    "checks": [],
    "not_applicable": [],
    "notes": "DESIGN.md describes approach, trusted base, findings and which seeded changes each check catches.",
}
for p in props:
    pid = p["id"]
    if pid in claimed:
        cfg = propcfg.PROPS[pid]
        m["checks"].append({
            "property_id": pid,
            "quick_cmd": f"./check {pid} --tier quick",
            "thorough_cmd": f"./check {pid} --tier thorough",
            "evidence_file": f"/verif/evidence/{pid}.json",
            "replay_cmd_template": f"./check {pid} --replay {{path}}",
            "engine": "coq-model+correspondence",
            "level_claimed": {
                "category": "proof",
                "text": "Theorems of coq/properties/%s.v (%s), machine-checked by coqc for all inputs/states/histories they quantify over, re-checked on every run against constants regenerated from the sources; the model they are about is validated against the implementation by differential execution on every run, and the property's boolean monitor runs on the implementation's states." % (pid, cfg.get("title", "")),
                "design_ref": "DESIGN.md section 5 (%s)" % pid,
            },
            "level_note": cfg.get("level_note", "Trusted: Coq kernel; the hand-written model where the correspondence suites do not observe it; tools/params.py; ExtrOcamlBasic extraction + OCaml driver; the Rust harness. zstd/rand behaviour enters as section variables / explicit oracle arguments, never as axioms. See DESIGN.md section 7."),
            "technique": "machine-checked proof in Coq (Rocq) + model/implementation correspondence check",
        })
    else:
        m["not_applicable"].append({"property_id": pid, "reason": propcfg.NOT_CLAIMED.get(pid, "not yet claimed: its Coq property file is still under construction in this session (the correspondence suites already exercise it)")})
json.dump(m, open(os.path.join(ROOT, "MANIFEST.json"), "w"), indent=1)
print("claimed:", sorted(claimed))
