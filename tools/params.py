#!/usr/bin/env python3
"""Regenerates coq/theories/Params.v from the constants in /repo's *current* sources.

A deliberately small translator.  Every constant the theorems depend on is located BY NAME (a
`const NAME: T = <expr>;` item anywhere in chitchat/src, an enum variant `Variant = <expr>` of a
named enum) or, for the few literals that have no name, by an anchored pattern at the code site
that uses them; the right-hand side is then EVALUATED (decimal / hex / binary literals with or
without `_` and type suffixes, `+ - * /`, parentheses, `as T` casts, `T::MAX`, `size_of::<T>()`,
`usize::from(..)`, references to other named constants of the crate, followed recursively).  So the
usual harmless rewrites of a constant (another spelling of the literal, an expression of other
constants, moving it to another module, naming a tag) regenerate the same Params.v.

A constant that can no longer be found or evaluated is reported (exit 2) — the tie between model
and code is then broken and the caller turns that into a VIOLATION line."""
import os
import re
import sys

REPO = os.environ.get("VERIF_REPO", "/repo")
SRC = os.path.join(REPO, "chitchat", "src")
OUT = os.path.join(os.path.dirname(os.path.abspath(__file__)), "..", "coq", "theories", "Params.v")


class Unresolved(Exception):
    pass


def all_sources():
    out = {}
    for root, _dirs, files in os.walk(SRC):
        for fn in sorted(files):
            if fn.endswith(".rs") and fn != "verif.rs":
                p = os.path.join(root, fn)
                with open(p) as f:
                    out[os.path.relpath(p, SRC)] = strip_comments(f.read())
    return out


def strip_comments(text):
    text = re.sub(r"/\*.*?\*/", " ", text, flags=re.S)
    return re.sub(r"//[^\n]*", "", text)


INT_TYPES = {"u8": 8, "u16": 16, "u32": 32, "u64": 64, "usize": 64, "i8": 8, "i16": 16, "i32": 32, "i64": 64, "isize": 64}
SIZE_OF = {"u8": 1, "i8": 1, "u16": 2, "i16": 2, "u32": 4, "i32": 4, "f32": 4, "u64": 8, "i64": 8, "f64": 8, "usize": 8, "isize": 8}


class Evaluator:
    def __init__(self, sources):
        self.sources = sources
        self.stack = []

    # ---- lookup of named constants -------------------------------------------------------
    def const_expr(self, name, prefer=None):
        rx = re.compile(r"\bconst\s+" + re.escape(name) + r"\s*:\s*[^=;]+?=\s*([^;]+);")
        hits = []
        files = list(self.sources)
        if prefer in self.sources:
            files.remove(prefer)
            files.insert(0, prefer)
        for fn in files:
            for m in rx.finditer(self.sources[fn]):
                hits.append((fn, m.group(1).strip()))
        if not hits:
            raise Unresolved(f"no `const {name}: .. = ..;` in chitchat/src")
        exprs = {e for _f, e in hits}
        if len(exprs) > 1:
            vals = set()
            for fn, e in hits:
                vals.add(self.eval(e, fn))
            if len(vals) > 1:
                raise Unresolved(f"several different constants named {name}: {sorted(hits)}")
        return hits[0]

    def const(self, name, prefer=None):
        if name in self.stack:
            raise Unresolved(f"cyclic constant {name}")
        self.stack.append(name)
        try:
            fn, expr = self.const_expr(name, prefer)
            return self.eval(expr, fn)
        finally:
            self.stack.pop()

    def variant(self, enum, variant, fname):
        text = self.sources.get(fname, "")
        m = re.search(r"\benum\s+" + re.escape(enum) + r"\s*\{(.*?)\n\}", text, flags=re.S)
        if not m:
            # the enum may have moved
            for fn, t in self.sources.items():
                m = re.search(r"\benum\s+" + re.escape(enum) + r"\s*\{(.*?)\n\}", t, flags=re.S)
                if m:
                    fname = fn
                    break
        if not m:
            raise Unresolved(f"enum {enum} not found")
        body = m.group(1)
        m2 = re.search(r"\b" + re.escape(variant) + r"\s*=\s*([^,}]+)[,}\n]", body)
        if not m2:
            raise Unresolved(f"variant {enum}::{variant} has no explicit discriminant")
        return self.eval(m2.group(1).strip(), fname)

    # ---- expressions ---------------------------------------------------------------------
    def eval(self, expr, fname=None):
        toks = self.tokenize(expr)
        pos = [0]

        def peek():
            return toks[pos[0]] if pos[0] < len(toks) else None

        def take(t=None):
            x = peek()
            if x is None or (t is not None and x != t):
                raise Unresolved(f"cannot evaluate `{expr}` (at token {x!r}, expected {t!r})")
            pos[0] += 1
            return x

        def primary():
            x = take()
            if isinstance(x, (int, float)):
                v = x
            elif x == "(":
                v = bitor()
                take(")")
            elif x == "-":
                v = -primary()
            elif isinstance(x, str) and re.match(r"^[A-Za-z_]", x):
                path = [x]
                while peek() == "::":
                    take("::")
                    if peek() == "<":            # turbofish: size_of::<T>
                        take("<")
                        ty = take()
                        take(">")
                        path.append("<" + ty + ">")
                    else:
                        path.append(take())
                v = self.path_value(path, peek, take, bitor, fname, expr)
            else:
                raise Unresolved(f"cannot evaluate `{expr}` (unexpected {x!r})")
            while peek() == "as":
                take("as")
                ty = take()
                if ty in INT_TYPES and isinstance(v, float):
                    v = int(v)
                elif ty in ("f32", "f64"):
                    v = float(v)
            return v

        def muldiv():
            v = primary()
            while peek() in ("*", "/", "%"):
                op = take()
                w = primary()
                if op == "*":
                    v = v * w
                elif op == "/":
                    v = v // w if isinstance(v, int) and isinstance(w, int) else v / w
                else:
                    v = v % w
            return v

        def addsub():
            v = muldiv()
            while peek() in ("+", "-"):
                op = take()
                w = muldiv()
                v = v + w if op == "+" else v - w
            return v

        def ints(a, b, op):
            if not (isinstance(a, int) and isinstance(b, int)):
                raise Unresolved(f"cannot evaluate `{expr}` ({op} on non-integers)")
            return a, b

        def shift():
            v = addsub()
            while peek() in ("<<", ">>"):
                op = take()
                a, b = ints(v, addsub(), op)
                v = a << b if op == "<<" else a >> b
            return v

        def bitand():
            v = shift()
            while peek() == "&":
                take()
                a, b = ints(v, shift(), "&")
                v = a & b
            return v

        def bitxor():
            v = bitand()
            while peek() == "^":
                take()
                a, b = ints(v, bitand(), "^")
                v = a ^ b
            return v

        def bitor():
            v = bitxor()
            while peek() == "|":
                take()
                a, b = ints(v, bitxor(), "|")
                v = a | b
            return v

        v = bitor()
        if peek() is not None:
            raise Unresolved(f"cannot evaluate `{expr}` (trailing {peek()!r})")
        return v

    def path_value(self, path, peek, take, addsub, fname, expr):
        last = path[-1]
        # T::MAX, T::MIN, T::BITS
        if len(path) >= 2 and path[-2] in INT_TYPES and last in ("MAX", "MIN", "BITS"):
            bits = INT_TYPES[path[-2]]
            signed = path[-2].startswith("i")
            if last == "BITS":
                return bits
            if last == "MAX":
                return (1 << (bits - 1)) - 1 if signed else (1 << bits) - 1
            return -(1 << (bits - 1)) if signed else 0
        # size_of::<T>()
        if len(path) >= 2 and path[-2] == "size_of" and last.startswith("<"):
            take("(")
            take(")")
            ty = last[1:-1]
            if ty not in SIZE_OF:
                raise Unresolved(f"size_of::<{ty}>() in `{expr}`")
            return SIZE_OF[ty]
        # conversions that keep the value: usize::from(x), u64::from(x), NonZeroUsize::new(x), Some(x)
        if peek() == "(" and (last in ("from", "new", "new_unchecked", "Some", "unwrap", "get") or last in INT_TYPES):
            take("(")
            v = addsub()
            take(")")
            while peek() == ".":           # .unwrap() / .get()
                take(".")
                take()
                take("(")
                take(")")
            return v
        if peek() == "(":
            raise Unresolved(f"call of {'::'.join(path)} in `{expr}`")
        # a named constant, possibly qualified (crate::X, super::X, module::X, Self::X)
        return self.const(last, fname)

    @staticmethod
    def tokenize(expr):
        toks = []
        i = 0
        n = len(expr)
        while i < n:
            c = expr[i]
            if c.isspace():
                i += 1
                continue
            m = re.match(r"0x[0-9a-fA-F_]+|0b[01_]+|0o[0-7_]+|[0-9][0-9_]*(\.[0-9_]+)?([eE][+-]?[0-9]+)?", expr[i:])
            if m and c.isdigit():
                lit = m.group(0)
                i += len(lit)
                # `1.` followed by a method call is not a float; keep simple: a trailing '.' is not consumed
                suf = re.match(r"_?(u8|u16|u32|u64|usize|i8|i16|i32|i64|isize|f32|f64)\b", expr[i:])
                ty = None
                if suf:
                    ty = suf.group(1)
                    i += len(suf.group(0))
                elif expr[i:i + 1] == "." and not re.match(r"\.[A-Za-z_]", expr[i:]):
                    i += 1                                  # `5.` float literal
                    lit += ".0"
                clean = lit.replace("_", "")
                if clean.startswith(("0x", "0b", "0o")):
                    v = int(clean, 0)
                elif "." in clean or "e" in clean.lower() or ty in ("f32", "f64"):
                    f = float(clean)
                    v = int(f) if f == int(f) else f
                else:
                    v = int(clean)
                toks.append(v)
                continue
            if expr.startswith("::", i):
                toks.append("::")
                i += 2
                continue
            if (expr.startswith("<<", i) or expr.startswith(">>", i)) and (not toks or toks[-1] != "::"):
                toks.append(expr[i:i + 2])
                i += 2
                continue
            m = re.match(r"[A-Za-z_][A-Za-z0-9_]*", expr[i:])
            if m:
                toks.append(m.group(0))
                i += len(m.group(0))
                continue
            if c in "()+-*/%<>.,|&^":
                toks.append(c)
                i += 1
                continue
            raise Unresolved(f"cannot evaluate `{expr}` (character {c!r})")
        return toks


# ---- the constants -------------------------------------------------------------------------
# ("const", NAME, preferred file)                     a named constant
# ("variant", Enum, Variant, file)                    an explicit enum discriminant
# ("site", file, regex-with-one-group)                an expression at a code site (group 1 is evaluated)
SPEC = [
    ("P_MAX_UDP", ("const", "MAX_UDP_DATAGRAM_PAYLOAD_SIZE", "lib.rs")),
    ("P_GC_HISTORY", ("const", "GARBAGE_COLLECTED_NODE_HISTORY_SIZE", "lib.rs")),
    ("P_BLOCK_META_LEN", ("const", "BLOCK_META_LEN", "serialize.rs")),
    ("P_BLOCK_THRESHOLD", ("const", "BLOCK_THRESHOLD", "delta.rs")),
    ("P_BLOCK_THRESHOLD_SER", ("site", "delta.rs",
        r"CompressedStreamWriter::with_block_threshold\(([^;]+?)\);\s*for op in self\.get_operations\(\)")),
    ("P_MIN_MTU", ("site", "delta.rs", r"pub fn with_mtu\(mtu: usize\) -> Self \{\s*assert!\(mtu >= ([^;]+?)\);")),
    ("P_MAGIC", ("const", "MAGIC_NUMBER", "message.rs")),
    ("P_PROTOCOL_VERSION", ("variant", "ProtocolVersion", "V0", "message.rs")),
    ("P_TAG_SYN", ("variant", "MessageType", "Syn", "message.rs")),
    ("P_TAG_SYNACK", ("variant", "MessageType", "SynAck", "message.rs")),
    ("P_TAG_ACK", ("variant", "MessageType", "Ack", "message.rs")),
    ("P_TAG_BADCLUSTER", ("variant", "MessageType", "BadCluster", "message.rs")),
    ("P_OP_NODE", ("variant", "DeltaOpTag", "Node", "delta.rs")),
    ("P_OP_KV", ("variant", "DeltaOpTag", "KeyValue", "delta.rs")),
    ("P_OP_SETMAX", ("variant", "DeltaOpTag", "SetMaxVersion", "delta.rs")),
    ("P_ST_SET", ("variant", "DeletionStatusMutation", "Set", "types.rs")),
    ("P_ST_DELETE", ("variant", "DeletionStatusMutation", "Delete", "types.rs")),
    ("P_ST_TTL", ("variant", "DeletionStatusMutation", "DeleteAfterTtl", "types.rs")),
    ("P_GOSSIP_COUNT", ("const", "GOSSIP_COUNT", "server.rs")),
    ("P_PRIOR_WEIGHT", ("site", "failure_detector.rs", r"\bprior_weight:\s*([^,]+),")),
    ("P_DECOMPRESS_CAP", ("site", "serialize.rs", r"let mut decompressed_buffer = vec!\[0(?:u8)?; ([^\]]+)\];")),
    # the header reserve at the two budget computations of lib.rs (a literal or a named constant)
    ("P_RESERVE_SYNACK", ("site", "lib.rs",
        r"let delta_mtu =\s*MAX_UDP_DATAGRAM_PAYLOAD_SIZE\s*-\s*([A-Za-z0-9_:]+)\s*-\s*self_digest\.serialized_len\(\);")),
    ("P_RESERVE_ACK", ("site", "lib.rs",
        r"&digest,\s*MAX_UDP_DATAGRAM_PAYLOAD_SIZE\s*-\s*([A-Za-z0-9_:]+),\s*&scheduled_for_deletion,")),
]

# When the two budget computations are written through one named constant (e.g.
# `MAX_MESSAGE_BODY_LEN = MAX_UDP_DATAGRAM_PAYLOAD_SIZE - HEADER`), the reserve is the difference.
RESERVE_ALT = {
    "P_RESERVE_SYNACK": r"let delta_mtu =\s*([A-Za-z0-9_:]+)\s*-\s*self_digest\.serialized_len\(\);",
    "P_RESERVE_ACK": r"&digest,\s*([A-Za-z0-9_:]+),\s*&scheduled_for_deletion,",
}


def main():
    try:
        sources = all_sources()
    except OSError as e:
        print(f"PARAMS-ERROR cannot read {SRC}: {e}")
        return 2
    ev = Evaluator(sources)
    vals = {}
    errors = []
    for name, spec in SPEC:
        try:
            if spec[0] == "const":
                v = ev.const(spec[1], spec[2])
            elif spec[0] == "variant":
                v = ev.variant(spec[1], spec[2], spec[3])
            else:
                v = None
                last = None
                # the code site is looked for in the file it lives in today, then — code moves — in
                # every other file; several places may have its shape (e.g. a field declaration and its
                # initialiser): the first whose expression evaluates is the one
                order = [spec[1]] + [f for f in sources if f != spec[1]]
                text = sources.get(spec[1], "")
                for fn in order:
                    if fn not in sources:
                        continue
                    for m in re.finditer(spec[2], sources[fn]):
                        try:
                            v = ev.eval(m.group(1).strip(), fn)
                            break
                        except Unresolved as e:
                            last = e
                    if v is not None:
                        break
                if v is None and name in RESERVE_ALT:
                    for m in re.finditer(RESERVE_ALT[name], text):
                        try:
                            v = ev.const("MAX_UDP_DATAGRAM_PAYLOAD_SIZE", "lib.rs") - ev.eval(m.group(1).strip(), spec[1])
                            break
                        except Unresolved as e:
                            last = e
                if v is None:
                    raise Unresolved(f"code site not found or not evaluable in {spec[1]}: {spec[2]}" + (f" ({last})" if last else ""))
            if isinstance(v, float):
                if v != int(v):
                    raise Unresolved(f"non-integral value {v}")
                v = int(v)
            if v < 0:
                raise Unresolved(f"negative value {v}")
            vals[name] = v
        except Unresolved as e:
            errors.append(f"{name}: {e}")
    if errors:
        for e in errors:
            print("PARAMS-ERROR " + e)
        return 2
    lines = [
        "(* Params.v — GENERATED by tools/params.py from /repo/chitchat/src on every run. Do not edit. *)",
        "From Coq Require Import NArith.",
        "Open Scope N_scope.",
    ]
    for name in sorted(vals):
        lines.append(f"Definition {name} : N := {vals[name]}.")
    text = "\n".join(lines) + "\n"
    out = os.path.normpath(OUT)
    if "--check" in sys.argv:
        # compare with the committed file without writing (used to test the translator itself)
        with open(out) as f:
            same = f.read() == text
        print("same" if same else "DIFFERENT\n" + text)
        return 0 if same else 3
    old = None
    if os.path.exists(out):
        with open(out) as f:
            old = f.read()
    if old != text:
        with open(out, "w") as f:
            f.write(text)
    if "--print" in sys.argv:
        print(text)
    return 0


if __name__ == "__main__":
    sys.exit(main())
