#!/bin/sh
# usage: tools/confirm_mutant.sh <worktree> <seeded-id>
# Re-confirms a sub-agent's breaking change in its scratch worktree:
#  (a) demo fails with the change, (b) demo passes without it, (c) existing suite passes with it.
# Copies patch.diff / demo.diff / notes.md to /verif/seeded/<id>/ and writes confirm.log there.
WT="$1"; ID="$2"
OUT=/verif/seeded/$ID
mkdir -p "$OUT"
cp "$WT/_out/patch.diff" "$WT/_out/demo.diff" "$OUT/" 2>/dev/null
cp "$WT/_out/notes.md" "$OUT/agent-notes.md" 2>/dev/null
export RUSTUP_TOOLCHAIN=1.88.0 CARGO_NET_OFFLINE=true
cd "$WT" || exit 2
LOG="$OUT/confirm.log"
: > "$LOG"
git reset -q --hard; git clean -fdq -e _out -e target
git apply "$OUT/patch.diff" && git apply "$OUT/demo.diff" || { echo "APPLY-FAILED" >> "$LOG"; exit 2; }
echo "### demo WITH the change (expected: FAIL)" >> "$LOG"
cargo test -p chitchat --offline demo 2>&1 | grep -E "^test |test result|error(\[|:)" | head -20 >> "$LOG"
echo "### existing suite WITH the change, demo excluded (expected: ok)" >> "$LOG"
cargo test --workspace --offline -- --skip demo --skip test_bandwidth_100 --skip test_delay_before_dead_detection_100 2>&1 | grep -E "test result|FAILED|failed" >> "$LOG"
git apply -R "$OUT/patch.diff"
echo "### demo WITHOUT the change (expected: ok)" >> "$LOG"
cargo test -p chitchat --offline demo 2>&1 | grep -E "^test |test result|error(\[|:)" | head -20 >> "$LOG"
echo "### done" >> "$LOG"
