#!/usr/bin/env python3
"""tools/shrink.py <Cxx> <replay-file> [--out <file>]

Delta-debugging shrinker for the replay files ./check writes (World-based operations only: the
ones `vharness replay` can re-execute).  The operations of the recorded case are re-executed on the
IMPLEMENTATION as it is now (harness built against /repo's working tree, or $VERIF_HARNESS_BIN),
the extracted model and the monitors are run on the fresh observations, and operations are
removed for as long as the same kind of failure of property Cxx is still reported:

  - a MONITOR-FAIL of that property (same message up to member ids), or
  - an implementation PANIC, or a model/implementation disagreement when the recorded failure was one.

Writes the minimal operation list (with fresh observations) to <replay-file>.min (or --out) and
prints how many operations are left.  It never touches /repo or the evidence files."""
import os
import re
import subprocess
import sys
import tempfile

ROOT = os.path.normpath(os.path.join(os.path.dirname(os.path.abspath(__file__)), ".."))
HARNESS = os.environ.get("VERIF_HARNESS_BIN", os.path.join(ROOT, "build", "cargo", "debug", "vharness"))
DRIVER = os.path.join(ROOT, "build", "extract", "driver")


def parse(path):
    ops = []
    case = "CASE shrink"
    with open(path, errors="replace") as f:
        for line in f:
            line = line.rstrip("\n")
            if not line or line.startswith("#") or line.startswith("= "):
                continue
            if line.startswith("CASE "):
                case = line
                continue
            ops.append(line)
    return case, ops


def normalise(msg):
    # member ids and numbers differ between runs of a shrunk history: compare the wording only
    msg = re.sub(r"[0-9a-f]*/\d+/[46]\.\d+\.\d+", "<id>", msg)
    return re.sub(r"\d+", "N", msg)


def run(pid, case, ops, tmpdir):
    src = os.path.join(tmpdir, "in.txt")
    out = os.path.join(tmpdir, "out.trace")
    with open(src, "w") as f:
        f.write(case + "\n")
        for o in ops:
            f.write(o + "\n")
    if os.path.exists(out):
        os.remove(out)
    p = subprocess.run([HARNESS, "replay", src, "0", out], capture_output=True, text=True, timeout=600)
    if p.returncode != 0 or not os.path.exists(out):
        return None, None
    d = subprocess.run(f"ulimit -s unlimited 2>/dev/null; exec '{DRIVER}' '{out}' {pid}", shell=True,
                       capture_output=True, text=True, timeout=600)
    # histories of the suites whose nodes only ever receive messages other nodes produced (proc, conv,
    # kf1): a candidate in which a node receives a message nobody has sent is a different scenario
    # (a forged message), not a smaller version of this one
    if re.match(r"CASE (proc|conv|kf1)-", case):
        produced = set()
        pending = None
        for line in open(out, errors="replace"):
            line = line.rstrip("\n")
            if line.startswith("= "):
                m = re.match(r"= reply (.*?) bytes \d+", line)
                if m and m.group(1) != "none":
                    produced.add(m.group(1))
                m = re.match(r"= (SYN .*?) \| ", line)
                if m:
                    produced.add(m.group(1))
                continue
            m = re.match(r"PROC \d+ (.*?) \| ORD", line)
            if m and m.group(1) not in produced:
                return set(), out
    kinds = set()
    for line in d.stdout.split("\n"):
        m = re.match(r"MONITOR-FAIL property=(\S+) (?:class=(\S+) )?what=(.*?) case=", line)
        if m and m.group(1) == pid and not m.group(2):
            kinds.add("monitor:" + normalise(m.group(3)))
        if line.startswith("  impl:  PANIC"):
            kinds.add("panic")
        if line.startswith("MISMATCH "):
            kinds.add("mismatch")
    return kinds, out


def main():
    if len(sys.argv) < 3:
        print(__doc__)
        return 2
    pid, path = sys.argv[1], sys.argv[2]
    outp = path + ".min"
    if "--out" in sys.argv:
        outp = sys.argv[sys.argv.index("--out") + 1]
    case, ops = parse(path)
    with tempfile.TemporaryDirectory(prefix="shrink-", dir=os.path.join(ROOT, "out")) as tmp:
        kinds, _ = run(pid, case, ops, tmp)
        if kinds is None:
            print("the operations of this file cannot be re-executed (unsupported operation?)")
            return 3
        target = sorted(k for k in kinds if k.startswith("monitor:")) or sorted(k for k in kinds if k == "panic") or sorted(kinds)
        if not target:
            print("the recorded case does not fail on the current implementation")
            return 1
        want = target[0]
        print(f"shrinking {len(ops)} operations; keeping: {want[:140]}")

        def fails(cand):
            k, _ = run(pid, case, cand, tmp)
            return k is not None and want in k

        n = 2
        while len(ops) >= 2:
            chunk = max(1, len(ops) // n)
            reduced = False
            i = 0
            while i < len(ops):
                cand = ops[:i] + ops[i + chunk:]
                if cand and fails(cand):
                    ops = cand
                    n = max(n - 1, 2)
                    reduced = True
                else:
                    i += chunk
            if not reduced:
                if chunk == 1:
                    break
                n = min(n * 2, len(ops))
        _, fresh = run(pid, case, ops, tmp)
        with open(outp, "w") as f:
            f.write(f"# shrunk from {path}; failure kept: {want}\n")
            f.write(open(fresh).read())
    print(f"{len(ops)} operations left; written {outp}")
    return 0


if __name__ == "__main__":
    sys.exit(main())
