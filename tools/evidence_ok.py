#!/usr/bin/env python3
"""tools/evidence_ok.py — before committing: every evidence file must come from a run on the clean tree
(all obligations discharged, nothing broken)."""
import glob, json, os, sys
ROOT = os.path.normpath(os.path.join(os.path.dirname(os.path.abspath(__file__)), ".."))
bad = []
for f in sorted(glob.glob(os.path.join(ROOT, "evidence", "*.json"))):
    c = json.load(open(f))["coverage"]
    if c["discharged"] != c["obligations"] or c.get("broken"):
        bad.append(os.path.basename(f))
print("evidence ok" if not bad else "STALE/BROKEN evidence (re-run ./check on the clean tree): " + " ".join(bad))
sys.exit(1 if bad else 0)
