"""Per-property configuration of ./check: correspondence suites (name, quick cases, thorough cases),
allowed axioms, notes for the evidence file; known-findings protocol."""
import json
import os
import re

ROOT = os.path.normpath(os.path.join(os.path.dirname(os.path.abspath(__file__)), ".."))

TRUSTED_BASE = [
    "Coq 8.16.1 kernel (coqc, full .vo compilation; vm_compute used for witness lemmas; native_compute not used)",
    "axioms: none expected — Print Assumptions of every property theorem is re-run on every check and compared with the allowlist",
    "tools/params.py (regex translator: constants of /repo/chitchat/src -> coq/theories/Params.v, regenerated every run)",
    "tools/guards.py (expression translator: 21 integer decision guards and frontier expressions of /repo/chitchat/src -> coq/theories/GuardsGen.v, regenerated every run; coq/theories/GuardTie.v proves the model's guards cut the same boundaries; a guard it cannot locate falls back to the model's own and is listed in the evidence)",
    "hand-written Gallina model coq/theories/*.v, tied to the code by the correspondence harness (harness/, Rust, links /repo/chitchat with feature verif) and extract/driver.ml",
    "extraction: ExtrOcamlBasic only (bool, option, list, prod, unit, sumbool -> OCaml natives), no Extract Constant / Extract Inductive of our own; OCaml 4.13.1 + zarith for number printing",
    "zstd is a section variable (zc/zd); at run time its answers are read back from the implementation's own streams",
]

# keys whose first character is multi-byte are only generated for the properties that are about them
NO_MB = {"VERIF_MB_KEYS": "0"}

# suites: (name, cases quick, cases thorough[, extra environment])
PROPS = {
    "C01": {
        "suites": [("conv", 60, 600), ("proc", 100, 1000), ("delta", 30, 200)],
        "title": "handshake progress (first stale member gets a non-empty node delta when header + one operation fit; the initiator applies it and its frontier strictly advances, nothing moves back), deliverable iff ahead, frontiers bounded by the owner's max version; over the global relation: world potential never lowered by a non-evaluation step, raised by every handshake of a quiet lagging initiator, bounded by copies*(V+1)^2; FAIR ROUNDS: in a quiet one-cluster world every fair round (a handshake for every ordered pair) started unconverged raises the potential, so at most copies*(V+1)^2 fair rounds start unconverged (Rounds.v); the same for arbitrary schedules with noise between the handshakes — stale/duplicate deliveries, unanswered SYNs, heartbeats, ticks, GC, writes, non-removing evaluations (Schedules.v); also exercised by the conv suite; KF-2 witness (quarantine makes the statement false)",
    },
    "C02": {
        "suites": [("kf1", 12, 60), ("proc", 300, 3000), ("conv", 30, 200), ("apply", 100, 1000), ("kv", 60, 400), ("catchup", 150, 1500)],
        "title": "in every state reachable without a weak acceptance (known finding KF-1), every copy and every message in flight is exact up to its frontier w.r.t. the owner's write ledger; with weak acceptances allowed the statement is refuted by a reachable 3-node history (vm_compute witness); the same with honest external catch-ups (any node fed any snapshot of any member at any time) in the step relation",
    },
    "C03": {
        "suites": [("proc", 250, 2500), ("apply", 100, 1000)],
        "title": "global invariant over all reachable states: every entry of every copy is a write of the owner with that version; max version, watermark and heartbeat never exceed the owner's; messages carry only owner writes",
    },
    "C04": {
        "suites": [("apply", 300, 3000), ("proc", 100, 1000), ("kv", 100, 600), ("catchup", 100, 1000)],
        "title": "frontier monotonicity of apply_delta / cluster apply for every grammar-valid delta; fresh versions of local writes; copy invariant inductive; along every step of the global relation from every reachable state no copy's frontier decreases (removal only by liveness evaluation) and no stored key version decreases unless the watermark strictly rose (keys disappear only as tombstones collected at or below the new watermark); every such step passes the C04 monitor",
    },
    "C05": {
        "suites": [("proc", 250, 2500)],
        "title": "in every reachable state, delivering any message ever sent leaves the node's own copy unchanged but for heartbeat+1; the owner is the most advanced copy of its own state",
    },
    "C06": {
        "suites": [("kv", 300, 3000), ("proc", 60, 600)],
        "title": "reads hide exactly plain tombstones; prefix iteration = visible keys with the prefix in key order; delete / delete_after_ttl / set_with_ttl as the model says (and other keys untouched); GC removes exactly entries at least one grace period old and raises the watermark to the highest collected version",
    },
    "C07": {
        "suites": [("fill", 24, 200), ("delta", 40, 300), ("proc", 60, 600)],
        "title": "stream upper bound sound for every compressor; delta within budget, version-prefix, scheduled members excluded; replies <= 65,507 bytes",
    },
    "C08": {
        "suites": [("wire", 150, 1200), ("proc", 60, 600), ("fill", 10, 60), ("delta", 30, 200)],
        "title": "decode(encode m) = (m, no rest) and announced length = written length, for every in-range message in emitted normal form and every compressor/decompressor pair; every message in flight in a reachable state has that form; primitives, ids, digest, block stream (any number of blocks), op stream and builder round trips; wire suite: byte-for-byte encoder agreement on emitted messages, decoder agreement on independently encoded (compressed / raw / multi-block) and malformed streams",
    },
    "C09": {
        "suites": [("wire", 120, 900), ("apply", 300, 3000), ("proc", 60, 600)],
        "title": "decoded messages are grammar-valid; processing them on any well-formed node never aborts and keeps the invariant",
    },
    "C10": {
        "suites": [("fd", 200, 2000), ("proc", 80, 800)],
        "title": "silent longer than threshold*max(max_interval,initial_interval) => not alive, for every window content; fewer than two reports => not alive; evaluation puts such a member in the dead set (exact arithmetic; f64 partial)",
    },
    "C11": {
        "suites": [("fd", 200, 2000), ("proc", 80, 800)],
        "title": "stale/equal/lower heartbeats leave the whole node unchanged; first value is not evidence; alive needs an interval; steady heartbeats stay alive; the stored heartbeat of a held member never decreases along any step of the global relation from any reachable state",
    },
    "C12": {
        "suites": [("fd", 200, 2000), ("proc", 120, 1200)],
        "title": "disjoint live/dead, self never classified nor removed, every other known member in exactly one set after an evaluation; quarantine of scheduled members in digests and deltas; removal at grace; no revival by stale heartbeats; for every message: a removed, remembered member is recreated only by a digest heartbeat strictly above the remembered one; in every reachable state the detector holds no state about a member the node holds no copy of; the removed-member memory is bounded by its capacity in every reachable state and keeps an entry through fewer than capacity further removals",
    },
    "C13": {
        "suites": [("proc", 150, 1500), ("fd", 150, 1500)],
        "title": "recorded membership = evaluated live members with current versions and verdicts; channel value = those with a true verdict; publish iff changed",
    },
    "C14": {
        "suites": [("proc", 120, 1200, NO_MB), ("delta", 40, 300), ("apply", 200, 2000)],
        "title": "agreement of sender's reset decision and receiver's admission for all copies and truncation points; tie to the MTU loop; every computed delta passes the start-version, offer and agreement monitors",
    },
    "C15": {
        "suites": [("listen", 200, 2000), ("kv", 100, 600)],
        "title": "dispatch = exactly the subscriptions whose prefix is a prefix of the key, for every sorted map of valid UTF-8 prefixes and every key; events iff accepted non-deleted insert",
    },
    "C16": {
        "suites": [("proc", 100, 1000), ("wire", 60, 400)],
        "title": "foreign SYN answered by BadCluster only, state untouched but the own heartbeat; rejection terminal; over every schedule of a routed network (loss, duplication, reordering, cross-cluster SYNs) no node ever holds a copy of a member of a cluster with a different id; the routed network is simulated by the global relation; the detector of a node names no member of another cluster",
    },
    "C17": {
        "suites": [("select", 60, 600), ("round", 200, 1500)],
        "title": "selection bounds, forced seed when isolated, forced dead peer when dead outnumber live, for every random-generator answer",
    },
    "C18": {
        "suites": [("catchup", 250, 2500)],
        "title": "catch-up never aborts, leaves the copy unchanged or replaces its key set with a strictly larger frontier, never touches detector sets / watch / removed members; every supplied key installed (newer of common keys kept); sampling windows untouched; honest catch-ups interleaved with gossip keep every copy integral and exact and the owner's copy the truth; fetched states stay honest; a snapshot of the node itself is a no-op",
    },
    "C19": {
        "suites": [("loop", 120, 1200), ("udp", 3, 12)],
        "title": "loop survives every benign event sequence with arbitrary send failures, stops with the right report on fatal error / panic / shutdown, lock discipline of every micro-trace (decision logic; runtime partial)",
    },
    "C20": {
        "suites": [("proc", 150, 1500), ("apply", 300, 3000)],
        "title": "callback counter +1 iff configured and some copy's watermark was raised (= reset) by the message",
    },
}


NOT_CLAIMED = {}


def known_findings(pid):
    path = os.path.join(ROOT, "known_findings.json")
    if not os.path.exists(path):
        return []
    with open(path) as f:
        data = json.load(f)
    return [k for k in data.get("findings", []) if k.get("property") == pid]


def match_known(known, monitor_line):
    """A monitor failure is attributed to a known finding only if the driver itself tagged the
    failing step with that finding's class (class=<id> on the MONITOR-FAIL line)."""
    m = re.search(r"class=(\S+)", monitor_line)
    if not m:
        return None
    for k in known:
        if k.get("status") == "open" and k.get("class") == m.group(1):
            return k
    return None


def disagreement_is_failing_input(pid, broken):
    """When model and implementation disagree on a concrete case where the implementation aborts
    (PANIC) and the property forbids aborts, the disagreement *is* the failing input."""
    for kind, msg in broken:
        if kind == "correspondence" and "impl:  PANIC" in msg and pid in PANIC_IS_VIOLATION:
            return True
        # C08 is about the codec itself: the real decoder/encoder disagreeing with the independent
        # implementation of the documented layout on a concrete byte string / message is the failing input
        if pid == "C08" and kind == "correspondence" and re.search(r"op:\s+(DECODE|ENCODE) ", msg):
            return True
        # C15: the model's listener calls are proved equal to the specification (every subscription
        # whose prefix matches, once, key stripped): the implementation's call log differing from them
        # on a concrete history is the failing input
        if pid == "C15" and kind == "correspondence" and re.search(r"op:\s+CALLS ", msg):
            return True
        # C06: the model's reads are proved equal to the specification (C06_get_visibility, C06_key_values,
        # C06_iter_prefix_exact); the implementation's answer to a read differing from them on a concrete
        # history of local writes is the failing input
        if pid == "C06" and kind == "correspondence" and re.search(r"op:\s+READ ", msg):
            return True
        # C19: the observables compared by the loop/udp suites (answered, running, heartbeating,
        # shutdown report) are exactly what the property talks about; the loop model is proved to
        # satisfy it, so the implementation's loop deviating on a concrete event script is the input
        if pid == "C19" and kind == "correspondence" and re.search(r"op:\s+(LEV|UDP)\b", msg):
            return True
    return False


# C08: Delta::serialize asserts that the bytes written equal the announced length — an abort while a
# computed reply is being serialized is that assertion (or its like) failing on a concrete message
# C07: an abort while a reply is being computed or serialized (the budget bookkeeping of the
# serializer asserting) means no reply within the limit was produced for that input
PANIC_IS_VIOLATION = {"C04", "C06", "C09", "C15", "C18", "C02", "C03", "C05", "C08", "C07"}
