"""Per-property configuration of ./check: correspondence suites (name, quick cases, thorough cases),
allowed axioms, notes for the evidence file; known-findings protocol."""
import json
import os
import re

ROOT = os.path.normpath(os.path.join(os.path.dirname(os.path.abspath(__file__)), ".."))

TRUSTED_BASE = [
    "Coq 8.16.1 kernel (coqc, full .vo compilation; vm_compute used for witness lemmas; native_compute not used)",
    "axioms: none expected — Print Assumptions of every property theorem is re-run on every check and compared with the allowlist",
    "tools/params.py (regex translator: constants of /repo/chitchat/src -> coq/theories/Params.v, regenerated every run)",
    "hand-written Gallina model coq/theories/*.v, tied to the code by the correspondence harness (harness/, Rust, links /repo/chitchat with feature verif) and extract/driver.ml",
    "extraction: ExtrOcamlBasic only (bool, option, list, prod, unit, sumbool -> OCaml natives), no Extract Constant / Extract Inductive of our own; OCaml 4.13.1 + zarith for number printing",
    "zstd is a section variable (zc/zd); at run time its answers are read back from the implementation's own streams",
]

# keys whose first character is multi-byte are only generated for the properties that are about them
NO_MB = {"VERIF_MB_KEYS": "0"}

# suites: (name, cases quick, cases thorough[, extra environment])
PROPS = {
    "C14": {
        "suites": [("proc", 120, 1200, NO_MB), ("kv", 40, 200, NO_MB)],
        "assumptions": ["per-member view mk_node_delta is tied to the MTU loop by DeltaRefine.v"],
    },
}


def known_findings(pid):
    path = os.path.join(ROOT, "known_findings.json")
    if not os.path.exists(path):
        return []
    with open(path) as f:
        data = json.load(f)
    return [k for k in data.get("findings", []) if k.get("property") == pid]


def match_known(known, monitor_line):
    """A monitor failure is attributed to a known finding only if the driver itself tagged the
    failing step with that finding's class (class=<id> on the MONITOR-FAIL line)."""
    m = re.search(r"class=(\S+)", monitor_line)
    if not m:
        return None
    for k in known:
        if k.get("status") == "open" and k.get("class") == m.group(1):
            return k
    return None


def disagreement_is_failing_input(pid, broken):
    """When model and implementation disagree on a concrete case where the implementation aborts
    (PANIC) and the property forbids aborts, the disagreement *is* the failing input."""
    for kind, msg in broken:
        if kind == "correspondence" and "impl:  PANIC" in msg and pid in PANIC_IS_VIOLATION:
            return True
    return False


PANIC_IS_VIOLATION = {"C04", "C06", "C09", "C15", "C18", "C02", "C03", "C05"}
