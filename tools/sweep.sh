#!/bin/sh
# tools/sweep.sh — clean-tree sweep at thorough sizes (harness + extracted model + monitors, no Coq build):
# every untagged monitor failure or disagreement it prints is a false alarm of the machinery (or a finding).
# Run after changing generators or monitors; takes about 25 minutes on 16 cores.
cd /verif
run() { s=$1; c=$2; seed=$3; f=/tmp/sw-$s-$seed.trace; VERIF_MB_KEYS=1 build/cargo/debug/vharness $s $seed $c $f > /dev/null 2>&1 || echo "HARNESS-FAIL $s $seed"; out=$(ulimit -s unlimited; build/extract/driver $f); echo "$s $seed: $(echo "$out" | tail -1)"; echo "$out" | grep "MONITOR-FAIL" | grep -v "class=KF" | sed 's/case=.*//' | sort | uniq -c | head -5; echo "$out" | grep -A3 "^MISMATCH" | head -8 | cut -c1-200; rm -f $f; }
for seed in 71 72 73; do
  run proc 3000 $seed &
  run conv 600 $seed &
  run catchup 2500 $seed &
  run fd 2800 $seed &
  wait
  run apply 3000 $seed &
  run kv 3000 $seed &
  run listen 2600 $seed &
  run wire 1200 $seed &
  wait
  run delta 300 $seed &
  run fill 200 $seed &
  run select 600 $seed &
  run round 600 $seed &
  run loop 1200 $seed &
  run kf1 60 $seed &
  wait
done
echo SWEEPDONE
