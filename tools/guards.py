#!/usr/bin/env python3
"""Regenerates coq/theories/GuardsGen.v from the decision guards in /repo's *current* sources.

A second small translator (the first is params.py, for constants).  Each SITE below is one boolean
guard over integers on which the model's behaviour hinges (admission of a delta, the sender's reset
decision, heartbeat freshness, sampling-window intervals, removal / quarantine instants, the
catch-up guards).  The guard's Rust expression is located inside the function that owns it — as the
initialiser of a named `let`, as the condition of the one `if` that mentions exactly the site's
operands, or as the body of a closure over them — and TRANSLATED (comparisons, `&& || !`, `+`,
`.max/.min`, integer literals, parentheses; operands renamed through the site's table) into a Coq
boolean function `rs_<site>`.  coq/theories/GuardTie.v (hand-written) proves, by `lia`, that the
model's functions are the decision trees over exactly these functions, so

  * respelling a guard (`a > b` as `b < a`, `!(a <= b)`, De Morgan, operand order) regenerates an
    equivalent function and the proofs go through unchanged;
  * changing what a guard decides (`<` for `<=`, another operand, a dropped conjunct) breaks a proof
    of GuardTie.v on the next run — before any random history has to hit the boundary.

A site that can no longer be located or parsed (code restructured) is NOT an alarm: its function is
emitted as the model's own guard (marked `fallback`), the tie holds trivially, the site is listed on
stdout as `GUARD-FALLBACK <site>` and in the evidence, and the correspondence suites alone carry
that guard.  Exit status is always 0 unless the sources cannot be read (2)."""
import os
import re
import sys

REPO = os.environ.get("VERIF_REPO", "/repo")
SRC = os.path.join(REPO, "chitchat", "src")
OUT = os.environ.get("VERIF_GUARDS_OUT",
                     os.path.join(os.path.dirname(os.path.abspath(__file__)), "..", "coq", "theories", "GuardsGen.v"))


def strip_comments(text):
    text = re.sub(r"/\*.*?\*/", " ", text, flags=re.S)
    return re.sub(r"//[^\n]*", "", text)


def strip_macros(text):
    """Removes logging macro invocations `info!( ... )`, `warn!`, `debug!`, `error!`, `trace!`."""
    out = []
    i = 0
    rx = re.compile(r"\b(?:info|warn|debug|error|trace)!\s*\(")
    while True:
        m = rx.search(text, i)
        if not m:
            out.append(text[i:])
            break
        out.append(text[i:m.start()])
        depth = 1
        j = m.end()
        in_str = False
        while j < len(text) and depth > 0:
            ch = text[j]
            if in_str:
                if ch == "\\":
                    j += 1
                elif ch == '"':
                    in_str = False
            elif ch == '"':
                in_str = True
            elif ch == "(":
                depth += 1
            elif ch == ")":
                depth -= 1
            j += 1
        i = j
    return "".join(out)


def function_bodies(text, name):
    """Bodies (text between the outer braces) of every `fn name`."""
    res = []
    for m in re.finditer(r"\bfn\s+" + re.escape(name) + r"\b", text):
        i = text.find("{", m.end())
        if i < 0:
            continue
        depth = 0
        j = i
        while j < len(text):
            if text[j] == "{":
                depth += 1
            elif text[j] == "}":
                depth -= 1
                if depth == 0:
                    break
            j += 1
        res.append(text[i + 1:j])
    return res


# ---------------------------------------------------------------------------------------------
# expression parser
class ParseError(Exception):
    pass


TOK = re.compile(r"\s*(?:(\d[\d_]*)(?:u8|u16|u32|u64|usize|i32|i64)?|(&&|\|\||<=|>=|==|!=|[<>!()+*&.,-])|([A-Za-z_][A-Za-z_0-9]*))")


def tokenize(s):
    toks = []
    i = 0
    s = s.strip()
    while i < len(s):
        m = TOK.match(s, i)
        if not m or m.end() == i:
            raise ParseError(f"cannot tokenize at {s[i:i+20]!r}")
        if m.group(1) is not None:
            toks.append(("int", m.group(1).replace("_", "")))
        elif m.group(2) is not None:
            toks.append(("op", m.group(2)))
        else:
            toks.append(("id", m.group(3)))
        i = m.end()
    return toks


class Parser:
    """or := and ('||' and)* ; and := not ('&&' not)* ; not := '!' not | cmp ;
       cmp := sum (relop sum)? ; sum := post ('+' post)* ;
       post := atom ('.max(' sum ')' | '.min(' sum ')')* ; atom := int | path | '(' or ')'"""

    def __init__(self, toks, varmap, ty):
        self.t = toks
        self.i = 0
        self.vars = varmap
        self.ty = ty  # "N" or "Z"
        self.used = set()

    def peek(self):
        return self.t[self.i] if self.i < len(self.t) else (None, None)

    def eat(self, kind=None, val=None):
        k, v = self.peek()
        if k is None or (kind and k != kind) or (val and v != val):
            raise ParseError(f"expected {val or kind}, got {v}")
        self.i += 1
        return v

    def parse(self):
        e = self.p_or()
        if self.i != len(self.t):
            raise ParseError(f"trailing tokens from {self.t[self.i:][:4]}")
        return e

    def p_or(self):
        e = self.p_and()
        while self.peek() == ("op", "||"):
            self.eat()
            e = f"orb ({e}) ({self.p_and()})"
        return e

    def p_and(self):
        e = self.p_not()
        while self.peek() == ("op", "&&"):
            self.eat()
            e = f"andb ({e}) ({self.p_not()})"
        return e

    def p_not(self):
        if self.peek() == ("op", "!"):
            self.eat()
            return f"negb ({self.p_not()})"
        # a parenthesised boolean expression
        if self.peek() == ("op", "("):
            save = self.i
            try:
                self.eat()
                e = self.p_or()
                self.eat("op", ")")
                k, v = self.peek()
                if not (k == "op" and v in ("<", "<=", ">", ">=", "==", "!=", "+", ".")):
                    return e
            except ParseError:
                pass
            self.i = save
        return self.p_cmp()

    def p_cmp(self):
        a = self.p_sum()
        k, v = self.peek()
        if k == "op" and v in ("<", "<=", ">", ">=", "==", "!="):
            self.eat()
            b = self.p_sum()
            T = self.ty
            return {
                "<": f"{T}.ltb ({a}) ({b})", "<=": f"{T}.leb ({a}) ({b})",
                ">": f"{T}.ltb ({b}) ({a})", ">=": f"{T}.leb ({b}) ({a})",
                "==": f"{T}.eqb ({a}) ({b})", "!=": f"negb ({T}.eqb ({a}) ({b}))",
            }[v]
        raise ParseError("not a comparison")

    def p_sum(self):
        e = self.p_post()
        while self.peek() == ("op", "+"):
            self.eat()
            e = f"{self.ty}.add ({e}) ({self.p_post()})"
        return e

    def p_post(self):
        e = self.p_atom()
        while self.peek() == ("op", ".") and self.i + 1 < len(self.t) and self.t[self.i + 1] in (("id", "max"), ("id", "min")):
            self.eat()
            f = self.eat("id")
            self.eat("op", "(")
            b = self.p_sum()
            self.eat("op", ")")
            e = f"{self.ty}.{f} ({e}) ({b})"
        return e

    def p_atom(self):
        k, v = self.peek()
        if k == "int":
            self.eat()
            return f"{v}%{self.ty}"
        if k == "op" and v == "(":
            self.eat()
            e = self.p_sum()
            self.eat("op", ")")
            return e
        # path: [*&]* id ('.' (id|int) | '()')*   — `.max(`/`.min(` with an argument end the path
        while self.peek() in (("op", "*"), ("op", "&")):
            self.eat()
        if self.peek()[0] != "id":
            raise ParseError(f"operand expected, got {v}")
        parts = [self.eat("id")]
        while True:
            k, v = self.peek()
            if k == "op" and v == ".":
                nk, nv = self.t[self.i + 1] if self.i + 1 < len(self.t) else (None, None)
                if nk == "id" and nv in ("max", "min") and self.i + 3 < len(self.t) and self.t[self.i + 2] == ("op", "(") \
                        and self.t[self.i + 3] != ("op", ")"):
                    break
                if nk in ("id", "int"):
                    self.eat()
                    self.eat()
                    parts.append(nv)
                    continue
                raise ParseError("dangling '.'")
            if k == "op" and v == "(" and self.i + 1 < len(self.t) and self.t[self.i + 1] == ("op", ")"):
                self.eat()
                self.eat()
                continue
            break
        path = ".".join(parts)
        if path not in self.vars:
            raise ParseError(f"unknown operand {path}")
        self.used.add(self.vars[path])
        return self.vars[path]


def translate(expr, varmap, ty, value=False):
    p = Parser(tokenize(expr), varmap, ty)
    if value:
        e = p.p_sum()
        if p.i != len(p.t):
            raise ParseError("trailing tokens")
    else:
        e = p.parse()
    return e, p.used


# ---------------------------------------------------------------------------------------------
# sites: name, file, function, how, operand table (Rust path -> Coq variable), parameter order,
#        type, fallback (the model's own guard), which operands the `if` condition must mention
def paths(*pairs):
    return dict(pairs)


CDS_VARS = paths(("node_delta.last_gc_version", "dgc"), ("self.last_gc_version", "cgc"), ("self.max_version", "cmax"),
                 ("node_delta.max_version", "dmax"), ("node_delta.from_version_excluded", "dfrom"))
CDS_PARAMS = ["dgc", "cgc", "cmax", "dmax", "dfrom"]

SITES = [
    # NodeState::check_delta_status (state.rs).  Every operand of the function is in every table, so
    # that a guard that starts looking at another operand is translated — and refuted — rather than
    # skipped; the three `if`s are told apart by what they must mention.
    dict(name="cds_future", file="state.rs", fn="check_delta_status", how="if", ty="N", vars=CDS_VARS, params=CDS_PARAMS,
         must=dict(include={"dfrom"}, min=2), fallback="N.ltb cmax dfrom"),
    dict(name="cds_compat", file="state.rs", fn="check_delta_status", how="let:compatible_without_reset", ty="N",
         vars=CDS_VARS, params=CDS_PARAMS, must=None, fallback="orb (N.leb dgc cgc) (N.leb dgc cmax)"),
    dict(name="cds_from_nonzero", file="state.rs", fn="check_delta_status", how="if", ty="N", vars=CDS_VARS, params=CDS_PARAMS,
         must=dict(exact={"dfrom"}), fallback="negb (N.eqb dfrom 0%N)"),
    dict(name="cds_newer", file="state.rs", fn="check_delta_status", how="if", ty="N", vars=CDS_VARS, params=CDS_PARAMS,
         must=dict(include={"dmax"}, exclude={"dfrom"}), fallback="N.ltb cmax dmax"),
    # the sender's reset decision (ClusterState::compute_partial_delta_respecting_mtu)
    dict(name="should_reset", file="state.rs", fn="compute_partial_delta_respecting_mtu", how="let:should_reset", ty="N",
         vars=paths(("digest_last_gc_version", "dgc"), ("digest_max_version", "dmax"), ("node_state.last_gc_version", "sgc"),
                    ("node_state.max_version", "smax")),
         params=["dgc", "dmax", "sgc", "smax"], must=None, fallback="andb (N.ltb dgc sgc) (N.ltb dmax sgc)"),
    # NodeState::try_set_heartbeat
    dict(name="hb_first", file="state.rs", fn="try_set_heartbeat", how="if", ty="N",
         vars=paths(("self.heartbeat.0", "hb"), ("heartbeat_new_value.0", "nhb")),
         params=["hb", "nhb"], must=dict(include={"hb"}), fallback="N.eqb hb 0%N"),
    dict(name="hb_fresh", file="state.rs", fn="try_set_heartbeat", how="if", ty="N",
         vars=paths(("heartbeat_new_value", "nhb"), ("self.heartbeat", "hb"), ("heartbeat_new_value.0", "nhb"), ("self.heartbeat.0", "hb")),
         params=["nhb", "hb"], must={"nhb", "hb"}, fallback="N.ltb hb nhb"),
    # SamplingWindow::report_heartbeat, FailureDetector::garbage_collect / scheduled_for_deletion_nodes
    dict(name="fd_interval", file="failure_detector.rs", fn="report_heartbeat", how="if", ty="Z",
         vars=paths(("interval", "interval"), ("self.max_interval", "maxi")),
         params=["interval", "maxi"], must={"interval", "maxi"}, fallback="Z.leb interval maxi"),
    dict(name="fd_gc", file="failure_detector.rs", fn="garbage_collect", how="if", ty="Z",
         vars=paths(("now", "now"), ("time_of_death", "tod"), ("self.config.dead_node_grace_period", "grace")),
         params=["now", "tod", "grace"], must={"now", "tod", "grace"}, fallback="Z.leb (Z.add tod grace) now"),
    dict(name="fd_sched", file="failure_detector.rs", fn="scheduled_for_deletion_nodes", how="if", ty="Z",
         vars=paths(("now", "now"), ("time_of_death", "tod"), ("half_dead_node_grace_period", "half")),
         params=["now", "tod", "half"], must={"now", "tod", "half"}, fallback="Z.ltb (Z.add tod half) now"),
    # Chitchat::report_heartbeat: re-creation of a removed member
    dict(name="recreate", file="lib.rs", fn="report_heartbeat", how="closure:last_heartbeat", ty="N",
         vars=paths(("last_heartbeat", "last"), ("heartbeat", "hb")),
         params=["last", "hb"], must={"last", "hb"}, fallback="N.ltb last hb"),
    # Chitchat::reset_node_state_if_update: the two guards
    dict(name="catchup_uptodate", file="lib.rs", fn="reset_node_state_if_update", how="if", ty="N",
         vars=paths(("node_state.max_version", "cmax"), ("max_version", "mx")),
         params=["cmax", "mx"], must={"cmax", "mx"}, fallback="N.leb mx cmax"),
    dict(name="catchup_obsolete", file="lib.rs", fn="reset_node_state_if_update", how="if", ty="N",
         vars=paths(("max_version", "mx"), ("node_state.last_gc_version", "cgc")),
         params=["mx", "cgc"], must={"mx", "cgc"}, fallback="N.ltb mx cgc"),
    # NodeState::gc_keys_marked_for_deletion: which tombstones are kept, and the new watermark
    dict(name="gc_keep", file="state.rs", fn="gc_keys_marked_for_deletion", how="if", ty="Z",
         vars=paths(("now", "now"), ("deleted_start_instant", "t"), ("grace_period", "grace")),
         params=["now", "t", "grace"], must={"now", "t", "grace"}, fallback="Z.ltb now (Z.add t grace)"),
    dict(name="gc_watermark", file="state.rs", fn="gc_keys_marked_for_deletion", how="assign:max_deleted_version", ty="N", value=True,
         vars=paths(("versioned_value.version", "ver"), ("max_deleted_version", "acc"), ("self.last_gc_version", "cgc")),
         params=["ver", "acc", "cgc"], must=None, fallback="N.max ver acc"),
    # NodeState::set_versioned_value: the max version it leaves, and which of two entries of a key wins
    dict(name="svv_max", file="state.rs", fn="set_versioned_value", how="assign:self.max_version", ty="N", value=True,
         vars=paths(("versioned_value_update.version", "ver"), ("self.max_version", "cmax")),
         params=["ver", "cmax"], must=None, fallback="N.max ver cmax"),
    dict(name="svv_older", file="state.rs", fn="set_versioned_value", how="if", ty="N",
         vars=paths(("occupied_versioned_value.version", "old"), ("versioned_value_update.version", "ver")),
         params=["old", "ver"], must={"old", "ver"}, fallback="N.leb ver old"),
    # NodeState::apply_delta: which key-values of a delta are skipped
    dict(name="apply_known", file="state.rs", fn="apply_delta", how="if", ty="N",
         vars=paths(("key_value_mutation.version", "ver"), ("current_max_version", "cmax"), ("self.last_gc_version", "cgc")),
         params=["ver", "cmax", "cgc"], must=dict(include={"ver", "cmax"}), fallback="N.leb ver cmax"),
    dict(name="apply_collected", file="state.rs", fn="apply_delta", how="if", ty="N",
         vars=paths(("key_value_mutation.version", "ver"), ("current_max_version", "cmax"), ("self.last_gc_version", "cgc")),
         params=["ver", "cmax", "cgc"], must=dict(include={"ver", "cgc"}), fallback="N.leb ver cgc"),
    # Chitchat::reset_node_state_if_update: the frontier it leaves
    dict(name="catchup_new_gc", file="lib.rs", fn="reset_node_state_if_update", how="let:new_last_gc_version", ty="N", value=True,
         vars=paths(("last_gc_version", "gc"), ("node_state.last_gc_version", "cgc"), ("max_version", "mx"), ("node_state.max_version", "cmax")),
         params=["gc", "cgc", "mx", "cmax"], must=None, fallback="N.max gc cgc"),
    dict(name="catchup_new_max", file="lib.rs", fn="reset_node_state_if_update", how="let:new_max_version", ty="N", value=True,
         vars=paths(("last_gc_version", "gc"), ("node_state.last_gc_version", "cgc"), ("max_version", "mx"), ("node_state.max_version", "cmax")),
         params=["gc", "cgc", "mx", "cmax"], must=None, fallback="N.max mx cmax"),
]


def candidates(body, site):
    how = site["how"]
    if how.startswith("let:"):
        nm = how[4:]
        return [m.group(1) for m in re.finditer(r"\blet\s+" + re.escape(nm) + r"\s*(?::\s*bool\s*)?=\s*(.*?);", body, flags=re.S)]
    if how.startswith("assign:"):
        lhs = how[7:]
        res = []
        for m in re.finditer(r"(?<![\w.])" + re.escape(lhs) + r"\s*=(?!=)\s*(.*?);", body, flags=re.S):
            before = body[:m.start()].rstrip()
            if before.endswith("let") or before.endswith("mut"):
                continue  # the declaration, not the update
            res.append(m.group(1))
        return res
    if how.startswith("closure:"):
        nm = how[8:]
        res = []
        for m in re.finditer(r"\|\s*&?\s*" + re.escape(nm) + r"\s*\|\s*", body):
            # closure body: up to the parenthesis that closes the call it is an argument of
            depth = 0
            j = m.end()
            while j < len(body):
                ch = body[j]
                if ch == "(":
                    depth += 1
                elif ch == ")":
                    if depth == 0:
                        break
                    depth -= 1
                j += 1
            res.append(body[m.end():j])
        return res
    # every `if <cond> {` (not `if let`)
    return [m.group(1) for m in re.finditer(r"\bif\s+(?!let\b)(.*?)\s*\{", body, flags=re.S)]


def must_ok(must, used):
    """must: None (no constraint), a set (exactly these operands), or a dict with any of
    `exact`, `include`, `exclude`, `min` (number of distinct operands)."""
    if not must:
        return True
    if isinstance(must, set):
        return used == must
    if "exact" in must and used != must["exact"]:
        return False
    if "include" in must and not must["include"] <= used:
        return False
    if "exclude" in must and must["exclude"] & used:
        return False
    if "min" in must and len(used) < must["min"]:
        return False
    return True


def find_site(sources, site):
    files = [site["file"]] + [f for f in sorted(sources) if f != site["file"]]
    for fn in files:
        text = sources.get(fn)
        if text is None:
            continue
        for body in function_bodies(text, site["fn"]):
            hits = []
            for cand in candidates(body, site):
                cand = " ".join(cand.split())
                try:
                    e, used = translate(cand, site["vars"], site["ty"], value=site.get("value", False))
                except ParseError:
                    continue
                if not must_ok(site["must"], used):
                    continue
                hits.append((cand, e))
            if len(hits) == 1:
                return fn, hits[0][0], hits[0][1]
            if len(hits) > 1:
                # the same guard written twice is fine; different ones are ambiguous
                if len({h[1] for h in hits}) == 1:
                    return fn, hits[0][0], hits[0][1]
                return None
    return None


def main():
    sources = {}
    try:
        for root, _d, files in os.walk(SRC):
            for f in sorted(files):
                if f.endswith(".rs") and f != "verif.rs":
                    p = os.path.join(root, f)
                    sources[os.path.relpath(p, SRC)] = strip_macros(strip_comments(open(p).read()))
    except OSError as e:
        print(f"GUARDS-ERROR cannot read {SRC}: {e}")
        return 2
    if not sources:
        print(f"GUARDS-ERROR no sources under {SRC}")
        return 2
    lines = ["(* GuardsGen.v — GENERATED on every run by tools/guards.py from the decision guards in the Rust",
             "   sources (see that file).  Do not edit: edit the sources or the site table. *)",
             "From Coq Require Import NArith ZArith Bool.", ""]
    for site in SITES:
        hit = find_site(sources, site)
        ty = site["ty"]
        params = " ".join(site["params"])
        if hit:
            fn, rust, coq = hit
            lines.append(f"(* {fn}, fn {site['fn']}: {rust} *)")
            rty = ty if site.get("value") else "bool"
            lines.append(f"Definition rs_{site['name']} ({params} : {ty}) : {rty} := {coq}.")
            print(f"GUARD {site['name']} {fn} :: {rust}")
        else:
            lines.append(f"(* fallback: the guard of fn {site['fn']} was not located in the sources; this is the model's own guard *)")
            rty = ty if site.get("value") else "bool"
            lines.append(f"Definition rs_{site['name']} ({params} : {ty}) : {rty} := {site['fallback']}.")
            print(f"GUARD-FALLBACK {site['name']}")
        lines.append("")
    new = "\n".join(lines)
    old = None
    try:
        old = open(OUT).read()
    except OSError:
        pass
    if old != new:
        with open(OUT, "w") as f:
            f.write(new)
    return 0


if __name__ == "__main__":
    sys.exit(main())
