#!/usr/bin/env python3
"""tools/matrix.py — for every seeded change: apply it to /repo, run the quick check of ITS property,
record the verdict, revert. Writes seeded/MATRIX.md. Never commits anything to /repo."""
import json, os, subprocess, sys, glob, re
ROOT = os.path.normpath(os.path.join(os.path.dirname(os.path.abspath(__file__)), ".."))
rows = []
only = set(sys.argv[1:])
for meta in sorted(glob.glob(os.path.join(ROOT, "seeded", "*", "meta.json"))):
    m = json.load(open(meta))
    d = os.path.dirname(meta)
    sid, pid = m["id"], m["property"]
    if only and sid not in only:
        continue
    patch = os.path.join(d, "patch.diff")
    st = subprocess.run(["git", "-C", "/repo", "status", "--short"], capture_output=True, text=True).stdout.strip()
    if st:
        print("refusing: /repo has local changes:\n" + st); sys.exit(2)
    if subprocess.run(["git", "-C", "/repo", "apply", patch]).returncode != 0:
        rows.append((sid, pid, "patch does not apply", "")); continue
    # the evidence file of the property is rewritten by the run on the PATCHED tree: keep the clean one
    evf = os.path.join(ROOT, "evidence", pid + ".json")
    saved = open(evf).read() if os.path.exists(evf) else None
    try:
        p = subprocess.run([os.path.join(ROOT, "check"), pid], capture_output=True, text=True, timeout=3000)
        out = p.stdout + p.stderr
    finally:
        subprocess.run(["git", "-C", "/repo", "checkout", "--", "."])
        if saved is not None:
            with open(evf, "w") as f:
                f.write(saved)
    vio = [l for l in out.split("\n") if l.startswith("VIOLATION ")]
    with_input = [l for l in vio if "no-failing-input-found" not in l]
    verdict = "MISSED" if p.returncode == 0 else ("caught, failing input" if with_input else "caught, no-failing-input-found")
    what = ""
    if with_input:
        rp = re.search(r"replay=(\S+)", with_input[0]).group(1)
        try:
            head = open(rp).read(600)
            mm = re.search(r"MONITOR-FAIL property=(\S+) (?:class=\S+ )?what=([^\n]{0,110})", head)
            what = f"monitor {mm.group(1)}: {mm.group(2)}" if mm else ("implementation PANIC / codec disagreement" if "PANIC" in head or "DECODE" in head or "CALLS" in head else "")
        except Exception:
            pass
    rows.append((sid, pid, verdict, what))
    print(sid, pid, verdict, what, flush=True)
if only:
    sys.exit(0)
with open(os.path.join(ROOT, "seeded", "MATRIX.md"), "w") as f:
    f.write("# Seeded changes vs. the quick check of their own property\n\n"
            "Produced by `tools/matrix.py` (applies each `seeded/<id>/patch.diff` to /repo, runs `./check <property>`, reverts).\n\n"
            "| seeded change | property | verdict of `./check <property>` | first failing input |\n|---|---|---|---|\n")
    for r in rows:
        f.write("| " + " | ".join(r) + " |\n")
print("written seeded/MATRIX.md", len(rows))
