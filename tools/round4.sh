#!/bin/sh
# usage: tools/round4.sh <worktree> <seeded-id> <suite:cases ...>
# confirm a sub-agent's change in its scratch worktree, then run the given suites of the harness
# against the worktree with the change applied (does not touch /repo)
WT="$1"; ID="$2"; shift 2
/verif/tools/confirm_mutant.sh "$WT" "$ID"
( cd "$WT" && git apply "/verif/seeded/$ID/patch.diff" )
/verif/tools/try_worktree.sh "$WT" "$@" > "/verif/seeded/$ID/try.log" 2>&1
( cd "$WT" && git apply -R "/verif/seeded/$ID/patch.diff" )
grep -c "FAILED\|ok\." "/verif/seeded/$ID/confirm.log" >/dev/null
echo "done $ID"
