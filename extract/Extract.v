(* Extract.v — the only file with extraction commands.  ExtrOcamlBasic only: bool, option,
   list, prod, unit, sumbool map to OCaml natives; N/Z/positive/byte stay Coq datatypes. *)
From Coq Require Import Extraction ExtrOcamlBasic.
From ChitchatModel Require Import Base SMap Ids Params Bytes NodeState Stream DeltaWire Message
  Cluster FD Chitchat World Monitors MonitorsD Listener Select Loop.
Extraction Language OCaml.
Extraction "model.ml"
  Byte.of_N Byte.to_N N.add N.mul N.div_eucl N.compare Z.add Z.mul Z.opp Z.compare Z.div_eucl
  bytes_cmp id_cmp
  World.step World.empty_world World.run World.world_digest
  Message.decode Message.encode Message.serialized_len Message.digest_len
  Chitchat.create_syn_message Chitchat.scheduled Chitchat.live_nodes Chitchat.dead_nodes
  Chitchat.own_copy Chitchat.compute_delta NodeState.into_status
  Cluster.stale_nodes Cluster.staleness_cmp Cluster.compute_digest
  NodeState.get NodeState.contains_key NodeState.key_values NodeState.num_key_values
  NodeState.iter_prefix NodeState.get_versioned
  Bytes.id_len
  Monitors.c02_ok Monitors.c03_ok Monitors.c04_nodes_ok Monitors.c05_own_ok Monitors.c07_delta_ok
  Monitors.digest_excludes Monitors.c14_delta_ok Monitors.c12_sets_ok Monitors.c12_after_eval_ok Monitors.c13_watch_ok
  MonitorsD.c14_offer_ok MonitorsD.c14_agree_ok Monitors.c20_ok Monitors.kvs_eqb Monitors.ledger_max Monitors.any_reset
  Listener.subscribe Listener.unsubscribe Listener.trigger_event Listener.expected_calls
  Loop.step Loop.ls_init Loop.discipline
  Select.select_nodes_for_gossip Select.oracle_valid
  Chitchat.eval_pred NodeState.check_delta_status NodeState.to_mstatus.
