(* conv.ml — conversions between OCaml values / text tokens and the extracted Coq datatypes.
   Hand-written glue (trusted base): no Obj.magic, numbers go through zarith. *)
module BZ = Z
open Model

exception Parse_error of string

let fail fmt = Printf.ksprintf (fun s -> raise (Parse_error s)) fmt

(* ---------- numbers ---------- *)
let rec pos_of_z (x : BZ.t) : positive =
  if BZ.equal x BZ.one then XH
  else
    let h = pos_of_z (BZ.shift_right x 1) in
    if BZ.testbit x 0 then XI h else XO h

let n_of_z (x : BZ.t) : n =
  if BZ.sign x < 0 then fail "negative N" else if BZ.sign x = 0 then N0 else Npos (pos_of_z x)

let cz_of_z (x : BZ.t) : z =
  if BZ.sign x = 0 then Z0 else if BZ.sign x > 0 then Zpos (pos_of_z x) else Zneg (pos_of_z (BZ.neg x))

let rec z_of_pos (p : positive) : BZ.t =
  match p with
  | XH -> BZ.one
  | XO q -> BZ.shift_left (z_of_pos q) 1
  | XI q -> BZ.succ (BZ.shift_left (z_of_pos q) 1)

let z_of_n (x : n) : BZ.t = match x with N0 -> BZ.zero | Npos p -> z_of_pos p
let z_of_cz (x : z) : BZ.t =
  match x with Z0 -> BZ.zero | Zpos p -> z_of_pos p | Zneg p -> BZ.neg (z_of_pos p)

let n_of_int (i : int) : n = n_of_z (BZ.of_int i)
let n_of_string (s : string) : n =
  try n_of_z (BZ.of_string s) with Invalid_argument _ -> fail "bad number %S" s
let cz_of_string (s : string) : z =
  try cz_of_z (BZ.of_string s) with Invalid_argument _ -> fail "bad number %S" s
let string_of_n (x : n) : string = BZ.to_string (z_of_n x)
let string_of_cz (x : z) : string = BZ.to_string (z_of_cz x)
let int_of_n (x : n) : int = BZ.to_int (z_of_n x)

let rec nat_of_int (i : int) : nat = if i <= 0 then O else S (nat_of_int (i - 1))
let rec int_of_nat (x : nat) : int = match x with O -> 0 | S y -> 1 + int_of_nat y

(* ---------- bytes ---------- *)
let byte_table : byte array =
  Array.init 256 (fun i -> match of_N (n_of_int i) with Some b -> b | None -> assert false)

let byte_of_int (i : int) : byte = byte_table.(i land 255)
let int_of_byte (b : byte) : int = int_of_n (to_N b)

(* reverse table for speed: bytes are compared by their N value *)
let int_of_byte_fast : byte -> int =
  let tbl = Hashtbl.create 512 in
  Array.iteri (fun i b -> Hashtbl.replace tbl b i) byte_table;
  fun b -> Hashtbl.find tbl b

let bytes_of_string (s : string) : bytes =
  let rec go i acc = if i < 0 then acc else go (i - 1) (byte_of_int (Char.code s.[i]) :: acc) in
  go (String.length s - 1) []

let string_of_bytes (b : bytes) : string =
  let buf = Buffer.create 64 in
  List.iter (fun x -> Buffer.add_char buf (Char.chr (int_of_byte_fast x))) b;
  Buffer.contents buf

let hexdigit c =
  match c with
  | '0' .. '9' -> Char.code c - 48
  | 'a' .. 'f' -> Char.code c - 87
  | 'A' .. 'F' -> Char.code c - 55
  | _ -> fail "bad hex digit %c" c

(* "-" is the empty string *)
let bytes_of_hex (s : string) : bytes =
  if s = "-" then []
  else begin
    let n = String.length s in
    if n mod 2 <> 0 then fail "odd hex length";
    let rec go i acc =
      if i < 0 then acc
      else go (i - 2) (byte_of_int ((hexdigit s.[i] lsl 4) lor hexdigit s.[i + 1]) :: acc)
    in
    go (n - 2) []
  end

let hex_of_string (s : string) : string =
  if s = "" then "-"
  else begin
    let buf = Buffer.create (2 * String.length s) in
    String.iter (fun c -> Buffer.add_string buf (Printf.sprintf "%02x" (Char.code c))) s;
    Buffer.contents buf
  end

let hex_of_bytes (b : bytes) : string = hex_of_string (string_of_bytes b)

(* ---------- ids: <hexname>/<gen>/<4|6>.<ip>.<port> ---------- *)
let id_of_token (t : string) : id =
  match String.split_on_char '/' t with
  | [ name; gen; a ] -> (
      match String.split_on_char '.' a with
      | [ v; ip; port ] ->
          let ip = n_of_string ip and port = n_of_string port in
          let addr =
            if v = "4" then V4 (ip, port) else if v = "6" then V6 (ip, port) else fail "bad ip version %s" v
          in
          { i_name = bytes_of_hex name; i_gen = n_of_string gen; i_addr = addr }
      | _ -> fail "bad addr %S" a)
  | _ -> fail "bad id %S" t

let token_of_id (i : id) : string =
  let v, ip, port = match i.i_addr with V4 (ip, p) -> ("4", ip, p) | V6 (ip, p) -> ("6", ip, p) in
  Printf.sprintf "%s/%s/%s.%s.%s" (hex_of_bytes i.i_name) (string_of_n i.i_gen) v (string_of_n ip)
    (string_of_n port)

let mstatus_of_int (i : int) : mstatus =
  match i with 0 -> MSet | 1 -> MDel | 2 -> MTtl | _ -> fail "bad status %d" i
let int_of_mstatus (s : mstatus) : int = match s with MSet -> 0 | MDel -> 1 | MTtl -> 2

(* ---------- token cursor ---------- *)
type cursor = { toks : string array; mutable pos : int }

let cursor_of_line (line : string) : cursor =
  let l = List.filter (fun s -> s <> "") (String.split_on_char ' ' line) in
  { toks = Array.of_list l; pos = 0 }

let next (c : cursor) : string =
  if c.pos >= Array.length c.toks then fail "unexpected end of line";
  let t = c.toks.(c.pos) in
  c.pos <- c.pos + 1;
  t

let peek (c : cursor) : string option =
  if c.pos >= Array.length c.toks then None else Some c.toks.(c.pos)

let at_end (c : cursor) : bool = c.pos >= Array.length c.toks
let next_int c = let t = next c in try int_of_string t with _ -> fail "bad int %S" t
let next_n c = n_of_string (next c)
let next_z c = cz_of_string (next c)
let next_hex c = bytes_of_hex (next c)

(* observation token of a value: hex, or ~<len>.<fnv1a-64> above 256 bytes (same as the harness) *)
let hexv (b : bytes) : string =
  let s = string_of_bytes b in
  if String.length s <= 256 then hex_of_string s
  else begin
    let h = ref 0xcbf29ce484222325L in
    String.iter (fun ch -> h := Int64.mul (Int64.logxor !h (Int64.of_int (Char.code ch))) 0x100000001b3L) s;
    Printf.sprintf "~%d.%016Lx" (String.length s) !h
  end
(* a value token read back from a dump: long values stay opaque tokens (compared only for equality) *)
let next_val c =
  let t = next c in
  if String.length t > 0 && t.[0] = '~' then bytes_of_string t else bytes_of_hex t
let next_id c = id_of_token (next c)
let expect c s = let t = next c in if t <> s then fail "expected %s, got %s" s t

let rec repeat n f = if n <= 0 then [] else let x = f () in x :: repeat (n - 1) f

(* ---------- messages (same text as chitchat::verif::verif_dump_message) ---------- *)
let parse_digest (c : cursor) : digest =
  expect c "D";
  let n = next_int c in
  (* the digest is a BTreeMap: the dump lists it in key order, keep that order *)
  repeat n (fun () ->
      let i = next_id c in
      let hb = next_n c in
      let gc = next_n c in
      let mx = next_n c in
      (i, { g_hb = hb; g_gc = gc; g_max = mx }))

let parse_delta (c : cursor) : delta =
  expect c "X";
  let l = next_n c in
  let n = next_int c in
  let nds =
    repeat n (fun () ->
        let i = next_id c in
        let gc = next_n c in
        let from = next_n c in
        let mx = next_n c in
        let nk = next_int c in
        let kvs =
          repeat nk (fun () ->
              let k = next_hex c in
              let v = next_hex c in
              let ver = next_n c in
              let st = mstatus_of_int (next_int c) in
              { m_key = k; m_val = v; m_ver = ver; m_st = st })
        in
        { d_id = i; d_from = from; d_gc = gc; d_kvs = kvs; d_max = mx })
  in
  { nds; dlen = l }

let parse_message (c : cursor) : message =
  match next c with
  | "SYN" ->
      let cl = next_hex c in
      let d = parse_digest c in
      Syn (cl, d)
  | "SYNACK" ->
      let d = parse_digest c in
      let x = parse_delta c in
      SynAck (d, x)
  | "ACK" -> Ack (parse_delta c)
  | "BADCLUSTER" -> BadCluster
  | t -> fail "bad message kind %S" t

let dump_digest (buf : Buffer.t) (d : digest) : unit =
  Buffer.add_string buf (Printf.sprintf "D %d" (List.length d));
  List.iter
    (fun (i, g) ->
      Buffer.add_string buf
        (Printf.sprintf " %s %s %s %s" (token_of_id i) (string_of_n g.g_hb) (string_of_n g.g_gc)
           (string_of_n g.g_max)))
    d

let dump_delta ?(with_len = true) (buf : Buffer.t) (x : delta) : unit =
  Buffer.add_string buf
    (Printf.sprintf "X %s %d" (if with_len then string_of_n x.dlen else "_") (List.length x.nds));
  List.iter
    (fun nd ->
      Buffer.add_string buf
        (Printf.sprintf " %s %s %s %s %d" (token_of_id nd.d_id) (string_of_n nd.d_gc)
           (string_of_n nd.d_from) (string_of_n nd.d_max) (List.length nd.d_kvs));
      List.iter
        (fun m ->
          Buffer.add_string buf
            (Printf.sprintf " %s %s %s %d" (hex_of_bytes m.m_key) (hex_of_bytes m.m_val)
               (string_of_n m.m_ver) (int_of_mstatus m.m_st)))
        nd.d_kvs)
    x.nds

let dump_message ?(with_len = true) (m : message) : string =
  let buf = Buffer.create 256 in
  (match m with
  | Syn (cl, d) ->
      Buffer.add_string buf (Printf.sprintf "SYN %s " (hex_of_bytes cl));
      dump_digest buf d
  | SynAck (d, x) ->
      Buffer.add_string buf "SYNACK ";
      dump_digest buf d;
      Buffer.add_char buf ' ';
      dump_delta ~with_len buf x
  | Ack x ->
      Buffer.add_string buf "ACK ";
      dump_delta ~with_len buf x
  | BadCluster -> Buffer.add_string buf "BADCLUSTER");
  Buffer.contents buf
