#!/bin/sh
# Extracts the model (coq/theories must already be compiled) and builds the OCaml driver.
set -e
cd "$(dirname "$0")"
mkdir -p ../build/extract
cp Extract.v conv.ml monitor.ml driver.ml ../build/extract/
cd ../build/extract
coqc -Q ../../coq/theories ChitchatModel Extract.v > extract.log 2>&1 || { cat extract.log; exit 1; }
ocamlfind ocamlopt -O3 -w -a -package zarith -linkpkg model.mli model.ml conv.ml monitor.ml driver.ml -o driver 2> ocaml.log \
  || ocamlfind ocamlopt -w -a -package zarith -linkpkg model.mli model.ml conv.ml monitor.ml driver.ml -o driver 2>> ocaml.log \
  || { cat ocaml.log; exit 1; }
echo "driver built: $(pwd)/driver"
