(* driver.ml — replays a trace produced by the Rust harness on the extracted Coq model and
   compares, step by step, the model's observations with those recorded from the
   implementation.  Prints one MISMATCH block per diverging case and a final DONE line. *)
open Model
open Conv

(* ---------- oracle tables for zstd ---------- *)
exception Oracle_miss of string

let zc_table : (string, string option) Hashtbl.t = Hashtbl.create 64
let zd_table : (string, string option) Hashtbl.t = Hashtbl.create 64
(* kernel path (see below): eligibility, size and compressor table of the current case *)
let k_ok = ref true
let k_size = ref 0
let k_zc : (string, string option) Hashtbl.t = Hashtbl.create 64

let zc (b : bytes) : bytes option =
  let k = string_of_bytes b in
  match Hashtbl.find_opt zc_table k with
  | Some (Some c) -> Some (bytes_of_string c)
  | Some None -> None
  | None ->
      raise (Oracle_miss (Printf.sprintf "zc(block of %d bytes; table has blocks of %s bytes)" (String.length k)
                            (String.concat "," (Hashtbl.fold (fun kk _ acc -> string_of_int (String.length kk) :: acc) zc_table []))))

let zd (b : bytes) : bytes option =
  let k = string_of_bytes b in
  match Hashtbl.find_opt zd_table k with
  | Some (Some d) -> Some (bytes_of_string d)
  | Some None -> None
  | None -> raise (Oracle_miss (Printf.sprintf "zd(block of %d bytes)" (String.length k)))

let raw_of_hex h = string_of_bytes (bytes_of_hex h)

(* `| ZC <k> (<block> <compressed or ->)*` ; `| ZD <k> (<compressed> <plain or !>)*` ; `| ORD <k> ids` *)
let parse_tail (c : cursor) : id list =
  Hashtbl.reset zc_table;
  Hashtbl.reset zd_table;
  let ord = ref [] in
  while not (at_end c) do
    expect c "|";
    match next c with
    | "ORD" ->
        let k = next_int c in
        ord := repeat k (fun () -> next_id c)
    | "ZC" ->
        let k = next_int c in
        for _ = 1 to k do
          let b = raw_of_hex (next c) in
          let t = next c in
          let v = if t = "!" then None else Some (raw_of_hex t) in
          Hashtbl.replace zc_table b v;
          if !k_ok then begin
            k_size := !k_size + 5 * (String.length b + (match v with Some x -> String.length x | None -> 0));
            Hashtbl.replace k_zc b v
          end
        done
    | "ZD" ->
        let k = next_int c in
        for _ = 1 to k do
          let b = raw_of_hex (next c) in
          let t = next c in
          Hashtbl.replace zd_table b (if t = "!" then None else Some (raw_of_hex t))
        done
    | t -> fail "bad tail section %S" t
  done;
  !ord

(* ---------- dumps ---------- *)
let sort_ids (l : id list) : id list =
  List.sort (fun a b -> match id_cmp a b with Lt -> -1 | Eq -> 0 | Gt -> 1) l

let status_tokens (s : status) : string =
  match s with
  | SSet -> "0 -"
  | SDel t -> "1 " ^ string_of_cz t
  | STtl t -> "2 " ^ string_of_cz t

let dump_copy (buf : Buffer.t) (i : id) (c : copy) : unit =
  Buffer.add_string buf
    (Printf.sprintf " %s %s %s %s %d" (token_of_id i) (string_of_n c.c_hb) (string_of_n c.c_gc)
       (string_of_n c.c_max) (List.length c.c_kvs));
  List.iter
    (fun (k, v) ->
      Buffer.add_string buf
        (Printf.sprintf " %s %s %s %s" (hex_of_bytes k) (hexv v.v_val) (string_of_n v.v_ver)
           (status_tokens v.v_st)))
    c.c_kvs

let dump_idlist (buf : Buffer.t) (name : string) (l : id list) : unit =
  Buffer.add_string buf (Printf.sprintf " %s %d" name (List.length l));
  List.iter (fun i -> Buffer.add_string buf (" " ^ token_of_id i)) l

let dump_node (now : z) (nd : node) : string =
  let buf = Buffer.create 512 in
  let nodes = nd.nd_cs.cs_nodes in
  Buffer.add_string buf (Printf.sprintf "nodes %d" (List.length nodes));
  List.iter (fun (i, c) -> dump_copy buf i c) nodes;
  dump_idlist buf "live" (sort_ids (live_nodes nd));
  dump_idlist buf "dead" (sort_ids (dead_nodes nd));
  dump_idlist buf "sched" (sort_ids (scheduled now nd));
  let gcn = List.sort (fun (a, _) (b, _) -> match id_cmp a b with Lt -> -1 | Eq -> 0 | Gt -> 1) nd.nd_cs.cs_gcn in
  Buffer.add_string buf (Printf.sprintf " gcn %d" (List.length gcn));
  List.iter (fun (i, hb) -> Buffer.add_string buf (Printf.sprintf " %s %s" (token_of_id i) (string_of_n hb))) gcn;
  Buffer.add_string buf (Printf.sprintf " watch %d" (List.length nd.nd_watch));
  List.iter
    (fun (i, c) ->
      Buffer.add_string buf
        (Printf.sprintf " %s %s %s %d" (token_of_id i) (string_of_n c.c_hb) (string_of_n c.c_max)
           (List.length c.c_kvs)))
    nd.nd_watch;
  Buffer.add_string buf (Printf.sprintf " sends %s cb %s" (string_of_n nd.nd_sends) (string_of_n nd.nd_cb));
  Buffer.contents buf

let no_events = ref false

let dump_events (evs : mevent list) : string =
  let evs = if !no_events then [] else evs in
  let buf = Buffer.create 64 in
  Buffer.add_string buf (Printf.sprintf "ev %d" (List.length evs));
  List.iter
    (fun ((i, k), v) ->
      Buffer.add_string buf (Printf.sprintf " %s %s %s" (token_of_id i) (hex_of_bytes k) (hexv v)))
    evs;
  Buffer.contents buf

(* ---------- parsing of operations ---------- *)
let parse_pred (c : cursor) : lpred =
  match next c with
  | "none" -> PNone
  | "hasentry" -> PHasEntry (next_hex c)
  | "visible" -> PVisible (next_hex c)
  | "valeq" ->
      let k = next_hex c in
      let v = next_hex c in
      PValueEq (k, v)
  | "maxeven" -> PMaxEven
  | t -> fail "bad predicate %S" t

let parse_join (c : cursor) : wop =
  let i = next_id c in
  let cl = next_hex c in
  let phi_num = next_z c in
  let phi_den = next_z c in
  let window = nat_of_int (next_int c) in
  let max_iv = next_z c in
  let init_iv = next_z c in
  let dead_grace = next_z c in
  let half_grace = next_z c in
  let kv_grace = next_z c in
  let p = parse_pred c in
  let has_cb = next_int c <> 0 in
  let ninit = next_int c in
  let initial =
    repeat ninit (fun () ->
        let k = next_hex c in
        let v = next_hex c in
        (k, v))
  in
  let fdc =
    { phi_num; phi_den; window_size = window; max_interval = max_iv; initial_interval = init_iv;
      dead_grace; half_grace }
  in
  WJoin ({ cf_id = i; cf_cluster = cl; cf_fd = fdc; cf_grace = kv_grace; cf_pred = p; cf_has_cb = has_cb }, initial)


(* ---------- kernel path: emit a case as Gallina so that coqc re-evaluates World.run by vm_compute ---------- *)
let k_dir = Sys.getenv_opt "VERIF_KERNEL_DIR"
let k_max = match Sys.getenv_opt "VERIF_KERNEL_K" with Some s -> (try int_of_string s with _ -> 0) | None -> 0
let k_emitted = ref 0
let k_ops : string list ref = ref []

let cq_n (x : n) : string = string_of_n x
let cq_z (x : z) : string = "(" ^ string_of_cz x ^ ")%Z"
let cq_nat (i : int) : string = string_of_int i ^ "%nat"
let cq_raw (s : string) : string =
  let b = Buffer.create (String.length s * 5 + 2) in
  Buffer.add_char b '[';
  String.iteri (fun i ch -> if i > 0 then Buffer.add_string b "; "; Buffer.add_string b (Printf.sprintf "x%02x" (Char.code ch))) s;
  Buffer.add_char b ']';
  Buffer.contents b
let cq_bytes (x : bytes) : string = cq_raw (string_of_bytes x)
let cq_list (f : 'a -> string) (l : 'a list) : string = "[" ^ String.concat "; " (List.map f l) ^ "]"
let cq_addr (a : addr) : string =
  match a with
  | V4 (ip, port) -> Printf.sprintf "(V4 %s %s)" (cq_n ip) (cq_n port)
  | V6 (ip, port) -> Printf.sprintf "(V6 %s %s)" (cq_n ip) (cq_n port)
let cq_id (i : id) : string = Printf.sprintf "(mkId %s %s %s)" (cq_bytes i.i_name) (cq_n i.i_gen) (cq_addr i.i_addr)
let cq_pred (p : lpred) : string =
  match p with
  | PNone -> "PNone"
  | PHasEntry k -> Printf.sprintf "(PHasEntry %s)" (cq_bytes k)
  | PVisible k -> Printf.sprintf "(PVisible %s)" (cq_bytes k)
  | PValueEq (k, v) -> Printf.sprintf "(PValueEq %s %s)" (cq_bytes k) (cq_bytes v)
  | PMaxEven -> "PMaxEven"
let cq_bool b = if b then "true" else "false"
let cq_cfg (c : config) : string =
  let f = c.cf_fd in
  Printf.sprintf "(mkCfg %s %s (mkFdCfg %s %s %s %s %s %s %s) %s %s %s)" (cq_id c.cf_id) (cq_bytes c.cf_cluster)
    (cq_z f.phi_num) (cq_z f.phi_den) (cq_nat (int_of_nat f.window_size)) (cq_z f.max_interval) (cq_z f.initial_interval)
    (cq_z f.dead_grace) (cq_z f.half_grace) (cq_z c.cf_grace) (cq_pred c.cf_pred) (cq_bool c.cf_has_cb)
let cq_mstatus (m : mstatus) = match m with MSet -> "MSet" | MDel -> "MDel" | MTtl -> "MTtl"
let cq_status (s : status) =
  match s with SSet -> "SSet" | SDel t -> Printf.sprintf "(SDel %s)" (cq_z t) | STtl t -> Printf.sprintf "(STtl %s)" (cq_z t)
let cq_digest (d : digest) : string =
  cq_list (fun (i, g) -> Printf.sprintf "(%s, mkNDg %s %s %s)" (cq_id i) (cq_n g.g_hb) (cq_n g.g_gc) (cq_n g.g_max)) d
let cq_delta (x : delta) : string =
  Printf.sprintf "(mkDelta %s %s)"
    (cq_list
       (fun nd ->
         Printf.sprintf "(mkND %s %s %s %s %s)" (cq_id nd.d_id) (cq_n nd.d_from) (cq_n nd.d_gc)
           (cq_list (fun m -> Printf.sprintf "(mkKvm %s %s %s %s)" (cq_bytes m.m_key) (cq_bytes m.m_val) (cq_n m.m_ver) (cq_mstatus m.m_st)) nd.d_kvs)
           (cq_n nd.d_max))
       x.nds)
    (cq_n x.dlen)
let cq_message (m : message) : string =
  match m with
  | Syn (cl, d) -> Printf.sprintf "(Syn %s %s)" (cq_bytes cl) (cq_digest d)
  | SynAck (d, x) -> Printf.sprintf "(SynAck %s %s)" (cq_digest d) (cq_delta x)
  | Ack x -> Printf.sprintf "(Ack %s)" (cq_delta x)
  | BadCluster -> "BadCluster"
let cq_wop (o : wop) : string =
  match o with
  | WJoin (cfg, init) -> Printf.sprintf "WJoin %s %s" (cq_cfg cfg) (cq_list (fun (k, v) -> Printf.sprintf "(%s, %s)" (cq_bytes k) (cq_bytes v)) init)
  | WSet (i, k, v) -> Printf.sprintf "WSet %s %s %s" (cq_nat (int_of_nat i)) (cq_bytes k) (cq_bytes v)
  | WSetTtl (i, k, v) -> Printf.sprintf "WSetTtl %s %s %s" (cq_nat (int_of_nat i)) (cq_bytes k) (cq_bytes v)
  | WDel (i, k) -> Printf.sprintf "WDel %s %s" (cq_nat (int_of_nat i)) (cq_bytes k)
  | WDelTtl (i, k) -> Printf.sprintf "WDelTtl %s %s" (cq_nat (int_of_nat i)) (cq_bytes k)
  | WGc i -> Printf.sprintf "WGc %s" (cq_nat (int_of_nat i))
  | WHeartbeat i -> Printf.sprintf "WHeartbeat %s" (cq_nat (int_of_nat i))
  | WTick dt -> Printf.sprintf "WTick %s" (cq_z dt)
  | WProc (i, m, ord) -> Printf.sprintf "WProc %s %s %s" (cq_nat (int_of_nat i)) (cq_message m) (cq_list cq_id ord)
  | WEval (i, o) ->
      Printf.sprintf "WEval %s %s" (cq_nat (int_of_nat i))
        (match o with Some l -> Printf.sprintf "(Some %s)" (cq_list cq_id l) | None -> "None")
  | WCatchup (i, m, kvs, mx, gc) ->
      Printf.sprintf "WCatchup %s %s %s %s %s" (cq_nat (int_of_nat i)) (cq_id m)
        (cq_list (fun (k, v) -> Printf.sprintf "(%s, mkVV %s %s %s)" (cq_bytes k) (cq_bytes v.v_val) (cq_n v.v_ver) (cq_status v.v_st)) kvs)
        (cq_n mx) (cq_n gc)

let k_record (o : wop) : unit =
  if k_dir <> None && !k_emitted < k_max && !k_ok then begin
    if !k_size > 120_000 then k_ok := false
    else begin
      let s = cq_wop o in
      k_size := !k_size + String.length s;
      k_ops := s :: !k_ops
    end
  end

let k_reset () = k_ops := []; k_ok := true; k_size := 0; Hashtbl.reset k_zc

(* ---------- the interpreter ---------- *)
type outcome = Obs of string | Skip

let world = ref empty_world
let case_name = ref "-"
let n_cases = ref 0
let n_ops = ref 0
let n_mismatch = ref 0
let n_inconclusive = ref 0
let n_panics_agreed = ref 0
let n_monitor_fails = ref 0
let mon_nodes = ref 0

(* listeners (C15): per node subscription map, and the calls made since the last CALLS op *)
let lsubs : (int, lmap) Hashtbl.t = Hashtbl.create 8
let lcalls : (int, string list) Hashtbl.t = Hashtbl.create 8
let lmap_of (i : int) : lmap = match Hashtbl.find_opt lsubs i with Some m -> m | None -> []

let dispatch_events (i : int) (evs : mevent list) : unit =
  let m = lmap_of i in
  if m <> [] then
    List.iter
      (fun ((member, k), v) ->
        let calls = trigger_event m k v in
        let strs =
          List.map
            (fun ((lid, k'), v') ->
              Printf.sprintf "%s %s %s %s" (string_of_n lid) (hex_of_bytes k') (hex_of_bytes v') (token_of_id member))
            calls
        in
        let old = match Hashtbl.find_opt lcalls i with Some l -> l | None -> [] in
        Hashtbl.replace lcalls i (old @ strs))
      evs

let parse_addr_tok (t : string) : addr =
  match String.split_on_char '.' t with
  | [ v; ip; port ] ->
      let ip = n_of_string ip and port = n_of_string port in
      if v = "4" then V4 (ip, port) else V6 (ip, port)
  | _ -> fail "bad addr %S" t

(* gossip loop (C19) *)
let lstate = ref ls_init
let pending_sends : outkind list ref = ref []
let ltrace : action list ref = ref []

let node_at (i : int) : node =
  match List.nth_opt !world.w_nodes i with Some n -> n | None -> fail "no node %d" i

let obs_after_step (i : int) (r : (world * obs) result) ~(with_reply : bool) : string =
  match r with
  | Panic -> k_ok := false; "PANIC"
  | Err -> k_ok := false; "MODEL-ERR illegal-order"
  | Ok (w, o) ->
      world := w;
      dispatch_events i o.o_events;
      let nd = node_at i in
      let reply =
        if with_reply then
          match o.o_reply with
          | None -> "reply none bytes 0 | "
          | Some m ->
              Printf.sprintf "reply %s bytes %s | " (dump_message m) (string_of_n (serialized_len m))
        else ""
      in
      Printf.sprintf "%s%s | %s" reply (dump_events o.o_events) (dump_node w.w_now nd)

let parse_catchup_kvs (c : cursor) (now : z) : (bytes * vv) list =
  let nk = next_int c in
  repeat nk (fun () ->
      let k = next_hex c in
      let v = next_hex c in
      let ver = next_n c in
      let st = mstatus_of_int (next_int c) in
      (k, { v_val = v; v_ver = ver; v_st = into_status st now }))

let kstep (o : wop) = k_record o; step zc !world o

let exec (c : cursor) : outcome =
  match next c with
  | "JOIN" ->
      let op = parse_join c in
      let i = List.length !world.w_nodes in
      Obs (obs_after_step i (kstep op) ~with_reply:false)
  | "SET" ->
      let i = next_int c in
      let k = next_hex c in
      let v = next_hex c in
      Obs (obs_after_step i (kstep (WSet (nat_of_int i, k, v))) ~with_reply:false)
  | "SETTTL" ->
      let i = next_int c in
      let k = next_hex c in
      let v = next_hex c in
      Obs (obs_after_step i (kstep (WSetTtl (nat_of_int i, k, v))) ~with_reply:false)
  | "DEL" ->
      let i = next_int c in
      let k = next_hex c in
      Obs (obs_after_step i (kstep (WDel (nat_of_int i, k))) ~with_reply:false)
  | "DELTTL" ->
      let i = next_int c in
      let k = next_hex c in
      Obs (obs_after_step i (kstep (WDelTtl (nat_of_int i, k))) ~with_reply:false)
  | "GC" ->
      let i = next_int c in
      Obs (obs_after_step i (kstep (WGc (nat_of_int i))) ~with_reply:false)
  | "HB" ->
      let i = next_int c in
      Obs (obs_after_step i (kstep (WHeartbeat (nat_of_int i))) ~with_reply:false)
  | "TICK" ->
      let dt = next_z c in
      (match kstep (WTick dt) with Ok (w, _) -> world := w | _ -> k_ok := false);
      Obs ("now " ^ string_of_cz !world.w_now)
  | "PROC" ->
      let i = next_int c in
      let m = parse_message c in
      let ord = parse_tail c in
      Obs (obs_after_step i (kstep (WProc (nat_of_int i, m, ord))) ~with_reply:true)
  | "EVAL" ->
      let i = next_int c in
      let k = next_int c in
      let live = repeat k (fun () -> next_id c) in
      Obs (obs_after_step i (kstep (WEval (nat_of_int i, Some live))) ~with_reply:false)
  | "CATCHUP" ->
      let i = next_int c in
      let m = next_id c in
      let mx = next_n c in
      let gc = next_n c in
      let kvs = parse_catchup_kvs c !world.w_now in
      Obs (obs_after_step i (kstep (WCatchup (nat_of_int i, m, kvs, mx, gc))) ~with_reply:false)
  | "SYN" ->
      let i = next_int c in
      Obs (dump_message (create_syn_message !world.w_now (node_at i)) ^ " | " ^ dump_node !world.w_now (node_at i))
  | "READ" ->
      let i = next_int c in
      let m = next_id c in
      let k = next_hex c in
      let p = next_hex c in
      let nd = node_at i in
      (match nm_get m nd.nd_cs.cs_nodes with
      | None -> Obs "absent"
      | Some cp ->
          let buf = Buffer.create 128 in
          Buffer.add_string buf
            (Printf.sprintf "get %s contains %d"
               (match get cp k with Some v -> hex_of_bytes v | None -> "none")
               (if contains_key cp k then 1 else 0));
          (match get_versioned cp k with
          | Some v ->
              Buffer.add_string buf
                (Printf.sprintf " versioned %s %s %s" (hex_of_bytes v.v_val) (string_of_n v.v_ver)
                   (status_tokens v.v_st))
          | None -> Buffer.add_string buf " versioned none");
          let kvs = key_values cp in
          Buffer.add_string buf (Printf.sprintf " num %s kvs %d" (string_of_n (num_key_values cp)) (List.length kvs));
          List.iter (fun (k, v) -> Buffer.add_string buf (Printf.sprintf " %s %s" (hex_of_bytes k) (hex_of_bytes v))) kvs;
          let pf = iter_prefix cp p in
          Buffer.add_string buf (Printf.sprintf " prefix %d" (List.length pf));
          List.iter
            (fun (k, v) ->
              Buffer.add_string buf (Printf.sprintf " %s %s %s" (hex_of_bytes k) (hex_of_bytes v.v_val) (string_of_n v.v_ver)))
            pf;
          Obs (Buffer.contents buf))
  | "DELTA" ->
      let i = next_int c in
      let dg = parse_digest c in
      let mtu = next_n c in
      let ns = next_int c in
      let sched = repeat ns (fun () -> next_id c) in
      let ord = parse_tail c in
      let nd = node_at i in
      (match compute_delta zc nd.nd_cs dg mtu sched ord with
      | Panic -> Obs "PANIC"
      | Err -> Obs "MODEL-ERR illegal-order"
      | Ok x ->
          let m = Ack x in
          Obs (Printf.sprintf "%s bytes %s" (dump_message m) (string_of_n (serialized_len m))))
  | "SUB" ->
      let i = next_int c in
      let lid = next_n c in
      let p = next_hex c in
      Hashtbl.replace lsubs i (subscribe (lmap_of i) p lid);
      Obs "ok"
  | "UNSUB" ->
      let i = next_int c in
      let lid = next_n c in
      let p = next_hex c in
      Hashtbl.replace lsubs i (unsubscribe (lmap_of i) p lid);
      Obs "ok"
  | "CALLS" ->
      let i = next_int c in
      let l = match Hashtbl.find_opt lcalls i with Some l -> l | None -> [] in
      Hashtbl.replace lcalls i [];
      let l = List.sort compare l in
      Obs (String.concat " " (string_of_int (List.length l) :: l))
  | "SELECT" ->
      let addrs tag =
        expect c tag;
        let k = next_int c in
        repeat k (fun () -> parse_addr_tok (next c))
      in
      let peers = addrs "P" in
      let live = addrs "L" in
      let dead = addrs "D" in
      let seeds = addrs "S" in
      let sample = addrs "SAMPLE" in
      expect c "DRAWS";
      let k = next_int c in
      let draws = repeat k (fun () -> next_n c) in
      let opt tag =
        expect c tag;
        let t = next c in
        if t = "none" then None else Some (parse_addr_tok t)
      in
      let dp = opt "DEADPICK" in
      let sp = opt "SEEDPICK" in
      let o = { or_sample = sample; or_draws = draws; or_dead = dp; or_seed = sp } in
      (* a pick the implementation did not make tells nothing about the generator: only picks
         that were made are validated *)
      let sel = select_nodes_for_gossip peers live dead seeds o in
      let valid =
        oracle_valid peers live
          (if dp = None then [] else dead)
          (if sp = None then [] else seeds) o in
      Obs (Printf.sprintf "valid %d dead %d seed %d draws %d" (if valid then 1 else 0)
             (if sel.sel_dead_decided then 1 else 0) (if sel.sel_seed_decided then 1 else 0)
             (int_of_nat sel.sel_draws_used))
  | "ROUND" | "ROUNDSEND" | "HS" | "HSEND" | "GROUND" | "HONEST" -> Obs "ok"
  | "LEV" ->
      let ev =
        match next c with
        | "tick" -> Some ETick
        | "recv" -> (
            match next c with
            | "syn" ->
                let same = next_int c <> 0 in
                let k = next_n c in
                Some (ERecv (KSyn (same, k), false))
            | "synack" -> Some (ERecv (KSynAck (next_n c), false))
            | "ack" -> Some (ERecv (KAck, false))
            | "badcluster" -> Some (ERecv (KBadCluster, false))
            | t -> fail "bad recv kind %S" t)
        | "recvskipped" -> Some ERecvSkipped
        | "recvfatal" -> Some ERecvFatal
        | "cmdgossip" -> Some ECmdGossip
        | "userlock" -> Some EUserLock
        | "shutdown" -> Some ECmdShutdown
        | "gossipthenshutdown" ->
            (* two commands queued back to back: the first is stepped here, the second below *)
            let s1, acts1 = step0 !lstate ECmdGossip in
            lstate := s1;
            ltrace := !ltrace @ acts1;
            pending_sends := List.filter_map (fun a -> match a with ASend k -> Some k | _ -> None) acts1;
            Some ECmdShutdown
        | "finalshutdown" -> None
        | t -> fail "bad loop event %S" t
      in
      (match ev with
       | None ->
           (* a shutdown request always completes; the whole micro-trace respected the lock discipline *)
           Obs (if discipline N0 !ltrace then "shutdown-completed" else "shutdown-completed-but-lock-discipline-broken")
       | Some e ->
           let s', acts = step0 !lstate e in
           lstate := s';
           (* the harness itself takes the lock after every event to read the heartbeat *)
           ltrace := !ltrace @ acts @ [ AUserLock; AUserUnlock ];
           let sends = !pending_sends @ List.filter_map (fun a -> match a with ASend k -> Some k | _ -> None) acts in
           pending_sends := [];
           let kind = function OSyn -> "syn" | OSynAck -> "synack" | OAck -> "ack" | OBadCluster -> "badcluster" in
           Obs (Printf.sprintf "stopped %s hb %s sends %d%s lockviol 0"
                  (match s'.ls_stopped with None -> "none" | Some LOk -> "ok" | Some LErr -> "err" | Some LPanicked -> "panicked")
                  (string_of_n (N.add (Npos XH) s'.ls_hb_incs))
                  (List.length sends)
                  (String.concat "" (List.map (fun k -> " " ^ kind k) sends))))
  | "UDP" -> Obs "answered 1 running 1 heartbeating 1 shutdown 1"
  | "DECODE" | "DECODEOK" ->
      let b = next_hex c in
      let _ = parse_tail c in
      (match decode zd b with
      | None -> Obs "ERR"
      | Some (m, rest) ->
          Obs (Printf.sprintf "OK %s rest %d slen %s" (dump_message m) (List.length rest)
                 (string_of_n (serialized_len m))))
  | "ENCODE" ->
      let m = parse_message c in
      let _ = parse_tail c in
      (match encode zc m with
      | Ok b -> Obs (hex_of_bytes b)
      | Err -> Obs "ERR"
      | Panic -> Obs "PANIC")
  | t -> fail "unknown op %S" t


let k_flush (skipping : bool) : unit =
  (match k_dir with
   | Some dir when !k_ok && (not skipping) && !k_ops <> [] && !k_emitted < k_max ->
       let name = Printf.sprintf "k_%d" !k_emitted in
       incr k_emitted;
       let oc = open_out (Filename.concat dir (name ^ ".v")) in
       output_string oc "From ChitchatModel Require Import Base SMap Ids Bytes Params NodeState Stream DeltaWire Message Cluster FD Chitchat World.\nLocal Open Scope N_scope.\n";
       output_string oc "Definition tab : list (bytes * option bytes) :=\n  [";
       let first = ref true in
       Hashtbl.iter
         (fun b v ->
           if not !first then output_string oc ";\n   ";
           first := false;
           output_string oc (Printf.sprintf "(%s, %s)" (cq_raw b) (match v with Some x -> "Some " ^ cq_raw x | None -> "None")))
         k_zc;
       output_string oc "].\n";
       output_string oc "Definition zc (b : bytes) : option bytes :=\n  match find (fun e => bytes_eqb (fst e) b) tab with Some e => snd e | None => None end.\n";
       output_string oc "Definition ops : list wop :=\n  [";
       output_string oc (String.concat ";\n   " (List.rev !k_ops));
       output_string oc "].\n";
       output_string oc "Eval vm_compute in (match run zc empty_world ops with Ok w => Some (world_digest w) | _ => None end).\n";
       close_out oc;
       Printf.printf "KERNEL-CASE %s %s %s\n" name !case_name
         (String.concat " " (List.map string_of_n (world_digest !world)))
   | _ -> ());
  k_reset ()

let first_diff (a : string) (b : string) : int =
  let n = min (String.length a) (String.length b) in
  let rec go i = if i < n && a.[i] = b.[i] then go (i + 1) else i in
  go 0

let excerpt (s : string) (at : int) : string =
  let start = max 0 (at - 160) in
  let stop = min (String.length s) (at + 240) in
  (if start > 0 then "..." else "") ^ String.sub s start (stop - start) ^ if stop < String.length s then "..." else ""

let () =
  let path = Sys.argv.(1) in
  let ic = open_in path in
  let lineno = ref 0 in
  let skipping = ref false in
  let read () = incr lineno; input_line ic in
  (try
     while true do
       let line = read () in
       if String.length line = 0 || line.[0] = '#' then ()
       else if String.length line >= 5 && String.sub line 0 5 = "CASE " then begin
         k_flush !skipping;
         case_name := String.sub line 5 (String.length line - 5);
         world := empty_world;
         skipping := false;
         no_events := false;
         Hashtbl.reset lsubs; Hashtbl.reset lcalls;
         lstate := ls_init; ltrace := [];
         Monitor.reset_case ();
         mon_nodes := 0;
         incr n_cases
       end
       else if line = "OPT noevents" then no_events := true
       else if line.[0] = '=' then () (* stray observation *)
       else begin
         let op_line = !lineno in
         let c = cursor_of_line line in
         let impl_line = read () in
         let impl =
           if String.length impl_line >= 2 && String.sub impl_line 0 2 = "= " then
             String.sub impl_line 2 (String.length impl_line - 2)
           else "<missing observation>"
         in
         incr n_ops;
         (try
            let mc = cursor_of_line line in
            (match next mc with
             | "JOIN" ->
                 (match parse_join mc with
                  | WJoin (cfg, _) ->
                      Monitor.on_join !mon_nodes { Monitor.self = cfg.cf_id; has_cb = cfg.cf_has_cb; pred = cfg.cf_pred; fdc = cfg.cf_fd; cluster = cfg.cf_cluster } impl;
                      incr mon_nodes
                  | _ -> ())
             | ("SET" | "SETTTL" | "DEL" | "DELTTL") as kind ->
                 let i = next_int mc in
                 let k = next_hex mc in
                 let v = if kind = "SET" || kind = "SETTTL" then next_hex mc else [] in
                 let before = Hashtbl.find_opt Monitor.snaps i in
                 Monitor.on_local i impl ~is_write:true;
                 Monitor.on_write_model i kind k v before impl
             | "GC" ->
                 let i = next_int mc in
                 let before = Hashtbl.find_opt Monitor.snaps i in
                 Monitor.on_local i impl ~is_write:false;
                 Monitor.on_gc_model i before impl
             | "HB" -> Monitor.on_local (next_int mc) impl ~is_write:false
             | "PROC" ->
                 let i = next_int mc in
                 let m = parse_message mc in
                 Monitor.on_proc i m impl
             | "EVAL" -> Monitor.on_eval (next_int mc) impl
             | "TICK" -> Monitor.on_tick impl
             | "SYN" -> Monitor.on_syn (next_int mc) impl
             | "CATCHUP" ->
                 let i = next_int mc in
                 let m = next_id mc in
                 let _mx = next_n mc in
                 let _gc = next_n mc in
                 let kvs = parse_catchup_kvs mc !world.w_now in
                 Monitor.on_catchup ~member:m ~supplied:kvs i impl
             | "SELECT" ->
                 (* C17 on the implementation's own answer: dead peers outnumber live ones => a dead
                    peer is contacted; no live peer and some seed => a seed is contacted *)
                 let count tag = expect mc tag; let k = next_int mc in ignore (repeat k (fun () -> next mc)); k in
                 let _np = count "P" in
                 let nl = count "L" in
                 let nd = count "D" in
                 let ns = count "S" in
                 let ic = cursor_of_line impl in
                 (try
                    expect ic "valid"; ignore (next ic);
                    expect ic "dead"; let d = next_int ic in
                    expect ic "seed"; let sd = next_int ic in
                    Monitor.check "C17" (not (nl < nd) || d = 1)
                      (Printf.sprintf "%d dead peers outnumber %d live peers but no dead peer was contacted" nd nl);
                    Monitor.check "C17" (not (nl = 0 && ns > 0) || sd = 1)
                      "no live peer and a configured seed, but no seed was contacted"
                  with _ -> ())
             | "GROUND" ->
                 (* C17 on one real gossip round: destinations of the SYNs vs the four pools *)
                 let self = next mc in
                 let lst tag = expect mc tag; let k = next_int mc in repeat k (fun () -> next mc) in
                 let p = lst "P" in
                 let l = lst "L" in
                 let dd = lst "D" in
                 let sd = lst "S" in
                 let dests = lst "DESTS" in
                 let mem x xs = List.mem x xs in
                 let base = if l = [] then p else l in
                 Monitor.check "C17" (not (mem self dests)) "a gossip round contacted the node's own address";
                 Monitor.check "C17" (List.for_all (fun x -> mem x base || mem x dd || mem x sd) dests)
                   "a gossip round contacted an address that is in none of the pools (live or known peers, dead, seeds)";
                 Monitor.check "C17" (List.length (List.filter (fun x -> not (mem x dd) && not (mem x sd)) dests) <= 3
                                      && List.length dests <= 5
                                      && List.length (List.filter (fun x -> not (mem x base)) dests) <= 2)
                   "a gossip round contacted more than three live peers, or more than one dead peer / seed";
                 Monitor.check "C17" (not (l = [] && sd <> []) || List.exists (fun x -> mem x sd) dests)
                   "no live peer and a configured seed, but the round contacted no seed";
                 Monitor.check "C17" (not (List.length l < List.length dd) || List.exists (fun x -> mem x dd) dests)
                   "dead peers outnumber live peers but the round contacted no dead peer"
             | "ROUND" -> Monitor.on_round (next_int mc)
             | "ROUNDSEND" -> Monitor.on_rounds_end (next_int mc)
             | "HONEST" ->
                 Monitor.next_catchup_honest := true;
                 Monitor.next_catchup_source := (try Some (next_int mc) with _ -> None)
             | "DECODEOK" ->
                 Monitor.check "C08" (String.length impl >= 2 && String.sub impl 0 2 = "OK")
                   "a byte string produced by an independent implementation of the documented layout (well-formed message, block payloads of at most 65,535 bytes) was not decoded"

             | "HS" -> let a = next_int mc in let b = next_int mc in Monitor.on_hs_begin a b
             | "HSEND" -> let a = next_int mc in let b = next_int mc in Monitor.on_hs_end a b
             | "DELTA" ->
                 let i = next_int mc in
                 let dg = parse_digest mc in
                 let mtu = next_int mc in
                 let ns = next_int mc in
                 let sched = repeat ns (fun () -> next_id mc) in
                 Monitor.on_delta ~dg i mtu sched impl
             | _ -> ());
            List.iter
              (fun f ->
                incr n_monitor_fails;
                Printf.printf "MONITOR-FAIL %s case=%s line=%d\n" f !case_name op_line)
              (Monitor.take_fails ())
          with Parse_error e ->
            Printf.printf "MONITOR-PARSE-ERROR case=%s line=%d %s\n" !case_name op_line e);
         if !skipping && impl = "PANIC" then begin
           (* the implementation aborts later in a case that had already diverged: still report it *)
           incr n_mismatch;
           let opx = if String.length line > 300 then String.sub line 0 300 ^ "..." else line in
           Printf.printf "MISMATCH case=%s line=%d at=0\n  op:    %s\n  impl:  PANIC\n  model: <not evaluated: this case had already diverged at an earlier operation>\n"
             !case_name op_line opx
         end;
         let model =
           if !skipping then None else
           try (match exec c with Obs s -> Some s | Skip -> None) with
           | Oracle_miss w ->
               if impl = "PANIC" then Some ("<no abort: the model went on to ask the " ^ w ^ " oracle>")
               else if String.length w >= 2 && String.sub w 0 2 = "zc" then
                 Some ("<the model flushes a block the implementation never produced: truncation points differ; " ^ w ^ ">")
               else begin
                 incr n_inconclusive; skipping := true;
                 Printf.printf "INCONCLUSIVE case=%s line=%d oracle=%s\n" !case_name op_line w; None
               end
           | Parse_error e -> Printf.printf "TRACE-ERROR case=%s line=%d %s\n" !case_name op_line e;
               incr n_mismatch; skipping := true; None
         in
         match model with
         | None -> ()
         | Some m ->
             if m = impl then begin
               if m = "PANIC" then (incr n_panics_agreed; skipping := true)
             end
             else begin
               incr n_mismatch;
               skipping := true;
               let at = first_diff m impl in
               let opx = if String.length line > 300 then String.sub line 0 300 ^ "..." else line in
               Printf.printf "MISMATCH case=%s line=%d at=%d\n  op:    %s\n  impl:  %s\n  model: %s\n" !case_name
                 op_line at opx (excerpt impl at) (excerpt m at)
             end
       end
     done
   with End_of_file -> ());
  k_flush !skipping;
  Printf.printf "DONE cases=%d ops=%d mismatches=%d inconclusive=%d panics_agreed=%d monitor_checks=%d monitor_fails=%d\n"
    !n_cases !n_ops !n_mismatch !n_inconclusive !n_panics_agreed !Monitor.n_checks !n_monitor_fails
