(* monitor.ml — evaluates the extracted boolean property monitors (coq/theories/Monitors.v) on
   the states dumped from the IMPLEMENTATION, step by step along a trace.  Independent of the
   model's own execution: it keeps working when model and implementation diverge. *)
open Model
open Conv

type snap = {
  nodes : (id * copy) list;        (* BTreeMap order *)
  live : id list;
  dead : id list;
  sched : id list;
  gcn : (id * n) list;
  watch : (id * n) list;           (* (member, max_version) *)
  sends : n;
  cb : n;
}

type nodeinfo = { self : id; has_cb : bool; pred : lpred; fdc : fdconfig; cluster : bytes }

let parse_status (c : cursor) : status =
  let st = next_int c in
  let since = next c in
  match st with
  | 0 -> SSet
  | 1 -> SDel (cz_of_string since)
  | 2 -> STtl (cz_of_string since)
  | _ -> fail "bad status %d" st

let parse_snap (c : cursor) : snap =
  expect c "nodes";
  let k = next_int c in
  let nodes =
    repeat k (fun () ->
        let i = next_id c in
        let hb = next_n c in
        let gc = next_n c in
        let mx = next_n c in
        let nk = next_int c in
        let kvs =
          repeat nk (fun () ->
              let key = next_hex c in
              let v = next_val c in
              let ver = next_n c in
              let st = parse_status c in
              (key, { v_val = v; v_ver = ver; v_st = st }))
        in
        (i, { c_hb = hb; c_gc = gc; c_max = mx; c_kvs = kvs }))
  in
  let idlist name =
    expect c name;
    let k = next_int c in
    repeat k (fun () -> next_id c)
  in
  let live = idlist "live" in
  let dead = idlist "dead" in
  let sched = idlist "sched" in
  expect c "gcn";
  let k = next_int c in
  let gcn = repeat k (fun () -> let i = next_id c in let hb = next_n c in (i, hb)) in
  expect c "watch";
  let k = next_int c in
  let watch =
    repeat k (fun () ->
        let i = next_id c in
        let _hb = next_n c in
        let mx = next_n c in
        let _nk = next_int c in
        (i, mx))
  in
  expect c "sends";
  let sends = next_n c in
  expect c "cb";
  let cb = next_n c in
  { nodes; live; dead; sched; gcn; watch; sends; cb }

let skip_events (c : cursor) : unit =
  expect c "ev";
  let k = next_int c in
  for _ = 1 to 3 * k do ignore (next c) done

(* observation of a state-changing op: `[reply <msg> bytes <n> | ] ev .. | <snap>` *)
type obsrec = { reply : message option; reply_bytes : int; snap : snap }

(* values inside messages are brought to the same token form as the values of the dumps *)
let norm_val (v : bytes) : bytes =
  if List.length v > 256 then bytes_of_string (hexv v) else v
let norm_delta (x : delta) : delta =
  { x with nds = List.map (fun nd -> { nd with d_kvs = List.map (fun m -> { m with m_val = norm_val m.m_val }) nd.d_kvs }) x.nds }
let norm_message (m : message) : message =
  match m with
  | SynAck (d, x) -> SynAck (d, norm_delta x)
  | Ack x -> Ack (norm_delta x)
  | m -> m

let parse_obs (line : string) : obsrec option =
  if line = "PANIC" then None
  else begin
    let c = cursor_of_line line in
    let reply, reply_bytes =
      if peek c = Some "reply" then begin
        ignore (next c);
        let m = if peek c = Some "none" then (ignore (next c); None) else Some (norm_message (parse_message c)) in
        expect c "bytes";
        let b = next_int c in
        expect c "|";
        (m, b)
      end
      else (None, 0)
    in
    skip_events c;
    expect c "|";
    let snap = parse_snap c in
    Some { reply; reply_bytes; snap }
  end

(* ---------- per-case monitor state ---------- *)
let infos : (int, nodeinfo) Hashtbl.t = Hashtbl.create 8
let snaps : (int, snap) Hashtbl.t = Hashtbl.create 8
let ledgers : (string, lwrite list) Hashtbl.t = Hashtbl.create 8  (* by owner id token *)
let owner_hb : (string, n) Hashtbl.t = Hashtbl.create 8
let now = ref BZ.zero
(* per (node index, member): number of fresh heartbeat observations and instant of the last one *)
let fresh : (int * string, int * BZ.t) Hashtbl.t = Hashtbl.create 16
(* per (node index, member): has the sampling window received a usable interval (two fresh heartbeat
   observations at most max_interval apart) since the last evaluation that found the member not alive
   (such an evaluation empties the window) *)
let usable : (int * string, unit) Hashtbl.t = Hashtbl.create 16
(* set by the marker HONEST: the next catch-up is fed what a peer actually holds about the member
   (not arbitrary data), so the ledger-based monitors (C02, C03, C04) keep applying *)
let next_catchup_honest = ref false
(* ... and the node whose copy was fetched: the known class KF-1 travels with it *)
let next_catchup_source : int option ref = ref None
(* C11: the same with "fresh" read as "strictly higher than every heartbeat this node has ever
   observed for the member while it knew or remembered it": highest heartbeat observed, instant of the
   last record-breaking observation, and whether two record-breaking observations at most
   max_interval apart occurred since the member was last found not alive *)
let seen_max : (int * string, n) Hashtbl.t = Hashtbl.create 16
let last_rb : (int * string, BZ.t) Hashtbl.t = Hashtbl.create 16
let usable_strict : (int * string, unit) Hashtbl.t = Hashtbl.create 16
(* C11, steady heartbeats: instants of the fresh observations since the member was last found not
   alive (most recent first) *)
let fresh_times : (int * string, BZ.t list) Hashtbl.t = Hashtbl.create 16
(* C18: members for which a catch-up was accepted since the node's previous evaluation *)
let caught_up : (int * string, unit) Hashtbl.t = Hashtbl.create 16
(* C12: instant of the evaluation that first found the member dead (its time of death) *)
let dead_since : (int * string, BZ.t) Hashtbl.t = Hashtbl.create 16
let weak_acceptance_seen = ref false
(* KF-1 attribution: copies (node index, member) that performed a weak acceptance, or applied a node
   delta computed from such a copy; node deltas computed from such copies *)
let tainted : (int * string, unit) Hashtbl.t = Hashtbl.create 16
let tainted_nds : (string, unit) Hashtbl.t = Hashtbl.create 16
(* members removed from a node by a liveness evaluation (garbage collected) and not seen since *)
let removed_by_eval : (int * string, unit) Hashtbl.t = Hashtbl.create 16
let nd_key (nd : ndelta) : string = Marshal.to_string nd []
let catchup_seen = ref false
let fails : string list ref = ref []
let n_checks = ref 0

(* did a reply produced since the current marked handshake / fair round / case began come so close
   to the datagram limit that the replier's largest single item (a member header, a key-value) could
   not have been added?  (for the class of known finding KF-2: an offer the datagram limit CUTS) *)
let cut_hs = ref false
let cut_round = ref false
let cut_case = ref false

(* length of a value as stored in a snapshot: long values are kept as "~<len>.<hash>" *)
let val_len (v : bytes) : int =
  let s = string_of_bytes v in
  if String.length s > 2 && s.[0] = '~' then
    (match String.index_opt s '.' with
     | Some j -> (try int_of_string (String.sub s 1 (j - 1)) with _ -> String.length s)
     | None -> String.length s)
  else String.length s

let reset_case () =
  cut_hs := false; cut_round := false; cut_case := false;
  Hashtbl.reset infos; Hashtbl.reset snaps; Hashtbl.reset ledgers; Hashtbl.reset owner_hb;
  Hashtbl.reset fresh;
  next_catchup_honest := false; next_catchup_source := None; Hashtbl.reset dead_since; Hashtbl.reset fresh_times; Hashtbl.reset caught_up; Hashtbl.reset usable; Hashtbl.reset seen_max; Hashtbl.reset last_rb; Hashtbl.reset usable_strict; now := BZ.zero; Hashtbl.reset tainted; Hashtbl.reset tainted_nds; Hashtbl.reset removed_by_eval;
  weak_acceptance_seen := false; catchup_seen := false

let flag (prop : string) (cls : string option) (what : string) =
  let c = match cls with Some k -> " class=" ^ k | None -> "" in
  fails := Printf.sprintf "property=%s%s what=%s" prop c what :: !fails

let check (prop : string) ?cls (ok : bool) (what : string) =
  incr n_checks;
  if not ok then flag prop cls what

let own_copy_of (s : snap) (self : id) : copy option = nm_get self s.nodes

let ledger_of (i : id) : lwrite list =
  match Hashtbl.find_opt ledgers (token_of_id i) with Some l -> l | None -> []

let nless a b = match N.compare a b with Lt -> true | _ -> false
let neq a b = match N.compare a b with Eq -> true | _ -> false
let nsucc a = N.add a (Npos XH)

(* ledger maintenance from the owner's own dump after a local write *)
let update_ledger (info : nodeinfo) (before : snap option) (after : snap) : unit =
  match own_copy_of after info.self with
  | None -> ()
  | Some ca ->
      let old_max = match before with
        | Some b -> (match own_copy_of b info.self with Some cb -> cb.c_max | None -> N0)
        | None -> N0 in
      (* every entry with a version above the previous max is a new effective write *)
      let fresh = List.filter (fun (_, v) -> nless old_max v.v_ver) ca.c_kvs in
      let fresh = List.sort (fun (_, a) (_, b) -> match N.compare a.v_ver b.v_ver with Lt -> -1 | Eq -> 0 | Gt -> 1) fresh in
      let l = ledger_of info.self in
      let l' = l @ List.map (fun (k, v) -> { lw_ver = v.v_ver; lw_key = k; lw_val = v.v_val; lw_st = to_mstatus v.v_st }) fresh in
      Hashtbl.replace ledgers (token_of_id info.self) l'

let is_owner_known (i : id) : bool = Hashtbl.mem ledgers (token_of_id i)

(* invariants that hold after every step on node [n] *)
let common_checks ?(idx = -1) (info : nodeinfo) (before : snap option) (after : snap) ~(is_local : bool) : unit =
  check "C12" (c12_sets_ok info.self after.live after.dead) "live/dead sets overlap or self not live";
  (* C12: quarantine exactly after half the grace period — a member found dead at instant t (the
     evaluation that put it in the dead set) is in the node's scheduled-for-deletion set, the one its
     digests and deltas leave out, iff now > t + grace/2; observed at every dump *)
  if idx >= 0 then
    List.iter
      (fun i ->
        match Hashtbl.find_opt dead_since (idx, token_of_id i) with
        | Some t ->
            let half = z_of_cz info.fdc.half_grace in
            let due = BZ.compare (BZ.add t half) !now < 0 in
            check "C12" (in_ids i after.sched = due)
              ("member " ^ token_of_id i
               ^ (if due then " has been dead for more than half the grace period but is not quarantined (still mentioned in digests and deltas)"
                  else " is quarantined before it has been dead for half the grace period"))
        | None -> ())
      after.dead;
  (match before with
   | Some b ->
       if not !catchup_seen then
         check "C04" (c04_nodes_ok b.nodes after.nodes) "a copy's (watermark,max) or a stored key version went backwards"
   | None -> ());
  (* the owner's heartbeat *)
  (match own_copy_of after info.self with
   | Some c -> Hashtbl.replace owner_hb (token_of_id info.self) c.c_hb
   | None -> ());
  if not !catchup_seen then
    List.iter
      (fun (i, c) ->
        if is_owner_known i then begin
          let l = ledger_of i in
          check "C03" (c03_ok l c) ("copy of " ^ token_of_id i ^ " holds an entry its owner never wrote, or runs ahead");
          (* C05, second sentence: the owner is always the most advanced copy of its own state *)
          check "C05" (not (nless (ledger_max l) c.c_max))
            ("the copy of " ^ token_of_id i ^ " held by a node is ahead of the max version its owner has reached (the owner must be the most advanced copy of its own state)");
          (match Hashtbl.find_opt owner_hb (token_of_id i) with
           | Some h -> check "C03" (not (nless h c.c_hb)) ("recorded heartbeat of " ^ token_of_id i ^ " exceeds the owner's")
           | None -> ());
          let cls = if Hashtbl.mem tainted (idx, token_of_id i) then Some "KF-1" else None in
          check "C02" ?cls (c02_ok l c) ("copy of " ^ token_of_id i ^ " is not exact up to its frontier")
        end)
      after.nodes

let weak_acceptance (c : copy) (d : ndelta) : bool =
  nless c.c_max c.c_gc && nless d.d_gc c.c_gc && nless d.d_max c.c_gc
  && (match check_delta_status c d with Apply -> true | _ -> false)

let in_idl_m (i : id) (l : id list) : bool = List.exists (fun j -> id_eqb i j) l

let delta_of_message (m : message) : delta option =
  match m with SynAck (_, x) -> Some x | Ack x -> Some x | _ -> None

(* C14, per member ("whenever the sender's copy is ahead the delta is non-empty, space permitting"):
   a BARE node delta — header only: no key-value, no SetMaxVersion — is what the MTU loop leaves when
   the member's first operation no longer fits.  Here it is refuted from above: [content] over-
   approximates the uncompressed size of everything the delta carries; if even content + the
   member's first operation (its first stale key-value, or the 9-byte SetMaxVersion when it has
   none), cut into blocks with their 3-byte metas, stays within the budget, then the serializer's
   own upper bound never exceeded it and the operation was withheld for another reason.
   (Sizes are computed with the TRUE value lengths: snapshots keep long values abbreviated.) *)
let kv_op_len (k : bytes) (v : bytes) : int = 14 + List.length k + val_len v
let c14_bare_ok (nodes : nmap) (mtu : int) (x : delta) : bool =
  let thr = max 1 (min (min (int_of_n p_BLOCK_THRESHOLD) (int_of_n p_BLOCK_THRESHOLD_SER)) mtu) in
  let bound c = c + 3 * (c / thr + 1) + 1 in
  let content =
    List.fold_left
      (fun acc nd ->
        acc + int_of_n (op_len (OpNode (nd.d_id, nd.d_gc, nd.d_from))) + 9
        + List.fold_left (fun a m -> a + kv_op_len m.m_key m.m_val) 0 nd.d_kvs)
      0 x.nds in
  List.for_all
    (fun nd ->
      if nd.d_kvs <> [] || not (neq nd.d_max N0) then true
      else
        match nm_get nd.d_id nodes with
        | None -> true
        | Some c ->
            let need =
              match stale_sorted c nd.d_from with
              | (k, v) :: _ -> kv_op_len k v.v_val
              | [] -> 9 in
            bound (content + need) > mtu)
    x.nds

(* ---------- entry points called by the driver ---------- *)
let on_join (idx : int) (info : nodeinfo) (obs : string) : unit =
  Hashtbl.replace infos idx info;
  Hashtbl.replace ledgers (token_of_id info.self) [];
  match parse_obs obs with
  | None -> ()
  | Some o ->
      update_ledger info None o.snap;
      common_checks ~idx info None o.snap ~is_local:true;
      Hashtbl.replace snaps idx o.snap

let on_local (idx : int) (obs : string) ~(is_write : bool) : unit =
  match Hashtbl.find_opt infos idx, parse_obs obs with
  | Some info, Some o ->
      let before = Hashtbl.find_opt snaps idx in
      if is_write then begin
        (match before with
         | Some b -> (
             match own_copy_of b info.self, own_copy_of o.snap info.self with
             | Some cb, Some ca ->
                 let same = neq ca.c_max cb.c_max in
                 let plus1 = neq ca.c_max (nsucc cb.c_max) in
                 check "C04" (same || plus1) "a local write moved max_version by something else than 0 or +1";
                 if same then check "C04" (kvs_eqb cb.c_kvs ca.c_kvs) "an ineffective local write changed the key-values";
                 if plus1 then
                   check "C04"
                     (List.length (List.filter (fun (_, v) -> neq v.v_ver ca.c_max) ca.c_kvs) = 1)
                     "an effective local write did not store exactly one entry at version max+1"
             | _ -> ())
         | None -> ());
        update_ledger info before o.snap
      end;
      common_checks ~idx info before o.snap ~is_local:true;
      Hashtbl.replace snaps idx o.snap
  | _ -> ()

(* C06, tombstone GC pass at node idx: on every copy the node holds, the entries that disappear are
   deleted or TTL-marked ones, the survivors are untouched, max version and heartbeat do not move,
   and the watermark becomes max(old watermark, highest version removed) *)
let on_gc_model (idx : int) (before : snap option) (obs : string) : unit =
  match before, parse_obs obs with
  | Some b, Some o ->
      List.iter
        (fun (i, cb) ->
          match nm_get i o.snap.nodes with
          | None -> ()
          | Some ca ->
              let removed = List.filter (fun (k, _) -> kget k ca.c_kvs = None) cb.c_kvs in
              let kept = List.filter (fun (k, _) -> kget k ca.c_kvs <> None) cb.c_kvs in
              check "C06" (List.for_all (fun (_, v) -> mscheduled (to_mstatus v.v_st)) removed)
                ("a GC pass removed a live (not deleted, not TTL-marked) entry of " ^ token_of_id i);
              check "C06" (kvs_eqb kept ca.c_kvs && neq cb.c_max ca.c_max && neq cb.c_hb ca.c_hb)
                ("a GC pass changed a surviving entry, the max version or the heartbeat of " ^ token_of_id i);
              let top = List.fold_left (fun m (_, v) -> if nless m v.v_ver then v.v_ver else m) cb.c_gc removed in
              check "C06" (neq top ca.c_gc)
                ("after a GC pass the watermark of " ^ token_of_id i ^ " is not max(old watermark, highest version collected)"))
        b.nodes
  | _ -> ()

let on_proc (idx : int) (msg : message) (obs : string) : unit =
  let msg = norm_message msg in
  match Hashtbl.find_opt infos idx, parse_obs obs with
  | Some info, Some o ->
      List.iter (fun (i, _) -> Hashtbl.remove removed_by_eval (idx, token_of_id i)) o.snap.nodes;
      let before = Hashtbl.find_opt snaps idx in
      (match before with
       | Some b ->
           (* known class KF-1: a weak acceptance step *)
           (match delta_of_message msg with
            | Some x ->
                List.iter
                  (fun nd ->
                    match nm_get nd.d_id b.nodes with
                    | Some c ->
                        if weak_acceptance c nd then begin
                          weak_acceptance_seen := true;
                          Hashtbl.replace tainted (idx, token_of_id nd.d_id) ()
                        end;
                        if Hashtbl.mem tainted_nds (nd_key nd) then Hashtbl.replace tainted (idx, token_of_id nd.d_id) ()
                    | None ->
                        if Hashtbl.mem tainted_nds (nd_key nd) then Hashtbl.replace tainted (idx, token_of_id nd.d_id) ())
                  x.nds
            | None -> ());
           (match own_copy_of b info.self, own_copy_of o.snap info.self with
            | Some cb, Some ca ->
                if not !catchup_seen then
                  check "C05" (c05_own_ok cb ca) "processing a message changed the node's own namespace"
            | _ -> ());
           (* C14 / C04: every copy a delta talks about ends up as the admission rule (check_delta_status
              + apply_delta, applied to the IMPLEMENTATION's copies before the message) says *)
           (match delta_of_message msg with
            | Some x ->
                let dg_ids = match msg with SynAck (dg, _) -> List.map fst dg | _ -> [] in
                let pre =
                  List.fold_left
                    (fun nodes nd ->
                      match nm_get nd.d_id nodes with
                      | Some _ -> nodes
                      | None -> if in_idl_m nd.d_id dg_ids then nm_insert nd.d_id new_copy nodes else nodes)
                    b.nodes x.nds
                in
                let t = cz_of_string (BZ.to_string !now) in
                (match cluster_apply_nds t pre x.nds false [] with
                 | Ok ((nodes', _), _) ->
                     List.iter
                       (fun nd ->
                         match nm_get nd.d_id nodes', nm_get nd.d_id o.snap.nodes, nm_get nd.d_id b.nodes with
                         | Some e, Some a, Some _ ->
                             check "C14"
                               (neq e.c_gc a.c_gc && neq e.c_max a.c_max && kvs_eqb e.c_kvs a.c_kvs)
                               ("the copy of " ^ token_of_id nd.d_id
                                ^ " after the message is not what the admission rule (reset / apply / reject) gives from the copy before it")
                         | _ -> ())
                       x.nds
                 | _ -> ())
            | None -> ());
           check "C20" (c20_ok info.has_cb b.nodes o.snap.nodes b.cb o.snap.cb)
             "catch-up callback count does not match the resets performed by this message";
           (* C16: a rejected SYN leaves everything but the own heartbeat untouched *)
           (match o.reply with
            | Some BadCluster ->
                let strip s = List.filter (fun (i, _) -> not (id_eqb i info.self)) s.nodes in
                let same =
                  List.length (strip b) = List.length (strip o.snap)
                  && List.for_all2
                       (fun (i, c) (j, d) ->
                         id_eqb i j && neq c.c_hb d.c_hb && neq c.c_gc d.c_gc && neq c.c_max d.c_max
                         && kvs_eqb c.c_kvs d.c_kvs)
                       (strip b) (strip o.snap)
                  && b.live = o.snap.live && b.dead = o.snap.dead
                in
                check "C16" same "a SYN of another cluster changed membership or data"
            | _ -> ())
       | None -> ());
      (* C16: a SYN carrying another cluster id is answered with a rejection only *)
      (match msg with
       | Syn (cl, _) when not (bytes_eqb cl info.cluster) ->
           check "C16" (match o.reply with Some BadCluster -> true | _ -> false)
             "a SYN with a different cluster id was not answered by BadCluster"
       | _ -> ());
      (* C07: size and shape of the reply *)
      (match o.reply with
       | Some r ->
           (let largest =
              List.fold_left
                (fun acc (i, c) ->
                  List.fold_left
                    (fun acc (k, v) -> max acc (List.length k + val_len v.v_val + 40))
                    (max acc (List.length i.i_name + 64)) c.c_kvs)
                0 o.snap.nodes in
            if o.reply_bytes + largest >= int_of_n p_MAX_UDP then begin
              cut_hs := true; cut_round := true; cut_case := true
            end);
           check "C07" (o.reply_bytes <= int_of_n p_MAX_UDP)
             (Printf.sprintf "reply of %d bytes exceeds the datagram limit" o.reply_bytes);
           (match r with
            | SynAck (dg, _) ->
                check "C12" (digest_excludes o.snap.sched dg) "digest mentions a member scheduled for deletion"
            | _ -> ());
           (match delta_of_message r with
            | Some x ->
                List.iter
                  (fun nd -> if Hashtbl.mem tainted (idx, token_of_id nd.d_id) then Hashtbl.replace tainted_nds (nd_key nd) ())
                  x.nds;
                check "C12" (List.for_all (fun nd -> not (in_idl_m nd.d_id o.snap.sched)) x.nds)
                  "a reply delta names a member the sender has scheduled for deletion";
                check "C07" (c07_delta_ok o.snap.nodes [] x)
                  "reply delta is not the version-prefix of the sender's stale entries";
                (match msg with
                 | Syn (_, dg) | SynAck (dg, _) ->
                     check "C14" (c14_delta_ok dg o.snap.nodes x)
                       "a node delta of the reply does not start where the sender's reset decision says (0 iff the peer's watermark and max version are both below the sender's watermark, else the peer's max version)";
                     check "C14" (c14_agree_ok dg o.snap.nodes x)
                       "a receiver holding the copy its digest advertised would not take the sender's decision on a node delta of the reply (reset iff the sender decided to reset; refusal only of an empty node delta)";
                     (* the budget the reply's delta was computed under *)
                     let mtu = match r with
                       | SynAck (dgb, _) -> N.sub p_MAX_UDP (N.add p_RESERVE_SYNACK (digest_len dgb))
                       | _ -> N.sub p_MAX_UDP p_RESERVE_ACK in
                     check "C14" (c14_bare_ok o.snap.nodes (int_of_n mtu) x)
                       "a member the sender is ahead on got a bare header (no key-value, no SetMaxVersion) although its first operation would have fitted the budget";
                     check "C14" (c14_offer_ok o.snap.nodes dg o.snap.sched mtu x)
                       "the sender is ahead of the peer's digest on a member it does not quarantine and there is room for that member's header and first operation, but the reply's delta is empty"
                 | _ -> ())
            | None -> ())
       | None -> ());
      (* C12: a member removed by a liveness evaluation (remembered with its heartbeat at removal) is
         recreated only by a digest heartbeat strictly higher than the remembered one *)
      (match before with
       | Some b ->
           let dg_hb i = match msg with
             | Syn (_, dg) | SynAck (dg, _) ->
                 (match List.find_opt (fun (j, _) -> id_eqb i j) dg with Some (_, g) -> Some g.g_hb | None -> None)
             | _ -> None in
           List.iter
             (fun (i, hb_removed) ->
               if nm_get i b.nodes = None && nm_get i o.snap.nodes <> None then
                 check "C12"
                   (match dg_hb i with Some hb -> N.compare hb_removed hb = Lt | None -> false)
                   ("member " ^ token_of_id i ^ ", removed by a liveness evaluation, was recreated by a message whose digest does not carry a strictly higher heartbeat than the one known at removal"))
             b.gcn
       | None -> ());
      (* C11: a heartbeat that is not above the stored one is a no-op on the stored heartbeat (copies
         a delta of the same message may reset are left out) *)
      (match msg, before with
       | (Syn (_, dg) | SynAck (dg, _)), Some b ->
           let touched = match delta_of_message msg with Some x -> List.map (fun nd -> nd.d_id) x.nds | None -> [] in
           List.iter
             (fun (i, g) ->
               if not (id_eqb i info.self) && not (in_idl_m i touched) then
                 match nm_get i b.nodes, nm_get i o.snap.nodes with
                 | Some cb, Some ca ->
                     if not (nless cb.c_hb g.g_hb) then
                       check "C11" (neq ca.c_hb cb.c_hb)
                         ("a heartbeat of " ^ token_of_id i ^ " not above the stored one changed the stored heartbeat")
                 | _ -> ())
             dg
       | _ -> ());
      (* fresh heartbeat evidence: a digest entry strictly above the stored non-zero heartbeat
         (the stored value is read from the dump taken before the message; a copy that a reset
         emptied has heartbeat 0 again, so its next observation is a first one, not a fresh one) *)
      (match msg, before with
       | (Syn (_, dg) | SynAck (dg, _)), Some b ->
           let foreign = match msg with Syn (cl, _) -> not (bytes_eqb cl (match o.reply with Some BadCluster -> [] | _ -> cl)) | _ -> false in
           let rejected = (match o.reply with Some BadCluster -> true | _ -> false) in
           ignore foreign;
           if not rejected then
             List.iter
               (fun (i, g) ->
                 if not (id_eqb i info.self) then begin
                   let k = (idx, token_of_id i) in
                   let known = nm_get i b.nodes <> None || List.exists (fun (j, _) -> id_eqb i j) b.gcn in
                   if not known then (Hashtbl.remove seen_max k; Hashtbl.remove last_rb k);
                   (match Hashtbl.find_opt seen_max k with
                    | Some h when nless h g.g_hb ->
                        (match Hashtbl.find_opt last_rb k with
                         | Some t when BZ.compare (BZ.sub !now t) (z_of_cz info.fdc.max_interval) <= 0 ->
                             Hashtbl.replace usable_strict k ()
                         | _ -> ());
                        Hashtbl.replace last_rb k !now;
                        Hashtbl.replace seen_max k g.g_hb
                    | Some _ -> ()
                    | None -> Hashtbl.replace seen_max k g.g_hb)
                 end;
                 if not (id_eqb i info.self) then
                   match nm_get i b.nodes with
                   | Some cb when not (neq cb.c_hb N0) && nless cb.c_hb g.g_hb ->
                       let k = (idx, token_of_id i) in
                       let cnt, last = match Hashtbl.find_opt fresh k with Some x -> x | None -> (0, BZ.zero) in
                       if cnt >= 1 && BZ.compare (BZ.sub !now last) (z_of_cz info.fdc.max_interval) <= 0 then
                         Hashtbl.replace usable k ();
                       Hashtbl.replace fresh_times k (!now :: (match Hashtbl.find_opt fresh_times k with Some l -> l | None -> []));
                       Hashtbl.replace fresh k (cnt + 1, !now)
                   | _ -> ())
               dg
       | _ -> ());
      common_checks ~idx info before o.snap ~is_local:false;
      Hashtbl.replace snaps idx o.snap
  | _ -> ()

let on_tick (obs : string) : unit =
  let c = cursor_of_line obs in
  (try expect c "now"; now := BZ.of_string (next c) with _ -> ())

let on_eval (idx : int) (obs : string) : unit =
  match Hashtbl.find_opt infos idx, parse_obs obs with
  | Some info, Some o ->
      let before = Hashtbl.find_opt snaps idx in
      let s = o.snap in
      (match before with
       | Some b ->
           List.iter
             (fun (i, _) -> if nm_get i s.nodes = None then Hashtbl.replace removed_by_eval (idx, token_of_id i) ())
             b.nodes
       | None -> ());
      (* C12: a member removed by this evaluation is remembered with the heartbeat its copy held at that
         moment (whatever the memory said before); a member the node holds is not in the memory *)
      (match before with
       | Some b ->
           List.iter
             (fun (i, cb) ->
               if nm_get i s.nodes = None then
                 check "C12"
                   (List.exists (fun (j, h) -> id_eqb i j && neq h cb.c_hb) s.gcn)
                   ("member " ^ token_of_id i ^ " was removed by a liveness evaluation but is not remembered with the heartbeat known at removal"))
             b.nodes
       | None -> ());
      check "C12" (List.for_all (fun (j, _) -> nm_get j s.nodes = None) s.gcn)
        "the removed-member memory lists a member the node currently holds";
      (* C12: removal exactly at the grace period — a member that has been dead (since the evaluation
         that first found it dead) for the full grace period is removed by this evaluation, and none
         is removed earlier *)
      (match before with
       | Some b ->
           let grace = z_of_cz info.fdc.dead_grace in
           List.iter
             (fun (i, _) ->
               if not (id_eqb i info.self) then begin
                 let k = (idx, token_of_id i) in
                 let removed = nm_get i s.nodes = None in
                 (match Hashtbl.find_opt dead_since k with
                  | Some t when in_ids i b.dead ->
                      let due = BZ.compare (BZ.add t grace) !now <= 0 in
                      if due && not (in_ids i s.live) then      (* revived by this very evaluation: not dead *)
                        check "C12" removed
                          ("member " ^ token_of_id i ^ " has been dead for the full grace period but this evaluation did not remove it")
                      else
                        check "C12" (not removed)
                          ("member " ^ token_of_id i ^ " was removed before it had been dead for the full grace period")
                  | _ -> ());
                 if removed || in_ids i s.live then Hashtbl.remove dead_since k
                 else if in_ids i s.dead && not (in_ids i b.dead) then
                   Hashtbl.replace dead_since k !now       (* the transition to dead: time of death *)
               end)
             b.nodes
       | None -> ());
      (* C05 / C12: a liveness evaluation never touches the node's own copy, let alone removes it *)
      (match before with
       | Some b ->
           (match own_copy_of b info.self, own_copy_of s info.self with
            | Some cb, Some ca ->
                check "C05" (kvs_eqb cb.c_kvs ca.c_kvs && neq cb.c_gc ca.c_gc && neq cb.c_max ca.c_max && neq cb.c_hb ca.c_hb)
                  "a liveness evaluation changed the node's own key-values, versions, watermark or heartbeat"
            | Some _, None ->
                check "C05" false "a liveness evaluation removed the node's own state";
                check "C12" false "a liveness evaluation removed the local node"
            | _ -> ())
       | None -> ());
      let known = List.map fst s.nodes in
      check "C12" (c12_after_eval_ok info.self known s.live s.dead)
        "after an evaluation some known member is in neither or both of live/dead";
      let expected =
        List.filter_map
          (fun i ->
            match nm_get i s.nodes with
            | Some c -> if eval_pred info.pred c then Some (i, c.c_max) else None
            | None -> None)
          s.live
      in
      check "C13" (c13_watch_ok expected s.watch)
        "watch channel value differs from {live members satisfying the predicate, with current max version}";
      (* C10 / C11 on the implementation's verdicts *)
      let fdc = info.fdc in
      let zmax a b = if BZ.compare a b >= 0 then a else b in
      let bound = BZ.mul (z_of_cz fdc.phi_num) (zmax (z_of_cz fdc.max_interval) (z_of_cz fdc.initial_interval)) in
      (match before with
       | Some b ->
           List.iter
             (fun (i, _) ->
               if not (id_eqb i info.self) then begin
                 let k = (idx, token_of_id i) in
                 let cnt, last = match Hashtbl.find_opt fresh k with Some x -> x | None -> (0, BZ.zero) in
                 let is_live = in_ids i s.live in
                 let is_dead = in_ids i s.dead in
                 let removed = nm_get i s.nodes = None in
                 check "C11" (not (cnt < 2 && is_live))
                   ("member " ^ token_of_id i ^ " reported live with fewer than two fresh heartbeat observations");
                 check "C10" (not (cnt < 2 && is_live))
                   ("member " ^ token_of_id i ^ " reported live with fewer than two usable heartbeat observations");
                 let silent_too_long =
                   cnt = 0 || BZ.compare (BZ.mul (BZ.sub !now last) (z_of_cz fdc.phi_den)) bound > 0 in
                 if silent_too_long then
                   check "C10" ((not is_live) && (is_dead || removed))
                     ("member " ^ token_of_id i ^ " silent for longer than phi_threshold*max(max_interval,initial_interval) but not reported dead");
                 (* the same with "fresh" read strictly (a heartbeat above everything observed while the
                    member was known or remembered): replayed lower values do not postpone the deadline *)
                 (match Hashtbl.find_opt last_rb k, Hashtbl.find_opt seen_max k with
                  | Some t, _ when BZ.compare (BZ.mul (BZ.sub !now t) (z_of_cz fdc.phi_den)) bound > 0 ->
                      check "C10" (not is_live)
                        ("member " ^ token_of_id i ^ " reported live although no heartbeat higher than every heartbeat observed before has arrived for longer than phi_threshold*max(max_interval,initial_interval)")
                  | None, Some _ ->
                      check "C10" (not is_live)
                        ("member " ^ token_of_id i ^ " reported live although only one heartbeat value has ever been observed for it")
                  | _ -> ());
                 check "C10" (not is_live || Hashtbl.mem usable k)
                   ("member " ^ token_of_id i ^ " reported live although its sampling window has received no usable interval (two fresh heartbeats at most max_interval apart) since the evaluation that last found it not alive");
                 (* C11, third sentence: fresh heartbeats since the member was last found not alive, all
                    gaps (the one up to now included) within [a, b], b <= max_interval, a > 0 and
                    phi_threshold >= b / min(a, initial_interval): the member must be reported live *)
                 (match Hashtbl.find_opt fresh_times k with
                  | Some (t0 :: (_ :: _ as rest)) ->
                      let gaps = ref [BZ.sub !now t0] in
                      let prev = ref t0 in
                      List.iter (fun t -> gaps := BZ.sub !prev t :: !gaps; prev := t) rest;
                      let inner = List.tl (List.rev !gaps) in      (* gaps between observations *)
                      let b = List.fold_left (fun m g -> if BZ.compare g m > 0 then g else m) BZ.zero !gaps in
                      let a = List.fold_left (fun m g -> if BZ.compare g m < 0 then g else m) (List.hd inner) inner in
                      let a' = if BZ.compare a (z_of_cz fdc.initial_interval) < 0 then a else z_of_cz fdc.initial_interval in
                      if BZ.compare a' BZ.zero > 0 && BZ.compare b (z_of_cz fdc.max_interval) <= 0
                         (* with a relative margin of 2^-20: the implementation evaluates phi in f64 *)
                         && BZ.compare (BZ.mul (BZ.mul b (z_of_cz fdc.phi_den)) (BZ.of_int 1048577))
                                       (BZ.mul (BZ.mul (z_of_cz fdc.phi_num) a') (BZ.of_int 1048576)) < 0
                         && not removed then
                        check "C11" is_live
                          ("member " ^ token_of_id i ^ " has sent fresh heartbeats at steady intervals within the bound phi_threshold >= b / min(a, initial_interval) since it was last found not alive, but is not reported live")
                  | _ -> ());
                 if Hashtbl.mem caught_up k then
                   check "C18" (not is_live || Hashtbl.mem usable k || in_ids i b.live)
                     ("member " ^ token_of_id i ^ " became live at the evaluation following a catch-up although no usable pair of fresh heartbeats was observed: the catch-up made it live by itself");
                 Hashtbl.remove caught_up k;
                 if not is_live then Hashtbl.remove fresh_times k;
                 check "C11" (not is_live || Hashtbl.mem usable_strict k)
                   ("member " ^ token_of_id i ^ " reported live although, since it was last found not alive, no two heartbeats strictly higher than every heartbeat observed before arrived at most max_interval apart (replayed or lower heartbeats counted as evidence)");
                 if not is_live then (Hashtbl.remove usable k; Hashtbl.remove usable_strict k);
                 if removed then (Hashtbl.remove fresh k; Hashtbl.remove usable k)
               end)
             b.nodes
       | None -> ());
      common_checks ~idx info before s ~is_local:false;
      Hashtbl.replace snaps idx s
  | _ -> ()

(* SYN: observation is `<msg> | <snap>` *)
let on_syn (idx : int) (obs : string) : unit =
  match Hashtbl.find_opt infos idx with
  | None -> ()
  | Some _ ->
      if obs <> "PANIC" then begin
        let c = cursor_of_line obs in
        let m = parse_message c in
        if peek c = Some "|" then begin
          ignore (next c);
          let s = parse_snap c in
          (match m with
           | Syn (_, dg) -> check "C12" (digest_excludes s.sched dg) "SYN digest mentions a member scheduled for deletion"
           | _ -> ());
          Hashtbl.replace snaps idx s
        end
      end

(* DELTA: `<ACK dump> bytes <n>`; the budget is for the delta alone (4 header bytes excluded) *)
let on_delta ?dg (idx : int) (mtu : int) (sched : id list) (obs : string) : unit =
  if obs <> "PANIC" then begin
    let c = cursor_of_line obs in
    let m = norm_message (parse_message c) in
    expect c "bytes";
    let b = next_int c in
    check "C07" (b - 4 <= mtu) (Printf.sprintf "serialized delta of %d bytes exceeds its budget %d" (b - 4) mtu);
    match Hashtbl.find_opt snaps idx, delta_of_message m with
    | Some s, Some x ->
        check "C12" (List.for_all (fun nd -> not (in_idl_m nd.d_id sched)) x.nds)
          "a computed delta names a member scheduled for deletion";
        check "C07" (c07_delta_ok s.nodes [] x)
          "computed delta is not the version-prefix of the sender's stale entries";
        (match dg with
         | Some dg ->
             check "C14" (c14_delta_ok dg s.nodes x)
               "a computed node delta does not start where the sender's reset decision says";
             check "C14" (c14_agree_ok dg s.nodes x)
               "a receiver holding the copy the digest advertised would not take the sender's decision on a computed node delta (reset iff the sender decided to reset; refusal only of an empty node delta)";
             check "C14" (c14_bare_ok s.nodes mtu x)
               "a member the sender is ahead on got a bare header (no key-value, no SetMaxVersion) although its first operation would have fitted the budget";
             check "C14" (c14_offer_ok s.nodes dg sched (n_of_int mtu) x)
               "the sender is ahead of the digest on a member it does not quarantine and there is room for that member's header and first operation, but the computed delta is empty"
         | None -> ())
    | _ -> ()
  end

let on_catchup ?member ?supplied (idx : int) (obs : string) : unit =
  let honest = !next_catchup_honest in
  next_catchup_honest := false;
  (match !next_catchup_source, member with
   | Some src, Some m when Hashtbl.mem tainted (src, token_of_id m) -> Hashtbl.replace tainted (idx, token_of_id m) ()
   | _ -> ());
  next_catchup_source := None;
  if not honest then catchup_seen := true;
  match parse_obs obs with
  | Some o ->
      (if honest then
         match Hashtbl.find_opt infos idx with
         (* [before] withheld: a catch-up replaces the key set (C18), which the step-wise C04 rule
            ("no stored version goes back unless the watermark strictly rises") is not about *)
         | Some info -> common_checks ~idx info None o.snap ~is_local:false
         | None -> ());
      (match member with
       | Some m when Hashtbl.mem removed_by_eval (idx, token_of_id m) ->
           check "C18" (nm_get m o.snap.nodes = None)
             ("catch-up recreated member " ^ token_of_id m ^ " that a liveness evaluation had garbage collected")
       | _ -> ());
      (* C18: the copy is unchanged, or its key set is exactly the supplied one, each key holding the
         supplied entry or the copy's own entry when that one is at least as recent; the frontier never
         goes back (checked when the supplied keys are distinct) *)
      (match member, supplied, Hashtbl.find_opt snaps idx with
       | Some m, Some (kvs : (bytes * vv) list), Some b ->
           let distinct = List.for_all (fun (k, _) -> List.length (List.filter (fun (k', _) -> bytes_eqb k k') kvs) = 1) kvs in
           (match nm_get m b.nodes, nm_get m o.snap.nodes with
            | Some cb, Some ca when distinct ->
                let same_entry (a : vv) (e : vv) =
                  bytes_eqb a.v_val e.v_val && neq a.v_ver e.v_ver && mstatus_eqb (to_mstatus a.v_st) (to_mstatus e.v_st) in
                let unchanged = kvs_eqb cb.c_kvs ca.c_kvs && neq cb.c_gc ca.c_gc && neq cb.c_max ca.c_max in
                let expected k (sv : vv) =
                  match kget k cb.c_kvs with
                  | Some old when not (nless old.v_ver sv.v_ver) -> old
                  | _ -> sv in
                let replaced =
                  List.for_all (fun (k, _) -> List.exists (fun (k', _) -> bytes_eqb k k') kvs) ca.c_kvs
                  && List.for_all (fun (k, sv) -> match kget k ca.c_kvs with Some a -> same_entry a (expected k sv) | None -> false) kvs in
                check "C18" (unchanged || replaced)
                  ("after a catch-up the copy of " ^ token_of_id m ^ " is neither unchanged nor the supplied key set (with the newer version of common keys kept)");
                check "C18" (nless cb.c_gc ca.c_gc || (neq cb.c_gc ca.c_gc && not (nless ca.c_max cb.c_max)))
                  ("a catch-up lowered the (watermark, max version) of " ^ token_of_id m);
                (* C04 across a catch-up: the frontier does not go back and a key that survives keeps a
                   version at least as large (C18_catchup_spec: the merge keeps the newer of two entries) *)
                check "C04" (nless cb.c_gc ca.c_gc || (neq cb.c_gc ca.c_gc && not (nless ca.c_max cb.c_max)))
                  ("a catch-up lowered the (watermark, max version) of " ^ token_of_id m);
                check "C04"
                  (List.for_all
                     (fun (k, (old : vv)) -> match kget k ca.c_kvs with Some a -> not (nless a.v_ver old.v_ver) | None -> true)
                     cb.c_kvs)
                  ("a catch-up lowered the stored version of a key of " ^ token_of_id m ^ " that it kept")
            | _ -> ())
       | _ -> ());
      (match member with
       | Some m -> Hashtbl.replace caught_up (idx, token_of_id m) ()
       | None -> ());
      Hashtbl.replace snaps idx o.snap
  | None -> ()

let take_fails () : string list =
  let f = List.rev !fails in
  fails := [];
  f


(* ---------- C01: fair rounds of complete handshakes ---------- *)
let in_idl (i : id) (l : id list) : bool = List.exists (fun j -> id_eqb i j) l
let lex_lt_nn (g1, m1) (g2, m2) = nless g1 g2 || (neq g1 g2 && nless m1 m2)

(* frontiers of all copies of all nodes, keyed by (node index, member token) *)
let frontier_table () : (int * string, n * n) Hashtbl.t =
  let t = Hashtbl.create 64 in
  Hashtbl.iter (fun idx (s : snap) -> List.iter (fun (i, c) -> Hashtbl.replace t (idx, token_of_id i) (c.c_gc, c.c_max)) s.nodes) snaps;
  t

let progressed (before : (int * string, n * n) Hashtbl.t) (after : (int * string, n * n) Hashtbl.t) ~(only : int list option) : bool =
  let ok = ref false in
  Hashtbl.iter
    (fun (idx, tok) f ->
      let relevant = match only with Some l -> List.mem idx l | None -> true in
      if relevant then
        match Hashtbl.find_opt before (idx, tok) with
        | Some f0 -> if lex_lt_nn f0 f then ok := true
        | None -> ok := true)
    after;
  !ok

(* every node holds, for every member some node advertises (holds and does not quarantine), a
   copy at the highest max version any advertising node holds; quarantining nodes are exempt *)
let converged () : bool =
  let best : (string, n) Hashtbl.t = Hashtbl.create 16 in
  Hashtbl.iter
    (fun _ (s : snap) ->
      List.iter
        (fun (i, c) ->
          if not (in_idl i s.sched) then begin
            let tok = token_of_id i in
            match Hashtbl.find_opt best tok with
            | Some m when not (nless m c.c_max) -> ()
            | _ -> Hashtbl.replace best tok c.c_max
          end)
        s.nodes)
    snaps;
  let ok = ref true in
  Hashtbl.iter
    (fun _ (s : snap) ->
      Hashtbl.iter
        (fun tok m ->
          let quarantined = List.exists (fun i -> token_of_id i = tok) s.sched in
          let removed = List.exists (fun (i, _) -> token_of_id i = tok) s.gcn in
          if not quarantined && not removed then
            match List.find_opt (fun (i, _) -> token_of_id i = tok) s.nodes with
            | Some (_, c) -> if not (neq c.c_max m) then ok := false
            | None -> if not (neq m N0) then ok := false)
        best)
    snaps;
  !ok

let any_quarantine () : bool =
  let q = ref false in
  Hashtbl.iter (fun _ (s : snap) -> if s.sched <> [] || s.gcn <> [] then q := true) snaps;
  !q

let round_base : (int * string, n * n) Hashtbl.t ref = ref (Hashtbl.create 1)
let round_converged_before = ref true
let hs_base : (int * string, n * n) Hashtbl.t ref = ref (Hashtbl.create 1)
let hs_deliverable = ref false

(* known finding KF-2 (wasted offer): a member is quarantined or removed at the receiver but not at
   the sender; the sender spends its datagram on that member, the receiver discards it, and other
   news waits.  The finding is about an offer the datagram limit actually CUTS: a failure is put in
   that class only when some node quarantines or remembers a member AND some reply of the failing
   handshake / round / case was so large that the replier's largest single item would not have
   fitted any more.  When everything fits, the discarded member costs nothing, and a handshake that
   advances nobody is a different defect. *)
let kf2_class (cut : bool) = if any_quarantine () && cut then Some "KF-2" else None

let on_round (r : int) : unit =
  if r > 0 && not !round_converged_before then
    check "C01" ?cls:(kf2_class !cut_round) (progressed !round_base (frontier_table ()) ~only:None)
      (Printf.sprintf "fair round %d of complete handshakes advanced no copy although the world had not converged" r);
  cut_round := false;
  round_base := frontier_table ();
  round_converged_before := converged ()

let on_rounds_end (rounds : int) : unit =
  check "C01" ?cls:(kf2_class !cut_case) (converged ())
    (Printf.sprintf "not converged after %d fair rounds of loss-free complete handshakes" rounds)

(* deliverable from [s] (sender) to [r] (receiver): a member s does not quarantine, ahead of r's
   copy, that r would accept (r does not quarantine it and has not removed it) *)
let deliverable (s : snap) (r : snap) : bool =
  List.exists
    (fun (i, c) ->
      (not (in_idl i s.sched)) && (not (in_idl i r.sched))
      && (not (List.exists (fun (j, _) -> id_eqb i j) r.gcn))
      && (match nm_get i r.nodes with Some cr -> nless cr.c_max c.c_max | None -> nless N0 c.c_max))
    s.nodes

let on_hs_begin (a : int) (b : int) : unit =
  cut_hs := false;
  hs_base := frontier_table ();
  hs_deliverable :=
    (match Hashtbl.find_opt snaps a, Hashtbl.find_opt snaps b with
     | Some sa, Some sb -> deliverable sb sa || deliverable sa sb
     | _ -> false)

let on_hs_end (a : int) (b : int) : unit =
  if !hs_deliverable then
    check "C01" ?cls:(kf2_class !cut_hs) (progressed !hs_base (frontier_table ()) ~only:(Some [a; b]))
      (Printf.sprintf "complete handshake %d<->%d with deliverable data advanced no copy at either node" a b)


(* ---------- C06 / C04: a local write does to the IMPLEMENTATION's own copy exactly what the KV
   model (NodeState.set / set_with_ttl / delete / delete_after_ttl) does to it ---------- *)
let on_write_model (idx : int) (kind : string) (k : bytes) (v : bytes) (before : snap option) (obs : string) : unit =
  match Hashtbl.find_opt infos idx, before, parse_obs obs with
  | Some info, Some b, Some o -> (
      match own_copy_of b info.self, own_copy_of o.snap info.self with
      | Some cb, Some ca ->
          let t = cz_of_string (BZ.to_string !now) in
          let v = norm_val v in
          let expected =
            match kind with
            | "SET" -> fst (set cb k v)
            | "SETTTL" -> fst (set_with_ttl t cb k v)
            | "DEL" -> delete t cb k
            | _ -> delete_after_ttl t cb k
          in
          let frontier_ok = neq expected.c_max ca.c_max && neq expected.c_gc ca.c_gc in
          let ver_ok =
            match kget k expected.c_kvs, kget k ca.c_kvs with
            | Some e, Some a -> neq e.v_ver a.v_ver
            | None, None -> true
            | _ -> false
          in
          check "C04" (frontier_ok && ver_ok)
            (kind ^ ": the own copy's max version / the written key's version is not what an effective write (fresh version max+1) or an ineffective one (unchanged) gives");
          check "C06" (kvs_eqb expected.c_kvs ca.c_kvs)
            (kind ^ ": the own copy after the call differs from the key-value model applied to the copy before the call")
      | _ -> ())
  | _ -> ()
