(* Inv.v — well-formedness of a copy (keys sorted, versions pairwise distinct, positive and at
   most max_version) and its preservation by every operation that touches a copy. *)
From Coq Require Import Lia.
From ChitchatModel Require Import Base SMap Ids Bytes NodeState Stream DeltaWire Message Cluster SMap_lemmas NodeState_lemmas
  Builder_lemmas Agreement.

Definition ksorted (m : smap bytes vv) : Prop := sm_sorted bytes_cmp m.

Record copy_inv (c : copy) : Prop := mkCI {
  ci_sorted : ksorted (c_kvs c);
  ci_vers : forall k1 v1 k2 v2, In (k1, v1) (c_kvs c) -> In (k2, v2) (c_kvs c) ->
                                v_ver v1 = v_ver v2 -> k1 = k2;
  ci_range : forall k v, In (k, v) (c_kvs c) -> 0 < v_ver v /\ v_ver v <= c_max c
}.

Lemma kinsert_sorted k v m : ksorted m -> ksorted (kinsert k v m).
Proof. apply (sm_insert_sorted bytes_cmp bytes_cmp_eq bytes_cmp_antisym bytes_cmp_trans). Qed.
Lemma kfilter_sorted f m : ksorted m -> ksorted (filter f m).
Proof. apply (filter_sorted bytes_cmp bytes_cmp_trans). Qed.
Lemma ksorted_in_get k v m : ksorted m -> In (k, v) m -> kget k m = Some v.
Proof. apply (sorted_in_get bytes_cmp bytes_cmp_eq bytes_cmp_antisym bytes_cmp_trans). Qed.
Lemma kget_in k v m : kget k m = Some v -> In (k, v) m.
Proof. apply (sm_get_in bytes_cmp bytes_cmp_eq). Qed.
Lemma in_kinsert k v x m : In x (kinsert k v m) -> x = (k, v) \/ In x m.
Proof. apply (in_sm_insert bytes_cmp). Qed.

(* in a sorted map, an entry of the map after insertion that is not the inserted one has another key *)
Lemma in_kinsert_other k v k' v' m :
  ksorted m -> In (k', v') (kinsert k v m) -> (k', v') <> (k, v) -> k' <> k /\ In (k', v') m.
Proof.
  intros Hs Hin Hne.
  destruct (list_eq_dec Byte.byte_eq_dec k' k) as [->|Hk].
  - exfalso. apply Hne. f_equal.
    pose proof (kinsert_sorted k v m Hs) as Hs'.
    pose proof (ksorted_in_get _ _ _ Hs' Hin) as Hg. rewrite kget_kinsert_same in Hg. congruence.
  - split; [exact Hk|]. apply in_kinsert in Hin as [Heq|Hin]; [congruence|exact Hin].
Qed.

Lemma new_copy_inv : copy_inv new_copy.
Proof. split; cbn; [exact I| |]; intros; contradiction. Qed.
Lemma reset_node_inv hb gc : copy_inv (reset_node hb gc).
Proof. split; cbn; [exact I| |]; intros; contradiction. Qed.

(* inserting an entry whose version is above max_version *)
Lemma svv_fresh_inv c k v :
  copy_inv c -> c_max c < v_ver v -> copy_inv (fst (set_versioned_value c k v)).
Proof.
  intros [Hs Hv Hr] Hlt. unfold set_versioned_value.
  assert (Hmx : N.max (v_ver v) (c_max c) = v_ver v) by lia.
  assert (Hins : copy_inv (mkCopy (c_hb c) (c_gc c) (N.max (v_ver v) (c_max c)) (kinsert k v (c_kvs c)))).
  { split; cbn [c_kvs c_max].
    - apply kinsert_sorted. exact Hs.
    - intros k1 v1 k2 v2 H1 H2 Heq.
      destruct (in_kinsert _ _ _ _ H1) as [E1|I1]; destruct (in_kinsert _ _ _ _ H2) as [E2|I2].
      + congruence.
      + injection E1 as -> ->. destruct (Hr _ _ I2). lia.
      + injection E2 as -> ->. destruct (Hr _ _ I1). lia.
      + destruct (in_kinsert_other k v k1 v1 _ Hs H1) as [_ J1].
        { intros E. injection E as -> ->. destruct (Hr _ _ I2). destruct (Hr _ _ I1). lia. }
        eapply Hv; eauto.
    - intros k' v' Hin. apply in_kinsert in Hin as [E|I1].
      + injection E as -> ->. lia.
      + destruct (Hr _ _ I1). lia. }
  destruct (kget k (c_kvs c)) as [old|] eqn:Hg; [|exact Hins].
  destruct (v_ver v <=? v_ver old) eqn:Hle; [|exact Hins].
  apply N.leb_le in Hle. apply kget_in in Hg. destruct (Hr _ _ Hg). lia.
Qed.

Lemma svv_max_fresh c k v : c_max c < v_ver v -> c_max (fst (set_versioned_value c k v)) = v_ver v.
Proof. intros H. rewrite svv_max. lia. Qed.

(* the key-value loop of apply_delta on a grammar-valid (strictly ascending) list *)
Lemma fold_apply_kv_inv_copy now cm : forall kvs acc lo,
  copy_inv (fst acc) -> asc_from lo kvs -> c_max (fst acc) <= N.max cm lo ->
  copy_inv (fst (fold_left (apply_kv now cm) kvs acc)).
Proof.
  induction kvs as [|m r IH]; intros acc lo Hinv Hasc Hmax; cbn [fold_left]; [exact Hinv|].
  cbn [asc_from] in Hasc. destruct Hasc as [Hlt Hasc].
  apply (IH _ (m_ver m)); [| exact Hasc|].
  - unfold apply_kv. destruct acc as [c evs]. cbn [fst] in *.
    destruct (m_ver m <=? cm) eqn:E1; [exact Hinv|]. apply N.leb_gt in E1.
    destruct (mscheduled (m_st m) && (m_ver m <=? c_gc c)); [exact Hinv|].
    destruct (set_versioned_value c (m_key m) _) as [c' ev] eqn:Es. cbn [fst].
    change c' with (fst (c', ev)). rewrite <- Es. apply svv_fresh_inv; [exact Hinv|]. cbn [v_ver]. lia.
  - pose proof (apply_kv_max_bound now cm acc m (N.max cm (m_ver m))) as Hb.
    apply Hb; lia.
Qed.

Theorem apply_delta_inv now c d c' st evs :
  copy_inv c -> nd_wf d -> apply_delta now c d = Ok (c', st, evs) -> copy_inv c'.
Proof.
  intros Hinv [Hasc Hl] H. unfold apply_delta in H.
  destruct (check_delta_status c d) eqn:Hst.
  - injection H as <- _ _. exact Hinv.
  - destruct (fold_left _ _ _) as [c1 evs1] eqn:Hf.
    destruct (d_max d <? c_max c1) eqn:Hp; [discriminate|]. apply N.ltb_ge in Hp.
    injection H as <- _ _.
    assert (H1 : copy_inv c1).
    { change c1 with (fst (c1, evs1)). rewrite <- Hf.
      apply (fold_apply_kv_inv_copy now (c_max c) (d_kvs d) (c, []) 0); cbn [fst]; auto. lia. }
    destruct H1 as [Hs Hv Hr]. split; cbn [c_kvs c_max]; auto.
    intros k v Hin. destruct (Hr _ _ Hin). lia.
  - destruct (fold_left _ _ _) as [c1 evs1] eqn:Hf.
    destruct (d_max d <? c_max c1) eqn:Hp; [discriminate|]. apply N.ltb_ge in Hp.
    injection H as <- _ _.
    assert (H1 : copy_inv c1).
    { change c1 with (fst (c1, evs1)). rewrite <- Hf.
      apply (fold_apply_kv_inv_copy now (c_max (reset_node (c_hb c) (d_gc d))) (d_kvs d) (reset_node (c_hb c) (d_gc d), []) 0);
        cbn [fst]; auto; [apply reset_node_inv|cbn; lia]. }
    destruct H1 as [Hs Hv Hr]. split; cbn [c_kvs c_max]; auto.
    intros k v Hin. destruct (Hr _ _ Hin). lia.
Qed.

(* local writes *)
Lemma set_inv c k v : copy_inv c -> copy_inv (fst (set c k v)).
Proof.
  intros Hinv. unfold set. destruct (match get_versioned c k with Some _ => _ | None => _ end); [exact Hinv|].
  apply svv_fresh_inv; [exact Hinv|]. cbn. lia.
Qed.
Lemma set_with_ttl_inv now c k v : copy_inv c -> copy_inv (fst (set_with_ttl now c k v)).
Proof.
  intros Hinv. unfold set_with_ttl. destruct (match get_versioned c k with Some _ => _ | None => _ end); [exact Hinv|].
  apply svv_fresh_inv; [exact Hinv|]. cbn. lia.
Qed.

Lemma overwrite_inv c k v :
  copy_inv c -> v_ver v = c_max c + 1 ->
  copy_inv (mkCopy (c_hb c) (c_gc c) (c_max c + 1) (kinsert k v (c_kvs c))).
Proof.
  intros [Hs Hv Hr] Hver. split; cbn [c_kvs c_max].
  - apply kinsert_sorted. exact Hs.
  - intros k1 v1 k2 v2 H1 H2 Heq.
    destruct (list_eq_dec Byte.byte_eq_dec k1 k2) as [E|Hne]; [exact E|]. exfalso.
    destruct (in_kinsert _ _ _ _ H1) as [E1|I1]; destruct (in_kinsert _ _ _ _ H2) as [E2|I2].
    + congruence.
    + injection E1 as -> ->. destruct (Hr _ _ I2). lia.
    + injection E2 as -> ->. destruct (Hr _ _ I1). lia.
    + apply Hne. eapply Hv; eauto.
  - intros k' v' Hin. apply in_kinsert in Hin as [E|I1].
    + injection E as -> ->. lia.
    + destruct (Hr _ _ I1). lia.
Qed.

Lemma delete_inv now c k : copy_inv c -> copy_inv (delete now c k).
Proof.
  intros Hinv. unfold delete. destruct (kget k (c_kvs c)); [|exact Hinv].
  apply overwrite_inv; [exact Hinv|reflexivity].
Qed.
Lemma delete_after_ttl_inv now c k : copy_inv c -> copy_inv (delete_after_ttl now c k).
Proof.
  intros Hinv. unfold delete_after_ttl. destruct (kget k (c_kvs c)); [|exact Hinv].
  apply overwrite_inv; [exact Hinv|reflexivity].
Qed.

Lemma gc_inv now grace c : copy_inv c -> copy_inv (gc_keys_marked_for_deletion now grace c).
Proof.
  intros [Hs Hv Hr]. unfold gc_keys_marked_for_deletion. split; cbn [c_kvs c_max].
  - apply kfilter_sorted. exact Hs.
  - intros k1 v1 k2 v2 H1 H2. apply filter_In in H1 as [H1 _]. apply filter_In in H2 as [H2 _]. eapply Hv; eauto.
  - intros k v Hin. apply filter_In in Hin as [Hin _]. eauto.
Qed.

Lemma hb_inv c hb : copy_inv c -> copy_inv (mkCopy hb (c_gc c) (c_max c) (c_kvs c)).
Proof. intros [Hs Hv Hr]. split; auto. Qed.
Lemma inc_heartbeat_inv c : copy_inv c -> copy_inv (inc_heartbeat c).
Proof. apply hb_inv. Qed.
Lemma try_set_heartbeat_inv c hb : copy_inv c -> copy_inv (fst (try_set_heartbeat c hb)).
Proof.
  intros H. unfold try_set_heartbeat. destruct (c_hb c =? 0); [apply hb_inv; exact H|].
  destruct (c_hb c <? hb); [apply hb_inv; exact H|exact H].
Qed.

(* ---- consequence used by the sender side: stale entries come out strictly ascending ---- *)
Lemma insert_by_ver_in e x l : In x (insert_by_ver e l) <-> x = e \/ In x l.
Proof.
  split; [apply in_insert_by_ver|].
  induction l as [|y r IH]; cbn [insert_by_ver]; [cbn; intuition|].
  destruct (v_ver (snd e) <=? v_ver (snd y)); cbn; intuition.
Qed.
Lemma sort_by_ver_in x l : In x (sort_by_ver l) <-> In x l.
Proof.
  split; [apply in_sort_by_ver|]. unfold sort_by_ver.
  induction l as [|y r IH]; cbn [fold_right]; [auto|].
  intros [->|H]; apply insert_by_ver_in; [left; reflexivity|right; apply IH; exact H].
Qed.

Lemma insert_by_ver_nodup e l : ~ In e l -> NoDup l -> NoDup (insert_by_ver e l).
Proof.
  induction l as [|y r IH]; intros Hn Hd; cbn [insert_by_ver].
  - constructor; [intros []|constructor].
  - destruct (v_ver (snd e) <=? v_ver (snd y)).
    + constructor; assumption.
    + inversion Hd as [|? ? Hy Hr]; subst. constructor.
      * intros Hin. apply insert_by_ver_in in Hin as [->|Hin]; [apply Hn; left; reflexivity|contradiction].
      * apply IH; [intros Hin; apply Hn; right; exact Hin|exact Hr].
Qed.
Lemma sort_by_ver_nodup l : NoDup l -> NoDup (sort_by_ver l).
Proof.
  unfold sort_by_ver. induction l as [|y r IH]; intros Hd; cbn [fold_right]; [constructor|].
  inversion Hd as [|? ? Hy Hr]; subst. apply insert_by_ver_nodup; [|apply IH; exact Hr].
  intros Hin. apply (proj1 (sort_by_ver_in y r)) in Hin. contradiction.
Qed.

Lemma ksorted_nodup m : ksorted m -> NoDup m.
Proof.
  intros Hs. pose proof (sorted_nodup_keys bytes_cmp bytes_cmp_eq bytes_cmp_trans m Hs) as Hk.
  clear Hs. induction m as [|[k v] r IH]; [constructor|].
  cbn in Hk. inversion Hk as [|? ? Hn Hr]; subst. constructor; [|apply IH; exact Hr].
  intros Hin. apply Hn. apply in_map_iff. exists (k, v). auto.
Qed.

(* ascending (<=) + pairwise distinct versions = strictly ascending *)
Lemma asc_strict (l : list (bytes * vv)) lo :
  asc_ver l -> NoDup l ->
  (forall x y, In x l -> In y l -> v_ver (snd x) = v_ver (snd y) -> x = y) ->
  (forall x, In x l -> lo < v_ver (snd x)) ->
  asc_from lo (map kvm_of l).
Proof.
  revert lo. induction l as [|x r IH]; intros lo Ha Hd Hinj Hlo; cbn [map asc_from]; [exact I|].
  cbn [asc_ver] in Ha. destruct Ha as [Hx Hr]. inversion Hd as [|? ? Hnx Hdr]; subst.
  split; [cbn; apply Hlo; left; reflexivity|].
  apply IH; auto.
  - intros a b Ha Hb. apply Hinj; right; assumption.
  - intros y Hy. cbn [kvm_of m_ver]. specialize (Hx y Hy).
    destruct (N.eq_dec (v_ver (snd x)) (v_ver (snd y))) as [E|E]; [|lia].
    exfalso. apply Hnx. rewrite (Hinj x y (or_introl eq_refl) (or_intror Hy) E). exact Hy.
Qed.

Theorem stale_sorted_strict c from :
  copy_inv c -> asc_from from (map kvm_of (stale_sorted c from)).
Proof.
  intros [Hs Hv Hr]. unfold stale_sorted. apply asc_strict.
  - apply sort_by_ver_asc.
  - apply sort_by_ver_nodup. apply NoDup_filter. apply ksorted_nodup. exact Hs.
  - intros [k1 v1] [k2 v2] H1 H2 Heq.
    apply (proj1 (sort_by_ver_in _ _)) in H1. apply (proj1 (sort_by_ver_in _ _)) in H2.
    unfold stale_key_values in *. apply filter_In in H1 as [H1 _]. apply filter_In in H2 as [H2 _].
    cbn [snd] in Heq. pose proof (Hv _ _ _ _ H1 H2 Heq) as ->.
    pose proof (ksorted_in_get _ _ _ Hs H1) as G1. pose proof (ksorted_in_get _ _ _ Hs H2) as G2.
    congruence.
  - intros x Hx. apply (proj1 (sort_by_ver_in _ _)) in Hx. unfold stale_key_values in Hx.
    apply filter_In in Hx as [_ Hx]. apply N.ltb_lt in Hx. exact Hx.
Qed.
