(* DeltaRefine.v — what ClusterState::compute_partial_delta_respecting_mtu produces, for every
   budget, compressor and iteration order: it never aborts, its announced length is within the
   budget, and its node deltas are, in iteration order, version-prefixes of the members' stale
   entries (the per-member shape [mk_node_delta] of Agreement.v).  Used by C07, C09, C14. *)
From Coq Require Import Lia ZifyBool ZifyNat ZifyN.
From ChitchatModel Require Import Base SMap Ids Bytes Params NodeState Stream DeltaWire Message Cluster
  SMap_lemmas NodeState_lemmas Builder_lemmas Stream_lemmas Agreement.

(* ---- serialized sizes ---- *)
Lemma len_put_str s : len (put_str s) = str_len s.
Proof. unfold put_str, str_len. rewrite len_app, len_put_u16. reflexivity. Qed.
Lemma len_be_bytes n v : len (be_bytes n v) = N.of_nat n.
Proof. unfold be_bytes, len. rewrite rev_length. apply len_le_bytes. Qed.
Lemma len_put_addr a : len (put_addr a) = addr_len a.
Proof.
  destruct a; unfold put_addr, addr_len; rewrite !len_app, len_put_u8, len_be_bytes, len_put_u16; reflexivity.
Qed.
Lemma len_put_id i : len (put_id i) = id_len i.
Proof. unfold put_id, id_len. rewrite !len_app, len_put_str, len_put_u64, len_put_addr. lia. Qed.
Lemma len_put_kvm m : len (put_kvm m) = kvm_len m.
Proof. unfold put_kvm, kvm_len. rewrite !len_app, !len_put_str, len_put_u64, len_put_u8. lia. Qed.
Lemma len_put_op o : len (put_op o) = op_len o.
Proof.
  destruct o; unfold put_op, op_len; rewrite !len_app, len_put_u8.
  - rewrite len_put_id, !len_put_u64. lia.
  - rewrite len_put_kvm. reflexivity.
  - rewrite len_put_u64. reflexivity.
Qed.
Lemma op_len_pos o : 1 <= op_len o.
Proof. unfold op_len. lia. Qed.

Section Refine.
  Variable zc : bytes -> option bytes.
  Hypothesis zc_len : forall b c, zc b = Some c -> len c <= len b.

  Definition ds_ok (s : dser) : Prop :=
    0 < w_thr (ds_w s) /\ len (w_pend (ds_w s)) <= w_thr (ds_w s) /\
    len (finish zc (ds_w s)) <= ds_mtu s /\ ds_mtu s <= u16_max.

  (* the serializer either refuses (nothing changes) or accepts (builder advanced, still within budget) *)
  Lemma ds_try_add_op_spec s o b' :
    ds_ok s -> b_apply_op (ds_b s) o = Some b' ->
    exists s' ok, ds_try_add_op zc s o = Ok (s', ok) /\
      ((ok = false /\ s' = s) \/
       (ok = true /\ ds_ok s' /\ ds_b s' = b' /\ ds_mtu s' = ds_mtu s)).
  Proof.
    intros (Ht & Hp & Hf & Hm) Hb. unfold ds_try_add_op.
    pose proof (op_len_pos o) as Hpos.
    unfold upperbound_after at 1. destruct (op_len o =? 0) eqn:E0; [apply N.eqb_eq in E0; lia|].
    set (ub := _ + 1).
    destruct (ds_mtu s <? ub) eqn:Eub.
    - exists s, false. split; [reflexivity|]. left. auto.
    - apply N.ltb_ge in Eub.
      assert (Hitem : len (put_op o) <= u16_max).
      { rewrite len_put_op. unfold ub in Eub. lia. }
      destruct (append zc (ds_w s) (put_op o)) as [w'| |] eqn:Ea.
      + cbn [rbind]. rewrite Hb. eexists _, true. split; [reflexivity|]. right.
        assert (Hub : upperbound_after (ds_w s) (len (put_op o)) = Some ub).
        { rewrite len_put_op. unfold upperbound_after. rewrite E0. reflexivity. }
        destruct (upperbound_sound zc zc_len _ _ _ _ Ht Hp Hub Ea) as (H1 & H2 & H3).
        split; [reflexivity|]. split; [|split; reflexivity].
        unfold ds_ok. cbn [ds_w ds_mtu]. rewrite H3 in H2. rewrite H3.
        split; [exact Ht|]. split; [exact H2|]. split; [lia|exact Hm].
      + unfold append in Ea. destruct (u16_max <? len (put_op o)) eqn:E; [|discriminate].
        apply N.ltb_lt in E. lia.
      + unfold append in Ea. destruct (u16_max <? len (put_op o)) eqn:E; [|discriminate].
        apply N.ltb_lt in E. lia.
  Qed.

  (* ---- key-values of one member ---- *)
  Definition extend (nd : ndelta) (ms : list kvm) : ndelta :=
    mkND (d_id nd) (d_from nd) (d_gc nd) (d_kvs nd ++ ms) (last_kv_ver (d_max nd) ms).

  Lemma extend_nil nd : extend nd [] = nd.
  Proof. destruct nd. unfold extend. cbn. rewrite app_nil_r. reflexivity. Qed.

  Lemma add_kvs_spec : forall kvs s added nd,
    ds_ok s -> b_cur (ds_b s) = Some nd ->
    asc_from (d_max nd) (map kvm_of kvs) ->
    exists s' all added' j,
      add_kvs zc s kvs added = Ok (s', all, added') /\
      ds_ok s' /\ ds_mtu s' = ds_mtu s /\
      b_seen (ds_b s') = b_seen (ds_b s) /\ b_done (ds_b s') = b_done (ds_b s) /\
      b_cur (ds_b s') = Some (extend nd (map kvm_of (firstn j kvs))) /\
      (j <= length kvs)%nat /\
      (all = true <-> j = length kvs) /\
      added' = (added || negb (Nat.eqb j 0)).
  Proof.
    induction kvs as [|e r IH]; intros s added nd Hok Hcur Hasc.
    - exists s, true, added, 0%nat. cbn [add_kvs firstn map length].
      rewrite extend_nil. split; [reflexivity|]. split; [exact Hok|]. repeat split; auto.
      cbn. rewrite orb_false_r. reflexivity.
    - cbn [add_kvs]. cbn [map asc_from] in Hasc. destruct Hasc as [Hlt Hasc].
      assert (Hb : b_apply_op (ds_b s) (OpKV (kvm_of e))
                   = Some (mkB (b_seen (ds_b s)) (b_done (ds_b s)) (Some (extend nd [kvm_of e])))).
      { cbn [b_apply_op]. rewrite Hcur.
        assert (E : d_max nd <? m_ver (kvm_of e) = true) by (apply N.ltb_lt; exact Hlt).
        rewrite E. reflexivity. }
      destruct (ds_try_add_op_spec s _ _ Hok Hb) as (s1 & ok & Hrun & [[-> ->]|(-> & Hok1 & Hb1 & Hm1)]).
      + rewrite Hrun. cbn [rbind]. exists s, false, added, 0%nat. cbn [firstn map length].
        rewrite extend_nil. split; [reflexivity|]. split; [exact Hok|].
        repeat split; auto; try lia; try discriminate.
        cbn. rewrite orb_false_r. reflexivity.
      + rewrite Hrun. cbn [rbind].
        destruct (IH s1 true (extend nd [kvm_of e]) Hok1) as (s' & all & added' & j & Hr & Hok' & Hm' & Hs' & Hd' & Hc' & Hj & Hall & Hadd).
        * rewrite Hb1. reflexivity.
        * cbn [extend d_max last_kv_ver]. exact Hasc.
        * exists s', all, added', (S j). rewrite Hr. split; [reflexivity|].
          rewrite Hb1 in Hs', Hd'. cbn [b_seen b_done] in Hs', Hd'.
          split; [exact Hok'|]. split; [congruence|]. split; [exact Hs'|]. split; [exact Hd'|].
          split.
          { rewrite Hc'. f_equal. unfold extend. cbn [d_id d_from d_gc d_kvs d_max firstn map last_kv_ver].
            rewrite <- app_assoc. reflexivity. }
          split; [cbn [length]; lia|]. split.
          { rewrite Hall. cbn [length]. lia. }
          { rewrite Hadd. cbn. rewrite orb_true_r. reflexivity. }
  Qed.

  (* ---- the node delta computed for one stale member ---- *)
  Definition sorted_of (n : stale_node) : list (bytes * vv) := stale_sorted (sn_copy n) (sn_from n).

  (* [j] key-values fitted; [mv]: the SetMaxVersion op was emitted *)
  Definition node_piece (n : stale_node) (j : nat) (mv : bool) : ndelta :=
    let kvs := map kvm_of (firstn j (sorted_of n)) in
    mkND (sn_id n) (sn_from n) (c_gc (sn_copy n)) kvs
         (match sorted_of n with
          | [] => if mv then c_max (sn_copy n) else 0
          | _ => last_kv_ver 0 kvs
          end).

  Inductive pieces_of : list stale_node -> list ndelta -> Prop :=
  | po_stop : forall nodes, pieces_of nodes []
  | po_cons : forall n rest j mv ps,
      (j <= length (sorted_of n))%nat ->
      ((j < length (sorted_of n))%nat -> ps = []) ->
      pieces_of rest ps ->
      pieces_of (n :: rest) (node_piece n j mv :: ps).

  Definition b_all (b : builder) : list ndelta :=
    b_done b ++ match b_cur b with Some nd => [nd] | None => [] end.

  Lemma b_flush_all b : b_done (b_flush b) = b_all b /\ b_cur (b_flush b) = None /\ b_seen (b_flush b) = b_seen b.
  Proof.
    unfold b_flush, b_all. destruct (b_cur b) as [nd|] eqn:E; cbn; [auto|].
    rewrite E, app_nil_r. auto.
  Qed.

  Lemma ds_finish_spec s : nds (ds_finish zc s) = b_all (ds_b s) /\ dlen (ds_finish zc s) = len (finish zc (ds_w s)).
  Proof. unfold ds_finish, b_finish. cbn. split; [apply b_flush_all|reflexivity]. Qed.

  Lemma not_in_seen i seen : ~ In i seen -> existsb (id_eqb i) seen = false.
  Proof.
    intros H. destruct (existsb (id_eqb i) seen) eqn:E; [|reflexivity].
    apply existsb_exists in E as (x & Hx & He). apply id_eqb_eq in He. subst. contradiction.
  Qed.

  Definition node_ok (n : stale_node) : Prop := asc_from 0 (map kvm_of (sorted_of n)).

  Theorem delta_loop_spec : forall nodes s,
    ds_ok s ->
    NoDup (map sn_id nodes) ->
    (forall n, In n nodes -> ~ In (sn_id n) (b_seen (ds_b s))) ->
    (forall n, In n nodes -> node_ok n) ->
    exists x ps,
      delta_loop zc s nodes = Ok x /\
      dlen x <= ds_mtu s /\
      nds x = b_all (ds_b s) ++ ps /\ pieces_of nodes ps.
  Proof.
    induction nodes as [|n rest IH]; intros s Hok Hnd Hseen Hnok.
    - cbn [delta_loop]. destruct (ds_finish_spec s) as [H1 H2].
      exists (ds_finish zc s), []. split; [reflexivity|]. split; [rewrite H2; apply Hok|].
      split; [rewrite app_nil_r; exact H1|constructor].
    - cbn [delta_loop].
      destruct (b_flush_all (ds_b s)) as (Hfd & Hfc & Hfs).
      assert (Hb : b_apply_op (ds_b s) (OpNode (sn_id n) (c_gc (sn_copy n)) (sn_from n))
                   = Some (mkB (sn_id n :: b_seen (ds_b s)) (b_all (ds_b s))
                               (Some (mkND (sn_id n) (sn_from n) (c_gc (sn_copy n)) [] 0)))).
      { cbn [b_apply_op]. rewrite Hfs, Hfd.
        rewrite (not_in_seen _ _ (Hseen n (or_introl eq_refl))). reflexivity. }
      destruct (ds_try_add_op_spec s _ _ Hok Hb) as (s1 & ok & Hrun & [[-> ->]|(-> & Hok1 & Hb1 & Hm1)]).
      + (* the member header does not fit: stop *)
        rewrite Hrun. cbn [rbind negb]. destruct (ds_finish_spec s) as [H1 H2].
        exists (ds_finish zc s), []. split; [reflexivity|]. split; [rewrite H2; apply Hok|].
        split; [rewrite app_nil_r; exact H1|constructor].
      + rewrite Hrun. cbn [rbind negb].
        set (nd0 := mkND (sn_id n) (sn_from n) (c_gc (sn_copy n)) [] 0).
        destruct (add_kvs_spec (sorted_of n) s1 false nd0 Hok1) as
            (s2 & all & added & j & Hr2 & Hok2 & Hm2 & Hs2 & Hd2 & Hc2 & Hj & Hall & Hadd).
        { rewrite Hb1. reflexivity. }
        { cbn [nd0 d_max]. apply Hnok. left; reflexivity. }
        fold (sorted_of n). rewrite Hr2. cbn [rbind].
        rewrite Hb1 in Hs2, Hd2. cbn [b_seen b_done] in Hs2, Hd2.
        assert (Hpiece : forall mv, (sorted_of n <> [] \/ mv = false) ->
                  extend nd0 (map kvm_of (firstn j (sorted_of n))) = node_piece n j mv).
        { intros mv Hcase. unfold extend, node_piece, nd0. cbn [d_id d_from d_gc d_kvs d_max app].
          f_equal. destruct (sorted_of n) eqn:Es.
          - destruct Hcase as [Hc| ->]; [congruence|]. destruct j; reflexivity.
          - reflexivity. }
        destruct all.
        2:{ (* a key-value did not fit: stop *)
          cbn [negb]. destruct (ds_finish_spec s2) as [H1 H2].
          exists (ds_finish zc s2), [node_piece n j false]. split; [reflexivity|].
          split; [rewrite H2, <- Hm1, <- Hm2; apply Hok2|].
          assert (Hjl : (j < length (sorted_of n))%nat).
          { destruct (Nat.eq_dec j (length (sorted_of n))) as [E|E]; [apply Hall in E; discriminate|lia]. }
          split.
          - rewrite H1. unfold b_all. rewrite Hd2, Hc2.
            rewrite (Hpiece false); [reflexivity|]. left. intros E. rewrite E in Hjl. cbn in Hjl. lia.
          - apply po_cons; [lia|auto|constructor]. }
        cbn [negb].
        assert (Hjl : j = length (sorted_of n)) by (apply Hall; reflexivity).
        assert (Hnd' : NoDup (map sn_id rest)) by (inversion Hnd; assumption).
        assert (Hnotin : ~ In (sn_id n) (map sn_id rest)) by (inversion Hnd; assumption).
        destruct added.
        * (* something was added: next member *)
          assert (Hne : sorted_of n <> []).
          { intros E. rewrite E in Hjl. cbn in Hjl. subst j. cbn in Hadd. discriminate. }
          destruct (IH s2 Hok2 Hnd') as (x & ps & Hx & Hlen & Hnds & Hps).
          { intros m Hm. rewrite Hs2. intros [Heq|Hin].
            - apply Hnotin. rewrite Heq. apply in_map. exact Hm.
            - apply (Hseen m (or_intror Hm)). exact Hin. }
          { intros m Hm. apply Hnok. right. exact Hm. }
          exists x, (node_piece n j false :: ps). split; [exact Hx|].
          split; [rewrite <- Hm1, <- Hm2; exact Hlen|]. split.
          -- rewrite Hnds. unfold b_all at 1. rewrite Hd2, Hc2, (Hpiece false) by (left; exact Hne).
             rewrite <- app_assoc. reflexivity.
          -- apply po_cons; [lia| |exact Hps]. intros Hlt. lia.
        * (* nothing to add: SetMaxVersion, result ignored *)
          assert (He : sorted_of n = []).
          { destruct (sorted_of n) eqn:Es; [reflexivity|]. cbn in Hjl. subst j. cbn in Hadd. discriminate. }
          assert (Hj0 : j = 0%nat) by (rewrite He in Hjl; exact Hjl).
          assert (Hcur2 : b_cur (ds_b s2) = Some nd0).
          { rewrite Hc2, Hj0. cbn [firstn map]. apply f_equal. apply extend_nil. }
          assert (Hb2 : b_apply_op (ds_b s2) (OpSetMax (c_max (sn_copy n)))
                        = Some (mkB (b_seen (ds_b s2)) (b_done (ds_b s2))
                                    (Some (mkND (sn_id n) (sn_from n) (c_gc (sn_copy n)) [] (c_max (sn_copy n)))))).
          { cbn [b_apply_op]. rewrite Hcur2. cbn [nd0 d_max d_id d_from d_gc d_kvs].
            assert (E : c_max (sn_copy n) <? 0 = false) by (apply N.ltb_ge; lia).
            rewrite E. reflexivity. }
          destruct (ds_try_add_op_spec s2 _ _ Hok2 Hb2) as (s3 & ok3 & Hrun3 & Hcase3).
          rewrite Hrun3. cbn [rbind fst].
          assert (Hs3 : ds_ok s3 /\ ds_mtu s3 = ds_mtu s2 /\ b_seen (ds_b s3) = b_seen (ds_b s2)
                        /\ b_all (ds_b s3) = b_all (ds_b s) ++ [node_piece n 0 ok3]).
          { destruct Hcase3 as [[-> ->]|(-> & Hok3 & Hb3 & Hm3)].
            - split; [exact Hok2|]. split; [reflexivity|]. split; [reflexivity|].
              unfold b_all at 1. rewrite Hd2, Hcur2. f_equal. f_equal.
              unfold node_piece, nd0. rewrite He. reflexivity.
            - split; [exact Hok3|]. split; [exact Hm3|]. rewrite Hb3. cbn [b_seen]. split; [reflexivity|].
              unfold b_all at 1. cbn [b_done b_cur]. rewrite Hd2. f_equal. f_equal.
              unfold node_piece. rewrite He. reflexivity. }
          destruct Hs3 as (Hok3 & Hm3 & Hseen3 & Hall3).
          destruct (IH s3 Hok3 Hnd') as (x & ps & Hx & Hlen & Hnds & Hps).
          { intros m Hm. rewrite Hseen3, Hs2. intros [Heq|Hin].
            - apply Hnotin. rewrite Heq. apply in_map. exact Hm.
            - apply (Hseen m (or_intror Hm)). exact Hin. }
          { intros m Hm. apply Hnok. right. exact Hm. }
          exists x, (node_piece n 0 ok3 :: ps). split; [exact Hx|].
          split; [rewrite <- Hm1, <- Hm2, <- Hm3; exact Hlen|]. split.
          -- rewrite Hnds, Hall3, <- app_assoc. reflexivity.
          -- apply po_cons; [lia| |exact Hps]. rewrite He. cbn. lia.
  Qed.
End Refine.
