(* Reach.v — the global step relation (any interleaving of local writes, GC, heartbeats, ticks,
   evaluations, joins, SYN creation, and delivery of ANY message ever sent to ANY node, any number
   of times: loss, duplication, reordering, delay, partition and mis-routing are all instances),
   with the truth about each member's own writes as ghost state, and the global invariant behind
   C03 and C05. *)
From Coq Require Import Lia Permutation.
From ChitchatModel Require Import Base SMap Ids Bytes Params NodeState Stream DeltaWire Message Cluster
  FD Chitchat World Monitors SMap_lemmas NodeState_lemmas Builder_lemmas Stream_lemmas Cluster_lemmas
  Chitchat_lemmas Inv Agreement DeltaRefine Compute_lemmas Prefix_lemmas NodeInv Truth NodeTruth KV_lemmas FD_lemmas Liveness_lemmas Weak.

(* the truth after the owner [X] performed a local write and now holds the own copy [c] *)
Definition sync_truth (T : truth) (X : id) (c : copy) : truth :=
  mkT (fun Y w => t_wrote T Y w \/
                  (Y = X /\ exists k v, In (k, v) (c_kvs c) /\ w = entry_of k v /\ t_max T X < v_ver v))
      (fun Y => if id_eqb Y X then c_max c else t_max T Y)
      (fun Y => if id_eqb Y X then c_hb c else t_hb T Y).

(* what a local operation may do to the own copy: entries are old ones or above the old max *)
Record own_step (c c' : copy) : Prop := mkOS {
  os_entries : forall k v, In (k, v) (c_kvs c') -> In (k, v) (c_kvs c) \/ c_max c < v_ver v;
  os_max : c_max c <= c_max c';
  os_hb : c_hb c <= c_hb c';
  os_gc : c_gc c' <= c_max c'
}.

Lemma sync_truth_ok T X c c' :
  t_wf T -> copy_int T X c -> c_max c = t_max T X -> c_hb c = t_hb T X ->
  copy_inv c' -> own_step c c' ->
  let T' := sync_truth T X c' in
  t_le T T' /\ t_wf T' /\ copy_int T' X c' /\ c_max c' = t_max T' X /\ c_hb c' = t_hb T' X /\
  (forall Y, Y <> X -> t_max T' Y = t_max T Y /\ t_hb T' Y = t_hb T Y).
Proof.
  intros [Hr Hi] [Ce Cm Cg Ch] Hmax Hhb [Hs Hv Hrg] [Oe Om Oh Og]. cbn zeta.
  split; [|split; [|split; [|split; [|split]]]].
  - split; cbn.
    + intros Y w H. left. exact H.
    + intros Y. destruct (id_eqb Y X) eqn:E; [apply id_eqb_eq in E; subst; lia|lia].
    + intros Y. destruct (id_eqb Y X) eqn:E; [apply id_eqb_eq in E; subst; lia|lia].
    + intros Y w [H|(-> & k & v & Hin & -> & Hlt)]; [left; exact H|right; cbn; exact Hlt].
  - split; cbn.
    + intros Y w [H|(-> & k & v & Hin & -> & Hlt)].
      * destruct (Hr Y w H) as [A B]. split; [exact A|].
        destruct (id_eqb Y X) eqn:E; [apply id_eqb_eq in E; subst; lia|exact B].
      * rewrite id_eqb_refl. cbn. destruct (Hrg k v Hin). split; assumption.
    + intros Y w w' [H|(-> & k & v & Hin & -> & Hlt)] [H'|(E' & k' & v' & Hin' & -> & Hlt')] Heq.
      * eapply Hi; eauto.
      * subst Y. cbn in Heq. destruct (Hr X w H). lia.
      * cbn in Heq. destruct (Hr X w' H'). lia.
      * cbn in Heq. pose proof (Hv _ _ _ _ Hin Hin' Heq) as ->.
        pose proof (ksorted_in_get _ _ _ Hs Hin) as G1. pose proof (ksorted_in_get _ _ _ Hs Hin') as G2.
        congruence.
  - split; cbn.
    + intros k v Hin. destruct (Oe k v Hin) as [Hold|Hnew].
      * left. apply Ce. exact Hold.
      * right. split; [reflexivity|]. exists k, v. split; [exact Hin|]. split; [reflexivity|lia].
    + rewrite id_eqb_refl. lia.
    + rewrite id_eqb_refl. exact Og.
    + rewrite id_eqb_refl. lia.
  - cbn. rewrite id_eqb_refl. reflexivity.
  - cbn. rewrite id_eqb_refl. reflexivity.
  - intros Y Hne. cbn.
    assert (E : id_eqb Y X = false) by (destruct (id_eqb Y X) eqn:E; [apply id_eqb_eq in E; congruence|reflexivity]).
    rewrite E. auto.
Qed.

(* ---- own_step for each local operation ---- *)
Lemma own_step_refl c : c_gc c <= c_max c -> own_step c c.
Proof. intros H. split; auto; try lia. Qed.

Lemma own_step_svv c k v :
  c_gc c <= c_max c -> c_max c < v_ver v -> own_step c (fst (set_versioned_value c k v)).
Proof.
  intros Hg Hlt. unfold set_versioned_value.
  assert (Hins : own_step c (mkCopy (c_hb c) (c_gc c) (N.max (v_ver v) (c_max c)) (kinsert k v (c_kvs c)))).
  { split; cbn [c_kvs c_max c_gc c_hb]; try lia.
    intros k' v' Hin. apply in_kinsert in Hin as [E|Hin]; [injection E as -> ->; right; exact Hlt|left; exact Hin]. }
  destruct (kget k (c_kvs c)) as [old|]; [|exact Hins].
  destruct (v_ver v <=? v_ver old); [|exact Hins].
  clear Hins. split; cbn [fst c_kvs c_max c_gc c_hb]; auto; lia.
Qed.

Lemma own_step_set c k v : c_gc c <= c_max c -> own_step c (fst (set c k v)).
Proof.
  intros Hg. unfold set. destruct (match get_versioned c k with Some _ => _ | None => _ end); [apply own_step_refl; exact Hg|].
  apply own_step_svv; [exact Hg|cbn; lia].
Qed.
Lemma own_step_set_ttl now c k v : c_gc c <= c_max c -> own_step c (fst (set_with_ttl now c k v)).
Proof.
  intros Hg. unfold set_with_ttl. destruct (match get_versioned c k with Some _ => _ | None => _ end); [apply own_step_refl; exact Hg|].
  apply own_step_svv; [exact Hg|cbn; lia].
Qed.
Lemma own_step_overwrite c k v :
  c_gc c <= c_max c -> v_ver v = c_max c + 1 ->
  own_step c (mkCopy (c_hb c) (c_gc c) (c_max c + 1) (kinsert k v (c_kvs c))).
Proof.
  intros Hg Hv. split; cbn [c_kvs c_max c_gc c_hb]; try lia.
  intros k' v' Hin. apply in_kinsert in Hin as [E|Hin]; [injection E as -> ->; right; lia|left; exact Hin].
Qed.
Lemma own_step_delete now c k : c_gc c <= c_max c -> own_step c (delete now c k).
Proof.
  intros Hg. unfold delete. destruct (kget k (c_kvs c)); [|apply own_step_refl; exact Hg].
  apply own_step_overwrite; [exact Hg|reflexivity].
Qed.
Lemma own_step_delete_ttl now c k : c_gc c <= c_max c -> own_step c (delete_after_ttl now c k).
Proof.
  intros Hg. unfold delete_after_ttl. destruct (kget k (c_kvs c)); [|apply own_step_refl; exact Hg].
  apply own_step_overwrite; [exact Hg|reflexivity].
Qed.

(* ================= global state ================= *)
Record gstate := mkG { g_w : world; g_sent : list message; g_T : truth }.

Record NI (T : truth) (n : node) : Prop := mkNI {
  ni_inv : node_inv n;
  ni_int : node_int T n;
  ni_own : owner_sync T n
}.

Definition node_at (g : gstate) (a : nat) : option node := nth_error (w_nodes (g_w g)) a.

Record GInv (g : gstate) : Prop := mkGInv {
  gi_wf : t_wf (g_T g);
  (* every ChitchatId is used by at most one incarnation *)
  gi_ids : forall a b na nb, node_at g a = Some na -> node_at g b = Some nb -> self_id na = self_id nb -> a = b;
  gi_nodes : forall a n, node_at g a = Some n -> NI (g_T g) n;
  gi_sent : forall m, In m (g_sent g) -> msg_int (g_T g) m /\ msg_wf m;
  (* nothing is known about an id that no node carries *)
  gi_support : forall X, (forall a n, node_at g a = Some n -> self_id n <> X) ->
                         t_max (g_T g) X = 0 /\ t_hb (g_T g) X = 0 /\ forall w, ~ t_wrote (g_T g) X w
}.

Inductive lwrite_op (now : Z) : (copy -> copy * list event) -> Prop :=
| LW_set k v : lwrite_op now (fun c => set c k v)
| LW_set_ttl k v : lwrite_op now (fun c => set_with_ttl now c k v)
| LW_del k : lwrite_op now (fun c => (delete now c k, []))
| LW_del_ttl k : lwrite_op now (fun c => (delete_after_ttl now c k, [])).

Definition with_nodes (w : world) (l : list node) : world := mkWorld (w_now w) l.
Definition opt_cons {A} (o : option A) (l : list A) : list A := match o with Some x => x :: l | None => l end.

Lemma nth_set_nth_same {A} (l : list A) a x y : nth_error l a = Some y -> nth_error (set_nth l a x) a = Some x.
Proof. revert a. induction l as [|z r IH]; intros [|a]; cbn; try discriminate; auto. Qed.
Lemma nth_set_nth_other {A} (l : list A) a b x : a <> b -> nth_error (set_nth l a x) b = nth_error l b.
Proof.
  revert a b. induction l as [|z r IH]; intros [|a] [|b] H; cbn; try reflexivity; try congruence.
  apply IH. congruence.
Qed.

Lemma bump_other T X Y : Y <> X -> t_max (bump_hb T X) Y = t_max T Y /\ t_hb (bump_hb T X) Y = t_hb T Y.
Proof. intros Hne. cbn. destruct (id_eqb Y X) eqn:E; [apply id_eqb_eq in E; congruence|auto]. Qed.

(* a node other than the acting one keeps its invariants when the truth grows only at X *)
Lemma NI_other T T' X n :
  t_le T T' -> (forall Y, Y <> X -> t_max T' Y = t_max T Y /\ t_hb T' Y = t_hb T Y) ->
  self_id n <> X -> NI T n -> NI T' n.
Proof.
  intros Hle Hsame Hne [Hi Hint (c & Hc & Hm & Hh)]. split; [exact Hi|eapply cluster_int_mono; eauto|].
  exists c. destruct (Hsame _ Hne) as [E1 E2]. split; [exact Hc|]. split; congruence.
Qed.

(* the generic step: node [a] acted (same id), the truth moved only at its id *)
Lemma ginv_node_step g a n n' T' sent' :
  GInv g -> node_at g a = Some n -> self_id n' = self_id n ->
  t_le (g_T g) T' -> t_wf T' ->
  (forall Y, Y <> self_id n -> t_max T' Y = t_max (g_T g) Y /\ t_hb T' Y = t_hb (g_T g) Y) ->
  (forall X, X <> self_id n -> forall w, t_wrote T' X w -> t_wrote (g_T g) X w) ->
  NI T' n' ->
  (forall m, In m sent' -> msg_int T' m /\ msg_wf m) ->
  GInv (mkG (with_nodes (g_w g) (set_nth (w_nodes (g_w g)) a n')) sent' T').
Proof.
  intros [Hwf Hids Hnodes Hsent Hsup] Hn Hself Hle Hwf' Hsame Hwrote Hni Hs'.
  unfold node_at in *.
  assert (Hget : forall b m, nth_error (set_nth (w_nodes (g_w g)) a n') b = Some m ->
                   (b = a /\ m = n') \/ (b <> a /\ nth_error (w_nodes (g_w g)) b = Some m)).
  { intros b m Hm. destruct (Nat.eq_dec a b) as [<-|Hne].
    - rewrite (nth_set_nth_same _ _ _ _ Hn) in Hm. injection Hm as <-. left; auto.
    - rewrite nth_set_nth_other in Hm by exact Hne. right. split; [congruence|exact Hm]. }
  split; unfold node_at; cbn [g_w g_sent g_T with_nodes w_nodes].
  - exact Hwf'.
  - intros b c nb nc Hb Hc Heq.
    destruct (Hget _ _ Hb) as [[-> ->]|[Hba Hb']]; destruct (Hget _ _ Hc) as [[-> ->]|[Hca Hc']].
    + reflexivity.
    + rewrite Hself in Heq. exfalso. apply Hca. symmetry. eapply Hids; eauto.
    + rewrite Hself in Heq. exfalso. apply Hba. eapply Hids; eauto.
    + eapply Hids; eauto.
  - intros b m Hm. destruct (Hget _ _ Hm) as [[-> ->]|[Hba Hb']]; [exact Hni|].
    eapply NI_other; [exact Hle|exact Hsame| |eapply Hnodes; exact Hb'].
    intros E. apply Hba. eapply Hids; eauto.
  - exact Hs'.
  - intros X HX.
    assert (HXn : X <> self_id n).
    { intros ->. apply (HX a n'); [|exact Hself]. apply (nth_set_nth_same _ _ _ _ Hn). }
    destruct (Hsup X) as (A & B & C).
    { intros b m Hm. destruct (Nat.eq_dec a b) as [<-|Hne].
      - rewrite Hn in Hm. injection Hm as <-. congruence.
      - apply (HX b m). rewrite nth_set_nth_other by exact Hne. exact Hm. }
    destruct (Hsame X HXn) as [E1 E2]. split; [congruence|]. split; [congruence|].
    intros w Hw. apply (C w). apply Hwrote; assumption.
Qed.

Definition own_gc_ok (n : node) : Prop :=
  forall c, nm_get (self_id n) (cs_nodes (nd_cs n)) = Some c -> c_gc c <= c_max c.

Record GInv2 (g : gstate) : Prop := mkGInv2 {
  gi2_inv : GInv g;
  gi2_own_gc : forall a n, node_at g a = Some n -> own_gc_ok n
}.

Section Global.
  Variable zc : bytes -> option bytes.
  Hypothesis zc_len : forall b c, zc b = Some c -> len c <= len b.
  (* strict = true: deliveries that perform a weak acceptance (known class KF-1) are excluded *)
  Variable strict : bool.

  Inductive gstep : gstate -> gstate -> Prop :=
  | GS_join g cfg initial :
      (forall a n, node_at g a = Some n -> self_id n <> cf_id cfg) ->
      gstep g (mkG (with_nodes (g_w g) (w_nodes (g_w g) ++ [new_node cfg initial])) (g_sent g)
                   (sync_truth (g_T g) (cf_id cfg) (own_copy (new_node cfg initial))))
  | GS_write g a n f :
      node_at g a = Some n -> lwrite_op (w_now (g_w g)) f ->
      gstep g (mkG (with_nodes (g_w g) (set_nth (w_nodes (g_w g)) a (fst (on_own n f)))) (g_sent g)
                   (sync_truth (g_T g) (self_id n) (own_copy (fst (on_own n f)))))
  | GS_gc g a n :
      node_at g a = Some n ->
      gstep g (mkG (with_nodes (g_w g) (set_nth (w_nodes (g_w g)) a (gc_keys (w_now (g_w g)) n))) (g_sent g) (g_T g))
  | GS_heartbeat g a n :
      node_at g a = Some n ->
      gstep g (mkG (with_nodes (g_w g) (set_nth (w_nodes (g_w g)) a (update_self_heartbeat n))) (g_sent g)
                   (bump_hb (g_T g) (self_id n)))
  | GS_tick g dt :
      gstep g (mkG (mkWorld (w_now (g_w g) + Z.max 0 dt)%Z (w_nodes (g_w g))) (g_sent g) (g_T g))
  | GS_eval g a n oracle :
      node_at g a = Some n ->
      gstep g (mkG (with_nodes (g_w g) (set_nth (w_nodes (g_w g)) a (update_nodes_liveness (w_now (g_w g)) n oracle)))
                   (g_sent g) (g_T g))
  | GS_syn g a n :
      node_at g a = Some n ->
      gstep g (mkG (g_w g) (create_syn_message (w_now (g_w g)) n :: g_sent g) (g_T g))
  | GS_deliver g a n m ord n' reply evs :
      node_at g a = Some n -> In m (g_sent g) ->
      (strict = true -> msg_weak (w_now (g_w g)) n m = false) ->
      process_message zc (w_now (g_w g)) n m ord = Ok (n', reply, evs) ->
      gstep g (mkG (with_nodes (g_w g) (set_nth (w_nodes (g_w g)) a n')) (opt_cons reply (g_sent g))
                   (bump_hb (g_T g) (self_id n))).

  Definition g_init : gstate := mkG empty_world [] (mkT (fun _ _ => False) (fun _ => 0) (fun _ => 0)).

  Inductive reachable : gstate -> Prop :=
  | R_init : reachable g_init
  | R_step g g' : reachable g -> gstep g g' -> reachable g'.

  Lemma ginv_init : GInv2 g_init.
  Proof.
    split; [split|]; unfold node_at; cbn.
    - split; cbn; intros; contradiction.
    - intros a b na nb H. destruct a; discriminate.
    - intros a n H. destruct a; discriminate.
    - intros m [].
    - intros X _. repeat split; auto.
    - intros a n H. destruct a; discriminate.
  Qed.

  Lemma sent_mono g T' : GInv g -> t_le (g_T g) T' ->
    forall m, In m (g_sent g) -> msg_int T' m /\ msg_wf m.
  Proof.
    intros Hg Hle m Hm. destruct (gi_sent g Hg m Hm) as [H1 H2]. split; [eapply msg_int_mono; eauto|exact H2].
  Qed.

  Lemma self_id_on_own n f : self_id (fst (on_own n f)) = self_id n.
  Proof.
    unfold on_own. destruct (nm_get _ _); [|reflexivity]. destruct (f c). reflexivity.
  Qed.

  Lemma own_copy_spec n c : nm_get (self_id n) (cs_nodes (nd_cs n)) = Some c -> own_copy n = c.
  Proof. intros H. unfold own_copy. rewrite H. reflexivity. Qed.

  (* a local write of the owner *)
  Lemma write_step g a n f :
    GInv2 g -> node_at g a = Some n -> lwrite_op (w_now (g_w g)) f ->
    GInv2 (mkG (with_nodes (g_w g) (set_nth (w_nodes (g_w g)) a (fst (on_own n f)))) (g_sent g)
               (sync_truth (g_T g) (self_id n) (own_copy (fst (on_own n f))))).
  Proof.
    intros [Hg Hgc] Hn Hf.
    destruct (gi_nodes g Hg a n Hn) as [Hinv Hint (c & Hc & Hm & Hh)].
    pose proof (Hgc a n Hn c Hc) as Hgcc.
    assert (Hcinv : copy_inv c) by (eapply (cli_copies _ Hinv); apply nm_get_in; exact Hc).
    assert (Hfc : copy_inv (fst (f c)) /\ own_step c (fst (f c))).
    { destruct Hf; cbn [fst]; split;
        first [apply set_inv|apply set_with_ttl_inv|apply delete_inv|apply delete_after_ttl_inv
              |apply own_step_set|apply own_step_set_ttl|apply own_step_delete|apply own_step_delete_ttl]; assumption. }
    destruct Hfc as [Hc'inv Hos].
    (* shape of the new node *)
    assert (Hshape : fst (on_own n f) = with_cs n (mkCluster (nm_insert (self_id n) (fst (f c)) (cs_nodes (nd_cs n))) (cs_gcn (nd_cs n)))).
    { unfold on_own, node_state_mut_or_init. rewrite Hc, Hc. destruct (f c). reflexivity. }
    assert (Hown' : nm_get (self_id n) (cs_nodes (nd_cs (fst (on_own n f)))) = Some (fst (f c))).
    { rewrite Hshape. cbn [nd_cs with_cs cs_nodes]. apply nm_get_insert_same. }
    assert (Hoc : own_copy (fst (on_own n f)) = fst (f c)).
    { apply own_copy_spec. rewrite self_id_on_own. exact Hown'. }
    rewrite Hoc.
    destruct (sync_truth_ok (g_T g) (self_id n) c (fst (f c)) (gi_wf g Hg) (Hint _ _ Hc) Hm Hh Hc'inv Hos)
      as (Hle & Hwf' & Hci' & Hm' & Hh' & Hsame).
    cbn zeta in *.
    split.
    - apply (ginv_node_step g a n); auto.
      + apply self_id_on_own.
      + intros X HX w [Hw|(E & _)]; [exact Hw|congruence].
      + split.
        * apply on_own_inv; [exact Hinv|]. intros c0 Hc0.
          destruct Hf; cbn [fst]; first [apply set_inv|apply set_with_ttl_inv|apply delete_inv|apply delete_after_ttl_inv]; exact Hc0.
        * rewrite Hshape. unfold node_int. cbn [nd_cs with_cs].
          apply cluster_int_insert; [eapply cluster_int_mono; eauto|exact Hci'].
        * exists (fst (f c)). rewrite self_id_on_own. split; [exact Hown'|]. split; assumption.
      + apply sent_mono; assumption.
    - intros b m Hb. unfold node_at in Hb. cbn [g_w with_nodes w_nodes] in Hb.
      destruct (Nat.eq_dec a b) as [<-|Hne].
      + rewrite (nth_set_nth_same _ _ _ _ Hn) in Hb. injection Hb as <-.
        intros c0 Hc0. rewrite self_id_on_own, Hown' in Hc0. injection Hc0 as <-. apply (os_gc _ _ Hos).
      + rewrite nth_set_nth_other in Hb by exact Hne. eapply Hgc. exact Hb.
  Qed.
End Global.

Section Global2.
  Variable zc : bytes -> option bytes.
  Hypothesis zc_len : forall b c, zc b = Some c -> len c <= len b.

  Lemma own_gc_step g a n n' :
    (forall b m, node_at g b = Some m -> own_gc_ok m) -> node_at g a = Some n -> own_gc_ok n' ->
    forall T' sent' b m, node_at (mkG (with_nodes (g_w g) (set_nth (w_nodes (g_w g)) a n')) sent' T') b = Some m -> own_gc_ok m.
  Proof.
    intros Hgc Hn Hn' T' sent' b m Hb. unfold node_at in *. cbn [g_w with_nodes w_nodes] in Hb.
    destruct (Nat.eq_dec a b) as [<-|Hne].
    - rewrite (nth_set_nth_same _ _ _ _ Hn) in Hb. injection Hb as <-. exact Hn'.
    - rewrite nth_set_nth_other in Hb by exact Hne. eapply Hgc. exact Hb.
  Qed.

  Lemma heartbeat_step g a n :
    GInv2 g -> node_at g a = Some n ->
    GInv2 (mkG (with_nodes (g_w g) (set_nth (w_nodes (g_w g)) a (update_self_heartbeat n))) (g_sent g)
               (bump_hb (g_T g) (self_id n))).
  Proof.
    intros [Hg Hgc] Hn. destruct (gi_nodes g Hg a n Hn) as [Hinv Hint Hown].
    destruct (update_self_heartbeat_truth (g_T g) n Hint Hown) as [Hint' Hown'].
    split.
    - apply (ginv_node_step g a n); auto.
      + apply t_le_bump.
      + apply bump_wf. apply Hg.
      + intros Y HY. apply bump_other. exact HY.
      + split; [apply update_self_heartbeat_inv; exact Hinv|exact Hint'|exact Hown'].
      + apply sent_mono; [exact Hg|apply t_le_bump].
    - eapply own_gc_step; eauto. intros c Hc.
      destruct Hown as (c0 & Hc0 & _). destruct (update_self_heartbeat_own n c0 Hc0) as [H1 _].
      change (self_id (update_self_heartbeat n)) with (self_id n) in Hc. rewrite H1 in Hc. injection Hc as <-.
      cbn. eapply Hgc; eauto.
  Qed.

  Lemma gc_copy_int T X now grace c : t_wf T -> copy_int T X c -> copy_int T X (gc_keys_marked_for_deletion now grace c).
  Proof.
    intros Hwf [A B C D]. unfold gc_keys_marked_for_deletion. split; cbn [c_kvs c_max c_gc c_hb]; auto.
    - intros k v Hin. apply filter_In in Hin as [Hin _]. auto.
    - pose proof (fold_max_spec (filter (fun kv => gc_collectable now grace (snd kv)) (c_kvs c)) (c_gc c)) as (_ & _ & H3).
      cbn zeta in H3. destruct H3 as [->|(e & He & <-)]; [exact C|].
      apply filter_In in He as [He _]. destruct e as [k v]. destruct (twf_range T Hwf _ _ (A k v He)) as [_ Hr]. exact Hr.
  Qed.

  Lemma nm_get_map_snd (f : copy -> copy) (m : nmap) i :
    nm_get i (map (fun e => (fst e, f (snd e))) m) = option_map f (nm_get i m).
  Proof.
    induction m as [|[k v] r IH]; [reflexivity|]. cbn [map fst snd]. unfold nm_get in *. cbn [sm_get].
    destruct (id_cmp i k); [reflexivity|exact IH|exact IH].
  Qed.

  Lemma gc_step g a n :
    GInv2 g -> node_at g a = Some n ->
    GInv2 (mkG (with_nodes (g_w g) (set_nth (w_nodes (g_w g)) a (gc_keys (w_now (g_w g)) n))) (g_sent g) (g_T g)).
  Proof.
    intros [Hg Hgc] Hn. destruct (gi_nodes g Hg a n Hn) as [Hinv Hint (c & Hc & Hm & Hh)].
    set (now := w_now (g_w g)). set (grace := cf_grace (nd_cfg n)).
    assert (Hget : forall X, nm_get X (cs_nodes (nd_cs (gc_keys now n)))
                             = option_map (gc_keys_marked_for_deletion now grace) (nm_get X (cs_nodes (nd_cs n)))).
    { intros X. unfold gc_keys, cluster_gc. cbn [nd_cs with_cs cs_nodes]. apply nm_get_map_snd. }
    split.
    - apply (ginv_node_step g a n); auto.
      + apply t_le_refl.
      + apply Hg.
      + split.
        * apply gc_keys_inv. exact Hinv.
        * intros X d Hd. rewrite Hget in Hd. destruct (nm_get X (cs_nodes (nd_cs n))) as [c0|] eqn:E; [|discriminate].
          injection Hd as <-. apply gc_copy_int; [apply Hg|apply Hint; exact E].
        * exists (gc_keys_marked_for_deletion now grace c).
          change (self_id (gc_keys now n)) with (self_id n). rewrite Hget, Hc. cbn. auto.
      + apply (gi_sent g Hg).
    - eapply own_gc_step; eauto. intros c0 Hc0.
      change (self_id (gc_keys now n)) with (self_id n) in Hc0. rewrite Hget, Hc in Hc0. injection Hc0 as <-.
      pose proof (fold_max_spec (filter (fun kv => gc_collectable now grace (snd kv)) (c_kvs c)) (c_gc c)) as (_ & _ & H3).
      cbn zeta in H3. unfold gc_keys_marked_for_deletion. cbn [c_gc c_max].
      destruct H3 as [->|(e & He & <-)]; [eapply Hgc; eauto|].
      apply filter_In in He as [He _]. destruct e as [k v].
      assert (Hci : copy_inv c) by (eapply (cli_copies _ Hinv); apply nm_get_in; exact Hc).
      destruct (ci_range c Hci k v He). assumption.
  Qed.

  Lemma eval_step g a n oracle :
    GInv2 g -> node_at g a = Some n ->
    GInv2 (mkG (with_nodes (g_w g) (set_nth (w_nodes (g_w g)) a (update_nodes_liveness (w_now (g_w g)) n oracle)))
               (g_sent g) (g_T g)).
  Proof.
    intros [Hg Hgc] Hn. destruct (gi_nodes g Hg a n Hn) as [Hinv Hint (c & Hc & Hm & Hh)].
    set (n' := update_nodes_liveness (w_now (g_w g)) n oracle).
    assert (Hself : self_id n' = self_id n) by (unfold n', update_nodes_liveness; cbv zeta; destruct (fd_garbage_collect _ _ _); reflexivity).
    assert (Hget : forall X, nm_get X (cs_nodes (nd_cs n')) = None \/ nm_get X (cs_nodes (nd_cs n')) = nm_get X (cs_nodes (nd_cs n))).
    { intros X. unfold n', update_nodes_liveness. cbv zeta. destruct (fd_garbage_collect _ _ _) as [f2 col]. cbn [nd_cs].
      rewrite fold_remove_node_get by apply Hinv. destruct (_ && _); auto. }
    assert (Hown : nm_get (self_id n) (cs_nodes (nd_cs n')) = Some c).
    { unfold n', update_nodes_liveness. cbv zeta. destruct (fd_garbage_collect _ _ _) as [f2 col]. cbn [nd_cs].
      rewrite fold_remove_node_get by apply Hinv. rewrite id_eqb_refl. cbn [negb]. rewrite andb_false_r. exact Hc. }
    split.
    - apply (ginv_node_step g a n); auto.
      + apply t_le_refl.
      + apply Hg.
      + split.
        * apply update_nodes_liveness_inv. exact Hinv.
        * intros X d Hd. destruct (Hget X) as [E|E]; [fold n' in Hd; congruence|]. apply Hint. fold n' in Hd. congruence.
        * exists c. fold n'. rewrite Hself. auto.
      + apply (gi_sent g Hg).
    - eapply own_gc_step; eauto. intros c0 Hc0. fold n' in Hc0. rewrite Hself, Hown in Hc0. injection Hc0 as <-.
      eapply Hgc; eauto.
  Qed.

  Lemma syn_step g a n :
    GInv2 g -> node_at g a = Some n ->
    GInv2 (mkG (g_w g) (create_syn_message (w_now (g_w g)) n :: g_sent g) (g_T g)).
  Proof.
    intros [Hg Hgc] Hn. destruct (gi_nodes g Hg a n Hn) as [Hinv Hint Hown].
    split; [|exact Hgc]. destruct Hg as [A B C D E]. split; auto.
    intros m [<-|Hm]; [|apply D; exact Hm]. split; [|exact I]. cbn.
    apply compute_digest_int; [exact Hint|apply Hinv].
  Qed.

  Lemma tick_step g dt :
    GInv2 g -> GInv2 (mkG (mkWorld (w_now (g_w g) + Z.max 0 dt)%Z (w_nodes (g_w g))) (g_sent g) (g_T g)).
  Proof. intros [[A B C D E] F]. split; [split|]; auto. Qed.

  Lemma deliver_step g a n m ord n' reply evs :
    GInv2 g -> node_at g a = Some n -> In m (g_sent g) ->
    process_message zc (w_now (g_w g)) n m ord = Ok (n', reply, evs) ->
    GInv2 (mkG (with_nodes (g_w g) (set_nth (w_nodes (g_w g)) a n')) (opt_cons reply (g_sent g))
               (bump_hb (g_T g) (self_id n))).
  Proof.
    intros [Hg Hgc] Hn Hm Hrun. destruct (gi_nodes g Hg a n Hn) as [Hinv Hint Hown].
    destruct (gi_sent g Hg m Hm) as [Hmi Hmw].
    destruct (process_message_truth zc zc_len (g_T g) _ n m ord n' reply evs (gi_wf g Hg) Hinv Hint Hown Hmi Hmw Hrun)
      as (Hinv' & Hint' & Hown' & Hself & Hreply & Hsingle).
    split.
    - apply (ginv_node_step g a n); auto.
      + apply t_le_bump.
      + apply bump_wf. apply Hg.
      + intros Y HY. apply bump_other. exact HY.
      + split; assumption.
      + intros m0 Hm0. destruct reply as [r|]; cbn [opt_cons] in Hm0.
        * destruct Hm0 as [<-|Hm0]; [exact Hreply|]. apply (sent_mono g); [exact Hg|apply t_le_bump|exact Hm0].
        * apply (sent_mono g); [exact Hg|apply t_le_bump|exact Hm0].
    - eapply own_gc_step; eauto. intros c0 Hc0. rewrite Hself in Hc0.
      destruct Hown as (c & Hc & _). rewrite (Hsingle c Hc) in Hc0. injection Hc0 as <-. cbn. eapply Hgc; eauto.
  Qed.
End Global2.

Section Global3.
  Variable zc : bytes -> option bytes.
  Hypothesis zc_len : forall b c, zc b = Some c -> len c <= len b.
  Variable strict : bool.

  Lemma set_all_gc_hb : forall initial c, c_gc (set_all c initial) = c_gc c /\ c_hb (set_all c initial) = c_hb c.
  Proof.
    induction initial as [|[k v] r IH]; intros c; cbn [set_all]; [auto|].
    destruct (IH (fst (set c k v))) as [H1 H2]. rewrite H1, H2.
    unfold set. destruct (match get_versioned c k with Some _ => _ | None => _ end); cbn [fst]; [auto|].
    rewrite svv_gc, svv_hb. auto.
  Qed.

  Lemma new_node_cluster cfg initial :
    nd_cs (new_node cfg initial)
    = mkCluster [(cf_id cfg, set_all (inc_heartbeat new_copy) initial)] [].
  Proof.
    unfold new_node, update_self_heartbeat, update_copy, node_state_mut_or_init, self_id.
    cbn [nd_cs nd_cfg with_cs new_cluster cs_nodes cs_gcn nm_get sm_get lru_pop lru_remove nm_insert sm_insert].
    unfold nm_get, nm_insert. cbn [sm_get sm_insert cs_nodes]. rewrite !id_cmp_refl.
    cbn [sm_get sm_insert cs_nodes cs_gcn]. rewrite !id_cmp_refl. reflexivity.
  Qed.

  Lemma join_step g cfg initial :
    GInv2 g -> (forall a n, node_at g a = Some n -> self_id n <> cf_id cfg) ->
    GInv2 (mkG (with_nodes (g_w g) (w_nodes (g_w g) ++ [new_node cfg initial])) (g_sent g)
               (sync_truth (g_T g) (cf_id cfg) (own_copy (new_node cfg initial)))).
  Proof.
    intros [Hg Hgc] Hfresh.
    set (X := cf_id cfg). set (nn := new_node cfg initial).
    set (own0 := set_all (inc_heartbeat new_copy) initial).
    assert (Hcs : nd_cs nn = mkCluster [(X, own0)] []) by apply new_node_cluster.
    assert (Hself : self_id nn = X) by reflexivity.
    assert (Hget : forall Y, nm_get Y (cs_nodes (nd_cs nn)) = if id_eqb Y X then Some own0 else None).
    { intros Y. rewrite Hcs. unfold nm_get, id_eqb. cbn [cs_nodes sm_get]. destruct (id_cmp Y X); reflexivity. }
    assert (Hown0 : own_copy nn = own0).
    { apply own_copy_spec. rewrite Hself, Hget, id_eqb_refl. reflexivity. }
    rewrite Hown0.
    destruct (gi_support g Hg X) as (Hmax0 & Hhb0 & Hnow). { intros a n Hn. apply Hfresh with a. exact Hn. }
    pose proof (new_node_inv cfg initial) as Hninv. fold nn in Hninv.
    assert (Hci0 : copy_inv own0).
    { eapply (cli_copies _ Hninv). apply nm_get_in. rewrite Hget, id_eqb_refl. reflexivity. }
    destruct (set_all_gc_hb initial (inc_heartbeat new_copy)) as [Hgc0 Hhb1]. fold own0 in Hgc0, Hhb1. cbn in Hgc0, Hhb1.
    assert (Hos : own_step new_copy own0).
    { split; cbn [new_copy c_kvs c_max c_hb c_gc].
      - intros k v Hin. right. apply (ci_range _ Hci0 k v Hin).
      - apply N.le_0_l.
      - apply N.le_0_l.
      - rewrite Hgc0. apply N.le_0_l. }
    destruct (sync_truth_ok (g_T g) X new_copy own0 (gi_wf g Hg) (new_copy_int _ _)
                (eq_sym Hmax0) (eq_sym Hhb0) Hci0 Hos) as (Hle & Hwf' & Hci' & Hm' & Hh' & Hsame).
    cbn zeta in *. set (T' := sync_truth (g_T g) X own0) in *.
    assert (Hnth : forall b m, nth_error (w_nodes (g_w g) ++ [nn]) b = Some m ->
                     nth_error (w_nodes (g_w g)) b = Some m \/ (b = length (w_nodes (g_w g)) /\ m = nn)).
    { intros b m Hb. destruct (Nat.lt_ge_cases b (length (w_nodes (g_w g)))) as [Hlt|Hge].
      - rewrite nth_error_app1 in Hb by exact Hlt. left. exact Hb.
      - rewrite nth_error_app2 in Hb by exact Hge. right.
        destruct (b - length (w_nodes (g_w g)))%nat as [|k] eqn:Ek; cbn in Hb; [|destruct k; discriminate].
        injection Hb as <-. split; [lia|reflexivity]. }
    assert (Hold_lt : forall b m, nth_error (w_nodes (g_w g)) b = Some m -> (b < length (w_nodes (g_w g)))%nat).
    { intros b m Hb. apply nth_error_Some. congruence. }
    split; [split|]; unfold node_at in *; cbn [g_w g_sent g_T with_nodes w_nodes].
    - exact Hwf'.
    - intros b c nb nc Hb Hc Heq.
      destruct (Hnth _ _ Hb) as [Hb'|[-> ->]]; destruct (Hnth _ _ Hc) as [Hc'|[-> ->]].
      + eapply (gi_ids g Hg); eauto.
      + exfalso. eapply Hfresh; eauto.
      + exfalso. eapply Hfresh; eauto.
      + reflexivity.
    - intros b m Hb. destruct (Hnth _ _ Hb) as [Hb'|[-> ->]].
      + eapply NI_other; [exact Hle|exact Hsame|eapply Hfresh; exact Hb'|eapply (gi_nodes g Hg); exact Hb'].
      + split; [exact Hninv| |].
        * intros Y d Hd. rewrite Hget in Hd. destruct (id_eqb Y X) eqn:E; [|discriminate].
          apply id_eqb_eq in E. subst Y. injection Hd as <-. exact Hci'.
        * exists own0. rewrite Hself, Hget, id_eqb_refl. auto.
    - apply sent_mono; assumption.
    - intros Y HY.
      assert (HYX : Y <> X).
      { intros ->. apply (HY (length (w_nodes (g_w g))) nn); [|exact Hself].
        rewrite nth_error_app2 by lia. rewrite Nat.sub_diag. reflexivity. }
      destruct (gi_support g Hg Y) as (A & B & C).
      { intros b m Hb. apply (HY b m). rewrite nth_error_app1 by (eapply Hold_lt; eauto). exact Hb. }
      destruct (Hsame Y HYX) as [E1 E2]. split; [congruence|]. split; [congruence|].
      intros w [Hw|(E & _)]; [apply (C w); exact Hw|congruence].
    - intros b m Hb. destruct (Hnth _ _ Hb) as [Hb'|[-> ->]]; [eapply Hgc; exact Hb'|].
      intros c0 Hc0. rewrite Hself, Hget, id_eqb_refl in Hc0. injection Hc0 as <-. apply (os_gc _ _ Hos).
  Qed.

  (* ======================= the global invariant ======================= *)
  Theorem reachable_inv : forall g, reachable zc strict g -> GInv2 g.
  Proof.
    induction 1 as [|g g' Hr IH Hstep]; [apply ginv_init|].
    destruct Hstep.
    - apply join_step; assumption.
    - apply write_step; assumption.
    - apply gc_step; assumption.
    - apply heartbeat_step; assumption.
    - apply tick_step; assumption.
    - apply eval_step; assumption.
    - eapply syn_step; eassumption.
    - eapply (deliver_step zc zc_len); eassumption.
  Qed.

  (* every gstep is a step of the executable World.step the correspondence driver runs *)
  Theorem gstep_is_world_step : forall g g', gstep zc strict g g' ->
    (exists op obs, step zc (g_w g) op = Ok (g_w g', obs)) \/ g_w g' = g_w g.
  Proof.
    intros g g' H. destruct H; unfold node_at in *; cbn [g_w].
    - left. exists (WJoin cfg initial), no_obs. reflexivity.
    - left. destruct H0.
      + exists (WSet a k v), (mkObs None (snd (on_own n (fun c => set c k v)))).
        unfold step, with_node. rewrite H. destruct (on_own n (fun c => set c k v)). reflexivity.
      + exists (WSetTtl a k v), (mkObs None (snd (on_own n (fun c => set_with_ttl (w_now (g_w g)) c k v)))).
        unfold step, with_node. rewrite H. destruct (on_own n _). reflexivity.
      + exists (WDel a k), no_obs. unfold step, with_node. rewrite H. reflexivity.
      + exists (WDelTtl a k), no_obs. unfold step, with_node. rewrite H. reflexivity.
    - left. exists (WGc a), no_obs. unfold step, with_node. rewrite H. reflexivity.
    - left. exists (WHeartbeat a), no_obs. unfold step, with_node. rewrite H. reflexivity.
    - left. exists (WTick dt), no_obs. reflexivity.
    - left. exists (WEval a oracle), no_obs. unfold step, with_node. rewrite H. reflexivity.
    - right. reflexivity.
    - left. exists (WProc a m ord), (mkObs reply evs). unfold step, with_node. rewrite H, H2. reflexivity.
  Qed.
End Global3.
