(* MemInv.v — the removed-member memory (C12): its keys are distinct, and a member the node holds is
   never in it.  Cluster-level invariant, preserved by every operation that touches membership:
   creation pops the entry, removal pushes it (with the heartbeat held at that moment:
   Liveness_lemmas.removal_remembers_heartbeat), everything else leaves keys and memory alone.
   These are the two rules of the C12 "memory" monitor. *)
From Coq Require Import Lia.
From ChitchatModel Require Import Base SMap Ids Bytes Params NodeState Stream DeltaWire Message Cluster
  FD Chitchat World SMap_lemmas NodeState_lemmas Cluster_lemmas Chitchat_lemmas FD_lemmas Agreement Inv Compute_lemmas NodeInv Revive.

Definition mem_inv (cs : cluster) : Prop :=
  NoDup (map fst (cs_gcn cs)) /\
  forall i c, nm_get i (cs_nodes cs) = Some c -> lru_peek i (cs_gcn cs) = None.

Lemma lru_peek_none_iff i l : lru_peek i l = None <-> ~ In i (map fst l).
Proof.
  induction l as [|[k v] r IH]; cbn [lru_peek map fst In]; [tauto|].
  destruct (id_eqb i k) eqn:E.
  - apply id_eqb_eq in E. subst k. split; [discriminate|]. intros H. exfalso. apply H. left. reflexivity.
  - rewrite IH. split.
    + intros H [Hk|Hin]; [subst k; rewrite id_eqb_refl in E; discriminate|contradiction].
    + intros H Hin. apply H. right. exact Hin.
Qed.

Lemma in_lru_remove k j l : In j (map fst (lru_remove k l)) -> In j (map fst l).
Proof.
  induction l as [|[k0 v0] r IH]; cbn [lru_remove map fst In]; [auto|].
  destruct (id_eqb k k0); cbn [map fst In]; [intros H; right; exact H|].
  intros [H|H]; [left; exact H|right; apply IH; exact H].
Qed.

Lemma lru_remove_nodup k l : NoDup (map fst l) -> NoDup (map fst (lru_remove k l)) /\ ~ In k (map fst (lru_remove k l)).
Proof.
  induction l as [|[k0 v0] r IH]; cbn [lru_remove map fst]; intros Hnd; [split; [constructor|intros []]|].
  apply NoDup_cons_iff in Hnd as [Hni Hr].
  destruct (id_eqb k k0) eqn:E.
  - apply id_eqb_eq in E. subst k0. split; [exact Hr|exact Hni].
  - destruct (IH Hr) as [H1 H2]. cbn [map fst]. split.
    + constructor; [intros Hin; apply Hni; eapply in_lru_remove; exact Hin|exact H1].
    + intros [Hk|Hin]; [subst k0; rewrite id_eqb_refl in E; discriminate|contradiction].
Qed.

Lemma in_firstn_keys (n : nat) (l : lru) j : In j (map fst (firstn n l)) -> In j (map fst l).
Proof. rewrite <- firstn_map. apply in_firstn. Qed.

Lemma firstn_nodup (n : nat) (l : lru) : NoDup (map fst l) -> NoDup (map fst (firstn n l)).
Proof.
  revert n. induction l as [|[k v] r IH]; intros [|n] Hnd; cbn [firstn map fst]; try constructor.
  - apply NoDup_cons_iff in Hnd as [Hni Hr]. intros Hin. apply Hni. eapply in_firstn_keys. exact Hin.
  - apply NoDup_cons_iff in Hnd as [_ Hr]. apply IH. exact Hr.
Qed.

Lemma lru_push_keys cap k v l j : In j (map fst (lru_push cap k v l)) -> j = k \/ In j (map fst l).
Proof.
  unfold lru_push. destruct (lru_peek k l); cbn [map fst In].
  - intros [H|H]; [left; auto|right; eapply in_lru_remove; exact H].
  - intros [H|H]; [left; auto|right; eapply in_firstn_keys; exact H].
Qed.

Lemma lru_push_nodup cap k v l : NoDup (map fst l) -> NoDup (map fst (lru_push cap k v l)).
Proof.
  intros Hnd. unfold lru_push. destruct (lru_peek k l) eqn:E; cbn [map fst].
  - destruct (lru_remove_nodup k l Hnd) as [H1 H2]. constructor; assumption.
  - constructor; [|apply firstn_nodup; exact Hnd].
    intros Hin. apply in_firstn_keys in Hin. apply (proj1 (lru_peek_none_iff k l)) in E. contradiction.
Qed.

(* ---------- the operations ---------- *)
Lemma new_cluster_mem : mem_inv new_cluster.
Proof. split; [constructor|intros i c H; discriminate]. Qed.

Lemma mut_or_init_mem cs i : mem_inv cs -> mem_inv (node_state_mut_or_init cs i).
Proof.
  intros [Hnd Hp]. unfold node_state_mut_or_init. destruct (nm_get i (cs_nodes cs)) eqn:E; [split; assumption|].
  destruct (lru_remove_nodup i (cs_gcn cs) Hnd) as [H1 H2]. split; cbn [cs_gcn cs_nodes]; [exact H1|].
  intros j c Hj. apply lru_peek_none_iff. unfold lru_pop.
  destruct (id_dec i j) as [<-|Hne]; [exact H2|].
  rewrite nm_get_insert_other in Hj by exact Hne. intros Hin. apply in_lru_remove in Hin.
  apply (proj1 (lru_peek_none_iff j (cs_gcn cs)) (Hp j c Hj)). exact Hin.
Qed.

(* replacing the copy of a member that is present changes neither keys nor memory *)
Lemma insert_present_mem cs i c0 c : mem_inv cs -> nm_get i (cs_nodes cs) = Some c0 ->
  mem_inv (mkCluster (nm_insert i c (cs_nodes cs)) (cs_gcn cs)).
Proof.
  intros [Hnd Hp] Hi. split; cbn [cs_gcn cs_nodes]; [exact Hnd|].
  intros j d Hj. destruct (id_dec i j) as [<-|Hne]; [apply (Hp i c0 Hi)|].
  rewrite nm_get_insert_other in Hj by exact Hne. apply (Hp j d Hj).
Qed.

Lemma remove_node_mem cs i : cluster_inv cs -> mem_inv cs -> mem_inv (remove_node cs i).
Proof.
  intros [Hs _] [Hnd Hp]. unfold remove_node. destruct (nm_get i (cs_nodes cs)) as [c|] eqn:E; [|split; assumption].
  split; cbn [cs_gcn cs_nodes]; [apply lru_push_nodup; exact Hnd|].
  intros j d Hj. apply lru_peek_none_iff. intros Hin. apply lru_push_keys in Hin as [->|Hin].
  - (* i itself was removed from the map *)
    assert (Hnone : nm_get i (nm_remove i (cs_nodes cs)) = None)
      by (unfold nm_get, nm_remove; apply get_remove_same; exact Hs).
    congruence.
  - assert (Hj0 : nm_get j (cs_nodes cs) = Some d).
    { destruct (id_dec i j) as [<-|Hne].
      - assert (Hnone : nm_get i (nm_remove i (cs_nodes cs)) = None)
          by (unfold nm_get, nm_remove; apply get_remove_same; exact Hs).
        congruence.
      - unfold nm_get, nm_remove in *. rewrite get_remove_other in Hj by exact Hne. exact Hj. }
    apply (proj1 (lru_peek_none_iff j (cs_gcn cs)) (Hp j d Hj0)). exact Hin.
Qed.

(* ---------- nodes ---------- *)
Definition node_mem (n : node) : Prop := mem_inv (nd_cs n).

Lemma update_copy_mem cs i f : mem_inv cs -> mem_inv (update_copy cs i f).
Proof.
  intros H. unfold update_copy. destruct (nm_get i (cs_nodes cs)) as [c|] eqn:E; [|exact H].
  eapply insert_present_mem; eauto.
Qed.

Lemma update_self_heartbeat_mem n : node_mem n -> node_mem (update_self_heartbeat n).
Proof.
  intros H. unfold node_mem, update_self_heartbeat. cbn [nd_cs with_cs].
  apply update_copy_mem. apply mut_or_init_mem. exact H.
Qed.

Lemma report_heartbeat_mem now n i hb : node_mem n -> node_mem (report_heartbeat now n i hb).
Proof.
  intros H. unfold report_heartbeat. destruct (id_eqb i (self_id n)); [exact H|].
  match goal with |- context [nm_get i (cs_nodes ?c0)] => set (cs := c0) end.
  assert (Hcs : mem_inv cs).
  { unfold cs. destruct (match last_heartbeat_if_deleted (nd_cs n) i with Some _ => _ | None => _ end);
      [apply mut_or_init_mem; exact H|exact H]. }
  destruct (nm_get i (cs_nodes cs)) as [c|] eqn:E; [|exact Hcs].
  destruct (try_set_heartbeat c hb) as [c' fresh].
  assert (Hres : mem_inv (mkCluster (nm_insert i c' (cs_nodes cs)) (cs_gcn cs))) by (eapply insert_present_mem; eauto).
  destruct fresh; exact Hres.
Qed.

Lemma report_heartbeats_mem now dg : forall n, node_mem n -> node_mem (report_heartbeats_in_digest now n dg).
Proof.
  unfold report_heartbeats_in_digest. induction dg as [|e r IH]; intros n H; cbn [fold_left]; [exact H|].
  apply IH. apply report_heartbeat_mem. exact H.
Qed.

Lemma cluster_apply_nds_mem now : forall l nodes gcn reset evs nodes' reset' evs',
  mem_inv (mkCluster nodes gcn) -> cluster_apply_nds now nodes l reset evs = Ok (nodes', reset', evs') ->
  mem_inv (mkCluster nodes' gcn).
Proof.
  induction l as [|nd r IH]; intros nodes gcn reset evs nodes' reset' evs' H Hrun; cbn [cluster_apply_nds] in Hrun.
  - injection Hrun as <- _ _. exact H.
  - destruct (nm_get (d_id nd) nodes) as [c0|] eqn:Hget; [|eapply IH; eauto].
    destruct (apply_delta now c0 nd) as [[[c1 st] ev]| |]; try discriminate.
    destruct (lex_le _ _); [|discriminate].
    eapply IH; [|exact Hrun]. apply (insert_present_mem (mkCluster nodes gcn) (d_id nd) c0 c1 H Hget).
Qed.

Lemma process_delta_mem now n x n' evs : node_mem n -> process_delta now n x = Ok (n', evs) -> node_mem n'.
Proof.
  unfold process_delta, cluster_apply_delta, node_mem. intros H Hpd.
  destruct (cluster_apply_nds now (cs_nodes (nd_cs n)) (nds x) false []) as [[[nodes' reset'] evs']| |] eqn:E; cbn [rmap] in Hpd; try discriminate.
  injection Hpd as <- _.
  assert (Hm : mem_inv (mkCluster nodes' (cs_gcn (nd_cs n)))).
  { eapply cluster_apply_nds_mem; [|exact E]. destruct (nd_cs n); exact H. }
  destruct (reset' && cf_has_cb (nd_cfg n)); exact Hm.
Qed.

Lemma nm_get_map_present (f : copy -> copy) (m : nmap) i c :
  nm_get i (map (fun e => (fst e, f (snd e))) m) = Some c -> exists c0, nm_get i m = Some c0.
Proof.
  induction m as [|[k v] r IH]; [discriminate|]. cbn [map fst snd]. unfold nm_get in *. cbn [sm_get].
  destruct (id_cmp i k); [intros _; eexists; reflexivity|exact IH|exact IH].
Qed.

Lemma gc_keys_mem now n : node_mem n -> node_mem (gc_keys now n).
Proof.
  intros [Hnd Hp]. unfold node_mem, gc_keys, cluster_gc. cbn [nd_cs with_cs]. split; cbn [cs_gcn cs_nodes]; [exact Hnd|].
  intros i c Hc. apply nm_get_map_present in Hc as (c0 & E). apply (Hp i c0 E).
Qed.

Lemma on_own_mem n f : node_mem n -> node_mem (fst (on_own n f)).
Proof.
  intros H. unfold on_own.
  pose proof (mut_or_init_mem (nd_cs n) (self_id n) H) as H1.
  destruct (nm_get (self_id n) (cs_nodes (node_state_mut_or_init (nd_cs n) (self_id n)))) as [c|] eqn:E; [|exact H].
  destruct (f c) as [c' evs]. cbn [fst]. unfold node_mem. cbn [nd_cs with_cs].
  eapply insert_present_mem; eauto.
Qed.

Lemma remove_node_cinv cs i : cluster_inv cs -> cluster_inv (remove_node cs i).
Proof.
  intros [Hs Hc]. unfold remove_node. destruct (nm_get i (cs_nodes cs)); [|split; assumption].
  split; cbn [cs_nodes]; [apply nm_remove_sorted; exact Hs|].
  intros j d Hin. apply (Hc j d). eapply in_sm_remove. exact Hin.
Qed.

Lemma fold_remove_mem self (l : list id) : forall cs, cluster_inv cs -> mem_inv cs ->
  mem_inv (fold_left (fun cs i => if id_eqb i self then cs else remove_node cs i) l cs).
Proof.
  induction l as [|i r IH]; intros cs Hci Hm; cbn [fold_left]; [exact Hm|].
  destruct (id_eqb i self); [apply IH; assumption|].
  apply IH; [apply remove_node_cinv; exact Hci|apply remove_node_mem; assumption].
Qed.

Lemma update_nodes_liveness_mem now n oracle : node_inv n -> node_mem n -> node_mem (update_nodes_liveness now n oracle).
Proof.
  intros Hinv H. unfold update_nodes_liveness, node_mem. cbv zeta.
  destruct (fd_garbage_collect _ _ _) as [f2 col]. cbn [nd_cs]. apply fold_remove_mem; assumption.
Qed.

Lemma reset_node_state_if_update_mem n i kvs mx gc n' evs :
  node_mem n -> reset_node_state_if_update n i kvs mx gc = Ok (n', evs) -> node_mem n'.
Proof.
  intros H Hrun. unfold reset_node_state_if_update in Hrun.
  set (cs := if match last_heartbeat_if_deleted (nd_cs n) i with None => true | Some _ => false end
             then node_state_mut_or_init (nd_cs n) i else nd_cs n) in Hrun.
  assert (Hcs : mem_inv cs).
  { unfold cs. destruct (match last_heartbeat_if_deleted (nd_cs n) i with None => true | Some _ => false end);
      [apply mut_or_init_mem; exact H|exact H]. }
  destruct (nm_get i (cs_nodes cs)) as [c|] eqn:E; [|injection Hrun as <- _; exact Hcs].
  destruct (mx <=? c_max c); [injection Hrun as <- _; exact Hcs|].
  destruct (mx <? c_gc c); [injection Hrun as <- _; exact Hcs|].
  destruct (set_many c kvs []) as [c1 evs1].
  destruct (lex_lt _ _); [|discriminate]. injection Hrun as <- _.
  unfold node_mem. cbn [nd_cs with_cs with_fd]. eapply insert_present_mem; eauto.
Qed.

Lemma new_node_mem cfg initial : node_mem (new_node cfg initial).
Proof.
  unfold new_node. cbv zeta. unfold node_mem. cbn [nd_cs with_cs].
  apply update_copy_mem. apply (update_self_heartbeat_mem (mkNode cfg new_cluster new_fd [] [] 0 0)).
  exact new_cluster_mem.
Qed.

Section MI.
  Variable zc : bytes -> option bytes.

  Theorem process_message_mem now n m ord n' reply evs :
    node_mem n -> process_message zc now n m ord = Ok (n', reply, evs) -> node_mem n'.
  Proof.
    intros H Hrun. unfold process_message in Hrun.
    pose proof (update_self_heartbeat_mem n H) as H0.
    destruct m as [cl dg|dg x|x|].
    - destruct (negb _); [injection Hrun as <- _ _; exact H0|].
      destruct (P_MAX_UDP <? _); [discriminate|].
      destruct (compute_delta zc _ dg _ _ ord); cbn [rmap] in Hrun; try discriminate.
      injection Hrun as <- _ _. apply report_heartbeats_mem. exact H0.
    - destruct (process_delta now _ x) as [[n2 evs2]| |] eqn:Hpd; cbn [rbind] in Hrun; try discriminate.
      destruct (compute_delta zc _ dg _ _ ord); cbn [rmap] in Hrun; try discriminate.
      injection Hrun as <- _ _. eapply process_delta_mem; [|exact Hpd]. apply report_heartbeats_mem. exact H0.
    - destruct (process_delta now _ x) as [[n2 evs2]| |] eqn:Hpd; cbn [rmap] in Hrun; try discriminate.
      injection Hrun as <- _ _. cbn [fst]. eapply process_delta_mem; [|exact Hpd]. exact H0.
    - injection Hrun as <- _ _. exact H0.
  Qed.
End MI.
