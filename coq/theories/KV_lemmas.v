(* KV_lemmas.v — prefix iteration and tombstone GC of a copy against their specification (C06). *)
From Coq Require Import Lia ZArith.
From ChitchatModel Require Import Base SMap Ids Bytes NodeState SMap_lemmas NodeState_lemmas Inv.

(* ---- prefix order facts ---- *)
Lemma below_not_prefixed p : forall k, bytes_cmp k p = Lt -> is_prefix p k = false.
Proof.
  induction p as [|x p IH]; intros k H.
  - destruct k; cbn in H; discriminate.
  - destruct k as [|y k]; [reflexivity|]. cbn in H |- *.
    destruct (N.compare_spec (b2n y) (b2n x)) as [E|E|E]; try discriminate.
    + rewrite E, N.eqb_refl. cbn. apply IH. exact H.
    + assert (b2n x =? b2n y = false) by (apply N.eqb_neq; lia). rewrite H0. reflexivity.
Qed.

Lemma prefixed_below_unprefixed p : forall k,
  is_prefix p k = false -> bytes_cmp p k = Lt ->
  forall k', is_prefix p k' = true -> bytes_cmp k' k = Lt.
Proof.
  induction p as [|x p IH]; intros k Hn Hlt k' Hp; [discriminate|].
  destruct k as [|y k]; [cbn in Hlt; discriminate|].
  destruct k' as [|z k']; [discriminate|].
  cbn in Hn, Hlt, Hp |- *. apply andb_true_iff in Hp as [Hxz Hp]. apply N.eqb_eq in Hxz.
  apply b2n_inj in Hxz. subst z.
  destruct (N.compare_spec (b2n x) (b2n y)) as [E|E|E]; try discriminate.
  - rewrite E, N.eqb_refl in Hn. cbn in Hn. eapply IH; eauto.
  - reflexivity.
Qed.

Lemma is_prefix_refl p : is_prefix p p = true.
Proof. induction p as [|x p IH]; cbn; [reflexivity|]. rewrite N.eqb_refl, IH. reflexivity. Qed.

Definition pfx (p : bytes) (kv : bytes * vv) : bool := is_prefix p (fst kv).

Lemma filter_none {A} (f : A -> bool) l : (forall x, In x l -> f x = false) -> filter f l = [].
Proof.
  induction l as [|x r IH]; intros H; [reflexivity|]. cbn. rewrite (H x (or_introl eq_refl)).
  apply IH. intros y Hy. apply H. right. exact Hy.
Qed.

Lemma take_while_is_filter p (m : smap bytes vv) :
  ksorted m -> (forall k v, In (k, v) m -> bytes_cmp k p <> Lt) ->
  take_while (pfx p) m = filter (pfx p) m.
Proof.
  induction m as [|[k v] r IH]; intros Hs Hge; [reflexivity|].
  apply (sorted_cons_iff bytes_cmp bytes_cmp_trans) in Hs as [Hab Hs].
  cbn [take_while filter]. destruct (pfx p (k, v)) eqn:E.
  - f_equal. apply IH; [exact Hs|]. intros k' v' Hin. apply (Hge k' v'). right. exact Hin.
  - symmetry. apply filter_none. intros [k2 v2] Hin. unfold pfx in *. cbn [fst] in *.
    destruct (is_prefix p k2) eqn:E2; [|reflexivity]. exfalso.
    assert (Hpk : bytes_cmp p k = Lt).
    { pose proof (Hge k v (or_introl eq_refl)) as H1. rewrite bytes_cmp_antisym in H1.
      destruct (bytes_cmp p k) eqn:Ec; [|reflexivity|cbn in H1; congruence].
      apply bytes_cmp_eq in Ec. subst k. rewrite is_prefix_refl in E. discriminate. }
    pose proof (prefixed_below_unprefixed p k E Hpk k2 E2) as Hlt.
    pose proof (Hab _ _ Hin) as Hgt. rewrite bytes_cmp_antisym, Hgt in Hlt. discriminate.
Qed.

Lemma range_from_spec p (m : smap bytes vv) :
  ksorted m ->
  filter (pfx p) (range_from p m) = filter (pfx p) m /\
  ksorted (range_from p m) /\ (forall k v, In (k, v) (range_from p m) -> bytes_cmp k p <> Lt).
Proof.
  induction m as [|[k v] r IH]; intros Hs; [cbn; repeat split; auto; intros ? ? []|].
  pose proof Hs as Hs0.
  apply (sorted_cons_iff bytes_cmp bytes_cmp_trans) in Hs as [Hab Hs].
  cbn [range_from]. destruct (bytes_cmp k p) eqn:E.
  - split; [reflexivity|]. split; [exact Hs0|]. intros k' v' [Heq|Hin].
    + injection Heq as <- _. congruence.
    + specialize (Hab _ _ Hin). intros Hlt. apply bytes_cmp_eq in E. subst k.
      rewrite bytes_cmp_antisym, Hab in Hlt. discriminate.
  - destruct (IH Hs) as (H1 & H2 & H3). split; [|split; assumption].
    rewrite H1. cbn [filter]. unfold pfx at 2. cbn [fst]. rewrite (below_not_prefixed p k E). reflexivity.
  - split; [reflexivity|]. split; [exact Hs0|]. intros k' v' [Heq|Hin].
    + injection Heq as <- _. congruence.
    + specialize (Hab _ _ Hin). intros Hlt.
      assert (Hpk : bytes_cmp p k = Lt) by (rewrite bytes_cmp_antisym, E; reflexivity).
      pose proof (bytes_cmp_trans _ _ _ Hlt Hpk) as H. rewrite bytes_cmp_antisym, Hab in H. discriminate.
Qed.

(* C06: prefix iteration yields exactly the visible keys with that prefix, in key order *)
Theorem iter_prefix_exact c p :
  ksorted (c_kvs c) ->
  iter_prefix c p = filter (fun kv => negb (is_deleted (snd kv))) (filter (pfx p) (c_kvs c)).
Proof.
  intros Hs. unfold iter_prefix. destruct (range_from_spec p (c_kvs c) Hs) as (H1 & H2 & H3).
  fold (pfx p). rewrite (take_while_is_filter p _ H2 H3), H1. reflexivity.
Qed.

(* ---- tombstone GC ---- *)
Definition collected (now grace : Z) (c : copy) : list (bytes * vv) :=
  filter (fun kv => gc_collectable now grace (snd kv)) (c_kvs c).

Lemma fold_max_spec (l : list (bytes * vv)) : forall g0,
  let g := fold_left (fun g kv => N.max (v_ver (snd kv)) g) l g0 in
  g0 <= g /\ (forall e, In e l -> v_ver (snd e) <= g) /\ (g = g0 \/ exists e, In e l /\ v_ver (snd e) = g).
Proof.
  induction l as [|x r IH]; intros g0; cbn [fold_left].
  - cbn. split; [lia|]. split; [intros e []|left; reflexivity].
  - destruct (IH (N.max (v_ver (snd x)) g0)) as (H1 & H2 & H3). cbn zeta in *.
    split; [lia|]. split.
    + intros e [<-|He]; [lia|apply H2; exact He].
    + destruct H3 as [H3|(e & He & Hv)].
      * destruct (N.max_spec (v_ver (snd x)) g0) as [[_ Hm]|[_ Hm]].
        -- left. rewrite H3, Hm. reflexivity.
        -- right. exists x. split; [left; reflexivity|]. rewrite H3, Hm. reflexivity.
      * right. exists e. split; [right; exact He|exact Hv].
Qed.

Theorem gc_exact now grace c :
  let c' := gc_keys_marked_for_deletion now grace c in
  (* exactly the entries that are not collectable survive *)
  (forall k v, In (k, v) (c_kvs c') <-> In (k, v) (c_kvs c) /\ gc_collectable now grace v = false) /\
  (* collectable = deleted or TTL-marked at least one grace period ago; never a live entry *)
  (forall v, gc_collectable now grace v = true <->
             exists t, (v_st v = SDel t \/ v_st v = STtl t) /\ (t + grace <= now)%Z) /\
  (* the watermark is raised to the highest collected version, never lowered; nothing else moves *)
  c_gc c <= c_gc c' /\ (forall e, In e (collected now grace c) -> v_ver (snd e) <= c_gc c') /\
  (c_gc c' = c_gc c \/ exists e, In e (collected now grace c) /\ v_ver (snd e) = c_gc c') /\
  c_max c' = c_max c /\ c_hb c' = c_hb c.
Proof.
  cbn zeta. unfold gc_keys_marked_for_deletion. cbn [c_kvs c_gc c_max c_hb].
  split; [|split].
  - intros k v. rewrite filter_In. cbn [snd]. rewrite negb_true_iff. reflexivity.
  - intros v. unfold gc_collectable, time_of_start_scheduled_for_deletion.
    destruct (v_st v) as [|t|t].
    + split; [discriminate|]. intros (t & [H|H] & _); discriminate.
    + rewrite negb_true_iff, Z.ltb_ge. split; [intros H; exists t; auto|].
      intros (t' & [H|H] & Ht); try discriminate H; injection H as <-; exact Ht.
    + rewrite negb_true_iff, Z.ltb_ge. split; [intros H; exists t; auto|].
      intros (t' & [H|H] & Ht); try discriminate H; injection H as <-; exact Ht.
  - pose proof (fold_max_spec (collected now grace c) (c_gc c)) as (H1 & H2 & H3).
    unfold collected in *. cbn zeta in *. repeat split; auto.
Qed.
