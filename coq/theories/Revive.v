(* Revive.v — C12, message level: a member that a node has removed (it is absent from the member
   map and remembered with its heartbeat at removal) is present again after processing a message
   only if the message's digest carries, for that member, a heartbeat strictly higher than the
   remembered one.  Deltas never create members; a digest entry with an equal or lower heartbeat
   changes nothing.  This is the rule the C12 "recreation" monitor evaluates on the
   implementation's dumps. *)
From Coq Require Import Lia.
From ChitchatModel Require Import Base SMap Ids Bytes Params NodeState Stream DeltaWire Message Cluster
  FD Chitchat SMap_lemmas NodeState_lemmas Cluster_lemmas Chitchat_lemmas FD_lemmas Inv Compute_lemmas
  NodeInv Liveness_lemmas Quiet Isolation.

Lemma lru_peek_remove_other i j l : i <> j -> lru_peek i (lru_remove j l) = lru_peek i l.
Proof.
  intros Hne. induction l as [|[k v] r IH]; [reflexivity|]. cbn [lru_remove lru_peek].
  destruct (id_eqb j k) eqn:Ejk.
  - apply id_eqb_eq in Ejk. subst k.
    destruct (id_eqb i j) eqn:Eij; [apply id_eqb_eq in Eij; congruence|reflexivity].
  - cbn [lru_peek]. destruct (id_eqb i k); [reflexivity|exact IH].
Qed.

Definition remembered (n : node) (i : id) (last : N) : Prop :=
  nm_get i (cs_nodes (nd_cs n)) = None /\ last_heartbeat_if_deleted (nd_cs n) i = Some last.

Lemma mut_or_init_memory cs j i : i <> j ->
  last_heartbeat_if_deleted (node_state_mut_or_init cs j) i = last_heartbeat_if_deleted cs i.
Proof.
  intros Hne. unfold node_state_mut_or_init, last_heartbeat_if_deleted.
  destruct (nm_get j (cs_nodes cs)); [reflexivity|]. cbn [cs_gcn]. unfold lru_pop. apply lru_peek_remove_other. exact Hne.
Qed.

(* one digest entry: either the member is still removed and remembered, or this very entry was
   about it with a strictly higher heartbeat *)
Lemma report_heartbeat_remembered now n j hb i last :
  i <> self_id n -> remembered n i last ->
  remembered (report_heartbeat now n j hb) i last \/ (j = i /\ last < hb).
Proof.
  intros Hself [Hnone Hmem].
  destruct (id_dec j i) as [->|Hne].
  - destruct (N.ltb last hb) eqn:E.
    + right. split; [reflexivity|apply N.ltb_lt; exact E].
    + left. rewrite (stale_gossip_does_not_revive now n i hb last Hself Hnone Hmem) by (apply N.ltb_ge; exact E). split; assumption.
  - left. unfold report_heartbeat. destruct (id_eqb j (self_id n)); [split; assumption|].
    match goal with |- context [nm_get j (cs_nodes ?c0)] => set (cs := c0) end.
    assert (Hcs : nm_get i (cs_nodes cs) = None /\ last_heartbeat_if_deleted cs i = Some last).
    { unfold cs. destruct (match last_heartbeat_if_deleted (nd_cs n) j with Some _ => _ | None => _ end); [|split; assumption].
      split; [rewrite mut_or_init_get, Hnone; destruct (id_eqb i j) eqn:Eij; [apply id_eqb_eq in Eij; congruence|reflexivity]|].
      rewrite mut_or_init_memory by congruence. exact Hmem. }
    destruct Hcs as [Hn Hm].
    destruct (nm_get j (cs_nodes cs)) as [cj|] eqn:Ej.
    2:{ split; cbn [nd_cs with_cs]; assumption. }
    destruct (try_set_heartbeat cj hb) as [cj' fresh].
    assert (Hres : remembered (with_cs n (mkCluster (nm_insert j cj' (cs_nodes cs)) (cs_gcn cs))) i last).
    { split; cbn [nd_cs with_cs cs_nodes]; [rewrite nm_get_insert_other by exact Hne; exact Hn|exact Hm]. }
    destruct fresh; exact Hres.
Qed.

Lemma self_id_report_heartbeat' now n j hb : self_id (report_heartbeat now n j hb) = self_id n.
Proof. apply self_id_report_heartbeat. Qed.

Lemma report_heartbeats_remembered now dg : forall n i last,
  i <> self_id n -> remembered n i last ->
  remembered (report_heartbeats_in_digest now n dg) i last \/ (exists g, In (i, g) dg /\ last < g_hb g).
Proof.
  unfold report_heartbeats_in_digest. induction dg as [|[j g] r IH]; intros n i last Hself Hrem; cbn [fold_left fst snd].
  - left. exact Hrem.
  - destruct (report_heartbeat_remembered now n j (g_hb g) i last Hself Hrem) as [Hrem1|[-> Hlt]].
    + destruct (IH (report_heartbeat now n j (g_hb g)) i last) as [H|(g' & Hin & Hlt)].
      * rewrite self_id_report_heartbeat. exact Hself.
      * exact Hrem1.
      * left. exact H.
      * right. exists g'. split; [right; exact Hin|exact Hlt].
    + right. exists g. split; [left; reflexivity|exact Hlt].
Qed.

Lemma update_self_heartbeat_remembered n i last :
  i <> self_id n -> remembered n i last -> remembered (update_self_heartbeat n) i last.
Proof.
  intros Hself [Hnone Hmem]. unfold update_self_heartbeat, update_copy. cbn [nd_cs with_cs].
  set (cs := node_state_mut_or_init (nd_cs n) (self_id n)).
  assert (Hn : nm_get i (cs_nodes cs) = None).
  { unfold cs. rewrite mut_or_init_get, Hnone. destruct (id_eqb i (self_id n)) eqn:Eij; [apply id_eqb_eq in Eij; congruence|reflexivity]. }
  assert (Hm : last_heartbeat_if_deleted cs i = Some last) by (unfold cs; rewrite mut_or_init_memory by exact Hself; exact Hmem).
  unfold remembered, last_heartbeat_if_deleted in *.
  destruct (nm_get (self_id n) (cs_nodes cs)) as [c0|]; cbn [nd_cs with_cs cs_nodes cs_gcn]; (split; [|exact Hm]); [|exact Hn].
  rewrite nm_get_insert_other by congruence. exact Hn.
Qed.

Lemma cluster_apply_nds_absent now : forall l nodes reset evs nodes' reset' evs' i,
  cluster_apply_nds now nodes l reset evs = Ok (nodes', reset', evs') -> nm_get i nodes = None -> nm_get i nodes' = None.
Proof.
  induction l as [|nd r IH]; intros nodes reset evs nodes' reset' evs' i Hrun Hnone; cbn [cluster_apply_nds] in Hrun.
  - injection Hrun as <- _ _. exact Hnone.
  - destruct (nm_get (d_id nd) nodes) as [c0|] eqn:Hget; [|eapply IH; eauto].
    destruct (apply_delta now c0 nd) as [[[c1 st] ev]| |]; try discriminate.
    destruct (lex_le _ _); [|discriminate].
    eapply IH; [exact Hrun|]. rewrite nm_get_insert_other; [exact Hnone|]. intros E. rewrite E in Hget. congruence.
Qed.

Lemma process_delta_remembered now n x n' evs i last :
  process_delta now n x = Ok (n', evs) -> remembered n i last -> remembered n' i last.
Proof.
  unfold process_delta, cluster_apply_delta. intros Hpd [Hnone Hmem].
  destruct (cluster_apply_nds now (cs_nodes (nd_cs n)) (nds x) false []) as [[[nodes' reset'] evs']| |] eqn:E; cbn [rmap] in Hpd; try discriminate.
  injection Hpd as <- _.
  pose proof (cluster_apply_nds_absent now _ _ _ _ _ _ _ i E Hnone) as Hn'.
  destruct (reset' && cf_has_cb (nd_cfg n)); split; cbn [nd_cs with_cs cs_nodes]; assumption.
Qed.

Definition digest_of (m : message) : digest :=
  match m with Syn _ dg => dg | SynAck dg _ => dg | _ => [] end.

Section Rv.
  Variable zc : bytes -> option bytes.

  (* THE RULE.  Whatever message is processed — honest or not —, a removed and remembered member is
     still removed and remembered afterwards, unless the message's digest names it with a heartbeat
     strictly higher than the remembered one. *)
  Theorem removed_member_recreated_only_by_higher_heartbeat now n m ord n' reply evs i last :
    i <> self_id n -> remembered n i last ->
    process_message zc now n m ord = Ok (n', reply, evs) ->
    remembered n' i last \/ exists g, In (i, g) (digest_of m) /\ last < g_hb g.
  Proof.
    intros Hself Hrem Hrun. unfold process_message in Hrun.
    pose proof (update_self_heartbeat_remembered n i last Hself Hrem) as H0.
    assert (Hself0 : i <> self_id (update_self_heartbeat n)) by exact Hself.
    destruct m as [cl dg|dg x|x|]; cbn [digest_of].
    - destruct (negb _); [injection Hrun as <- _ _; left; exact H0|].
      destruct (P_MAX_UDP <? _); [discriminate|].
      destruct (compute_delta zc _ dg _ _ ord); cbn [rmap] in Hrun; try discriminate.
      injection Hrun as <- _ _. apply (report_heartbeats_remembered now dg _ i last Hself0 H0).
    - destruct (process_delta now _ x) as [[n2 evs2]| |] eqn:Hpd; cbn [rbind] in Hrun; try discriminate.
      destruct (compute_delta zc _ dg _ _ ord); cbn [rmap] in Hrun; try discriminate.
      injection Hrun as <- _ _.
      destruct (report_heartbeats_remembered now dg _ i last Hself0 H0) as [H1|H1]; [|right; exact H1].
      left. eapply process_delta_remembered; eauto.
    - destruct (process_delta now _ x) as [[n2 evs2]| |] eqn:Hpd; cbn [rmap] in Hrun; try discriminate.
      injection Hrun as <- _ _. cbn [fst]. left. eapply process_delta_remembered; eauto.
    - injection Hrun as <- _ _. left. exact H0.
  Qed.
End Rv.
