(* GExec.v — an executable scheduler over the global step relation of Reach.v: every state it
   produces is reachable (non-strict: weak acceptances allowed).  Used to exhibit concrete
   reachable states (non-vacuity examples, the KF-1 witness). *)
From Coq Require Import Lia.
From ChitchatModel Require Import Base SMap Ids Bytes Params NodeState Stream DeltaWire Message Cluster FD
  Chitchat World SMap_lemmas Truth NodeTruth Weak Reach.

Inductive gop :=
| OJoin (cfg : config) (initial : list (bytes * bytes))
| OSet (a : nat) (k v : bytes)
| OSetTtl (a : nat) (k v : bytes)
| ODel (a : nat) (k : bytes)
| ODelTtl (a : nat) (k : bytes)
| OGc (a : nat)
| OHeartbeat (a : nat)
| OTick (dt : Z)
| OEval (a : nat) (oracle : option (list id))
| OSyn (a : nat)
| ODeliver (a : nat) (idx : nat) (ord : list id).   (* deliver the idx-th message ever sent, newest first *)

Section Exec.
  Variable zc : bytes -> option bytes.
  Variable strict : bool.

  Definition gwrite (g : gstate) (a : nat) (f : copy -> copy * list event) : option gstate :=
    match node_at g a with
    | Some n => Some (mkG (with_nodes (g_w g) (set_nth (w_nodes (g_w g)) a (fst (on_own n f)))) (g_sent g)
                          (sync_truth (g_T g) (self_id n) (own_copy (fst (on_own n f)))))
    | None => None
    end.

  Definition gexec (g : gstate) (o : gop) : option gstate :=
    let now := w_now (g_w g) in
    match o with
    | OJoin cfg initial =>
        if forallb (fun n => negb (id_eqb (self_id n) (cf_id cfg))) (w_nodes (g_w g))
        then Some (mkG (with_nodes (g_w g) (w_nodes (g_w g) ++ [new_node cfg initial])) (g_sent g)
                       (sync_truth (g_T g) (cf_id cfg) (own_copy (new_node cfg initial))))
        else None
    | OSet a k v => gwrite g a (fun c => set c k v)
    | OSetTtl a k v => gwrite g a (fun c => set_with_ttl now c k v)
    | ODel a k => gwrite g a (fun c => (delete now c k, []))
    | ODelTtl a k => gwrite g a (fun c => (delete_after_ttl now c k, []))
    | OGc a =>
        match node_at g a with
        | Some n => Some (mkG (with_nodes (g_w g) (set_nth (w_nodes (g_w g)) a (gc_keys now n))) (g_sent g) (g_T g))
        | None => None
        end
    | OHeartbeat a =>
        match node_at g a with
        | Some n => Some (mkG (with_nodes (g_w g) (set_nth (w_nodes (g_w g)) a (update_self_heartbeat n))) (g_sent g)
                              (bump_hb (g_T g) (self_id n)))
        | None => None
        end
    | OTick dt => Some (mkG (mkWorld (now + Z.max 0 dt)%Z (w_nodes (g_w g))) (g_sent g) (g_T g))
    | OEval a oracle =>
        match node_at g a with
        | Some n => Some (mkG (with_nodes (g_w g) (set_nth (w_nodes (g_w g)) a (update_nodes_liveness now n oracle)))
                              (g_sent g) (g_T g))
        | None => None
        end
    | OSyn a =>
        match node_at g a with
        | Some n => Some (mkG (g_w g) (create_syn_message now n :: g_sent g) (g_T g))
        | None => None
        end
    | ODeliver a idx ord =>
        match node_at g a, nth_error (g_sent g) idx with
        | Some n, Some m =>
            if strict && msg_weak now n m then None else
            match process_message zc now n m ord with
            | Ok (n', reply, evs) =>
                Some (mkG (with_nodes (g_w g) (set_nth (w_nodes (g_w g)) a n')) (opt_cons reply (g_sent g))
                          (bump_hb (g_T g) (self_id n)))
            | _ => None
            end
        | _, _ => None
        end
    end.

  Fixpoint gfold (g : gstate) (ops : list gop) : option gstate :=
    match ops with
    | [] => Some g
    | o :: r => match gexec g o with Some g' => gfold g' r | None => None end
    end.

  Lemma gexec_sound g o g' : gexec g o = Some g' -> gstep zc strict g g'.
  Proof.
    destruct o; cbn [gexec]; unfold gwrite.
    - destruct (forallb _ _) eqn:E; [|discriminate]. intros [= <-]. apply GS_join.
      intros a n Hn Heq. rewrite forallb_forall in E. unfold node_at in Hn. apply nth_error_In in Hn.
      specialize (E n Hn). rewrite <- Heq, id_eqb_refl in E. discriminate.
    - destruct (node_at g a) eqn:E; [|discriminate]. intros [= <-].
      apply (GS_write zc strict g a n (fun c => set c k v) E). constructor.
    - destruct (node_at g a) eqn:E; [|discriminate]. intros [= <-].
      apply (GS_write zc strict g a n (fun c => set_with_ttl (w_now (g_w g)) c k v) E). constructor.
    - destruct (node_at g a) eqn:E; [|discriminate]. intros [= <-].
      apply (GS_write zc strict g a n (fun c => (delete (w_now (g_w g)) c k, [])) E). constructor.
    - destruct (node_at g a) eqn:E; [|discriminate]. intros [= <-].
      apply (GS_write zc strict g a n (fun c => (delete_after_ttl (w_now (g_w g)) c k, [])) E). constructor.
    - destruct (node_at g a) eqn:E; [|discriminate]. intros [= <-]. apply (GS_gc zc strict g a n E).
    - destruct (node_at g a) eqn:E; [|discriminate]. intros [= <-]. apply (GS_heartbeat zc strict g a n E).
    - intros [= <-]. apply GS_tick.
    - destruct (node_at g a) eqn:E; [|discriminate]. intros [= <-]. apply (GS_eval zc strict g a n oracle E).
    - destruct (node_at g a) eqn:E; [|discriminate]. intros [= <-]. apply (GS_syn zc strict g a n E).
    - destruct (node_at g a) as [n|] eqn:E; [|discriminate].
      destruct (nth_error (g_sent g) idx) as [m|] eqn:Em; [|discriminate].
      destruct (strict && msg_weak _ n m) eqn:Ew; [discriminate|].
      destruct (process_message zc _ n m ord) as [[[n' reply] evs]| |] eqn:Ep; try discriminate.
      intros [= <-]. eapply GS_deliver; [exact E|eapply nth_error_In; exact Em| |exact Ep].
      intros ->. exact Ew.
  Qed.

  Lemma gfold_reachable ops : forall g g', reachable zc strict g -> gfold g ops = Some g' -> reachable zc strict g'.
  Proof.
    induction ops as [|o r IH]; cbn [gfold]; intros g g' Hr H.
    - injection H as <-. exact Hr.
    - destruct (gexec g o) as [g1|] eqn:E; [|discriminate].
      apply (IH g1 g'); [|exact H]. eapply R_step; [exact Hr|]. eapply gexec_sound. exact E.
  Qed.

  Definition grun (ops : list gop) : option gstate := gfold (g_init) ops.

  Lemma grun_reachable ops g : grun ops = Some g -> reachable zc strict g.
  Proof. apply gfold_reachable. apply R_init. Qed.
End Exec.

(* a strict run is also a non-strict one *)
Lemma reachable_strict_weaken zc g : reachable zc true g -> reachable zc false g.
Proof.
  induction 1 as [|g g' Hr IH Hs]; [apply R_init|]. eapply R_step; [exact IH|].
  destruct Hs; [apply GS_join; assumption|apply GS_write; assumption|eapply GS_gc; eassumption
                |eapply GS_heartbeat; eassumption|apply GS_tick|eapply GS_eval; eassumption|eapply GS_syn; eassumption|].
  eapply GS_deliver; eauto; discriminate.
Qed.

Definition copy_at (g : gstate) (a : nat) (X : id) : option copy :=
  match node_at g a with Some n => nm_get X (cs_nodes (nd_cs n)) | None => None end.

Lemma gfold_app zc strict ops1 ops2 g :
  gfold zc strict g (ops1 ++ ops2) =
  match gfold zc strict g ops1 with Some g1 => gfold zc strict g1 ops2 | None => None end.
Proof.
  revert g. induction ops1 as [|o r IH]; intros g; cbn [gfold app]; [reflexivity|].
  destruct (gexec zc strict g o); [apply IH|reflexivity].
Qed.

(* the truth only grows *)
Lemma gstep_wrote_mono zc strict g g' X w : gstep zc strict g g' -> t_wrote (g_T g) X w -> t_wrote (g_T g') X w.
Proof. intros Hs Hw. destruct Hs; cbn [g_T sync_truth bump_hb t_wrote]; auto. Qed.

Lemma gfold_wrote_mono zc strict ops : forall g g' X w,
  gfold zc strict g ops = Some g' -> t_wrote (g_T g) X w -> t_wrote (g_T g') X w.
Proof.
  induction ops as [|o r IH]; cbn [gfold]; intros g g' X w H Hw.
  - injection H as <-. exact Hw.
  - destruct (gexec zc strict g o) as [g1|] eqn:E; [|discriminate].
    apply (IH g1 g' X w H). eapply gstep_wrote_mono; [eapply gexec_sound; exact E|exact Hw].
Qed.
