(* Prefix_lemmas.v — every node delta of a computed delta is a version-prefix of the member's
   stale entries, from a candidate that is not scheduled for deletion (C07, C14). *)
From Coq Require Import Lia Permutation.
From ChitchatModel Require Import Base SMap Ids Bytes Params NodeState Stream DeltaWire Message Cluster
  FD Chitchat SMap_lemmas NodeState_lemmas Builder_lemmas Stream_lemmas Agreement Inv DeltaRefine
  Compute_lemmas.

Lemma pieces_of_in ordered ps : pieces_of ordered ps ->
  forall nd, In nd ps -> exists n j mv, In n ordered /\ nd = node_piece n j mv /\ (j <= length (sorted_of n))%nat.
Proof.
  induction 1 as [|n rest j mv ps Hj Hstop Hps IH]; intros nd Hin; [destruct Hin|].
  destruct Hin as [<-|Hin].
  - exists n, j, mv. split; [left; reflexivity|]. split; [reflexivity|exact Hj].
  - destruct (IH nd Hin) as (n' & j' & mv' & H1 & H2 & H3). exists n', j', mv'. split; [right; exact H1|auto].
Qed.

Lemma filter_map_comm {A B} (f : A -> B) (p : B -> bool) l :
  filter p (map f l) = map f (filter (fun x => p (f x)) l).
Proof. induction l as [|x r IH]; cbn; [reflexivity|]. destruct (p (f x)); cbn; rewrite IH; reflexivity. Qed.

Lemma firstn_map {A B} (f : A -> B) n l : firstn n (map f l) = map f (firstn n l).
Proof. revert l. induction n as [|n IH]; destruct l; cbn; [reflexivity..|]. rewrite IH. reflexivity. Qed.

(* the key-values of a piece are exactly the stale entries with version at most the piece's max *)
Theorem node_piece_is_prefix n j mv :
  asc_from 0 (map kvm_of (sorted_of n)) ->
  let nd := node_piece n j mv in
  d_kvs nd = map kvm_of (filter (fun e => v_ver (snd e) <=? d_max nd) (sorted_of n))
  /\ asc_from (sn_from n) (map kvm_of (sorted_of n)) = asc_from (sn_from n) (map kvm_of (sorted_of n)).
Proof.
  intros Hasc. cbn zeta. split; [|reflexivity]. unfold node_piece. cbn [d_kvs d_max].
  destruct (sorted_of n) as [|e r] eqn:Es.
  - destruct j; reflexivity.
  - rewrite <- Es in *. rewrite <- firstn_map.
    pose proof (filter_le_last 0 (map kvm_of (sorted_of n)) j Hasc) as Hf.
    rewrite filter_map_comm in Hf. cbn [kvm_of m_ver] in Hf. symmetry. exact Hf.
Qed.

Theorem computed_delta_nodes cs dg sched mtu x :
  cluster_inv cs -> delta_shape cs dg sched mtu x ->
  forall nd, In nd (nds x) ->
    exists n j mv,
      In n (stale_nodes cs dg sched) /\ nd = node_piece n j mv /\
      (* the member is known, is not scheduled for deletion, and the copy is the sender's *)
      in_ids (sn_id n) sched = false /\
      nm_get (sn_id n) (cs_nodes cs) = Some (sn_copy n) /\
      d_kvs nd = map kvm_of (filter (fun e => v_ver (snd e) <=? d_max nd)
                                    (stale_sorted (sn_copy n) (d_from nd))).
Proof.
  intros [Hs Hc] [_ (ordered & Hperm & Hps)] nd Hin.
  destruct (pieces_of_in _ _ Hps nd Hin) as (n & j & mv & Hn & -> & Hj).
  apply (Permutation_in _ (Permutation_sym Hperm)) in Hn.
  exists n, j, mv. split; [exact Hn|]. split; [reflexivity|].
  unfold stale_nodes in Hn. apply filter_map_in in Hn as ([i c] & He & Hcand).
  destruct (stale_candidate_some _ _ _ _ Hcand) as (Hid & Hcopy & Hsched & _). cbn [fst snd] in *.
  split; [rewrite Hid; exact Hsched|]. split.
  - rewrite Hid, Hcopy. apply (sorted_in_get id_cmp id_cmp_eq id_cmp_antisym id_cmp_trans); assumption.
  - assert (Hasc : asc_from 0 (map kvm_of (sorted_of n))).
    { unfold sorted_of. rewrite Hcopy. apply (asc_from_weaken (sn_from n)); [lia|].
      apply stale_sorted_strict. eapply Hc. exact He. }
    apply (node_piece_is_prefix n j mv Hasc).
Qed.

(* ---- tie between the MTU loop and the per-member view of Agreement.v (C14) ---- *)
Lemma last_ver_cons x r : last_ver (x :: r) = match last_ver r with Some v => Some v | None => Some (v_ver (snd x)) end.
Proof.
  unfold last_ver. cbn [rev]. destruct (rev r) as [|e l]; reflexivity.
Qed.

Lemma last_kv_ver_map lo l :
  last_kv_ver lo (map kvm_of l) = match last_ver l with Some v => v | None => lo end.
Proof.
  revert lo. induction l as [|x r IH]; intros lo; [reflexivity|].
  cbn [map last_kv_ver]. rewrite IH, last_ver_cons. cbn [kvm_of m_ver].
  destruct (last_ver r); reflexivity.
Qed.

Theorem node_piece_is_mk_node_delta cs dg sched n j mv :
  In n (stale_nodes cs dg sched) ->
  exists dgc dmax,
    (match dg_get (sn_id n) dg with Some g => (g_gc g, g_max g) | None => (0, 0) end) = (dgc, dmax) /\
    mk_node_delta (sn_id n) (sn_copy n) dgc dmax j mv = Some (node_piece n j mv).
Proof.
  intros Hn. unfold stale_nodes in Hn. apply filter_map_in in Hn as ([i c] & He & Hcand).
  destruct (stale_candidate_some _ _ _ _ Hcand) as (Hid & Hcopy & _ & Hrest). cbn [fst snd] in *.
  rewrite Hid. destruct (match dg_get i dg with Some g => (g_gc g, g_max g) | None => (0, 0) end) as [dgc dmax] eqn:Ed.
  exists dgc, dmax. split; [reflexivity|]. destruct Hrest as [Hlt Hfrom].
  unfold mk_node_delta. rewrite Hcopy.
  assert (E : c_max c <=? dmax = false) by (apply N.leb_gt; exact Hlt). rewrite E.
  unfold node_piece, sorted_of. rewrite Hid, Hcopy, Hfrom. f_equal. f_equal.
  rewrite last_kv_ver_map.
  set (all := stale_sorted c _).
  destruct all as [|e r] eqn:Ea.
  - destruct j; reflexivity.
  - destruct (last_ver (firstn j (e :: r))); reflexivity.
Qed.
