(* Quiet.v — in a node that quarantines nobody and remembers no removed member, the copy a
   SYN-ACK is applied to is exactly what the node's SYN advertised (C01): discharges the
   "copy as advertised" premise of Progress.synack_applied_advances. *)
From Coq Require Import Lia Permutation.
From ChitchatModel Require Import Base SMap Ids Bytes Params NodeState Stream DeltaWire Message Cluster
  FD Chitchat SMap_lemmas NodeState_lemmas Builder_lemmas Cluster_lemmas Agreement Inv DeltaRefine
  Compute_lemmas Prefix_lemmas NodeInv Chitchat_lemmas Codec_lemmas Emit_lemmas Progress.

Definition same_frontier (c c' : copy) : Prop := c_gc c' = c_gc c /\ c_max c' = c_max c.
Definition no_memory (n : node) : Prop := cs_gcn (nd_cs n) = [].

Lemma try_set_heartbeat_frontier c hb : same_frontier c (fst (try_set_heartbeat c hb)).
Proof. unfold try_set_heartbeat. destruct (c_hb c =? 0); [split; reflexivity|]. destruct (c_hb c <? hb); split; reflexivity. Qed.

Lemma mut_or_init_get cs i X :
  nm_get X (cs_nodes (node_state_mut_or_init cs i)) =
  match nm_get X (cs_nodes cs) with
  | Some c => Some c
  | None => if id_eqb X i then Some new_copy else None
  end.
Proof.
  unfold node_state_mut_or_init. destruct (nm_get i (cs_nodes cs)) eqn:Ei.
  - destruct (nm_get X (cs_nodes cs)) eqn:EX; [reflexivity|].
    destruct (id_eqb X i) eqn:E; [apply id_eqb_eq in E; congruence|reflexivity].
  - cbn [cs_nodes]. destruct (id_dec i X) as [<-|Hne].
    + rewrite nm_get_insert_same, Ei, id_eqb_refl. reflexivity.
    + rewrite nm_get_insert_other by exact Hne. destruct (nm_get X (cs_nodes cs)); [reflexivity|].
      destruct (id_eqb X i) eqn:E; [apply id_eqb_eq in E; congruence|reflexivity].
Qed.

Lemma mut_or_init_gcn cs i : cs_gcn cs = [] -> cs_gcn (node_state_mut_or_init cs i) = [].
Proof. unfold node_state_mut_or_init. destruct (nm_get i (cs_nodes cs)); [auto|]. cbn [cs_gcn]. intros ->. reflexivity. Qed.

(* one reported heartbeat: existing copies keep their frontier; an unknown member gets a copy at (0,0) *)
Lemma report_heartbeat_quiet now n i hb :
  no_memory n ->
  no_memory (report_heartbeat now n i hb) /\
  (forall X c, nm_get X (cs_nodes (nd_cs n)) = Some c ->
     exists c', nm_get X (cs_nodes (nd_cs (report_heartbeat now n i hb))) = Some c' /\ same_frontier c c') /\
  (nm_get i (cs_nodes (nd_cs n)) = None -> i <> self_id n ->
     exists c', nm_get i (cs_nodes (nd_cs (report_heartbeat now n i hb))) = Some c' /\ c_gc c' = 0 /\ c_max c' = 0).
Proof.
  intros Hmem. unfold report_heartbeat, no_memory in *.
  destruct (id_eqb i (self_id n)) eqn:Eself.
  { apply id_eqb_eq in Eself. split; [exact Hmem|]. split; [intros X c Hc; exists c; split; [exact Hc|split; reflexivity]|].
    intros _ Hne. contradiction. }
  unfold last_heartbeat_if_deleted. rewrite Hmem. cbn [lru_peek].
  set (cs := node_state_mut_or_init (nd_cs n) i).
  assert (Hgcn : cs_gcn cs = []) by (apply mut_or_init_gcn; exact Hmem).
  assert (Hi : exists ci, nm_get i (cs_nodes cs) = Some ci /\
                 match nm_get i (cs_nodes (nd_cs n)) with Some c0 => ci = c0 | None => ci = new_copy end).
  { unfold cs. rewrite mut_or_init_get. destruct (nm_get i (cs_nodes (nd_cs n))) as [c0|]; [eauto|].
    rewrite id_eqb_refl. eauto. }
  destruct Hi as (ci & Hci & Hrel). rewrite Hci.
  destruct (try_set_heartbeat ci hb) as [ci' fresh] eqn:Et.
  pose proof (try_set_heartbeat_frontier ci hb) as Hfr. rewrite Et in Hfr. cbn [fst] in Hfr.
  assert (Hnodes : forall X, nm_get X (cs_nodes (nd_cs (if fresh
            then with_fd (with_cs n (mkCluster (nm_insert i ci' (cs_nodes cs)) (cs_gcn cs)))
                   (fd_report_heartbeat (cf_fd (nd_cfg n)) now (nd_fd (with_cs n (mkCluster (nm_insert i ci' (cs_nodes cs)) (cs_gcn cs)))) i)
            else with_cs n (mkCluster (nm_insert i ci' (cs_nodes cs)) (cs_gcn cs))))) = nm_get X (nm_insert i ci' (cs_nodes cs))).
  { intros X. destruct fresh; reflexivity. }
  split; [destruct fresh; cbn; exact Hgcn|]. split.
  - intros X c Hc. rewrite Hnodes. destruct (id_dec i X) as [<-|Hne].
    + rewrite nm_get_insert_same. exists ci'. split; [reflexivity|]. rewrite Hc in Hrel. subst ci. exact Hfr.
    + rewrite nm_get_insert_other by exact Hne. unfold cs. rewrite mut_or_init_get, Hc. exists c. split; [reflexivity|split; reflexivity].
  - intros Hnone _. rewrite Hnodes, nm_get_insert_same. exists ci'. split; [reflexivity|].
    rewrite Hnone in Hrel. subst ci. destruct Hfr as [H1 H2]. cbn in H1, H2. auto.
Qed.

Lemma self_id_report_heartbeat now n i hb : self_id (report_heartbeat now n i hb) = self_id n.
Proof. destruct (report_heartbeat_fields now n i hb) as (H & _). cbn zeta in H. unfold self_id. rewrite H. reflexivity. Qed.

Lemma report_heartbeats_quiet now dg : forall n,
  no_memory n ->
  let n' := report_heartbeats_in_digest now n dg in
  no_memory n' /\
  (forall X c, nm_get X (cs_nodes (nd_cs n)) = Some c ->
     exists c', nm_get X (cs_nodes (nd_cs n')) = Some c' /\ same_frontier c c') /\
  (forall X, nm_get X (cs_nodes (nd_cs n)) = None -> X <> self_id n -> In X (map fst dg) ->
     exists c', nm_get X (cs_nodes (nd_cs n')) = Some c' /\ c_gc c' = 0 /\ c_max c' = 0).
Proof.
  unfold report_heartbeats_in_digest. induction dg as [|[i g] r IH]; intros n Hmem; cbn [fold_left map fst snd].
  - split; [exact Hmem|]. split; [intros X c Hc; exists c; split; [exact Hc|split; reflexivity]|intros X _ _ []].
  - destruct (report_heartbeat_quiet now n i (g_hb g) Hmem) as (Hm1 & Hk1 & Hc1).
    destruct (IH (report_heartbeat now n i (g_hb g)) Hm1) as (Hm2 & Hk2 & Hc2). cbv zeta in *.
    split; [exact Hm2|]. split.
    + intros X c Hc. destruct (Hk1 X c Hc) as (c1 & Hg1 & [F1 F2]). destruct (Hk2 X c1 Hg1) as (c2 & Hg2 & [G1 G2]).
      exists c2. split; [exact Hg2|]. split; congruence.
    + intros X Hnone Hne [<-|Hin].
      * destruct (Hc1 Hnone Hne) as (c1 & Hg1 & Z1 & Z2). destruct (Hk2 _ c1 Hg1) as (c2 & Hg2 & [G1 G2]).
        exists c2. split; [exact Hg2|]. split; congruence.
      * destruct (nm_get X (cs_nodes (nd_cs (report_heartbeat now n i (g_hb g))))) as [c1|] eqn:E1.
        -- (* created by this very entry (X = i) or... it exists now with frontier (0,0) or came from n *)
           destruct (id_dec i X) as [<-|Hne'].
           ++ destruct (Hc1 Hnone Hne) as (c1' & Hg1 & Z1 & Z2). rewrite E1 in Hg1. injection Hg1 as <-.
              destruct (Hk2 _ c1 E1) as (c2 & Hg2 & [G1 G2]). exists c2. split; [exact Hg2|]. split; congruence.
           ++ exfalso. (* a copy of X cannot appear from reporting i <> X *)
              unfold report_heartbeat in E1. destruct (id_eqb i (self_id n)); [congruence|].
              unfold last_heartbeat_if_deleted in E1. unfold no_memory in Hmem. rewrite Hmem in E1. cbn [lru_peek] in E1.
              set (cs := node_state_mut_or_init (nd_cs n) i) in *.
              assert (HX : nm_get X (cs_nodes cs) = None).
              { unfold cs. rewrite mut_or_init_get, Hnone. destruct (id_eqb X i) eqn:E; [apply id_eqb_eq in E; congruence|reflexivity]. }
              destruct (nm_get i (cs_nodes cs)) as [ci|]; [|cbn in E1; congruence].
              destruct (try_set_heartbeat ci (g_hb g)) as [ci' fresh].
              assert (nm_get X (nm_insert i ci' (cs_nodes cs)) = Some c1) by (destruct fresh; exact E1).
              rewrite nm_get_insert_other in H by exact Hne'. congruence.
        -- apply (Hc2 X E1); [rewrite self_id_report_heartbeat; exact Hne|exact Hin].
Qed.

Lemma update_self_heartbeat_quiet n :
  no_memory n -> no_memory (update_self_heartbeat n) /\
  (forall X c, nm_get X (cs_nodes (nd_cs n)) = Some c ->
     exists c', nm_get X (cs_nodes (nd_cs (update_self_heartbeat n))) = Some c' /\ same_frontier c c') /\
  (forall X, nm_get X (cs_nodes (nd_cs n)) = None -> X <> self_id n ->
     nm_get X (cs_nodes (nd_cs (update_self_heartbeat n))) = None).
Proof.
  intros Hmem. unfold update_self_heartbeat, update_copy, no_memory in *. cbn [nd_cs with_cs].
  set (cs := node_state_mut_or_init (nd_cs n) (self_id n)).
  assert (Hgcn : cs_gcn cs = []) by (apply mut_or_init_gcn; exact Hmem).
  destruct (nm_get (self_id n) (cs_nodes cs)) as [c0|] eqn:E0; cbn [cs_nodes cs_gcn].
  - split; [exact Hgcn|]. split.
    + intros X c Hc. destruct (id_dec (self_id n) X) as [<-|Hne].
      * rewrite nm_get_insert_same. unfold cs in E0. rewrite mut_or_init_get, Hc in E0. injection E0 as <-.
        exists (inc_heartbeat c). split; [reflexivity|split; reflexivity].
      * rewrite nm_get_insert_other by exact Hne. unfold cs. rewrite mut_or_init_get, Hc. exists c. split; [reflexivity|split; reflexivity].
    + intros X Hnone Hne. rewrite nm_get_insert_other by congruence. unfold cs. rewrite mut_or_init_get, Hnone.
      destruct (id_eqb X (self_id n)) eqn:E; [apply id_eqb_eq in E; congruence|reflexivity].
  - split; [exact Hgcn|]. split.
    + intros X c Hc. unfold cs. rewrite mut_or_init_get, Hc. exists c. split; [reflexivity|split; reflexivity].
    + intros X Hnone Hne. unfold cs. rewrite mut_or_init_get, Hnone.
      destruct (id_eqb X (self_id n)) eqn:E; [apply id_eqb_eq in E; congruence|reflexivity].
Qed.

Lemma filter_all_true {A} (f : A -> bool) l : (forall x, f x = true) -> filter f l = l.
Proof. intros H. induction l as [|x r IH]; cbn; [reflexivity|]. rewrite H, IH. reflexivity. Qed.

Lemma dg_get_map (m : nmap) X :
  dg_get X (map (fun e => (fst e, node_digest (snd e))) m) = option_map node_digest (nm_get X m).
Proof.
  induction m as [|[k v] r IH]; [reflexivity|]. cbn [map fst snd]. unfold dg_get, nm_get in *. cbn [sm_get].
  destruct (id_cmp X k); [reflexivity|exact IH|exact IH].
Qed.

(* with nobody quarantined the digest advertises every copy's frontier, and nothing else *)
Lemma advertised_unquarantined cs X :
  advertised (compute_digest cs []) X =
  match nm_get X (cs_nodes cs) with Some c => (c_gc c, c_max c) | None => (0, 0) end.
Proof.
  unfold advertised, compute_digest. rewrite filter_all_true by reflexivity. rewrite dg_get_map.
  destruct (nm_get X (cs_nodes cs)); reflexivity.
Qed.

Lemma digest_lists_unquarantined cs sched X c :
  In (X, c) (cs_nodes cs) -> in_ids X sched = false -> In X (map fst (compute_digest cs sched)).
Proof.
  intros Hin Hs. unfold compute_digest. rewrite map_map. cbn [fst]. apply in_map_iff. exists (X, c). split; [reflexivity|].
  apply filter_In. split; [exact Hin|]. cbn [fst]. rewrite Hs. reflexivity.
Qed.

Section QuietExchange.
  Variable zc : bytes -> option bytes.
  Hypothesis zc_len : forall b c, zc b = Some c -> len c <= len b.

  (* The complete SYN / SYN-ACK exchange between an initiator [a] that quarantines nobody and
     remembers no removed member, and any responder [b] that holds something deliverable for it:
     strict progress at [a] (or the clean error of an illegal shuffle hint), no regress. *)
  Theorem quiet_exchange_progress now now' a b ord ord' b' dgb x evs n rest :
    node_inv a -> node_inv b -> no_memory a -> scheduled now a = [] ->
    process_message zc now b (create_syn_message now a) ord = Ok (b', Some (SynAck dgb x), evs) ->
    let dg := compute_digest (nd_cs a) [] in
    let b1 := report_heartbeats_in_digest now (update_self_heartbeat b) dg in
    let sched := scheduled now b1 in
    let mtu := P_MAX_UDP - (P_RESERVE_SYNACK + digest_len (compute_digest (nd_cs b1) sched)) in
    arrange ord (stale_nodes (nd_cs b1) dg sched) = Some (n :: rest) ->
    P_MIN_MTU <= mtu -> room mtu n ->
    sn_id n <> self_id a ->
    process_message zc now' a (SynAck dgb x) ord' = Err \/
    exists a' reply evs' r',
      process_message zc now' a (SynAck dgb x) ord' = Ok (a', reply, evs') /\
      nm_get (sn_id n) (cs_nodes (nd_cs a')) = Some r' /\
      (* strictly beyond what a held (or beyond (0,0) if a did not know the member) *)
      lex_lt_p (match nm_get (sn_id n) (cs_nodes (nd_cs a)) with Some c => (c_gc c, c_max c) | None => (0, 0) end)
               (monotonic_property r') /\
      (forall i c, nm_get i (cs_nodes (nd_cs a)) = Some c ->
                   exists c', nm_get i (cs_nodes (nd_cs a')) = Some c' /\ frontier_le c c').
  Proof.
    intros Ha Hb Hmem Hsched Hrun dg b1 sched mtu Harr Hmin Hroom Hnotself.
    unfold create_syn_message in Hrun. rewrite Hsched in Hrun. fold dg in Hrun.
    destruct (synack_offers_first_stale zc zc_len now b _ dg ord b' dgb x evs n rest Hb Hrun Harr Hmin Hroom)
      as (j & mv & ps & dgc & dmax & Hnds & Hne & Hin & Hd & Hmk & Hps & _).
    assert (Hwf : delta_wf x).
    { destruct (reply_struct zc zc_len now b (Syn (cf_cluster (nd_cfg a)) dg) ord b' _ evs Hb I Hrun) as [_ [_ Hn]].
      eapply Forall_impl; [apply nd_normal_wf|exact Hn]. }
    (* the responder's digest lists the offered member *)
    assert (Hdgb : dgb = compute_digest (nd_cs b1) sched).
    { unfold process_message in Hrun. destruct (negb _); [discriminate|]. fold b1 in Hrun. fold sched in Hrun.
      destruct (P_MAX_UDP <? _); [discriminate|].
      destruct (compute_delta zc (nd_cs b1) dg _ sched ord); cbn [rmap] in Hrun; try discriminate.
      injection Hrun as _ <- _. reflexivity. }
    assert (Hlisted : In (sn_id n) (map fst dgb)).
    { unfold stale_nodes in Hin. apply filter_map_in in Hin as ([i c] & He & Hcand).
      destruct (stale_candidate_some _ _ _ _ Hcand) as (Hid & _ & Hs & _). cbn [fst] in *.
      rewrite Hdgb, Hid. eapply digest_lists_unquarantined; eauto. }
    (* the copy the SYN-ACK is applied to *)
    destruct (update_self_heartbeat_quiet a Hmem) as (Hm0 & Hk0 & Hn0).
    destruct (report_heartbeats_quiet now' dgb (update_self_heartbeat a) Hm0) as (_ & Hk1 & Hc1). cbv zeta in Hk1, Hc1.
    set (a1 := report_heartbeats_in_digest now' (update_self_heartbeat a) dgb) in *.
    assert (Hr : exists r, nm_get (sn_id n) (cs_nodes (nd_cs a1)) = Some r /\
                   (c_gc r, c_max r) = match nm_get (sn_id n) (cs_nodes (nd_cs a)) with Some c => (c_gc c, c_max c) | None => (0, 0) end).
    { destruct (nm_get (sn_id n) (cs_nodes (nd_cs a))) as [c|] eqn:E.
      - destruct (Hk0 _ c E) as (c0 & Hg0 & [F1 F2]). destruct (Hk1 _ c0 Hg0) as (c1 & Hg1 & [G1 G2]).
        exists c1. split; [exact Hg1|]. f_equal; congruence.
      - destruct (Hc1 (sn_id n)) as (c1 & Hg1 & Z1 & Z2); [apply Hn0; assumption|exact Hnotself|exact Hlisted|].
        exists c1. split; [exact Hg1|]. f_equal; assumption. }
    destruct Hr as (r & Hr & Hadv).
    assert (Hadv' : (c_gc r, c_max r) = (dgc, dmax)).
    { rewrite Hadv, <- Hd. unfold dg. symmetry. apply advertised_unquarantined. }
    destruct (synack_applied_advances zc zc_len now' a dgb x ord' n j mv ps dgc dmax r Ha Hwf Hnds Hmk
                ltac:(eapply nonempty_piece_has_op; eauto) Hr Hadv')
      as [He|(a' & reply & evs' & r' & Hok & Hr' & Hlt & Hmono)]; [left; exact He|right].
    exists a', reply, evs', r'. split; [exact Hok|]. split; [exact Hr'|]. split.
    - unfold frontier_lt, monotonic_property in Hlt. rewrite <- Hadv. exact Hlt.
    - intros i c Hc. destruct (Hk0 _ c Hc) as (c0 & Hg0 & [F1 F2]). destruct (Hk1 _ c0 Hg0) as (c1 & Hg1 & [G1 G2]).
      destruct (Hmono i c1 Hg1) as (c' & Hc' & Hle). exists c'. split; [exact Hc'|].
      unfold frontier_le, lex_le_p, monotonic_property in *. cbn [fst snd] in *. rewrite <- G1, <- G2, <- F1, <- F2 in *. lia.
  Qed.
End QuietExchange.
