(* Ids.v — ChitchatId, SocketAddr and their derived Ord (types.rs:20-29). Model file. *)
From ChitchatModel Require Import Base.

(* SocketAddr: V4 < V6 (enum order), then ip, then port.  The ip is the big-endian integer
   value of the octets (which orders like the octet arrays). flowinfo/scope_id are always 0
   for addresses that went through the wire format. *)
Inductive addr :=
| V4 (ip : N) (port : N)
| V6 (ip : N) (port : N).

Definition addr_cmp (a b : addr) : comparison :=
  match a, b with
  | V4 i p, V4 j q => cmp_then (N.compare i j) (N.compare p q)
  | V4 _ _, V6 _ _ => Lt
  | V6 _ _, V4 _ _ => Gt
  | V6 i p, V6 j q => cmp_then (N.compare i j) (N.compare p q)
  end.

Record id := mkId { i_name : bytes; i_gen : N; i_addr : addr }.

(* #[derive(Ord)] on (node_id, generation_id, gossip_advertise_addr) *)
Definition id_cmp (a b : id) : comparison :=
  cmp_then (bytes_cmp (i_name a) (i_name b))
    (cmp_then (N.compare (i_gen a) (i_gen b)) (addr_cmp (i_addr a) (i_addr b))).

Definition id_eqb (a b : id) : bool :=
  match id_cmp a b with Eq => true | _ => false end.

Definition addr_eqb (a b : addr) : bool :=
  match addr_cmp a b with Eq => true | _ => false end.
