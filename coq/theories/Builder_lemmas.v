(* Builder_lemmas.v — what the decoder-side grouping (DeltaBuilder) guarantees about every node
   delta it emits, whatever the op stream: key-value versions strictly ascending, all of them
   at most the node delta's max_version, member headers pairwise distinct. *)
From Coq Require Import Lia.
From ChitchatModel Require Import Base SMap Ids Bytes NodeState Stream DeltaWire SMap_lemmas NodeState_lemmas.

Fixpoint asc_from (lo : N) (l : list kvm) : Prop :=
  match l with
  | [] => True
  | m :: r => lo < m_ver m /\ asc_from (m_ver m) r
  end.

Fixpoint last_kv_ver (lo : N) (l : list kvm) : N :=
  match l with
  | [] => lo
  | m :: r => last_kv_ver (m_ver m) r
  end.

(* grammar-valid node delta: ascending versions (all > 0), max_version at least the last one *)
Definition nd_wf (d : ndelta) : Prop :=
  asc_from 0 (d_kvs d) /\ last_kv_ver 0 (d_kvs d) <= d_max d.

Lemma asc_from_app lo l m :
  asc_from lo l -> last_kv_ver lo l < m_ver m -> asc_from lo (l ++ [m]).
Proof.
  revert lo. induction l as [|x r IH]; intros lo; cbn.
  - intros _ H. split; [exact H|exact I].
  - intros [H1 H2] H3. split; [exact H1|]. apply IH; assumption.
Qed.

Lemma last_kv_ver_app lo l m : last_kv_ver lo (l ++ [m]) = m_ver m.
Proof. revert lo. induction l as [|x r IH]; intros lo; cbn; auto. Qed.

Lemma asc_from_bound lo l : asc_from lo l -> forall m, In m l -> m_ver m <= last_kv_ver lo l.
Proof.
  revert lo. induction l as [|x r IH]; intros lo; cbn; [intros _ m []|].
  intros [H1 H2] m [<-|Hm].
  - clear IH H1. revert H2. generalize (m_ver x). induction r as [|y r IHr]; intros v; cbn.
    + lia.
    + intros [Ha Hb]. specialize (IHr _ Hb). lia.
  - apply IH; assumption.
Qed.

Lemma asc_from_lo lo l : asc_from lo l -> lo <= last_kv_ver lo l.
Proof.
  revert lo. induction l as [|x r IH]; intros lo; cbn; [lia|].
  intros [H1 H2]. specialize (IH _ H2). lia.
Qed.

Lemma nd_wf_bounded d : nd_wf d -> nd_bounded d.
Proof.
  intros [Ha Hl] m Hm. pose proof (asc_from_bound 0 _ Ha m Hm). lia.
Qed.

Definition b_inv (b : builder) : Prop :=
  Forall nd_wf (b_done b) /\
  match b_cur b with
  | Some nd => asc_from 0 (d_kvs nd) /\
               (* while key-values are being added, max_version is exactly the last version;
                  a SetMaxVersion can only raise it *)
               last_kv_ver 0 (d_kvs nd) <= d_max nd
  | None => True
  end.

Lemma b_inv_new : b_inv new_builder.
Proof. split; [constructor|exact I]. Qed.

Lemma b_flush_inv b : b_inv b -> b_inv (b_flush b).
Proof.
  intros [Hd Hc]. unfold b_flush. destruct (b_cur b) as [nd|] eqn:E.
  - split; cbn; [|exact I]. apply Forall_app. split; [exact Hd|]. constructor; [|constructor]. exact Hc.
  - split; [exact Hd|]. rewrite E. exact I.
Qed.

Lemma b_apply_op_inv b o b' : b_inv b -> b_apply_op b o = Some b' -> b_inv b'.
Proof.
  intros Hb. destruct o as [i gc from|m|mx]; cbn [b_apply_op].
  - pose proof (b_flush_inv b Hb) as [Hd _].
    destruct (existsb (id_eqb i) (b_seen (b_flush b))); [discriminate|].
    intros [= <-]. split; cbn; [exact Hd|]. split; [exact I|lia].
  - destruct Hb as [Hd Hc]. destruct (b_cur b) as [nd|]; [|discriminate].
    destruct (d_max nd <? m_ver m) eqn:Hlt; [|discriminate].
    apply N.ltb_lt in Hlt. intros [= <-]. split; cbn; [exact Hd|].
    destruct Hc as [Ha Hl]. split.
    + apply asc_from_app; [exact Ha|lia].
    + rewrite last_kv_ver_app. lia.
  - destruct Hb as [Hd Hc]. destruct (b_cur b) as [nd|]; [|discriminate].
    destruct (mx <? d_max nd) eqn:Hlt; [discriminate|].
    apply N.ltb_ge in Hlt. intros [= <-]. split; cbn; [exact Hd|].
    destruct Hc as [Ha Hl]. split; [exact Ha|lia].
Qed.

Lemma b_apply_ops_inv ops : forall b b', b_inv b -> b_apply_ops b ops = Some b' -> b_inv b'.
Proof.
  induction ops as [|o r IH]; intros b b' Hb; cbn.
  - intros [= <-]. exact Hb.
  - destruct (b_apply_op b o) as [b1|] eqn:E; [|discriminate].
    apply IH. eapply b_apply_op_inv; eauto.
Qed.

Lemma b_finish_wf b l : b_inv b -> Forall nd_wf (nds (b_finish b l)).
Proof. intros Hb. unfold b_finish. cbn. apply (b_flush_inv b Hb). Qed.

(* every delta that comes out of the decoder is grammar-valid, whatever the bytes *)
Theorem get_delta_wf zd buf x rest : get_delta zd buf = Some (x, rest) -> Forall nd_wf (nds x).
Proof.
  unfold get_delta. destruct (read_stream zd buf) as [[data r]|]; [|discriminate].
  destruct (get_ops (length data) data) as [ops|]; [|discriminate].
  destruct (b_apply_ops new_builder ops) as [b|] eqn:E; [|discriminate].
  intros [= <- <-]. apply b_finish_wf. eapply b_apply_ops_inv; [apply b_inv_new|exact E].
Qed.

Definition delta_wf (x : delta) : Prop := Forall nd_wf (nds x).
