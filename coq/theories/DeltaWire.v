(* DeltaWire.v — delta op stream, DeltaBuilder, DeltaSerializer (delta.rs). Model file. *)
From ChitchatModel Require Import Base Ids Bytes Params NodeState Stream.

Inductive op :=
| OpNode (i : id) (gc from : N)
| OpKV (m : kvm)
| OpSetMax (mx : N).

Definition mstatus_code (s : mstatus) : N :=
  match s with MSet => P_ST_SET | MDel => P_ST_DELETE | MTtl => P_ST_TTL end.
Definition mstatus_of_code (c : N) : option mstatus :=
  if c =? P_ST_SET then Some MSet
  else if c =? P_ST_DELETE then Some MDel
  else if c =? P_ST_TTL then Some MTtl
  else None.

(* delta.rs:179-218, types.rs:241-257 *)
Definition put_kvm (m : kvm) : bytes :=
  put_str (m_key m) ++ put_str (m_val m) ++ put_u64 (m_ver m) ++ put_u8 (mstatus_code (m_st m)).
Definition kvm_len (m : kvm) : N := str_len (m_key m) + str_len (m_val m) + 8 + 1.

Definition put_op (o : op) : bytes :=
  match o with
  | OpNode i gc from => put_u8 P_OP_NODE ++ put_id i ++ put_u64 gc ++ put_u64 from
  | OpKV m => put_u8 P_OP_KV ++ put_kvm m
  | OpSetMax mx => put_u8 P_OP_SETMAX ++ put_u64 mx
  end.
Definition op_len (o : op) : N :=
  1 + match o with
      | OpNode i _ _ => id_len i + 8 + 8
      | OpKV m => kvm_len m
      | OpSetMax _ => 8
      end.

(* delta.rs:112-145 *)
Definition get_op (buf : bytes) : option (op * bytes) :=
  match get_u8 buf with
  | None => None
  | Some (t, r) =>
      if t =? P_OP_NODE then
        match get_id r with
        | None => None
        | Some (i, r1) =>
            match get_u64 r1 with
            | None => None
            | Some (gc, r2) =>
                match get_u64 r2 with
                | None => None
                | Some (from, r3) => Some (OpNode i gc from, r3)
                end
            end
        end
      else if t =? P_OP_KV then
        match get_str r with
        | None => None
        | Some (k, r1) =>
            match get_str r1 with
            | None => None
            | Some (v, r2) =>
                match get_u64 r2 with
                | None => None
                | Some (ver, r3) =>
                    match get_u8 r3 with
                    | None => None
                    | Some (c, r4) =>
                        match mstatus_of_code c with
                        | None => None
                        | Some s => Some (OpKV (mkKvm k v ver s), r4)
                        end
                    end
                end
            end
        end
      else if t =? P_OP_SETMAX then
        match get_u64 r with
        | None => None
        | Some (mx, r1) => Some (OpSetMax mx, r1)
        end
      else None
  end.

(* the item loop of deserialize_stream (serialize.rs:428-434); every op is >= 1 byte *)
Fixpoint get_ops (fuel : nat) (buf : bytes) : option (list op) :=
  match buf with
  | [] => Some []
  | _ =>
      match fuel with
      | O => None
      | S f =>
          match get_op buf with
          | None => None
          | Some (o, r) =>
              match get_ops f r with
              | None => None
              | Some l => Some (o :: l)
              end
          end
      end
  end.

(* delta.rs:14-17 *)
Record delta := mkDelta { nds : list ndelta; dlen : N }.

(* delta.rs:358-421 DeltaBuilder *)
Record builder := mkB { b_seen : list id; b_done : list ndelta; b_cur : option ndelta }.
Definition new_builder : builder := mkB [] [] None.

Definition b_flush (b : builder) : builder :=
  match b_cur b with
  | None => b
  | Some nd => mkB (b_seen b) (b_done b ++ [nd]) None
  end.

(* delta.rs:372-410; None = anyhow error *)
Definition b_apply_op (b : builder) (o : op) : option builder :=
  match o with
  | OpNode i gc from =>
      let b1 := b_flush b in
      if existsb (id_eqb i) (b_seen b1) then None
      else Some (mkB (i :: b_seen b1) (b_done b1) (Some (mkND i from gc [] 0)))
  | OpKV m =>
      match b_cur b with
      | None => None
      | Some nd =>
          if d_max nd <? m_ver m
          then Some (mkB (b_seen b) (b_done b)
                         (Some (mkND (d_id nd) (d_from nd) (d_gc nd) (d_kvs nd ++ [m]) (m_ver m))))
          else None
      end
  | OpSetMax mx =>
      match b_cur b with
      | None => None
      | Some nd =>
          if mx <? d_max nd then None
          else Some (mkB (b_seen b) (b_done b)
                         (Some (mkND (d_id nd) (d_from nd) (d_gc nd) (d_kvs nd) mx)))
      end
  end.

Definition b_finish (b : builder) (l : N) : delta := mkDelta (b_done (b_flush b)) l.

Fixpoint b_apply_ops (b : builder) (ops : list op) : option builder :=
  match ops with
  | [] => Some b
  | o :: r => match b_apply_op b o with None => None | Some b' => b_apply_ops b' r end
  end.

(* delta.rs:28-57 Delta::get_operations *)
Definition nd_ops (nd : ndelta) : list op :=
  OpNode (d_id nd) (d_gc nd) (d_from nd)
  :: map OpKV (d_kvs nd)
  ++ match d_kvs nd with
     | [] => if 0 <? d_max nd then [OpSetMax (d_max nd)] else []
     | _ => []
     end.
Definition delta_ops (d : delta) : list op := flat_map nd_ops (nds d).

Section Wire.
  Variable zc : bytes -> option bytes.
  Variable zd : bytes -> option bytes.

  (* delta.rs:236-247 Delta::deserialize; returns the delta and the rest of the buffer *)
  Definition get_delta (buf : bytes) : option (delta * bytes) :=
    match read_stream zd buf with
    | None => None
    | Some (data, rest) =>
        match get_ops (length data) data with
        | None => None
        | Some ops =>
            match b_apply_ops new_builder ops with
            | None => None
            | Some b => Some (b_finish b (len buf - len rest), rest)
            end
        end
    end.

  (* delta.rs:220-229 Delta::serialize.  Panic = an append assert or the assert_eq! at :227 *)
  Fixpoint append_ops (w : writer) (ops : list op) : result writer :=
    match ops with
    | [] => Ok w
    | o :: r => rbind (append zc w (put_op o)) (fun w' => append_ops w' r)
    end.
  Definition put_delta (d : delta) : result bytes :=
    rbind (append_ops (new_writer P_BLOCK_THRESHOLD_SER) (delta_ops d))
          (fun w => let payload := finish zc w in
                    if len payload =? dlen d then Ok payload else Panic).

  (* delta.rs:428-497 DeltaSerializer *)
  Record dser := mkDS { ds_mtu : N; ds_b : builder; ds_w : writer }.

  (* Panic = assert!(mtu >= 100) *)
  Definition ds_with_mtu (mtu : N) : result dser :=
    if mtu <? P_MIN_MTU then Panic
    else Ok (mkDS mtu new_builder (new_writer (N.min P_BLOCK_THRESHOLD mtu))).

  (* delta.rs:453-464: (serializer, accepted?) *)
  Definition ds_try_add_op (s : dser) (o : op) : result (dser * bool) :=
    match upperbound_after (ds_w s) (op_len o) with
    | None => Panic
    | Some ub =>
        if ds_mtu s <? ub then Ok (s, false)
        else
          rbind (append zc (ds_w s) (put_op o)) (fun w' =>
          match b_apply_op (ds_b s) o with
          | None => Panic
          | Some b' => Ok (mkDS (ds_mtu s) b' w', true)
          end)
    end.

  Definition ds_finish (s : dser) : delta :=
    b_finish (ds_b s) (len (finish zc (ds_w s))).
End Wire.
