(* Isolation.v — two honest clusters never leak members, heartbeats or data into each other (C16),
   over a ROUTED network: a SYN may be addressed to any node (cross-configured seeds, shared
   addresses); a reply goes back to the sender of the message it answers; any packet ever sent
   may be delivered to its addressee any number of times, in any order, or never (loss,
   duplication, reordering, delay). *)
From Coq Require Import Lia.
From ChitchatModel Require Import Base SMap Ids Bytes Params NodeState Stream DeltaWire Message Cluster
  FD Chitchat World SMap_lemmas Chitchat_lemmas Reach.

Definition has (n : node) (X : id) : Prop := In X (map fst (cs_nodes (nd_cs n))).

(* ---------- which members a node can come to know ---------- *)
Lemma in_keys_insert i (c : copy) m X : In X (map fst (nm_insert i c m)) -> X = i \/ In X (map fst m).
Proof.
  intros H. apply in_map_iff in H as ([k v] & <- & Hin). cbn [fst].
  apply (in_sm_insert id_cmp) in Hin as [E|Hin]; [injection E as -> _; left; reflexivity|].
  right. apply in_map_iff. exists (k, v). auto.
Qed.

Lemma in_keys_remove i m X : In X (map fst (nm_remove i m)) -> In X (map fst m).
Proof.
  intros H. apply in_map_iff in H as ([k v] & <- & Hin). apply (in_sm_remove id_cmp) in Hin.
  apply in_map_iff. exists (k, v). auto.
Qed.

Lemma has_mut_or_init cs i X :
  In X (map fst (cs_nodes (node_state_mut_or_init cs i))) -> X = i \/ In X (map fst (cs_nodes cs)).
Proof.
  unfold node_state_mut_or_init. destruct (nm_get i (cs_nodes cs)); [auto|]. cbn [cs_nodes]. apply in_keys_insert.
Qed.

Lemma has_update_copy cs i f X :
  In X (map fst (cs_nodes (update_copy cs i f))) -> X = i \/ In X (map fst (cs_nodes cs)).
Proof. unfold update_copy. destruct (nm_get i (cs_nodes cs)); [cbn [cs_nodes]; apply in_keys_insert|auto]. Qed.

Lemma has_update_self_heartbeat n X : has (update_self_heartbeat n) X -> X = self_id n \/ has n X.
Proof.
  unfold has, update_self_heartbeat. cbn [nd_cs with_cs]. intros H.
  apply has_update_copy in H as [H|H]; [auto|]. apply has_mut_or_init in H. exact H.
Qed.

Lemma has_report_heartbeat now n i hb X : has (report_heartbeat now n i hb) X -> X = i \/ has n X.
Proof.
  unfold has, report_heartbeat. destruct (id_eqb i (self_id n)); [auto|].
  match goal with |- context [nm_get i (cs_nodes ?c0)] => set (cs := c0) end.
  assert (Hcs : forall Y, In Y (map fst (cs_nodes cs)) -> Y = i \/ In Y (map fst (cs_nodes (nd_cs n)))).
  { unfold cs. destruct (match last_heartbeat_if_deleted (nd_cs n) i with Some _ => _ | None => _ end); [apply has_mut_or_init|auto]. }
  destruct (nm_get i (cs_nodes cs)) as [c|]; [|cbn [nd_cs with_cs]; apply Hcs].
  destruct (try_set_heartbeat c hb) as [c' fresh].
  intros H. assert (H' : In X (map fst (nm_insert i c' (cs_nodes cs)))) by (destruct fresh; exact H).
  apply in_keys_insert in H' as [H'|H']; [auto|apply Hcs; exact H'].
Qed.

Lemma has_report_heartbeats now dg : forall n X,
  has (report_heartbeats_in_digest now n dg) X -> In X (map fst dg) \/ has n X.
Proof.
  unfold report_heartbeats_in_digest. induction dg as [|e r IH]; intros n X; cbn [fold_left map]; [auto|].
  intros H. apply IH in H as [H|H]; [left; right; exact H|].
  apply has_report_heartbeat in H as [H|H]; [left; left; symmetry; exact H|right; exact H].
Qed.

Lemma has_cluster_apply_nds now : forall l nodes reset evs nodes' reset' evs',
  cluster_apply_nds now nodes l reset evs = Ok (nodes', reset', evs') ->
  forall X, In X (map fst nodes') -> In X (map fst nodes).
Proof.
  induction l as [|nd r IH]; intros nodes reset evs nodes' reset' evs'; cbn [cluster_apply_nds].
  - intros [= <- _ _]. auto.
  - destruct (nm_get (d_id nd) nodes) as [c|] eqn:E; [|apply IH].
    destruct (apply_delta now c nd) as [[[c' st] ev]| |]; try discriminate.
    destruct (lex_le _ _); [|discriminate]. intros H X HX.
    apply (IH _ _ _ _ _ _ H) in HX. apply in_keys_insert in HX as [->|HX]; [|exact HX].
    apply (sm_get_in id_cmp id_cmp_eq) in E. apply in_map_iff. exists (d_id nd, c). auto.
Qed.

Lemma process_delta_has now n x n' evs : process_delta now n x = Ok (n', evs) ->
  nd_cfg n' = nd_cfg n /\ forall X, has n' X -> has n X.
Proof.
  unfold process_delta, cluster_apply_delta.
  destruct (cluster_apply_nds now (cs_nodes (nd_cs n)) (nds x) false []) as [[[nodes' reset'] evs']| |] eqn:E; cbn [rmap]; try discriminate.
  intros [= <- _]. split; [destruct (reset' && cf_has_cb (nd_cfg n)); reflexivity|].
  intros X HX. unfold has in *. apply (has_cluster_apply_nds _ _ _ _ _ _ _ _ E).
  destruct (reset' && cf_has_cb (nd_cfg n)); exact HX.
Qed.

Lemma digest_ids_known cs sched X : In X (map fst (compute_digest cs sched)) -> In X (map fst (cs_nodes cs)).
Proof.
  unfold compute_digest. rewrite map_map. cbn [fst]. intros H. apply in_map_iff in H as (e & <- & He).
  apply filter_In in He as [He _]. apply in_map. exact He.
Qed.

Section Iso.
  Variable zc : bytes -> option bytes.

  (* what processing a message can teach a node: its own id and the ids in the message's digest *)
  Lemma process_message_has now n m ord n' reply evs :
    process_message zc now n m ord = Ok (n', reply, evs) ->
    nd_cfg n' = nd_cfg n /\
    (forall X, has n' X ->
       X = self_id n \/ has n X \/
       match m with
       | Syn cl dg => cl = cf_cluster (nd_cfg n) /\ In X (map fst dg)
       | SynAck dg _ => In X (map fst dg)
       | _ => False
       end) /\
    match reply with
    | Some (SynAck dgr _) =>
        (exists cl dg, m = Syn cl dg /\ cl = cf_cluster (nd_cfg n)) /\ forall X, In X (map fst dgr) -> has n' X
    | Some (Syn _ _) => False
    | _ => True
    end.
  Proof.
    unfold process_message.
    assert (Hcfg0 : nd_cfg (update_self_heartbeat n) = nd_cfg n) by reflexivity.
    destruct m as [cl dg|dg x|x|].
    - destruct (bytes_eqb cl (cf_cluster (nd_cfg (update_self_heartbeat n)))) eqn:Ecl; cbn [negb].
      2:{ intros [= <- <- _]. split; [reflexivity|]. split; [|exact I].
          intros X HX. apply has_update_self_heartbeat in HX as [HX|HX]; auto. }
      apply bytes_eqb_eq in Ecl. rewrite Hcfg0 in Ecl.
      set (n1 := report_heartbeats_in_digest now (update_self_heartbeat n) dg).
      destruct (P_MAX_UDP <? _); [discriminate|].
      destruct (compute_delta zc (nd_cs n1) dg _ (scheduled now n1) ord) as [y| |]; cbn [rmap]; try discriminate.
      intros [= <- <- _].
      destruct (report_heartbeats_fields now dg (update_self_heartbeat n)) as (Hc & _). fold n1 in Hc.
      split; [congruence|]. split.
      + intros X HX. apply has_report_heartbeats in HX as [HX|HX]; [right; right; auto|].
        apply has_update_self_heartbeat in HX as [HX|HX]; auto.
      + split; [eauto|]. intros X HX. apply digest_ids_known in HX. exact HX.
    - set (n1 := report_heartbeats_in_digest now (update_self_heartbeat n) dg).
      destruct (process_delta now n1 x) as [[n2 evs2]| |] eqn:Hpd; cbn [rbind]; try discriminate.
      destruct (compute_delta zc (nd_cs n2) dg _ (scheduled now n2) ord) as [y| |]; cbn [rmap]; try discriminate.
      intros [= <- <- _].
      destruct (report_heartbeats_fields now dg (update_self_heartbeat n)) as (Hc & _). fold n1 in Hc.
      destruct (process_delta_has _ _ _ _ _ Hpd) as [Hc2 Hk2].
      split; [congruence|]. split; [|exact I].
      intros X HX. apply Hk2 in HX. apply has_report_heartbeats in HX as [HX|HX]; [auto|].
      apply has_update_self_heartbeat in HX as [HX|HX]; auto.
    - destruct (process_delta now (update_self_heartbeat n) x) as [[n2 evs2]| |] eqn:Hpd; cbn [rmap]; try discriminate.
      intros [= <- <- _]. cbn [fst].
      destruct (process_delta_has _ _ _ _ _ Hpd) as [Hc2 Hk2].
      split; [congruence|]. split; [|exact I].
      intros X HX. apply Hk2 in HX. apply has_update_self_heartbeat in HX as [HX|HX]; auto.
    - intros [= <- <- _]. split; [reflexivity|]. split; [|exact I].
      intros X HX. apply has_update_self_heartbeat in HX as [HX|HX]; auto.
  Qed.
End Iso.

(* ---------- the routed network ---------- *)
Record packet := mkP { p_src : nat; p_dst : nat; p_msg : message }.
Record rstate := mkR { r_w : world; r_net : list packet }.
Definition rnode (r : rstate) (a : nat) : option node := nth_error (w_nodes (r_w r)) a.
Definition cluster_of (n : node) : bytes := cf_cluster (nd_cfg n).

Lemma has_on_own n f X : has (fst (on_own n f)) X -> X = self_id n \/ has n X.
Proof.
  unfold has, on_own. destruct (nm_get (self_id n) (cs_nodes (node_state_mut_or_init (nd_cs n) (self_id n)))) as [c|]; [|auto].
  destruct (f c) as [c' evs]. cbn [fst nd_cs with_cs cs_nodes]. intros H.
  apply in_keys_insert in H as [H|H]; [auto|]. apply has_mut_or_init in H. exact H.
Qed.
Lemma cfg_on_own n f : nd_cfg (fst (on_own n f)) = nd_cfg n.
Proof.
  unfold on_own. destruct (nm_get _ _) as [c|]; [|reflexivity]. destruct (f c); reflexivity.
Qed.

Lemma has_gc_keys now n X : has (gc_keys now n) X -> has n X.
Proof. unfold has, gc_keys, cluster_gc. cbn [nd_cs with_cs cs_nodes]. rewrite map_map. cbn [fst]. auto. Qed.

Lemma has_fold_remove self (l : list id) : forall cs X,
  In X (map fst (cs_nodes (fold_left (fun cs i => if id_eqb i self then cs else remove_node cs i) l cs))) ->
  In X (map fst (cs_nodes cs)).
Proof.
  induction l as [|i r IH]; intros cs X; cbn [fold_left]; [auto|]. intros H. apply IH in H.
  destruct (id_eqb i self); [exact H|]. unfold remove_node in H.
  destruct (nm_get i (cs_nodes cs)); [cbn [cs_nodes] in H; apply in_keys_remove in H|]; exact H.
Qed.

Lemma has_update_nodes_liveness now n oracle X : has (update_nodes_liveness now n oracle) X -> has n X.
Proof.
  unfold has, update_nodes_liveness. cbv zeta. destruct (fd_garbage_collect _ _ _) as [f2 col]. cbn [nd_cs].
  apply has_fold_remove.
Qed.
Lemma cfg_update_nodes_liveness now n oracle : nd_cfg (update_nodes_liveness now n oracle) = nd_cfg n.
Proof. unfold update_nodes_liveness. cbv zeta. destruct (fd_garbage_collect _ _ _). reflexivity. Qed.

Lemma has_new_node cfg initial X : has (new_node cfg initial) X -> X = cf_id cfg.
Proof.
  unfold has. rewrite new_node_cluster. cbn. intros [H|[]]. auto.
Qed.

Section Routed.
  Variable zc : bytes -> option bytes.

  Definition set_node (r : rstate) (a : nat) (n' : node) (net : list packet) : rstate :=
    mkR (with_nodes (r_w r) (set_nth (w_nodes (r_w r)) a n')) net.

  Inductive rstep : rstate -> rstate -> Prop :=
  | RS_join r cfg initial :
      (forall a n, rnode r a = Some n -> self_id n <> cf_id cfg) ->
      rstep r (mkR (with_nodes (r_w r) (w_nodes (r_w r) ++ [new_node cfg initial])) (r_net r))
  | RS_write r a n f :
      rnode r a = Some n -> lwrite_op (w_now (r_w r)) f ->
      rstep r (set_node r a (fst (on_own n f)) (r_net r))
  | RS_gc r a n : rnode r a = Some n -> rstep r (set_node r a (gc_keys (w_now (r_w r)) n) (r_net r))
  | RS_heartbeat r a n : rnode r a = Some n -> rstep r (set_node r a (update_self_heartbeat n) (r_net r))
  | RS_tick r dt : rstep r (mkR (mkWorld (w_now (r_w r) + Z.max 0 dt)%Z (w_nodes (r_w r))) (r_net r))
  | RS_eval r a n oracle :
      rnode r a = Some n -> rstep r (set_node r a (update_nodes_liveness (w_now (r_w r)) n oracle) (r_net r))
  (* a gossips to ANY node b (seeds and addresses may be shared across clusters) *)
  | RS_syn r a b n :
      rnode r a = Some n ->
      rstep r (mkR (r_w r) (mkP a b (create_syn_message (w_now (r_w r)) n) :: r_net r))
  (* any packet ever sent reaches its addressee; the reply goes back to the packet's sender *)
  | RS_deliver r pk n ord n' reply evs :
      In pk (r_net r) -> rnode r (p_dst pk) = Some n ->
      process_message zc (w_now (r_w r)) n (p_msg pk) ord = Ok (n', reply, evs) ->
      rstep r (set_node r (p_dst pk) n'
                 (match reply with Some m => mkP (p_dst pk) (p_src pk) m :: r_net r | None => r_net r end)).

  Definition r_init : rstate := mkR empty_world [].
  Inductive rreachable : rstate -> Prop :=
  | RR_init : rreachable r_init
  | RR_step r r' : rreachable r -> rstep r r' -> rreachable r'.

  (* member X belongs to cluster c: the node whose id is X is configured with c *)
  Definition home (r : rstate) (X : id) (c : bytes) : Prop :=
    exists b nb, rnode r b = Some nb /\ self_id nb = X /\ cluster_of nb = c.

  Definition pk_ok (r : rstate) (pk : packet) : Prop :=
    match p_msg pk with
    | Syn cl dg =>
        (exists ns, rnode r (p_src pk) = Some ns /\ cluster_of ns = cl) /\
        forall X, In X (map fst dg) -> home r X cl
    | SynAck dg _ =>
        exists nd, rnode r (p_dst pk) = Some nd /\ forall X, In X (map fst dg) -> home r X (cluster_of nd)
    | _ => True
    end.

  Record Iso (r : rstate) : Prop := mkIso {
    iso_ids : forall a b na nb, rnode r a = Some na -> rnode r b = Some nb -> self_id na = self_id nb -> a = b;
    iso_nodes : forall a n X, rnode r a = Some n -> has n X -> home r X (cluster_of n);
    iso_net : forall pk, In pk (r_net r) -> pk_ok r pk
  }.

  (* a step that replaces node a by n' with the same configuration keeps every home *)
  Lemma home_set_node r a n n' net X c :
    rnode r a = Some n -> nd_cfg n' = nd_cfg n -> home r X c -> home (set_node r a n' net) X c.
  Proof.
    intros Ha Hcfg (b & nb & Hb & Hid & Hcl). unfold home, rnode, set_node in *. cbn [r_w with_nodes w_nodes].
    destruct (Nat.eq_dec a b) as [<-|Hne].
    - exists a, n'. rewrite (nth_set_nth_same _ _ _ _ Ha). rewrite Ha in Hb. injection Hb as <-.
      unfold self_id, cluster_of in *. rewrite Hcfg. auto.
    - exists b, nb. rewrite nth_set_nth_other by exact Hne. auto.
  Qed.

  Lemma pk_ok_set_node r a n n' net pk :
    rnode r a = Some n -> nd_cfg n' = nd_cfg n -> pk_ok r pk -> pk_ok (set_node r a n' net) pk.
  Proof.
    intros Ha Hcfg H. unfold pk_ok in *. destruct (p_msg pk) as [cl dg|dg x|x|]; auto.
    - destruct H as [(ns & Hs & Hcl) Hd]. split.
      + unfold rnode, set_node in *. cbn [r_w with_nodes w_nodes]. destruct (Nat.eq_dec a (p_src pk)) as [E|Hne].
        * exists n'. rewrite <- E. rewrite (nth_set_nth_same _ _ _ _ Ha). rewrite <- E, Ha in Hs. injection Hs as <-.
          unfold cluster_of in *. rewrite Hcfg. auto.
        * exists ns. rewrite nth_set_nth_other by exact Hne. auto.
      + intros X HX. eapply home_set_node; eauto.
    - destruct H as (nd & Hd & Hh). unfold rnode, set_node in *. cbn [r_w with_nodes w_nodes].
      destruct (Nat.eq_dec a (p_dst pk)) as [E|Hne].
      + exists n'. rewrite <- E. rewrite (nth_set_nth_same _ _ _ _ Ha). split; [reflexivity|].
        rewrite <- E, Ha in Hd. injection Hd as <-. intros X HX.
        replace (cluster_of n') with (cluster_of n) by (unfold cluster_of; rewrite Hcfg; reflexivity).
        apply (home_set_node r a n n' net X _ Ha Hcfg). fold (rnode r a) in Ha. apply Hh. exact HX.
      + exists nd. rewrite nth_set_nth_other by exact Hne. split; [exact Hd|].
        intros X HX. apply (home_set_node r a n n' net X _ Ha Hcfg). apply Hh. exact HX.
  Qed.

  (* the generic step on one node: same configuration, every member it now has is at home *)
  Lemma iso_node_step r a n n' net :
    Iso r -> rnode r a = Some n -> nd_cfg n' = nd_cfg n ->
    (forall X, has n' X -> home r X (cluster_of n)) ->
    (forall pk, In pk net -> pk_ok (set_node r a n' net) pk) ->
    Iso (set_node r a n' net).
  Proof.
    intros [Hids Hnodes Hnet] Ha Hcfg Hhas Hnet'.
    assert (Hget : forall b m, rnode (set_node r a n' net) b = Some m -> (b = a /\ m = n') \/ (b <> a /\ rnode r b = Some m)).
    { intros b m Hm. unfold rnode, set_node in *. cbn [r_w with_nodes w_nodes] in Hm. destruct (Nat.eq_dec a b) as [<-|Hne].
      - rewrite (nth_set_nth_same _ _ _ _ Ha) in Hm. injection Hm as <-. left; auto.
      - rewrite nth_set_nth_other in Hm by exact Hne. right. split; [congruence|exact Hm]. }
    assert (Hself : self_id n' = self_id n) by (unfold self_id; rewrite Hcfg; reflexivity).
    split.
    - intros b c nb nc Hb Hc Heq.
      destruct (Hget _ _ Hb) as [[-> ->]|[Hba Hb']]; destruct (Hget _ _ Hc) as [[-> ->]|[Hca Hc']].
      + reflexivity.
      + rewrite Hself in Heq. exfalso. apply Hca. symmetry. eapply Hids; eauto.
      + rewrite Hself in Heq. exfalso. apply Hba. eapply Hids; eauto.
      + eapply Hids; eauto.
    - intros b m X Hm HX. destruct (Hget _ _ Hm) as [[-> ->]|[Hba Hb']].
      + replace (cluster_of n') with (cluster_of n) by (unfold cluster_of; rewrite Hcfg; reflexivity).
        eapply home_set_node; eauto.
      + eapply home_set_node; eauto.
    - exact Hnet'.
  Qed.

  Lemma home_self r a n : rnode r a = Some n -> home r (self_id n) (cluster_of n).
  Proof. intros H. exists a, n. auto. Qed.

  Theorem rstep_iso r r' : rstep r r' -> Iso r -> Iso r'.
  Proof.
    intros Hstep HI. pose proof HI as [Hids Hnodes Hnet].
    assert (Hlocal : forall a n n', rnode r a = Some n -> nd_cfg n' = nd_cfg n ->
              (forall X, has n' X -> X = self_id n \/ has n X) -> Iso (set_node r a n' (r_net r))).
    { intros a n n' Ha Hcfg Hk. apply (iso_node_step r a n n'); auto.
      - intros X HX. destruct (Hk X HX) as [->|H]; [apply (home_self r a); exact Ha|eapply Hnodes; eauto].
      - intros pk Hpk. eapply pk_ok_set_node; eauto. }
    destruct Hstep.
    - (* join *)
      assert (Hold : forall b m, rnode r b = Some m ->
                rnode (mkR (with_nodes (r_w r) (w_nodes (r_w r) ++ [new_node cfg initial])) (r_net r)) b = Some m).
      { intros b m Hm. unfold rnode in *. cbn [r_w with_nodes w_nodes]. rewrite nth_error_app1; [exact Hm|].
        apply nth_error_Some. congruence. }
      assert (Hhome : forall X c, home r X c -> home (mkR (with_nodes (r_w r) (w_nodes (r_w r) ++ [new_node cfg initial])) (r_net r)) X c).
      { intros X c (b & nb & Hb & Hr). exists b, nb. split; [apply Hold; exact Hb|exact Hr]. }
      assert (Hget : forall b m, rnode (mkR (with_nodes (r_w r) (w_nodes (r_w r) ++ [new_node cfg initial])) (r_net r)) b = Some m ->
                rnode r b = Some m \/ (b = length (w_nodes (r_w r)) /\ m = new_node cfg initial)).
      { intros b m Hm. unfold rnode in *. cbn [r_w with_nodes w_nodes] in Hm.
        destruct (Nat.lt_ge_cases b (length (w_nodes (r_w r)))) as [Hlt|Hge].
        - rewrite nth_error_app1 in Hm by exact Hlt. left. exact Hm.
        - rewrite nth_error_app2 in Hm by exact Hge.
          destruct (b - length (w_nodes (r_w r)))%nat as [|k] eqn:Ek; cbn in Hm; [|destruct k; discriminate].
          injection Hm as <-. right. split; [lia|reflexivity]. }
      split.
      + intros a b na nb Ha Hb Heq.
        destruct (Hget _ _ Ha) as [Ha'|[-> ->]]; destruct (Hget _ _ Hb) as [Hb'|[-> ->]].
        * eapply Hids; eauto.
        * exfalso. apply (H a na Ha'). rewrite Heq. reflexivity.
        * exfalso. apply (H b nb Hb'). rewrite <- Heq. reflexivity.
        * reflexivity.
      + intros a n X Ha HX. destruct (Hget _ _ Ha) as [Ha'|[-> ->]].
        * apply Hhome. eapply Hnodes; eauto.
        * apply has_new_node in HX. subst X. exists (length (w_nodes (r_w r))), (new_node cfg initial).
          split; [|split; reflexivity]. unfold rnode. cbn [r_w with_nodes w_nodes].
          rewrite nth_error_app2 by lia. rewrite Nat.sub_diag. reflexivity.
      + intros pk Hpk. specialize (Hnet pk Hpk). unfold pk_ok in *. cbn [r_net] in *.
        destruct (p_msg pk) as [cl dg|dg x|x|]; auto.
        * destruct Hnet as [(ns & Hs & Hcl) Hd]. split; [exists ns; split; [apply Hold; exact Hs|exact Hcl]|].
          intros X HX. apply Hhome. auto.
        * destruct Hnet as (nd & Hd & Hh). exists nd. split; [apply Hold; exact Hd|]. intros X HX. apply Hhome. auto.
    - apply (Hlocal a n); [exact H|apply cfg_on_own|apply has_on_own].
    - apply (Hlocal a n); [exact H|reflexivity|]. intros X HX. right. eapply has_gc_keys; eauto.
    - apply (Hlocal a n); [exact H|reflexivity|apply has_update_self_heartbeat].
    - (* tick *)
      split; [exact Hids|exact Hnodes|exact Hnet].
    - apply (Hlocal a n); [exact H|apply cfg_update_nodes_liveness|]. intros X HX. right. eapply has_update_nodes_liveness; eauto.
    - (* a SYN addressed to any node *)
      split; [exact Hids|exact Hnodes|]. intros pk [<-|Hpk]; [|apply Hnet; exact Hpk].
      unfold pk_ok, create_syn_message. cbn [p_msg p_src]. split; [exists n; auto|].
      intros X HX. apply digest_ids_known in HX. eapply Hnodes; eauto.
    - (* delivery to the addressee; the reply is addressed to the sender *)
      destruct (process_message_has zc _ n (p_msg pk) ord n' reply evs H1) as (Hcfg & Hk & Hreply).
      specialize (Hnet pk H) as Hpk. unfold pk_ok in Hpk.
      assert (Hhas' : forall X, has n' X -> home r X (cluster_of n)).
      { intros X HX. destruct (Hk X HX) as [->|[HX'|HX']].
        - apply (home_self r (p_dst pk)). exact H0.
        - eapply Hnodes; eauto.
        - destruct (p_msg pk) as [cl dg|dg x|x|]; try contradiction.
          + destruct HX' as [-> HX']. destruct Hpk as [_ Hd]. apply Hd. exact HX'.
          + destruct Hpk as (nd & Hd & Hh). unfold rnode in *. rewrite H0 in Hd. injection Hd as <-. apply Hh. exact HX'. }
      apply (iso_node_step r (p_dst pk) n n'); auto.
      intros q Hq.
      assert (Hold : forall q0, In q0 (r_net r) -> pk_ok (set_node r (p_dst pk) n' (match reply with Some m => mkP (p_dst pk) (p_src pk) m :: r_net r | None => r_net r end)) q0).
      { intros q0 Hq0. eapply pk_ok_set_node; eauto. }
      destruct reply as [m|]; [|apply Hold; exact Hq].
      destruct Hq as [<-|Hq]; [|apply Hold; exact Hq].
      unfold pk_ok. cbn [p_msg p_src p_dst].
      destruct m as [cl2 dg2|dgr xr|xr|]; [contradiction| |exact I|exact I].
      destruct Hreply as [(cl & dg & Em & Ecl) Hdr]. rewrite Em in Hpk. destruct Hpk as [(ns & Hs & Hcl) _].
      (* the SYN's sender is in the same cluster as the answering node *)
      assert (Hsame : cluster_of ns = cluster_of n) by (rewrite Hcl, Ecl; reflexivity).
      destruct (Nat.eq_dec (p_dst pk) (p_src pk)) as [E|Hne].
      + exists n'. split; [unfold rnode, set_node; cbn [r_w with_nodes w_nodes]; rewrite <- E; apply (nth_set_nth_same _ _ _ _ H0)|].
        intros X HX. replace (cluster_of n') with (cluster_of n) by (unfold cluster_of; rewrite Hcfg; reflexivity).
        eapply home_set_node; eauto.
      + exists ns. split; [unfold rnode, set_node; cbn [r_w with_nodes w_nodes]; rewrite nth_set_nth_other by exact Hne; exact Hs|].
        intros X HX. rewrite Hsame. eapply home_set_node; eauto.
  Qed.

  Lemma iso_init : Iso r_init.
  Proof.
    split; unfold rnode; cbn.
    - intros a b na nb H. destruct a; discriminate.
    - intros a n X H. destruct a; discriminate.
    - intros pk [].
  Qed.

  Theorem rreachable_iso : forall r, rreachable r -> Iso r.
  Proof. induction 1 as [|r r' Hr IH Hs]; [apply iso_init|eapply rstep_iso; eauto]. Qed.

  (* the statement: a node never holds a copy (key-values, heartbeat, versions) of a member of a
     cluster with a different id *)
  Theorem two_clusters_isolated : forall r, rreachable r ->
    forall a b na nb, rnode r a = Some na -> rnode r b = Some nb ->
      cluster_of na <> cluster_of nb -> nm_get (self_id nb) (cs_nodes (nd_cs na)) = None.
  Proof.
    intros r Hr a b na nb Ha Hb Hne.
    destruct (rreachable_iso r Hr) as [Hids Hnodes _].
    destruct (nm_get (self_id nb) (cs_nodes (nd_cs na))) as [c|] eqn:E; [|reflexivity]. exfalso.
    assert (Hhas : has na (self_id nb)).
    { unfold has. apply (sm_get_in id_cmp id_cmp_eq) in E. apply in_map_iff. exists (self_id nb, c). auto. }
    destruct (Hnodes a na _ Ha Hhas) as (b' & nb' & Hb' & Hid & Hcl).
    assert (b' = b) by (eapply Hids; eauto). subst b'. rewrite Hb in Hb'. injection Hb' as <-.
    apply Hne. symmetry. exact Hcl.
  Qed.
End Routed.
