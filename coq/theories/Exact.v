(* Exact.v — the exactness invariants behind C02 ("no resurrection"), per copy and per node
   delta, relative to the truth:
     Hold  : an entry is the latest write on its key, or the latest write is beyond the copy's
             horizon max(watermark, max version);
     Compl : every latest write at or below the max version is present, or is a tombstone at or
             below the watermark.
   They are preserved by every operation EXCEPT a "weak acceptance" (known finding KF-1): a copy
   with watermark above its max version applying, without reset, a delta whose watermark and max
   version are both below the copy's watermark. *)
From Coq Require Import Lia.
From ChitchatModel Require Import Base SMap Ids Bytes Params NodeState Stream DeltaWire Message Cluster
  Monitors SMap_lemmas NodeState_lemmas Builder_lemmas Inv Agreement DeltaRefine Compute_lemmas
  Prefix_lemmas Truth Weak.

Definition latest (T : truth) (X : id) (k : bytes) (w : lwrite) : Prop :=
  t_wrote T X w /\ lw_key w = k /\ forall w', t_wrote T X w' -> lw_key w' = k -> lw_ver w' <= lw_ver w.

Definition hz (c : copy) : N := N.max (c_gc c) (c_max c).

(* the copy holds write [w] *)
Definition holds (c : copy) (w : lwrite) : Prop :=
  exists v, kget (lw_key w) (c_kvs c) = Some v /\ entry_of (lw_key w) v = w.

Definition Hold (T : truth) (X : id) (c : copy) : Prop :=
  forall k v w, kget k (c_kvs c) = Some v -> latest T X k w -> w = entry_of k v \/ hz c < lw_ver w.

Definition Compl (T : truth) (X : id) (c : copy) : Prop :=
  forall k w, latest T X k w -> lw_ver w <= c_max c ->
    holds c w \/ (mscheduled (lw_st w) = true /\ lw_ver w <= c_gc c).

(* C02 for one copy, as a Prop *)
Definition exact_up_to_frontier (T : truth) (X : id) (c : copy) : Prop :=
  forall k w, latest T X k w -> lw_ver w <= c_max c ->
    holds c w \/ (mscheduled (lw_st w) = true /\ lw_ver w <= c_gc c /\ kget k (c_kvs c) = None).

Theorem hold_compl_exact T X c : Hold T X c -> Compl T X c -> exact_up_to_frontier T X c.
Proof.
  intros Hh Hc k w Hl Hle. destruct (Hc k w Hl Hle) as [H|[H1 H2]]; [left; exact H|].
  destruct (kget k (c_kvs c)) as [v|] eqn:E.
  - destruct (Hh k v w E Hl) as [->|Hlt].
    + left. exists v. cbn. split; [exact E|reflexivity].
    + unfold hz in Hlt. lia.
  - right. auto.
Qed.

(* ---- node deltas ---- *)
Definition kv_keys (l : list kvm) : list bytes := map m_key l.

(* [h] = the sender copy's horizon when the delta was made (ghost) *)
Record DinvH (T : truth) (nd : ndelta) (h : N) : Prop := mkDinv {
  di_h_max : d_max nd <= h;
  di_h_gc : d_gc nd <= h;
  di_h_truth : h <= t_max T (d_id nd);
  di_keys : NoDup (kv_keys (d_kvs nd));
  di_range : forall m, In m (d_kvs nd) -> d_from nd < m_ver m /\ m_ver m <= d_max nd;
  di_hold : forall m w, In m (d_kvs nd) -> latest T (d_id nd) (m_key m) w ->
                        w = entry_of_kvm m \/ h < lw_ver w;
  di_compl : forall k w, latest T (d_id nd) k w -> d_from nd < lw_ver w -> lw_ver w <= d_max nd ->
                         (exists m, In m (d_kvs nd) /\ entry_of_kvm m = w) \/
                         (mscheduled (lw_st w) = true /\ lw_ver w <= d_gc nd)
}.
Definition Dinv (T : truth) (nd : ndelta) : Prop := exists h, DinvH T nd h.

(* ---- monotonicity in the truth ---- *)
Lemma latest_mono_back T T' X k w :
  t_le T T' -> t_wf T -> latest T' X k w -> t_wrote T X w -> latest T X k w.
Proof.
  intros Hle Hwf (Hw & Hk & Hmax) Hin. split; [exact Hin|]. split; [exact Hk|].
  intros w' Hw' Hk'. apply Hmax; [apply (tle_wrote _ _ Hle); exact Hw'|exact Hk'].
Qed.

Lemma Hold_mono T T' X c :
  t_le T T' -> t_wf T -> copy_int T X c -> Hold T X c -> Hold T' X c.
Proof.
  intros Hle Hwf [_ Hm Hg _] Hh k v w Hg' Hl.
  destruct (tle_fresh _ _ Hle X w (proj1 Hl)) as [Hin|Hfresh].
  - apply (Hh k v w Hg'). eapply latest_mono_back; eauto.
  - right. unfold hz. lia.
Qed.

Lemma Compl_mono T T' X c :
  t_le T T' -> t_wf T -> copy_int T X c -> Compl T X c -> Compl T' X c.
Proof.
  intros Hle Hwf [_ Hm _ _] Hc k w Hl Hv.
  destruct (tle_fresh _ _ Hle X w (proj1 Hl)) as [Hin|Hfresh]; [|lia].
  apply (Hc k w); [eapply latest_mono_back; eauto|exact Hv].
Qed.

Lemma Dinv_mono T T' nd : t_le T T' -> t_wf T -> Dinv T nd -> Dinv T' nd.
Proof.
  intros Hle Hwf [h [A B C D E F G]]. exists h. split; auto.
  - pose proof (tle_max _ _ Hle (d_id nd)). lia.
  - intros m w Hm Hl. destruct (tle_fresh _ _ Hle _ w (proj1 Hl)) as [Hin|Hfresh]; [|right; lia].
    apply (F m w Hm). eapply latest_mono_back; eauto.
  - intros k w Hl H1 H2. destruct (tle_fresh _ _ Hle _ w (proj1 Hl)) as [Hin|Hfresh]; [|lia].
    apply (G k w); auto. eapply latest_mono_back; eauto.
Qed.

Lemma new_copy_hold T X : Hold T X new_copy.
Proof. intros k v w H. discriminate. Qed.
Lemma new_copy_compl T X : t_wf T -> Compl T X new_copy.
Proof. intros Hwf k w (Hw & _) Hv. destruct (twf_range T Hwf X w Hw). cbn in Hv. lia. Qed.
Lemma reset_hold T X h g : Hold T X (reset_node h g).
Proof. intros k v w H. discriminate. Qed.

(* heartbeat changes are irrelevant *)
Lemma Hold_hb T X c hb : Hold T X c -> Hold T X (mkCopy hb (c_gc c) (c_max c) (c_kvs c)).
Proof. intros H. exact H. Qed.
Lemma Compl_hb T X c hb : Compl T X c -> Compl T X (mkCopy hb (c_gc c) (c_max c) (c_kvs c)).
Proof. intros H. exact H. Qed.

(* ---- what the key-value loop of apply_delta does to each key ---- *)
Definition applicable (cm gc : N) (m : kvm) : bool :=
  negb (m_ver m <=? cm) && negb (mscheduled (m_st m) && (m_ver m <=? gc)).

Fixpoint find_key (k : bytes) (l : list kvm) : option kvm :=
  match l with
  | [] => None
  | m :: r => if bytes_eqb (m_key m) k then Some m else find_key k r
  end.

Lemma find_key_in k l m : find_key k l = Some m -> In m l /\ m_key m = k.
Proof.
  induction l as [|x r IH]; cbn; [discriminate|].
  destruct (bytes_eqb (m_key x) k) eqn:E.
  - intros [= <-]. apply bytes_eqb_eq in E. auto.
  - intros H. destruct (IH H). auto.
Qed.
Lemma find_key_none k l : find_key k l = None -> forall m, In m l -> m_key m <> k.
Proof.
  induction l as [|x r IH]; cbn; [intros _ m []|].
  destruct (bytes_eqb (m_key x) k) eqn:E; [discriminate|].
  intros H m [<-|Hm]; [intros E2; apply bytes_eqb_eq in E2; congruence|apply IH; assumption].
Qed.
Lemma find_key_unique k l m : NoDup (kv_keys l) -> In m l -> m_key m = k -> find_key k l = Some m.
Proof.
  induction l as [|x r IH]; cbn; [intros _ []|]. intros Hnd [<-|Hm] Hk.
  - assert (E : bytes_eqb (m_key x) k = true) by (apply bytes_eqb_eq; exact Hk). rewrite E. reflexivity.
  - inversion Hnd as [|? ? Hni Hr]; subst.
    destruct (bytes_eqb (m_key x) (m_key m)) eqn:E.
    + apply bytes_eqb_eq in E. exfalso. apply Hni. rewrite E. apply in_map. exact Hm.
    + apply IH; auto.
Qed.

Definition new_vv (now : Z) (m : kvm) : vv := mkVV (m_val m) (m_ver m) (into_status (m_st m) now).

Lemma fold_apply_kv_get now cm : forall kvs c evs k,
  NoDup (kv_keys kvs) ->
  (* entries under the keys still to come have versions at most cm *)
  (forall m v', In m kvs -> kget (m_key m) (c_kvs c) = Some v' -> v_ver v' <= cm) ->
  kget k (c_kvs (fst (fold_left (apply_kv now cm) kvs (c, evs))))
  = match find_key k kvs with
    | Some m => if applicable cm (c_gc c) m then Some (new_vv now m) else kget k (c_kvs c)
    | None => kget k (c_kvs c)
    end
  /\ c_gc (fst (fold_left (apply_kv now cm) kvs (c, evs))) = c_gc c.
Proof.
  induction kvs as [|m r IH]; intros c evs k Hnd Hold; cbn [fold_left find_key]; [split; reflexivity|].
  inversion Hnd as [|? ? Hni Hr]; subst.
  assert (Hstep : exists c1 evs1, apply_kv now cm (c, evs) m = (c1, evs1) /\ c_gc c1 = c_gc c /\
            (forall k0, kget k0 (c_kvs c1) = if bytes_eqb (m_key m) k0 && applicable cm (c_gc c) m
                                             then Some (new_vv now m) else kget k0 (c_kvs c))).
  { unfold apply_kv, applicable. destruct (m_ver m <=? cm) eqn:E1; cbn [negb andb].
    - exists c, evs. split; [reflexivity|]. split; [reflexivity|]. intros k0. rewrite andb_false_r. reflexivity.
    - destruct (mscheduled (m_st m) && (m_ver m <=? c_gc c)) eqn:E2; cbn [negb].
      + exists c, evs. split; [reflexivity|]. split; [reflexivity|]. intros k0. rewrite andb_false_r. reflexivity.
      + destruct (set_versioned_value c (m_key m) (new_vv now m)) as [c1 ev] eqn:Es. unfold new_vv in Es. rewrite Es.
        exists c1, (evs ++ ev). split; [reflexivity|].
        assert (Hc1 : c1 = fst (set_versioned_value c (m_key m) (new_vv now m))) by (unfold new_vv; rewrite Es; reflexivity).
        split; [rewrite Hc1; apply svv_gc|]. intros k0. rewrite andb_true_r. rewrite Hc1.
        unfold set_versioned_value. apply N.leb_gt in E1.
        destruct (kget (m_key m) (c_kvs c)) as [old|] eqn:Eo.
        * assert (Hlt : v_ver (new_vv now m) <=? v_ver old = false).
          { apply N.leb_gt. pose proof (Hold m old (or_introl eq_refl) Eo). cbn. lia. }
          rewrite Hlt. cbn [fst c_kvs]. destruct (bytes_eqb (m_key m) k0) eqn:Ek.
          -- apply bytes_eqb_eq in Ek. subst k0. apply kget_kinsert_same.
          -- apply kget_kinsert_other. intros E. rewrite E, (proj2 (bytes_eqb_eq k0 k0) eq_refl) in Ek. discriminate.
        * cbn [fst c_kvs]. destruct (bytes_eqb (m_key m) k0) eqn:Ek.
          -- apply bytes_eqb_eq in Ek. subst k0. apply kget_kinsert_same.
          -- apply kget_kinsert_other. intros E. rewrite E, (proj2 (bytes_eqb_eq k0 k0) eq_refl) in Ek. discriminate. }
  destruct Hstep as (c1 & evs1 & Hs & Hg & Hget). rewrite Hs.
  destruct (IH c1 evs1 k Hr) as [IH1 IH2].
  { intros m' v' Hm' Hk'. rewrite Hget in Hk'.
    assert (Hne : bytes_eqb (m_key m) (m_key m') = false).
    { destruct (bytes_eqb (m_key m) (m_key m')) eqn:E; [|reflexivity]. apply bytes_eqb_eq in E.
      exfalso. apply Hni. rewrite E. apply in_map. exact Hm'. }
    rewrite Hne in Hk'. cbn [andb] in Hk'. eapply Hold; [right; exact Hm'|exact Hk']. }
  split; [|rewrite IH2; exact Hg].
  rewrite IH1, Hg. destruct (bytes_eqb (m_key m) k) eqn:Ek.
  - apply bytes_eqb_eq in Ek. subst k.
    destruct (find_key (m_key m) r) as [m2|] eqn:Ef.
    + exfalso. apply find_key_in in Ef as [Hin Hk]. apply Hni. rewrite <- Hk. apply in_map. exact Hin.
    + rewrite Hget. rewrite (proj2 (bytes_eqb_eq _ _) eq_refl). cbn [andb]. reflexivity.
  - destruct (find_key k r) as [m2|]; [|rewrite Hget, Ek; reflexivity].
    destruct (applicable cm (c_gc c) m2); [reflexivity|]. rewrite Hget, Ek. reflexivity.
Qed.

Lemma entry_of_new_vv now m : entry_of (m_key m) (new_vv now m) = entry_of_kvm m.
Proof. unfold entry_of, new_vv, entry_of_kvm. cbn. rewrite into_status_mstatus. reflexivity. Qed.

Lemma latest_key T X k w : latest T X k w -> lw_key w = k.
Proof. intros (_ & H & _). exact H. Qed.

(* C02 step: applying a delta with the delta invariant keeps Hold and Compl, unless the
   application is a weak acceptance *)
Theorem apply_delta_exact T X now c nd h c' st evs :
  t_wf T -> copy_inv c -> copy_int T X c -> Hold T X c -> Compl T X c ->
  nd_int T nd -> d_id nd = X -> DinvH T nd h ->
  weak_acceptance c nd = false ->
  apply_delta now c nd = Ok (c', st, evs) ->
  Hold T X c' /\ Compl T X c'.
Proof.
  intros Hwf Hci Hint Hh Hc Hndi Hid [D1 D2 D3 D4 D5 D6 D7] Hweak Hrun. subst X.
  unfold apply_delta in Hrun.
  assert (Hbound : forall m v', In m (d_kvs nd) -> kget (m_key m) (c_kvs c) = Some v' -> v_ver v' <= c_max c).
  { intros m v' _ Hk. apply kget_in in Hk. apply (ci_range c Hci _ _ Hk). }
  destruct (check_delta_status c nd) eqn:Hst.
  - injection Hrun as <- _ _. auto.
  - (* ---- Apply ---- *)
    assert (Hfacts : d_from nd <= c_max c /\ (d_gc nd <= c_gc c \/ d_gc nd <= c_max c) /\ c_max c < d_max nd).
    { unfold check_delta_status in Hst.
      destruct (c_max c <? d_from nd) eqn:E1; [discriminate|]. apply N.ltb_ge in E1.
      destruct ((d_gc nd <=? c_gc c) || (d_gc nd <=? c_max c)) eqn:E2; cbn [negb] in Hst;
        [|destruct (negb (d_from nd =? 0)); discriminate].
      destruct (c_max c <? d_max nd) eqn:E3; [|discriminate]. apply N.ltb_lt in E3.
      apply orb_true_iff in E2. rewrite !N.leb_le in E2. auto. }
    destruct Hfacts as (Hfrom & Hcompat & Hlt).
    destruct (fold_left (apply_kv now (c_max c)) (d_kvs nd) (c, [])) as [c1 evs1] eqn:Hf.
    destruct (d_max nd <? c_max c1); [discriminate|]. injection Hrun as <- _ _.
    pose proof (fold_apply_kv_get now (c_max c) (d_kvs nd) c [] ) as Hget.
    assert (Hg : forall k, kget k (c_kvs c1) = match find_key k (d_kvs nd) with
                   | Some m => if applicable (c_max c) (c_gc c) m then Some (new_vv now m) else kget k (c_kvs c)
                   | None => kget k (c_kvs c) end).
    { intros k. destruct (Hget k D4 Hbound) as [H1 _]. rewrite Hf in H1. exact H1. }
    assert (Hgc1 : c_gc c1 = c_gc c).
    { destruct (Hget [] D4 Hbound) as [_ H2]. rewrite Hf in H2. exact H2. }
    (* the non-weak fact: the copy's watermark is within the delta's horizon, or below its max *)
    assert (Hnw : c_gc c <= d_max nd \/ c_gc c <= h).
    { unfold weak_acceptance in Hweak. rewrite Hst in Hweak. rewrite andb_true_r in Hweak.
      destruct (N.le_gt_cases (c_gc c) (d_max nd)) as [H|H]; [left; exact H|]. right.
      apply andb_false_iff in Hweak as [Hw|Hw].
      - apply andb_false_iff in Hw as [Hw|Hw]; apply N.ltb_ge in Hw; lia.
      - apply N.ltb_ge in Hw. lia. }
    split.
    + (* Hold *)
      intros k v w Hk Hl. unfold hz. cbn [c_kvs c_gc c_max] in *. rewrite Hgc1. rewrite Hg in Hk.
      destruct (find_key k (d_kvs nd)) as [m|] eqn:Ef.
      * apply find_key_in in Ef as [Hin Hkm].
        destruct (applicable (c_max c) (c_gc c) m) eqn:Ea.
        -- injection Hk as <-. subst k. rewrite entry_of_new_vv.
           destruct (D6 m w Hin Hl) as [->|Hlt2]; [left; reflexivity|right]. lia.
        -- (* the old entry survives *)
           destruct (Hh k v w Hk Hl) as [->|Hlt2]; [left; reflexivity|]. unfold hz in Hlt2.
           destruct (N.le_gt_cases (lw_ver w) (N.max (c_gc c) (d_max nd))) as [Hle|Hgt]; [|right; exact Hgt].
           exfalso. assert (Hwd : lw_ver w <= d_max nd) by lia.
           destruct (D7 k w Hl ltac:(lia) Hwd) as [(m' & Hin' & He')|[Ht Hv]].
           ++ assert (Hk' : m_key m' = k) by (rewrite <- (latest_key _ _ _ _ Hl), <- He'; reflexivity).
              assert (m' = m).
              { pose proof (find_key_unique k _ m' D4 Hin' Hk') as F1.
                pose proof (find_key_unique k _ m D4 Hin Hkm) as F2. congruence. }
              subst m'. unfold applicable in Ea.
              assert (Hv : m_ver m = lw_ver w) by (rewrite <- He'; reflexivity).
              assert (E1 : m_ver m <=? c_max c = false) by (apply N.leb_gt; lia).
              assert (E2 : m_ver m <=? c_gc c = false) by (apply N.leb_gt; lia).
              rewrite E1, E2, andb_false_r in Ea. discriminate.
           ++ destruct Hcompat; lia.
      * destruct (Hh k v w Hk Hl) as [->|Hlt2]; [left; reflexivity|]. unfold hz in Hlt2.
        destruct (N.le_gt_cases (lw_ver w) (N.max (c_gc c) (d_max nd))) as [Hle|Hgt]; [|right; exact Hgt].
        exfalso. assert (Hwd : lw_ver w <= d_max nd) by lia.
        destruct (D7 k w Hl ltac:(lia) Hwd) as [(m' & Hin' & He')|[Ht Hv]].
        -- assert (Hk' : m_key m' = k) by (rewrite <- (latest_key _ _ _ _ Hl), <- He'; reflexivity).
           rewrite (find_key_unique k _ m' D4 Hin' Hk') in Ef. discriminate.
        -- destruct Hcompat; lia.
    + (* Compl *)
      intros k w Hl Hv. cbn [c_max c_gc c_kvs] in *. rewrite Hgc1. unfold holds. cbn [c_kvs].
      pose proof (latest_key _ _ _ _ Hl) as Hkw.
      destruct (N.le_gt_cases (lw_ver w) (c_max c)) as [Hold_|Hnew].
      * destruct (Hc k w Hl Hold_) as [(v & Hv1 & Hv2)|Hr]; [|right; exact Hr].
        left. exists v. split; [|exact Hv2]. rewrite Hkw in *. rewrite Hg.
        destruct (find_key k (d_kvs nd)) as [m|] eqn:Ef; [|exact Hv1].
        destruct (applicable (c_max c) (c_gc c) m) eqn:Ea; [|exact Hv1].
        (* an applicable delta entry on k would be a write on k newer than the latest one *)
        exfalso. apply find_key_in in Ef as [Hin Hkm].
        destruct Hl as (_ & _ & Hmax). pose proof (Hmax (entry_of_kvm m) (ndi_entries _ _ Hndi m Hin) Hkm) as Hle.
        unfold applicable in Ea. apply andb_true_iff in Ea as [Ea _]. apply negb_true_iff, N.leb_gt in Ea. cbn in Hle. lia.
      * destruct (D7 k w Hl ltac:(lia) Hv) as [(m & Hin & He)|[Ht Hvv]].
        -- assert (Hkm : m_key m = k) by (rewrite <- Hkw, <- He; reflexivity).
           assert (Hvm : m_ver m = lw_ver w) by (rewrite <- He; reflexivity).
           assert (Hsm : m_st m = lw_st w) by (rewrite <- He; reflexivity).
           destruct (mscheduled (m_st m) && (m_ver m <=? c_gc c)) eqn:Et.
           ++ right. apply andb_true_iff in Et as [E1 E2]. apply N.leb_le in E2. rewrite <- Hsm, <- Hvm. auto.
           ++ left. exists (new_vv now m). rewrite Hkw, Hg, (find_key_unique k _ m D4 Hin Hkm).
              unfold applicable. rewrite Et. assert (E1 : m_ver m <=? c_max c = false) by (apply N.leb_gt; lia).
              rewrite E1. cbn [negb andb]. split; [reflexivity|]. rewrite <- Hkm, entry_of_new_vv. exact He.
        -- right. split; [exact Ht|]. destruct Hcompat; lia.
  - (* ---- ApplyAfterReset ---- *)
    assert (Hfrom0 : d_from nd = 0).
    { unfold check_delta_status in Hst. destruct (c_max c <? d_from nd); [discriminate|].
      destruct (negb _); [|destruct (c_max c <? d_max nd); discriminate].
      destruct (d_from nd =? 0) eqn:E; [apply N.eqb_eq in E; exact E|discriminate]. }
    destruct (fold_left (apply_kv now (c_max (reset_node (c_hb c) (d_gc nd)))) (d_kvs nd) (reset_node (c_hb c) (d_gc nd), [])) as [c1 evs1] eqn:Hf.
    destruct (d_max nd <? c_max c1); [discriminate|]. injection Hrun as <- _ _.
    pose proof (fold_apply_kv_get now 0 (d_kvs nd) (reset_node (c_hb c) (d_gc nd)) []) as Hget. cbn [reset_node c_max] in Hf.
    assert (Hb0 : forall m v', In m (d_kvs nd) -> kget (m_key m) (c_kvs (reset_node (c_hb c) (d_gc nd))) = Some v' -> v_ver v' <= 0)
      by (intros m v' _ Hk; discriminate).
    assert (Hg : forall k, kget k (c_kvs c1) = match find_key k (d_kvs nd) with
                   | Some m => if applicable 0 (d_gc nd) m then Some (new_vv now m) else None
                   | None => None end).
    { intros k. destruct (Hget k D4 Hb0) as [H1 _]. cbn [reset_node c_gc c_kvs kget sm_get] in H1. rewrite Hf in H1. exact H1. }
    assert (Hgc1 : c_gc c1 = d_gc nd).
    { destruct (Hget [] D4 Hb0) as [_ H2]. cbn [reset_node c_gc] in H2. rewrite Hf in H2. exact H2. }
    split.
    + intros k v w Hk Hl. unfold hz. cbn [c_kvs c_gc c_max] in *. rewrite Hgc1. rewrite Hg in Hk.
      destruct (find_key k (d_kvs nd)) as [m|] eqn:Ef; [|discriminate].
      apply find_key_in in Ef as [Hin Hkm]. destruct (applicable 0 (d_gc nd) m); [|discriminate].
      injection Hk as <-. subst k. rewrite entry_of_new_vv.
      destruct (D6 m w Hin Hl) as [->|Hlt2]; [left; reflexivity|right]. lia.
    + intros k w Hl Hv. cbn [c_max c_gc c_kvs] in *. rewrite Hgc1. unfold holds. cbn [c_kvs].
      pose proof (latest_key _ _ _ _ Hl) as Hkw.
      assert (Hpos : 0 < lw_ver w) by (apply (twf_range T Hwf _ _ (proj1 Hl))).
      destruct (D7 k w Hl ltac:(lia) Hv) as [(m & Hin & He)|Hr]; [|right; exact Hr].
      assert (Hkm : m_key m = k) by (rewrite <- Hkw, <- He; reflexivity).
      assert (Hvm : m_ver m = lw_ver w) by (rewrite <- He; reflexivity).
      assert (Hsm : m_st m = lw_st w) by (rewrite <- He; reflexivity).
      destruct (mscheduled (m_st m) && (m_ver m <=? d_gc nd)) eqn:Et.
      * right. apply andb_true_iff in Et as [E1 E2]. apply N.leb_le in E2. rewrite <- Hsm, <- Hvm. auto.
      * left. exists (new_vv now m). rewrite Hkw, Hg, (find_key_unique k _ m D4 Hin Hkm).
        unfold applicable. rewrite Et. assert (E1 : m_ver m <=? 0 = false) by (apply N.leb_gt; lia).
        rewrite E1. cbn [negb andb]. split; [reflexivity|]. rewrite <- Hkm, entry_of_new_vv. exact He.
Qed.

(* ---- the delta computed from a copy satisfies the delta invariant ---- *)
Lemma nodup_map_inj {A B} (f : A -> B) (l : list A) :
  NoDup l -> (forall x y, In x l -> In y l -> f x = f y -> x = y) -> NoDup (map f l).
Proof.
  induction l as [|x r IH]; intros Hnd Hinj; cbn; [constructor|].
  inversion Hnd as [|? ? Hni Hr]; subst. constructor.
  - intros Hin. apply in_map_iff in Hin as (y & Hy & Hin). apply Hni.
    rewrite (Hinj x y (or_introl eq_refl) (or_intror Hin) (eq_sym Hy)). exact Hin.
  - apply IH; [exact Hr|]. intros a b Ha Hb. apply Hinj; right; assumption.
Qed.

Lemma firstn_nodup {A} n (l : list A) : NoDup l -> NoDup (firstn n l).
Proof.
  revert l. induction n as [|n IH]; intros [|x r] H; cbn; try constructor; inversion H; subst.
  - intros Hin. apply H2. eapply in_firstn. exact Hin.
  - apply IH. assumption.
Qed.

Lemma in_stale_sorted_iff c from e : In e (stale_sorted c from) <-> In e (c_kvs c) /\ from < v_ver (snd e).
Proof.
  unfold stale_sorted, stale_key_values. rewrite sort_by_ver_in, filter_In, N.ltb_lt. reflexivity.
Qed.

Theorem node_piece_Dinv T n j mv :
  t_wf T -> copy_inv (sn_copy n) -> copy_int T (sn_id n) (sn_copy n) ->
  Hold T (sn_id n) (sn_copy n) -> Compl T (sn_id n) (sn_copy n) ->
  Dinv T (node_piece n j mv).
Proof.
  intros Hwf Hci Hint Hh Hc. set (s := sn_copy n) in *. set (X := sn_id n) in *.
  exists (hz s).
  assert (Hasc : asc_from (sn_from n) (map kvm_of (sorted_of n))) by (apply stale_sorted_strict; exact Hci).
  assert (Hasc0 : asc_from 0 (map kvm_of (sorted_of n))) by (eapply asc_from_weaken; [apply N.le_0_l|exact Hasc]).
  destruct (node_piece_is_prefix n j mv Hasc0) as [Hkvs _]. cbn zeta in Hkvs.
  set (nd := node_piece n j mv) in *.
  assert (Hmax_le : d_max nd <= c_max s).
  { unfold nd, node_piece. cbn [d_max]. destruct (sorted_of n) eqn:Es; [destruct mv; [apply N.le_refl|apply N.le_0_l]|].
    rewrite <- Es. apply last_kv_ver_bound; [apply N.le_0_l|].
    intros m Hm. apply in_map_iff in Hm as (e & <- & He). apply in_firstn in He. apply in_sorted_of in He.
    destruct e as [k v]. apply (ci_range s Hci _ _ He). }
  assert (Hin_kvs : forall m, In m (d_kvs nd) <-> exists e, In e (c_kvs s) /\ sn_from n < v_ver (snd e)
                                        /\ v_ver (snd e) <= d_max nd /\ m = kvm_of e).
  { intros m. rewrite Hkvs, in_map_iff. split.
    - intros (e & <- & He). apply filter_In in He as [He Hle]. apply N.leb_le in Hle.
      unfold sorted_of in He. apply in_stale_sorted_iff in He as [H1 H2]. exists e. auto.
    - intros (e & H1 & H2 & H3 & ->). exists e. split; [reflexivity|]. apply filter_In.
      split; [apply in_stale_sorted_iff; auto|apply N.leb_le; exact H3]. }
  split.
  - unfold hz. lia.
  - unfold nd, node_piece, hz. cbn [d_gc]. fold s. lia.
  - unfold nd, node_piece. cbn [d_id]. fold X. destruct Hint as [_ A B _]. unfold hz. lia.
  - (* distinct keys *)
    unfold nd, node_piece, kv_keys. cbn [d_kvs]. rewrite map_map. apply nodup_map_inj.
    + apply firstn_nodup. unfold sorted_of, stale_sorted, stale_key_values.
      apply sort_by_ver_nodup. apply NoDup_filter. apply ksorted_nodup. apply Hci.
    + intros [k1 v1] [k2 v2] H1 H2 Hk. cbn in Hk. subst k2.
      apply in_firstn in H1. apply in_firstn in H2. apply in_sorted_of in H1. apply in_sorted_of in H2.
      fold s in H1, H2. pose proof (ksorted_in_get _ _ _ (ci_sorted s Hci) H1) as G1.
      pose proof (ksorted_in_get _ _ _ (ci_sorted s Hci) H2) as G2. congruence.
  - intros m Hm. apply Hin_kvs in Hm as (e & H1 & H2 & H3 & ->). cbn. split; assumption.
  - intros m w Hm Hl. apply Hin_kvs in Hm as ([k v] & H1 & _ & _ & ->). cbn [kvm_of m_key fst] in Hl.
    rewrite entry_of_kvm_of. cbn [fst snd]. unfold nd, node_piece in Hl. cbn [d_id] in Hl. fold X in Hl.
    apply (Hh k v w); [apply ksorted_in_get; [apply Hci|exact H1]|exact Hl].
  - intros k w Hl Hf Hm. unfold nd, node_piece in Hl. cbn [d_id] in Hl. fold X in Hl.
    assert (Hfrom : d_from nd = sn_from n) by reflexivity. rewrite Hfrom in Hf.
    destruct (Hc k w Hl ltac:(lia)) as [(v & Hv1 & Hv2)|Hr].
    + left. exists (kvm_of (lw_key w, v)). split.
      * apply Hin_kvs. exists (lw_key w, v). cbn [fst snd].
        assert (Hvv : v_ver v = lw_ver w) by (rewrite <- Hv2; reflexivity).
        split; [apply kget_in; exact Hv1|]. split; [lia|]. split; [lia|reflexivity].
      * rewrite entry_of_kvm_of. exact Hv2.
    + right. unfold nd, node_piece. cbn [d_gc]. fold s. exact Hr.
Qed.

Lemma fold_max_gen (B : N) (l : list (bytes * vv)) : forall g0,
  (forall e, In e l -> v_ver (snd e) <= B) ->
  let g := fold_left (fun g kv => N.max (v_ver (snd kv)) g) l g0 in
  g0 <= g /\ g <= N.max g0 B /\ (forall e, In e l -> v_ver (snd e) <= g).
Proof.
  induction l as [|x r IH]; intros g0 Hl; cbn [fold_left].
  - cbn zeta. split; [apply N.le_refl|]. split; [apply N.le_max_l|intros e []].
  - destruct (IH (N.max (v_ver (snd x)) g0)) as (H1 & H2 & H3); [intros e He; apply Hl; right; exact He|].
    pose proof (Hl x (or_introl eq_refl)) as Hx. cbn zeta in *. split; [lia|]. split; [lia|].
    intros e [<-|He]; [lia|apply H3; exact He].
Qed.

(* the watermark after a GC pass: at least the old one, at most the horizon, above every collected version *)
Lemma fold_max_le now grace c : copy_inv c ->
  let g := c_gc (gc_keys_marked_for_deletion now grace c) in
  c_gc c <= g /\ g <= N.max (c_gc c) (c_max c) /\
  (forall e, In e (filter (fun kv => gc_collectable now grace (snd kv)) (c_kvs c)) -> v_ver (snd e) <= g).
Proof.
  intros Hci. cbn zeta. unfold gc_keys_marked_for_deletion. cbn [c_gc].
  apply (fold_max_gen (c_max c)). intros [k v] He. apply filter_In in He as [He _]. apply (ci_range c Hci _ _ He).
Qed.

(* ---- tombstone GC keeps both invariants ---- *)
Theorem gc_exact_inv T X now grace c :
  copy_inv c -> Hold T X c -> Compl T X c ->
  Hold T X (gc_keys_marked_for_deletion now grace c) /\ Compl T X (gc_keys_marked_for_deletion now grace c).
Proof.
  intros Hci Hh Hc.
  set (c' := gc_keys_marked_for_deletion now grace c).
  pose proof (fold_max_le now grace c Hci) as Hgcb.
  assert (Hget : forall k v, kget k (c_kvs c') = Some v -> kget k (c_kvs c) = Some v).
  { intros k v Hk. apply kget_in in Hk. unfold c', gc_keys_marked_for_deletion in Hk. cbn [c_kvs] in Hk.
    apply filter_In in Hk as [Hk _]. apply ksorted_in_get; [apply Hci|exact Hk]. }
  destruct Hgcb as (Hg1 & Hg2 & Hg3). cbn zeta in Hg1, Hg2, Hg3. fold c' in Hg1, Hg2, Hg3.
  assert (Hmx : c_max c' = c_max c) by reflexivity.
  split.
  - intros k v w Hk Hl. apply Hget in Hk. destruct (Hh k v w Hk Hl) as [->|Hlt]; [left; reflexivity|right].
    unfold hz in *. rewrite Hmx. lia.
  - intros k w Hl Hv. rewrite Hmx in Hv.
    destruct (Hc k w Hl Hv) as [(v & Hv1 & Hv2)|[Hr1 Hr2]].
    + destruct (gc_collectable now grace v) eqn:Ec.
      * right. assert (Hst : mscheduled (lw_st w) = true).
        { rewrite <- Hv2. cbn. unfold gc_collectable, time_of_start_scheduled_for_deletion in Ec.
          destruct (v_st v); [discriminate|reflexivity|reflexivity]. }
        split; [exact Hst|]. rewrite <- Hv2. cbn [entry_of lw_ver].
        apply (Hg3 (lw_key w, v)). apply filter_In. split; [apply kget_in; exact Hv1|exact Ec].
      * left. exists v. split; [|exact Hv2]. unfold c', gc_keys_marked_for_deletion. cbn [c_kvs].
        apply ksorted_in_get; [apply kfilter_sorted; apply Hci|]. apply filter_In.
        split; [apply kget_in; exact Hv1|cbn; rewrite Ec; reflexivity].
    + right. split; [exact Hr1|]. lia.
Qed.

(* ---- the owner's own copy across a local write ---- *)
Definition sync_wrote (T : truth) (X : id) (c : copy) (Y : id) (w : lwrite) : Prop :=
  t_wrote T Y w \/ (Y = X /\ exists k v, In (k, v) (c_kvs c) /\ w = entry_of k v /\ t_max T X < v_ver v).

Theorem owner_write_exact T T' X c c' k0 v0 :
  t_wf T -> copy_inv c -> copy_int T X c -> c_max c = t_max T X -> c_gc c <= c_max c ->
  Hold T X c -> Compl T X c ->
  c_kvs c' = kinsert k0 v0 (c_kvs c) -> c_max c' = c_max c + 1 -> c_gc c' = c_gc c -> v_ver v0 = c_max c + 1 ->
  (forall w, t_wrote T' X w <-> sync_wrote T X c' X w) ->
  Hold T' X c' /\ Compl T' X c'.
Proof.
  intros Hwf Hci Hint Hmax Hgc Hh Hc Hkvs Hmax' Hgc' Hv0 Hw'.
  set (w0 := entry_of k0 v0).
  assert (Hfresh : forall w, t_wrote T' X w -> t_wrote T X w \/ w = w0).
  { intros w Hw. apply Hw' in Hw as [Hw|(_ & k & v & Hin & -> & Hlt)]; [left; exact Hw|right].
    rewrite Hkvs in Hin. apply in_kinsert in Hin as [E|Hin]; [injection E as -> ->; reflexivity|].
    destruct (ci_range c Hci _ _ Hin). lia. }
  assert (Hw0 : t_wrote T' X w0).
  { apply Hw'. right. split; [reflexivity|]. exists k0, v0. rewrite Hkvs.
    split; [apply kget_in; apply kget_kinsert_same|]. split; [reflexivity|lia]. }
  assert (Hold_w : forall w, t_wrote T X w -> t_wrote T' X w) by (intros w Hw; apply Hw'; left; exact Hw).
  assert (Hrange : forall w, t_wrote T X w -> lw_ver w <= c_max c).
  { intros w Hw. destruct (twf_range T Hwf X w Hw). lia. }
  (* latest writes under the new truth *)
  assert (Hl0 : forall w, latest T' X k0 w -> w = w0).
  { intros w (Hw & Hk & Hm). destruct (Hfresh w Hw) as [Hold_|E]; [|exact E].
    pose proof (Hm w0 Hw0 eq_refl) as Hle. pose proof (Hrange w Hold_). cbn in Hle. lia. }
  assert (Hlother : forall k w, k <> k0 -> latest T' X k w -> latest T X k w).
  { intros k w Hne (Hw & Hk & Hm). destruct (Hfresh w Hw) as [Hold_|E]; [|subst w; cbn in Hk; congruence].
    split; [exact Hold_|]. split; [exact Hk|]. intros w' Hw'' Hk'. apply Hm; [apply Hold_w; exact Hw''|exact Hk']. }
  split.
  - intros k v w Hk Hl. rewrite Hkvs in Hk.
    destruct (list_eq_dec Byte.byte_eq_dec k0 k) as [<-|Hne].
    + rewrite kget_kinsert_same in Hk. injection Hk as <-. left. apply Hl0. exact Hl.
    + rewrite kget_kinsert_other in Hk by exact Hne.
      assert (Hl' : latest T X k w) by (apply Hlother; [congruence|exact Hl]).
      destruct (Hh k v w Hk Hl') as [E|Hlt]; [left; exact E|].
      exfalso. unfold hz in Hlt. pose proof (Hrange w (proj1 Hl')). lia.
  - intros k w Hl Hv. unfold holds. rewrite Hkvs.
    destruct (list_eq_dec Byte.byte_eq_dec k0 k) as [<-|Hne].
    + left. rewrite (Hl0 w Hl). exists v0. cbn [w0 entry_of lw_key]. split; [apply kget_kinsert_same|reflexivity].
    + assert (Hl' : latest T X k w) by (apply Hlother; [congruence|exact Hl]).
      pose proof (latest_key _ _ _ _ Hl') as Hkw.
      destruct (Hc k w Hl' (Hrange w (proj1 Hl'))) as [(v & Hv1 & Hv2)|Hr].
      * left. exists v. split; [|exact Hv2]. rewrite kget_kinsert_other by (rewrite Hkw; exact Hne). exact Hv1.
      * right. rewrite Hgc'. exact Hr.
Qed.

(* the shape of an effective local write *)
Definition write_shape (c c' : copy) : Prop :=
  c' = c \/ exists k0 v0, c_kvs c' = kinsert k0 v0 (c_kvs c) /\ c_max c' = c_max c + 1 /\ c_gc c' = c_gc c
                          /\ v_ver v0 = c_max c + 1 /\ c_hb c' = c_hb c.

Lemma svv_shape c k v : copy_inv c -> v_ver v = c_max c + 1 -> write_shape c (fst (set_versioned_value c k v)).
Proof.
  intros Hci Hv. right. exists k, v. unfold set_versioned_value.
  assert (Hmx : N.max (v_ver v) (c_max c) = c_max c + 1) by lia.
  destruct (kget k (c_kvs c)) as [old|] eqn:E.
  - assert (Hle : v_ver v <=? v_ver old = false).
    { apply N.leb_gt. apply kget_in in E. destruct (ci_range c Hci _ _ E). lia. }
    rewrite Hle. cbn [fst c_kvs c_max c_gc c_hb]. rewrite Hmx. auto.
  - cbn [fst c_kvs c_max c_gc c_hb]. rewrite Hmx. auto.
Qed.

Lemma lwrite_shape now c k v : copy_inv c ->
  write_shape c (fst (set c k v)) /\ write_shape c (fst (set_with_ttl now c k v)) /\
  write_shape c (delete now c k) /\ write_shape c (delete_after_ttl now c k).
Proof.
  intros Hci. split; [|split; [|split]].
  - unfold set. destruct (match get_versioned c k with Some _ => _ | None => _ end); [left; reflexivity|].
    apply svv_shape; [exact Hci|reflexivity].
  - unfold set_with_ttl. destruct (match get_versioned c k with Some _ => _ | None => _ end); [left; reflexivity|].
    apply svv_shape; [exact Hci|reflexivity].
  - unfold delete. destruct (kget k (c_kvs c)); [|left; reflexivity]. right. eexists k, _. cbn. auto.
  - unfold delete_after_ttl. destruct (kget k (c_kvs c)); [|left; reflexivity]. right. eexists k, _. cbn. auto.
Qed.
