(* HbReach.v — along every step of the global relation, from every reachable state, the heartbeat a
   node stores for a member it keeps holding never decreases (C11 over schedules): the stored value
   is the highest the node has observed for as long as it holds the copy — through local writes,
   tombstone GC, the node's own heartbeats, clock advances, liveness evaluations and every message
   (resetting deltas included, fix F-7).  A copy disappears only when a liveness evaluation removes
   the member (C12 then remembers the heartbeat held at removal). *)
From Coq Require Import Lia.
From ChitchatModel Require Import Base SMap Ids Bytes Params NodeState Stream DeltaWire Message Cluster
  FD Chitchat World SMap_lemmas NodeState_lemmas KV_lemmas Builder_lemmas Cluster_lemmas Chitchat_lemmas
  Inv Compute_lemmas NodeInv Liveness_lemmas Truth NodeTruth Weak Exact Reach Quiet HbMono.

Lemma gc_keys_hb now n : node_hb_le n (gc_keys now n).
Proof.
  intros X c Hc. unfold gc_keys, cluster_gc. cbn [nd_cs with_cs cs_nodes].
  rewrite nm_get_map_snd, Hc. cbn [option_map]. eexists. split; [reflexivity|].
  unfold gc_keys_marked_for_deletion. cbn [c_hb]. lia.
Qed.

Lemma on_own_hb now n f : node_inv n -> lwrite_op now f -> node_hb_le n (fst (on_own n f)).
Proof.
  intros Hinv Hf X c Hc. unfold on_own.
  set (cs := node_state_mut_or_init (nd_cs n) (self_id n)).
  assert (Hcs : nm_get X (cs_nodes cs) = Some c) by (unfold cs; rewrite mut_or_init_get, Hc; reflexivity).
  destruct (nm_get (self_id n) (cs_nodes cs)) as [c0|] eqn:E0; [|exists c; split; [exact Hc|lia]].
  destruct (f c0) as [c0' evs] eqn:Ef. cbn [fst nd_cs with_cs cs_nodes].
  destruct (id_dec (self_id n) X) as [<-|Hne].
  - rewrite nm_get_insert_same. rewrite Hcs in E0. injection E0 as <-. exists c0'. split; [reflexivity|].
    assert (Hci : copy_inv c) by (eapply (cli_copies _ Hinv); apply nm_get_in; exact Hc).
    assert (Hws : write_shape c c0').
    { replace c0' with (fst (f c)) by (rewrite Ef; reflexivity).
      destruct Hf as [k v|k v|k|k]; cbn [fst].
      - exact (proj1 (lwrite_shape now c k v Hci)).
      - exact (proj1 (proj2 (lwrite_shape now c k v Hci))).
      - exact (proj1 (proj2 (proj2 (lwrite_shape now c k [] Hci)))).
      - exact (proj2 (proj2 (proj2 (lwrite_shape now c k [] Hci)))). }
    destruct Hws as [->|(k0 & v0 & _ & _ & _ & _ & E)]; [lia|rewrite E; lia].
  - rewrite nm_get_insert_other by exact Hne. exists c. split; [exact Hcs|lia].
Qed.

Section Hb.
  Variable zc : bytes -> option bytes.
  Hypothesis zc_len : forall b c, zc b = Some c -> len c <= len b.
  Variable strict : bool.

  Definition hb_kept_or_removed (n n' : node) : Prop :=
    forall X c, nm_get X (cs_nodes (nd_cs n)) = Some c ->
      nm_get X (cs_nodes (nd_cs n')) = None \/
      exists c', nm_get X (cs_nodes (nd_cs n')) = Some c' /\ c_hb c <= c_hb c'.

  Theorem heartbeats_monotone_along_steps : forall g g',
    reachable zc strict g -> gstep zc strict g g' ->
    forall a n, node_at g a = Some n ->
      exists n', node_at g' a = Some n' /\ hb_kept_or_removed n n' /\
        (* and removal happens only in a liveness evaluation *)
        ((forall b nb oracle, g' <> mkG (with_nodes (g_w g) (set_nth (w_nodes (g_w g)) b (update_nodes_liveness (w_now (g_w g)) nb oracle))) (g_sent g) (g_T g)) ->
         node_hb_le n n').
  Proof.
    intros g g' Hr Hstep a n Ha.
    destruct (reachable_inv zc zc_len strict g Hr) as [Hg _].
    assert (Hle_kept : forall n', node_hb_le n n' -> hb_kept_or_removed n n').
    { intros n' H X c Hc. right. exact (H X c Hc). }
    assert (Hset : forall b m m', node_at g b = Some m ->
              forall sent T, exists n', node_at (mkG (with_nodes (g_w g) (set_nth (w_nodes (g_w g)) b m')) sent T) a = Some n'
                                        /\ ((a = b /\ n' = m' /\ n = m) \/ (a <> b /\ n' = n))).
    { intros b m m' Hb sent T. unfold node_at in *. cbn [g_w with_nodes w_nodes].
      destruct (Nat.eq_dec b a) as [->|Hne].
      - exists m'. rewrite (nth_set_nth_same _ _ _ _ Hb). split; [reflexivity|]. left. rewrite Ha in Hb. injection Hb as <-. auto.
      - exists n. rewrite nth_set_nth_other by exact Hne. split; [exact Ha|]. right. auto. }
    assert (Hrefl : hb_kept_or_removed n n /\ ((forall b nb oracle, g' <> mkG (with_nodes (g_w g) (set_nth (w_nodes (g_w g)) b (update_nodes_liveness (w_now (g_w g)) nb oracle))) (g_sent g) (g_T g)) -> node_hb_le n n)).
    { split; [apply Hle_kept; apply node_hb_le_refl|intros _; apply node_hb_le_refl]. }
    destruct Hstep.
    - exists n. split; [|exact Hrefl].
      unfold node_at in *. cbn [g_w with_nodes w_nodes]. rewrite nth_error_app1; [exact Ha|]. apply nth_error_Some. congruence.
    - destruct (Hset a0 n0 (fst (on_own n0 f)) H (g_sent g) (sync_truth (g_T g) (self_id n0) (own_copy (fst (on_own n0 f)))))
        as (n' & Hn' & Hcase). exists n'. split; [exact Hn'|].
      destruct Hcase as [(Ea & En & Em)|(Hne & En)]; subst; [|exact Hrefl].
      assert (L : node_hb_le n0 (fst (on_own n0 f))) by (eapply on_own_hb; [apply (gi_nodes g Hg a0 n0 H)|exact H0]).
      split; [apply Hle_kept; exact L|intros _; exact L].
    - destruct (Hset a0 n0 (gc_keys (w_now (g_w g)) n0) H (g_sent g) (g_T g)) as (n' & Hn' & Hcase). exists n'. split; [exact Hn'|].
      destruct Hcase as [(Ea & En & Em)|(Hne & En)]; subst; [|exact Hrefl].
      split; [apply Hle_kept; apply gc_keys_hb|intros _; apply gc_keys_hb].
    - destruct (Hset a0 n0 (update_self_heartbeat n0) H (g_sent g) (bump_hb (g_T g) (self_id n0))) as (n' & Hn' & Hcase). exists n'. split; [exact Hn'|].
      destruct Hcase as [(Ea & En & Em)|(Hne & En)]; subst; [|exact Hrefl].
      split; [apply Hle_kept; apply update_self_heartbeat_hb|intros _; apply update_self_heartbeat_hb].
    - exists n. split; [exact Ha|exact Hrefl].
    - destruct (Hset a0 n0 (update_nodes_liveness (w_now (g_w g)) n0 oracle) H (g_sent g) (g_T g)) as (n' & Hn' & Hcase). exists n'. split; [exact Hn'|].
      destruct Hcase as [(Ea & En & Em)|(Hne & En)]; subst; [|exact Hrefl].
      split.
      + intros X c Hc. unfold update_nodes_liveness. cbv zeta. destruct (fd_garbage_collect _ _ _) as [f2 col]. cbn [nd_cs].
        rewrite fold_remove_node_get by (apply (gi_nodes g Hg a0 n0 H)).
        destruct (in_ids X col && negb (id_eqb X (self_id n0))); [left; reflexivity|].
        right. exists c. split; [exact Hc|lia].
      + intros Hnot. exfalso. apply (Hnot a0 n0 oracle). reflexivity.
    - exists n. split; [exact Ha|exact Hrefl].
    - destruct (Hset a0 n0 n' H (opt_cons reply (g_sent g)) (bump_hb (g_T g) (self_id n0))) as (n'' & Hn'' & Hcase). exists n''. split; [exact Hn''|].
      destruct Hcase as [(Ea & En & Em)|(Hne & En)]; subst; [|exact Hrefl].
      assert (L : node_hb_le n0 n') by (eapply (process_message_hb zc); [apply (gi_sent g Hg m H0)|exact H2]).
      split; [apply Hle_kept; exact L|intros _; exact L].
  Qed.
End Hb.
