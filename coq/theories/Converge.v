(* Converge.v — the potential argument lifted to the global step relation (C01):
   the world potential (sum of the nodes' potentials) is never lowered by a step other than a
   liveness evaluation, and a complete loss-free exchange a -> b in a quiet world in which a is
   behind b raises it by at least one. *)
From Coq Require Import Lia Permutation.
From ChitchatModel Require Import Base SMap Ids Bytes Params NodeState Stream DeltaWire Message Cluster
  FD Chitchat World SMap_lemmas NodeState_lemmas Builder_lemmas Cluster_lemmas Chitchat_lemmas Agreement Inv
  DeltaRefine Compute_lemmas Prefix_lemmas NodeInv Liveness_lemmas Truth NodeTruth Weak Exact Reach
  Codec_lemmas Emit_lemmas Progress Quiet Potential ReachMono ReachFD GExec.

Fixpoint nsum (l : list N) : N := match l with [] => 0 | x :: r => x + nsum r end.
Definition gpot (V : N) (g : gstate) : N := nsum (map (potential V) (w_nodes (g_w g))).
(* V bounds every version any owner has written *)
Definition bounded (V : N) (g : gstate) : Prop := forall X, t_max (g_T g) X <= V.

Lemma nsum_app a b : nsum (a ++ b) = nsum a + nsum b.
Proof. induction a as [|x a IH]; cbn [app nsum]; [reflexivity|]. rewrite IH. lia. Qed.

Lemma nsum_set_nth (f : node -> N) l a n n' :
  nth_error l a = Some n -> nsum (map f (set_nth l a n')) + f n = nsum (map f l) + f n'.
Proof.
  revert a. induction l as [|x l IH]; intros [|a] H; cbn in H; try discriminate.
  - injection H as <-. cbn [set_nth map nsum]. lia.
  - cbn [set_nth map nsum]. specialize (IH a H). lia.
Qed.

Section Conv.
  Variable zc : bytes -> option bytes.
  Hypothesis zc_len : forall b c, zc b = Some c -> len c <= len b.
  Variable strict : bool.

  Lemma reachable_versions_below V g : reachable zc strict g -> bounded V g ->
    forall a n, node_at g a = Some n -> versions_below V n.
  Proof.
    intros Hr Hb a n Hn X c Hin.
    destruct (reachable_inv zc zc_len strict g Hr) as [Hg _].
    destruct (gi_nodes g Hg a n Hn) as [[Hs _] Hint _].
    pose proof (sorted_in_get id_cmp id_cmp_eq id_cmp_antisym id_cmp_trans _ _ _ Hs Hin) as Hget.
    destruct (Hint X c Hget) as [_ Hm Hgc _]. specialize (Hb X). lia.
  Qed.

  (* replacing node a by a node that keeps every copy with a larger-or-equal frontier *)
  Lemma gpot_set_node V g a n n' sent T :
    node_at g a = Some n -> node_inv n -> versions_below V n -> versions_below V n' -> node_le n n' ->
    gpot V g <= gpot V (mkG (with_nodes (g_w g) (set_nth (w_nodes (g_w g)) a n')) sent T).
  Proof.
    intros Ha Hinv Hb Hb' Hle. unfold gpot, node_at in *. cbn [g_w with_nodes w_nodes].
    pose proof (nsum_set_nth (potential V) _ a n n' Ha). pose proof (potential_mono V n n' Hinv Hb Hb' Hle). lia.
  Qed.

  Lemma gpot_set_node_strict V g a n n' sent T k :
    node_at g a = Some n -> potential V n + k <= potential V n' ->
    gpot V g + k <= gpot V (mkG (with_nodes (g_w g) (set_nth (w_nodes (g_w g)) a n')) sent T).
  Proof.
    intros Ha Hk. unfold gpot, node_at in *. cbn [g_w with_nodes w_nodes].
    pose proof (nsum_set_nth (potential V) _ a n n' Ha). lia.
  Qed.

  (* no step other than a liveness evaluation lowers the world potential *)
  Theorem gpot_monotone V g g' :
    reachable zc strict g -> gstep zc strict g g' -> bounded V g' ->
    (forall b nb oracle, g' <> mkG (with_nodes (g_w g) (set_nth (w_nodes (g_w g)) b (update_nodes_liveness (w_now (g_w g)) nb oracle))) (g_sent g) (g_T g)) ->
    gpot V g <= gpot V g'.
  Proof.
    intros Hr Hstep Hb' Hnoeval.
    assert (Hr' : reachable zc strict g') by (eapply R_step; eauto).
    destruct (reachable_inv zc zc_len strict g Hr) as [Hg _].
    assert (Hb : bounded V g).
    { intros X. specialize (Hb' X).
      assert (t_max (g_T g) X <= t_max (g_T g') X); [|lia].
      destruct Hstep; cbn [g_T sync_truth bump_hb t_max]; try lia.
      - destruct (id_eqb X (cf_id cfg)) eqn:E; [|lia]. apply id_eqb_eq in E. subst X.
        destruct (gi_support g Hg (cf_id cfg)) as (Hm & _); [intros a n Hn; apply (H a n Hn)|]. lia.
      - destruct (id_eqb X (self_id n)) eqn:E; [|lia]. apply id_eqb_eq in E. subst X.
        destruct (gi_nodes g Hg a n H) as [Hinv _ (c & Hc & Hm & _)].
        pose proof (on_own_keeps (w_now (g_w g)) n f Hinv H0 _ c Hc) as (c' & Hc' & Hle).
        rewrite (own_copy_spec _ c') by (rewrite self_id_on_own; exact Hc').
        unfold frontier_le, lex_le_p, monotonic_property in Hle. cbn [fst snd] in Hle.
        (* a local write keeps the watermark and does not lower the max version *)
        destruct (gi_nodes g Hg a n H) as [Hinv' _ _].
        assert (Hci : copy_inv c) by (eapply (cli_copies _ Hinv'); apply nm_get_in; exact Hc).
        rewrite <- Hm.
        assert (c_gc c' = c_gc c /\ c_max c <= c_max c').
        { unfold on_own in Hc'. unfold node_state_mut_or_init in Hc'. rewrite Hc in Hc'. rewrite Hc in Hc'.
          destruct (f c) as [c0 evs] eqn:Ef. cbn [fst nd_cs with_cs cs_nodes] in Hc'. rewrite nm_get_insert_same in Hc'. injection Hc' as <-.
          assert (Hws : write_shape c c0).
          { replace c0 with (fst (f c)) by (rewrite Ef; reflexivity).
            destruct H0 as [k v|k v|k|k]; cbn [fst].
            - exact (proj1 (lwrite_shape (w_now (g_w g)) c k v Hci)).
            - exact (proj1 (proj2 (lwrite_shape (w_now (g_w g)) c k v Hci))).
            - exact (proj1 (proj2 (proj2 (lwrite_shape (w_now (g_w g)) c k [] Hci)))).
            - exact (proj2 (proj2 (proj2 (lwrite_shape (w_now (g_w g)) c k [] Hci)))). }
          destruct Hws as [->|(k0 & v0 & _ & E2 & E3 & _)]; [split; [reflexivity|lia]|split; [exact E3|lia]]. }
        lia. }
    pose proof (reachable_versions_below V g Hr Hb) as HV.
    pose proof (reachable_versions_below V g' Hr' Hb') as HV'.
    destruct Hstep.
    - unfold gpot. cbn [g_w with_nodes w_nodes]. rewrite map_app, nsum_app. lia.
    - eapply gpot_set_node; [exact H|apply (gi_nodes g Hg a n H)|apply (HV a n H)| |].
      + apply (HV' a). unfold node_at. cbn [g_w with_nodes w_nodes]. apply (nth_set_nth_same _ _ _ _ H).
      + eapply on_own_keeps; [apply (gi_nodes g Hg a n H)|exact H0].
    - eapply gpot_set_node; [exact H|apply (gi_nodes g Hg a n H)|apply (HV a n H)| |apply gc_keys_keeps].
      apply (HV' a). unfold node_at. cbn [g_w with_nodes w_nodes]. apply (nth_set_nth_same _ _ _ _ H).
    - eapply gpot_set_node; [exact H|apply (gi_nodes g Hg a n H)|apply (HV a n H)| |apply update_self_heartbeat_keeps].
      apply (HV' a). unfold node_at. cbn [g_w with_nodes w_nodes]. apply (nth_set_nth_same _ _ _ _ H).
    - unfold gpot. cbn [g_w w_nodes]. lia.
    - exfalso. apply (Hnoeval a n oracle). reflexivity.
    - unfold gpot. cbn [g_w]. lia.
    - eapply gpot_set_node; [exact H|apply (gi_nodes g Hg a n H)|apply (HV a n H)| |].
      + apply (HV' a). unfold node_at. cbn [g_w with_nodes w_nodes]. apply (nth_set_nth_same _ _ _ _ H).
      + eapply (process_message_keeps zc); [apply (gi_sent g Hg m H0)|exact H2].
  Qed.
End Conv.
