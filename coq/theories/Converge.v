(* Converge.v — the potential argument lifted to the global step relation (C01):
   the world potential (sum of the nodes' potentials) is never lowered by a step other than a
   liveness evaluation, and a complete loss-free exchange a -> b in a quiet world in which a is
   behind b raises it by at least one. *)
From Coq Require Import Lia Permutation.
From ChitchatModel Require Import Base SMap Ids Bytes Params NodeState Stream DeltaWire Message Cluster
  FD Chitchat World SMap_lemmas NodeState_lemmas Builder_lemmas Cluster_lemmas Chitchat_lemmas Agreement Inv
  DeltaRefine Compute_lemmas Prefix_lemmas NodeInv Liveness_lemmas Truth NodeTruth Weak Exact Reach
  Codec_lemmas Emit_lemmas Progress Quiet Potential ReachMono ReachFD GExec.

Fixpoint nsum (l : list N) : N := match l with [] => 0 | x :: r => x + nsum r end.
Definition gpot (V : N) (g : gstate) : N := nsum (map (potential V) (w_nodes (g_w g))).
(* V bounds every version any owner has written *)
Definition bounded (V : N) (g : gstate) : Prop := forall X, t_max (g_T g) X <= V.

Lemma nsum_app a b : nsum (a ++ b) = nsum a + nsum b.
Proof. induction a as [|x a IH]; cbn [app nsum]; [reflexivity|]. rewrite IH. lia. Qed.

Lemma nsum_set_nth (f : node -> N) l a n n' :
  nth_error l a = Some n -> nsum (map f (set_nth l a n')) + f n = nsum (map f l) + f n'.
Proof.
  revert a. induction l as [|x l IH]; intros [|a] H; cbn in H; try discriminate.
  - injection H as <-. cbn [set_nth map nsum]. lia.
  - cbn [set_nth map nsum]. specialize (IH a H). lia.
Qed.

Section Conv.
  Variable zc : bytes -> option bytes.
  Hypothesis zc_len : forall b c, zc b = Some c -> len c <= len b.
  Variable strict : bool.

  Lemma reachable_versions_below V g : reachable zc strict g -> bounded V g ->
    forall a n, node_at g a = Some n -> versions_below V n.
  Proof.
    intros Hr Hb a n Hn X c Hin.
    destruct (reachable_inv zc zc_len strict g Hr) as [Hg _].
    destruct (gi_nodes g Hg a n Hn) as [[Hs _] Hint _].
    pose proof (sorted_in_get id_cmp id_cmp_eq id_cmp_antisym id_cmp_trans _ _ _ Hs Hin) as Hget.
    destruct (Hint X c Hget) as [_ Hm Hgc _]. specialize (Hb X). lia.
  Qed.

  (* replacing node a by a node that keeps every copy with a larger-or-equal frontier *)
  Lemma gpot_set_node V g a n n' sent T :
    node_at g a = Some n -> node_inv n -> versions_below V n -> versions_below V n' -> node_le n n' ->
    gpot V g <= gpot V (mkG (with_nodes (g_w g) (set_nth (w_nodes (g_w g)) a n')) sent T).
  Proof.
    intros Ha Hinv Hb Hb' Hle. unfold gpot, node_at in *. cbn [g_w with_nodes w_nodes].
    pose proof (nsum_set_nth (potential V) _ a n n' Ha). pose proof (potential_mono V n n' Hinv Hb Hb' Hle). lia.
  Qed.

  Lemma gpot_set_node_strict V g a n n' sent T k :
    node_at g a = Some n -> potential V n + k <= potential V n' ->
    gpot V g + k <= gpot V (mkG (with_nodes (g_w g) (set_nth (w_nodes (g_w g)) a n')) sent T).
  Proof.
    intros Ha Hk. unfold gpot, node_at in *. cbn [g_w with_nodes w_nodes].
    pose proof (nsum_set_nth (potential V) _ a n n' Ha). lia.
  Qed.

  (* no step other than a liveness evaluation lowers the world potential *)
  Theorem gpot_monotone V g g' :
    reachable zc strict g -> gstep zc strict g g' -> bounded V g' ->
    (forall b nb oracle, g' <> mkG (with_nodes (g_w g) (set_nth (w_nodes (g_w g)) b (update_nodes_liveness (w_now (g_w g)) nb oracle))) (g_sent g) (g_T g)) ->
    gpot V g <= gpot V g'.
  Proof.
    intros Hr Hstep Hb' Hnoeval.
    assert (Hr' : reachable zc strict g') by (eapply R_step; eauto).
    destruct (reachable_inv zc zc_len strict g Hr) as [Hg _].
    assert (Hb : bounded V g).
    { intros X. specialize (Hb' X).
      assert (t_max (g_T g) X <= t_max (g_T g') X); [|lia].
      destruct Hstep; cbn [g_T sync_truth bump_hb t_max]; try lia.
      - destruct (id_eqb X (cf_id cfg)) eqn:E; [|lia]. apply id_eqb_eq in E. subst X.
        destruct (gi_support g Hg (cf_id cfg)) as (Hm & _); [intros a n Hn; apply (H a n Hn)|]. lia.
      - destruct (id_eqb X (self_id n)) eqn:E; [|lia]. apply id_eqb_eq in E. subst X.
        destruct (gi_nodes g Hg a n H) as [Hinv _ (c & Hc & Hm & _)].
        pose proof (on_own_keeps (w_now (g_w g)) n f Hinv H0 _ c Hc) as (c' & Hc' & Hle).
        rewrite (own_copy_spec _ c') by (rewrite self_id_on_own; exact Hc').
        unfold frontier_le, lex_le_p, monotonic_property in Hle. cbn [fst snd] in Hle.
        (* a local write keeps the watermark and does not lower the max version *)
        destruct (gi_nodes g Hg a n H) as [Hinv' _ _].
        assert (Hci : copy_inv c) by (eapply (cli_copies _ Hinv'); apply nm_get_in; exact Hc).
        rewrite <- Hm.
        assert (c_gc c' = c_gc c /\ c_max c <= c_max c').
        { unfold on_own in Hc'. unfold node_state_mut_or_init in Hc'. rewrite Hc in Hc'. rewrite Hc in Hc'.
          destruct (f c) as [c0 evs] eqn:Ef. cbn [fst nd_cs with_cs cs_nodes] in Hc'. rewrite nm_get_insert_same in Hc'. injection Hc' as <-.
          assert (Hws : write_shape c c0).
          { replace c0 with (fst (f c)) by (rewrite Ef; reflexivity).
            destruct H0 as [k v|k v|k|k]; cbn [fst].
            - exact (proj1 (lwrite_shape (w_now (g_w g)) c k v Hci)).
            - exact (proj1 (proj2 (lwrite_shape (w_now (g_w g)) c k v Hci))).
            - exact (proj1 (proj2 (proj2 (lwrite_shape (w_now (g_w g)) c k [] Hci)))).
            - exact (proj2 (proj2 (proj2 (lwrite_shape (w_now (g_w g)) c k [] Hci)))). }
          destruct Hws as [->|(k0 & v0 & _ & E2 & E3 & _)]; [split; [reflexivity|lia]|split; [exact E3|lia]]. }
        lia. }
    pose proof (reachable_versions_below V g Hr Hb) as HV.
    pose proof (reachable_versions_below V g' Hr' Hb') as HV'.
    destruct Hstep.
    - unfold gpot. cbn [g_w with_nodes w_nodes]. rewrite map_app, nsum_app. lia.
    - eapply gpot_set_node; [exact H|apply (gi_nodes g Hg a n H)|apply (HV a n H)| |].
      + apply (HV' a). unfold node_at. cbn [g_w with_nodes w_nodes]. apply (nth_set_nth_same _ _ _ _ H).
      + eapply on_own_keeps; [apply (gi_nodes g Hg a n H)|exact H0].
    - eapply gpot_set_node; [exact H|apply (gi_nodes g Hg a n H)|apply (HV a n H)| |apply gc_keys_keeps].
      apply (HV' a). unfold node_at. cbn [g_w with_nodes w_nodes]. apply (nth_set_nth_same _ _ _ _ H).
    - eapply gpot_set_node; [exact H|apply (gi_nodes g Hg a n H)|apply (HV a n H)| |apply update_self_heartbeat_keeps].
      apply (HV' a). unfold node_at. cbn [g_w with_nodes w_nodes]. apply (nth_set_nth_same _ _ _ _ H).
    - unfold gpot. cbn [g_w w_nodes]. lia.
    - exfalso. apply (Hnoeval a n oracle). reflexivity.
    - unfold gpot. cbn [g_w]. lia.
    - eapply gpot_set_node; [exact H|apply (gi_nodes g Hg a n H)|apply (HV a n H)| |].
      + apply (HV' a). unfold node_at. cbn [g_w with_nodes w_nodes]. apply (nth_set_nth_same _ _ _ _ H).
      + eapply (process_message_keeps zc); [apply (gi_sent g Hg m H0)|exact H2].
  Qed.

  (* ---------- a complete loss-free exchange a -> b, as four global steps ---------- *)
  Definition hs_ops (a b : nat) (o1 o2 o3 : list id) : list gop :=
    [OSyn a; ODeliver b 0%nat o1; ODeliver a 0%nat o2; ODeliver b 0%nat o3].

  Lemma syn_reply_shape now n cl dg ord n' r e :
    process_message zc now n (Syn cl dg) ord = Ok (n', r, e) -> cl = cf_cluster (nd_cfg n) ->
    exists dgb x, r = Some (SynAck dgb x).
  Proof.
    unfold process_message. intros H ->.
    assert (E : bytes_eqb (cf_cluster (nd_cfg n)) (cf_cluster (nd_cfg (update_self_heartbeat n))) = true)
      by (apply bytes_eqb_eq; reflexivity).
    rewrite E in H. cbn [negb] in H. destruct (P_MAX_UDP <? _); [discriminate|].
    destruct (compute_delta zc _ dg _ _ ord); cbn [rmap] in H; try discriminate.
    injection H as _ <- _. eauto.
  Qed.

  Lemma synack_reply_shape now n dg x ord n' r e :
    process_message zc now n (SynAck dg x) ord = Ok (n', r, e) -> exists y, r = Some (Ack y).
  Proof.
    unfold process_message. intros H.
    destruct (process_delta now _ x) as [[n2 evs2]| |]; cbn [rbind] in H; try discriminate.
    destruct (compute_delta zc _ dg _ _ ord); cbn [rmap] in H; try discriminate.
    injection H as _ <- _. eauto.
  Qed.

  Lemma gexec_syn g a g1 : gexec zc strict g (OSyn a) = Some g1 ->
    exists na, node_at g a = Some na /\ g1 = mkG (g_w g) (create_syn_message (w_now (g_w g)) na :: g_sent g) (g_T g).
  Proof. cbn [gexec]. destruct (node_at g a) as [na|]; [|discriminate]. intros [= <-]. eauto. Qed.

  Lemma gexec_deliver g a ord g1 m rest : gexec zc strict g (ODeliver a 0%nat ord) = Some g1 -> g_sent g = m :: rest ->
    exists n n' reply evs, node_at g a = Some n /\
      process_message zc (w_now (g_w g)) n m ord = Ok (n', reply, evs) /\
      g1 = mkG (with_nodes (g_w g) (set_nth (w_nodes (g_w g)) a n')) (opt_cons reply (g_sent g)) (bump_hb (g_T g) (self_id n)).
  Proof.
    cbn [gexec]. intros H Hs. rewrite Hs in H. cbn [nth_error] in H.
    destruct (node_at g a) as [n|]; [|discriminate].
    destruct (strict && msg_weak _ n m); [discriminate|].
    destruct (process_message zc _ n m ord) as [[[n' reply] evs]| |] eqn:Ep; try discriminate.
    injection H as <-. exists n, n', reply, evs. rewrite Hs. auto.
  Qed.

  (* what a same-cluster SYN does: the node after heartbeat reporting, its digest, the computed delta *)
  Lemma syn_ok_inv now n dg ord n' dgb x e :
    process_message zc now n (Syn (cf_cluster (nd_cfg n)) dg) ord = Ok (n', Some (SynAck dgb x), e) ->
    let n1 := report_heartbeats_in_digest now (update_self_heartbeat n) dg in
    n' = n1 /\ dgb = compute_digest (nd_cs n1) (scheduled now n1) /\
    compute_delta zc (nd_cs n1) dg (P_MAX_UDP - (P_RESERVE_SYNACK + digest_len dgb)) (scheduled now n1) ord = Ok x.
  Proof.
    unfold process_message. intros H.
    assert (E : bytes_eqb (cf_cluster (nd_cfg n)) (cf_cluster (nd_cfg (update_self_heartbeat n))) = true)
      by (apply bytes_eqb_eq; reflexivity).
    rewrite E in H. cbn [negb] in H. cbv zeta. destruct (P_MAX_UDP <? _); [discriminate|].
    destruct (compute_delta zc _ dg _ _ ord) as [y| |] eqn:Ey; cbn [rmap] in H; try discriminate.
    injection H as <- <- <- _. auto.
  Qed.

  Theorem lagging_exchange_raises V g a b o1 o2 o3 g' na nb X cb :
    reachable zc strict g -> bounded V g -> a <> b ->
    node_at g a = Some na -> node_at g b = Some nb ->
    no_memory na -> scheduled (w_now (g_w g)) na = [] ->
    cf_cluster (nd_cfg na) = cf_cluster (nd_cfg nb) ->
    let now := w_now (g_w g) in
    let dg := compute_digest (nd_cs na) [] in
    let b1 := report_heartbeats_in_digest now (update_self_heartbeat nb) dg in
    let sched := scheduled now b1 in
    let mtu := P_MAX_UDP - (P_RESERVE_SYNACK + digest_len (compute_digest (nd_cs b1) sched)) in
    (* a is behind b on a member b does not quarantine *)
    nm_get X (cs_nodes (nd_cs nb)) = Some cb -> in_ids X sched = false ->
    (match nm_get X (cs_nodes (nd_cs na)) with Some ca => c_max ca | None => 0 end) < c_max cb ->
    (* the digest leaves room for one member header and one operation *)
    (forall n rest, arrange o1 (stale_nodes (nd_cs b1) dg sched) = Some (n :: rest) -> P_MIN_MTU <= mtu /\ room mtu n) ->
    gfold zc strict g (hs_ops a b o1 o2 o3) = Some g' ->
    gpot V g + 1 <= gpot V g'.
  Proof.
    intros Hr HbV Hab Ha Hb Hmem Hsch Hcl now dg b1 sched mtu HX HXs Hlt Hroom Hrun.
    unfold hs_ops in Hrun. cbn [gfold] in Hrun.
    destruct (gexec zc strict g (OSyn a)) as [g1|] eqn:E1; [|discriminate].
    destruct (gexec zc strict g1 (ODeliver b 0 o1)) as [g2|] eqn:E2; [|discriminate].
    destruct (gexec zc strict g2 (ODeliver a 0 o2)) as [g3|] eqn:E3; [|discriminate].
    destruct (gexec zc strict g3 (ODeliver b 0 o3)) as [g4|] eqn:E4; [|discriminate].
    injection Hrun as <-.
    (* reachability of the intermediate states *)
    assert (Hr1 : reachable zc strict g1) by (eapply R_step; [exact Hr|eapply gexec_sound; exact E1]).
    assert (Hr2 : reachable zc strict g2) by (eapply R_step; [exact Hr1|eapply gexec_sound; exact E2]).
    assert (Hr3 : reachable zc strict g3) by (eapply R_step; [exact Hr2|eapply gexec_sound; exact E3]).
    assert (Hr4 : reachable zc strict g4) by (eapply R_step; [exact Hr3|eapply gexec_sound; exact E4]).
    (* step 1: the SYN *)
    destruct (gexec_syn g a g1 E1) as (na' & Ha' & ->). rewrite Ha in Ha'. injection Ha' as <-.
    set (syn := create_syn_message (w_now (g_w g)) na) in *.
    assert (Hsyn : syn = Syn (cf_cluster (nd_cfg nb)) dg).
    { unfold syn, create_syn_message. rewrite Hsch, Hcl. reflexivity. }
    (* step 2: b answers *)
    destruct (gexec_deliver _ b o1 g2 syn (g_sent g) E2 eq_refl) as (nb' & nb1 & r1 & e1 & Hb' & Hp1 & ->).
    unfold node_at in Hb'. cbn [g_w] in Hb'. fold (node_at g b) in Hb'. rewrite Hb in Hb'. injection Hb' as <-.
    cbn [g_w] in Hp1. fold now in Hp1. rewrite Hsyn in Hp1.
    destruct (syn_reply_shape now nb _ dg o1 nb1 r1 e1 Hp1 eq_refl) as (dgb & x & ->).
    destruct (syn_ok_inv now nb dg o1 nb1 dgb x e1 Hp1) as (Hnb1 & Hdgb & Hcd). fold b1 in Hnb1, Hdgb, Hcd. fold sched in Hdgb, Hcd.
    subst nb1.
    (* step 3: a applies the SYN-ACK *)
    cbn [opt_cons] in E3.
    destruct (gexec_deliver _ a o2 g3 (SynAck dgb x) (syn :: g_sent g) E3 eq_refl) as (na' & na1 & r2 & e2 & Ha' & Hp2 & ->).
    unfold node_at in Ha'. cbn [g_w with_nodes w_nodes] in Ha'. rewrite nth_set_nth_other in Ha' by congruence.
    fold (node_at g a) in Ha'. rewrite Ha in Ha'. injection Ha' as <-.
    cbn [g_w with_nodes w_now] in Hp2. fold now in Hp2.
    destruct (synack_reply_shape now na dgb x o2 na1 r2 e2 Hp2) as (y & ->).
    (* step 4: b applies the ACK *)
    cbn [opt_cons g_sent] in E4.
    destruct (gexec_deliver _ b o3 g4 (Ack y) (SynAck dgb x :: syn :: g_sent g) E4 eq_refl) as (nb' & nb2 & r3 & e3 & Hb' & Hp3 & ->).
    unfold node_at in Hb'. cbn [g_w with_nodes w_nodes] in Hb'.
    rewrite nth_set_nth_other in Hb' by congruence.
    rewrite (nth_set_nth_same _ _ _ _ Hb) in Hb'. injection Hb' as <-.
    cbn [g_w with_nodes w_now] in Hp3. fold now in Hp3.
    (* bounds along the way: deliveries do not move any owner's max version *)
    set (g1 := mkG (g_w g) (syn :: g_sent g) (g_T g)) in *.
    set (g2 := mkG (with_nodes (g_w g1) (set_nth (w_nodes (g_w g1)) b b1)) (opt_cons (Some (SynAck dgb x)) (g_sent g1)) (bump_hb (g_T g1) (self_id nb))) in *.
    set (g3 := mkG (with_nodes (g_w g2) (set_nth (w_nodes (g_w g2)) a na1)) (opt_cons (Some (Ack y)) (g_sent g2)) (bump_hb (g_T g2) (self_id na))) in *.
    assert (Hb1 : bounded V g1) by exact HbV.
    assert (Hb2 : bounded V g2) by (intros Y; apply HbV).
    assert (Hb3 : bounded V g3) by (intros Y; apply HbV).
    match goal with |- _ <= gpot V ?gg => set (g4 := gg) in * end.
    assert (Hb4 : bounded V g4) by (intros Y; apply HbV).
    destruct (reachable_inv zc zc_len strict g Hr) as [Hg _].
    destruct (reachable_inv zc zc_len strict g1 Hr1) as [Hg1 _].
    destruct (reachable_inv zc zc_len strict g2 Hr2) as [Hg2 _].
    destruct (reachable_inv zc zc_len strict g3 Hr3) as [Hg3 _].
    (* nodes of the intermediate states *)
    assert (Hb_g1 : node_at g1 b = Some nb) by exact Hb.
    assert (Ha_g2 : node_at g2 a = Some na).
    { unfold node_at, g2. cbn [g_w with_nodes w_nodes]. rewrite nth_set_nth_other by congruence. exact Ha. }
    assert (Hb_g2 : node_at g2 b = Some b1).
    { unfold node_at, g2. cbn [g_w with_nodes w_nodes]. apply (nth_set_nth_same _ _ _ _ Hb). }
    assert (Hb_g3 : node_at g3 b = Some b1).
    { unfold node_at, g3. cbn [g_w with_nodes w_nodes]. rewrite nth_set_nth_other by congruence. exact Hb_g2. }
    assert (Ha_g3 : node_at g3 a = Some na1).
    { unfold node_at, g3. cbn [g_w with_nodes w_nodes]. apply (nth_set_nth_same _ _ _ _ Ha_g2). }
    (* potentials *)
    assert (P01 : gpot V g = gpot V g1) by reflexivity.
    assert (P12 : gpot V g1 <= gpot V g2).
    { apply (gpot_set_node V g1 b nb b1); [exact Hb_g1|apply (gi_nodes g1 Hg1 b nb Hb_g1)|
        apply (reachable_versions_below V g1 Hr1 Hb1 b nb Hb_g1)|apply (reachable_versions_below V g2 Hr2 Hb2 b b1 Hb_g2)|].
      eapply (process_message_keeps zc); [|exact Hp1]. exact I. }
    assert (P34 : gpot V g3 <= gpot V g4).
    { apply (gpot_set_node V g3 b b1 nb2); [exact Hb_g3|apply (gi_nodes g3 Hg3 b b1 Hb_g3)|
        apply (reachable_versions_below V g3 Hr3 Hb3 b b1 Hb_g3)| |].
      - apply (reachable_versions_below V g4 Hr4 Hb4 b). unfold node_at, g4. cbn [g_w with_nodes w_nodes]. apply (nth_set_nth_same _ _ _ _ Hb_g3).
      - eapply (process_message_keeps zc); [|exact Hp3].
        apply (gi_sent g3 Hg3 (Ack y)). left. reflexivity. }
    assert (P23 : gpot V g2 + 1 <= gpot V g3).
    { apply (gpot_set_node_strict V g2 a na na1); [exact Ha_g2|].
      (* the responder held something deliverable, in the legal order o1 *)
      destruct (behind_implies_deliverable now na nb X cb (ni_inv _ _ (gi_nodes g Hg b nb Hb)) HX HXs Hlt) as (n0 & Hn0).
      fold dg in Hn0. fold b1 in Hn0. fold sched in Hn0.
      unfold compute_delta in Hcd.
      destruct (arrange o1 (stale_nodes (nd_cs b1) dg sched)) as [ordered|] eqn:Earr; [|discriminate].
      pose proof (arrange_perm _ _ _ Earr) as Hperm.
      destruct ordered as [|n rest].
      { apply Permutation_sym, Permutation_nil in Hperm. rewrite Hperm in Hn0. destruct Hn0. }
      destruct (Hroom n rest eq_refl) as [Hmin Hrm].
      (* the first stale member is not a itself: b is never ahead of a about a *)
      assert (Hns : sn_id n <> self_id na).
      { intros Heq.
        assert (Hin : In n (stale_nodes (nd_cs b1) dg sched)) by (apply (Permutation_in _ (Permutation_sym Hperm)); left; reflexivity).
        unfold stale_nodes in Hin. apply filter_map_in in Hin as ([i c1] & He & Hcand).
        destruct (stale_candidate_some _ _ _ _ Hcand) as (Hid & _ & _ & Hrest). cbn [fst snd] in *.
        assert (Hi : i = self_id na) by congruence. subst i. rewrite Heq in *.
        destruct (gi_nodes g2 Hg2 a na Ha_g2) as [Hinv_a _ (cown & Hcown & Hmown & _)].
        destruct (gi_nodes g2 Hg2 b b1 Hb_g2) as [Hinv_b1 Hint_b1 _].
        pose proof (sorted_in_get id_cmp id_cmp_eq id_cmp_antisym id_cmp_trans _ _ _ (cli_sorted _ Hinv_b1) He) as Hget1.
        destruct (Hint_b1 _ _ Hget1) as [_ Hm1 _ _].
        assert (Hadv : match dg_get (self_id na) dg with Some g0 => (g_gc g0, g_max g0) | None => (0, 0) end = (c_gc cown, c_max cown)).
        { pose proof (advertised_unquarantined (nd_cs na) (self_id na)) as A. unfold advertised in A. fold dg in A. rewrite A, Hcown. reflexivity. }
        rewrite Hadv in Hrest. destruct Hrest as [Hl _]. lia. }
      eapply (potential_rises_on_exchange zc zc_len V now now na nb o1 o2 b1 dgb x e1 n rest na1 (Some (Ack y)) e2);
        try eassumption.
      - apply (gi_nodes g Hg a na Ha).
      - apply (gi_nodes g Hg b nb Hb).
      - change (create_syn_message now na) with syn. rewrite Hsyn. exact Hp1.
      - apply (reachable_versions_below V g2 Hr2 Hb2 a na Ha_g2).
      - apply (reachable_versions_below V g3 Hr3 Hb3 a na1 Ha_g3). }
    lia.
  Qed.

  (* ---------- along any schedule without liveness evaluations ---------- *)
  Definition no_eval (g g' : gstate) : Prop :=
    forall b nb oracle, g' <> mkG (with_nodes (g_w g) (set_nth (w_nodes (g_w g)) b (update_nodes_liveness (w_now (g_w g)) nb oracle))) (g_sent g) (g_T g).

  Inductive gpath : list gstate -> Prop :=
  | gp_one g : gpath [g]
  | gp_step g g' rest : gstep zc strict g g' -> no_eval g g' -> gpath (g' :: rest) -> gpath (g :: g' :: rest).

  Lemma gpath_potentials V l g0 :
    gpath l -> hd g0 l = g0 -> reachable zc strict g0 -> Forall (bounded V) l -> nondecreasing (map (gpot V) l).
  Proof.
    intros Hp. revert g0. induction Hp as [g|g g' rest Hs Hne Hp IH]; intros g0 Hhd Hr Hb; [exact I|].
    cbn in Hhd. subst g0. inversion Hb as [|? ? Hbg Hb']; subst. inversion Hb' as [|? ? Hbg' _]; subst.
    cbn [map nondecreasing]. split; [apply (gpot_monotone V g g' Hr Hs Hbg' Hne)|].
    apply (IH g' eq_refl); [eapply R_step; eauto|exact Hb'].
  Qed.

  (* the number of steps that raise the world potential along a schedule is at most the final
     potential: in particular at most that many exchanges are performed by a lagging initiator *)
  Theorem potential_rises_bounded V l g0 glast :
    gpath l -> hd g0 l = g0 -> last l glast = glast -> reachable zc strict g0 -> Forall (bounded V) l ->
    rises (map (gpot V) l) + gpot V g0 <= gpot V glast.
  Proof.
    intros Hp Hhd Hlast Hr Hb.
    pose proof (rises_bound _ (gpath_potentials V l g0 Hp Hhd Hr Hb)) as H.
    assert (Hne : l <> []) by (destruct Hp; discriminate).
    assert (H1 : hd 0 (map (gpot V) l) = gpot V g0) by (destruct l; [congruence|cbn in *; congruence]).
    assert (H2 : last (map (gpot V) l) 0 = gpot V glast).
    { clear - Hlast Hne. induction l as [|x r IH]; [congruence|]. destruct r as [|y r'].
      - cbn in *. congruence.
      - change (last (map (gpot V) (x :: y :: r')) 0) with (last (map (gpot V) (y :: r')) 0). apply IH; [exact Hlast|discriminate]. }
    lia.
  Qed.

  (* ... and the final potential is at most (copies held in the final world) * (V+1)^2 *)
  Theorem gpot_bound V g : reachable zc strict g -> bounded V g ->
    gpot V g <= nsum (map (fun n => N.of_nat (length (cs_nodes (nd_cs n))) * (V + 1) * (V + 1)) (w_nodes (g_w g))).
  Proof.
    intros Hr Hb. pose proof (reachable_versions_below V g Hr Hb) as HV. unfold gpot, node_at in *.
    induction (w_nodes (g_w g)) as [|n l IH]; [cbn; lia|]. cbn [map nsum].
    pose proof (potential_bound V n (HV 0%nat n eq_refl)).
    assert (nsum (map (potential V) l) <= nsum (map (fun n0 => N.of_nat (length (cs_nodes (nd_cs n0))) * (V + 1) * (V + 1)) l)).
    { apply IH. intros a m Hm. apply (HV (S a) m). exact Hm. }
    lia.
  Qed.
End Conv.
