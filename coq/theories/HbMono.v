(* HbMono.v — the heartbeat a node stores for a member is never lowered by a message (C11): it is
   the highest value the node has observed for as long as it holds the copy.  After fix F-7 this
   includes messages whose delta RESETS the copy (before the fix a reset set it back to 0 and
   lower, replayed heartbeats counted as fresh again).  With C11_stale_heartbeat_is_noop — a digest
   value at or below the stored one changes nothing, detector included — replayed, duplicated,
   equal or lower heartbeats are never evidence, whatever deltas were applied in between. *)
From Coq Require Import Lia.
From ChitchatModel Require Import Base SMap Ids Bytes Params NodeState Stream DeltaWire Message Cluster
  FD Chitchat SMap_lemmas NodeState_lemmas Builder_lemmas Cluster_lemmas Chitchat_lemmas Inv Compute_lemmas NodeInv Quiet.

Definition hb_le (c c' : copy) : Prop := c_hb c <= c_hb c'.
Definition node_hb_le (n n' : node) : Prop :=
  forall X c, nm_get X (cs_nodes (nd_cs n)) = Some c -> exists c', nm_get X (cs_nodes (nd_cs n')) = Some c' /\ c_hb c <= c_hb c'.

Lemma node_hb_le_refl n : node_hb_le n n.
Proof. intros X c H. exists c. split; [exact H|lia]. Qed.
Lemma node_hb_le_trans a b c : node_hb_le a b -> node_hb_le b c -> node_hb_le a c.
Proof.
  intros H1 H2 X x Hx. destruct (H1 X x Hx) as (y & Hy & L1). destruct (H2 X y Hy) as (z & Hz & L2).
  exists z. split; [exact Hz|lia].
Qed.

Lemma try_set_heartbeat_hb c hb : c_hb c <= c_hb (fst (try_set_heartbeat c hb)).
Proof.
  unfold try_set_heartbeat. destruct (c_hb c =? 0) eqn:E; [apply N.eqb_eq in E; cbn; lia|].
  destruct (c_hb c <? hb) eqn:E2; cbn; [apply N.ltb_lt in E2; lia|lia].
Qed.

Lemma report_heartbeat_hb now n i hb : node_hb_le n (report_heartbeat now n i hb).
Proof.
  intros X c Hc. unfold report_heartbeat. destruct (id_eqb i (self_id n)).
  { exists c. split; [exact Hc|lia]. }
  match goal with |- context [nm_get i (cs_nodes ?c0)] => set (cs := c0) end.
  assert (Hcs : nm_get X (cs_nodes cs) = Some c).
  { unfold cs. destruct (match last_heartbeat_if_deleted (nd_cs n) i with Some _ => _ | None => _ end); [|exact Hc].
    rewrite mut_or_init_get, Hc. reflexivity. }
  destruct (nm_get i (cs_nodes cs)) as [ci|] eqn:Ei.
  2:{ exists c. split; [exact Hcs|lia]. }
  pose proof (try_set_heartbeat_hb ci hb) as Hh.
  destruct (try_set_heartbeat ci hb) as [ci' fresh]. cbn [fst] in Hh.
  assert (Hget : exists c', nm_get X (nm_insert i ci' (cs_nodes cs)) = Some c' /\ c_hb c <= c_hb c').
  { destruct (id_dec i X) as [<-|Hne].
    - rewrite nm_get_insert_same. exists ci'. split; [reflexivity|]. rewrite Hcs in Ei. injection Ei as <-. exact Hh.
    - rewrite nm_get_insert_other by exact Hne. exists c. split; [exact Hcs|lia]. }
  destruct fresh; exact Hget.
Qed.

Lemma report_heartbeats_hb now dg : forall n, node_hb_le n (report_heartbeats_in_digest now n dg).
Proof.
  unfold report_heartbeats_in_digest. induction dg as [|e r IH]; intros n; cbn [fold_left]; [apply node_hb_le_refl|].
  eapply node_hb_le_trans; [apply report_heartbeat_hb|apply IH].
Qed.

Lemma update_self_heartbeat_hb n : node_hb_le n (update_self_heartbeat n).
Proof.
  intros X c Hc. unfold update_self_heartbeat, update_copy. cbn [nd_cs with_cs].
  set (cs := node_state_mut_or_init (nd_cs n) (self_id n)).
  assert (Hcs : nm_get X (cs_nodes cs) = Some c) by (unfold cs; rewrite mut_or_init_get, Hc; reflexivity).
  destruct (nm_get (self_id n) (cs_nodes cs)) as [c0|] eqn:E0; cbn [cs_nodes].
  - destruct (id_dec (self_id n) X) as [<-|Hne].
    + rewrite nm_get_insert_same. rewrite Hcs in E0. injection E0 as <-. exists (inc_heartbeat c).
      split; [reflexivity|cbn; lia].
    + rewrite nm_get_insert_other by exact Hne. exists c. split; [exact Hcs|lia].
  - exists c. split; [exact Hcs|lia].
Qed.

(* a node delta — refused, applied incrementally, or applied after a RESET — leaves the heartbeat *)
Lemma apply_delta_hb now c nd c1 st ev : nd_bounded nd -> apply_delta now c nd = Ok (c1, st, ev) -> c_hb c1 = c_hb c.
Proof.
  intros Hb Hok. destruct (apply_delta_frontier now c nd Hb) as (c1' & st' & ev' & Hok' & Hst & _ & HR & HA & HX).
  rewrite Hok in Hok'. injection Hok' as <- <- <-.
  destruct st.
  - destruct (HR eq_refl) as [-> _]. reflexivity.
  - destruct (HA eq_refl) as (_ & _ & _ & Hh & _). exact Hh.
  - destruct (HX eq_refl) as (_ & _ & _ & Hh). exact Hh.
Qed.

Lemma cluster_apply_nds_hb now : forall l nodes reset evs nodes' reset' evs',
  Forall nd_bounded l -> cluster_apply_nds now nodes l reset evs = Ok (nodes', reset', evs') ->
  forall X c, nm_get X nodes = Some c -> exists c', nm_get X nodes' = Some c' /\ c_hb c <= c_hb c'.
Proof.
  induction l as [|nd r IH]; intros nodes reset evs nodes' reset' evs' Hall Hrun X c Hc; cbn [cluster_apply_nds] in Hrun.
  - injection Hrun as <- _ _. exists c. split; [exact Hc|lia].
  - inversion Hall as [|? ? Hnd Hr]; subst.
    destruct (nm_get (d_id nd) nodes) as [c0|] eqn:Hget; [|eapply IH; eauto].
    destruct (apply_delta now c0 nd) as [[[c1 st] ev]| |] eqn:Hok; try discriminate.
    destruct (lex_le _ _); [|discriminate].
    destruct (id_dec (d_id nd) X) as [E|Hne].
    + subst X. rewrite Hget in Hc. injection Hc as <-.
      destruct (IH _ _ _ _ _ _ Hr Hrun (d_id nd) c1 (nm_get_insert_same _ _ _)) as (c' & Hc' & L).
      exists c'. split; [exact Hc'|]. rewrite <- (apply_delta_hb now c0 nd c1 st ev Hnd Hok). exact L.
    + apply (IH _ _ _ _ _ _ Hr Hrun X c). rewrite nm_get_insert_other by exact Hne. exact Hc.
Qed.

Lemma process_delta_hb now n x n' evs : delta_wf x -> process_delta now n x = Ok (n', evs) -> node_hb_le n n'.
Proof.
  intros Hwf Hpd X c Hc.
  assert (Hb : Forall nd_bounded (nds x)) by (eapply Forall_impl; [apply nd_wf_bounded|exact Hwf]).
  unfold process_delta, cluster_apply_delta in Hpd.
  destruct (cluster_apply_nds now (cs_nodes (nd_cs n)) (nds x) false []) as [[[nodes' reset'] evs']| |] eqn:Hrun; cbn [rmap] in Hpd; try discriminate.
  injection Hpd as <- _.
  destruct (cluster_apply_nds_hb now _ _ _ _ _ _ _ Hb Hrun X c Hc) as (c' & Hc' & L). exists c'. split; [|exact L].
  destruct (reset' && cf_has_cb (nd_cfg n)); exact Hc'.
Qed.

Section HM.
  Variable zc : bytes -> option bytes.

  (* whatever grammar-valid message a node processes — stale, duplicated, relayed, resetting —, the
     heartbeat it stores for every member it holds does not decrease *)
  Theorem process_message_hb now n m ord n' reply evs :
    msg_wf m -> process_message zc now n m ord = Ok (n', reply, evs) -> node_hb_le n n'.
  Proof.
    intros Hwf Hrun. unfold process_message in Hrun.
    pose proof (update_self_heartbeat_hb n) as H0.
    destruct m as [cl dg|dg x|x|].
    - destruct (negb _); [injection Hrun as <- _ _; exact H0|].
      destruct (P_MAX_UDP <? _); [discriminate|].
      destruct (compute_delta zc _ dg _ _ ord); cbn [rmap] in Hrun; try discriminate.
      injection Hrun as <- _ _. eapply node_hb_le_trans; [exact H0|apply report_heartbeats_hb].
    - destruct (process_delta now _ x) as [[n2 evs2]| |] eqn:Hpd; cbn [rbind] in Hrun; try discriminate.
      destruct (compute_delta zc _ dg _ _ ord); cbn [rmap] in Hrun; try discriminate.
      injection Hrun as <- _ _.
      eapply node_hb_le_trans; [exact H0|]. eapply node_hb_le_trans; [apply report_heartbeats_hb|].
      eapply process_delta_hb; [|exact Hpd]. apply Hwf.
    - destruct (process_delta now _ x) as [[n2 evs2]| |] eqn:Hpd; cbn [rmap] in Hrun; try discriminate.
      injection Hrun as <- _ _. cbn [fst].
      eapply node_hb_le_trans; [exact H0|]. eapply process_delta_hb; [|exact Hpd]. apply Hwf.
    - injection Hrun as <- _ _. exact H0.
  Qed.
End HM.
