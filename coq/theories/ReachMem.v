(* ReachMem.v — in every reachable state, on every node: the removed-member memory has distinct keys
   and never lists a member the node holds (C12, the invariant behind the memory monitor). *)
From Coq Require Import Lia.
From ChitchatModel Require Import Base SMap Ids Bytes Params NodeState Stream DeltaWire Message Cluster
  FD Chitchat World SMap_lemmas NodeState_lemmas Cluster_lemmas Chitchat_lemmas Inv Compute_lemmas NodeInv
  Liveness_lemmas Truth NodeTruth Weak Exact Reach MemInv.

Section RM.
  Variable zc : bytes -> option bytes.
  Hypothesis zc_len : forall b c, zc b = Some c -> len c <= len b.
  Variable strict : bool.

  Theorem reachable_mem : forall g, reachable zc strict g ->
    forall a n, node_at g a = Some n -> node_mem n.
  Proof.
    induction 1 as [|g g' Hr IH Hstep]; [intros a n H; destruct a; discriminate|].
    destruct (reachable_inv zc zc_len strict g Hr) as [Hg _].
    assert (Hset : forall b m m' sent T, node_at g b = Some m -> node_mem m' ->
              forall a n, node_at (mkG (with_nodes (g_w g) (set_nth (w_nodes (g_w g)) b m')) sent T) a = Some n -> node_mem n).
    { intros b m m' sent T Hb Hm' a n Hn. unfold node_at in *. cbn [g_w with_nodes w_nodes] in Hn.
      destruct (Nat.eq_dec b a) as [->|Hne].
      - rewrite (nth_set_nth_same _ _ _ _ Hb) in Hn. injection Hn as <-. exact Hm'.
      - rewrite nth_set_nth_other in Hn by exact Hne. eapply IH; eauto. }
    destruct Hstep.
    - intros a n Hn. unfold node_at in Hn. cbn [g_w with_nodes w_nodes] in Hn.
      destruct (Nat.lt_ge_cases a (length (w_nodes (g_w g)))) as [Hlt|Hge].
      + rewrite nth_error_app1 in Hn by exact Hlt. eapply IH; eauto.
      + rewrite nth_error_app2 in Hn by exact Hge.
        destruct (a - length (w_nodes (g_w g)))%nat as [|k]; cbn in Hn; [|destruct k; discriminate].
        injection Hn as <-. apply new_node_mem.
    - apply (Hset a n); [exact H|]. apply on_own_mem. eapply IH; eauto.
    - apply (Hset a n); [exact H|]. apply gc_keys_mem. eapply IH; eauto.
    - apply (Hset a n); [exact H|]. apply update_self_heartbeat_mem. eapply IH; eauto.
    - intros a n Hn. eapply IH; eauto.
    - apply (Hset a n); [exact H|]. apply update_nodes_liveness_mem; [apply (ni_inv _ _ (gi_nodes g Hg a n H))|eapply IH; eauto].
    - intros a0 n0 Hn. eapply IH; eauto.
    - apply (Hset a n); [exact H|]. eapply (process_message_mem zc); [|exact H2]. eapply IH; eauto.
  Qed.
End RM.
