(* Schedules.v — C01 over arbitrary schedules.  Rounds.v proves progress for rounds made only of
   complete handshakes.  Here a schedule is any sequence of
     - complete loss-free handshakes a -> b started where a and b quarantine nobody ("exchange"), and
     - NOISE: any other step whatsoever of the global relation except a join — deliveries of stale,
       duplicated or reordered messages, SYNs that are never answered, heartbeats, clock advances,
       tombstone GC passes, even local writes — and liveness evaluations that remove no member.
   If a is behind b at the start and the schedule contains the exchange a -> b, the world potential
   has risen by the end; so at most (copies)*(V+1)^2 fair schedules can start unconverged. *)
From Coq Require Import Lia ZArith.
From ChitchatModel Require Import Base SMap Ids Bytes Params NodeState Stream DeltaWire Message Cluster
  FD Chitchat World SMap_lemmas NodeState_lemmas KV_lemmas Builder_lemmas Cluster_lemmas Chitchat_lemmas
  Inv Compute_lemmas NodeInv Liveness_lemmas Truth NodeTruth Weak Exact Reach Codec_lemmas Emit_lemmas
  Progress Quiet Potential ReachMono GExec Converge ReachFD Rounds.

(* ---------- a liveness evaluation by a node that quarantines nobody removes nobody ---------- *)
Lemma update_dead_entries cfg now f i oracle j t :
  In (j, t) (fd_dead (fd_update_node_liveness cfg now f i oracle)) -> In (j, t) (fd_dead f) \/ t = now.
Proof.
  unfold fd_update_node_liveness. destruct (fd_is_alive cfg now f i oracle); cbn [fd_dead].
  - intros H. left. eapply in_sm_remove. exact H.
  - destruct (dm_get i (fd_dead f)); [auto|]. intros H. apply in_sm_insert in H as [H|H]; [right; congruence|left; exact H].
Qed.

Lemma eval_fold_dead_entries cfg now self (oracle : id -> option bool) (nodes : nmap) : forall f j t,
  In (j, t) (fd_dead (fold_left (fun f e => if id_eqb (fst e) self then f
                                            else fd_update_node_liveness cfg now f (fst e) (oracle (fst e))) nodes f)) ->
  In (j, t) (fd_dead f) \/ t = now.
Proof.
  induction nodes as [|e r IH]; intros f j t H; cbn [fold_left] in H; [left; exact H|].
  apply IH in H as [H|H]; [|right; exact H].
  destruct (id_eqb (fst e) self); [left; exact H|]. eapply update_dead_entries. exact H.
Qed.

Lemma filter_none {A} (f : A -> bool) l : (forall x, In x l -> f x = false) -> filter f l = [].
Proof.
  induction l as [|x r IH]; intros H; [reflexivity|]. cbn [filter]. rewrite (H x (or_introl eq_refl)).
  apply IH. intros y Hy. apply H. right. exact Hy.
Qed.

Definition grace_sane (cfg : fdconfig) : Prop := (0 < dead_grace cfg /\ half_grace cfg < dead_grace cfg)%Z.

Lemma eval_harmless now n oracle :
  grace_sane (cf_fd (nd_cfg n)) -> scheduled now n = [] ->
  nd_cs (update_nodes_liveness now n oracle) = nd_cs n.
Proof.
  intros [Hg0 Hgh] Hsch. unfold update_nodes_liveness. cbv zeta.
  match goal with |- context [fd_garbage_collect ?c ?t ?f1] => set (F1 := f1) end.
  assert (Hcol : snd (fd_garbage_collect (cf_fd (nd_cfg n)) now F1) = []).
  { unfold fd_garbage_collect. cbn [snd].
    assert (Hf : filter (fun e : id * Z => (snd e + dead_grace (cf_fd (nd_cfg n)) <=? now)%Z) (fd_dead F1) = []).
    { apply filter_none. intros [j t] Hin. cbn [snd]. apply Z.leb_gt.
      apply (eval_fold_dead_entries (cf_fd (nd_cfg n)) now (self_id n)
               (fun i => match oracle with Some l => Some (in_ids i l) | None => None end)) in Hin as [Hin| ->]; [|lia].
      unfold scheduled, fd_scheduled_for_deletion in Hsch.
      assert (Hnot : (t + half_grace (cf_fd (nd_cfg n)) <? now)%Z = false).
      { destruct (t + half_grace (cf_fd (nd_cfg n)) <? now)%Z eqn:E; [|reflexivity]. exfalso.
        assert (Hin2 : In (j, t) (filter (fun e : id * Z => (snd e + half_grace (cf_fd (nd_cfg n)) <? now)%Z) (fd_dead (nd_fd n))))
          by (apply filter_In; split; [exact Hin|exact E]).
        apply (in_map fst) in Hin2. rewrite Hsch in Hin2. destruct Hin2. }
      apply Z.ltb_ge in Hnot. lia. }
    rewrite Hf. reflexivity. }
  destruct (fd_garbage_collect (cf_fd (nd_cfg n)) now F1) as [f2 col]. cbn [snd] in Hcol. subst col. reflexivity.
Qed.


Section Sch.
  Variable zc : bytes -> option bytes.
  Hypothesis zc_len : forall b c, zc b = Some c -> len c <= len b.
  Variable strict : bool.

  (* ---------- noise ---------- *)
  Definition noise_ok (g : gstate) (o : gop) : Prop :=
    match o with
    | OJoin _ _ => False
    | OEval a _ => forall n, node_at g a = Some n -> grace_sane (cf_fd (nd_cfg n)) /\ scheduled (w_now (g_w g)) n = []
    | _ => True
    end.

  (* what a noise step does: nothing to the nodes, or one node replaced by one that keeps every copy
     with a frontier at least as large *)
  Definition one_node_fwd (g g1 : gstate) : Prop :=
    w_nodes (g_w g1) = w_nodes (g_w g) \/
    exists a n n', node_at g a = Some n /\ w_nodes (g_w g1) = set_nth (w_nodes (g_w g)) a n' /\ node_le n n'.

  Lemma noise_shape g o g1 : noise_ok g o -> gexec zc strict g o = Some g1 -> reachable zc strict g -> one_node_fwd g g1.
  Proof.
    intros Hok Hrun Hr. destruct (reachable_inv zc zc_len strict g Hr) as [Hg _].
    assert (Hw : forall a f, lwrite_op (w_now (g_w g)) f -> gwrite g a f = Some g1 -> one_node_fwd g g1).
    { intros a f Hf H. unfold gwrite in H. destruct (node_at g a) as [n|] eqn:E; [|discriminate]. injection H as <-.
      right. exists a, n, (fst (on_own n f)). split; [exact E|]. split; [reflexivity|].
      eapply on_own_keeps; [apply (gi_nodes g Hg a n E)|exact Hf]. }
    destruct o; cbn [gexec] in Hrun.
    - destruct Hok.
    - eapply Hw; [|exact Hrun]. constructor.
    - eapply Hw; [|exact Hrun]. constructor.
    - eapply Hw; [|exact Hrun]. constructor.
    - eapply Hw; [|exact Hrun]. constructor.
    - destruct (node_at g a) as [n|] eqn:E; [|discriminate]. injection Hrun as <-.
      right. exists a, n, (gc_keys (w_now (g_w g)) n). split; [exact E|]. split; [reflexivity|apply gc_keys_keeps].
    - destruct (node_at g a) as [n|] eqn:E; [|discriminate]. injection Hrun as <-.
      right. exists a, n, (update_self_heartbeat n). split; [exact E|]. split; [reflexivity|apply update_self_heartbeat_keeps].
    - injection Hrun as <-. left. reflexivity.
    - destruct (node_at g a) as [n|] eqn:E; [|discriminate]. injection Hrun as <-.
      right. exists a, n, (update_nodes_liveness (w_now (g_w g)) n oracle). split; [exact E|]. split; [reflexivity|].
      destruct (Hok n E) as [Hgs Hsch]. intros X c Hc. rewrite (eval_harmless _ n oracle Hgs Hsch).
      exists c. split; [exact Hc|]. right. split; [reflexivity|cbn; lia].
    - destruct (node_at g a) as [n|] eqn:E; [|discriminate]. injection Hrun as <-. left. reflexivity.
    - destruct (node_at g a) as [n|] eqn:E; [|discriminate].
      destruct (nth_error (g_sent g) idx) as [m|] eqn:Em; [|discriminate].
      destruct (strict && msg_weak _ n m); [discriminate|].
      destruct (process_message zc _ n m ord) as [[[n' reply] evs]| |] eqn:Ep; try discriminate.
      injection Hrun as <-. right. exists a, n, n'. split; [exact E|]. split; [reflexivity|].
      eapply (process_message_keeps zc); [apply (gi_sent g Hg m); eapply nth_error_In; exact Em|exact Ep].
  Qed.

  Lemma one_node_fwd_facts V g g1 : one_node_fwd g g1 ->
    reachable zc strict g -> reachable zc strict g1 -> bounded V g -> bounded V g1 ->
    gpot V g <= gpot V g1 /\ (gpot V g = gpot V g1 -> world_same g g1).
  Proof.
    intros Hs Hr Hr1 Hb Hb1.
    destruct (reachable_inv zc zc_len strict g Hr) as [Hg _].
    pose proof (reachable_versions_below zc zc_len strict V g Hr Hb) as HV.
    pose proof (reachable_versions_below zc zc_len strict V g1 Hr1 Hb1) as HV1.
    destruct Hs as [Hsame|(a & n & n' & Ha & Hset & Hle)].
    - unfold gpot. rewrite Hsame. split; [lia|]. intros _ c k Hk. exists k. unfold node_at in *. rewrite Hsame.
      split; [exact Hk|]. split; [|auto]. intros X cc Hcc. exists cc. split; [exact Hcc|split; reflexivity].
    - assert (Hn1 : node_at g1 a = Some n') by (unfold node_at in *; rewrite Hset; apply (nth_set_nth_same _ _ _ _ Ha)).
      destruct (gi_nodes g Hg a n Ha) as [Hinv _ _].
      pose proof (potential_mono V n n' Hinv (HV a n Ha) (HV1 a n' Hn1) Hle) as Hm.
      pose proof (nsum_set_nth (potential V) _ a n n' Ha) as Hsum. unfold gpot. rewrite Hset.
      split; [lia|]. intros Heq c k Hk. unfold node_at in *. rewrite Hset.
      destruct (Nat.eq_dec a c) as [->|Hne].
      + rewrite Ha in Hk. injection Hk as <-. exists n'. rewrite (nth_set_nth_same _ _ _ _ Ha). split; [reflexivity|].
        apply (potential_eq_same V n n' Hinv (HV c n Ha) (HV1 c n' Hn1) Hle). lia.
      + exists k. rewrite nth_set_nth_other by exact Hne. split; [exact Hk|]. split; [|auto].
        intros X cc Hcc. exists cc. split; [exact Hcc|split; reflexivity].
  Qed.
End Sch.

(* ---------- schedules ---------- *)
Inductive item := IX (e : exch) | IN (o : gop).

Section Run.
  Variable zc : bytes -> option bytes.
  Hypothesis zc_len : forall b c, zc b = Some c -> len c <= len b.
  Variable strict : bool.

  (* a handshake a -> b may be counted on when a and b quarantine nobody, a remembers no removed
     member, they are in the same cluster, and b's datagram has room for one header and one operation *)
  Definition exch_ok (g : gstate) (e : exch) : Prop :=
    x_a e <> x_b e /\ roomy g e /\
    forall na nb, node_at g (x_a e) = Some na -> node_at g (x_b e) = Some nb ->
      quiet_node (w_now (g_w g)) na /\ scheduled (w_now (g_w g)) nb = [] /\
      cf_cluster (nd_cfg na) = cf_cluster (nd_cfg nb).

  Inductive run : gstate -> list item -> gstate -> Prop :=
  | run_nil g : run g [] g
  | run_x g e g1 r g' : exch_ok g e -> gfold zc strict g (x_ops e) = Some g1 -> run g1 r g' -> run g (IX e :: r) g'
  | run_n g o g1 r g' : noise_ok g o -> gexec zc strict g o = Some g1 -> run g1 r g' -> run g (IN o :: r) g'.

  Lemma run_reachable g l g' : run g l g' -> reachable zc strict g -> reachable zc strict g'.
  Proof.
    induction 1 as [g|g e g1 r g' _ Hrun _ IH|g o g1 r g' _ Hrun _ IH]; intros Hr; [exact Hr| |].
    - apply IH. eapply gfold_reachable; eauto.
    - apply IH. eapply R_step; [exact Hr|eapply gexec_sound; exact Hrun].
  Qed.

  Lemma run_facts V g l g' : run g l g' -> reachable zc strict g -> bounded V g' ->
    bounded V g /\ gpot V g <= gpot V g' /\ (gpot V g = gpot V g' -> world_same g g').
  Proof.
    induction 1 as [g|g e g1 r g' Hok Hrun Hrest IH|g o g1 r g' Hok Hrun Hrest IH]; intros Hr Hb'.
    - split; [exact Hb'|]. split; [lia|intros _; apply world_same_refl].
    - assert (Hr1 : reachable zc strict g1) by (eapply gfold_reachable; eauto).
      destruct (IH Hr1 Hb') as (Hb1 & Hle & Hsame).
      destruct (xrun zc zc_len strict V (x_ops e) g g1 (x_ops_xop e) Hrun Hr Hb1) as (_ & Hb & _ & _ & _ & Hle1 & Hsame1).
      split; [exact Hb|]. split; [lia|]. intros Heq. apply (world_same_trans g g1 g'); [apply Hsame1|apply Hsame]; lia.
    - pose proof (gexec_sound zc strict g o g1 Hrun) as Hstep.
      assert (Hr1 : reachable zc strict g1) by (eapply R_step; eauto).
      destruct (IH Hr1 Hb') as (Hb1 & Hle & Hsame).
      assert (Hb : bounded V g) by (eapply (bounded_back zc zc_len strict); eauto).
      destruct (one_node_fwd_facts zc zc_len strict V g g1 (noise_shape zc zc_len strict g o g1 Hok Hrun Hr) Hr Hr1 Hb Hb1) as [Hle1 Hsame1].
      split; [exact Hb|]. split; [lia|]. intros Heq. apply (world_same_trans g g1 g'); [apply Hsame1|apply Hsame]; lia.
  Qed.

  (* SCHEDULE PROGRESS *)
  Theorem run_progress V g l g' : run g l g' -> reachable zc strict g -> bounded V g' ->
    forall a b X, behind g a b X -> (exists e, In (IX e) l /\ x_a e = a /\ x_b e = b) ->
    gpot V g + 1 <= gpot V g'.
  Proof.
    induction 1 as [g|g e g1 r g' Hok Hrun Hrest IH|g o g1 r g' Hok Hrun Hrest IH]; intros Hr Hb' a b X Hbeh (e0 & Hin & Ea & Eb).
    - destruct Hin.
    - assert (Hr1 : reachable zc strict g1) by (eapply gfold_reachable; eauto).
      destruct (run_facts V g1 r g' Hrest Hr1 Hb') as (Hb1 & Hle & _).
      destruct (xrun zc zc_len strict V (x_ops e) g g1 (x_ops_xop e) Hrun Hr Hb1) as (_ & Hb & _ & _ & _ & Hle1 & Hsame1).
      destruct Hin as [Heq|Hin].
      + injection Heq as <-. destruct Hbeh as (na & nb & cb & Hna & Hnb & Hcb & Hlt). subst a b.
        destruct Hok as (Hab & Hroom & Hq). destruct (Hq na nb Hna Hnb) as ([Hmem Hsch] & Hschb & Hcl).
        assert (gpot V g + 1 <= gpot V g1); [|lia].
        eapply (lagging_exchange_raises zc zc_len strict V g (x_a e) (x_b e) (x_o1 e) (x_o2 e) (x_o3 e) g1 na nb X cb
                  Hr Hb Hab Hna Hnb Hmem Hsch Hcl Hcb); [| exact Hlt | apply (Hroom na nb Hna Hnb) | exact Hrun].
        rewrite scheduled_after_reporting, Hschb. reflexivity.
      + destruct (N.eq_dec (gpot V g) (gpot V g1)) as [Heq|Hneq]; [|lia].
        assert (gpot V g1 + 1 <= gpot V g'); [|lia].
        apply (IH Hr1 Hb' a b X); [apply (behind_same g g1); [apply Hsame1; exact Heq|exact Hbeh]|]. exists e0. auto.
    - pose proof (gexec_sound zc strict g o g1 Hrun) as Hstep.
      assert (Hr1 : reachable zc strict g1) by (eapply R_step; eauto).
      destruct (run_facts V g1 r g' Hrest Hr1 Hb') as (Hb1 & Hle & _).
      assert (Hb : bounded V g) by (eapply (bounded_back zc zc_len strict); eauto).
      destruct (one_node_fwd_facts zc zc_len strict V g g1 (noise_shape zc zc_len strict g o g1 Hok Hrun Hr) Hr Hr1 Hb Hb1) as [Hle1 Hsame1].
      destruct Hin as [Heq|Hin]; [discriminate|].
      destruct (N.eq_dec (gpot V g) (gpot V g1)) as [Heq|Hneq]; [|lia].
      assert (gpot V g1 + 1 <= gpot V g'); [|lia].
      apply (IH Hr1 Hb' a b X); [apply (behind_same g g1); [apply Hsame1; exact Heq|exact Hbeh]|]. exists e0. auto.
  Qed.

  (* a schedule is fair when it contains a complete handshake for every ordered pair of nodes *)
  Definition fair_schedule (g : gstate) (l : list item) : Prop :=
    forall a b, (a < length (w_nodes (g_w g)))%nat -> (b < length (w_nodes (g_w g)))%nat -> a <> b ->
      exists e, In (IX e) l /\ x_a e = a /\ x_b e = b.

  Theorem fair_schedule_progress V g l g' : run g l g' -> fair_schedule g l -> unconverged g ->
    reachable zc strict g -> bounded V g' -> gpot V g + 1 <= gpot V g'.
  Proof.
    intros Hrun Hfair (a & b & X & Hbeh) Hr Hb'.
    destruct (behind_distinct g a b X Hbeh) as (Hab & Ha & Hb).
    apply (run_progress V g l g' Hrun Hr Hb' a b X Hbeh). apply (Hfair a b Ha Hb Hab).
  Qed.

  Inductive lagging_schedules : gstate -> nat -> gstate -> Prop :=
  | ls_nil g : lagging_schedules g 0 g
  | ls_cons g l g1 k g' : run g l g1 -> fair_schedule g l -> unconverged g ->
      lagging_schedules g1 k g' -> lagging_schedules g (S k) g'.

  Lemma lagging_schedules_reachable g k g' : lagging_schedules g k g' -> reachable zc strict g -> reachable zc strict g'.
  Proof. induction 1 as [g|g l g1 k g' Hrun _ _ _ IH]; intros Hr; [exact Hr|]. apply IH. eapply run_reachable; eauto. Qed.

  Theorem lagging_schedules_bounded V g k g' : lagging_schedules g k g' ->
    reachable zc strict g -> bounded V g' -> gpot V g + N.of_nat k <= gpot V g'.
  Proof.
    induction 1 as [g|g l g1 k g' Hrun Hfair Hun Hrest IH]; intros Hr Hb'; [lia|].
    assert (Hr1 : reachable zc strict g1) by (eapply run_reachable; eauto).
    assert (Hb1 : bounded V g1).
    { clear - zc_len Hrest Hb' Hr1. revert Hr1. induction Hrest as [g|g l g1 k g' Hrun' _ _ Hrest' IH']; intros Hr1; [exact Hb'|].
      assert (Hr2 : reachable zc strict g1) by (eapply run_reachable; eauto).
      apply (run_facts V g l g1 Hrun' Hr1). apply IH'; [exact Hb'|exact Hr2]. }
    pose proof (fair_schedule_progress V g l g1 Hrun Hfair Hun Hr Hb1) as Hstep.
    specialize (IH Hr1 Hb'). lia.
  Qed.

  Corollary unconverged_fair_schedules_bounded V g k g' : lagging_schedules g k g' ->
    reachable zc strict g -> bounded V g' ->
    N.of_nat k <= nsum (map (fun n => N.of_nat (length (cs_nodes (nd_cs n))) * (V + 1) * (V + 1)) (w_nodes (g_w g'))).
  Proof.
    intros Hl Hr Hb'. pose proof (lagging_schedules_bounded V g k g' Hl Hr Hb') as H.
    pose proof (gpot_bound zc zc_len strict V g' (lagging_schedules_reachable g k g' Hl Hr) Hb'). lia.
  Qed.
End Run.

(* ---------- executable forms ---------- *)
Section SBool.
  Variable zc : bytes -> option bytes.
  Variable strict : bool.

  Definition is_nil {A} (l : list A) : bool := match l with [] => true | _ => false end.
  Definition grace_saneb (cfg : fdconfig) : bool := ((0 <? dead_grace cfg) && (half_grace cfg <? dead_grace cfg))%Z.
  Definition noise_okb (g : gstate) (o : gop) : bool :=
    match o with
    | OJoin _ _ => false
    | OEval a _ => match node_at g a with
                   | Some n => grace_saneb (cf_fd (nd_cfg n)) && is_nil (scheduled (w_now (g_w g)) n)
                   | None => true
                   end
    | _ => true
    end.
  Definition exch_okb (g : gstate) (e : exch) : bool :=
    negb (Nat.eqb (x_a e) (x_b e)) && roomyb g e &&
    match node_at g (x_a e), node_at g (x_b e) with
    | Some na, Some nb => quiet_nodeb (w_now (g_w g)) na && is_nil (scheduled (w_now (g_w g)) nb)
                          && bytes_eqb (cf_cluster (nd_cfg na)) (cf_cluster (nd_cfg nb))
    | _, _ => true
    end.
  Fixpoint run_exec (g : gstate) (l : list item) : option gstate :=
    match l with
    | [] => Some g
    | IX e :: r => if exch_okb g e then match gfold zc strict g (x_ops e) with Some g1 => run_exec g1 r | None => None end else None
    | IN o :: r => if noise_okb g o then match gexec zc strict g o with Some g1 => run_exec g1 r | None => None end else None
    end.
  Definition fair_scheduleb (g : gstate) (l : list item) : bool :=
    let idx := seq 0 (length (w_nodes (g_w g))) in
    forallb (fun a => forallb (fun b => Nat.eqb a b ||
       existsb (fun it => match it with IX e => Nat.eqb (x_a e) a && Nat.eqb (x_b e) b | IN _ => false end) l) idx) idx.

  Lemma is_nil_true {A} (l : list A) : is_nil l = true -> l = [].
  Proof. destruct l; [reflexivity|discriminate]. Qed.

  Lemma noise_okb_sound g o : noise_okb g o = true -> noise_ok g o.
  Proof.
    destruct o; cbn [noise_okb noise_ok]; try (intros _; exact I); [discriminate|].
    intros H n Hn. rewrite Hn in H. apply andb_true_iff in H as [H1 H2]. split; [|apply is_nil_true; exact H2].
    unfold grace_saneb in H1. apply andb_true_iff in H1 as [A B]. apply Z.ltb_lt in A, B. split; assumption.
  Qed.
  Lemma exch_okb_sound g e : exch_okb g e = true -> exch_ok g e.
  Proof.
    unfold exch_okb. intros H. apply andb_true_iff in H as [H H3]. apply andb_true_iff in H as [H1 H2].
    split; [intros Heq; rewrite Heq, Nat.eqb_refl in H1; discriminate|]. split; [apply roomyb_sound; exact H2|].
    intros na nb Ha Hb. rewrite Ha, Hb in H3. apply andb_true_iff in H3 as [H3 Hc]. apply andb_true_iff in H3 as [Hq Hs].
    split; [|split; [apply is_nil_true; exact Hs|apply bytes_eqb_eq; exact Hc]].
    unfold quiet_nodeb in Hq. unfold quiet_node, no_memory.
    destruct (cs_gcn (nd_cs na)); [|discriminate]. destruct (scheduled _ na); [auto|discriminate].
  Qed.
  Lemma run_exec_sound : forall l g g', run_exec g l = Some g' -> run zc strict g l g'.
  Proof.
    induction l as [|[e|o] r IH]; intros g g' H; cbn [run_exec] in H.
    - injection H as <-. constructor.
    - destruct (exch_okb g e) eqn:E; [|discriminate]. destruct (gfold zc strict g (x_ops e)) as [g1|] eqn:Eg; [|discriminate].
      eapply run_x; [apply exch_okb_sound; exact E|exact Eg|apply IH; exact H].
    - destruct (noise_okb g o) eqn:E; [|discriminate]. destruct (gexec zc strict g o) as [g1|] eqn:Eg; [|discriminate].
      eapply run_n; [apply noise_okb_sound; exact E|exact Eg|apply IH; exact H].
  Qed.
  Lemma fair_scheduleb_sound g l : fair_scheduleb g l = true -> fair_schedule g l.
  Proof.
    unfold fair_scheduleb, fair_schedule. rewrite forallb_forall. intros H a b Ha Hb Hab.
    specialize (H a). rewrite forallb_forall in H.
    assert (Ia : In a (seq 0 (length (w_nodes (g_w g))))) by (apply in_seq; lia).
    assert (Ib : In b (seq 0 (length (w_nodes (g_w g))))) by (apply in_seq; lia).
    specialize (H Ia b Ib). apply orb_true_iff in H as [H|H]; [apply Nat.eqb_eq in H; contradiction|].
    apply existsb_exists in H as ([e|o] & He & Hx); [|discriminate]. apply andb_true_iff in Hx as [H1 H2].
    apply Nat.eqb_eq in H1, H2. exists e. auto.
  Qed.

  Definition fair_schedule_instance (ops : list gop) (l : list item) (a b : nat) (X : id) (V p0 p1 : N) : bool :=
    match grun zc strict ops with
    | Some g0 =>
        match run_exec g0 l with
        | Some g1 => fair_scheduleb g0 l && behindb g0 a b X && (gpot V g0 =? p0) && (gpot V g1 =? p1)
        | None => false
        end
    | None => false
    end.
  Lemma fair_schedule_instance_sound ops l a b X V p0 p1 : fair_schedule_instance ops l a b X V p0 p1 = true ->
    exists g0 g1, reachable zc strict g0 /\ run zc strict g0 l g1 /\ fair_schedule g0 l /\ unconverged g0 /\
                  gpot V g0 = p0 /\ gpot V g1 = p1.
  Proof.
    unfold fair_schedule_instance. destruct (grun zc strict ops) as [g0|] eqn:E0; [|discriminate].
    destruct (run_exec g0 l) as [g1|] eqn:E1; [|discriminate]. intros H.
    repeat (apply andb_true_iff in H as [H ?]).
    exists g0, g1. split; [eapply grun_reachable; exact E0|]. split; [apply run_exec_sound; exact E1|].
    split; [apply fair_scheduleb_sound; assumption|]. split; [exists a, b, X; apply behindb_sound; assumption|].
    split; apply N.eqb_eq; assumption.
  Qed.
End SBool.
