(* Chitchat_lemmas.v — one-step facts about the node (lib.rs): catch-up callback (C20), cluster
   isolation (C16), watch channel (C13), live/dead bookkeeping (C12), catch-up entry point (C18). *)
From Coq Require Import Lia.
From ChitchatModel Require Import Base SMap Ids Bytes Params NodeState Stream DeltaWire Message
  Cluster FD Chitchat SMap_lemmas NodeState_lemmas Builder_lemmas Cluster_lemmas.

(* ------------------------------------------------------------------ C20 *)
Theorem process_delta_spec : forall now n x,
  Forall nd_bounded (nds x) ->
  exists n' evs,
    process_delta now n x = Ok (n', evs) /\
    nd_cfg n' = nd_cfg n /\ nd_fd n' = nd_fd n /\ nd_prev n' = nd_prev n /\
    nd_watch n' = nd_watch n /\ nd_sends n' = nd_sends n /\
    cs_gcn (nd_cs n') = cs_gcn (nd_cs n) /\
    (forall i, nm_get i (cs_nodes (nd_cs n)) = None -> nm_get i (cs_nodes (nd_cs n')) = None) /\
    (forall i c, nm_get i (cs_nodes (nd_cs n)) = Some c ->
       exists c', nm_get i (cs_nodes (nd_cs n')) = Some c' /\ c_gc c <= c_gc c' /\
                  lex_le_p (monotonic_property c) (monotonic_property c')) /\
    (* the callback is invoked once iff configured and some copy's watermark was raised (= reset) *)
    ((cf_has_cb (nd_cfg n) = true /\ grew (cs_nodes (nd_cs n)) (cs_nodes (nd_cs n'))) -> nd_cb n' = nd_cb n + 1) /\
    (~ (cf_has_cb (nd_cfg n) = true /\ grew (cs_nodes (nd_cs n)) (cs_nodes (nd_cs n'))) -> nd_cb n' = nd_cb n).
Proof.
  intros now n x Hb. unfold process_delta.
  destruct (cluster_apply_delta_spec now (nd_cs n) x Hb)
    as (cs' & reset & evs & Hrun & Hgcn & Hnone & Hsome & Hres).
  rewrite Hrun. cbn [rmap].
  destruct (reset && cf_has_cb (nd_cfg n)) eqn:Hc.
  - apply andb_true_iff in Hc as [Hr Hcb].
    eexists _, evs. split; [reflexivity|]. cbn. repeat split; auto.
    intros Hn. exfalso. apply Hn. split; [exact Hcb|]. apply Hres. exact Hr.
  - eexists _, evs. split; [reflexivity|]. cbn. repeat split; auto.
    intros [Hcb Hg]. apply Hres in Hg. rewrite Hg, Hcb in Hc. discriminate.
Qed.

(* ------------------------------------------------------------------ C16 *)
Theorem foreign_syn_rejected : forall zc now n cluster dg ord,
  cluster <> cf_cluster (nd_cfg n) ->
  process_message zc now n (Syn cluster dg) ord = Ok (update_self_heartbeat n, Some BadCluster, []).
Proof.
  intros zc now n cluster dg ord Hne. unfold process_message.
  assert (Hcfg : nd_cfg (update_self_heartbeat n) = nd_cfg n) by reflexivity.
  rewrite Hcfg.
  destruct (bytes_eqb cluster (cf_cluster (nd_cfg n))) eqn:E.
  - apply bytes_eqb_eq in E. contradiction.
  - reflexivity.
Qed.

Theorem badcluster_is_terminal : forall zc now n ord,
  process_message zc now n BadCluster ord = Ok (update_self_heartbeat n, None, []).
Proof. reflexivity. Qed.

(* update_self_heartbeat touches nothing but the own copy's heartbeat *)
Lemma update_self_heartbeat_others : forall n i,
  i <> self_id n ->
  nm_get i (cs_nodes (nd_cs (update_self_heartbeat n))) = nm_get i (cs_nodes (nd_cs n)).
Proof.
  intros n i Hne. unfold update_self_heartbeat, update_copy, node_state_mut_or_init. cbn [nd_cs with_cs].
  destruct (nm_get (self_id n) (cs_nodes (nd_cs n))) as [c|] eqn:E; cbn [cs_nodes].
  - rewrite E. cbn [cs_nodes]. rewrite nm_get_insert_other by congruence. reflexivity.
  - rewrite nm_get_insert_same. cbn [cs_nodes].
    rewrite !nm_get_insert_other by congruence. reflexivity.
Qed.

Lemma update_self_heartbeat_fields : forall n,
  let n' := update_self_heartbeat n in
  nd_cfg n' = nd_cfg n /\ nd_fd n' = nd_fd n /\ nd_prev n' = nd_prev n /\ nd_watch n' = nd_watch n
  /\ nd_sends n' = nd_sends n /\ nd_cb n' = nd_cb n.
Proof. intros n. cbn. repeat split. Qed.

Lemma update_self_heartbeat_own : forall n c,
  nm_get (self_id n) (cs_nodes (nd_cs n)) = Some c ->
  nm_get (self_id n) (cs_nodes (nd_cs (update_self_heartbeat n))) = Some (inc_heartbeat c)
  /\ cs_gcn (nd_cs (update_self_heartbeat n)) = cs_gcn (nd_cs n).
Proof.
  intros n c E. unfold update_self_heartbeat, update_copy, node_state_mut_or_init. cbn [nd_cs with_cs].
  rewrite E. rewrite E. cbn [cs_nodes cs_gcn]. split; [apply nm_get_insert_same|reflexivity].
Qed.

(* ------------------------------------------------------------------ C13 *)
Lemma pentry_eqb_eq a b : pentry_eqb a b = true -> a = b.
Proof.
  unfold pentry_eqb. destruct a as [i [v p]], b as [j [w q]]. cbn.
  rewrite !andb_true_iff. intros [[H1 H2] H3].
  apply id_eqb_eq in H1. apply N.eqb_eq in H2. apply Bool.eqb_prop in H3. congruence.
Qed.
Lemma pmap_eqb_eq a : forall b, pmap_eqb a b = true -> a = b.
Proof.
  induction a as [|x a IH]; destruct b as [|y b]; cbn; try discriminate; auto.
  rewrite andb_true_iff. intros [H1 H2]. apply pentry_eqb_eq in H1. apply IH in H2. congruence.
Qed.

(* the channel's value as a function of (what was last recorded, the copies it was built from) *)
Definition watch_shape (prev : pmap) (watch : smap id copy) : Prop :=
  map (fun e => (fst e, c_max (snd e))) watch
  = map (fun e => (fst e, fst (snd e))) (filter (fun e : id * (N * bool) => snd (snd e)) prev).

(* what the evaluation computes as "current" *)
Definition current_of (n : node) (f1 : fd) : pmap :=
  fold_left (fun m i => match nm_get i (cs_nodes (nd_cs n)) with
                        | Some c => pm_insert i (c_max c, eval_pred (cf_pred (nd_cfg n)) c) m
                        | None => m
                        end) (self_id n :: fd_live_nodes f1) [].

Lemma filter_map_watch (nodes : nmap) (cur : pmap) :
  (forall i v p, In (i, (v, p)) cur -> exists c, nm_get i nodes = Some c /\ c_max c = v) ->
  map (fun e => (fst e, c_max (snd e)))
      (filter_map (fun e : id * (N * bool) =>
                     if snd (snd e)
                     then match nm_get (fst e) nodes with
                          | Some c => Some (fst e, c)
                          | None => None
                          end
                     else None) cur)
  = map (fun e => (fst e, fst (snd e))) (filter (fun e : id * (N * bool) => snd (snd e)) cur).
Proof.
  induction cur as [|[i [v p]] r IH]; intros H; cbn [filter_map filter map fst snd]; [reflexivity|].
  destruct p; cbn [snd].
  - destruct (H i v true (or_introl eq_refl)) as (c & Hc & Hv). rewrite Hc. cbn [map fst snd].
    rewrite Hv. f_equal. apply IH. intros j w q Hin. apply (H j w q). right. exact Hin.
  - apply IH. intros j w q Hin. apply (H j w q). right. exact Hin.
Qed.

Lemma in_pm_insert i v x (m : pmap) : In x (pm_insert i v m) -> x = (i, v) \/ In x m.
Proof. apply (in_sm_insert id_cmp). Qed.

Lemma current_of_sound (n : node) (l : list id) : forall (acc : pmap),
  (forall i v p, In (i, (v, p)) acc -> exists c, nm_get i (cs_nodes (nd_cs n)) = Some c /\ c_max c = v
                                                  /\ p = eval_pred (cf_pred (nd_cfg n)) c) ->
  forall i v p,
  In (i, (v, p))
     (fold_left (fun m i => match nm_get i (cs_nodes (nd_cs n)) with
                            | Some c => pm_insert i (c_max c, eval_pred (cf_pred (nd_cfg n)) c) m
                            | None => m
                            end) l acc) ->
  exists c, nm_get i (cs_nodes (nd_cs n)) = Some c /\ c_max c = v /\ p = eval_pred (cf_pred (nd_cfg n)) c.
Proof.
  induction l as [|j l IH]; intros acc Hacc i v p; cbn [fold_left]; [apply Hacc|].
  apply IH. intros i' v' p' Hin.
  destruct (nm_get j (cs_nodes (nd_cs n))) as [c|] eqn:Hj; [|apply Hacc; exact Hin].
  apply in_pm_insert in Hin as [Heq|Hin]; [|apply Hacc; exact Hin].
  injection Heq as -> -> ->. exists c. auto.
Qed.

(* C13: after an evaluation the channel's value has, for exactly the members recorded as live
   with a true predicate verdict, a snapshot whose max version is the recorded (= current) one;
   [watch_shape] is an invariant of every reachable node. *)
Theorem update_nodes_liveness_watch : forall now n oracle,
  watch_shape (nd_prev n) (nd_watch n) ->
  let n' := update_nodes_liveness now n oracle in
  watch_shape (nd_prev n') (nd_watch n') /\
  (* and what is recorded is exactly the evaluated membership with current versions and verdicts *)
  (forall i v p, In (i, (v, p)) (nd_prev n') ->
     exists c, nm_get i (cs_nodes (nd_cs n)) = Some c /\ c_max c = v /\ p = eval_pred (cf_pred (nd_cfg n)) c).
Proof.
  intros now n oracle Hshape. unfold update_nodes_liveness. cbv zeta.
  match goal with |- context [fd_garbage_collect _ _ ?f] => set (f1 := f) end.
  match goal with |- context [pmap_eqb (nd_prev n) ?c] => set (cur := c) end.
  assert (Hcur : forall i v p, In (i, (v, p)) cur ->
            exists c, nm_get i (cs_nodes (nd_cs n)) = Some c /\ c_max c = v /\ p = eval_pred (cf_pred (nd_cfg n)) c).
  { unfold cur. apply current_of_sound. intros i v p []. }
  destruct (fd_garbage_collect (cf_fd (nd_cfg n)) now f1) as [f2 collected].
  cbn [nd_prev nd_watch].
  destruct (pmap_eqb (nd_prev n) cur) eqn:E; cbn [negb].
  - apply pmap_eqb_eq in E. split; [exact Hshape|]. rewrite E. exact Hcur.
  - split; [|exact Hcur]. unfold watch_shape. apply filter_map_watch.
    intros i v p Hin. destruct (Hcur i v p Hin) as (c & H1 & H2 & _). eauto.
Qed.

(* exact content of what an evaluation records: the evaluated live members that have a copy *)
Lemma pm_get_insert_same i v m : pm_get i (pm_insert i v m) = Some v.
Proof. apply (sm_get_insert_same id_cmp id_cmp_eq). Qed.
Lemma pm_get_insert_other i j v m : i <> j -> pm_get j (pm_insert i v m) = pm_get j m.
Proof. apply (sm_get_insert_other id_cmp id_cmp_eq). Qed.

Lemma in_ids_iff i l : in_ids i l = true <-> In i l.
Proof.
  unfold in_ids. rewrite existsb_exists. split.
  - intros (x & Hx & He). apply id_eqb_eq in He. subst. exact Hx.
  - intros H. exists i. split; [exact H|apply id_eqb_refl].
Qed.

Lemma current_of_get (n : node) (l : list id) : forall (acc : pmap) i,
  pm_get i (fold_left (fun m i => match nm_get i (cs_nodes (nd_cs n)) with
                                  | Some c => pm_insert i (c_max c, eval_pred (cf_pred (nd_cfg n)) c) m
                                  | None => m
                                  end) l acc)
  = match nm_get i (cs_nodes (nd_cs n)) with
    | Some c => if in_ids i l then Some (c_max c, eval_pred (cf_pred (nd_cfg n)) c) else pm_get i acc
    | None => pm_get i acc
    end.
Proof.
  induction l as [|j l IH]; intros acc i; cbn [fold_left].
  - cbn. destruct (nm_get i (cs_nodes (nd_cs n))); reflexivity.
  - rewrite IH. cbn [in_ids existsb].
    destruct (nm_get i (cs_nodes (nd_cs n))) as [c|] eqn:Hi.
    + destruct (id_dec j i) as [->|Hne].
      * rewrite id_eqb_refl. cbn [orb]. rewrite Hi. rewrite pm_get_insert_same.
        fold (in_ids i l). destruct (in_ids i l); reflexivity.
      * assert (Hf : id_eqb i j = false).
        { destruct (id_eqb i j) eqn:E; [apply id_eqb_eq in E; congruence|reflexivity]. }
        rewrite Hf. cbn [orb]. fold (in_ids i l). destruct (in_ids i l); [reflexivity|].
        destruct (nm_get j (cs_nodes (nd_cs n))); [|reflexivity].
        apply pm_get_insert_other. exact Hne.
    + destruct (nm_get j (cs_nodes (nd_cs n))) as [cj|] eqn:Hj; [|reflexivity].
      apply pm_get_insert_other. intros ->. congruence.
Qed.

(* the live set after an evaluation, as the model computes it *)
Definition eval_live (now : Z) (n : node) (oracle : option (list id)) : list id :=
  live_nodes (update_nodes_liveness now n oracle).

Lemma update_nodes_liveness_live now n oracle :
  exists f1, eval_live now n oracle = self_id n :: fd_live_nodes f1 /\
    forall i, pm_get i (nd_prev (update_nodes_liveness now n oracle))
      = match nm_get i (cs_nodes (nd_cs n)) with
        | Some c => if in_ids i (self_id n :: fd_live_nodes f1)
                    then Some (c_max c, eval_pred (cf_pred (nd_cfg n)) c) else None
        | None => None
        end.
Proof.
  unfold eval_live, update_nodes_liveness. cbv zeta.
  match goal with |- context [fd_garbage_collect _ _ ?f] => set (f1 := f) end.
  exists f1.
  match goal with |- context [pmap_eqb (nd_prev n) ?c] => set (cur := c) end.
  assert (Hcur : forall i, pm_get i cur = match nm_get i (cs_nodes (nd_cs n)) with
        | Some c => if in_ids i (self_id n :: fd_live_nodes f1)
                    then Some (c_max c, eval_pred (cf_pred (nd_cfg n)) c) else None
        | None => None end).
  { intros i. unfold cur. rewrite current_of_get. cbn [pm_get sm_get].
    destruct (nm_get i (cs_nodes (nd_cs n))); reflexivity. }
  destruct (fd_garbage_collect (cf_fd (nd_cfg n)) now f1) as [f2 collected] eqn:Hgc.
  cbn [nd_prev live_nodes self_id nd_cfg nd_fd].
  split.
  - (* garbage collection does not touch the live set *)
    unfold fd_garbage_collect in Hgc. injection Hgc as <- _. reflexivity.
  - intros i. destruct (pmap_eqb (nd_prev n) cur) eqn:E; cbn [negb].
    + apply pmap_eqb_eq in E. rewrite E. apply Hcur.
    + apply Hcur.
Qed.

(* heartbeat reporting never touches the watch channel, its records, or the callback counter *)
Lemma report_heartbeat_fields now n i hb :
  let n' := report_heartbeat now n i hb in
  nd_cfg n' = nd_cfg n /\ nd_prev n' = nd_prev n /\ nd_watch n' = nd_watch n
  /\ nd_sends n' = nd_sends n /\ nd_cb n' = nd_cb n.
Proof.
  cbn zeta. unfold report_heartbeat.
  destruct (id_eqb i (self_id n)); [repeat split|].
  match goal with |- context [nm_get ?i ?m] => destruct (nm_get i m) end.
  - destruct (try_set_heartbeat _ _) as [c' fresh]. destruct fresh; repeat split.
  - repeat split.
Qed.

Lemma report_heartbeats_fields now d : forall n,
  let n' := report_heartbeats_in_digest now n d in
  nd_cfg n' = nd_cfg n /\ nd_prev n' = nd_prev n /\ nd_watch n' = nd_watch n
  /\ nd_sends n' = nd_sends n /\ nd_cb n' = nd_cb n.
Proof.
  unfold report_heartbeats_in_digest. induction d as [|e d IH]; intros n; cbn [fold_left]; [repeat split|].
  destruct (IH (report_heartbeat now n (fst e) (g_hb (snd e)))) as (H1 & H2 & H3 & H4 & H5).
  destruct (report_heartbeat_fields now n (fst e) (g_hb (snd e))) as (G1 & G2 & G3 & G4 & G5).
  cbn zeta in *. repeat split; congruence.
Qed.
