(* Weak.v — the known class KF-1 ("weak acceptance"), as executable predicates (model file).
   A copy whose watermark is above its max version (left so by a truncated reset) applies, WITHOUT
   reset, a node delta whose watermark and max version are both below the copy's watermark: the
   sender's horizon does not reach the copy's watermark, so the copy cannot tell whether the
   entries it receives were deleted in between.  See DESIGN.md, finding KF-1. *)
From ChitchatModel Require Import Base SMap Ids Bytes Params NodeState Stream DeltaWire Message Cluster FD Chitchat.

Definition weak_acceptance (c : copy) (d : ndelta) : bool :=
  (c_max c <? c_gc c) && (d_gc d <? c_gc c) && (d_max d <? c_gc c)
  && match check_delta_status c d with Apply => true | _ => false end.

(* does applying the node deltas [l] to the member map perform a weak acceptance? (mirrors
   Cluster.cluster_apply_nds) *)
Fixpoint weak_run (now : Z) (nodes : nmap) (l : list ndelta) : bool :=
  match l with
  | [] => false
  | nd :: r =>
      match nm_get (d_id nd) nodes with
      | None => weak_run now nodes r
      | Some c =>
          weak_acceptance c nd ||
          match apply_delta now c nd with
          | Ok (c', _, _) => weak_run now (nm_insert (d_id nd) c' nodes) r
          | _ => false
          end
      end
  end.

(* does processing message [m] at node [n] perform a weak acceptance? *)
Definition msg_weak (now : Z) (n : node) (m : message) : bool :=
  match m with
  | SynAck dg x =>
      weak_run now (cs_nodes (nd_cs (report_heartbeats_in_digest now (update_self_heartbeat n) dg))) (nds x)
  | Ack x => weak_run now (cs_nodes (nd_cs (update_self_heartbeat n))) (nds x)
  | _ => false
  end.
