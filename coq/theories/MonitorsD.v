(* MonitorsD.v — definitions only (extracted): the C14 "offer" and "agreement" monitors evaluated on
   the implementation's replies.  The proofs that every delta the MODEL computes satisfies them are
   in MonitorsP.v; nothing here depends on a lemma file, so the extracted model still builds and the
   correspondence suites still run when a proof breaks. *)
From Coq Require Import List NArith Bool.
From ChitchatModel Require Import Base SMap Ids Bytes Params NodeState Stream DeltaWire Message Cluster.
Import ListNotations.
Local Open Scope N_scope.

(* sizes of a member's header and of the first operation that follows it (= Progress.head_len /
   first_len, restated here without their proof context) *)
Definition d_head_len (n : stale_node) : N := op_len (OpNode (sn_id n) (c_gc (sn_copy n)) (sn_from n)).
Definition d_first_len (n : stale_node) : N :=
  match stale_sorted (sn_copy n) (sn_from n) with
  | e :: _ => op_len (OpKV (kvm_of e))
  | [] => op_len (OpSetMax (c_max (sn_copy n)))
  end.

Definition roomb_p (mtu : N) (n : stale_node) : bool :=
  let thr := N.min P_BLOCK_THRESHOLD mtu in
  P_BLOCK_META_LEN * (div_ceil (d_head_len n) thr + div_ceil (d_first_len n) thr) + d_head_len n + d_first_len n + 1 <=? mtu.

Definition c14_offer_ok (nodes : nmap) (dg : digest) (sched : list id) (mtu : N) (x : delta) : bool :=
  let stale := stale_nodes (mkCluster nodes []) dg sched in
  match stale with
  | [] => true
  | _ :: _ =>
      if (P_MIN_MTU <=? mtu) && (mtu <=? u16_max) && forallb (roomb_p mtu) stale
      then match nds x with [] => false | _ :: _ => true end
      else true
  end.

(* C14 "agreement" monitor: a receiver holding the copy its digest advertised (absent entry = (0,0))
   takes, on the node delta it is sent, exactly the decision the sender took from that digest and
   its own copy — it resets iff the sender decided to reset — and it refuses only an empty node
   delta.  Proved of every delta the model computes in MonitorsP.v. *)
Definition c14_agree_one (dg : digest) (sender : copy) (nd : ndelta) : bool :=
  let '(dgc, dmax) := match dg_get (d_id nd) dg with Some g => (g_gc g, g_max g) | None => (0, 0) end in
  let r := mkCopy 0 dgc dmax [] in
  let sender_reset := (dgc <? c_gc sender) && (dmax <? c_gc sender) in
  match check_delta_status r nd with
  | ApplyAfterReset => sender_reset
  | Apply => negb sender_reset
  | Reject => negb sender_reset && (match d_kvs nd with [] => d_max nd =? 0 | _ :: _ => false end)
  end.
Definition c14_agree_ok (dg : digest) (nodes : nmap) (x : delta) : bool :=
  forallb (fun nd => match nm_get (d_id nd) nodes with Some c => c14_agree_one dg c nd | None => true end) (nds x).

