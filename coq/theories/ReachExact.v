(* ReachExact.v — the exactness invariants (Hold, Compl for every copy; Dinv for every node delta
   ever sent) over all states reachable WITHOUT weak acceptances (C02 modulo known finding KF-1). *)
From Coq Require Import Lia Permutation.
From ChitchatModel Require Import Base SMap Ids Bytes Params NodeState Stream DeltaWire Message Cluster
  FD Chitchat World Monitors SMap_lemmas NodeState_lemmas Builder_lemmas Stream_lemmas Cluster_lemmas
  Chitchat_lemmas Inv Agreement DeltaRefine Compute_lemmas Prefix_lemmas NodeInv Truth NodeTruth
  KV_lemmas FD_lemmas Liveness_lemmas Weak Exact Reach.

Definition node_exact (T : truth) (n : node) : Prop :=
  forall X c, nm_get X (cs_nodes (nd_cs n)) = Some c -> Hold T X c /\ Compl T X c.

Definition msg_dinv (T : truth) (m : message) : Prop :=
  match m with
  | SynAck _ x | Ack x => Forall (Dinv T) (nds x)
  | _ => True
  end.

Lemma node_exact_mono T T' n : t_le T T' -> t_wf T -> node_int T n -> node_exact T n -> node_exact T' n.
Proof.
  intros Hle Hwf Hint He X c Hc. destruct (He X c Hc) as [H1 H2].
  split; [eapply Hold_mono; eauto|eapply Compl_mono; eauto].
Qed.

Lemma msg_dinv_mono T T' m : t_le T T' -> t_wf T -> msg_dinv T m -> msg_dinv T' m.
Proof.
  intros Hle Hwf. destruct m as [c d|d x|x|]; cbn; auto;
    intros H; eapply Forall_impl; [|exact H| |exact H]; intros nd; apply Dinv_mono; assumption.
Qed.

(* ---- applying a whole delta ---- *)
Lemma cluster_apply_nds_exact T now : forall l nodes reset evs nodes' reset' evs',
  t_wf T ->
  (forall X c, nm_get X nodes = Some c -> copy_inv c /\ copy_int T X c /\ Hold T X c /\ Compl T X c) ->
  Forall nd_wf l -> Forall (nd_int T) l -> Forall (Dinv T) l ->
  weak_run now nodes l = false ->
  cluster_apply_nds now nodes l reset evs = Ok (nodes', reset', evs') ->
  forall X c, nm_get X nodes' = Some c -> Hold T X c /\ Compl T X c.
Proof.
  induction l as [|nd r IH]; intros nodes reset evs nodes' reset' evs' Hwf Hall Hw Hi Hd Hweak; cbn [cluster_apply_nds].
  - intros [= <- _ _] X c Hc. destruct (Hall X c Hc) as (_ & _ & H). exact H.
  - inversion Hw as [|? ? Hw1 Hwr]; subst. inversion Hi as [|? ? Hi1 Hir]; subst. inversion Hd as [|? ? Hd1 Hdr]; subst.
    cbn [weak_run] in Hweak.
    destruct (nm_get (d_id nd) nodes) as [c|] eqn:E; [|apply IH; auto].
    apply orb_false_iff in Hweak as [Hweak1 Hweakr].
    destruct (apply_delta now c nd) as [[[c1 st] ev]| |] eqn:Ea; try discriminate.
    destruct (lex_le _ _); [|discriminate].
    apply IH; auto.
    intros X d. destruct (id_dec (d_id nd) X) as [<-|Hne].
    + rewrite nm_get_insert_same. intros [= <-].
      destruct (Hall _ _ E) as (Hci & Hint & Hh & Hc). destruct Hd1 as [h Hdh].
      split; [eapply apply_delta_inv; eauto|]. split; [eapply apply_delta_int; eauto|].
      eapply apply_delta_exact; eauto.
    + rewrite nm_get_insert_other by exact Hne. apply Hall.
Qed.

Lemma process_delta_exact T now n x n' evs :
  t_wf T -> node_inv n -> node_int T n -> node_exact T n ->
  delta_wf x -> Forall (nd_int T) (nds x) -> Forall (Dinv T) (nds x) ->
  weak_run now (cs_nodes (nd_cs n)) (nds x) = false ->
  process_delta now n x = Ok (n', evs) -> node_exact T n'.
Proof.
  intros Hwf [Hs Hc] Hint He Hw Hi Hd Hweak. unfold process_delta, cluster_apply_delta.
  destruct (cluster_apply_nds now (cs_nodes (nd_cs n)) (nds x) false []) as [[[nodes' reset'] evs']| |] eqn:E;
    cbn [rmap]; try discriminate.
  intros [= <- _].
  assert (Hall : forall X c, nm_get X (cs_nodes (nd_cs n)) = Some c -> copy_inv c /\ copy_int T X c /\ Hold T X c /\ Compl T X c).
  { intros X c Hg. split; [eapply Hc; apply nm_get_in; exact Hg|]. split; [apply Hint; exact Hg|apply He; exact Hg]. }
  pose proof (cluster_apply_nds_exact T now _ _ _ _ _ _ _ Hwf Hall Hw Hi Hd Hweak E) as H.
  destruct (reset' && cf_has_cb (nd_cfg n)); unfold node_exact; cbn [nd_cs with_cs cs_nodes]; exact H.
Qed.

(* ---- heartbeats do not matter ---- *)
Lemma report_heartbeat_exact T now n i hb : t_wf T -> node_exact T n -> node_exact T (report_heartbeat now n i hb).
Proof.
  intros Hwf He. unfold report_heartbeat. destruct (id_eqb i (self_id n)); [exact He|].
  match goal with |- context [nm_get i (cs_nodes ?c0)] => set (cs := c0) end.
  assert (Hcs : forall X c, nm_get X (cs_nodes cs) = Some c -> Hold T X c /\ Compl T X c).
  { unfold cs. destruct (match last_heartbeat_if_deleted (nd_cs n) i with Some _ => _ | None => _ end); [|exact He].
    unfold node_state_mut_or_init. destruct (nm_get i (cs_nodes (nd_cs n))) eqn:E; [exact He|].
    intros X c. cbn [cs_nodes]. destruct (id_dec i X) as [<-|Hne].
    - rewrite nm_get_insert_same. intros [= <-]. split; [apply new_copy_hold|apply new_copy_compl; exact Hwf].
    - rewrite nm_get_insert_other by exact Hne. apply He. }
  destruct (nm_get i (cs_nodes cs)) as [c|] eqn:E; [|exact Hcs].
  destruct (try_set_heartbeat c hb) as [c' fresh] eqn:Et.
  assert (Hc' : Hold T i c' /\ Compl T i c').
  { destruct (Hcs i c E) as [A B]. unfold try_set_heartbeat in Et.
    destruct (c_hb c =? 0); [injection Et as <- _; split; [exact A|exact B]|].
    destruct (c_hb c <? hb); injection Et as <- _; split; assumption. }
  assert (H1 : node_exact T (with_cs n (mkCluster (nm_insert i c' (cs_nodes cs)) (cs_gcn cs)))).
  { intros X d. cbn [nd_cs with_cs cs_nodes]. destruct (id_dec i X) as [<-|Hne].
    - rewrite nm_get_insert_same. intros [= <-]. exact Hc'.
    - rewrite nm_get_insert_other by exact Hne. apply Hcs. }
  destruct fresh; exact H1.
Qed.

Lemma report_heartbeats_exact T now dg : forall n, t_wf T -> node_exact T n -> node_exact T (report_heartbeats_in_digest now n dg).
Proof.
  unfold report_heartbeats_in_digest. induction dg as [|e r IH]; intros n Hwf He; cbn [fold_left]; [exact He|].
  apply IH; [exact Hwf|]. apply report_heartbeat_exact; assumption.
Qed.

Lemma update_self_heartbeat_exact T n : t_wf T -> node_exact T n -> node_exact T (update_self_heartbeat n).
Proof.
  intros Hwf He X c. unfold update_self_heartbeat, update_copy, node_state_mut_or_init. cbn [nd_cs with_cs].
  destruct (nm_get (self_id n) (cs_nodes (nd_cs n))) as [c0|] eqn:E; cbn [cs_nodes].
  - rewrite E. cbn [cs_nodes]. destruct (id_dec (self_id n) X) as [<-|Hne].
    + rewrite nm_get_insert_same. intros [= <-]. destruct (He _ _ E). split; assumption.
    + rewrite nm_get_insert_other by exact Hne. apply He.
  - rewrite nm_get_insert_same. cbn [cs_nodes]. destruct (id_dec (self_id n) X) as [<-|Hne].
    + rewrite nm_get_insert_same. intros [= <-]. split; [apply new_copy_hold|apply new_copy_compl; exact Hwf].
    + rewrite !nm_get_insert_other by exact Hne. apply He.
Qed.

(* ---- replies ---- *)
Lemma computed_delta_dinv T cs dg sched mtu x :
  t_wf T -> cluster_inv cs -> cluster_int T cs ->
  (forall X c, nm_get X (cs_nodes cs) = Some c -> Hold T X c /\ Compl T X c) ->
  delta_shape cs dg sched mtu x -> Forall (Dinv T) (nds x).
Proof.
  intros Hwf Hinv Hint He Hsh. apply Forall_forall. intros nd Hin.
  destruct (computed_delta_nodes cs dg sched mtu x Hinv Hsh nd Hin) as (n & j & mv & Hn & -> & _ & Hget & _).
  destruct (He _ _ Hget) as [Hh Hc].
  apply node_piece_Dinv;
    [exact Hwf|eapply (cli_copies cs Hinv); apply nm_get_in; exact Hget|apply Hint; exact Hget|exact Hh|exact Hc].
Qed.

Section Proc.
  Variable zc : bytes -> option bytes.
  Hypothesis zc_len : forall b c, zc b = Some c -> len c <= len b.

  Theorem process_message_exact T now n m ord n' reply evs :
    t_wf T -> node_inv n -> node_int T n -> owner_sync T n -> node_exact T n ->
    msg_int T m -> msg_wf m -> msg_dinv T m -> msg_weak now n m = false ->
    process_message zc now n m ord = Ok (n', reply, evs) ->
    let T' := bump_hb T (self_id n) in
    node_exact T' n' /\ match reply with Some r => msg_dinv T' r | None => True end.
  Proof.
    intros Hwf Hinv Hint Hown He Hmi Hmw Hmd Hweak Hrun. cbn zeta.
    set (T' := bump_hb T (self_id n)).
    pose proof (bump_wf T (self_id n) Hwf) as Hwf'.
    pose proof (t_le_bump T (self_id n)) as Hle.
    destruct (update_self_heartbeat_truth T n Hint Hown) as [Hint0 Hown0]. fold T' in Hint0, Hown0.
    pose proof (update_self_heartbeat_inv n Hinv) as Hinv0.
    pose proof (msg_int_mono T T' m Hle Hmi) as Hmi'.
    pose proof (msg_dinv_mono T T' m Hle Hwf Hmd) as Hmd'.
    assert (He0 : node_exact T' (update_self_heartbeat n)).
    { apply update_self_heartbeat_exact; [exact Hwf'|]. eapply node_exact_mono; eauto. }
    pose proof p_max_udp_le_u16 as Hu.
    unfold process_message in Hrun. destruct m as [cluster dg|dg x|x|].
    - destruct (negb _).
      + injection Hrun as <- <- <-. split; [exact He0|exact I].
      + destruct (P_MAX_UDP <? _); [discriminate|].
        set (n1 := report_heartbeats_in_digest now (update_self_heartbeat n) dg) in *.
        destruct (report_heartbeats_truth T' now dg _ Hint0 Hown0 Hmi') as (Hint1 & Hown1 & _). fold n1 in Hint1, Hown1.
        pose proof (report_heartbeats_inv now dg _ Hinv0) as Hinv1. fold n1 in Hinv1.
        pose proof (report_heartbeats_exact T' now dg _ Hwf' He0) as He1. fold n1 in He1.
        match type of Hrun with rmap _ ?cd = _ => destruct cd as [x| |] eqn:Ex; cbn [rmap] in Hrun; try discriminate end.
        injection Hrun as <- <- <-.
        pose proof (compute_delta_ok_shape zc zc_len _ _ _ _ _ _ Hinv1 (N.le_trans _ _ _ (N.le_sub_l _ _) Hu) Ex) as Hsh.
        split; [exact He1|]. cbn. eapply computed_delta_dinv; eauto.
    - destruct Hmi' as [Hdg Hx]. cbn in Hmd', Hweak.
      set (n1 := report_heartbeats_in_digest now (update_self_heartbeat n) dg) in *.
      destruct (report_heartbeats_truth T' now dg _ Hint0 Hown0 Hdg) as (Hint1 & Hown1 & _). fold n1 in Hint1, Hown1.
      pose proof (report_heartbeats_inv now dg _ Hinv0) as Hinv1. fold n1 in Hinv1.
      pose proof (report_heartbeats_exact T' now dg _ Hwf' He0) as He1. fold n1 in He1.
      destruct (process_delta now n1 x) as [[n2 evs2]| |] eqn:Epd; cbn [rbind] in Hrun; try discriminate.
      pose proof (process_delta_exact T' now n1 x n2 evs2 Hwf' Hinv1 Hint1 He1 Hmw Hx Hmd' Hweak Epd) as He2.
      destruct (process_delta_truth T' now n1 x n2 evs2 Hwf' Hint1 Hown1 Hx Epd) as (Hint2 & _).
      pose proof (process_delta_inv now n1 x n2 evs2 Hinv1 Hmw Epd) as Hinv2.
      match type of Hrun with rmap _ ?cd = _ => destruct cd as [y| |] eqn:Ey; cbn [rmap] in Hrun; try discriminate end.
      injection Hrun as <- <- <-.
      pose proof (compute_delta_ok_shape zc zc_len _ _ _ _ _ _ Hinv2 (N.le_trans _ _ _ (N.le_sub_l _ _) Hu) Ey) as Hsh.
      split; [exact He2|]. cbn. eapply computed_delta_dinv; eauto.
    - cbn in Hmd', Hweak, Hmi'.
      destruct (process_delta now (update_self_heartbeat n) x) as [[n2 evs2]| |] eqn:Epd; cbn [rmap] in Hrun; try discriminate.
      injection Hrun as <- <- <-. cbn [fst snd].
      split; [|exact I]. eapply process_delta_exact; eauto.
    - injection Hrun as <- <- <-. split; [exact He0|exact I].
  Qed.
End Proc.

(* ================= global ================= *)
Record GInvE (g : gstate) : Prop := mkGInvE {
  gie_base : GInv2 g;
  gie_nodes : forall a n, node_at g a = Some n -> node_exact (g_T g) n;
  gie_sent : forall m, In m (g_sent g) -> msg_dinv (g_T g) m
}.

Lemma gie_node_step g a n n' T' sent' :
  GInvE g -> node_at g a = Some n -> t_le (g_T g) T' ->
  GInv2 (mkG (with_nodes (g_w g) (set_nth (w_nodes (g_w g)) a n')) sent' T') ->
  node_exact T' n' -> (forall m, In m sent' -> msg_dinv T' m) ->
  GInvE (mkG (with_nodes (g_w g) (set_nth (w_nodes (g_w g)) a n')) sent' T').
Proof.
  intros [[Hg Hgc] Hn Hs] Ha Hle Hbase He' Hs'. split; [exact Hbase| |exact Hs'].
  intros b m Hb. unfold node_at in *. cbn [g_w g_T with_nodes w_nodes] in *.
  destruct (Nat.eq_dec a b) as [<-|Hne].
  - rewrite (nth_set_nth_same _ _ _ _ Ha) in Hb. injection Hb as <-. exact He'.
  - rewrite nth_set_nth_other in Hb by exact Hne.
    eapply node_exact_mono; [exact Hle|apply Hg| |apply (Hn b); exact Hb].
    apply (gi_nodes g Hg b m Hb).
Qed.

Lemma sent_dinv_mono g T' : GInvE g -> t_le (g_T g) T' -> forall m, In m (g_sent g) -> msg_dinv T' m.
Proof.
  intros [[Hg _] _ Hs] Hle m Hm. eapply msg_dinv_mono; [exact Hle|apply Hg|apply Hs; exact Hm].
Qed.

(* the owner's copy right after joining: it holds exactly its own (initial) writes *)
Lemma fresh_owner_exact T' X c :
  copy_inv c -> (forall w, t_wrote T' X w <-> exists k v, In (k, v) (c_kvs c) /\ w = entry_of k v) ->
  Hold T' X c /\ Compl T' X c.
Proof.
  intros Hci Hw. split.
  - intros k v w Hk (Hww & Hkey & _). left. apply Hw in Hww as (k' & v' & Hin & ->). cbn in Hkey. subst k'.
    pose proof (ksorted_in_get _ _ _ (ci_sorted c Hci) Hin) as G. congruence.
  - intros k w (Hww & Hkey & _) _. left. apply Hw in Hww as (k' & v' & Hin & ->). exists v'. cbn [entry_of lw_key].
    split; [apply ksorted_in_get; [apply Hci|exact Hin]|reflexivity].
Qed.

Section GlobalE.
  Variable zc : bytes -> option bytes.
  Hypothesis zc_len : forall b c, zc b = Some c -> len c <= len b.

  Lemma gstep_exact g g' : gstep zc true g g' -> GInvE g -> GInvE g'.
  Proof.
    intros Hstep HE. pose proof HE as [[Hg Hgc] Hn Hs].
    assert (Hbase' : GInv2 g').
    { destruct Hstep.
      - apply join_step; [split|]; assumption.
      - apply write_step; [split|assumption|]; assumption.
      - apply gc_step; [split|]; assumption.
      - apply heartbeat_step; [split|]; assumption.
      - apply tick_step; split; assumption.
      - apply eval_step; [split|]; assumption.
      - eapply syn_step; [split|]; eassumption.
      - eapply (deliver_step zc zc_len); [split| | |]; eassumption. }
    destruct Hstep.
    - (* join *)
      split; [exact Hbase'| |].
      + set (X := cf_id cfg) in *. set (nn := new_node cfg initial) in *.
        set (own0 := set_all (inc_heartbeat new_copy) initial).
        assert (Hcs : nd_cs nn = mkCluster [(X, own0)] []) by apply new_node_cluster.
        assert (Hget : forall Y, nm_get Y (cs_nodes (nd_cs nn)) = if id_eqb Y X then Some own0 else None).
        { intros Y. rewrite Hcs. unfold nm_get, id_eqb. cbn [cs_nodes sm_get]. destruct (id_cmp Y X); reflexivity. }
        assert (Hown0 : own_copy nn = own0).
        { apply own_copy_spec. change (self_id nn) with X. rewrite Hget, id_eqb_refl. reflexivity. }
        destruct (gi_support g Hg X) as (Hmax0 & Hhb0 & Hnow). { intros a n Hnn. apply H with a. exact Hnn. }
        pose proof (new_node_inv cfg initial) as Hninv. fold nn in Hninv.
        assert (Hci0 : copy_inv own0).
        { eapply (cli_copies _ Hninv). apply nm_get_in. rewrite Hget, id_eqb_refl. reflexivity. }
        destruct (set_all_gc_hb initial (inc_heartbeat new_copy)) as [Hgc0 _]. fold own0 in Hgc0. cbn in Hgc0.
        assert (Hos : own_step new_copy own0).
        { split; cbn [new_copy c_kvs c_max c_hb c_gc].
          - intros k v Hin. right. apply (ci_range _ Hci0 k v Hin).
          - apply N.le_0_l.
          - apply N.le_0_l.
          - rewrite Hgc0. apply N.le_0_l. }
        destruct (sync_truth_ok (g_T g) X new_copy own0 (gi_wf g Hg) (new_copy_int _ _)
                    (eq_sym Hmax0) (eq_sym Hhb0) Hci0 Hos) as (Hle & _).
        intros b m Hb. unfold node_at in Hb. cbn [g_w g_T with_nodes w_nodes] in Hb. rewrite Hown0.
        destruct (Nat.lt_ge_cases b (length (w_nodes (g_w g)))) as [Hlt|Hge].
        * rewrite nth_error_app1 in Hb by exact Hlt.
          eapply node_exact_mono; [exact Hle|apply Hg|apply (gi_nodes g Hg b m Hb)|apply (Hn b); exact Hb].
        * rewrite nth_error_app2 in Hb by exact Hge.
          destruct (b - length (w_nodes (g_w g)))%nat as [|k] eqn:Ek; cbn in Hb; [|destruct k; discriminate].
          injection Hb as <-. intros Y d Hd. rewrite Hget in Hd. destruct (id_eqb Y X) eqn:E; [|discriminate].
          apply id_eqb_eq in E. subst Y. injection Hd as <-.
          apply fresh_owner_exact; [exact Hci0|]. intros w. cbn [sync_truth t_wrote]. split.
          -- intros [Hw|(_ & k & v & Hin & -> & _)]; [exfalso; eapply Hnow; exact Hw|exists k, v; auto].
          -- intros (k & v & Hin & ->). right. split; [reflexivity|]. exists k, v. split; [exact Hin|]. split; [reflexivity|].
             rewrite Hmax0. apply (ci_range _ Hci0 k v Hin).
      + cbn [g_sent g_T]. rewrite (own_copy_spec (new_node cfg initial) (set_all (inc_heartbeat new_copy) initial)).
        * apply sent_dinv_mono; [exact HE|].
          set (X := cf_id cfg). set (own0 := set_all (inc_heartbeat new_copy) initial).
          destruct (gi_support g Hg X) as (Hmax0 & Hhb0 & Hnow). { intros a n Hnn. apply H with a. exact Hnn. }
          pose proof (new_node_inv cfg initial) as Hninv.
          assert (Hget : nm_get X (cs_nodes (nd_cs (new_node cfg initial))) = Some own0).
          { rewrite new_node_cluster. unfold nm_get. cbn [cs_nodes sm_get]. fold X. rewrite id_cmp_refl. reflexivity. }
          assert (Hci0 : copy_inv own0) by (eapply (cli_copies _ Hninv); apply nm_get_in; exact Hget).
          destruct (set_all_gc_hb initial (inc_heartbeat new_copy)) as [Hgc0 _]. fold own0 in Hgc0. cbn in Hgc0.
          assert (Hos : own_step new_copy own0).
          { split; cbn [new_copy c_kvs c_max c_hb c_gc].
            - intros k v Hin. right. apply (ci_range _ Hci0 k v Hin).
            - apply N.le_0_l.
            - apply N.le_0_l.
            - rewrite Hgc0. apply N.le_0_l. }
          apply (sync_truth_ok (g_T g) X new_copy own0 (gi_wf g Hg) (new_copy_int _ _)
                    (eq_sym Hmax0) (eq_sym Hhb0) Hci0 Hos).
        * rewrite new_node_cluster. unfold nm_get, self_id. cbn [cs_nodes sm_get nd_cfg new_node].
          change (nd_cfg (new_node cfg initial)) with cfg. rewrite id_cmp_refl. reflexivity.
    - (* local write *)
      destruct (gi_nodes g Hg a n H) as [Hinv Hint (c & Hc & Hm & Hh)].
      pose proof (Hgc a n H c Hc) as Hgcc.
      assert (Hcinv : copy_inv c) by (eapply (cli_copies _ Hinv); apply nm_get_in; exact Hc).
      assert (Hshape : fst (on_own n f) = with_cs n (mkCluster (nm_insert (self_id n) (fst (f c)) (cs_nodes (nd_cs n))) (cs_gcn (nd_cs n)))).
      { unfold on_own, node_state_mut_or_init. rewrite Hc, Hc. destruct (f c). reflexivity. }
      assert (Hown' : nm_get (self_id n) (cs_nodes (nd_cs (fst (on_own n f)))) = Some (fst (f c))).
      { rewrite Hshape. cbn [nd_cs with_cs cs_nodes]. apply nm_get_insert_same. }
      assert (Hoc : own_copy (fst (on_own n f)) = fst (f c)).
      { apply own_copy_spec. rewrite self_id_on_own. exact Hown'. }
      rewrite Hoc in *.
      assert (Hfc : copy_inv (fst (f c)) /\ own_step c (fst (f c)) /\ write_shape c (fst (f c))).
      { destruct H0; cbn [fst].
        - split; [apply set_inv; exact Hcinv|]. split; [apply own_step_set; exact Hgcc|].
          apply (lwrite_shape (w_now (g_w g)) c k v Hcinv).
        - split; [apply set_with_ttl_inv; exact Hcinv|]. split; [apply own_step_set_ttl; exact Hgcc|].
          apply (lwrite_shape (w_now (g_w g)) c k v Hcinv).
        - split; [apply delete_inv; exact Hcinv|]. split; [apply own_step_delete; exact Hgcc|].
          apply (lwrite_shape (w_now (g_w g)) c k [] Hcinv).
        - split; [apply delete_after_ttl_inv; exact Hcinv|]. split; [apply own_step_delete_ttl; exact Hgcc|].
          apply (lwrite_shape (w_now (g_w g)) c k [] Hcinv). }
      destruct Hfc as (Hc'inv & Hos & Hws).
      destruct (sync_truth_ok (g_T g) (self_id n) c (fst (f c)) (gi_wf g Hg) (Hint _ _ Hc) Hm Hh Hc'inv Hos)
        as (Hle & Hwf' & _).
      apply (gie_node_step g a n); auto.
      + intros X d Hd. rewrite Hshape in Hd. cbn [nd_cs with_cs cs_nodes] in Hd.
        destruct (id_dec (self_id n) X) as [<-|Hne].
        * rewrite nm_get_insert_same in Hd. injection Hd as <-.
          destruct (Hn a n H _ _ Hc) as [Hh0 Hc0].
          destruct Hws as [E0|(k0 & v0 & E1 & E2 & E3 & E4 & _)].
          -- rewrite E0 in *. split; [eapply Hold_mono|eapply Compl_mono]; try eassumption; try apply Hg; apply (Hint _ _ Hc).
          -- apply (owner_write_exact (g_T g) _ (self_id n) c (fst (f c)) k0 v0 (gi_wf g Hg) Hcinv (Hint _ _ Hc) Hm Hgcc Hh0 Hc0 E1 E2 E3 E4).
             intros w; cbn [sync_truth t_wrote]; unfold sync_wrote; reflexivity.
        * rewrite nm_get_insert_other in Hd by exact Hne.
          destruct (Hn a n H _ _ Hd) as [Hh0 Hc0].
          split; [eapply Hold_mono|eapply Compl_mono]; try eassumption; try apply Hg; apply (Hint _ _ Hd).
      + apply sent_dinv_mono; assumption.
    - (* gc *)
      destruct (gi_nodes g Hg a n H) as [Hinv Hint _].
      apply (gie_node_step g a n); auto; [apply t_le_refl|].
      intros X d Hd. unfold gc_keys, cluster_gc in Hd. cbn [nd_cs with_cs cs_nodes] in Hd.
      rewrite nm_get_map_snd in Hd. destruct (nm_get X (cs_nodes (nd_cs n))) as [c0|] eqn:E; [|discriminate].
      injection Hd as <-. destruct (Hn a n H _ _ E) as [Hh0 Hc0].
      apply gc_exact_inv; auto. eapply (cli_copies _ Hinv). apply nm_get_in. exact E.
    - (* heartbeat *)
      destruct (gi_nodes g Hg a n H) as [Hinv Hint _].
      apply (gie_node_step g a n); auto.
      + apply t_le_bump.
      + apply update_self_heartbeat_exact; [apply bump_wf; apply Hg|].
        eapply node_exact_mono; [apply t_le_bump|apply Hg|exact Hint|apply (Hn a); exact H].
      + apply sent_dinv_mono; [exact HE|apply t_le_bump].
    - (* tick *)
      split; [exact Hbase'|exact Hn|exact Hs].
    - (* eval *)
      destruct (gi_nodes g Hg a n H) as [Hinv Hint _].
      apply (gie_node_step g a n); auto; [apply t_le_refl|].
      intros X d Hd. unfold update_nodes_liveness in Hd. cbv zeta in Hd.
      destruct (fd_garbage_collect _ _ _) as [f2 col]. cbn [nd_cs] in Hd.
      rewrite fold_remove_node_get in Hd by apply Hinv. destruct (_ && _); [discriminate|].
      apply (Hn a n H). exact Hd.
    - (* syn *)
      split; [exact Hbase'|exact Hn|]. intros m [<-|Hm]; [exact I|apply Hs; exact Hm].
    - (* deliver, no weak acceptance *)
      destruct (gi_nodes g Hg a n H) as [Hinv Hint Hown]. destruct (gi_sent g Hg m H0) as [Hmi Hmw].
      destruct (process_message_exact zc zc_len (g_T g) _ n m ord n' reply evs (gi_wf g Hg) Hinv Hint Hown
                  (Hn a n H) Hmi Hmw (Hs m H0) (H1 eq_refl) H2) as [He' Hr'].
      apply (gie_node_step g a n); auto; [apply t_le_bump|].
      intros m0 Hm0. destruct reply as [r|]; cbn [opt_cons] in Hm0.
      + destruct Hm0 as [<-|Hm0]; [exact Hr'|]. apply (sent_dinv_mono g); [exact HE|apply t_le_bump|exact Hm0].
      + apply (sent_dinv_mono g); [exact HE|apply t_le_bump|exact Hm0].
  Qed.

  Lemma ginve_init : GInvE (g_init).
  Proof.
    split; [apply ginv_init| |intros m []].
    intros a n H. unfold node_at in H. destruct a; discriminate.
  Qed.

  Theorem reachable_exact : forall g, reachable zc true g -> GInvE g.
  Proof.
    induction 1 as [|g g' Hr IH Hstep]; [apply ginve_init|]. eapply gstep_exact; eauto.
  Qed.
End GlobalE.
