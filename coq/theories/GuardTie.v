(* GuardTie.v — the guards of the model's decision functions decide what the guards in the Rust
   sources decide today (GuardsGen.v, regenerated on every run by tools/guards.py).
   For each guard: [g_x] is the model's guard (the model function is shown, by computation, to be
   the decision tree over the [g_x]), [rs_x] the translation of the Rust expression, and the tie is

       (forall args, rs_x args = g_x args)  \/  (forall args, rs_x args = negb (g_x args))

   — the two cut the operands' space along the same boundary.  The polarity is left open on purpose:
   a rewrite that tests the opposite condition and swaps the branches is harmless, and the
   translator does not read branches; a guard negated WITHOUT swapping the branches changes every
   outcome and no correspondence suite survives it.  What the tie pins down is the boundary:
   `<` for `<=`, another operand, a dropped or added conjunct break it on the next run, before any
   random history has to land on the boundary.  Proofs are "unfold; lia" so that every respelling
   that decides the same goes through. *)
From Coq Require Import Lia ZifyBool ZifyN NArith ZArith Bool List.
From ChitchatModel Require Import Base SMap Ids Bytes Params NodeState Stream DeltaWire Message Cluster
  FD Chitchat GuardsGen.

Ltac bool_tac := try reflexivity; lia.
Ltac tie_tac unf := first [ left; intros; unf; bool_tac | right; intros; unf; bool_tac ].

(* ---------- NodeState::check_delta_status (state.rs:143-183) ---------- *)
Definition g_cds_future (dfrom cmax : N) : bool := (cmax <? dfrom)%N.
Definition g_cds_compat (dgc cgc cmax : N) : bool := ((dgc <=? cgc) || (dgc <=? cmax))%N.
Definition g_cds_from_nonzero (dfrom : N) : bool := negb (dfrom =? 0)%N.
Definition g_cds_newer (cmax dmax : N) : bool := (cmax <? dmax)%N.

Theorem check_delta_status_is_the_tree c d :
  check_delta_status c d =
  if g_cds_future (d_from d) (c_max c) then Reject
  else if negb (g_cds_compat (d_gc d) (c_gc c) (c_max c))
       then (if g_cds_from_nonzero (d_from d) then Reject else ApplyAfterReset)
       else if g_cds_newer (c_max c) (d_max d) then Apply else Reject.
Proof. reflexivity. Qed.

(* (each translation takes every operand of the function, so that a guard reading another operand is
   refuted rather than skipped) *)
Theorem tie_cds_future :
  (forall dgc cgc cmax dmax dfrom, rs_cds_future dgc cgc cmax dmax dfrom = g_cds_future dfrom cmax) \/
  (forall dgc cgc cmax dmax dfrom, rs_cds_future dgc cgc cmax dmax dfrom = negb (g_cds_future dfrom cmax)).
Proof. tie_tac ltac:(unfold rs_cds_future, g_cds_future). Qed.
Theorem tie_cds_compat :
  (forall dgc cgc cmax dmax dfrom, rs_cds_compat dgc cgc cmax dmax dfrom = g_cds_compat dgc cgc cmax) \/
  (forall dgc cgc cmax dmax dfrom, rs_cds_compat dgc cgc cmax dmax dfrom = negb (g_cds_compat dgc cgc cmax)).
Proof. tie_tac ltac:(unfold rs_cds_compat, g_cds_compat). Qed.
Theorem tie_cds_from_nonzero :
  (forall dgc cgc cmax dmax dfrom, rs_cds_from_nonzero dgc cgc cmax dmax dfrom = g_cds_from_nonzero dfrom) \/
  (forall dgc cgc cmax dmax dfrom, rs_cds_from_nonzero dgc cgc cmax dmax dfrom = negb (g_cds_from_nonzero dfrom)).
Proof. tie_tac ltac:(unfold rs_cds_from_nonzero, g_cds_from_nonzero). Qed.
Theorem tie_cds_newer :
  (forall dgc cgc cmax dmax dfrom, rs_cds_newer dgc cgc cmax dmax dfrom = g_cds_newer cmax dmax) \/
  (forall dgc cgc cmax dmax dfrom, rs_cds_newer dgc cgc cmax dmax dfrom = negb (g_cds_newer cmax dmax)).
Proof. tie_tac ltac:(unfold rs_cds_newer, g_cds_newer). Qed.

(* ---------- the sender's reset decision (state.rs:670-681) ---------- *)
Definition g_should_reset (dgc dmax sgc : N) : bool := ((dgc <? sgc) && (dmax <? sgc))%N.
Theorem stale_candidate_uses_the_guard dg sched i c n :
  stale_candidate dg sched (i, c) = Some n ->
  let '(dgc, dmax) := match dg_get i dg with Some g => (g_gc g, g_max g) | None => (0, 0)%N end in
  sn_from n = if g_should_reset dgc dmax (c_gc c) then 0%N else dmax.
Proof.
  unfold stale_candidate. destruct (in_ids i sched); [discriminate|].
  destruct (match dg_get i dg with Some g => (g_gc g, g_max g) | None => (0, 0)%N end) as [dgc dmax].
  destruct (c_max c <=? dmax)%N; [discriminate|].
  destruct (staleness_score c _) as [s|] eqn:Es; [|discriminate]. intros [= <-]. reflexivity.
Qed.
Theorem tie_should_reset :
  (forall dgc dmax sgc smax, rs_should_reset dgc dmax sgc smax = g_should_reset dgc dmax sgc) \/
  (forall dgc dmax sgc smax, rs_should_reset dgc dmax sgc smax = negb (g_should_reset dgc dmax sgc)).
Proof. tie_tac ltac:(unfold rs_should_reset, g_should_reset). Qed.

(* ---------- NodeState::try_set_heartbeat (state.rs:374-387) ---------- *)
Definition g_hb_first (hb : N) : bool := (hb =? 0)%N.
Definition g_hb_fresh (nhb hb : N) : bool := (hb <? nhb)%N.
Theorem try_set_heartbeat_is_the_tree c hb :
  try_set_heartbeat c hb =
  if g_hb_first (c_hb c) then (mkCopy hb (c_gc c) (c_max c) (c_kvs c), false)
  else if g_hb_fresh hb (c_hb c) then (mkCopy hb (c_gc c) (c_max c) (c_kvs c), true)
  else (c, false).
Proof. reflexivity. Qed.
Theorem tie_hb_first :
  (forall hb nhb, rs_hb_first hb nhb = g_hb_first hb) \/ (forall hb nhb, rs_hb_first hb nhb = negb (g_hb_first hb)).
Proof. tie_tac ltac:(unfold rs_hb_first, g_hb_first). Qed.
Theorem tie_hb_fresh :
  (forall nhb hb, rs_hb_fresh nhb hb = g_hb_fresh nhb hb) \/ (forall nhb hb, rs_hb_fresh nhb hb = negb (g_hb_fresh nhb hb)).
Proof. tie_tac ltac:(unfold rs_hb_fresh, g_hb_fresh). Qed.

(* ---------- the failure detector (failure_detector.rs:220-233, 81-94, 107-121) ---------- *)
Definition g_fd_interval (interval maxi : Z) : bool := (interval <=? maxi)%Z.
Definition g_fd_gc (now tod grace : Z) : bool := (tod + grace <=? now)%Z.
Definition g_fd_sched (now tod half : Z) : bool := (tod + half <? now)%Z.
Theorem win_report_is_the_tree cfg now w :
  win_report cfg now w =
  match wd_last w with
  | Some last =>
      if g_fd_interval (now - last) (max_interval cfg)
      then mkWin (firstn (window_size cfg) ((now - last)%Z :: wd_vals w)) (Some now)
      else mkWin (wd_vals w) (Some now)
  | None => mkWin (wd_vals w) (Some now)
  end.
Proof. reflexivity. Qed.
Theorem fd_collects_by_the_guard cfg now f :
  snd (fd_garbage_collect cfg now f) = map fst (filter (fun e => g_fd_gc now (snd e) (dead_grace cfg)) (fd_dead f)).
Proof. reflexivity. Qed.
Theorem fd_schedules_by_the_guard cfg now f :
  fd_scheduled_for_deletion cfg now f = map fst (filter (fun e => g_fd_sched now (snd e) (half_grace cfg)) (fd_dead f)).
Proof. reflexivity. Qed.
Theorem tie_fd_interval :
  (forall i m, rs_fd_interval i m = g_fd_interval i m) \/ (forall i m, rs_fd_interval i m = negb (g_fd_interval i m)).
Proof. tie_tac ltac:(unfold rs_fd_interval, g_fd_interval). Qed.
Theorem tie_fd_gc :
  (forall now tod grace, rs_fd_gc now tod grace = g_fd_gc now tod grace) \/
  (forall now tod grace, rs_fd_gc now tod grace = negb (g_fd_gc now tod grace)).
Proof. tie_tac ltac:(unfold rs_fd_gc, g_fd_gc). Qed.
Theorem tie_fd_sched :
  (forall now tod half, rs_fd_sched now tod half = g_fd_sched now tod half) \/
  (forall now tod half, rs_fd_sched now tod half = negb (g_fd_sched now tod half)).
Proof. tie_tac ltac:(unfold rs_fd_sched, g_fd_sched). Qed.

(* ---------- Chitchat::report_heartbeat (lib.rs:194-198), reset_node_state_if_update (lib.rs:358-377):
   the expressions the model evaluates at those places ---------- *)
Definition g_recreate (last hb : N) : bool := (last <? hb)%N.
Definition g_catchup_uptodate (cmax mx : N) : bool := (mx <=? cmax)%N.
Definition g_catchup_obsolete (mx cgc : N) : bool := (mx <? cgc)%N.
Theorem tie_recreate :
  (forall last hb, rs_recreate last hb = g_recreate last hb) \/ (forall last hb, rs_recreate last hb = negb (g_recreate last hb)).
Proof. tie_tac ltac:(unfold rs_recreate, g_recreate). Qed.
Theorem tie_catchup_uptodate :
  (forall cmax mx, rs_catchup_uptodate cmax mx = g_catchup_uptodate cmax mx) \/
  (forall cmax mx, rs_catchup_uptodate cmax mx = negb (g_catchup_uptodate cmax mx)).
Proof. tie_tac ltac:(unfold rs_catchup_uptodate, g_catchup_uptodate). Qed.
Theorem tie_catchup_obsolete :
  (forall mx cgc, rs_catchup_obsolete mx cgc = g_catchup_obsolete mx cgc) \/
  (forall mx cgc, rs_catchup_obsolete mx cgc = negb (g_catchup_obsolete mx cgc)).
Proof. tie_tac ltac:(unfold rs_catchup_obsolete, g_catchup_obsolete). Qed.

(* the model evaluates exactly these guards at those places *)
Theorem report_heartbeat_uses_the_guard now n i hb :
  report_heartbeat now n i hb =
  if id_eqb i (self_id n) then n
  else
    let should_init :=
      match last_heartbeat_if_deleted (nd_cs n) i with
      | Some last => g_recreate last hb
      | None => true
      end in
    let cs := if should_init then node_state_mut_or_init (nd_cs n) i else nd_cs n in
    match nm_get i (cs_nodes cs) with
    | None => with_cs n cs
    | Some c =>
        let '(c', fresh) := try_set_heartbeat c hb in
        let n1 := with_cs n (mkCluster (nm_insert i c' (cs_nodes cs)) (cs_gcn cs)) in
        if fresh then with_fd n1 (fd_report_heartbeat (cf_fd (nd_cfg n)) now (nd_fd n1) i) else n1
    end.
Proof. reflexivity. Qed.

Definition g_catchup_new_gc (gc cgc : N) : N := N.max gc cgc.
Definition g_catchup_new_max (mx cmax : N) : N := N.max mx cmax.
Theorem catchup_uses_the_guards n i kvs mx gc :
  reset_node_state_if_update n i kvs mx gc =
  let should_init := match last_heartbeat_if_deleted (nd_cs n) i with None => true | Some _ => false end in
  let cs := if should_init then node_state_mut_or_init (nd_cs n) i else nd_cs n in
  match nm_get i (cs_nodes cs) with
  | None => Ok (with_cs n cs, [])
  | Some c =>
      if g_catchup_uptodate (c_max c) mx then Ok (with_cs n cs, [])
      else if g_catchup_obsolete mx (c_gc c) then Ok (with_cs n cs, [])
      else
        let f := fd_get_or_create (nd_fd n) i in
        let '(c1, evs) := set_many c kvs [] in
        let kept := filter (fun e => in_keys (fst e) kvs) (c_kvs c1) in
        let c2 := mkCopy (c_hb c1) (g_catchup_new_gc gc (c_gc c1)) (g_catchup_new_max mx (c_max c1)) kept in
        if lex_lt (monotonic_property c) (monotonic_property c2)
        then Ok (with_fd (with_cs n (mkCluster (nm_insert i c2 (cs_nodes cs)) (cs_gcn cs))) f,
                 map (fun e => (i, fst e, snd e)) evs)
        else Panic
  end.
Proof. reflexivity. Qed.
Theorem tie_catchup_new_gc : forall gc cgc mx cmax, rs_catchup_new_gc gc cgc mx cmax = g_catchup_new_gc gc cgc.
Proof. intros; unfold rs_catchup_new_gc, g_catchup_new_gc; lia. Qed.
Theorem tie_catchup_new_max : forall gc cgc mx cmax, rs_catchup_new_max gc cgc mx cmax = g_catchup_new_max mx cmax.
Proof. intros; unfold rs_catchup_new_max, g_catchup_new_max; lia. Qed.

(* ---------- tombstone GC of one copy (state.rs:398-419) ---------- *)
Definition g_gc_keep (now t grace : Z) : bool := (now <? t + grace)%Z.
Definition g_gc_watermark (ver acc : N) : N := N.max ver acc.
Theorem gc_uses_the_guards now grace c :
  (forall v, gc_collectable now grace v =
     match time_of_start_scheduled_for_deletion (v_st v) with None => false | Some t => negb (g_gc_keep now t grace) end) /\
  gc_keys_marked_for_deletion now grace c =
    let removed := filter (fun kv => gc_collectable now grace (snd kv)) (c_kvs c) in
    mkCopy (c_hb c) (fold_left (fun g kv => g_gc_watermark (v_ver (snd kv)) g) removed (c_gc c)) (c_max c)
           (filter (fun kv => negb (gc_collectable now grace (snd kv))) (c_kvs c)).
Proof. split; reflexivity. Qed.
Theorem tie_gc_keep :
  (forall now t grace, rs_gc_keep now t grace = g_gc_keep now t grace) \/
  (forall now t grace, rs_gc_keep now t grace = negb (g_gc_keep now t grace)).
Proof. tie_tac ltac:(unfold rs_gc_keep, g_gc_keep). Qed.
Theorem tie_gc_watermark : forall ver acc cgc, rs_gc_watermark ver acc cgc = g_gc_watermark ver acc.
Proof. intros; unfold rs_gc_watermark, g_gc_watermark; lia. Qed.

(* ---------- NodeState::set_versioned_value (state.rs:446-475) and the key-value loop of apply_delta
   (state.rs:219-238) ---------- *)
Definition g_svv_max (ver cmax : N) : N := N.max ver cmax.
Definition g_svv_older (old ver : N) : bool := (ver <=? old)%N.
Definition g_apply_known (ver cmax : N) : bool := (ver <=? cmax)%N.
Definition g_apply_collected (ver cgc : N) : bool := (ver <=? cgc)%N.
Theorem set_versioned_value_is_the_tree c k v :
  set_versioned_value c k v =
  let mx := g_svv_max (v_ver v) (c_max c) in
  let ev := if is_deleted v then [] else [(k, v_val v)] in
  match kget k (c_kvs c) with
  | Some old =>
      if g_svv_older (v_ver old) (v_ver v)
      then (mkCopy (c_hb c) (c_gc c) mx (c_kvs c), [])
      else (mkCopy (c_hb c) (c_gc c) mx (kinsert k v (c_kvs c)), ev)
  | None => (mkCopy (c_hb c) (c_gc c) mx (kinsert k v (c_kvs c)), ev)
  end.
Proof. reflexivity. Qed.
Theorem apply_kv_is_the_tree now current_max acc m :
  apply_kv now current_max acc m =
  let '(c, evs) := acc in
  if g_apply_known (m_ver m) current_max then acc
  else if mscheduled (m_st m) && g_apply_collected (m_ver m) (c_gc c) then acc
  else
    let '(c', ev) := set_versioned_value c (m_key m) (mkVV (m_val m) (m_ver m) (into_status (m_st m) now)) in
    (c', evs ++ ev).
Proof. reflexivity. Qed.
Theorem tie_svv_max : forall ver cmax, rs_svv_max ver cmax = g_svv_max ver cmax.
Proof. intros; unfold rs_svv_max, g_svv_max; lia. Qed.
Theorem tie_svv_older :
  (forall old ver, rs_svv_older old ver = g_svv_older old ver) \/ (forall old ver, rs_svv_older old ver = negb (g_svv_older old ver)).
Proof. tie_tac ltac:(unfold rs_svv_older, g_svv_older). Qed.
Theorem tie_apply_known :
  (forall ver cmax cgc, rs_apply_known ver cmax cgc = g_apply_known ver cmax) \/
  (forall ver cmax cgc, rs_apply_known ver cmax cgc = negb (g_apply_known ver cmax)).
Proof. tie_tac ltac:(unfold rs_apply_known, g_apply_known). Qed.
Theorem tie_apply_collected :
  (forall ver cmax cgc, rs_apply_collected ver cmax cgc = g_apply_collected ver cgc) \/
  (forall ver cmax cgc, rs_apply_collected ver cmax cgc = negb (g_apply_collected ver cgc)).
Proof. tie_tac ltac:(unfold rs_apply_collected, g_apply_collected). Qed.
