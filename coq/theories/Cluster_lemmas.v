(* Cluster_lemmas.v — ClusterState::apply_delta on grammar-valid deltas: never aborts, every copy's
   frontier moves forward, members are neither created nor removed, and the reset flag is raised
   exactly when some copy's GC watermark was raised (C04, C09, C20). *)
From Coq Require Import Lia.
From ChitchatModel Require Import Base SMap Ids Bytes NodeState Stream DeltaWire Message Cluster
  SMap_lemmas NodeState_lemmas Builder_lemmas.

Lemma nm_get_insert_same i c m : nm_get i (nm_insert i c m) = Some c.
Proof. apply (sm_get_insert_same id_cmp id_cmp_eq). Qed.
Lemma nm_get_insert_other i j c m : i <> j -> nm_get j (nm_insert i c m) = nm_get j m.
Proof. apply (sm_get_insert_other id_cmp id_cmp_eq). Qed.

Lemma id_dec (a b : id) : {a = b} + {a <> b}.
Proof.
  destruct (id_cmp a b) eqn:E.
  - left. apply id_cmp_eq. exact E.
  - right. intros ->. rewrite id_cmp_refl in E. discriminate.
  - right. intros ->. rewrite id_cmp_refl in E. discriminate.
Qed.

Definition is_reset (st : dstatus) : bool := match st with ApplyAfterReset => true | _ => false end.

Definition grew (a b : nmap) : Prop :=
  exists i c c', nm_get i a = Some c /\ nm_get i b = Some c' /\ c_gc c < c_gc c'.

Theorem cluster_apply_nds_spec : forall now l nodes reset evs,
  Forall nd_bounded l ->
  exists nodes' reset' evs',
    cluster_apply_nds now nodes l reset evs = Ok (nodes', reset', evs') /\
    (forall i, nm_get i nodes = None -> nm_get i nodes' = None) /\
    (forall i c, nm_get i nodes = Some c ->
       exists c', nm_get i nodes' = Some c' /\ c_gc c <= c_gc c' /\
                  lex_le_p (monotonic_property c) (monotonic_property c')) /\
    (reset' = true <-> reset = true \/ grew nodes nodes').
Proof.
  intros now l. induction l as [|nd r IH]; intros nodes reset evs Hall.
  - exists nodes, reset, evs. cbn. split; [reflexivity|]. split; [auto|]. split.
    + intros i c Hc. exists c. split; [exact Hc|]. split; [lia|]. right. split; [reflexivity|cbn; lia].
    + split; [auto|]. intros [H|(i & c & c' & H1 & H2 & H3)]; [exact H|]. rewrite H1 in H2. injection H2 as <-. lia.
  - inversion Hall as [|? ? Hnd Hr]; subst. cbn [cluster_apply_nds].
    destruct (nm_get (d_id nd) nodes) as [c|] eqn:Hget.
    2:{ apply IH. exact Hr. }
    destruct (apply_delta_frontier now c nd Hnd) as (c1 & st & ev & Hok & Hst & Hle & HR & HA & HX).
    rewrite Hok. rewrite (proj2 (lex_le_iff _ _) Hle).
    set (nodes1 := nm_insert (d_id nd) c1 nodes).
    destruct (IH nodes1 (reset || match st with ApplyAfterReset => true | _ => false end)
                 (evs ++ map (fun e => (d_id nd, fst e, snd e)) ev) Hr)
      as (nodes' & reset' & evs' & Hrun & Hnone & Hsome & Hres).
    exists nodes', reset', evs'. split; [exact Hrun|].
    assert (Hgc1 : c_gc c <= c_gc c1).
    { destruct st.
      - destruct (HR eq_refl) as [-> _]. lia.
      - destruct (HA eq_refl) as (Hg & _). lia.
      - destruct (HX eq_refl) as (Hg & _). lia. }
    split; [|split].
    + intros i Hi. apply Hnone. unfold nodes1.
      destruct (id_dec (d_id nd) i) as [<-|Hne]; [congruence|].
      rewrite nm_get_insert_other by exact Hne. exact Hi.
    + intros i ci Hi. destruct (id_dec (d_id nd) i) as [<-|Hne].
      * rewrite Hget in Hi. injection Hi as <-.
        destruct (Hsome (d_id nd) c1) as (c' & Hc' & Hg' & Hl').
        { unfold nodes1. apply nm_get_insert_same. }
        exists c'. split; [exact Hc'|]. split; [lia|].
        unfold lex_le_p, monotonic_property in *. cbn [fst snd] in *. lia.
      * apply Hsome. unfold nodes1. rewrite nm_get_insert_other by exact Hne. exact Hi.
    + rewrite Hres. split.
      * intros [Hr1|(i & ci & c' & H1 & H2 & H3)].
        -- apply orb_true_iff in Hr1 as [Hr1|Hr1]; [left; exact Hr1|].
           right. destruct st; try discriminate.
           destruct (HX eq_refl) as (Hg & _).
           destruct (Hsome (d_id nd) c1) as (c' & Hc' & Hg' & _).
           { unfold nodes1. apply nm_get_insert_same. }
           exists (d_id nd), c, c'. repeat split; auto. lia.
        -- right. destruct (id_dec (d_id nd) i) as [<-|Hne].
           ++ unfold nodes1 in H1. rewrite nm_get_insert_same in H1. injection H1 as <-.
              exists (d_id nd), c, c'. repeat split; auto. lia.
           ++ unfold nodes1 in H1. rewrite nm_get_insert_other in H1 by exact Hne.
              exists i, ci, c'. repeat split; auto.
      * intros [Hr1|(i & ci & c' & H1 & H2 & H3)].
        -- left. rewrite Hr1. reflexivity.
        -- destruct (id_dec (d_id nd) i) as [<-|Hne].
           ++ rewrite Hget in H1. injection H1 as <-.
              destruct (N.lt_ge_cases (c_gc c) (c_gc c1)) as [Hlt|Hge].
              ** left. destruct st.
                 --- destruct (HR eq_refl) as [-> _]. lia.
                 --- destruct (HA eq_refl) as (Hg & _). lia.
                 --- apply orb_true_r.
              ** right. exists (d_id nd), c1, c'. split; [unfold nodes1; apply nm_get_insert_same|].
                 split; [exact H2|lia].
           ++ right. exists i, ci, c'. split; [unfold nodes1; rewrite nm_get_insert_other by exact Hne; exact H1|].
              split; assumption.
Qed.

Theorem cluster_apply_delta_spec : forall now cs x,
  Forall nd_bounded (nds x) ->
  exists cs' reset evs,
    cluster_apply_delta now cs x = Ok (cs', reset, evs) /\
    cs_gcn cs' = cs_gcn cs /\
    (forall i, nm_get i (cs_nodes cs) = None -> nm_get i (cs_nodes cs') = None) /\
    (forall i c, nm_get i (cs_nodes cs) = Some c ->
       exists c', nm_get i (cs_nodes cs') = Some c' /\ c_gc c <= c_gc c' /\
                  lex_le_p (monotonic_property c) (monotonic_property c')) /\
    (reset = true <-> grew (cs_nodes cs) (cs_nodes cs')).
Proof.
  intros now cs x Hb. unfold cluster_apply_delta.
  destruct (cluster_apply_nds_spec now (nds x) (cs_nodes cs) false [] Hb)
    as (nodes' & reset' & evs' & Hrun & Hnone & Hsome & Hres).
  rewrite Hrun. cbn [rmap]. exists (mkCluster nodes' (cs_gcn cs)), reset', evs'.
  cbn [cs_nodes cs_gcn]. repeat split; auto.
  - intros H. apply Hres in H as [H|H]; [discriminate|exact H].
  - intros H. apply Hres. right. exact H.
Qed.
