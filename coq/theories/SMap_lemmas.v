(* SMap_lemmas.v — generic facts about sorted association lists, and the key orders. *)
From Coq Require Import Lia.
From ChitchatModel Require Import Base SMap Ids.

Lemma b2n_inj a b : b2n a = b2n b -> a = b.
Proof.
  unfold b2n. intros H.
  assert (Ha := Byte.of_to_N a). assert (Hb := Byte.of_to_N b).
  rewrite H in Ha. rewrite Ha in Hb. congruence.
Qed.

Lemma bytes_cmp_eq a b : bytes_cmp a b = Eq <-> a = b.
Proof.
  revert b. induction a as [|x a IH]; destruct b as [|y b]; cbn; try (split; [discriminate|discriminate]).
  - split; reflexivity.
  - destruct (N.compare_spec (b2n x) (b2n y)) as [He|Hl|Hg].
    + apply b2n_inj in He. subst y. rewrite IH. split; [intros ->; reflexivity|intros [= ->]; reflexivity].
    + split; [discriminate|]. intros [= -> ->]. lia.
    + split; [discriminate|]. intros [= -> ->]. lia.
Qed.

Lemma bytes_cmp_refl a : bytes_cmp a a = Eq.
Proof. apply bytes_cmp_eq. reflexivity. Qed.

Lemma bytes_eqb_eq a b : bytes_eqb a b = true <-> a = b.
Proof.
  unfold bytes_eqb. rewrite <- bytes_cmp_eq. destruct (bytes_cmp a b); split; congruence.
Qed.

Lemma bytes_cmp_antisym a b : bytes_cmp b a = CompOpp (bytes_cmp a b).
Proof.
  revert b. induction a as [|x a IH]; destruct b as [|y b]; cbn; try reflexivity.
  rewrite (N.compare_antisym (b2n x) (b2n y)).
  destruct (N.compare (b2n x) (b2n y)); cbn; auto.
Qed.

Lemma bytes_cmp_trans a b c : bytes_cmp a b = Lt -> bytes_cmp b c = Lt -> bytes_cmp a c = Lt.
Proof.
  revert b c. induction a as [|x a IH]; destruct b as [|y b]; destruct c as [|z c]; cbn; try discriminate; auto.
  destruct (N.compare_spec (b2n x) (b2n y)) as [He|Hl|Hg]; try discriminate.
  - rewrite He. destruct (N.compare_spec (b2n y) (b2n z)); try discriminate; auto.
    intros H1 H2. eapply IH; eauto.
  - intros _. destruct (N.compare_spec (b2n y) (b2n z)) as [He2|Hl2|Hg2]; try discriminate.
    + rewrite <- He2. intros _. destruct (N.compare_spec (b2n x) (b2n y)); try lia; auto.
    + intros _. destruct (N.compare_spec (b2n x) (b2n z)); try lia; auto.
Qed.

Lemma cmp_then_eq c d : cmp_then c d = Eq <-> c = Eq /\ d = Eq.
Proof. destruct c; cbn; intuition congruence. Qed.

Lemma addr_cmp_eq a b : addr_cmp a b = Eq <-> a = b.
Proof.
  destruct a as [i p|i p], b as [j q|j q]; cbn; try (split; discriminate).
  - rewrite cmp_then_eq, !N.compare_eq_iff. split; [intros [-> ->]; reflexivity|intros [= -> ->]; auto].
  - rewrite cmp_then_eq, !N.compare_eq_iff. split; [intros [-> ->]; reflexivity|intros [= -> ->]; auto].
Qed.

Lemma id_cmp_eq a b : id_cmp a b = Eq <-> a = b.
Proof.
  unfold id_cmp. rewrite !cmp_then_eq, bytes_cmp_eq, N.compare_eq_iff, addr_cmp_eq.
  destruct a, b; cbn. split; [intros (-> & -> & ->); reflexivity|intros [= -> -> ->]; auto].
Qed.

Lemma id_cmp_refl a : id_cmp a a = Eq.
Proof. apply id_cmp_eq. reflexivity. Qed.

Lemma id_eqb_eq a b : id_eqb a b = true <-> a = b.
Proof.
  unfold id_eqb. rewrite <- id_cmp_eq. destruct (id_cmp a b); split; congruence.
Qed.

Lemma id_eqb_refl a : id_eqb a a = true.
Proof. apply id_eqb_eq. reflexivity. Qed.

Section Generic.
  Context {K V : Type}.
  Variable cmp : K -> K -> comparison.
  Hypothesis cmp_eq : forall a b, cmp a b = Eq <-> a = b.

  Lemma sm_get_insert_same k v (m : smap K V) : sm_get cmp k (sm_insert cmp k v m) = Some v.
  Proof.
    induction m as [|[k0 v0] r IH]; cbn.
    - replace (cmp k k) with Eq by (symmetry; apply cmp_eq; reflexivity). reflexivity.
    - destruct (cmp k k0) eqn:Hc; cbn.
      + replace (cmp k k) with Eq by (symmetry; apply cmp_eq; reflexivity). reflexivity.
      + replace (cmp k k) with Eq by (symmetry; apply cmp_eq; reflexivity). reflexivity.
      + rewrite Hc. exact IH.
  Qed.

  Lemma sm_get_insert_other k k' v (m : smap K V) :
    k <> k' -> sm_get cmp k' (sm_insert cmp k v m) = sm_get cmp k' m.
  Proof.
    intros Hne.
    assert (Hkk : cmp k' k <> Eq) by (intros H; apply cmp_eq in H; congruence).
    induction m as [|[k0 v0] r IH]; cbn.
    - destruct (cmp k' k); congruence.
    - destruct (cmp k k0) eqn:Hc; cbn.
      + apply cmp_eq in Hc. subst k0. destruct (cmp k' k); congruence.
      + destruct (cmp k' k); try congruence; reflexivity.
      + destruct (cmp k' k0); auto.
  Qed.

  Lemma sm_get_in k v (m : smap K V) : sm_get cmp k m = Some v -> In (k, v) m.
  Proof.
    induction m as [|[k0 v0] r IH]; cbn; [discriminate|].
    destruct (cmp k k0) eqn:Hc; intros H.
    - apply cmp_eq in Hc. subst. injection H as ->. left; reflexivity.
    - right; auto.
    - right; auto.
  Qed.

  Lemma in_sm_insert k v x (m : smap K V) :
    In x (sm_insert cmp k v m) -> x = (k, v) \/ In x m.
  Proof.
    induction m as [|[k0 v0] r IH]; cbn.
    - intuition.
    - destruct (cmp k k0); cbn; intuition.
  Qed.

  Lemma in_sm_insert_key k v k' v' (m : smap K V) :
    In (k', v') (sm_insert cmp k v m) -> (k' = k /\ v' = v) \/ (k' <> k /\ In (k', v') m) \/ (k' = k).
  Proof.
    intros H. apply in_sm_insert in H as [H|H].
    - injection H as -> ->. left; auto.
    - destruct (cmp k' k) eqn:Hc.
      + apply cmp_eq in Hc. right; right; exact Hc.
      + right; left; split; auto. intros ->. rewrite (proj2 (cmp_eq k k) eq_refl) in Hc. discriminate.
      + right; left; split; auto. intros ->. rewrite (proj2 (cmp_eq k k) eq_refl) in Hc. discriminate.
  Qed.
End Generic.
