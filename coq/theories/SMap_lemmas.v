(* SMap_lemmas.v — generic facts about sorted association lists, and the key orders. *)
From Coq Require Import Lia.
From ChitchatModel Require Import Base SMap Ids.

Lemma b2n_inj a b : b2n a = b2n b -> a = b.
Proof.
  unfold b2n. intros H.
  assert (Ha := Byte.of_to_N a). assert (Hb := Byte.of_to_N b).
  rewrite H in Ha. rewrite Ha in Hb. congruence.
Qed.

Lemma bytes_cmp_eq a b : bytes_cmp a b = Eq <-> a = b.
Proof.
  revert b. induction a as [|x a IH]; destruct b as [|y b]; cbn; try (split; [discriminate|discriminate]).
  - split; reflexivity.
  - destruct (N.compare_spec (b2n x) (b2n y)) as [He|Hl|Hg].
    + apply b2n_inj in He. subst y. rewrite IH. split; [intros ->; reflexivity|intros [= ->]; reflexivity].
    + split; [discriminate|]. intros [= -> ->]. lia.
    + split; [discriminate|]. intros [= -> ->]. lia.
Qed.

Lemma bytes_cmp_refl a : bytes_cmp a a = Eq.
Proof. apply bytes_cmp_eq. reflexivity. Qed.

Lemma bytes_eqb_eq a b : bytes_eqb a b = true <-> a = b.
Proof.
  unfold bytes_eqb. rewrite <- bytes_cmp_eq. destruct (bytes_cmp a b); split; congruence.
Qed.

Lemma bytes_cmp_antisym a b : bytes_cmp b a = CompOpp (bytes_cmp a b).
Proof.
  revert b. induction a as [|x a IH]; destruct b as [|y b]; cbn; try reflexivity.
  rewrite (N.compare_antisym (b2n x) (b2n y)).
  destruct (N.compare (b2n x) (b2n y)); cbn; auto.
Qed.

Lemma bytes_cmp_trans a b c : bytes_cmp a b = Lt -> bytes_cmp b c = Lt -> bytes_cmp a c = Lt.
Proof.
  revert b c. induction a as [|x a IH]; destruct b as [|y b]; destruct c as [|z c]; cbn; try discriminate; auto.
  destruct (N.compare_spec (b2n x) (b2n y)) as [He|Hl|Hg]; try discriminate.
  - rewrite He. destruct (N.compare_spec (b2n y) (b2n z)); try discriminate; auto.
    intros H1 H2. eapply IH; eauto.
  - intros _. destruct (N.compare_spec (b2n y) (b2n z)) as [He2|Hl2|Hg2]; try discriminate.
    + rewrite <- He2. intros _. destruct (N.compare_spec (b2n x) (b2n y)); try lia; auto.
    + intros _. destruct (N.compare_spec (b2n x) (b2n z)); try lia; auto.
Qed.

Lemma cmp_then_eq c d : cmp_then c d = Eq <-> c = Eq /\ d = Eq.
Proof. destruct c; cbn; intuition congruence. Qed.

Lemma addr_cmp_eq a b : addr_cmp a b = Eq <-> a = b.
Proof.
  destruct a as [i p|i p], b as [j q|j q]; cbn; try (split; discriminate).
  - rewrite cmp_then_eq, !N.compare_eq_iff. split; [intros [-> ->]; reflexivity|intros [= -> ->]; auto].
  - rewrite cmp_then_eq, !N.compare_eq_iff. split; [intros [-> ->]; reflexivity|intros [= -> ->]; auto].
Qed.

Lemma id_cmp_eq a b : id_cmp a b = Eq <-> a = b.
Proof.
  unfold id_cmp. rewrite !cmp_then_eq, bytes_cmp_eq, N.compare_eq_iff, addr_cmp_eq.
  destruct a, b; cbn. split; [intros (-> & -> & ->); reflexivity|intros [= -> -> ->]; auto].
Qed.

Lemma id_cmp_refl a : id_cmp a a = Eq.
Proof. apply id_cmp_eq. reflexivity. Qed.

Lemma id_eqb_eq a b : id_eqb a b = true <-> a = b.
Proof.
  unfold id_eqb. rewrite <- id_cmp_eq. destruct (id_cmp a b); split; congruence.
Qed.

Lemma id_eqb_refl a : id_eqb a a = true.
Proof. apply id_eqb_eq. reflexivity. Qed.

Section Generic.
  Context {K V : Type}.
  Variable cmp : K -> K -> comparison.
  Hypothesis cmp_eq : forall a b, cmp a b = Eq <-> a = b.

  Lemma sm_get_insert_same k v (m : smap K V) : sm_get cmp k (sm_insert cmp k v m) = Some v.
  Proof.
    induction m as [|[k0 v0] r IH]; cbn.
    - replace (cmp k k) with Eq by (symmetry; apply cmp_eq; reflexivity). reflexivity.
    - destruct (cmp k k0) eqn:Hc; cbn.
      + replace (cmp k k) with Eq by (symmetry; apply cmp_eq; reflexivity). reflexivity.
      + replace (cmp k k) with Eq by (symmetry; apply cmp_eq; reflexivity). reflexivity.
      + rewrite Hc. exact IH.
  Qed.

  Lemma sm_get_insert_other k k' v (m : smap K V) :
    k <> k' -> sm_get cmp k' (sm_insert cmp k v m) = sm_get cmp k' m.
  Proof.
    intros Hne.
    assert (Hkk : cmp k' k <> Eq) by (intros H; apply cmp_eq in H; congruence).
    induction m as [|[k0 v0] r IH]; cbn.
    - destruct (cmp k' k); congruence.
    - destruct (cmp k k0) eqn:Hc; cbn.
      + apply cmp_eq in Hc. subst k0. destruct (cmp k' k); congruence.
      + destruct (cmp k' k); try congruence; reflexivity.
      + destruct (cmp k' k0); auto.
  Qed.

  Lemma sm_get_in k v (m : smap K V) : sm_get cmp k m = Some v -> In (k, v) m.
  Proof.
    induction m as [|[k0 v0] r IH]; cbn; [discriminate|].
    destruct (cmp k k0) eqn:Hc; intros H.
    - apply cmp_eq in Hc. subst. injection H as ->. left; reflexivity.
    - right; auto.
    - right; auto.
  Qed.

  Lemma in_sm_insert k v x (m : smap K V) :
    In x (sm_insert cmp k v m) -> x = (k, v) \/ In x m.
  Proof.
    induction m as [|[k0 v0] r IH]; cbn.
    - intuition.
    - destruct (cmp k k0); cbn; intuition.
  Qed.

  Lemma in_sm_insert_key k v k' v' (m : smap K V) :
    In (k', v') (sm_insert cmp k v m) -> (k' = k /\ v' = v) \/ (k' <> k /\ In (k', v') m) \/ (k' = k).
  Proof.
    intros H. apply in_sm_insert in H as [H|H].
    - injection H as -> ->. left; auto.
    - destruct (cmp k' k) eqn:Hc.
      + apply cmp_eq in Hc. right; right; exact Hc.
      + right; left; split; auto. intros ->. rewrite (proj2 (cmp_eq k k) eq_refl) in Hc. discriminate.
      + right; left; split; auto. intros ->. rewrite (proj2 (cmp_eq k k) eq_refl) in Hc. discriminate.
  Qed.
End Generic.

(* ---------------- total-order facts for the key orders ---------------- *)
Lemma cmp_then_antisym c d c' d' :
  c' = CompOpp c -> d' = CompOpp d -> cmp_then c' d' = CompOpp (cmp_then c d).
Proof. intros -> ->. destruct c; reflexivity. Qed.

Lemma ncompare_antisym a b : N.compare b a = CompOpp (N.compare a b).
Proof. apply N.compare_antisym. Qed.

Lemma addr_cmp_antisym a b : addr_cmp b a = CompOpp (addr_cmp a b).
Proof.
  destruct a as [i p|i p], b as [j q|j q]; cbn; try reflexivity;
    apply cmp_then_antisym; apply ncompare_antisym.
Qed.

Lemma id_cmp_antisym a b : id_cmp b a = CompOpp (id_cmp a b).
Proof.
  unfold id_cmp. apply cmp_then_antisym; [apply bytes_cmp_antisym|].
  apply cmp_then_antisym; [apply ncompare_antisym|apply addr_cmp_antisym].
Qed.

Lemma bytes_cmp_eq_l a b c : bytes_cmp a b = Eq -> bytes_cmp a c = bytes_cmp b c.
Proof. intros H. apply bytes_cmp_eq in H. subst. reflexivity. Qed.

(* lexicographic composition preserves transitivity of Lt *)
Lemma cmp_then_trans {A B} (ca : A -> A -> comparison) (cb : B -> B -> comparison) :
  (forall x y, ca x y = Eq -> x = y) ->
  (forall x y z, ca x y = Lt -> ca y z = Lt -> ca x z = Lt) ->
  (forall x y z, cb x y = Lt -> cb y z = Lt -> cb x z = Lt) ->
  forall (x y z : A) (u v w : B),
    cmp_then (ca x y) (cb u v) = Lt -> cmp_then (ca y z) (cb v w) = Lt ->
    cmp_then (ca x z) (cb u w) = Lt.
Proof.
  intros Heq Hta Htb x y z u v w H1 H2.
  destruct (ca x y) eqn:E1; cbn in H1; try discriminate.
  - apply Heq in E1. subst y. destruct (ca x z) eqn:E2; cbn in *; try discriminate; auto.
    eapply Htb; eauto.
  - destruct (ca y z) eqn:E2; cbn in H2; try discriminate.
    + apply Heq in E2. subst z. rewrite E1. reflexivity.
    + rewrite (Hta _ _ _ E1 E2). reflexivity.
Qed.

Lemma ncompare_trans x y z : N.compare x y = Lt -> N.compare y z = Lt -> N.compare x z = Lt.
Proof. rewrite !N.compare_lt_iff. lia. Qed.
Lemma ncompare_eq x y : N.compare x y = Eq -> x = y.
Proof. apply N.compare_eq_iff. Qed.

Lemma addr_cmp_trans a b c : addr_cmp a b = Lt -> addr_cmp b c = Lt -> addr_cmp a c = Lt.
Proof.
  destruct a as [i p|i p], b as [j q|j q], c as [k r|k r]; cbn; try discriminate; auto;
    apply (cmp_then_trans N.compare N.compare ncompare_eq ncompare_trans ncompare_trans).
Qed.

Lemma id_cmp_trans a b c : id_cmp a b = Lt -> id_cmp b c = Lt -> id_cmp a c = Lt.
Proof.
  unfold id_cmp.
  apply (cmp_then_trans bytes_cmp
           (fun x y : N * addr => cmp_then (N.compare (fst x) (fst y)) (addr_cmp (snd x) (snd y)))
           (fun x y => proj1 (bytes_cmp_eq x y)) bytes_cmp_trans
           (fun x y z => cmp_then_trans N.compare addr_cmp ncompare_eq ncompare_trans addr_cmp_trans
                           (fst x) (fst y) (fst z) (snd x) (snd y) (snd z))
           (i_name a) (i_name b) (i_name c) (i_gen a, i_addr a) (i_gen b, i_addr b) (i_gen c, i_addr c)).
Qed.

(* ---------------- sortedness ---------------- *)
Section Sorted.
  Context {K V : Type}.
  Variable cmp : K -> K -> comparison.
  Hypothesis cmp_eq : forall a b, cmp a b = Eq <-> a = b.
  Hypothesis cmp_antisym : forall a b, cmp b a = CompOpp (cmp a b).
  Hypothesis cmp_trans : forall a b c, cmp a b = Lt -> cmp b c = Lt -> cmp a c = Lt.

  (* all keys of [m] are above [k] *)
  Definition above (k : K) (m : smap K V) : Prop := forall k' v', In (k', v') m -> cmp k k' = Lt.

  Lemma sorted_cons_iff k v (m : smap K V) :
    sm_sorted cmp ((k, v) :: m) <-> above k m /\ sm_sorted cmp m.
  Proof.
    revert k v. induction m as [|[k1 v1] r IH]; intros k v.
    - cbn. split; [intros _; split; [intros ? ? []|exact I]|auto].
    - split.
      + intros [H1 H2]. split; [|exact H2].
        apply IH in H2 as [Hab Hs]. intros k' v' [Heq|Hin].
        * injection Heq as <- <-. exact H1.
        * eapply cmp_trans; [exact H1|]. eapply Hab; eauto.
      + intros [Hab Hs]. split; [|exact Hs]. eapply Hab. left; reflexivity.
  Qed.

  Lemma sm_insert_sorted k v (m : smap K V) : sm_sorted cmp m -> sm_sorted cmp (sm_insert cmp k v m).
  Proof.
    induction m as [|[k0 v0] r IH]; intros Hs.
    - cbn. auto.
    - cbn [sm_insert]. destruct (cmp k k0) eqn:Hc.
      + apply cmp_eq in Hc. subst k0. apply sorted_cons_iff in Hs as [Hab Hs].
        apply sorted_cons_iff. split; assumption.
      + apply sorted_cons_iff. split; [|exact Hs].
        apply sorted_cons_iff in Hs as [Hab Hs']. intros k' v' [Heq|Hin].
        * injection Heq as <- <-. exact Hc.
        * eapply cmp_trans; [exact Hc|]. eapply Hab; eauto.
      + apply sorted_cons_iff in Hs as [Hab Hs]. apply sorted_cons_iff. split; [|apply IH; exact Hs].
        intros k' v' Hin. apply (in_sm_insert cmp) in Hin as [Heq|Hin].
        * injection Heq as <- <-. rewrite cmp_antisym, Hc. reflexivity.
        * eapply Hab; eauto.
  Qed.

  Lemma filter_sorted f (m : smap K V) : sm_sorted cmp m -> sm_sorted cmp (filter f m).
  Proof.
    induction m as [|[k0 v0] r IH]; intros Hs; [exact I|].
    apply sorted_cons_iff in Hs as [Hab Hs]. cbn [filter].
    destruct (f (k0, v0)); [|apply IH; exact Hs].
    apply sorted_cons_iff. split; [|apply IH; exact Hs].
    intros k' v' Hin. apply filter_In in Hin as [Hin _]. eapply Hab; eauto.
  Qed.

  Lemma in_sm_remove k x (m : smap K V) : In x (sm_remove cmp k m) -> In x m.
  Proof.
    induction m as [|[k1 v1] r IHr]; [auto|].
    cbn [sm_remove]. destruct (cmp k k1); [intros H; right; exact H| |];
      (intros [Heq|Hin]; [left; exact Heq|right; apply IHr; exact Hin]).
  Qed.

  Lemma sm_remove_sorted k (m : smap K V) : sm_sorted cmp m -> sm_sorted cmp (sm_remove cmp k m).
  Proof.
    induction m as [|[k0 v0] r IH]; intros Hs; [exact I|].
    apply sorted_cons_iff in Hs as [Hab Hs]. cbn [sm_remove].
    destruct (cmp k k0); try exact Hs.
    - apply sorted_cons_iff. split; [|apply IH; exact Hs].
      intros k' v' Hin. eapply Hab. eapply in_sm_remove; eauto.
    - apply sorted_cons_iff. split; [|apply IH; exact Hs].
      intros k' v' Hin. eapply Hab. eapply in_sm_remove; eauto.
  Qed.

  Lemma sorted_in_get k v (m : smap K V) : sm_sorted cmp m -> In (k, v) m -> sm_get cmp k m = Some v.
  Proof.
    induction m as [|[k0 v0] r IH]; intros Hs Hin; [destruct Hin|].
    apply sorted_cons_iff in Hs as [Hab Hs]. cbn [sm_get]. destruct Hin as [Heq|Hin].
    - injection Heq as -> ->. rewrite (proj2 (cmp_eq k k) eq_refl). reflexivity.
    - pose proof (Hab _ _ Hin) as Hlt. rewrite cmp_antisym, Hlt. cbn. apply IH; assumption.
  Qed.

  Lemma sorted_nodup_keys (m : smap K V) : sm_sorted cmp m -> NoDup (map fst m).
  Proof.
    induction m as [|[k0 v0] r IH]; intros Hs; [constructor|].
    apply sorted_cons_iff in Hs as [Hab Hs]. cbn. constructor; [|apply IH; exact Hs].
    intros Hin. apply in_map_iff in Hin as ([k' v'] & Hk & Hin). cbn in Hk. subst k'.
    pose proof (Hab _ _ Hin) as Hlt. rewrite (proj2 (cmp_eq k0 k0) eq_refl) in Hlt. discriminate.
  Qed.
End Sorted.

Section Sorted2.
  Context {K V : Type}.
  Variable cmp : K -> K -> comparison.
  Hypothesis cmp_eq : forall a b, cmp a b = Eq <-> a = b.
  Hypothesis cmp_antisym : forall a b, cmp b a = CompOpp (cmp a b).
  Hypothesis cmp_trans : forall a b c, cmp a b = Lt -> cmp b c = Lt -> cmp a c = Lt.

  (* re-inserting a binding that is already there changes nothing *)
  Lemma sm_insert_same k v (m : smap K V) :
    sm_sorted cmp m -> sm_get cmp k m = Some v -> sm_insert cmp k v m = m.
  Proof.
    induction m as [|[k0 v0] r IH]; intros Hs Hg; [discriminate|].
    apply (sorted_cons_iff cmp cmp_trans) in Hs as [Hab Hs]. cbn [sm_get sm_insert] in *.
    destruct (cmp k k0) eqn:E.
    - apply cmp_eq in E. subst k0. injection Hg as ->. reflexivity.
    - (* k < k0: then k is below every key of the map, it cannot be found *)
      exfalso. apply (sm_get_in cmp cmp_eq) in Hg. specialize (Hab _ _ Hg).
      pose proof (cmp_trans _ _ _ E Hab) as H. rewrite (proj2 (cmp_eq k k) eq_refl) in H. discriminate.
    - f_equal. apply IH; assumption.
  Qed.
End Sorted2.
