(* LruBound.v — the removed-member memory (lru::LruCache, state.rs:515, capacity
   GARBAGE_COLLECTED_NODE_HISTORY_SIZE) as a bounded structure: it never holds more than [cap]
   entries, and an entry pushed at removal is still there, with the same heartbeat, after any
   sequence of pushes / pops of OTHER members that contains fewer than [cap] pushes.  This is the
   quantitative content of the "remembered" premise of the C12 recreation rule (DESIGN section 8): a
   removed member can be forgotten only after [cap] further removals. *)
From Coq Require Import Lia.
From ChitchatModel Require Import Base SMap Ids Bytes Params NodeState Stream DeltaWire Message Cluster
  SMap_lemmas.
Local Open Scope nat_scope.

Inductive lru_op := LPush (k : id) (v : N) | LPop (k : id).
Definition lru_op_key (o : lru_op) : id := match o with LPush k _ => k | LPop k => k end.
Definition lru_apply (cap : nat) (l : lru) (o : lru_op) : lru :=
  match o with LPush k v => lru_push cap k v l | LPop k => lru_pop k l end.
Definition lru_pushes (ops : list lru_op) : nat :=
  length (filter (fun o => match o with LPush _ _ => true | LPop _ => false end) ops).

(* position of the entry of [k], most recently used = 0 *)
Fixpoint lru_pos (k : id) (l : lru) : option nat :=
  match l with
  | [] => None
  | (k0, _) :: r => if id_eqb k k0 then Some O else option_map S (lru_pos k r)
  end.

Lemma id_eqb_neq a b : a <> b -> id_eqb a b = false.
Proof. intros H. destruct (id_eqb a b) eqn:E; [apply id_eqb_eq in E; contradiction|reflexivity]. Qed.

Lemma lru_pos_lt k l p : lru_pos k l = Some p -> p < length l.
Proof.
  revert p; induction l as [|[k0 v0] r IH]; cbn [lru_pos length]; intros p H; [discriminate|].
  destruct (id_eqb k k0); [injection H as <-; lia|].
  destruct (lru_pos k r) as [q|]; cbn [option_map] in H; [|discriminate].
  injection H as <-. specialize (IH q eq_refl). lia.
Qed.

Lemma lru_remove_length k l : length (lru_remove k l) <= length l.
Proof.
  induction l as [|[k0 v0] r IH]; cbn [lru_remove length]; [lia|].
  destruct (id_eqb k k0); cbn [length]; lia.
Qed.

Lemma lru_remove_length_present k l v : lru_peek k l = Some v -> S (length (lru_remove k l)) = length l.
Proof.
  induction l as [|[k0 v0] r IH]; cbn [lru_remove lru_peek length]; [discriminate|].
  destruct (id_eqb k k0); [reflexivity|]. intros H. cbn [length]. rewrite (IH H). reflexivity.
Qed.

(* size bound: state.rs keeps at most GARBAGE_COLLECTED_NODE_HISTORY_SIZE removed members *)
Lemma lru_push_length cap k v l : 0 < cap -> length l <= cap -> length (lru_push cap k v l) <= cap.
Proof.
  intros Hc Hl. unfold lru_push. destruct (lru_peek k l) as [w|] eqn:E; cbn [length].
  - rewrite (lru_remove_length_present k l w E). exact Hl.
  - rewrite firstn_length. lia.
Qed.

Lemma lru_apply_length cap l o : 0 < cap -> length l <= cap -> length (lru_apply cap l o) <= cap.
Proof.
  intros Hc Hl. destruct o as [k v|k]; cbn [lru_apply].
  - apply lru_push_length; assumption.
  - unfold lru_pop. pose proof (lru_remove_length k l). lia.
Qed.

Theorem lru_never_exceeds_capacity cap ops : 0 < cap -> forall l, length l <= cap ->
  length (fold_left (lru_apply cap) ops l) <= cap.
Proof.
  intros Hc. induction ops as [|o ops IH]; cbn [fold_left]; intros l Hl; [exact Hl|].
  apply IH. apply lru_apply_length; assumption.
Qed.

(* removing another key: the entry of [k] keeps its value and does not move back *)
Lemma lru_remove_other k j l v p : j <> k -> lru_peek k l = Some v -> lru_pos k l = Some p ->
  lru_peek k (lru_remove j l) = Some v /\ exists q, lru_pos k (lru_remove j l) = Some q /\ q <= p.
Proof.
  intros Hjk. revert p; induction l as [|[k0 v0] r IH]; cbn [lru_peek lru_pos lru_remove]; intros p Hv Hp; [discriminate|].
  destruct (id_eqb j k0) eqn:Ej.
  - apply id_eqb_eq in Ej. subst k0. rewrite (id_eqb_neq k j) in Hv, Hp by congruence.
    destruct (lru_pos k r) as [q|]; cbn [option_map] in Hp; [|discriminate].
    injection Hp as <-. split; [exact Hv|]. exists q. split; [reflexivity|lia].
  - cbn [lru_peek lru_pos]. destruct (id_eqb k k0) eqn:Ek.
    + split; [exact Hv|]. injection Hp as <-. exists O. split; [reflexivity|lia].
    + destruct (lru_pos k r) as [q|] eqn:Eq; cbn [option_map] in Hp; [|discriminate].
      injection Hp as <-. destruct (IH q Hv eq_refl) as (Hv' & q' & Hq' & Hle).
      split; [exact Hv'|]. exists (S q'). rewrite Hq'. split; [reflexivity|lia].
Qed.

Lemma lru_firstn_keeps k l v p n : lru_peek k l = Some v -> lru_pos k l = Some p -> p < n ->
  lru_peek k (firstn n l) = Some v /\ lru_pos k (firstn n l) = Some p.
Proof.
  revert p n; induction l as [|[k0 v0] r IH]; cbn [lru_peek lru_pos]; intros p n Hv Hp Hn; [discriminate|].
  destruct n as [|n]; [lia|]. cbn [firstn lru_peek lru_pos].
  destruct (id_eqb k k0); [split; assumption|].
  destruct (lru_pos k r) as [q|] eqn:Eq; cbn [option_map] in Hp; [|discriminate].
  injection Hp as <-. destruct (IH q n Hv eq_refl ltac:(lia)) as [H1 H2].
  rewrite H1, H2. split; reflexivity.
Qed.

(* pushing another key moves the entry of [k] back by at most one, and keeps it while it is
   within the capacity *)
Lemma lru_push_other cap k j w l v p : j <> k -> lru_peek k l = Some v -> lru_pos k l = Some p -> S p < cap ->
  lru_peek k (lru_push cap j w l) = Some v /\ exists q, lru_pos k (lru_push cap j w l) = Some q /\ q <= S p.
Proof.
  intros Hjk Hv Hp Hc. unfold lru_push. destruct (lru_peek j l) as [x|].
  - cbn [lru_peek lru_pos]. rewrite (id_eqb_neq k j) by congruence.
    destruct (lru_remove_other k j l v p Hjk Hv Hp) as (Hv' & q & Hq & Hle).
    split; [exact Hv'|]. exists (S q). rewrite Hq. split; [reflexivity|lia].
  - cbn [lru_peek lru_pos]. rewrite (id_eqb_neq k j) by congruence.
    destruct (lru_firstn_keeps k l v p (Nat.pred cap) Hv Hp ltac:(lia)) as [H1 H2].
    split; [exact H1|]. exists (S p). rewrite H2. split; [reflexivity|lia].
Qed.

Theorem lru_retains_through_other_ops cap k v : forall ops l p,
  (forall o, In o ops -> lru_op_key o <> k) ->
  lru_peek k l = Some v -> lru_pos k l = Some p -> p + lru_pushes ops < cap ->
  lru_peek k (fold_left (lru_apply cap) ops l) = Some v.
Proof.
  induction ops as [|o ops IH]; cbn [fold_left]; intros l p Hk Hv Hp Hc; [exact Hv|].
  assert (Ho : lru_op_key o <> k) by (apply Hk; left; reflexivity).
  assert (Hk' : forall o', In o' ops -> lru_op_key o' <> k) by (intros o' Hin; apply Hk; right; exact Hin).
  destruct o as [j w|j]; cbn [lru_op_key] in Ho; unfold lru_pushes in Hc; cbn [filter length] in Hc;
    fold (lru_pushes ops) in Hc; cbn [lru_apply].
  - destruct (lru_push_other cap k j w l v p Ho Hv Hp ltac:(lia)) as (Hv' & q & Hq & Hle).
    apply (IH _ q Hk' Hv' Hq). lia.
  - unfold lru_pop. destruct (lru_remove_other k j l v p Ho Hv Hp) as (Hv' & q & Hq & Hle).
    apply (IH _ q Hk' Hv' Hq). lia.
Qed.

(* the entry pushed at removal survives any later traffic on other members that removes fewer
   than [cap] of them *)
Theorem lru_pushed_entry_retained cap k v l ops :
  (forall o, In o ops -> lru_op_key o <> k) -> lru_pushes ops < cap ->
  lru_peek k (fold_left (lru_apply cap) ops (lru_push cap k v l)) = Some v.
Proof.
  intros Hk Hc. apply (lru_retains_through_other_ops cap k v ops _ O Hk).
  - unfold lru_push. destruct (lru_peek k l); cbn [lru_peek]; rewrite id_eqb_refl; reflexivity.
  - unfold lru_push. destruct (lru_peek k l); cbn [lru_pos]; rewrite id_eqb_refl; reflexivity.
  - lia.
Qed.

(* the bound is tight: [cap] pushes of distinct other members do evict it *)
Example lru_evicts_after_cap_pushes :
  let a := mkId [] 1%N (V4 1%N 1%N) in
  let b := mkId [] 2%N (V4 1%N 1%N) in
  let c := mkId [] 3%N (V4 1%N 1%N) in
  lru_peek a (fold_left (lru_apply 2) [LPush b 5%N; LPush c 6%N] (lru_push 2 a 7%N [])) = None /\
  lru_peek a (fold_left (lru_apply 2) [LPush b 5%N; LPop c] (lru_push 2 a 7%N [])) = Some 7%N.
Proof. vm_compute. split; reflexivity. Qed.
