(* Bytes.v — primitive codecs of serialize.rs:35-293 (little-endian integers, length-prefixed
   UTF-8 strings, IpAddr/SocketAddr/ChitchatId). Model file. *)
From ChitchatModel Require Import Base Ids.

Definition byte_of_N (n : N) : byte :=
  match Byte.of_N (n mod 256) with Some b => b | None => x00 end.

(* n-byte little-endian encoding (to_le_bytes); the value is taken modulo 256^n *)
Fixpoint le_bytes (n : nat) (v : N) : bytes :=
  match n with
  | O => []
  | S n' => byte_of_N v :: le_bytes n' (v / 256)
  end.

Fixpoint le_value (b : bytes) : N :=
  match b with
  | [] => 0
  | x :: r => b2n x + 256 * le_value r
  end.

(* big-endian value of an octet array: how an ip address is turned into an integer *)
Definition be_value (b : bytes) : N := le_value (rev b).
Definition be_bytes (n : nat) (v : N) : bytes := rev (le_bytes n v).

Definition u16_max : N := 65535.

(* [u8; N]::deserialize : serialize.rs:221-230 *)
Fixpoint take_bytes (n : nat) (buf : bytes) : option (bytes * bytes) :=
  match n with
  | O => Some ([], buf)
  | S n' =>
      match buf with
      | [] => None
      | x :: r => match take_bytes n' r with Some (h, t) => Some (x :: h, t) | None => None end
      end
  end.

Definition get_le (n : nat) (buf : bytes) : option (N * bytes) :=
  match take_bytes n buf with
  | Some (h, r) => Some (le_value h, r)
  | None => None
  end.

Definition get_u8 := get_le 1.
Definition get_u16 := get_le 2.
Definition get_u64 := get_le 8.
Definition put_u8 (v : N) : bytes := le_bytes 1 v.
Definition put_u16 (v : N) : bytes := le_bytes 2 v.
Definition put_u64 (v : N) : bytes := le_bytes 8 v.

(* ---- UTF-8 validity = core::str::from_utf8 (Unicode Table 3-7 well-formed sequences) ---- *)
Definition in_range (lo hi : N) (b : byte) : bool := (lo <=? b2n b) && (b2n b <=? hi).
Definition cont (b : byte) : bool := in_range 128 191 b.

Fixpoint utf8_valid (s : bytes) : bool :=
  match s with
  | [] => true
  | b0 :: r =>
      if b2n b0 <? 128 then utf8_valid r
      else if in_range 194 223 b0 then
        match r with b1 :: r1 => cont b1 && utf8_valid r1 | _ => false end
      else if in_range 224 239 b0 then
        match r with
        | b1 :: b2 :: r2 =>
            (if b2n b0 =? 224 then in_range 160 191 b1
             else if b2n b0 =? 237 then in_range 128 159 b1
             else cont b1)
            && cont b2 && utf8_valid r2
        | _ => false
        end
      else if in_range 240 244 b0 then
        match r with
        | b1 :: b2 :: b3 :: r3 =>
            (if b2n b0 =? 240 then in_range 144 191 b1
             else if b2n b0 =? 244 then in_range 128 143 b1
             else cont b1)
            && cont b2 && cont b3 && utf8_valid r3
        | _ => false
        end
      else false
  end.

(* length in bytes of the first char of a non-empty valid UTF-8 string *)
Definition first_char_len (s : bytes) : nat :=
  match s with
  | [] => 0
  | b0 :: _ =>
      if b2n b0 <? 128 then 1
      else if b2n b0 <? 224 then 2
      else if b2n b0 <? 240 then 3
      else 4
  end.

(* str::serialize: the length is truncated by `as u16` (serialize.rs:203) *)
Definition put_str (s : bytes) : bytes := put_u16 (len s) ++ s.
Definition str_len (s : bytes) : N := 2 + len s.

(* String::deserialize: serialize.rs:186-198 *)
Definition get_str (buf : bytes) : option (bytes * bytes) :=
  match get_u16 buf with
  | None => None
  | Some (l, r) =>
      match take_bytes (N.to_nat l) r with
      | None => None
      | Some (s, r') => if utf8_valid s then Some (s, r') else None
      end
  end.

(* serialize.rs:137-174, 232-249 *)
Definition put_addr (a : addr) : bytes :=
  match a with
  | V4 ip port => put_u8 4 ++ be_bytes 4 ip ++ put_u16 port
  | V6 ip port => put_u8 6 ++ be_bytes 16 ip ++ put_u16 port
  end.
Definition addr_len (a : addr) : N :=
  match a with V4 _ _ => 7 | V6 _ _ => 19 end.

Definition get_addr (buf : bytes) : option (addr * bytes) :=
  match get_u8 buf with
  | None => None
  | Some (v, r) =>
      if v =? 4 then
        match take_bytes 4 r with
        | None => None
        | Some (ip, r1) =>
            match get_u16 r1 with
            | None => None
            | Some (port, r2) => Some (V4 (be_value ip) port, r2)
            end
        end
      else if v =? 6 then
        match take_bytes 16 r with
        | None => None
        | Some (ip, r1) =>
            match get_u16 r1 with
            | None => None
            | Some (port, r2) => Some (V6 (be_value ip) port, r2)
            end
        end
      else None
  end.

(* serialize.rs:251-276 *)
Definition put_id (i : id) : bytes :=
  put_str (i_name i) ++ put_u64 (i_gen i) ++ put_addr (i_addr i).
Definition id_len (i : id) : N := str_len (i_name i) + 8 + addr_len (i_addr i).

Definition get_id (buf : bytes) : option (id * bytes) :=
  match get_str buf with
  | None => None
  | Some (name, r) =>
      match get_u64 r with
      | None => None
      | Some (gen, r1) =>
          match get_addr r1 with
          | None => None
          | Some (a, r2) => Some (mkId name gen a, r2)
          end
      end
  end.
