(* Rounds.v — fair rounds of complete loss-free handshakes converge (C01): every round that starts
   in a non-converged quiet world raises the world potential; the potential is bounded; hence the
   number of rounds that start non-converged is bounded. *)
From Coq Require Import Lia Permutation.
From ChitchatModel Require Import Base SMap Ids Bytes Params NodeState Stream DeltaWire Message Cluster
  FD Chitchat World SMap_lemmas NodeState_lemmas Builder_lemmas Cluster_lemmas Chitchat_lemmas Agreement Inv
  DeltaRefine Compute_lemmas Prefix_lemmas NodeInv Liveness_lemmas Truth NodeTruth Weak Exact Reach
  Codec_lemmas Emit_lemmas Progress Quiet Potential ReachMono ReachFD GExec Converge.

(* ---------- equal potential => nothing moved ---------- *)
Section SumEq.
  Variable f : copy -> N.

  Lemma msum_extra (m : nmap) : forall m' X0 c0,
    NoDup (map fst m) ->
    (forall X c, In (X, c) m -> exists c', nm_get X m' = Some c' /\ f c <= f c') ->
    nm_get X0 m' = Some c0 -> ~ In X0 (map fst m) ->
    msum f m < msum f m'.
  Proof.
    intros m' X0 c0 Hnd H Hg0 Hnot.
    rewrite (msum_remove f X0 c0 m' Hg0).
    assert (msum f m <= msum f (nm_remove X0 m')); [|lia].
    apply msum_mono; [exact Hnd|]. intros X c Hin. destruct (H X c Hin) as (c' & Hg & Hle).
    exists c'. split; [|exact Hle]. rewrite nm_get_remove_other; [exact Hg|].
    intros ->. apply Hnot. apply in_map_iff. exists (X, c). auto.
  Qed.
End SumEq.

Lemma frontier_measure_inj V c c' :
  frontier_le c c' -> c_max c <= V -> c_max c' <= V -> frontier_measure V c = frontier_measure V c' -> same_frontier c c'.
Proof.
  unfold frontier_le, lex_le_p, monotonic_property, frontier_measure, same_frontier. cbn [fst snd]. intros H Hc Hc' E.
  assert (c_gc c = c_gc c') by nia. split; nia.
Qed.

(* if processing left the potential unchanged, every copy kept its frontier and no copy appeared *)
Lemma potential_eq_same V n n' :
  node_inv n -> versions_below V n -> versions_below V n' -> node_le n n' -> potential V n = potential V n' ->
  (forall X c, nm_get X (cs_nodes (nd_cs n)) = Some c ->
     exists c', nm_get X (cs_nodes (nd_cs n')) = Some c' /\ same_frontier c c') /\
  (forall X, nm_get X (cs_nodes (nd_cs n)) = None -> nm_get X (cs_nodes (nd_cs n')) = None).
Proof.
  intros [Hs Hci] Hb Hb' Hle Heq.
  assert (Hnd : NoDup (map fst (cs_nodes (nd_cs n)))) by (apply (sorted_nodup_keys id_cmp id_cmp_eq id_cmp_trans); exact Hs).
  assert (Hpt : forall X c, In (X, c) (cs_nodes (nd_cs n)) ->
            exists c', nm_get X (cs_nodes (nd_cs n')) = Some c' /\ frontier_measure V c <= frontier_measure V c').
  { intros X c Hin. pose proof (sorted_in_get id_cmp id_cmp_eq id_cmp_antisym id_cmp_trans _ _ _ Hs Hin) as Hg.
    destruct (Hle X c Hg) as (c' & Hg' & Hl). exists c'. split; [exact Hg'|].
    apply frontier_measure_le; [exact Hl|apply (Hb X c Hin)|].
    apply (sm_get_in id_cmp id_cmp_eq) in Hg'. apply (Hb' X c' Hg'). }
  split.
  - intros X c Hc. destruct (Hle X c Hc) as (c' & Hc' & Hl). exists c'. split; [exact Hc'|].
    pose proof (sm_get_in id_cmp id_cmp_eq _ _ _ Hc) as Hin. pose proof (sm_get_in id_cmp id_cmp_eq _ _ _ Hc') as Hin'.
    destruct (N.eq_dec (frontier_measure V c) (frontier_measure V c')) as [E|E].
    + apply (frontier_measure_inj V); [exact Hl|apply (Hb X c Hin)|apply (Hb' X c' Hin')|exact E].
    + exfalso. assert (Hlt : frontier_measure V c < frontier_measure V c').
      { pose proof (frontier_measure_le V c c' Hl (proj2 (Hb X c Hin)) (proj2 (Hb' X c' Hin'))). lia. }
      pose proof (msum_strict (frontier_measure V) _ _ X c c' Hnd Hpt Hin Hc' Hlt) as Hs'. unfold potential in Heq. lia.
  - intros X Hnone. destruct (nm_get X (cs_nodes (nd_cs n'))) as [c0|] eqn:E; [|reflexivity]. exfalso.
    assert (Hnot : ~ In X (map fst (cs_nodes (nd_cs n)))).
    { intros Hin. apply in_map_iff in Hin as ([Y c] & HY & Hin). cbn in HY. subst Y.
      pose proof (sorted_in_get id_cmp id_cmp_eq id_cmp_antisym id_cmp_trans _ _ _ Hs Hin). unfold nm_get in *. congruence. }
    pose proof (msum_extra (frontier_measure V) _ _ X c0 Hnd Hpt E Hnot). unfold potential in Heq. lia.
Qed.

(* ---------- a quiet node stays quiet under gossip ---------- *)
Lemma process_delta_gcn now n x n' evs : process_delta now n x = Ok (n', evs) -> cs_gcn (nd_cs n') = cs_gcn (nd_cs n).
Proof.
  unfold process_delta, cluster_apply_delta.
  destruct (cluster_apply_nds now (cs_nodes (nd_cs n)) (nds x) false []) as [[[nodes' reset'] evs']| |]; cbn [rmap]; try discriminate.
  intros [= <- _]. destruct (reset' && cf_has_cb (nd_cfg n)); reflexivity.
Qed.

Definition quiet_node (now : Z) (n : node) : Prop := no_memory n /\ scheduled now n = [].

Section Q.
  Variable zc : bytes -> option bytes.
  Hypothesis zc_len : forall b c, zc b = Some c -> len c <= len b.
  Variable strict : bool.

  Lemma process_message_quiet now n m ord n' r e :
    process_message zc now n m ord = Ok (n', r, e) -> quiet_node now n -> quiet_node now n' /\ nd_cfg n' = nd_cfg n.
  Proof.
    intros Hrun [Hmem Hsch].
    destruct (process_message_fd_sets zc now n m ord n' r e Hrun) as [[_ Hdead] Hcfg].
    split; [|exact Hcfg]. split.
    - unfold process_message in Hrun. destruct (update_self_heartbeat_quiet n Hmem) as (Hm0 & _).
      destruct m as [cl dg|dg x|x|].
      + destruct (negb _); [injection Hrun as <- _ _; exact Hm0|].
        destruct (P_MAX_UDP <? _); [discriminate|].
        destruct (compute_delta zc _ dg _ _ ord); cbn [rmap] in Hrun; try discriminate.
        injection Hrun as <- _ _. apply (report_heartbeats_quiet now dg _ Hm0).
      + destruct (process_delta now _ x) as [[n2 evs2]| |] eqn:Hpd; cbn [rbind] in Hrun; try discriminate.
        destruct (compute_delta zc _ dg _ _ ord); cbn [rmap] in Hrun; try discriminate.
        injection Hrun as <- _ _. unfold no_memory. rewrite (process_delta_gcn _ _ _ _ _ Hpd).
        apply (report_heartbeats_quiet now dg _ Hm0).
      + destruct (process_delta now _ x) as [[n2 evs2]| |] eqn:Hpd; cbn [rmap] in Hrun; try discriminate.
        injection Hrun as <- _ _. cbn [fst]. unfold no_memory. rewrite (process_delta_gcn _ _ _ _ _ Hpd). exact Hm0.
      + injection Hrun as <- _ _. exact Hm0.
    - unfold scheduled in *. rewrite Hcfg. unfold fd_scheduled_for_deletion in *. rewrite Hdead. exact Hsch.
  Qed.
End Q.

(* ---------- worlds ---------- *)
Definition quiet_world (g : gstate) : Prop := forall a n, node_at g a = Some n -> quiet_node (w_now (g_w g)) n.
Definition one_cluster (g : gstate) : Prop :=
  forall a b na nb, node_at g a = Some na -> node_at g b = Some nb -> cf_cluster (nd_cfg na) = cf_cluster (nd_cfg nb).
(* a is behind b about member X *)
Definition behind (g : gstate) (a b : nat) (X : id) : Prop :=
  exists na nb cb, node_at g a = Some na /\ node_at g b = Some nb /\ nm_get X (cs_nodes (nd_cs nb)) = Some cb /\
    (match nm_get X (cs_nodes (nd_cs na)) with Some ca => c_max ca | None => 0 end) < c_max cb.
Definition converged (g : gstate) : Prop := forall a b X, a <> b -> ~ behind g a b X.

(* every node keeps every copy with the same frontier, and learns no new member *)
Definition world_same (g g' : gstate) : Prop :=
  forall a n, node_at g a = Some n -> exists n', node_at g' a = Some n' /\
    (forall X c, nm_get X (cs_nodes (nd_cs n)) = Some c -> exists c', nm_get X (cs_nodes (nd_cs n')) = Some c' /\ same_frontier c c') /\
    (forall X, nm_get X (cs_nodes (nd_cs n)) = None -> nm_get X (cs_nodes (nd_cs n')) = None).

Lemma world_same_refl g : world_same g g.
Proof.
  intros a n Hn. exists n. split; [exact Hn|]. split; [|auto]. intros X c Hc. exists c. split; [exact Hc|split; reflexivity].
Qed.

Lemma world_same_trans g1 g2 g3 : world_same g1 g2 -> world_same g2 g3 -> world_same g1 g3.
Proof.
  intros H12 H23 a n Hn. destruct (H12 a n Hn) as (n2 & Hn2 & K2 & N2). destruct (H23 a n2 Hn2) as (n3 & Hn3 & K3 & N3).
  exists n3. split; [exact Hn3|]. split.
  - intros X c Hc. destruct (K2 X c Hc) as (c2 & Hc2 & [A1 A2]). destruct (K3 X c2 Hc2) as (c3 & Hc3 & [B1 B2]).
    exists c3. split; [exact Hc3|split; congruence].
  - intros X Hx. apply N3, N2, Hx.
Qed.

Lemma behind_same g g' a b X : world_same g g' -> behind g a b X -> behind g' a b X.
Proof.
  intros Hs (na & nb & cb & Ha & Hb & Hcb & Hlt).
  destruct (Hs a na Ha) as (na' & Ha' & Ka & Na). destruct (Hs b nb Hb) as (nb' & Hb' & Kb & _).
  destruct (Kb X cb Hcb) as (cb' & Hcb' & [_ Mb]).
  exists na', nb', cb'. split; [exact Ha'|]. split; [exact Hb'|]. split; [exact Hcb'|].
  rewrite Mb. destruct (nm_get X (cs_nodes (nd_cs na))) as [ca|] eqn:E.
  - destruct (Ka X ca E) as (ca' & Hca' & [_ Ma]). rewrite Hca', Ma. exact Hlt.
  - rewrite (Na X E). exact Hlt.
Qed.

Lemma nsum_pointwise_eq (l l' : list N) :
  length l = length l' -> (forall i x y, nth_error l i = Some x -> nth_error l' i = Some y -> x <= y) ->
  nsum l = nsum l' -> forall i x y, nth_error l i = Some x -> nth_error l' i = Some y -> x = y.
Proof.
  revert l'. induction l as [|a l IH]; intros [|b l'] Hlen Hle Hsum; try discriminate.
  - intros i x y H. destruct i; discriminate.
  - cbn [nsum] in Hsum. cbn [length] in Hlen.
    assert (Hab : a <= b) by (apply (Hle 0%nat); reflexivity).
    assert (Hrest : forall i x y, nth_error l i = Some x -> nth_error l' i = Some y -> x <= y) by (intros i x y H1 H2; apply (Hle (S i)); assumption).
    assert (Hs : nsum l <= nsum l').
    { clear - Hlen Hrest. revert l' Hlen Hrest. induction l as [|u l IHl]; intros [|v l'] Hlen Hr; try discriminate.
      cbn [nsum]. assert (u <= v) by (apply (Hr 0%nat); reflexivity).
      assert (nsum l <= nsum l') by (apply IHl; [cbn in Hlen; lia|intros i x y H1 H2; apply (Hr (S i)); assumption]). lia. }
    intros [|i] x y Hx Hy; cbn in Hx, Hy.
    + injection Hx as <-. injection Hy as <-. lia.
    + apply (IH l' ltac:(lia) Hrest ltac:(lia) i); assumption.
Qed.

Section R.
  Variable zc : bytes -> option bytes.
  Hypothesis zc_len : forall b c, zc b = Some c -> len c <= len b.
  Variable strict : bool.

  Lemma bounded_back V g g' : reachable zc strict g -> gstep zc strict g g' -> bounded V g' -> bounded V g.
  Proof.
    intros Hr Hstep Hb'. destruct (reachable_inv zc zc_len strict g Hr) as [Hg _].
    intros X. specialize (Hb' X).
    assert (t_max (g_T g) X <= t_max (g_T g') X); [|lia].
    destruct Hstep; cbn [g_T sync_truth bump_hb t_max]; try lia.
    - destruct (id_eqb X (cf_id cfg)) eqn:E; [|lia]. apply id_eqb_eq in E. subst X.
      destruct (gi_support g Hg (cf_id cfg)) as (Hm & _); [intros a n Hn; apply (H a n Hn)|]. lia.
    - destruct (id_eqb X (self_id n)) eqn:E; [|lia]. apply id_eqb_eq in E. subst X.
      destruct (gi_nodes g Hg a n H) as [Hinv _ (c & Hc & Hm & _)].
      pose proof (on_own_keeps (w_now (g_w g)) n f Hinv H0 _ c Hc) as (c' & Hc' & Hle).
      rewrite (own_copy_spec _ c') by (rewrite self_id_on_own; exact Hc').
      assert (Hci : copy_inv c) by (eapply (cli_copies _ Hinv); apply nm_get_in; exact Hc).
      rewrite <- Hm.
      assert (c_gc c' = c_gc c /\ c_max c <= c_max c').
      { unfold on_own in Hc'. unfold node_state_mut_or_init in Hc'. rewrite Hc in Hc'. rewrite Hc in Hc'.
        destruct (f c) as [c0 evs] eqn:Ef. cbn [fst nd_cs with_cs cs_nodes] in Hc'. rewrite nm_get_insert_same in Hc'. injection Hc' as <-.
        assert (Hws : write_shape c c0).
        { replace c0 with (fst (f c)) by (rewrite Ef; reflexivity).
          destruct H0 as [k v|k v|k|k]; cbn [fst].
          - exact (proj1 (lwrite_shape (w_now (g_w g)) c k v Hci)).
          - exact (proj1 (proj2 (lwrite_shape (w_now (g_w g)) c k v Hci))).
          - exact (proj1 (proj2 (proj2 (lwrite_shape (w_now (g_w g)) c k [] Hci)))).
          - exact (proj2 (proj2 (proj2 (lwrite_shape (w_now (g_w g)) c k [] Hci)))). }
        destruct Hws as [->|(k0 & v0 & _ & E2 & E3 & _)]; [split; [reflexivity|lia]|split; [exact E3|lia]]. }
      lia.
  Qed.

  (* a step that is not a join, an evaluation ... and leaves the world potential unchanged, moved nothing *)
  Theorem gstep_eq_same V g g' :
    reachable zc strict g -> gstep zc strict g g' -> bounded V g' -> no_eval g g' ->
    gpot V g = gpot V g' -> length (w_nodes (g_w g')) = length (w_nodes (g_w g)) -> world_same g g'.
  Proof.
    intros Hr Hstep Hb' Hne Heq Hlen.
    assert (Hr' : reachable zc strict g') by (eapply R_step; eauto).
    destruct (reachable_inv zc zc_len strict g Hr) as [Hg _].
    assert (Hb : bounded V g) by (eapply bounded_back; eauto).
    pose proof (reachable_versions_below zc zc_len strict V g Hr Hb) as HV.
    pose proof (reachable_versions_below zc zc_len strict V g' Hr' Hb') as HV'.
    (* pointwise: every node's potential is not lowered; the sums are equal; so each is unchanged *)
    assert (Hpt : forall a n, node_at g a = Some n -> exists n', node_at g' a = Some n' /\ node_le n n').
    { intros a n Hn. destruct (frontiers_monotone_along_steps zc zc_len strict g g' Hr Hstep a n Hn) as (n' & Hn' & _ & Hle).
      exists n'. split; [exact Hn'|apply Hle; exact Hne]. }
    assert (Heach : forall a n n', node_at g a = Some n -> node_at g' a = Some n' -> potential V n = potential V n').
    { intros a n n' Hn Hn'.
      apply (nsum_pointwise_eq (map (potential V) (w_nodes (g_w g))) (map (potential V) (w_nodes (g_w g')))) with (i := a).
      - rewrite !map_length. symmetry. exact Hlen.
      - intros i x y Hx Hy. rewrite nth_error_map in Hx, Hy.
        destruct (nth_error (w_nodes (g_w g)) i) as [m|] eqn:Em; [|discriminate]. injection Hx as <-.
        destruct (nth_error (w_nodes (g_w g')) i) as [m'|] eqn:Em'; [|discriminate]. injection Hy as <-.
        destruct (Hpt i m Em) as (m'' & Hm'' & Hle). unfold node_at in Hm''. rewrite Em' in Hm''. injection Hm'' as <-.
        apply potential_mono; [apply (gi_nodes g Hg i m Em)|apply (HV i m Em)|apply (HV' i m' Em')|exact Hle].
      - exact Heq.
      - rewrite nth_error_map. unfold node_at in Hn. rewrite Hn. reflexivity.
      - rewrite nth_error_map. unfold node_at in Hn'. rewrite Hn'. reflexivity. }
    intros a n Hn. destruct (Hpt a n Hn) as (n' & Hn' & Hle). exists n'. split; [exact Hn'|].
    apply (potential_eq_same V n n'); [apply (gi_nodes g Hg a n Hn)|apply (HV a n Hn)|apply (HV' a n' Hn')|exact Hle|].
    apply (Heach a n n' Hn Hn').
  Qed.
End R.

(* ---------- exchange steps: SYN emissions and deliveries ---------- *)
Definition xop (o : gop) : bool := match o with OSyn _ | ODeliver _ _ _ => true | _ => false end.

Lemma set_nth_length {A} (l : list A) a x : length (set_nth l a x) = length l.
Proof. revert a. induction l as [|y r IH]; intros [|a]; cbn; auto. Qed.

Section X.
  Variable zc : bytes -> option bytes.
  Hypothesis zc_len : forall b c, zc b = Some c -> len c <= len b.
  Variable strict : bool.

  Lemma xop_step g o g1 : xop o = true -> gexec zc strict g o = Some g1 ->
    no_eval g g1 /\ length (w_nodes (g_w g1)) = length (w_nodes (g_w g)) /\ w_now (g_w g1) = w_now (g_w g) /\
    (quiet_world g -> quiet_world g1) /\ (one_cluster g -> one_cluster g1).
  Proof.
    destruct o; try discriminate; intros _ H; cbn [gexec] in H.
    - destruct (node_at g a) as [na|]; [|discriminate]. injection H as <-.
      split; [|split; [reflexivity|split; [reflexivity|split; intros Hq; exact Hq]]].
      intros b nb oracle Heq. apply (f_equal g_sent) in Heq. cbn [g_sent] in Heq.
      apply (f_equal (@length message)) in Heq. cbn [length] in Heq. lia.
    - destruct (node_at g a) as [n|] eqn:Hn; [|discriminate].
      destruct (nth_error (g_sent g) idx) as [m|]; [|discriminate].
      destruct (strict && msg_weak _ n m); [discriminate|].
      destruct (process_message zc _ n m ord) as [[[n' reply] evs]| |] eqn:Ep; try discriminate.
      injection H as <-. cbn [g_w with_nodes w_nodes w_now].
      split; [|split; [apply set_nth_length|split; [reflexivity|split]]].
      + intros b nb oracle Heq. apply (f_equal g_T) in Heq. cbn [g_T] in Heq.
        apply (f_equal (fun T => t_hb T (self_id n))) in Heq. cbn [bump_hb t_hb] in Heq. rewrite id_eqb_refl in Heq. lia.
      + intros Hq c k Hk. unfold node_at in Hk. cbn [g_w with_nodes w_nodes w_now] in *.
        destruct (Nat.eq_dec a c) as [->|Hne].
        * rewrite (nth_set_nth_same _ _ _ _ Hn) in Hk. injection Hk as <-.
          apply (process_message_quiet zc _ n m ord n' reply evs Ep). apply (Hq c n Hn).
        * rewrite nth_set_nth_other in Hk by exact Hne. apply (Hq c k Hk).
      + intros Hc c d nc ndd Hc1 Hd1. unfold node_at in Hc1, Hd1. cbn [g_w with_nodes w_nodes] in *.
        pose proof (process_message_quiet_cfg := fun Hqq => proj2 (process_message_quiet zc _ n m ord n' reply evs Ep Hqq)).
        destruct (process_message_fd_sets zc _ n m ord n' reply evs Ep) as [_ Hcfg].
        assert (Hget : forall c nc, nth_error (set_nth (w_nodes (g_w g)) a n') c = Some nc ->
                  exists nc0, node_at g c = Some nc0 /\ nd_cfg nc = nd_cfg nc0).
        { intros c0 nc0 Hc0. destruct (Nat.eq_dec a c0) as [->|Hne].
          - rewrite (nth_set_nth_same _ _ _ _ Hn) in Hc0. injection Hc0 as <-. exists n. auto.
          - rewrite nth_set_nth_other in Hc0 by exact Hne. exists nc0. auto. }
        destruct (Hget c nc Hc1) as (c0 & Hc0 & ->). destruct (Hget d ndd Hd1) as (d0 & Hd0 & ->).
        apply (Hc c d c0 d0 Hc0 Hd0).
  Qed.

  (* a run of exchange steps: reachability, boundedness, quietness carried along; the potential is not
     lowered; and if it is unchanged at the end, nobody's frontier moved *)
  Lemma xrun V ops : forall g g', forallb xop ops = true -> gfold zc strict g ops = Some g' ->
    reachable zc strict g -> bounded V g' ->
    reachable zc strict g' /\ bounded V g /\ w_now (g_w g') = w_now (g_w g) /\
    (quiet_world g -> quiet_world g') /\ (one_cluster g -> one_cluster g') /\
    gpot V g <= gpot V g' /\ (gpot V g = gpot V g' -> world_same g g').
  Proof.
    induction ops as [|o r IH]; intros g g' Hx Hrun Hr Hb'.
    - injection Hrun as <-. split; [exact Hr|]. split; [exact Hb'|]. split; [reflexivity|]. split; [auto|]. split; [auto|].
      split; [lia|intros _; apply world_same_refl].
    - cbn [forallb] in Hx. apply andb_true_iff in Hx as [Hxo Hxr]. cbn [gfold] in Hrun.
      destruct (gexec zc strict g o) as [g1|] eqn:E1; [|discriminate].
      pose proof (gexec_sound zc strict g o g1 E1) as Hstep.
      assert (Hr1 : reachable zc strict g1) by (eapply R_step; eauto).
      destruct (IH g1 g' Hxr Hrun Hr1 Hb') as (Hr' & Hb1 & Hnow & Hq & Hc & Hle & Hsame).
      destruct (xop_step g o g1 Hxo E1) as (Hne & Hlen & Hnow1 & Hq1 & Hc1).
      pose proof (gpot_monotone zc zc_len strict V g g1 Hr Hstep Hb1 Hne) as Hle1.
      split; [exact Hr'|]. split; [eapply bounded_back; eauto|]. split; [congruence|].
      split; [auto|]. split; [auto|]. split; [lia|].
      intros Heq. apply (world_same_trans g g1 g').
      + apply (gstep_eq_same zc zc_len strict V g g1 Hr Hstep Hb1 Hne); [lia|exact Hlen].
      + apply Hsame. lia.
  Qed.
End X.

(* ---------- the responder's quarantine set is not changed by heartbeat reporting ---------- *)
Lemma report_heartbeat_cfg now n i hb : nd_cfg (report_heartbeat now n i hb) = nd_cfg n.
Proof.
  unfold report_heartbeat. destruct (id_eqb i (self_id n)); [reflexivity|]. cbv zeta.
  destruct (nm_get i _) as [c|]; [|reflexivity]. destruct (try_set_heartbeat c hb) as [c' fresh]. destruct fresh; reflexivity.
Qed.
Lemma report_heartbeats_cfg now dg : forall n, nd_cfg (report_heartbeats_in_digest now n dg) = nd_cfg n.
Proof.
  unfold report_heartbeats_in_digest. induction dg as [|e r IH]; intros n; cbn [fold_left]; [reflexivity|].
  rewrite IH. apply report_heartbeat_cfg.
Qed.
Lemma scheduled_after_reporting now nb dg :
  scheduled now (report_heartbeats_in_digest now (update_self_heartbeat nb) dg) = scheduled now nb.
Proof.
  unfold scheduled. rewrite report_heartbeats_cfg. change (nd_cfg (update_self_heartbeat nb)) with (nd_cfg nb).
  unfold fd_scheduled_for_deletion. destruct (report_heartbeats_fd_sets now dg (update_self_heartbeat nb)) as [_ ->]. reflexivity.
Qed.

(* ---------- rounds of exchanges ---------- *)
Record exch := mkX { x_a : nat; x_b : nat; x_o1 : list id; x_o2 : list id; x_o3 : list id }.

Section Rnd.
  Variable zc : bytes -> option bytes.
  Hypothesis zc_len : forall b c, zc b = Some c -> len c <= len b.
  Variable strict : bool.

  Definition x_ops (e : exch) : list gop := hs_ops (x_a e) (x_b e) (x_o1 e) (x_o2 e) (x_o3 e).

  (* the responder's digest leaves room, under the MTU, for one member header and one operation *)
  Definition roomy (g : gstate) (e : exch) : Prop :=
    forall na nb, node_at g (x_a e) = Some na -> node_at g (x_b e) = Some nb ->
      let now := w_now (g_w g) in
      let dg := compute_digest (nd_cs na) [] in
      let b1 := report_heartbeats_in_digest now (update_self_heartbeat nb) dg in
      let sched := scheduled now b1 in
      let mtu := P_MAX_UDP - (P_RESERVE_SYNACK + digest_len (compute_digest (nd_cs b1) sched)) in
      forall n rest, arrange (x_o1 e) (stale_nodes (nd_cs b1) dg sched) = Some (n :: rest) -> P_MIN_MTU <= mtu /\ room mtu n.

  (* a sequence of complete, loss-free exchanges, each started where its responder has room *)
  Inductive round_run : gstate -> list exch -> gstate -> Prop :=
  | rr_nil g : round_run g [] g
  | rr_cons g e g1 es g' : x_a e <> x_b e -> roomy g e -> gfold zc strict g (x_ops e) = Some g1 ->
      round_run g1 es g' -> round_run g (e :: es) g'.

  Lemma x_ops_xop e : forallb xop (x_ops e) = true.
  Proof. reflexivity. Qed.

  Lemma round_run_facts V g es g' : round_run g es g' -> reachable zc strict g -> bounded V g' ->
    reachable zc strict g' /\ bounded V g /\ w_now (g_w g') = w_now (g_w g) /\
    (quiet_world g -> quiet_world g') /\ (one_cluster g -> one_cluster g') /\ gpot V g <= gpot V g'.
  Proof.
    induction 1 as [g|g e g1 es g' Hab Hroom Hrun Hrest IH]; intros Hr Hb'.
    - repeat (split; [solve [auto|reflexivity]|]). lia.
    - assert (Hr1 : reachable zc strict g1) by (eapply gfold_reachable; eauto).
      destruct (IH Hr1 Hb') as (Hr' & Hb1 & Hnow & Hq & Hc & Hle).
      destruct (xrun zc zc_len strict V (x_ops e) g g1 (x_ops_xop e) Hrun Hr Hb1) as (_ & Hb & Hnow1 & Hq1 & Hc1 & Hle1 & _).
      split; [exact Hr'|]. split; [exact Hb|]. split; [congruence|]. split; [auto|]. split; [auto|]. lia.
  Qed.

  (* ROUND PROGRESS.  In a quiet one-cluster world in which a is behind b about some member, any
     sequence of exchanges that contains the exchange a -> b raises the world potential. *)
  Theorem round_progress V g es g' : round_run g es g' ->
    reachable zc strict g -> bounded V g' -> quiet_world g -> one_cluster g ->
    forall a b X, behind g a b X -> (exists e, In e es /\ x_a e = a /\ x_b e = b) ->
    gpot V g + 1 <= gpot V g'.
  Proof.
    induction 1 as [g|g e g1 es g' Hab Hroom Hrun Hrest IH]; intros Hr Hb' Hq Hc a b X Hbeh (e0 & Hin & Ea & Eb).
    - destruct Hin.
    - assert (Hr1 : reachable zc strict g1) by (eapply gfold_reachable; eauto).
      destruct (round_run_facts V g1 es g' Hrest Hr1 Hb') as (Hr' & Hb1 & Hnow & Hq' & Hc' & Hle).
      destruct (xrun zc zc_len strict V (x_ops e) g g1 (x_ops_xop e) Hrun Hr Hb1) as (_ & Hb & Hnow1 & Hq1 & Hc1 & Hle1 & Hsame).
      destruct Hin as [<-|Hin].
      + (* this is the exchange a -> b *)
        destruct Hbeh as (na & nb & cb & Hna & Hnb & Hcb & Hlt). subst a b.
        destruct (Hq _ na Hna) as [Hmem Hsch].
        assert (gpot V g + 1 <= gpot V g1); [|lia].
        eapply (lagging_exchange_raises zc zc_len strict V g (x_a e) (x_b e) (x_o1 e) (x_o2 e) (x_o3 e) g1 na nb X cb
                  Hr Hb Hab Hna Hnb Hmem Hsch (Hc _ _ na nb Hna Hnb) Hcb); [| exact Hlt | apply (Hroom na nb Hna Hnb) | exact Hrun].
        rewrite scheduled_after_reporting. rewrite (proj2 (Hq _ nb Hnb)). reflexivity.
      + destruct (N.eq_dec (gpot V g) (gpot V g1)) as [Heq|Hneq].
        * assert (gpot V g1 + 1 <= gpot V g'); [|lia].
          apply (IH Hr1 Hb' (Hq1 Hq) (Hc1 Hc) a b X); [apply (behind_same g g1); [apply Hsame; exact Heq|exact Hbeh]|].
          exists e0. auto.
        * lia.
  Qed.

  (* ---------- fair rounds ---------- *)
  (* a round is fair when it contains an exchange for every ordered pair of distinct nodes *)
  Definition fair (g : gstate) (es : list exch) : Prop :=
    forall a b, (a < length (w_nodes (g_w g)))%nat -> (b < length (w_nodes (g_w g)))%nat -> a <> b ->
      exists e, In e es /\ x_a e = a /\ x_b e = b.
  Definition unconverged (g : gstate) : Prop := exists a b X, behind g a b X.

  Lemma behind_distinct g a b X : behind g a b X -> a <> b /\ (a < length (w_nodes (g_w g)))%nat /\ (b < length (w_nodes (g_w g)))%nat.
  Proof.
    intros (na & nb & cb & Hna & Hnb & Hcb & Hlt). split; [|split].
    - intros ->. rewrite Hna in Hnb. injection Hnb as <-. rewrite Hcb in Hlt. lia.
    - apply nth_error_Some. unfold node_at in Hna. congruence.
    - apply nth_error_Some. unfold node_at in Hnb. congruence.
  Qed.

  Theorem fair_round_progress V g es g' : round_run g es g' -> fair g es -> unconverged g ->
    reachable zc strict g -> bounded V g' -> quiet_world g -> one_cluster g ->
    gpot V g + 1 <= gpot V g'.
  Proof.
    intros Hrun Hfair (a & b & X & Hbeh) Hr Hb' Hq Hc.
    destruct (behind_distinct g a b X Hbeh) as (Hab & Ha & Hb).
    apply (round_progress V g es g' Hrun Hr Hb' Hq Hc a b X Hbeh). apply (Hfair a b Ha Hb Hab).
  Qed.

  (* a sequence of fair rounds, each started in a world that has not converged *)
  Inductive lagging_rounds : gstate -> nat -> gstate -> Prop :=
  | lr_nil g : lagging_rounds g 0 g
  | lr_cons g es g1 k g' : round_run g es g1 -> fair g es -> unconverged g ->
      lagging_rounds g1 k g' -> lagging_rounds g (S k) g'.

  Lemma round_run_reachable g es g' : round_run g es g' -> reachable zc strict g -> reachable zc strict g'.
  Proof.
    induction 1 as [g|g e g1 es g' _ _ Hrun _ IH]; intros Hr; [exact Hr|]. apply IH. eapply gfold_reachable; eauto.
  Qed.

  (* THE ROUND BOUND.  If k consecutive fair rounds are each started in a world that has not yet
     converged, the world potential has risen by at least k. *)
  Theorem lagging_rounds_bounded V g k g' : lagging_rounds g k g' ->
    reachable zc strict g -> bounded V g' -> quiet_world g -> one_cluster g ->
    gpot V g + N.of_nat k <= gpot V g'.
  Proof.
    induction 1 as [g|g es g1 k g' Hrun Hfair Hun Hrest IH]; intros Hr Hb' Hq Hc; [lia|].
    assert (Hr1 : reachable zc strict g1) by (eapply round_run_reachable; eauto).
    assert (Hb1 : bounded V g1).
    { clear - zc_len Hrest Hb' Hr1. revert Hr1. induction Hrest as [g|g es g1 k g' Hrun' _ _ Hrest' IH']; intros Hr1; [exact Hb'|].
      assert (Hr2 : reachable zc strict g1) by (eapply round_run_reachable; eauto).
      apply (round_run_facts V g es g1 Hrun' Hr1). apply IH'; [exact Hb'|exact Hr2]. }
    destruct (round_run_facts V g es g1 Hrun Hr Hb1) as (_ & _ & _ & Hq1 & Hc1 & _).
    pose proof (fair_round_progress V g es g1 Hrun Hfair Hun Hr Hb1 Hq Hc) as Hstep.
    specialize (IH Hr1 Hb' (Hq1 Hq) (Hc1 Hc)). lia.
  Qed.

  (* ... so at most (copies held at the end) * (V+1)^2 such rounds exist: after that many fair rounds
     without a write, at least one round started in a converged world *)
  Corollary unconverged_fair_rounds_bounded V g k g' : lagging_rounds g k g' ->
    reachable zc strict g -> bounded V g' -> quiet_world g -> one_cluster g ->
    N.of_nat k <= nsum (map (fun n => N.of_nat (length (cs_nodes (nd_cs n))) * (V + 1) * (V + 1)) (w_nodes (g_w g'))).
  Proof.
    intros Hl Hr Hb' Hq Hc. pose proof (lagging_rounds_bounded V g k g' Hl Hr Hb' Hq Hc) as H.
    assert (Hr' : reachable zc strict g').
    { clear - Hl Hr. induction Hl as [g|g es g1 k g' Hrun _ _ _ IH]; [exact Hr|]. apply IH. eapply round_run_reachable; eauto. }
    pose proof (gpot_bound zc zc_len strict V g' Hr' Hb'). lia.
  Qed.
End Rnd.

(* ---------- executable forms (for the non-vacuity example and the correspondence driver) ---------- *)
Section Bool.
  Variable zc : bytes -> option bytes.
  Variable strict : bool.

  Definition quiet_nodeb (now : Z) (n : node) : bool :=
    match cs_gcn (nd_cs n), scheduled now n with [], [] => true | _, _ => false end.
  Definition quiet_worldb (g : gstate) : bool := forallb (quiet_nodeb (w_now (g_w g))) (w_nodes (g_w g)).
  Definition one_clusterb (g : gstate) : bool :=
    match w_nodes (g_w g) with
    | [] => true
    | n0 :: _ => forallb (fun n => bytes_eqb (cf_cluster (nd_cfg n)) (cf_cluster (nd_cfg n0))) (w_nodes (g_w g))
    end.
  Definition behindb (g : gstate) (a b : nat) (X : id) : bool :=
    match node_at g a, node_at g b with
    | Some na, Some nb =>
        match nm_get X (cs_nodes (nd_cs nb)) with
        | Some cb => (match nm_get X (cs_nodes (nd_cs na)) with Some ca => c_max ca | None => 0 end) <? c_max cb
        | None => false
        end
    | _, _ => false
    end.
  Definition roomb (mtu : N) (n : stale_node) : bool :=
    let thr := N.min P_BLOCK_THRESHOLD mtu in
    P_BLOCK_META_LEN * (div_ceil (head_len n) thr + div_ceil (first_len n) thr) + head_len n + first_len n + 1 <=? mtu.
  Definition roomyb (g : gstate) (e : exch) : bool :=
    match node_at g (x_a e), node_at g (x_b e) with
    | Some na, Some nb =>
        let now := w_now (g_w g) in
        let dg := compute_digest (nd_cs na) [] in
        let b1 := report_heartbeats_in_digest now (update_self_heartbeat nb) dg in
        let sched := scheduled now b1 in
        let mtu := P_MAX_UDP - (P_RESERVE_SYNACK + digest_len (compute_digest (nd_cs b1) sched)) in
        match arrange (x_o1 e) (stale_nodes (nd_cs b1) dg sched) with
        | Some (n :: _) => (P_MIN_MTU <=? mtu) && roomb mtu n
        | _ => true
        end
    | _, _ => true
    end.
  Fixpoint round_exec (g : gstate) (es : list exch) : option gstate :=
    match es with
    | [] => Some g
    | e :: r =>
        if negb (Nat.eqb (x_a e) (x_b e)) && roomyb g e then
          match gfold zc strict g (x_ops e) with Some g1 => round_exec g1 r | None => None end
        else None
    end.
  Definition fairb (g : gstate) (es : list exch) : bool :=
    let idx := seq 0 (length (w_nodes (g_w g))) in
    forallb (fun a => forallb (fun b => Nat.eqb a b || existsb (fun e => Nat.eqb (x_a e) a && Nat.eqb (x_b e) b) es) idx) idx.

  Lemma quiet_worldb_sound g : quiet_worldb g = true -> quiet_world g.
  Proof.
    unfold quiet_worldb. rewrite forallb_forall. intros H a n Hn. specialize (H n (nth_error_In _ _ Hn)).
    unfold quiet_nodeb in H. unfold quiet_node, no_memory.
    destruct (cs_gcn (nd_cs n)); [|discriminate]. destruct (scheduled _ n); [auto|discriminate].
  Qed.
  Lemma one_clusterb_sound g : one_clusterb g = true -> one_cluster g.
  Proof.
    unfold one_clusterb, one_cluster, node_at. destruct (w_nodes (g_w g)) as [|n0 r] eqn:E.
    - intros _ a b na nb Ha. destruct a; discriminate.
    - rewrite forallb_forall. intros H a b na nb Ha Hb.
      pose proof (H na (nth_error_In _ _ Ha)) as H1. pose proof (H nb (nth_error_In _ _ Hb)) as H2.
      apply bytes_eqb_eq in H1, H2. congruence.
  Qed.
  Lemma behindb_sound g a b X : behindb g a b X = true -> behind g a b X.
  Proof.
    unfold behindb, behind. destruct (node_at g a) as [na|]; [|discriminate]. destruct (node_at g b) as [nb|]; [|discriminate].
    destruct (nm_get X (cs_nodes (nd_cs nb))) as [cb|] eqn:E; [|discriminate]. intros H. apply N.ltb_lt in H.
    exists na, nb, cb. auto.
  Qed.
  Lemma roomyb_sound g e : roomyb g e = true -> roomy g e.
  Proof.
    unfold roomyb, roomy. intros H na nb Ha Hb. rewrite Ha, Hb in H. cbv zeta in *. intros n rest Harr. rewrite Harr in H.
    apply andb_true_iff in H as [H1 H2]. apply N.leb_le in H1. split; [exact H1|]. unfold roomb in H2. apply N.leb_le in H2. exact H2.
  Qed.
  Lemma round_exec_sound : forall es g g', round_exec g es = Some g' -> round_run zc strict g es g'.
  Proof.
    induction es as [|e r IH]; intros g g' H; cbn [round_exec] in H.
    - injection H as <-. constructor.
    - destruct (negb (Nat.eqb (x_a e) (x_b e)) && roomyb g e) eqn:E; [|discriminate]. apply andb_true_iff in E as [E1 E2].
      destruct (gfold zc strict g (x_ops e)) as [g1|] eqn:Eg; [|discriminate].
      eapply rr_cons; [|apply roomyb_sound; exact E2|exact Eg|apply IH; exact H].
      intros Heq. rewrite Heq, Nat.eqb_refl in E1. discriminate.
  Qed.
  Lemma fairb_sound g es : fairb g es = true -> fair g es.
  Proof.
    unfold fairb, fair. rewrite forallb_forall. intros H a b Ha Hb Hab.
    specialize (H a). rewrite forallb_forall in H.
    assert (Ia : In a (seq 0 (length (w_nodes (g_w g))))) by (apply in_seq; lia).
    assert (Ib : In b (seq 0 (length (w_nodes (g_w g))))) by (apply in_seq; lia).
    specialize (H Ia b Ib). apply orb_true_iff in H as [H|H]; [apply Nat.eqb_eq in H; contradiction|].
    apply existsb_exists in H as (e & He & Hx). apply andb_true_iff in Hx as [H1 H2].
    apply Nat.eqb_eq in H1, H2. exists e. auto.
  Qed.

  (* one boolean that, when true, yields a complete instance of the premises of the round theorems *)
  Definition fair_round_instance (ops : list gop) (es : list exch) (a b : nat) (X : id) (V p0 p1 : N) : bool :=
    match grun zc strict ops with
    | Some g0 =>
        match round_exec g0 es with
        | Some g1 => fairb g0 es && behindb g0 a b X && quiet_worldb g0 && one_clusterb g0
                     && (gpot V g0 =? p0) && (gpot V g1 =? p1)
        | None => false
        end
    | None => false
    end.
  Lemma fair_round_instance_sound ops es a b X V p0 p1 : fair_round_instance ops es a b X V p0 p1 = true ->
    exists g0 g1, reachable zc strict g0 /\ round_run zc strict g0 es g1 /\ fair g0 es /\ unconverged g0 /\
                  quiet_world g0 /\ one_cluster g0 /\ gpot V g0 = p0 /\ gpot V g1 = p1.
  Proof.
    unfold fair_round_instance. destruct (grun zc strict ops) as [g0|] eqn:E0; [|discriminate].
    destruct (round_exec g0 es) as [g1|] eqn:E1; [|discriminate]. intros H.
    repeat (apply andb_true_iff in H as [H ?]).
    exists g0, g1. split; [eapply grun_reachable; exact E0|]. split; [apply round_exec_sound; exact E1|].
    split; [apply fairb_sound; assumption|]. split; [exists a, b, X; apply behindb_sound; assumption|].
    split; [apply quiet_worldb_sound; assumption|]. split; [apply one_clusterb_sound; assumption|].
    split; apply N.eqb_eq; assumption.
  Qed.
End Bool.
