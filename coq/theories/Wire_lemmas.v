(* Wire_lemmas.v — announced lengths equal written lengths (C07, C08). *)
From Coq Require Import Lia.
From ChitchatModel Require Import Base SMap Ids Bytes Params NodeState Stream DeltaWire Message
  Stream_lemmas DeltaRefine.

Lemma len_put_ndigest g : len (put_ndigest g) = 24.
Proof. unfold put_ndigest. rewrite !len_app, !len_put_u64. reflexivity. Qed.

Lemma len_put_digest d : len (put_digest d) = digest_len d.
Proof.
  unfold put_digest, digest_len. rewrite len_app, len_put_u16. f_equal.
  induction d as [|e r IH]; cbn [flat_map fold_right]; [reflexivity|].
  rewrite !len_app, len_put_id, len_put_ndigest, IH. lia.
Qed.

Lemma len_put_header t : len (put_header t) = 4.
Proof. unfold put_header. rewrite !len_app, len_put_u16, !len_put_u8. reflexivity. Qed.

Section W.
  Variable zc : bytes -> option bytes.

  Lemma put_delta_len x b : put_delta zc x = Ok b -> len b = dlen x.
  Proof.
    unfold put_delta. destruct (append_ops zc _ _) as [w| |]; cbn [rbind]; try discriminate.
    destruct (len (finish zc w) =? dlen x) eqn:E; [|discriminate].
    intros [= <-]. apply N.eqb_eq. exact E.
  Qed.

  (* message.rs: the length a message announces is the number of bytes written *)
  Theorem encode_len m b : encode zc m = Ok b -> len b = serialized_len m.
  Proof.
    Opaque put_header put_digest put_str.
    destruct m as [c d|d x|x|]; unfold serialized_len; cbn [encode].
    - intros [= <-]. rewrite !len_app, len_put_header, len_put_digest, len_put_str. lia.
    - destruct (put_delta zc x) as [p| |] eqn:E; cbn [rmap]; try discriminate.
      intros [= <-]. rewrite !len_app, len_put_header, len_put_digest, (put_delta_len _ _ E). lia.
    - destruct (put_delta zc x) as [p| |] eqn:E; cbn [rmap]; try discriminate.
      intros [= <-]. rewrite !len_app, len_put_header, (put_delta_len _ _ E). lia.
    - intros [= <-]. rewrite len_put_header. reflexivity.
    Transparent put_header put_digest put_str.
  Qed.
End W.
