(* Catchup_lemmas.v — the external catch-up entry point (reset_node_state_if_update, lib.rs:337-407):
   what the key-by-key merge installs, and what an HONEST catch-up — the supplied state is a copy
   some node could hold of the member: integral and exact relative to the truth — does to the
   per-copy invariants behind C02/C03 (integrity, Hold, Compl). *)
From Coq Require Import Lia.
From ChitchatModel Require Import Base SMap Ids Bytes Params NodeState Stream DeltaWire Message Cluster
  FD Chitchat Monitors SMap_lemmas NodeState_lemmas Builder_lemmas Cluster_lemmas Chitchat_lemmas Inv
  Compute_lemmas NodeInv Truth NodeTruth Weak Exact.

Lemma set_many_frontier : forall kvs c evs,
  c_gc (fst (set_many c kvs evs)) = c_gc c /\ c_max c <= c_max (fst (set_many c kvs evs))
  /\ c_hb (fst (set_many c kvs evs)) = c_hb c.
Proof.
  induction kvs as [|[k v] r IH]; intros c evs; cbn [set_many fst]; [repeat split; lia|].
  destruct (set_versioned_value c k v) as [c' ev] eqn:E.
  destruct (IH c' (evs ++ ev)) as (H1 & H2 & H3).
  assert (Hc : c' = fst (set_versioned_value c k v)) by (rewrite E; reflexivity).
  rewrite H1, H3. rewrite Hc at 1 3. rewrite svv_gc, svv_hb. repeat split; auto.
  assert (c_max c <= c_max c') by (rewrite Hc, svv_max; lia). lia.
Qed.

Lemma set_many_max_le B : forall kvs c evs,
  c_max c <= B -> (forall k v, In (k, v) kvs -> v_ver v <= B) -> c_max (fst (set_many c kvs evs)) <= B.
Proof.
  induction kvs as [|[k v] r IH]; intros c evs Hc Hall; cbn [set_many fst]; [exact Hc|].
  destruct (set_versioned_value c k v) as [c' ev] eqn:E.
  assert (Hc' : c' = fst (set_versioned_value c k v)) by (rewrite E; reflexivity).
  apply IH.
  - rewrite Hc', svv_max. specialize (Hall k v (or_introl eq_refl)). lia.
  - intros k0 v0 H0. apply (Hall k0 v0). right. exact H0.
Qed.

(* the entry a key holds after set_versioned_value: the newer of the old and the supplied one *)
Definition merged (c : copy) (k : bytes) (v : vv) : vv :=
  match kget k (c_kvs c) with
  | Some old => if v_ver v <=? v_ver old then old else v
  | None => v
  end.

Lemma svv_get_same c k v : kget k (c_kvs (fst (set_versioned_value c k v))) = Some (merged c k v).
Proof.
  unfold set_versioned_value, merged. destruct (kget k (c_kvs c)) as [old|] eqn:E.
  - destruct (v_ver v <=? v_ver old); cbn [fst c_kvs]; [exact E|apply kget_kinsert_same].
  - cbn [fst c_kvs]. apply kget_kinsert_same.
Qed.
Lemma svv_get_other c k v k' : k <> k' -> kget k' (c_kvs (fst (set_versioned_value c k v))) = kget k' (c_kvs c).
Proof.
  intros Hne. unfold set_versioned_value. destruct (kget k (c_kvs c)) as [old|].
  - destruct (v_ver v <=? v_ver old); cbn [fst c_kvs]; [reflexivity|apply kget_kinsert_other; exact Hne].
  - cbn [fst c_kvs]. apply kget_kinsert_other. exact Hne.
Qed.
Lemma svv_sorted c k v : ksorted (c_kvs c) -> ksorted (c_kvs (fst (set_versioned_value c k v))).
Proof.
  intros Hs. unfold set_versioned_value. destruct (kget k (c_kvs c)) as [old|].
  - destruct (v_ver v <=? v_ver old); cbn [fst c_kvs]; [exact Hs|apply Inv.kinsert_sorted; exact Hs].
  - cbn [fst c_kvs]. apply Inv.kinsert_sorted. exact Hs.
Qed.

Lemma set_many_sorted : forall kvs c evs, ksorted (c_kvs c) -> ksorted (c_kvs (fst (set_many c kvs evs))).
Proof.
  induction kvs as [|[k v] r IH]; intros c evs Hs; cbn [set_many fst]; [exact Hs|].
  destruct (set_versioned_value c k v) as [c' ev] eqn:E. apply IH.
  replace c' with (fst (set_versioned_value c k v)) by (rewrite E; reflexivity). apply svv_sorted. exact Hs.
Qed.

Lemma set_many_get_other : forall kvs c evs k,
  ~ In k (map fst kvs) -> kget k (c_kvs (fst (set_many c kvs evs))) = kget k (c_kvs c).
Proof.
  induction kvs as [|[k2 v2] r IH]; intros c evs k Hn; cbn [set_many fst]; [reflexivity|].
  destruct (set_versioned_value c k2 v2) as [c' ev] eqn:E.
  rewrite IH by (intros H; apply Hn; right; exact H).
  replace c' with (fst (set_versioned_value c k2 v2)) by (rewrite E; reflexivity).
  apply svv_get_other. intros ->. apply Hn. left. reflexivity.
Qed.

Lemma set_many_get : forall kvs c evs k v,
  NoDup (map fst kvs) -> In (k, v) kvs -> kget k (c_kvs (fst (set_many c kvs evs))) = Some (merged c k v).
Proof.
  induction kvs as [|[k1 v1] r IH]; intros c evs k v Hnd Hin; [destruct Hin|].
  cbn [set_many fst]. destruct (set_versioned_value c k1 v1) as [c' ev] eqn:E.
  cbn [map fst] in Hnd. apply NoDup_cons_iff in Hnd as [Hni Hr].
  assert (Hc' : c' = fst (set_versioned_value c k1 v1)) by (rewrite E; reflexivity).
  destruct Hin as [Heq|Hin].
  - injection Heq as -> ->.
    rewrite set_many_get_other by exact Hni. rewrite Hc'. apply svv_get_same.
  - rewrite (IH c' (evs ++ ev) k v Hr Hin). unfold merged.
    assert (Hne : k1 <> k) by (intros ->; apply Hni; apply (in_map fst) in Hin; exact Hin).
    rewrite Hc', (svv_get_other c k1 v1 k Hne). reflexivity.
Qed.

Lemma kget_filter_keep (f : bytes * vv -> bool) m k v :
  ksorted m -> kget k m = Some v -> f (k, v) = true -> kget k (filter f m) = Some v.
Proof.
  intros Hs Hg Hf. apply Inv.ksorted_in_get; [apply Inv.kfilter_sorted; exact Hs|].
  apply filter_In. split; [apply Inv.kget_in; exact Hg|exact Hf].
Qed.

Lemma kget_filter_drop (f : bytes * vv -> bool) m k :
  (forall v, f (k, v) = false) -> kget k (filter f m) = None.
Proof.
  intros Hf. destruct (kget k (filter f m)) as [v|] eqn:E; [|reflexivity].
  apply Inv.kget_in in E. apply filter_In in E as [_ E]. rewrite Hf in E. discriminate.
Qed.

Lemma in_keys_iff k kvs : in_keys k kvs = true <-> In k (map fst kvs).
Proof.
  unfold in_keys. rewrite existsb_exists. split.
  - intros (e & He & Hb). apply bytes_eqb_eq in Hb. subst k. apply in_map. exact He.
  - intros H. apply in_map_iff in H as (e & <- & He). exists e. split; [exact He|apply bytes_eqb_eq; reflexivity].
Qed.

(* ---------------- the copy an accepted catch-up installs ---------------- *)
Definition catchup_copy (c s : copy) : copy :=
  let c1 := fst (set_many c (c_kvs s) []) in
  mkCopy (c_hb c1) (N.max (c_gc s) (c_gc c1)) (N.max (c_max s) (c_max c1))
         (filter (fun e => in_keys (fst e) (c_kvs s)) (c_kvs c1)).

Lemma catchup_copy_get c s k :
  ksorted (c_kvs c) -> ksorted (c_kvs s) ->
  kget k (c_kvs (catchup_copy c s)) =
  match kget k (c_kvs s) with Some v => Some (merged c k v) | None => None end.
Proof.
  intros Hc Hs. unfold catchup_copy. cbn [c_kvs].
  pose proof (sorted_nodup_keys bytes_cmp bytes_cmp_eq bytes_cmp_trans _ Hs) as Hnd.
  destruct (kget k (c_kvs s)) as [v|] eqn:E.
  - apply kget_filter_keep.
    + apply set_many_sorted. exact Hc.
    + apply set_many_get; [exact Hnd|apply Inv.kget_in; exact E].
    + cbn [fst]. apply in_keys_iff. apply in_map_iff. exists (k, v). split; [reflexivity|apply Inv.kget_in; exact E].
  - apply kget_filter_drop. intros v. cbn [fst].
    destruct (in_keys k (c_kvs s)) eqn:Ek; [|reflexivity]. exfalso.
    apply in_keys_iff in Ek. apply in_map_iff in Ek as ([k' v'] & Hk & Hin). cbn [fst] in Hk. subst k'.
    rewrite (Inv.ksorted_in_get _ _ _ Hs Hin) in E. discriminate.
Qed.

Lemma catchup_copy_frontier c s :
  copy_inv s -> c_max c <= c_max s ->
  c_hb (catchup_copy c s) = c_hb c /\ c_gc (catchup_copy c s) = N.max (c_gc s) (c_gc c) /\
  c_max (catchup_copy c s) = c_max s.
Proof.
  intros Hs Hle. unfold catchup_copy. cbn [c_hb c_gc c_max].
  destruct (set_many_frontier (c_kvs s) c []) as (A & B & C). rewrite A, C.
  split; [reflexivity|]. split; [reflexivity|].
  assert (D : c_max (fst (set_many c (c_kvs s) [])) <= c_max s).
  { apply set_many_max_le; [exact Hle|]. intros k v Hin. apply (ci_range s Hs k v Hin). }
  lia.
Qed.

(* a copy "some node could hold" of member X: well-formed, integral and exact relative to T *)
Record snap_ok (T : truth) (X : id) (s : copy) : Prop := mkSnap {
  so_inv : copy_inv s;
  so_int : copy_int T X s;
  so_hold : Hold T X s;
  so_compl : Compl T X s
}.

Lemma snap_ok_mono T T' X s : t_le T T' -> t_wf T -> snap_ok T X s -> snap_ok T' X s.
Proof.
  intros Hle Hwf [A B C D]. split; [exact A|eapply copy_int_mono; eauto|eapply Hold_mono; eauto|eapply Compl_mono; eauto].
Qed.

Lemma new_copy_snap T X : t_wf T -> snap_ok T X new_copy.
Proof. intros Hwf. split; [apply new_copy_inv|apply new_copy_int|apply new_copy_hold|apply new_copy_compl; exact Hwf]. Qed.

Lemma merged_cases c k v : merged c k v = v \/ exists old, kget k (c_kvs c) = Some old /\ merged c k v = old /\ v_ver v <= v_ver old.
Proof.
  unfold merged. destruct (kget k (c_kvs c)) as [old|]; [|left; reflexivity].
  destruct (v_ver v <=? v_ver old) eqn:E; [right|left; reflexivity].
  exists old. split; [reflexivity|]. split; [reflexivity|apply N.leb_le; exact E].
Qed.

(* the honest catch-up: own copy and supplied state both exact; the merge is exact *)
Theorem catchup_copy_ok T X c s :
  t_wf T -> snap_ok T X c -> snap_ok T X s -> c_max c < c_max s -> c_gc c <= c_max s ->
  snap_ok T X (catchup_copy c s).
Proof.
  intros Hwf [Hci Hcint Hch Hcc] [Hsi Hsint Hsh Hsc] Hmx Hgc.
  destruct (catchup_copy_frontier c s Hsi ltac:(lia)) as (Fh & Fg & Fm).
  pose proof (catchup_copy_get c s) as Hget.
  assert (Hsorted : ksorted (c_kvs (catchup_copy c s))).
  { unfold catchup_copy. cbn [c_kvs]. apply Inv.kfilter_sorted. apply set_many_sorted. apply Hci. }
  (* where an entry of the result comes from *)
  assert (Hfrom : forall k o, In (k, o) (c_kvs (catchup_copy c s)) ->
            In (k, o) (c_kvs s) \/ (In (k, o) (c_kvs c))).
  { intros k o Hin. apply (Inv.ksorted_in_get _ _ _ Hsorted) in Hin.
    rewrite Hget in Hin by (apply Hci || apply Hsi).
    destruct (kget k (c_kvs s)) as [v|] eqn:E; [|discriminate]. injection Hin as <-.
    destruct (merged_cases c k v) as [->|(old & Ho & -> & _)]; [left; apply Inv.kget_in; exact E|right; apply Inv.kget_in; exact Ho]. }
  assert (Hwrote : forall k o, In (k, o) (c_kvs (catchup_copy c s)) -> t_wrote T X (entry_of k o)).
  { intros k o Hin. destruct (Hfrom k o Hin) as [H|H]; [apply (cint_entries T X s Hsint k o H)|apply (cint_entries T X c Hcint k o H)]. }
  split.
  - (* copy_inv *)
    split.
    + exact Hsorted.
    + intros k1 v1 k2 v2 H1 H2 Hv.
      pose proof (twf_inj T Hwf X _ _ (Hwrote _ _ H1) (Hwrote _ _ H2) Hv) as E. injection E as _ E _ _. exact E.
    + intros k o Hin. split; [apply (twf_range T Hwf X _ (Hwrote k o Hin))|]. rewrite Fm.
      destruct (Hfrom k o Hin) as [H|H]; [apply (ci_range s Hsi k o H)|].
      pose proof (ci_range c Hci k o H). lia.
  - (* integrity *)
    split; [exact Hwrote| | |].
    + rewrite Fm. apply (cint_max T X s Hsint).
    + rewrite Fg. pose proof (cint_gc T X s Hsint). pose proof (cint_gc T X c Hcint). lia.
    + rewrite Fh. apply (cint_hb T X c Hcint).
  - (* Hold *)
    intros k o w Hk Hl. rewrite Hget in Hk by (apply Hci || apply Hsi).
    destruct (kget k (c_kvs s)) as [v|] eqn:E; [|discriminate]. injection Hk as <-.
    assert (Hhz : hz (catchup_copy c s) = hz s) by (unfold hz; rewrite Fg, Fm; lia).
    rewrite Hhz.
    destruct (merged_cases c k v) as [->|(old & Ho & -> & Hle)]; [apply (Hsh k v w E Hl)|].
    destruct (Hch k old w Ho Hl) as [->|Hlt]; [left; reflexivity|].
    destruct (Hsh k v w E Hl) as [->|Hlt2]; [|right; exact Hlt2].
    exfalso. cbn [entry_of lw_ver] in Hlt.
    pose proof (ci_range c Hci k old (Inv.kget_in _ _ _ Ho)). unfold hz in Hlt. lia.
  - (* Compl *)
    intros k w Hl Hv. rewrite Fm in Hv.
    destruct (Hsc k w Hl Hv) as [(v & Hkv & Hw)|[H1 H2]].
    + left. unfold holds. rewrite Hget by (apply Hci || apply Hsi). rewrite Hkv.
      destruct (merged_cases c (lw_key w) v) as [->|(old & Ho & -> & Hle)]; [exists v; auto|].
      exists old. split; [reflexivity|].
      (* the own entry is a write on the same key, not older than the latest one: it IS the latest *)
      pose proof (cint_entries T X c Hcint _ _ (Inv.kget_in _ _ _ Ho)) as Hwo.
      destruct Hl as (Hww & Hkey & Hmax).
      assert (Hk2 : lw_key (entry_of (lw_key w) old) = k) by (cbn [entry_of lw_key]; exact Hkey).
      pose proof (Hmax _ Hwo Hk2) as Hle2. cbn [entry_of lw_ver] in Hle2.
      assert (Hve : lw_ver (entry_of (lw_key w) old) = lw_ver w).
      { cbn [entry_of lw_ver]. rewrite <- Hw in Hle2 |- *. cbn [entry_of lw_ver] in *. lia. }
      apply (twf_inj T Hwf X _ _ Hwo Hww Hve).
    + right. split; [exact H1|]. rewrite Fg. lia.
Qed.
