(* Stream.v — CompressedStreamWriter and deserialize_stream (serialize.rs:303-435).
   zstd is a pair of section variables: [zc] compresses a block into a buffer as large as the
   block (None = "does not fit", the block is stored raw), [zd] decompresses into a
   65,535-byte buffer (None = error). Model file. *)
From ChitchatModel Require Import Base Bytes Params.

Section Stream.
  Variable zc : bytes -> option bytes.
  Variable zd : bytes -> option bytes.

  Record writer := mkW { w_out : bytes; w_pend : bytes; w_thr : N }.

  Definition new_writer (thr : N) : writer := mkW [] [] thr.

  (* ceil(a / b) for b > 0 *)
  Definition div_ceil (a b : N) : N := (a + b - 1) / b.

  (* serialize.rs:325-339.  None = the assert!(len > 0) fires. *)
  Definition upperbound_after (w : writer) (item_len : N) : option N :=
    if item_len =? 0 then None
    else
      let pending := len (w_pend w) + item_len in
      Some (len (w_out w) + P_BLOCK_META_LEN * div_ceil pending (w_thr w) + pending + 1).

  (* serialize.rs:357-387 *)
  Definition flush_block (w : writer) : writer :=
    match w_pend w with
    | [] => w
    | _ =>
        let n := N.to_nat (N.min (len (w_pend w)) (w_thr w)) in
        let blk := firstn n (w_pend w) in
        let rest := skipn n (w_pend w) in
        match zc blk with
        | Some c => mkW (w_out w ++ put_u8 1 ++ put_u16 (len c) ++ c) rest (w_thr w)
        | None => mkW (w_out w ++ put_u8 2 ++ put_u16 (len blk) ++ blk) rest (w_thr w)
        end
    end.

  (* the while loop of append; fuel = number of pending bytes *)
  Fixpoint flush_while (fuel : nat) (w : writer) : writer :=
    match fuel with
    | O => w
    | S f => if w_thr w <? len (w_pend w) then flush_while f (flush_block w) else w
    end.

  (* serialize.rs:342-350.  Panic = assert!(item_len <= u16::MAX) *)
  Definition append (w : writer) (item : bytes) : result writer :=
    if u16_max <? len item then Panic
    else
      let w1 := mkW (w_out w) (w_pend w ++ item) (w_thr w) in
      Ok (flush_while (length (w_pend w1)) w1).

  (* serialize.rs:389-393 *)
  Definition finish (w : writer) : bytes :=
    w_out (flush_block w) ++ put_u8 0.

  (* serialize.rs:396-427 : the block loop; returns (decompressed data, rest of buffer) *)
  Fixpoint read_blocks (fuel : nat) (buf : bytes) (acc : bytes) : option (bytes * bytes) :=
    match fuel with
    | O => None
    | S f =>
        match get_u8 buf with
        | None => None
        | Some (t, r) =>
            if t =? 0 then Some (acc, r)
            else if t =? 1 then
              match get_u16 r with
              | None => None
              | Some (l, r1) =>
                  match take_bytes (N.to_nat l) r1 with
                  | None => None
                  | Some (c, r2) =>
                      (* decompress_to_buffer into a buffer of P_DECOMPRESS_CAP bytes: a block that
                         expands beyond it is an error *)
                      match zd c with
                      | None => None
                      | Some d => if len d <=? P_DECOMPRESS_CAP then read_blocks f r2 (acc ++ d) else None
                      end
                  end
              end
            else if t =? 2 then
              match get_u16 r with
              | None => None
              | Some (l, r1) =>
                  match take_bytes (N.to_nat l) r1 with
                  | None => None
                  | Some (d, r2) => read_blocks f r2 (acc ++ d)
                  end
              end
            else None
        end
    end.

  (* every iteration consumes at least one byte, so |buf|+1 is enough fuel *)
  Definition read_stream (buf : bytes) : option (bytes * bytes) :=
    read_blocks (S (length buf)) buf [].
End Stream.
