(* FdKnown.v — the failure detector never holds state about a member the node holds no copy of:
   in every reachable state, on every node, every id in the live set, in the dead map or owning a
   sampling window is a key of the node's member map.  (Used by C16: the live/dead sets of a node
   only name members of its own cluster; and by C12: a member removed at the end of its grace
   period leaves no trace in the detector.) *)
From Coq Require Import Lia ZArith.
From ChitchatModel Require Import Base SMap Ids Bytes Params NodeState Stream DeltaWire Message Cluster
  FD Chitchat World SMap_lemmas Builder_lemmas Cluster_lemmas Chitchat_lemmas FD_lemmas Inv Compute_lemmas NodeInv
  Liveness_lemmas Truth NodeTruth Weak Reach Potential ReachMono ReachFD.

Definition held (n : node) (i : id) : Prop := nm_get i (cs_nodes (nd_cs n)) <> None.
Definition mentions (f : fd) (i : id) : Prop :=
  is_mem i (fd_live f) = true \/ dm_get i (fd_dead f) <> None \/ wm_get i (fd_samples f) <> None.
Definition wsorted (f : fd) : Prop := sm_sorted id_cmp (fd_samples f).

Record fd_known (n : node) : Prop := mkFK {
  fk_sorted : wsorted (nd_fd n);
  fk_held : forall i, mentions (nd_fd n) i -> held n i
}.

Lemma held_le n n' i : node_le n n' -> held n i -> held n' i.
Proof.
  intros L H. unfold held in *. destruct (nm_get i (cs_nodes (nd_cs n))) as [c|] eqn:E; [|congruence].
  destruct (L i c E) as (c' & Hc' & _). rewrite Hc'. discriminate.
Qed.

Lemma fd_known_same_fd n n' : nd_fd n' = nd_fd n -> node_le n n' -> fd_known n -> fd_known n'.
Proof. intros E L [S H]. split; rewrite E; [exact S|]. intros i Hi. eapply held_le; eauto. Qed.

(* ---- heartbeat reports ---- *)
Lemma mentions_report cfg now f i j : mentions (fd_report_heartbeat cfg now f i) j -> j = i \/ mentions f j.
Proof.
  unfold mentions, fd_report_heartbeat. cbn [fd_live fd_dead fd_samples]. intros [H|[H|H]]; [right; auto|right; auto|].
  destruct (id_dec_eq i j) as [<-|Hne]; [left; reflexivity|right; right; right].
  unfold wm_get, wm_insert in H. rewrite (sm_get_insert_other id_cmp id_cmp_eq) in H by exact Hne. exact H.
Qed.

Lemma report_heartbeat_fd_cases now n i hb :
  let n' := report_heartbeat now n i hb in
  nd_fd n' = nd_fd n \/ (nd_fd n' = fd_report_heartbeat (cf_fd (nd_cfg n)) now (nd_fd n) i /\ held n' i).
Proof.
  cbv zeta. unfold report_heartbeat. destruct (id_eqb i (self_id n)); [left; reflexivity|].
  match goal with |- context [nm_get i (cs_nodes ?c0)] => set (cs := c0) end.
  destruct (nm_get i (cs_nodes cs)) as [c|]; [|left; reflexivity].
  destruct (try_set_heartbeat c hb) as [c' fresh]. destruct fresh; [right|left; reflexivity].
  cbn [with_fd with_cs nd_fd nd_cfg nd_cs]. split; [reflexivity|].
  unfold held. cbn [with_fd with_cs nd_cs cs_nodes]. rewrite nm_get_insert_same. discriminate.
Qed.

Lemma report_heartbeat_known now n i hb : fd_known n -> fd_known (report_heartbeat now n i hb).
Proof.
  intros Hk. pose proof (report_heartbeat_keeps now n i hb) as L.
  destruct (report_heartbeat_fd_cases now n i hb) as [E|[E Hh]]; [eapply fd_known_same_fd; eauto|].
  destruct Hk as [S H]. split; rewrite E.
  - unfold wsorted, fd_report_heartbeat. cbn [fd_samples].
    apply (sm_insert_sorted id_cmp id_cmp_eq id_cmp_antisym id_cmp_trans). exact S.
  - intros j Hj. apply mentions_report in Hj as [->|Hj]; [exact Hh|]. eapply held_le; [exact L|apply H; exact Hj].
Qed.

Lemma report_heartbeats_known now dg : forall n, fd_known n -> fd_known (report_heartbeats_in_digest now n dg).
Proof.
  unfold report_heartbeats_in_digest. induction dg as [|e r IH]; intros n Hk; cbn [fold_left]; [exact Hk|].
  apply IH. apply report_heartbeat_known. exact Hk.
Qed.

Lemma update_self_heartbeat_known n : fd_known n -> fd_known (update_self_heartbeat n).
Proof. apply fd_known_same_fd; [reflexivity|apply update_self_heartbeat_keeps]. Qed.

Lemma process_delta_known now n x n' evs :
  delta_wf x -> process_delta now n x = Ok (n', evs) -> fd_known n -> fd_known n'.
Proof.
  intros Hwf Hpd. apply fd_known_same_fd; [apply (process_delta_fd _ _ _ _ _ Hpd)|eapply process_delta_keeps; eauto].
Qed.

(* ---- the liveness evaluation ---- *)
Lemma mentions_update cfg now f i oracle j :
  mentions (fd_update_node_liveness cfg now f i oracle) j -> j = i \/ mentions f j.
Proof.
  destruct (id_dec_eq i j) as [<-|Hne]; [left; reflexivity|right].
  unfold mentions, fd_update_node_liveness in *. destruct (fd_is_alive cfg now f i oracle); cbn [fd_live fd_dead fd_samples] in *.
  - destruct H as [H|[H|H]].
    + left. rewrite is_mem_insert_other in H by exact Hne. exact H.
    + right; left. unfold dm_get, dm_remove in H. rewrite get_remove_other in H by exact Hne. exact H.
    + right; right. exact H.
  - destruct H as [H|[H|H]].
    + left. rewrite is_mem_remove_other in H by exact Hne. exact H.
    + right; left. destruct (dm_get i (fd_dead f)); [exact H|].
      unfold dm_get, dm_insert in H. rewrite (sm_get_insert_other id_cmp id_cmp_eq) in H by exact Hne. exact H.
    + right; right. destruct (wm_get i (fd_samples f)); [|exact H].
      unfold wm_get, wm_insert in H. rewrite (sm_get_insert_other id_cmp id_cmp_eq) in H by exact Hne. exact H.
Qed.

Lemma wsorted_update cfg now f i oracle : wsorted f -> wsorted (fd_update_node_liveness cfg now f i oracle).
Proof.
  unfold wsorted, fd_update_node_liveness. intros S. destruct (fd_is_alive cfg now f i oracle); cbn [fd_samples]; [exact S|].
  destruct (wm_get i (fd_samples f)); [|exact S].
  apply (sm_insert_sorted id_cmp id_cmp_eq id_cmp_antisym id_cmp_trans). exact S.
Qed.

Lemma liveness_fold_mentions cfg now self (oracle : id -> option bool) (nodes : nmap) : forall f,
  wsorted f ->
  let f1 := fold_left (fun f e => if id_eqb (fst e) self then f
                                  else fd_update_node_liveness cfg now f (fst e) (oracle (fst e)))
                      nodes f in
  wsorted f1 /\ forall j, mentions f1 j -> In j (map fst nodes) \/ mentions f j.
Proof.
  induction nodes as [|[i c] r IH]; intros f S; cbn [fold_left map fst]; [split; [exact S|auto]|].
  destruct (id_eqb i self).
  - destruct (IH f S) as [S1 H1]. split; [exact S1|]. intros j Hj.
    destruct (H1 j Hj) as [Hin|Hm]; [left; right; exact Hin|right; exact Hm].
  - destruct (IH _ (wsorted_update cfg now f i (oracle i) S)) as [S1 H1]. split; [exact S1|].
    intros j Hj. destruct (H1 j Hj) as [Hin|Hm]; [left; right; exact Hin|].
    apply mentions_update in Hm as [->|Hm]; [left; left; reflexivity|right; exact Hm].
Qed.

Lemma fold_wm_remove_get (l : list id) : forall (m : wmap) j,
  sm_sorted id_cmp m ->
  sm_sorted id_cmp (fold_left (fun m i => wm_remove i m) l m) /\
  wm_get j (fold_left (fun m i => wm_remove i m) l m) = if in_ids j l then None else wm_get j m.
Proof.
  induction l as [|i r IH]; intros m j Hs; cbn [fold_left in_ids existsb]; [auto|].
  assert (Hs' : sm_sorted id_cmp (wm_remove i m)) by (apply (sm_remove_sorted id_cmp id_cmp_trans); exact Hs).
  destruct (IH (wm_remove i m) j Hs') as [A B]. split; [exact A|]. rewrite B.
  fold (in_ids j r). destruct (id_dec_eq i j) as [<-|Hne].
  - rewrite id_eqb_refl. cbn [orb]. destruct (in_ids i r); [reflexivity|].
    unfold wm_get, wm_remove. apply get_remove_same. exact Hs.
  - assert (E : id_eqb j i = false) by (destruct (id_eqb j i) eqn:E; [apply id_eqb_eq in E; congruence|reflexivity]).
    rewrite E. cbn [orb]. destruct (in_ids j r); [reflexivity|].
    unfold wm_get, wm_remove. apply get_remove_other. exact Hne.
Qed.

Lemma in_ids_In j l : in_ids j l = true <-> In j l.
Proof.
  unfold in_ids. rewrite existsb_exists. split.
  - intros (x & Hx & E). apply id_eqb_eq in E. subst. exact Hx.
  - intros H. exists j. split; [exact H|apply id_eqb_refl].
Qed.

Lemma update_nodes_liveness_known now n oracle :
  node_inv n -> fd_inv (nd_fd n) -> fd_self_free n -> fd_known n -> fd_known (update_nodes_liveness now n oracle).
Proof.
  intros [Hs Hc] Hfd [Hsl Hsd] [S Hk]. unfold update_nodes_liveness. cbv zeta.
  set (orc := fun i : id => match oracle with Some l => Some (in_ids i l) | None => None end).
  pose proof (liveness_fold (cf_fd (nd_cfg n)) now (self_id n) orc (cs_nodes (nd_cs n)) (nd_fd n) Hfd
                (sorted_nodup_keys id_cmp id_cmp_eq id_cmp_trans _ Hs)) as Hfold.
  pose proof (liveness_fold_mentions (cf_fd (nd_cfg n)) now (self_id n) orc (cs_nodes (nd_cs n)) (nd_fd n) S) as Hment.
  cbn zeta in Hfold, Hment. unfold orc in Hfold, Hment.
  match goal with |- context [fd_garbage_collect _ _ ?f] => set (f1 := f) in * end.
  destruct Hfold as (Hinv1 & _ & Hsame). destruct Hment as [S1 Hm1].
  destruct (fd_garbage_collect (cf_fd (nd_cfg n)) now f1) as [f2 collected] eqn:Hgc.
  assert (Hf2 : f2 = mkFd (fold_left (fun m i => wm_remove i m) collected (fd_samples f1)) (fd_live f1)
                          (fold_left (fun m i => dm_remove i m) collected (fd_dead f1))
                /\ collected = snd (fd_garbage_collect (cf_fd (nd_cfg n)) now f1)).
  { unfold fd_garbage_collect in Hgc |- *. cbn [snd]. injection Hgc as <- <-. auto. }
  destruct Hf2 as [-> Hcol].
  destruct Hinv1 as [Hl1 Hd1 Hdis1].
  (* members held before the evaluation and mentioned after it *)
  assert (Hheld1 : forall j, mentions f1 j -> held n j).
  { intros j Hj. destruct (Hm1 j Hj) as [Hin|Hm]; [|apply Hk; exact Hm].
    apply in_map_iff in Hin as ([j' c] & <- & Hin). cbn [fst]. unfold held, nm_get.
    rewrite (sorted_in_get id_cmp id_cmp_eq id_cmp_antisym id_cmp_trans _ _ _ Hs Hin). discriminate. }
  split; cbn [nd_fd nd_cs].
  - unfold wsorted. cbn [fd_samples]. apply fold_wm_remove_get; [exact (self_id n)|exact S1].
  - intros j Hj.
    (* j is not collected, and was mentioned before the collection *)
    assert (Hnc : in_ids j collected = false /\ mentions f1 j).
    { destruct (in_ids j collected) eqn:Ec.
      - exfalso. unfold mentions in Hj. cbn [fd_live fd_dead fd_samples] in Hj.
        destruct Hj as [Hj|[Hj|Hj]].
        + apply Hdis1 in Hj. apply in_ids_In in Ec. rewrite Hcol in Ec.
          apply (gc_collected_iff _ _ _ _ Hd1) in Ec as (t & Ht & _). congruence.
        + rewrite fold_dm_remove_get in Hj by exact Hd1. rewrite Ec in Hj. congruence.
        + destruct (fold_wm_remove_get collected (fd_samples f1) j S1) as [_ B]. rewrite B, Ec in Hj. congruence.
      - split; [reflexivity|]. unfold mentions in *. cbn [fd_live fd_dead fd_samples] in Hj.
        destruct Hj as [Hj|[Hj|Hj]]; [left; exact Hj|right; left|right; right].
        + rewrite fold_dm_remove_get in Hj by exact Hd1. rewrite Ec in Hj. exact Hj.
        + destruct (fold_wm_remove_get collected (fd_samples f1) j S1) as [_ B]. rewrite B, Ec in Hj. exact Hj. }
    destruct Hnc as [Ec Hm]. unfold held. cbn [nd_cs].
    rewrite fold_remove_node_get by exact Hs. rewrite Ec. cbn [andb]. apply Hheld1. exact Hm.
Qed.

Lemma on_own_known now n f : node_inv n -> lwrite_op now f -> fd_known n -> fd_known (fst (on_own n f)).
Proof.
  intros Hi Hop. apply fd_known_same_fd; [apply on_own_fd|eapply on_own_keeps; eauto].
Qed.

Lemma gc_keys_known now n : fd_known n -> fd_known (gc_keys now n).
Proof. apply fd_known_same_fd; [reflexivity|apply gc_keys_keeps]. Qed.

Lemma new_node_known cfg initial : fd_known (new_node cfg initial).
Proof.
  assert (E : nd_fd (new_node cfg initial) = new_fd).
  { unfold new_node. destruct (on_own_fd (mkNode cfg (new_cluster) new_fd [] [] 0 0) (fun c => (set_all c initial, []))) as [A _].
    first [exact A | reflexivity]. }
  split; rewrite E; [exact I|]. intros i [H|[H|H]]; cbn in H; congruence.
Qed.

Section S.
  Variable zc : bytes -> option bytes.
  Hypothesis zc_len : forall b c, zc b = Some c -> len c <= len b.
  Variable strict : bool.

  Lemma process_message_known now n m ord n' reply evs :
    msg_wf m -> process_message zc now n m ord = Ok (n', reply, evs) -> fd_known n -> fd_known n'.
  Proof.
    unfold process_message. intros Hwf Hrun Hk.
    pose proof (update_self_heartbeat_known n Hk) as H0.
    destruct m as [cl dg|dg x|x|].
    - destruct (negb _); [injection Hrun as <- _ _; exact H0|].
      destruct (P_MAX_UDP <? _); [discriminate|].
      destruct (compute_delta zc _ dg _ _ ord); cbn [rmap] in Hrun; try discriminate.
      injection Hrun as <- _ _. apply report_heartbeats_known. exact H0.
    - destruct (process_delta now _ x) as [[n2 evs2]| |] eqn:Hpd; cbn [rbind] in Hrun; try discriminate.
      destruct (compute_delta zc _ dg _ _ ord); cbn [rmap] in Hrun; try discriminate.
      injection Hrun as <- _ _. eapply process_delta_known; [exact Hwf|exact Hpd|].
      apply report_heartbeats_known. exact H0.
    - destruct (process_delta now _ x) as [[n2 evs2]| |] eqn:Hpd; cbn [rmap] in Hrun; try discriminate.
      injection Hrun as <- _ _. cbn [fst]. eapply process_delta_known; [exact Hwf|exact Hpd|exact H0].
    - injection Hrun as <- _ _. exact H0.
  Qed.

  Theorem reachable_fd_known : forall g, reachable zc strict g ->
    forall a n, node_at g a = Some n -> fd_known n.
  Proof.
    induction 1 as [|g g' Hr IH Hstep]; [intros a n H; destruct a; discriminate|].
    destruct (reachable_inv zc zc_len strict g Hr) as [Hg _].
    pose proof (reachable_fd_good zc zc_len strict g Hr) as Hgood.
    assert (Hset : forall b m m' sent T, node_at g b = Some m -> fd_known m' ->
              forall a n, node_at (mkG (with_nodes (g_w g) (set_nth (w_nodes (g_w g)) b m')) sent T) a = Some n -> fd_known n).
    { intros b m m' sent T Hb Hm' a n Hn. unfold node_at in *. cbn [g_w with_nodes w_nodes] in Hn.
      destruct (Nat.eq_dec b a) as [->|Hne].
      - rewrite (nth_set_nth_same _ _ _ _ Hb) in Hn. injection Hn as <-. exact Hm'.
      - rewrite nth_set_nth_other in Hn by exact Hne. eapply IH; eauto. }
    destruct Hstep.
    - intros a n Hn. unfold node_at in Hn. cbn [g_w with_nodes w_nodes] in Hn.
      destruct (Nat.lt_ge_cases a (length (w_nodes (g_w g)))) as [Hlt|Hge].
      + rewrite nth_error_app1 in Hn by exact Hlt. eapply IH; eauto.
      + rewrite nth_error_app2 in Hn by exact Hge.
        destruct (a - length (w_nodes (g_w g)))%nat as [|k]; cbn in Hn; [|destruct k; discriminate].
        injection Hn as <-. apply new_node_known.
    - apply (Hset a n); [exact H|]. eapply on_own_known; [apply (gi_nodes g Hg a n H)|exact H0|eapply IH; eauto].
    - apply (Hset a n); [exact H|]. apply gc_keys_known. eapply IH; eauto.
    - apply (Hset a n); [exact H|]. apply update_self_heartbeat_known. eapply IH; eauto.
    - intros a n Hn. eapply IH; eauto.
    - apply (Hset a n); [exact H|]. destruct (Hgood a n H) as [Hf Hsf].
      apply update_nodes_liveness_known; [apply (ni_inv _ _ (gi_nodes g Hg a n H))|exact Hf|exact Hsf|eapply IH; eauto].
    - intros a0 n0 Hn. eapply IH; eauto.
    - apply (Hset a n); [exact H|]. eapply process_message_known; [apply (gi_sent g Hg m H0)|exact H2|eapply IH; eauto].
  Qed.
End S.
