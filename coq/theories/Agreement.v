(* Agreement.v — the per-member view of delta computation, and lemmas for C14.
   [mk_node_delta] is what ClusterState::compute_partial_delta_respecting_mtu produces for one
   member when the budget admits the first [n] stale key-values ([mv]: the SetMaxVersion op
   fitted).  DeltaRefine.v proves that every node delta of [Cluster.delta_loop] has this form. *)
From Coq Require Import Lia.
From ChitchatModel Require Import Base SMap Ids Bytes NodeState DeltaWire Message Cluster.

Definition last_ver (kvs : list (bytes * vv)) : option N :=
  match rev kvs with e :: _ => Some (v_ver (snd e)) | [] => None end.

Definition mk_node_delta (i : id) (s : copy) (dgc dmax : N) (n : nat) (mv : bool) : option ndelta :=
  if c_max s <=? dmax then None
  else
    let reset := (dgc <? c_gc s) && (dmax <? c_gc s) in
    let from := if reset then 0 else dmax in
    let all := stale_sorted s from in
    let kvs := firstn n all in
    let mx := match last_ver kvs with
              | Some v => v
              | None => match all with [] => if mv then c_max s else 0 | _ => 0 end
              end in
    Some (mkND i from (c_gc s) (map kvm_of kvs) mx).

Lemma in_insert_by_ver e x l : In x (insert_by_ver e l) -> x = e \/ In x l.
Proof.
  induction l as [|y r IH]; cbn [insert_by_ver]; [cbn; intuition|].
  destruct (v_ver (snd e) <=? v_ver (snd y)); cbn; intuition.
Qed.

Lemma in_sort_by_ver x l : In x (sort_by_ver l) -> In x l.
Proof.
  unfold sort_by_ver. induction l as [|y r IH]; cbn [fold_right]; [auto|].
  intros H. apply in_insert_by_ver in H. cbn. intuition.
Qed.

Lemma in_stale_sorted x c from : In x (stale_sorted c from) -> from < v_ver (snd x) /\ In x (c_kvs c).
Proof.
  unfold stale_sorted, stale_key_values. intros H. apply in_sort_by_ver in H.
  apply filter_In in H as [H1 H2]. apply N.ltb_lt in H2. auto.
Qed.

Lemma in_firstn {A} (x : A) n l : In x (firstn n l) -> In x l.
Proof. revert l; induction n as [|n IH]; destruct l; cbn; intuition. Qed.

Lemma last_ver_in kvs v : last_ver kvs = Some v -> exists e, In e kvs /\ v_ver (snd e) = v.
Proof.
  unfold last_ver. destruct (rev kvs) as [|e l] eqn:Hrev; [discriminate|].
  intros [= <-]. exists e. split; [|reflexivity].
  apply in_rev. rewrite Hrev. left; reflexivity.
Qed.

Lemma last_ver_none kvs : last_ver kvs = None -> kvs = [].
Proof.
  unfold last_ver. destruct (rev kvs) as [|e l] eqn:Hrev; [|discriminate].
  intros _. rewrite <- (rev_involutive kvs), Hrev. reflexivity.
Qed.

(* C14, status part: for ALL sender copies [s] and receiver frontiers (gc, max) — including
   watermark above max version — and every truncation point [n]. *)
Theorem agreement_status : forall i s r n mv d,
  mk_node_delta i s (c_gc r) (c_max r) n mv = Some d ->
  (check_delta_status r d = ApplyAfterReset <-> (c_gc r < c_gc s /\ c_max r < c_gc s)) /\
  (check_delta_status r d = ApplyAfterReset -> d_from d = 0) /\
  (check_delta_status r d = Reject -> d_kvs d = [] /\ d_max d = 0).
Proof.
  intros i s r n mv d H. unfold mk_node_delta in H.
  destruct (c_max s <=? c_max r) eqn:Hle; [discriminate|].
  apply N.leb_gt in Hle.
  remember ((c_gc r <? c_gc s) && (c_max r <? c_gc s)) as reset eqn:Hr.
  remember (if reset then 0 else c_max r) as from eqn:Hfrom.
  injection H as <-.
  unfold check_delta_status; cbn [d_from d_gc d_max d_kvs].
  assert (Hfl : from <= c_max r) by (subst from; destruct reset; lia).
  destruct (c_max r <? from) eqn:Hf; [apply N.ltb_lt in Hf; lia|].
  destruct reset; symmetry in Hr.
  - apply andb_true_iff in Hr as [H1 H2]. apply N.ltb_lt in H1, H2.
    assert (Hc : (c_gc s <=? c_gc r) || (c_gc s <=? c_max r) = false).
    { apply orb_false_iff; split; apply N.leb_gt; lia. }
    rewrite Hc. subst from. cbn. repeat split; auto; discriminate.
  - assert (Hc : (c_gc s <=? c_gc r) || (c_gc s <=? c_max r) = true).
    { apply andb_false_iff in Hr as [H1|H1]; apply N.ltb_ge in H1; apply orb_true_iff;
      [left|right]; apply N.leb_le; lia. }
    rewrite Hc. cbn [negb]. subst from.
    split; [|split].
    + split.
      * match goal with |- (if ?b then _ else _) = _ -> _ => destruct b; intros Hx; discriminate Hx end.
      * intros [H1 H2]. apply andb_false_iff in Hr as [H3|H3]; apply N.ltb_ge in H3; lia.
    + match goal with |- (if ?b then _ else _) = _ -> _ => destruct b; intros Hx; discriminate Hx end.
    + destruct (last_ver (firstn n (stale_sorted s (c_max r)))) as [v|] eqn:Hl.
      * apply last_ver_in in Hl as (e & Hin & <-).
        apply in_firstn in Hin. apply in_stale_sorted in Hin as [Hv _].
        assert (Hlt : c_max r <? v_ver (snd e) = true) by (apply N.ltb_lt; lia).
        rewrite Hlt. discriminate.
      * apply last_ver_none in Hl. rewrite Hl. cbn [map].
        destruct (stale_sorted s (c_max r)) eqn:Hs.
        -- destruct mv.
           ++ assert (Hlt : c_max r <? c_max s = true) by (apply N.ltb_lt; lia).
              rewrite Hlt. discriminate.
           ++ auto.
        -- auto.
Qed.

(* ---- progress part ---- *)
From ChitchatModel Require Import NodeState_lemmas.

Fixpoint asc_ver (l : list (bytes * vv)) : Prop :=
  match l with
  | [] => True
  | x :: r => (forall y, In y r -> v_ver (snd x) <= v_ver (snd y)) /\ asc_ver r
  end.

Lemma insert_by_ver_asc e l : asc_ver l -> asc_ver (insert_by_ver e l).
Proof.
  induction l as [|x r IH]; cbn [insert_by_ver asc_ver].
  - intros _. split; [intros y []|exact I].
  - intros [Hx Hr]. destruct (v_ver (snd e) <=? v_ver (snd x)) eqn:Hle.
    + apply N.leb_le in Hle. cbn [asc_ver]. split; [|split; assumption].
      intros y [<-|Hy]; [exact Hle|]. specialize (Hx y Hy). lia.
    + apply N.leb_gt in Hle. cbn [asc_ver]. split; [|apply IH; exact Hr].
      intros y Hy. apply in_insert_by_ver in Hy as [->|Hy]; [lia|apply Hx; exact Hy].
Qed.

Lemma sort_by_ver_asc l : asc_ver (sort_by_ver l).
Proof.
  unfold sort_by_ver. induction l as [|x r IH]; cbn [fold_right]; [exact I|].
  apply insert_by_ver_asc. exact IH.
Qed.

Lemma firstn_asc n l : asc_ver l -> asc_ver (firstn n l).
Proof.
  revert l. induction n as [|n IH]; intros [|x r]; cbn [firstn asc_ver]; auto.
  intros [Hx Hr]. split; [|apply IH; exact Hr].
  intros y Hy. apply Hx. eapply in_firstn; eauto.
Qed.

Lemma asc_last_ge l v : asc_ver l -> last_ver l = Some v -> forall y, In y l -> v_ver (snd y) <= v.
Proof.
  induction l as [|x r IH]; intros Ha Hl y Hy; [destruct Hy|].
  destruct Ha as [Hx Hr].
  destruct r as [|x' r'].
  - unfold last_ver in Hl. cbn in Hl. injection Hl as <-. destruct Hy as [<-|[]]. lia.
  - assert (Hl' : last_ver (x' :: r') = Some v).
    { unfold last_ver in *. cbn [rev] in *.
      destruct (rev r' ++ [x']) as [|e l] eqn:He.
      - destruct (rev r'); discriminate.
      - cbn in Hl. injection Hl as <-. reflexivity. }
    destruct Hy as [<-|Hy].
    + destruct (last_ver_in _ _ Hl') as (e & He & <-). apply Hx. exact He.
    + apply IH; auto.
Qed.

Lemma mk_node_delta_bounded i s dgc dmax n mv d :
  mk_node_delta i s dgc dmax n mv = Some d -> nd_bounded d.
Proof.
  unfold mk_node_delta. destruct (c_max s <=? dmax); [discriminate|].
  intros [= <-]. unfold nd_bounded. cbn [d_kvs d_max].
  intros m Hm. apply in_map_iff in Hm as (e & <- & He). cbn [kvm_of m_ver].
  set (from := if (dgc <? c_gc s) && (dmax <? c_gc s) then 0 else dmax) in *.
  destruct (last_ver (firstn n (stale_sorted s from))) as [v|] eqn:Hl.
  - eapply asc_last_ge; eauto. apply firstn_asc. apply sort_by_ver_asc.
  - apply last_ver_none in Hl. rewrite Hl in He. destruct He.
Qed.

(* C14, progress part: whenever the receiver does not refuse it, applying the computed delta
   never aborts and strictly increases the receiver's (GC watermark, max version). *)
Theorem agreement_progress : forall now i s r n mv d,
  mk_node_delta i s (c_gc r) (c_max r) n mv = Some d ->
  exists r' st evs, apply_delta now r d = Ok (r', st, evs) /\
    (st <> Reject -> lex_lt_p (monotonic_property r) (monotonic_property r')).
Proof.
  intros now i s r n mv d H.
  destruct (apply_delta_frontier now r d (mk_node_delta_bounded _ _ _ _ _ _ _ H))
    as (r' & st & evs & Hok & Hst & Hle & HR & HA & HX).
  exists r', st, evs. split; [exact Hok|].
  intros Hne. unfold lex_lt_p, monotonic_property. cbn [fst snd].
  destruct st; [congruence| |].
  - destruct (HA eq_refl) as (Hg & Hm & _). right. split; [congruence|exact Hm].
  - destruct (HX eq_refl) as (Hg & _). left. exact Hg.
Qed.

(* "Whenever the sender's copy is ahead the delta is non-empty (space permitting)" *)
Theorem agreement_nonempty : forall i s r n mv d,
  mk_node_delta i s (c_gc r) (c_max r) n mv = Some d ->
  (0 < n)%nat -> mv = true -> check_delta_status r d <> Reject.
Proof.
  intros i s r n mv d H Hn Hmv Hrej.
  destruct (agreement_status _ _ _ _ _ _ H) as (_ & _ & HR).
  destruct (HR Hrej) as [Hk Hm].
  unfold mk_node_delta in H. destruct (c_max s <=? c_max r) eqn:Hle; [discriminate|].
  apply N.leb_gt in Hle. injection H as <-. cbn [d_kvs d_max] in *.
  set (from := if (c_gc r <? c_gc s) && (c_max r <? c_gc s) then 0 else c_max r) in *.
  destruct (stale_sorted s from) as [|e l] eqn:Hs.
  - rewrite firstn_nil in Hm. cbn in Hm. subst mv. lia.
  - destruct n; [lia|]. cbn in Hk. discriminate.
Qed.
