(* Truth.v — "what the owners really wrote" as an abstract parameter, and the integrity of copies
   and messages with respect to it (C03, C05; Exact.v adds the exactness invariants of C02).
   A truth gives, per member: the set of writes its owner performed (each with its version), the
   owner's current max version and heartbeat. Truth only grows: new writes get versions above
   the previous max. *)
From Coq Require Import Lia.
From ChitchatModel Require Import Base SMap Ids Bytes Params NodeState Stream DeltaWire Message Cluster
  FD Chitchat Monitors SMap_lemmas NodeState_lemmas Builder_lemmas Cluster_lemmas Chitchat_lemmas Inv
  Agreement DeltaRefine Compute_lemmas Prefix_lemmas NodeInv.

Record truth := mkT {
  t_wrote : id -> lwrite -> Prop;
  t_max : id -> N;
  t_hb : id -> N
}.

Definition entry_of (k : bytes) (v : vv) : lwrite := mkLW (v_ver v) k (v_val v) (to_mstatus (v_st v)).
Definition entry_of_kvm (m : kvm) : lwrite := mkLW (m_ver m) (m_key m) (m_val m) (m_st m).

Lemma entry_of_kvm_of e : entry_of_kvm (kvm_of e) = entry_of (fst e) (snd e).
Proof. reflexivity. Qed.

Record t_wf (T : truth) : Prop := mkTWF {
  twf_range : forall X w, t_wrote T X w -> 0 < lw_ver w /\ lw_ver w <= t_max T X;
  twf_inj : forall X w w', t_wrote T X w -> t_wrote T X w' -> lw_ver w = lw_ver w' -> w = w'
}.

(* T' extends T *)
Record t_le (T T' : truth) : Prop := mkTLE {
  tle_wrote : forall X w, t_wrote T X w -> t_wrote T' X w;
  tle_max : forall X, t_max T X <= t_max T' X;
  tle_hb : forall X, t_hb T X <= t_hb T' X;
  tle_fresh : forall X w, t_wrote T' X w -> t_wrote T X w \/ t_max T X < lw_ver w
}.

Lemma t_le_refl T : t_le T T.
Proof. split; auto; try (intros; lia). Qed.

(* ---- integrity of a copy of member X ---- *)
Record copy_int (T : truth) (X : id) (c : copy) : Prop := mkCInt {
  cint_entries : forall k v, In (k, v) (c_kvs c) -> t_wrote T X (entry_of k v);
  cint_max : c_max c <= t_max T X;
  cint_gc : c_gc c <= t_max T X;
  cint_hb : c_hb c <= t_hb T X
}.

Lemma copy_int_mono T T' X c : t_le T T' -> copy_int T X c -> copy_int T' X c.
Proof.
  intros [Hw Hm Hh _] [H1 H2 H3 H4]. split.
  - intros k v Hin. apply Hw. eauto.
  - specialize (Hm X). lia.
  - specialize (Hm X). lia.
  - specialize (Hh X). lia.
Qed.

Lemma new_copy_int T X : copy_int T X new_copy.
Proof. split; cbn; try lia; try (intros ? ? []). Qed.

(* ---- integrity of a node delta about member X ---- *)
Record nd_int (T : truth) (nd : ndelta) : Prop := mkNDI {
  ndi_entries : forall m, In m (d_kvs nd) -> t_wrote T (d_id nd) (entry_of_kvm m);
  ndi_max : d_max nd <= t_max T (d_id nd);
  ndi_gc : d_gc nd <= t_max T (d_id nd)
}.

Lemma nd_int_mono T T' nd : t_le T T' -> nd_int T nd -> nd_int T' nd.
Proof.
  intros [Hw Hm _ _] [H1 H2 H3]. split.
  - intros m Hin. apply Hw. eauto.
  - specialize (Hm (d_id nd)). lia.
  - specialize (Hm (d_id nd)). lia.
Qed.

Definition digest_int (T : truth) (dg : digest) : Prop :=
  forall i g, In (i, g) dg -> g_hb g <= t_hb T i /\ g_gc g <= t_max T i /\ g_max g <= t_max T i.

Definition msg_int (T : truth) (m : message) : Prop :=
  match m with
  | Syn _ dg => digest_int T dg
  | SynAck dg x => digest_int T dg /\ Forall (nd_int T) (nds x)
  | Ack x => Forall (nd_int T) (nds x)
  | BadCluster => True
  end.

Lemma digest_int_mono T T' dg : t_le T T' -> digest_int T dg -> digest_int T' dg.
Proof.
  intros [_ Hm Hh _] H i g Hin. destruct (H i g Hin) as (H1 & H2 & H3).
  specialize (Hm i). specialize (Hh i). repeat split; lia.
Qed.

Lemma msg_int_mono T T' m : t_le T T' -> msg_int T m -> msg_int T' m.
Proof.
  intros Hle. destruct m as [c dg|dg x|x|]; cbn; auto.
  - apply digest_int_mono. exact Hle.
  - intros [H1 H2]. split; [eapply digest_int_mono; eauto|].
    eapply Forall_impl; [|exact H2]. intros nd. apply nd_int_mono. exact Hle.
  - intros H. eapply Forall_impl; [|exact H]. intros nd. apply nd_int_mono. exact Hle.
Qed.

(* ---- every copy of a cluster state ---- *)
Definition cluster_int (T : truth) (cs : cluster) : Prop :=
  forall X c, nm_get X (cs_nodes cs) = Some c -> copy_int T X c.

Lemma cluster_int_mono T T' cs : t_le T T' -> cluster_int T cs -> cluster_int T' cs.
Proof. intros Hle H X c Hc. eapply copy_int_mono; eauto. Qed.

Lemma cluster_int_insert T cs X c :
  cluster_int T cs -> copy_int T X c -> cluster_int T (mkCluster (nm_insert X c (cs_nodes cs)) (cs_gcn cs)).
Proof.
  intros H Hc Y d. cbn [cs_nodes]. destruct (id_dec X Y) as [<-|Hne].
  - rewrite nm_get_insert_same. intros [= <-]. exact Hc.
  - rewrite nm_get_insert_other by exact Hne. apply H.
Qed.

(* ---- operations on one copy ---- *)
Lemma svv_int T X c k v :
  copy_int T X c -> t_wrote T X (entry_of k v) -> v_ver v <= t_max T X ->
  copy_int T X (fst (set_versioned_value c k v)).
Proof.
  intros [H1 H2 H3 H4] Hw Hv. unfold set_versioned_value.
  assert (Hins : copy_int T X (mkCopy (c_hb c) (c_gc c) (N.max (v_ver v) (c_max c)) (kinsert k v (c_kvs c)))).
  { split; cbn [c_kvs c_max c_gc c_hb]; auto; [|apply N.max_lub; assumption].
    intros k' v' Hin. apply in_kinsert in Hin as [E|Hin]; [injection E as -> ->; exact Hw|eauto]. }
  destruct (kget k (c_kvs c)) as [old|]; [|exact Hins].
  destruct (v_ver v <=? v_ver old); [|exact Hins].
  split; cbn [c_kvs c_max c_gc c_hb]; auto. apply N.max_lub; assumption.
Qed.

Lemma into_status_mstatus m now : to_mstatus (into_status m now) = m.
Proof. destruct m; reflexivity. Qed.

Lemma fold_apply_kv_int T X now cm : forall kvs acc,
  copy_int T X (fst acc) ->
  (forall m, In m kvs -> t_wrote T X (entry_of_kvm m) /\ m_ver m <= t_max T X) ->
  copy_int T X (fst (fold_left (apply_kv now cm) kvs acc)).
Proof.
  induction kvs as [|m r IH]; intros acc Hacc Hall; cbn [fold_left]; [exact Hacc|].
  apply IH; [|intros m' Hm'; apply Hall; right; exact Hm'].
  unfold apply_kv. destruct acc as [c evs]. cbn [fst] in *.
  destruct (m_ver m <=? cm); [exact Hacc|].
  destruct (mscheduled (m_st m) && (m_ver m <=? c_gc c)); [exact Hacc|].
  destruct (set_versioned_value c (m_key m) _) as [c' ev] eqn:Es. cbn [fst].
  change c' with (fst (c', ev)). rewrite <- Es.
  destruct (Hall m (or_introl eq_refl)) as [Hw Hv].
  apply svv_int; [exact Hacc| |exact Hv].
  unfold entry_of. cbn [v_ver v_val v_st]. rewrite into_status_mstatus. exact Hw.
Qed.

(* C03 step: applying a delta that only carries the owner's writes keeps the copy's integrity *)
Theorem apply_delta_int T X now c nd c' st evs :
  t_wf T -> copy_int T X c -> nd_int T nd -> d_id nd = X ->
  apply_delta now c nd = Ok (c', st, evs) -> copy_int T X c'.
Proof.
  intros Hwf Hc [Hn1 Hn2 Hn3] Hid H. subst X. unfold apply_delta in H.
  assert (Hall : forall m, In m (d_kvs nd) -> t_wrote T (d_id nd) (entry_of_kvm m) /\ m_ver m <= t_max T (d_id nd)).
  { intros m Hm. split; [apply Hn1; exact Hm|]. destruct (twf_range T Hwf _ _ (Hn1 m Hm)) as [_ Hr]. exact Hr. }
  destruct (check_delta_status c nd).
  - injection H as <- _ _. exact Hc.
  - destruct (fold_left _ _ _) as [c1 evs1] eqn:Hf.
    destruct (d_max nd <? c_max c1); [discriminate|]. injection H as <- _ _.
    pose proof (fold_apply_kv_int T (d_id nd) now (c_max c) (d_kvs nd) (c, []) Hc Hall) as H1.
    rewrite Hf in H1. cbn [fst] in H1. destruct H1 as [A B C D]. split; auto.
  - destruct (fold_left _ _ _) as [c1 evs1] eqn:Hf.
    destruct (d_max nd <? c_max c1); [discriminate|]. injection H as <- _ _.
    assert (H0 : copy_int T (d_id nd) (reset_node (c_hb c) (d_gc nd))).
    { split; cbn; try lia; try (intros k v []); try exact Hn3; try exact (cint_hb _ _ _ Hc); try apply N.le_0_l. }
    pose proof (fold_apply_kv_int T (d_id nd) now (c_max (reset_node (c_hb c) (d_gc nd))) (d_kvs nd) (reset_node (c_hb c) (d_gc nd), []) H0 Hall) as H1.
    rewrite Hf in H1. cbn [fst] in H1. destruct H1 as [A B C D]. split; auto.
Qed.

(* the node delta computed from a copy with integrity has integrity *)
Lemma in_sorted_of n e : In e (sorted_of n) -> In e (c_kvs (sn_copy n)).
Proof. unfold sorted_of. intros H. apply in_stale_sorted in H. apply H. Qed.

Lemma last_kv_ver_bound lo l B : lo <= B -> (forall m, In m l -> m_ver m <= B) -> last_kv_ver lo l <= B.
Proof.
  revert lo. induction l as [|x r IH]; intros lo Hlo H; cbn; [exact Hlo|].
  apply IH; [apply H; left; reflexivity|intros m Hm; apply H; right; exact Hm].
Qed.

Theorem node_piece_int T n j mv :
  t_wf T -> copy_int T (sn_id n) (sn_copy n) -> nd_int T (node_piece n j mv).
Proof.
  intros Hwf [H1 H2 H3 H4]. split; cbn [node_piece d_kvs d_id d_max d_gc].
  - intros m Hm. apply in_map_iff in Hm as (e & <- & He). rewrite entry_of_kvm_of.
    destruct e as [k v]. apply H1. apply in_sorted_of. eapply in_firstn. exact He.
  - destruct (sorted_of n) eqn:Es.
    + destruct mv; lia.
    + rewrite <- Es. apply last_kv_ver_bound; [lia|].
      intros m Hm. apply in_map_iff in Hm as (e & <- & He). cbn [kvm_of m_ver].
      destruct e as [k v]. apply in_firstn in He. apply in_sorted_of in He.
      destruct (twf_range T Hwf _ _ (H1 k v He)) as [_ Hr]. cbn in Hr. exact Hr.
  - exact H3.
Qed.

(* digests *)
Lemma compute_digest_int T cs sched : cluster_int T cs -> nsorted (cs_nodes cs) -> digest_int T (compute_digest cs sched).
Proof.
  intros H Hs i g Hin. unfold compute_digest in Hin. apply in_map_iff in Hin as ([j c] & Heq & Hin).
  cbn in Heq. injection Heq as <- <-. apply filter_In in Hin as [Hin _].
  assert (Hg : nm_get j (cs_nodes cs) = Some c)
    by (apply (sorted_in_get id_cmp id_cmp_eq id_cmp_antisym id_cmp_trans); assumption).
  destruct (H j c Hg) as [_ A B C]. cbn. auto.
Qed.
