(* Loop.v — the gossip server loop (server.rs:240-349) and the UDP receive filter
   (transport/udp.rs:41-91) as an event-driven state machine that emits a micro-trace of
   lock / unlock / send actions.  Runtime behaviour (tokio scheduling, select! fairness, real
   sockets) is outside the model: an event is "the select! picked this branch". Model file. *)
From ChitchatModel Require Import Base Params.

Inductive lresult := LOk | LErr | LPanicked.

(* what kind of message was received, with what the loop needs to know about it *)
Inductive mkind :=
| KSyn (same_cluster : bool) (new_members : N)   (* members of its digest not yet known here *)
| KSynAck (new_members : N)
| KAck
| KBadCluster.

Inductive outkind := OSyn | OSynAck | OAck | OBadCluster.

Inductive levent :=
| ERecv (k : mkind) (panics : bool)     (* recv() returned a decoded message; [panics]: process_message aborts *)
| ERecvSkipped                          (* UDP layer: undecodable datagram or transient error: recv() keeps waiting *)
| ERecvFatal                            (* recv() returned Err *)
| ETick                                 (* gossip interval *)
| ECmdGossip
| ECmdShutdown
| ECmdClosed                            (* every handle dropped *)
| EUserLock.                            (* user code takes the chitchat mutex between two loop turns *)

Inductive action := ALock | AUnlock | ASend (k : outkind) | AUserLock | AUserUnlock.

Record lstate := mkLS {
  ls_stopped : option lresult;
  ls_hb_incs : N;       (* how many times the self heartbeat was incremented *)
  ls_peers : N;         (* known other members *)
  ls_dead : N;          (* of which classified dead *)
  ls_evals : N          (* liveness evaluations performed *)
}.
Definition ls_init : lstate := mkLS None 0 0 0 0.

Definition reply_of (k : mkind) : option outkind :=
  match k with
  | KSyn true _ => Some OSynAck
  | KSyn false _ => Some OBadCluster
  | KSynAck _ => Some OAck
  | KAck => None
  | KBadCluster => None
  end.
Definition learns (k : mkind) : N :=
  match k with KSyn true n => n | KSynAck n => n | _ => 0 end.

Fixpoint gossip_actions (n : nat) : list action :=
  match n with
  | O => []
  | S m => [ALock; AUnlock; ASend OSyn] ++ gossip_actions m
  end.

(* number of targets of a round when no member is live and there is no seed:
   min(GOSSIP_COUNT, peers) sampled peers, plus one dead peer when the dead set is not empty
   (its selection probability dead/(live+1) is >= 1) *)
Definition round_targets (s : lstate) : nat :=
  Nat.add (Nat.min (N.to_nat P_GOSSIP_COUNT) (N.to_nat (ls_peers s))) (if 0 <? ls_dead s then 1%nat else 0%nat).

(* send results never influence the state: errors are logged and dropped (server.rs:246,
   322-336); that is why they are not even an input of [step] *)
Definition step (s : lstate) (e : levent) : lstate * list action :=
  match ls_stopped s with
  | Some _ => (s, [])
  | None =>
      match e with
      | ERecv k panics =>
          if panics then
            (* the guard is dropped while unwinding: tokio's Mutex does not poison *)
            (mkLS (Some LPanicked) (ls_hb_incs s) (ls_peers s) (ls_dead s) (ls_evals s), [ALock; AUnlock])
          else
            (mkLS None (ls_hb_incs s + 1) (ls_peers s + learns k) (ls_dead s) (ls_evals s),
             [ALock; AUnlock] ++ match reply_of k with Some o => [ASend o] | None => [] end)
      | ERecvSkipped => (s, [])
      | ERecvFatal => (mkLS (Some LErr) (ls_hb_incs s) (ls_peers s) (ls_dead s) (ls_evals s), [])
      | ETick =>
          (mkLS None (ls_hb_incs s + 1) (ls_peers s) (ls_peers s) (ls_evals s + 1),
           [ALock; AUnlock] ++ gossip_actions (round_targets s) ++ [ALock; AUnlock])
      | ECmdGossip => (s, [ALock; AUnlock; ASend OSyn])
      | ECmdShutdown | ECmdClosed =>
          (mkLS (Some LOk) (ls_hb_incs s) (ls_peers s) (ls_dead s) (ls_evals s), [])
      | EUserLock => (s, [AUserLock; AUserUnlock])
      end
  end.

Fixpoint run (s : lstate) (es : list levent) : lstate * list action :=
  match es with
  | [] => (s, [])
  | e :: r => let '(s1, a1) := step s e in
              let '(s2, a2) := run s1 r in (s2, a1 ++ a2)
  end.

(* lock discipline over a trace: [held] = the mutex is held by the loop (1) / the user (2) *)
Fixpoint discipline (held : N) (l : list action) : bool :=
  match l with
  | [] => held =? 0
  | ALock :: r => (held =? 0) && discipline 1 r
  | AUnlock :: r => (held =? 1) && discipline 0 r
  | ASend _ :: r => (held =? 0) && discipline held r
  | AUserLock :: r => (held =? 0) && discipline 2 r
  | AUserUnlock :: r => (held =? 2) && discipline 0 r
  end.
