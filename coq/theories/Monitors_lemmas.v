(* Monitors_lemmas.v — the boolean monitors evaluated on the implementation's states say exactly
   what the Prop statements of the property files say (C02, C03), for a ledger of writes with
   pairwise distinct versions (the owner's versions are fresh: C04). *)
From Coq Require Import Lia.
From ChitchatModel Require Import Base SMap Ids Bytes Params NodeState Stream DeltaWire Message Cluster
  Monitors SMap_lemmas Truth.

Definition ledger_latest (L : ledger) (k : bytes) (w : lwrite) : Prop :=
  In w L /\ lw_key w = k /\ forall w', In w' L -> lw_key w' = k -> lw_ver w' <= lw_ver w.
Definition versions_distinct (L : ledger) : Prop :=
  forall w w', In w L -> In w' L -> lw_ver w = lw_ver w' -> w = w'.

Lemma mstatus_eqb_eq a b : mstatus_eqb a b = true <-> a = b.
Proof. destruct a, b; cbn; split; congruence. Qed.

Lemma entry_matches_iff k v w : lw_key w = k -> (entry_matches v w = true <-> entry_of k v = w).
Proof.
  intros Hk. unfold entry_matches, entry_of. rewrite !andb_true_iff, N.eqb_eq, bytes_eqb_eq, mstatus_eqb_eq.
  destruct w as [ver key val st]. cbn in *. subst key. split.
  - intros [[-> ->] ->]. reflexivity.
  - intros [= -> -> ->]. auto.
Qed.

(* [cur] returns the highest-version write on the key among the accumulator and the list (the first
   one met among equals) *)
Lemma cur_spec L k : forall best,
  (forall b, best = Some b -> lw_key b = k) ->
  match cur L k best with
  | None => best = None /\ forall w, In w L -> lw_key w <> k
  | Some w =>
      (In w L \/ best = Some w) /\ lw_key w = k /\
      (forall w', In w' L -> lw_key w' = k -> lw_ver w' <= lw_ver w) /\
      (forall b, best = Some b -> lw_ver b <= lw_ver w)
  end.
Proof.
  induction L as [|x r IH]; intros best Hb; cbn [cur].
  - destruct best as [b|]; [|split; [reflexivity|intros w []]].
    split; [right; reflexivity|]. split; [apply Hb; reflexivity|]. split; [intros w' []|intros b' [= <-]; lia].
  - destruct (bytes_eqb (lw_key x) k) eqn:E.
    + apply bytes_eqb_eq in E.
      set (best' := match best with Some b => if lw_ver b <? lw_ver x then Some x else best | None => Some x end).
      assert (Hb' : forall b, best' = Some b -> lw_key b = k).
      { intros b Hbb. unfold best' in Hbb. destruct best as [b0|]; [|injection Hbb as <-; exact E].
        destruct (lw_ver b0 <? lw_ver x); [injection Hbb as <-; exact E|apply Hb; exact Hbb]. }
      specialize (IH best' Hb'). destruct (cur r k best') as [w|].
      * destruct IH as (Hin & Hk & Hmax & Hbest). split; [|split; [exact Hk|split]].
        -- destruct Hin as [Hin|Hin]; [left; right; exact Hin|].
           unfold best' in Hin. destruct best as [b0|]; [|injection Hin as <-; left; left; reflexivity].
           destruct (lw_ver b0 <? lw_ver x); [injection Hin as <-; left; left; reflexivity|right; exact Hin].
        -- intros w' [<-|Hw'] Hk'; [|apply Hmax; assumption].
           unfold best' in Hbest. destruct best as [b0|]; [|apply (Hbest x eq_refl)].
           destruct (lw_ver b0 <? lw_ver x) eqn:El; [apply (Hbest x eq_refl)|].
           apply N.ltb_ge in El. specialize (Hbest b0 eq_refl). lia.
        -- intros b [= ->]. unfold best' in Hbest.
           destruct (lw_ver b <? lw_ver x) eqn:El; [|apply (Hbest b eq_refl)].
           apply N.ltb_lt in El. specialize (Hbest x eq_refl). lia.
      * destruct IH as [Hn _]. unfold best' in Hn. destruct best as [b0|]; [|discriminate].
        destruct (lw_ver b0 <? lw_ver x); discriminate.
    + assert (Hne : lw_key x <> k) by (intros H; apply bytes_eqb_eq in H; congruence).
      specialize (IH best Hb). destruct (cur r k best) as [w|].
      * destruct IH as (Hin & Hk & Hmax & Hbest). split; [destruct Hin; [left; right; assumption|right; assumption]|].
        split; [exact Hk|]. split; [|exact Hbest]. intros w' [<-|Hw'] Hk'; [contradiction|apply Hmax; assumption].
      * destruct IH as [Hn Hall]. split; [exact Hn|]. intros w [<-|Hw]; [exact Hne|apply Hall; exact Hw].
Qed.

Lemma cur_latest L k w : versions_distinct L -> (cur L k None = Some w <-> ledger_latest L k w).
Proof.
  intros Hd. pose proof (cur_spec L k None ltac:(discriminate)) as H. split.
  - intros E. rewrite E in H. destruct H as ([Hin|Hin] & Hk & Hmax & _); [|discriminate]. split; [exact Hin|split; assumption].
  - intros (Hin & Hk & Hmax). destruct (cur L k None) as [w0|].
    + destruct H as ([Hin0|Hin0] & Hk0 & Hmax0 & _); [|discriminate].
      f_equal. apply Hd; [exact Hin0|exact Hin|]. specialize (Hmax w0 Hin0 Hk0). specialize (Hmax0 w Hin Hk). lia.
    + destruct H as [_ Hall]. exfalso. apply (Hall w Hin Hk).
Qed.

(* C02: the monitor is the statement of C02_exact_up_to_frontier, with the ledger as the truth *)
Theorem c02_ok_iff L c : versions_distinct L ->
  (c02_ok L c = true <->
   forall k w, ledger_latest L k w -> lw_ver w <= c_max c ->
     (exists v, kget k (c_kvs c) = Some v /\ entry_of k v = w) \/
     (mscheduled (lw_st w) = true /\ lw_ver w <= c_gc c /\ kget k (c_kvs c) = None)).
Proof.
  intros Hd. unfold c02_ok. rewrite forallb_forall. split.
  - intros H k w Hl Hle. pose proof Hl as (Hin & Hk & _).
    specialize (H w Hin). unfold c02_key_ok in H. rewrite Hk in H.
    rewrite (proj2 (cur_latest L k w Hd) Hl) in H.
    assert (E : lw_ver w <=? c_max c = true) by (apply N.leb_le; exact Hle). rewrite E in H.
    destruct (kget k (c_kvs c)) as [v|].
    + left. exists v. split; [reflexivity|]. apply (entry_matches_iff k v w Hk). exact H.
    + right. apply andb_true_iff in H as [H1 H2]. apply N.leb_le in H2. auto.
  - intros H x Hx. unfold c02_key_ok.
    destruct (cur L (lw_key x) None) as [w|] eqn:E; [|reflexivity].
    apply (cur_latest L _ w Hd) in E. pose proof E as (_ & Hk & _).
    destruct (lw_ver w <=? c_max c) eqn:El; [|reflexivity]. apply N.leb_le in El.
    destruct (H _ w E El) as [(v & Hv & Hev)|(H1 & H2 & H3)].
    + rewrite Hv. apply (entry_matches_iff _ v w Hk). exact Hev.
    + rewrite H3. apply andb_true_iff. split; [exact H1|apply N.leb_le; exact H2].
Qed.

Lemma ledger_max_ge L : forall m w, In w L -> lw_ver w <= fold_left (fun m w => N.max m (lw_ver w)) L m.
Proof.
  induction L as [|x r IH]; intros m w []; cbn [fold_left].
  - subst. assert (forall l a, a <= fold_left (fun m w => N.max m (lw_ver w)) l a).
    { induction l as [|y l IHl]; intros a; cbn; [lia|]. specialize (IHl (N.max a (lw_ver y))). lia. }
    specialize (H r (N.max m (lw_ver w))). lia.
  - apply IH. assumption.
Qed.

(* C03: the monitor is "every entry is a ledger write with that key, value, version and status, and
   the copy is not ahead of the highest ledger version" *)
Theorem c03_ok_iff L c :
  c03_ok L c = true <->
  (forall k v, In (k, v) (c_kvs c) -> In (entry_of k v) L) /\ c_max c <= ledger_max L.
Proof.
  unfold c03_ok. rewrite andb_true_iff, forallb_forall, N.leb_le. split; intros [H1 H2]; (split; [|exact H2]).
  - intros k v Hin. specialize (H1 (k, v) Hin). unfold c03_entry_ok in H1. apply existsb_exists in H1 as (w & Hw & Hm).
    apply andb_true_iff in Hm as [Hk Hm]. apply bytes_eqb_eq in Hk. cbn [fst snd] in *.
    apply (entry_matches_iff k v w Hk) in Hm. rewrite Hm. exact Hw.
  - intros [k v] Hin. specialize (H1 k v Hin). unfold c03_entry_ok. apply existsb_exists. exists (entry_of k v).
    split; [exact H1|]. cbn [fst snd entry_of lw_key]. apply andb_true_iff. split; [apply bytes_eqb_eq; reflexivity|].
    apply (entry_matches_iff k v (entry_of k v)); reflexivity.
Qed.
