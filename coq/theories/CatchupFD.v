(* CatchupFD.v — the per-node invariants of the failure detector and of the removed-member memory
   (C12, C13, C16) in every state reachable WITH honest catch-ups (CatchupReach.creachable):
   live and dead disjoint, the local node in neither; the detector mentions only members the node
   holds; the memory never lists a held member; the watch channel has its shape.  Each invariant is
   first restated as a step lemma of the gossip relation, then the catch-up step is added. *)
From Coq Require Import Lia ZArith.
From ChitchatModel Require Import Base SMap Ids Bytes Params NodeState Stream DeltaWire Message Cluster
  FD Chitchat World SMap_lemmas NodeState_lemmas Builder_lemmas Cluster_lemmas Chitchat_lemmas FD_lemmas Inv
  Compute_lemmas NodeInv Liveness_lemmas Truth NodeTruth Weak Exact Quiet Reach Potential ReachMono ReachFD
  FdKnown MemInv ReachMem Catchup_lemmas ReachExact CatchupReach.

Record fd_all (n : node) : Prop := mkFA {
  fa_good : fd_good n;
  fa_known : fd_known n;
  fa_mem : node_mem n;
  fa_watch : watch_shape (nd_prev n) (nd_watch n)
}.

Section Step.
  Variable zc : bytes -> option bytes.
  Hypothesis zc_len : forall b c, zc b = Some c -> len c <= len b.
  Variable strict : bool.

  Lemma gstep_fd_all g g' :
    GInv g -> (forall a n, node_at g a = Some n -> fd_all n) -> gstep zc strict g g' ->
    forall a n, node_at g' a = Some n -> fd_all n.
  Proof.
    intros Hg IH Hstep.
    assert (Hset : forall b m m' sent T, node_at g b = Some m -> fd_all m' ->
              forall a n, node_at (mkG (with_nodes (g_w g) (set_nth (w_nodes (g_w g)) b m')) sent T) a = Some n -> fd_all n).
    { intros b m m' sent T Hb Hm' a n Hn. unfold node_at in *. cbn [g_w with_nodes w_nodes] in Hn.
      destruct (Nat.eq_dec b a) as [->|Hne].
      - rewrite (nth_set_nth_same _ _ _ _ Hb) in Hn. injection Hn as <-. exact Hm'.
      - rewrite nth_set_nth_other in Hn by exact Hne. eapply IH; eauto. }
    destruct Hstep.
    - intros a n Hn. unfold node_at in Hn. cbn [g_w with_nodes w_nodes] in Hn.
      destruct (Nat.lt_ge_cases a (length (w_nodes (g_w g)))) as [Hlt|Hge].
      + rewrite nth_error_app1 in Hn by exact Hlt. eapply IH; eauto.
      + rewrite nth_error_app2 in Hn by exact Hge.
        destruct (a - length (w_nodes (g_w g)))%nat as [|k]; cbn in Hn; [|destruct k; discriminate].
        injection Hn as <-. split.
        * split; [apply new_fd_inv|split; reflexivity].
        * apply new_node_known.
        * apply new_node_mem.
        * reflexivity.
    - apply (Hset a n); [exact H|]. destruct (IH a n H) as [A B C D].
      destruct (on_own_fd n f) as [E1 E2]. destruct (on_own_watch n f) as [W1 W2]. split.
      + apply (fd_good_same n); [split; rewrite E1; reflexivity|exact E2|exact A].
      + eapply on_own_known; [apply (gi_nodes g Hg a n H)|exact H0|exact B].
      + apply on_own_mem. exact C.
      + rewrite W1, W2. exact D.
    - apply (Hset a n); [exact H|]. destruct (IH a n H) as [A B C D]. split.
      + apply (fd_good_same n); [split; reflexivity|reflexivity|exact A].
      + apply gc_keys_known. exact B.
      + apply gc_keys_mem. exact C.
      + exact D.
    - apply (Hset a n); [exact H|]. destruct (IH a n H) as [A B C D]. split.
      + apply (fd_good_same n); [split; reflexivity|reflexivity|exact A].
      + apply update_self_heartbeat_known. exact B.
      + apply update_self_heartbeat_mem. exact C.
      + exact D.
    - intros a n Hn. eapply IH; eauto.
    - apply (Hset a n); [exact H|]. destruct (IH a n H) as [[Hf Hs] B C D].
      pose proof (ni_inv _ _ (gi_nodes g Hg a n H)) as Hinv.
      destruct (update_nodes_liveness_classifies (w_now (g_w g)) n oracle Hinv Hf Hs) as (A1 & A2 & _).
      split.
      + split; assumption.
      + apply update_nodes_liveness_known; [exact Hinv|exact Hf|exact Hs|exact B].
      + apply update_nodes_liveness_mem; [exact Hinv|exact C].
      + apply (update_nodes_liveness_watch (w_now (g_w g)) n oracle D).
    - intros a0 n0 Hn. eapply IH; eauto.
    - apply (Hset a n); [exact H|]. destruct (IH a n H) as [A B C D].
      destruct (process_message_fd_sets zc _ _ _ _ _ _ _ H2) as [S1 S2].
      destruct (process_message_watch zc _ _ _ _ _ _ _ H2) as [W1 W2].
      split.
      + apply (fd_good_same n); [exact S1|exact S2|exact A].
      + eapply (process_message_known zc); [apply (gi_sent g Hg m H0)|exact H2|exact B].
      + eapply (process_message_mem zc); [exact C|exact H2].
      + rewrite W1, W2. exact D.
  Qed.
End Step.

(* ---- the catch-up step ---- *)
Lemma fd_get_or_create_sets f i : fd_live (fd_get_or_create f i) = fd_live f /\ fd_dead (fd_get_or_create f i) = fd_dead f.
Proof. unfold fd_get_or_create. destruct (wm_get i (fd_samples f)); split; reflexivity. Qed.

Lemma mentions_get_or_create f i j : mentions (fd_get_or_create f i) j -> j = i \/ mentions f j.
Proof.
  unfold fd_get_or_create. destruct (wm_get i (fd_samples f)) eqn:E; [right; exact H|].
  unfold mentions. cbn [fd_live fd_dead fd_samples]. intros [H|[H|H]]; [right; auto|right; auto|].
  destruct (id_dec_eq i j) as [<-|Hne]; [left; reflexivity|right; right; right].
  unfold wm_get, wm_insert in H. rewrite (sm_get_insert_other id_cmp id_cmp_eq) in H by exact Hne. exact H.
Qed.

Lemma wsorted_get_or_create f i : wsorted f -> wsorted (fd_get_or_create f i).
Proof.
  unfold wsorted, fd_get_or_create. intros S. destruct (wm_get i (fd_samples f)); [exact S|]. cbn [fd_samples].
  apply (sm_insert_sorted id_cmp id_cmp_eq id_cmp_antisym id_cmp_trans). exact S.
Qed.

Lemma catchup_fd_all n i s n' evs :
  fd_all n -> reset_node_state_if_update n i (c_kvs s) (c_max s) (c_gc s) = Ok (n', evs) -> fd_all n'.
Proof.
  intros [A [S K] C D] Hrun.
  pose proof (reset_node_state_if_update_mem n i _ _ _ n' evs C Hrun) as C'.
  destruct (catchup_node_cases n i s n' evs Hrun) as (cs & Hcs & Hcase).
  (* members held before are held in cs *)
  assert (Hheld_cs : forall j, held n j -> nm_get j (cs_nodes cs) <> None).
  { intros j Hj. destruct Hcs as [->| ->]; [exact Hj|]. rewrite mut_or_init_get. unfold held in Hj.
    destruct (nm_get j (cs_nodes (nd_cs n))); [discriminate|congruence]. }
  destruct Hcase as [[-> _]|(c & Hc & _ & _ & ->)].
  - split; [exact A| |exact C'|exact D]. split; [exact S|]. intros j Hj. apply Hheld_cs. apply K. exact Hj.
  - destruct (fd_get_or_create_sets (nd_fd n) i) as [E1 E2]. split.
    + apply (fd_good_same n); [split; [exact E1|exact E2]|reflexivity|exact A].
    + split; cbn [nd_fd with_fd with_cs].
      * apply wsorted_get_or_create. exact S.
      * intros j Hj. unfold held. cbn [nd_cs with_fd with_cs cs_nodes].
        apply mentions_get_or_create in Hj as [->|Hj]; [rewrite nm_get_insert_same; discriminate|].
        destruct (id_dec i j) as [<-|Hne]; [rewrite nm_get_insert_same; discriminate|].
        rewrite nm_get_insert_other by exact Hne. apply Hheld_cs. apply K. exact Hj.
    + exact C'.
    + exact D.
Qed.

Section All.
  Variable zc : bytes -> option bytes.
  Hypothesis zc_len : forall b c, zc b = Some c -> len c <= len b.

  Theorem creachable_fd_all : forall g, creachable zc g -> forall a n, node_at g a = Some n -> fd_all n.
  Proof.
    induction 1 as [|g g' Hr IH Hstep]; [intros a n H; destruct a; discriminate|].
    pose proof (creachable_exact zc zc_len g Hr) as [[Hg _] _ _].
    destruct Hstep as [g g' Hs|g b m X s m' evs Hb Hsn Hrun].
    - eapply (gstep_fd_all zc true); eauto.
    - intros a n Hn. unfold node_at in *. cbn [g_w with_nodes w_nodes] in Hn.
      destruct (Nat.eq_dec b a) as [->|Hne].
      + rewrite (nth_set_nth_same _ _ _ _ Hb) in Hn. injection Hn as <-.
        eapply catchup_fd_all; [apply (IH a m Hb)|exact Hrun].
      + rewrite nth_set_nth_other in Hn by exact Hne. eapply IH; eauto.
  Qed.
End All.
