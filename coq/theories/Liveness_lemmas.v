(* Liveness_lemmas.v — classification after an evaluation, removal at grace, no revival (C12). *)
From Coq Require Import Lia ZArith.
From ChitchatModel Require Import Base SMap Ids Bytes Params NodeState Stream DeltaWire Message Cluster
  FD Chitchat SMap_lemmas NodeState_lemmas Cluster_lemmas Chitchat_lemmas FD_lemmas Inv Compute_lemmas NodeInv.

Definition exactly_one (f : fd) (i : id) : Prop :=
  (is_mem i (fd_live f) = true /\ dm_get i (fd_dead f) = None) \/
  (is_mem i (fd_live f) = false /\ dm_get i (fd_dead f) <> None).

Definition same_status (f f' : fd) (j : id) : Prop :=
  is_mem j (fd_live f') = is_mem j (fd_live f) /\ dm_get j (fd_dead f') = dm_get j (fd_dead f).

(* the classification loop of update_nodes_liveness over the member map *)
Lemma liveness_fold cfg now self oracle (nodes : nmap) : forall f,
  fd_inv f -> NoDup (map fst nodes) ->
  let f1 := fold_left (fun f e => if id_eqb (fst e) self then f
                                  else fd_update_node_liveness cfg now f (fst e) (oracle (fst e)))
                      nodes f in
  fd_inv f1 /\
  (forall i, In i (map fst nodes) -> i <> self -> exactly_one f1 i) /\
  (forall j, (~ In j (map fst nodes) \/ j = self) -> same_status f f1 j).
Proof.
  induction nodes as [|[i c] r IH]; intros f Hinv Hnd; cbn [fold_left map fst].
  - split; [exact Hinv|]. split; [intros i []|]. intros j _. split; reflexivity.
  - inversion Hnd as [|? ? Hni Hr]; subst. cbn [fst] in *.
    destruct (id_eqb i self) eqn:Es.
    + apply id_eqb_eq in Es. subst i.
      destruct (IH f Hinv Hr) as (H1 & H2 & H3). split; [exact H1|]. split.
      * intros j [<-|Hj] Hne; [congruence|]. apply H2; assumption.
      * intros j Hj. apply H3. destruct Hj as [Hj|Hj]; [left; intros Hin; apply Hj; right; exact Hin|right; exact Hj].
    + assert (Hne : i <> self) by (intros ->; rewrite id_eqb_refl in Es; discriminate).
      pose proof (fd_update_node_liveness_spec cfg now f i (oracle i) Hinv) as Hs. cbn zeta in Hs.
      destruct Hs as (Hinv1 & Hone & Hoth & _).
      set (f0 := fd_update_node_liveness cfg now f i (oracle i)) in *.
      destruct (IH f0 Hinv1 Hr) as (H1 & H2 & H3). split; [exact H1|]. split.
      * intros j [<-|Hj] Hnej.
        -- (* i itself: classified by its own update, untouched by the rest *)
           destruct (H3 i (or_introl Hni)) as [Ha Hb]. unfold exactly_one. rewrite Ha, Hb. exact Hone.
        -- apply H2; assumption.
      * intros j Hj.
        assert (Hji : j <> i).
        { destruct Hj as [Hj| ->]; [intros ->; apply Hj; left; reflexivity|congruence]. }
        destruct (Hoth j Hji) as [Ha Hb].
        destruct (H3 j) as [Hc Hd].
        { destruct Hj as [Hj|Hj]; [left; intros Hin; apply Hj; right; exact Hin|right; exact Hj]. }
        split; congruence.
Qed.

(* removal of the collected members from the dead map *)
Lemma fold_dm_remove_get (l : list id) : forall (d : dmap) j,
  dmap_sorted d ->
  dm_get j (fold_left (fun m i => dm_remove i m) l d) = if in_ids j l then None else dm_get j d.
Proof.
  induction l as [|i r IH]; intros d j Hs; cbn [fold_left in_ids existsb]; [reflexivity|].
  rewrite IH by (apply (sm_remove_sorted id_cmp id_cmp_trans); exact Hs).
  fold (in_ids j r). destruct (id_dec_eq i j) as [<-|Hne].
  - rewrite id_eqb_refl. cbn [orb]. destruct (in_ids i r); [reflexivity|].
    unfold dm_get, dm_remove. apply get_remove_same. exact Hs.
  - assert (E : id_eqb j i = false) by (destruct (id_eqb j i) eqn:E; [apply id_eqb_eq in E; congruence|reflexivity]).
    rewrite E. cbn [orb]. destruct (in_ids j r); [reflexivity|].
    unfold dm_get, dm_remove. apply get_remove_other. exact Hne.
Qed.

Lemma gc_collected_iff cfg now f i :
  dmap_sorted (fd_dead f) ->
  (In i (snd (fd_garbage_collect cfg now f)) <->
   exists t, dm_get i (fd_dead f) = Some t /\ (t + dead_grace cfg <= now)%Z).
Proof.
  intros Hs. unfold fd_garbage_collect. cbn [snd]. rewrite in_map_iff. split.
  - intros ([j t] & <- & Hin). apply filter_In in Hin as [Hin Ht]. cbn [fst snd] in *.
    exists t. split; [|apply Z.leb_le; exact Ht].
    apply (sorted_in_get id_cmp id_cmp_eq id_cmp_antisym id_cmp_trans); assumption.
  - intros (t & Hg & Ht). exists (i, t). split; [reflexivity|]. apply filter_In.
    split; [apply (sm_get_in id_cmp id_cmp_eq); exact Hg|apply Z.leb_le; exact Ht].
Qed.

(* removal of the collected members from the member map *)
Lemma fold_remove_node_get self (l : list id) : forall cs j,
  nsorted (cs_nodes cs) ->
  nm_get j (cs_nodes (fold_left (fun cs i => if id_eqb i self then cs else remove_node cs i) l cs))
  = if in_ids j l && negb (id_eqb j self) then None else nm_get j (cs_nodes cs).
Proof.
  induction l as [|i r IH]; intros cs j Hs; cbn [fold_left in_ids existsb]; [reflexivity|].
  fold (in_ids j r).
  assert (Hstep : forall cs', nsorted (cs_nodes cs') ->
            nsorted (cs_nodes (if id_eqb i self then cs' else remove_node cs' i))).
  { intros cs' H'. destruct (id_eqb i self); [exact H'|]. unfold remove_node.
    destruct (nm_get i (cs_nodes cs')); [cbn; apply nm_remove_sorted; exact H'|exact H']. }
  rewrite IH by (apply Hstep; exact Hs).
  destruct (id_dec_eq i j) as [<-|Hne].
  - rewrite id_eqb_refl. cbn [orb andb]. destruct (id_eqb i self) eqn:Es; cbn [negb andb].
    + rewrite andb_false_r. reflexivity.
    + rewrite andb_true_r. destruct (in_ids i r); [reflexivity|].
      unfold remove_node. destruct (nm_get i (cs_nodes cs)) as [c|] eqn:Eg; cbn [cs_nodes].
      * unfold nm_get, nm_remove. apply get_remove_same. exact Hs.
      * exact Eg.
  - assert (E : id_eqb j i = false) by (destruct (id_eqb j i) eqn:E; [apply id_eqb_eq in E; congruence|reflexivity]).
    rewrite E. cbn [orb]. destruct (in_ids j r && negb (id_eqb j self)); [reflexivity|].
    destruct (id_eqb i self); [reflexivity|]. unfold remove_node.
    destruct (nm_get i (cs_nodes cs)); [cbn [cs_nodes]|reflexivity].
    unfold nm_get, nm_remove. apply get_remove_other. exact Hne.
Qed.

(* C12 at the node level *)
Definition fd_self_free (n : node) : Prop :=
  is_mem (self_id n) (fd_live (nd_fd n)) = false /\ dm_get (self_id n) (fd_dead (nd_fd n)) = None.

Theorem update_nodes_liveness_classifies now n oracle :
  node_inv n -> fd_inv (nd_fd n) -> fd_self_free n ->
  let n' := update_nodes_liveness now n oracle in
  fd_inv (nd_fd n') /\ fd_self_free n' /\
  (* every other member still known after the evaluation is in exactly one of the two sets *)
  (forall i c, nm_get i (cs_nodes (nd_cs n')) = Some c -> i <> self_id n -> exactly_one (nd_fd n') i) /\
  (* the local node is never removed *)
  nm_get (self_id n) (cs_nodes (nd_cs n')) = nm_get (self_id n) (cs_nodes (nd_cs n)) /\
  (* a member dead for the full grace period (after this evaluation's verdicts) is removed *)
  (forall i, i <> self_id n -> nm_get i (cs_nodes (nd_cs n')) = None \/ nm_get i (cs_nodes (nd_cs n')) = nm_get i (cs_nodes (nd_cs n))).
Proof.
  intros [Hs Hc] Hfd [Hsl Hsd]. unfold update_nodes_liveness. cbv zeta.
  set (orc := fun i : id => match oracle with Some l => Some (in_ids i l) | None => None end).
  pose proof (liveness_fold (cf_fd (nd_cfg n)) now (self_id n) orc (cs_nodes (nd_cs n)) (nd_fd n) Hfd
                (sorted_nodup_keys id_cmp id_cmp_eq id_cmp_trans _ Hs)) as Hfold.
  cbn zeta in Hfold. unfold orc in Hfold.
  match goal with |- context [fd_garbage_collect _ _ ?f] => set (f1 := f) in * end.
  destruct Hfold as (Hinv1 & Hone & Hsame).
  destruct (fd_garbage_collect (cf_fd (nd_cfg n)) now f1) as [f2 collected] eqn:Hgc.
  cbn [nd_fd nd_cs self_id nd_cfg].
  assert (Hf2 : f2 = mkFd (fold_left (fun m i => wm_remove i m) collected (fd_samples f1)) (fd_live f1)
                          (fold_left (fun m i => dm_remove i m) collected (fd_dead f1))
                /\ collected = snd (fd_garbage_collect (cf_fd (nd_cfg n)) now f1)).
  { unfold fd_garbage_collect in Hgc |- *. cbn [snd]. injection Hgc as <- <-. auto. }
  destruct Hf2 as [-> Hcol].
  destruct Hinv1 as [Hl1 Hd1 Hdis1].
  assert (Hdget : forall j, dm_get j (fold_left (fun m i => dm_remove i m) collected (fd_dead f1))
                            = if in_ids j collected then None else dm_get j (fd_dead f1))
    by (intros j; apply fold_dm_remove_get; exact Hd1).
  assert (Hsorted_dead' : dmap_sorted (fold_left (fun m i => dm_remove i m) collected (fd_dead f1))).
  { clear -Hd1. revert Hd1. generalize (fd_dead f1). induction collected as [|i r IH]; intros d Hd; cbn [fold_left]; [exact Hd|].
    apply IH. apply (sm_remove_sorted id_cmp id_cmp_trans). exact Hd. }
  destruct (Hsame (self_id n) (or_intror eq_refl)) as [Hsl1 Hsd1].
  split; [|split; [|split; [|split]]].
  - split; cbn [fd_live fd_dead]; [exact Hl1|exact Hsorted_dead'|].
    intros j Hj. rewrite Hdget. destruct (in_ids j collected); [reflexivity|apply Hdis1; exact Hj].
  - unfold fd_self_free, self_id in *. cbn [nd_cfg nd_fd fd_live fd_dead].
    split; [congruence|].
    rewrite Hdget. destruct (in_ids _ collected); [reflexivity|congruence].
  - intros i c Hi Hne.
    rewrite fold_remove_node_get in Hi by exact Hs.
    destruct (in_ids i collected && negb (id_eqb i (self_id n))) eqn:Ecol; [discriminate|].
    assert (Hnotcol : in_ids i collected = false).
    { destruct (in_ids i collected); [|reflexivity]. cbn [andb] in Ecol.
      apply negb_false_iff in Ecol. apply id_eqb_eq in Ecol. congruence. }
    assert (Hin : In i (map fst (cs_nodes (nd_cs n)))).
    { apply nm_get_in in Hi. apply in_map_iff. exists (i, c). auto. }
    specialize (Hone i Hin Hne). unfold exactly_one in *. cbn [fd_live fd_dead].
    rewrite Hdget, Hnotcol. exact Hone.
  - rewrite fold_remove_node_get by exact Hs. rewrite id_eqb_refl. cbn [negb]. rewrite andb_false_r. reflexivity.
  - intros i Hne. rewrite fold_remove_node_get by exact Hs.
    destruct (in_ids i collected && negb (id_eqb i (self_id n))); [left; reflexivity|right; reflexivity].
Qed.

Theorem dead_for_grace_is_removed now n oracle i t :
  node_inv n -> fd_inv (nd_fd n) -> i <> self_id n ->
  (* the member has no window (or an empty one): this evaluation's verdict is "not alive" *)
  (match wm_get i (fd_samples (nd_fd n)) with Some w => wd_vals w = [] | None => True end) ->
  nm_get i (cs_nodes (nd_cs n)) <> None ->
  dm_get i (fd_dead (nd_fd n)) = Some t -> (t + dead_grace (cf_fd (nd_cfg n)) <= now)%Z ->
  nm_get i (cs_nodes (nd_cs (update_nodes_liveness now n oracle))) = None.
Proof.
  intros [Hs Hc] Hfd Hne Hwin Hknown Hdead Hgrace. unfold update_nodes_liveness. cbv zeta.
  set (orc := fun i : id => match oracle with Some l => Some (in_ids i l) | None => None end).
  pose proof (liveness_fold (cf_fd (nd_cfg n)) now (self_id n) orc (cs_nodes (nd_cs n)) (nd_fd n) Hfd
                (sorted_nodup_keys id_cmp id_cmp_eq id_cmp_trans _ Hs)) as Hfold.
  cbn zeta in Hfold. unfold orc in Hfold.
  match goal with |- context [fd_garbage_collect _ _ ?f] => set (f1 := f) in * end.
  destruct Hfold as (Hinv1 & _ & _).
  (* the time of death recorded before survives the loop: i's own update keeps it (verdict not alive),
     the others do not touch i *)
  assert (Hkeep : dm_get i (fd_dead f1) = Some t).
  { unfold f1. clear f1 Hinv1.
    assert (Hgen : forall (nodes : nmap) f,
               fd_inv f -> dm_get i (fd_dead f) = Some t ->
               (match wm_get i (fd_samples f) with Some w => wd_vals w = [] | None => True end) ->
               dm_get i (fd_dead (fold_left
                  (fun f e => if id_eqb (fst e) (self_id n) then f
                              else fd_update_node_liveness (cf_fd (nd_cfg n)) now f (fst e)
                                     (match oracle with Some l => Some (in_ids (fst e) l) | None => None end))
                  nodes f)) = Some t).
    { induction nodes as [|[j c] r IH]; intros f Hinv Hd Hw; cbn [fold_left fst]; [exact Hd|].
      destruct (id_eqb j (self_id n)); [apply IH; assumption|].
      set (o := match oracle with Some l => Some (in_ids j l) | None => None end).
      pose proof (fd_update_node_liveness_spec (cf_fd (nd_cfg n)) now f j o Hinv) as Hsp. cbn zeta in Hsp.
      destruct Hsp as (Hinv' & _ & Hoth & _).
      destruct (id_dec_eq j i) as [->|Hji].
      - (* i's own update: not alive, the recorded instant is kept *)
        assert (Hv : fd_is_alive (cf_fd (nd_cfg n)) now f i o = false).
        { unfold fd_is_alive. destruct (wm_get i (fd_samples f)) as [w|]; [|reflexivity].
          assert (Hnear : phi_near (cf_fd (nd_cfg n)) now w = false)
            by (unfold phi_near, phi_sides; rewrite Hw; reflexivity).
          rewrite Hnear. apply no_interval_not_alive. exact Hw. }
        apply IH; [exact Hinv'| |].
        + unfold fd_update_node_liveness. rewrite Hv. cbn [fd_dead]. rewrite Hd. exact Hd.
        + unfold fd_update_node_liveness. rewrite Hv. cbn [fd_samples].
          destruct (wm_get i (fd_samples f)) as [w|] eqn:Ew.
          * unfold wm_get, wm_insert. rewrite (sm_get_insert_same id_cmp id_cmp_eq). reflexivity.
          * rewrite Ew. exact I.
      - destruct (Hoth i) as [_ Hb]; [congruence|].
        apply IH; [exact Hinv'|congruence|].
        unfold fd_update_node_liveness. destruct (fd_is_alive _ _ _ _ _); cbn [fd_samples]; [exact Hw|].
        destruct (wm_get j (fd_samples f)); [|exact Hw].
        unfold wm_get, wm_insert. rewrite (sm_get_insert_other id_cmp id_cmp_eq) by exact Hji. exact Hw. }
    apply Hgen; assumption. }
  destruct (fd_garbage_collect (cf_fd (nd_cfg n)) now f1) as [f2 collected] eqn:Hgc. cbn [nd_cs].
  assert (Hin : In i collected).
  { replace collected with (snd (fd_garbage_collect (cf_fd (nd_cfg n)) now f1)) by (rewrite Hgc; reflexivity).
    apply gc_collected_iff; [apply Hinv1|]. exists t. auto. }
  rewrite fold_remove_node_get by exact Hs.
  assert (E1 : in_ids i collected = true) by (apply in_ids_iff; exact Hin).
  assert (E2 : id_eqb i (self_id n) = false) by (destruct (id_eqb i (self_id n)) eqn:E; [apply id_eqb_eq in E; congruence|reflexivity]).
  rewrite E1, E2. reflexivity.
Qed.

(* no revival: while the removed-member memory holds heartbeat [h] for [i], an observation that
   is not strictly higher does nothing at all *)
Theorem stale_gossip_does_not_revive now n i hb h :
  i <> self_id n -> nm_get i (cs_nodes (nd_cs n)) = None ->
  last_heartbeat_if_deleted (nd_cs n) i = Some h -> (hb <= h)%N ->
  report_heartbeat now n i hb = n.
Proof.
  intros Hne Hnone Hmem Hle. unfold report_heartbeat.
  assert (E : id_eqb i (self_id n) = false) by (destruct (id_eqb i (self_id n)) eqn:E; [apply id_eqb_eq in E; congruence|reflexivity]).
  rewrite E, Hmem.
  assert (E2 : (h <? hb)%N = false) by (apply N.ltb_ge; exact Hle). rewrite E2, Hnone.
  destruct n as [cfg cs f prev watch sends cb]. reflexivity.
Qed.

Lemma compute_digest_excludes cs sched i g : In (i, g) (compute_digest cs sched) -> in_ids i sched = false.
Proof.
  unfold compute_digest. intros Hin. apply in_map_iff in Hin as ([j c] & Heq & Hin).
  cbn in Heq. injection Heq as <- _. apply filter_In in Hin as [_ Hf]. cbn in Hf.
  apply negb_true_iff in Hf. exact Hf.
Qed.
