(* Codec_lemmas.v — decode ∘ encode = id for the wire format (C08): primitives, ids, digests,
   the block stream for any compressor with a left-inverse decompressor, ops, the builder on
   normal-form deltas, whole messages. *)
From Coq Require Import Lia.
From ChitchatModel Require Import Base SMap Ids Bytes Params NodeState Stream DeltaWire Message
  SMap_lemmas Stream_lemmas Builder_lemmas Wire_lemmas.

(* ---------- little-endian integers ---------- *)
Lemma b2n_byte_of_N v : b2n (byte_of_N v) = v mod 256.
Proof.
  unfold byte_of_N, b2n. destruct (Byte.of_N (v mod 256)) as [b|] eqn:E.
  - apply Byte.to_of_N. exact E.
  - apply Byte.of_N_None_iff in E. pose proof (N.mod_upper_bound v 256). lia.
Qed.

Lemma le_value_le_bytes n : forall v, v < 256 ^ N.of_nat n -> le_value (le_bytes n v) = v.
Proof.
  induction n as [|n IH]; intros v Hv.
  - cbn in *. lia.
  - cbn [le_bytes le_value]. rewrite b2n_byte_of_N, IH.
    + pose proof (N.div_mod v 256). lia.
    + rewrite Nat2N.inj_succ, N.pow_succ_r' in Hv. apply N.div_lt_upper_bound; lia.
Qed.

Lemma length_le_bytes n v : length (le_bytes n v) = n.
Proof. revert v. induction n as [|n IH]; intros v; cbn; auto. Qed.

Lemma take_bytes_app (a r : bytes) : take_bytes (length a) (a ++ r) = Some (a, r).
Proof. induction a as [|x a IH]; cbn [length app take_bytes]; [reflexivity|]. rewrite IH. reflexivity. Qed.

(* take_bytes is the guarded split ([u8; N]::deserialize / the length-prefixed reads) *)
Lemma take_bytes_spec n : forall buf,
  take_bytes n buf = if Nat.leb n (length buf) then Some (firstn n buf, skipn n buf) else None.
Proof.
  induction n as [|n IH]; intros buf; [reflexivity|].
  destruct buf as [|x r]; [reflexivity|]. cbn [take_bytes length Nat.leb firstn skipn]. rewrite IH.
  destruct (Nat.leb n (length r)); reflexivity.
Qed.

Lemma get_le_put n v r : v < 256 ^ N.of_nat n -> get_le n (le_bytes n v ++ r) = Some (v, r).
Proof.
  intros Hv. unfold get_le.
  pose proof (take_bytes_app (le_bytes n v) r) as H. rewrite length_le_bytes in H. rewrite H.
  rewrite le_value_le_bytes by exact Hv. reflexivity.
Qed.

Definition u8_ok (v : N) : Prop := v < 256.
Definition u16_ok (v : N) : Prop := v <= u16_max.
Definition u64_ok (v : N) : Prop := v < 2 ^ 64.

Lemma get_u8_put v r : v < 256 -> get_u8 (put_u8 v ++ r) = Some (v, r).
Proof. intros H. apply (get_le_put 1). exact H. Qed.
Lemma get_u16_put v r : v <= u16_max -> get_u16 (put_u16 v ++ r) = Some (v, r).
Proof. intros H. apply (get_le_put 2). unfold u16_max in H. change (256 ^ N.of_nat 2) with 65536. lia. Qed.
Lemma get_u64_put v r : v < 2 ^ 64 -> get_u64 (put_u64 v ++ r) = Some (v, r).
Proof. intros H. apply (get_le_put 8). exact H. Qed.

(* ---------- strings ---------- *)
Definition str_ok (s : bytes) : Prop := len s <= u16_max /\ utf8_valid s = true.

Lemma get_str_put s r : str_ok s -> get_str (put_str s ++ r) = Some (s, r).
Proof.
  intros [Hl Hu]. unfold get_str, put_str. rewrite <- app_assoc, get_u16_put by exact Hl.
  unfold len. rewrite Nat2N.id, take_bytes_app, Hu. reflexivity.
Qed.

(* ---------- addresses and ids ---------- *)
Definition addr_ok (a : addr) : Prop :=
  match a with
  | V4 ip port => ip < 2 ^ 32 /\ port <= u16_max
  | V6 ip port => ip < 2 ^ 128 /\ port <= u16_max
  end.

Lemma be_value_be_bytes n v : v < 256 ^ N.of_nat n -> be_value (be_bytes n v) = v.
Proof. intros H. unfold be_value, be_bytes. rewrite rev_involutive. apply le_value_le_bytes. exact H. Qed.

Lemma length_be_bytes n v : length (be_bytes n v) = n.
Proof. unfold be_bytes. rewrite rev_length. apply length_le_bytes. Qed.

Lemma get_addr_put a r : addr_ok a -> get_addr (put_addr a ++ r) = Some (a, r).
Proof.
  destruct a as [ip port|ip port]; intros [Hi Hp]; unfold get_addr, put_addr; rewrite <- !app_assoc.
  - rewrite get_u8_put by lia. change (4 =? 4) with true. cbv iota.
    pose proof (take_bytes_app (be_bytes 4 ip) (put_u16 port ++ r)) as H. rewrite length_be_bytes in H. rewrite H.
    rewrite get_u16_put by exact Hp. rewrite be_value_be_bytes by exact Hi. reflexivity.
  - rewrite get_u8_put by lia. change (6 =? 4) with false. change (6 =? 6) with true. cbv iota.
    pose proof (take_bytes_app (be_bytes 16 ip) (put_u16 port ++ r)) as H. rewrite length_be_bytes in H. rewrite H.
    rewrite get_u16_put by exact Hp. rewrite be_value_be_bytes by exact Hi. reflexivity.
Qed.

Definition id_ok (i : id) : Prop := str_ok (i_name i) /\ u64_ok (i_gen i) /\ addr_ok (i_addr i).

Lemma get_id_put i r : id_ok i -> get_id (put_id i ++ r) = Some (i, r).
Proof.
  intros (Hn & Hg & Ha). unfold get_id, put_id. rewrite <- !app_assoc.
  rewrite get_str_put by exact Hn. rewrite get_u64_put by exact Hg. rewrite get_addr_put by exact Ha.
  destruct i; reflexivity.
Qed.

(* ---------- digests ---------- *)
Section InsertEnd.
  Context {K V : Type}.
  Variable cmp : K -> K -> comparison.
  Hypothesis cmp_eq : forall a b, cmp a b = Eq <-> a = b.
  Hypothesis cmp_antisym : forall a b, cmp b a = CompOpp (cmp a b).
  Hypothesis cmp_trans : forall a b c, cmp a b = Lt -> cmp b c = Lt -> cmp a c = Lt.

  Lemma sm_insert_end k v (m : smap K V) :
    (forall k' v', In (k', v') m -> cmp k' k = Lt) -> sm_insert cmp k v m = m ++ [(k, v)].
  Proof.
    induction m as [|[k0 v0] r IH]; intros H; cbn [sm_insert app]; [reflexivity|].
    assert (E : cmp k k0 = Gt).
    { rewrite cmp_antisym. rewrite (H k0 v0) by (left; reflexivity). reflexivity. }
    rewrite E. f_equal. apply IH. intros k' v' Hin. apply (H k' v'). right. exact Hin.
  Qed.

  Lemma sorted_app_below (a : smap K V) k v r :
    sm_sorted cmp (a ++ (k, v) :: r) -> forall k' v', In (k', v') a -> cmp k' k = Lt.
  Proof.
    induction a as [|[k0 v0] a IH]; intros Hs k' v' Hin; [destruct Hin|].
    change (((k0, v0) :: a) ++ (k, v) :: r) with ((k0, v0) :: (a ++ (k, v) :: r)) in Hs.
    apply (sorted_cons_iff cmp cmp_trans) in Hs as [Hab Hs].
    destruct Hin as [E|Hin].
    - injection E as -> ->. apply (Hab k v). apply in_or_app. right. left. reflexivity.
    - apply (IH Hs k' v' Hin).
  Qed.
End InsertEnd.

Definition ndigest_ok (g : ndigest) : Prop := u64_ok (g_hb g) /\ u64_ok (g_gc g) /\ u64_ok (g_max g).
Definition digest_ok (d : digest) : Prop :=
  sm_sorted id_cmp d /\ N.of_nat (length d) <= u16_max /\ Forall (fun e => id_ok (fst e) /\ ndigest_ok (snd e)) d.

Lemma get_digest_entries_put l : forall acc r,
  sm_sorted id_cmp (acc ++ l) -> Forall (fun e => id_ok (fst e) /\ ndigest_ok (snd e)) l ->
  get_digest_entries (length l) (flat_map (fun e => put_id (fst e) ++ put_ndigest (snd e)) l ++ r) acc
  = Some (acc ++ l, r).
Proof.
  induction l as [|[i g] l IH]; intros acc r Hs Hok; cbn [length get_digest_entries flat_map].
  - rewrite app_nil_r. reflexivity.
  - inversion Hok as [|? ? [Hi (H1 & H2 & H3)] Hok']; subst. cbn [fst snd] in *.
    unfold put_ndigest. rewrite <- !app_assoc.
    rewrite get_id_put by exact Hi. rewrite !get_u64_put by assumption.
    unfold dg_insert. rewrite (sm_insert_end id_cmp id_cmp_antisym).
    + replace (acc ++ (i, g) :: l) with ((acc ++ [(i, g)]) ++ l) in * by (rewrite <- app_assoc; reflexivity).
      destruct g as [hb gc mx]. cbn [g_hb g_gc g_max]. apply IH; assumption.
    + intros k' v' Hin. eapply (sorted_app_below id_cmp id_cmp_trans); eauto.
Qed.

Lemma get_digest_put d r : digest_ok d -> get_digest (put_digest d ++ r) = Some (d, r).
Proof.
  intros (Hs & Hl & Hok). unfold get_digest, put_digest. rewrite <- app_assoc.
  rewrite get_u16_put by exact Hl. rewrite Nat2N.id.
  apply (get_digest_entries_put d [] r); assumption.
Qed.

(* the decompression buffer of the reader holds any block the layout allows (a block's payload
   length is a u16); re-checked against the regenerated constants on every run *)
Lemma decompress_cap_covers_a_block : u16_max <= P_DECOMPRESS_CAP.
Proof. vm_compute. discriminate. Qed.

(* ---------- the block stream ---------- *)
Section StreamRT.
  Variable zc : bytes -> option bytes.
  Variable zd : bytes -> option bytes.
  Hypothesis zc_len : forall b c, zc b = Some c -> len c <= len b.
  (* the decompressor is a left inverse of the compressor *)
  Hypothesis zd_zc : forall b c, zc b = Some c -> zd c = Some b.

  (* [enc_blocks n out data]: [out] is a sequence of n well-formed blocks carrying [data] *)
  Inductive enc_blocks : nat -> bytes -> bytes -> Prop :=
  | enc_nil : enc_blocks 0 [] []
  | enc_comp n o d c blk : enc_blocks n o d -> zd c = Some blk -> len c <= u16_max -> len blk <= P_DECOMPRESS_CAP ->
      enc_blocks (S n) (o ++ put_u8 1 ++ put_u16 (len c) ++ c) (d ++ blk)
  | enc_raw n o d blk : enc_blocks n o d -> len blk <= u16_max ->
      enc_blocks (S n) (o ++ put_u8 2 ++ put_u16 (len blk) ++ blk) (d ++ blk).

  Lemma enc_blocks_read n o d : enc_blocks n o d ->
    forall tail acc fuel, read_blocks zd (n + fuel) (o ++ tail) acc = read_blocks zd fuel tail (acc ++ d).
  Proof.
    induction 1 as [|n o d c blk He IH Hz Hl Hcap|n o d blk He IH Hl]; intros tail acc fuel.
    - cbn. rewrite app_nil_r. reflexivity.
    - rewrite <- app_assoc. replace (S n + fuel)%nat with (n + S fuel)%nat by lia. rewrite IH.
      cbn [read_blocks]. rewrite <- !app_assoc. rewrite get_u8_put by lia.
      change (1 =? 0) with false. change (1 =? 1) with true. cbv iota.
      rewrite get_u16_put by exact Hl. unfold len at 1. rewrite Nat2N.id, take_bytes_app, Hz.
      rewrite (proj2 (N.leb_le _ _) Hcap). rewrite app_assoc. reflexivity.
    - rewrite <- app_assoc. replace (S n + fuel)%nat with (n + S fuel)%nat by lia. rewrite IH.
      cbn [read_blocks]. rewrite <- !app_assoc. rewrite get_u8_put by lia.
      change (2 =? 0) with false. change (2 =? 1) with false. change (2 =? 2) with true. cbv iota.
      rewrite get_u16_put by exact Hl. unfold len at 1. rewrite Nat2N.id, take_bytes_app.
      rewrite app_assoc. reflexivity.
  Qed.

  Lemma enc_blocks_count n o d : enc_blocks n o d -> (n <= length o)%nat.
  Proof.
    induction 1; [cbn; lia| |]; rewrite !app_length; cbn [put_u8 le_bytes length]; lia.
  Qed.

  (* writer invariant: the emitted blocks decode to [d], and d ++ pending = everything appended *)
  Definition winv (w : writer) (all : bytes) : Prop :=
    0 < w_thr w /\ w_thr w <= u16_max /\
    exists n d, enc_blocks n (w_out w) d /\ d ++ w_pend w = all.

  Lemma flush_block_winv w all : winv w all -> winv (flush_block zc w) all.
  Proof.
    intros (Ht & Hu & n & d & He & Hall). unfold flush_block.
    destruct (w_pend w) as [|b0 p0] eqn:Ep; [split; [|split]; try assumption; exists n, d; rewrite Ep; auto|].
    rewrite <- Ep in *. clear Ep b0 p0.
    set (k := N.to_nat (N.min (len (w_pend w)) (w_thr w))).
    assert (Hblk : len (firstn k (w_pend w)) <= w_thr w).
    { rewrite len_firstn. unfold k. rewrite N2Nat.id. lia. }
    assert (Hsplit : (d ++ firstn k (w_pend w)) ++ skipn k (w_pend w) = all).
    { rewrite <- app_assoc, firstn_skipn. exact Hall. }
    destruct (zc (firstn k (w_pend w))) as [c|] eqn:Ez; (split; [exact Ht|split; [exact Hu|]]); cbn [w_out w_pend w_thr].
    - exists (S n), (d ++ firstn k (w_pend w)). split; [|exact Hsplit].
      apply enc_comp; [exact He|apply zd_zc; exact Ez| |].
      + apply zc_len in Ez. lia.
      + pose proof decompress_cap_covers_a_block. lia.
    - exists (S n), (d ++ firstn k (w_pend w)). split; [|exact Hsplit].
      apply enc_raw; [exact He|lia].
  Qed.

  Lemma flush_block_thr w : w_thr (flush_block zc w) = w_thr w.
  Proof. unfold flush_block. destruct (w_pend w); [reflexivity|]. destruct (zc _); reflexivity. Qed.

  Lemma flush_while_winv fuel : forall w all, winv w all -> winv (flush_while zc fuel w) all.
  Proof.
    induction fuel as [|f IH]; intros w all H; cbn [flush_while]; [exact H|].
    destruct (w_thr w <? len (w_pend w)); [|exact H]. apply IH. apply flush_block_winv. exact H.
  Qed.

  Lemma append_winv w all item w' : winv w all -> append zc w item = Ok w' -> winv w' (all ++ item).
  Proof.
    intros (Ht & Hu & n & d & He & Hall). unfold append. destruct (u16_max <? len item); [discriminate|].
    intros [= <-]. apply flush_while_winv. split; [exact Ht|split; [exact Hu|]]. cbn [w_out w_pend w_thr].
    exists n, d. split; [exact He|]. rewrite app_assoc, Hall. reflexivity.
  Qed.

  Lemma new_writer_winv thr : 0 < thr -> thr <= u16_max -> winv (new_writer thr) [].
  Proof. intros H1 H2. split; [exact H1|split; [exact H2|]]. exists 0%nat, []. split; [constructor|reflexivity]. Qed.

  (* reading back what finish wrote gives everything appended, and leaves the rest *)
  Lemma read_stream_finish w all rest :
    winv w all -> len (w_pend w) <= w_thr w ->
    read_stream zd (finish zc w ++ rest) = Some (all, rest).
  Proof.
    intros Hw Hp. pose proof (flush_block_winv w all Hw) as (Ht & Hu & n & d & He & Hall).
    assert (Hpend : w_pend (flush_block zc w) = []).
    { unfold flush_block. destruct (w_pend w) as [|b0 p0] eqn:Ep; [exact Ep|]. rewrite <- Ep in *.
      assert (Hk : N.to_nat (N.min (len (w_pend w)) (w_thr w)) = length (w_pend w)).
      { unfold len in *. lia. }
      rewrite Hk. destruct (zc _); cbn [w_pend]; apply skipn_all. }
    rewrite Hpend, app_nil_r in Hall. subst d.
    unfold read_stream, finish. rewrite <- app_assoc.
    pose proof (enc_blocks_count _ _ _ He) as Hn.
    set (o := w_out (flush_block zc w)) in *.
    replace (S (length (o ++ put_u8 0 ++ rest))) with (n + S (length (o ++ put_u8 0 ++ rest) - n))%nat
      by (rewrite app_length; lia).
    rewrite (enc_blocks_read _ _ _ He). cbn [read_blocks]. rewrite get_u8_put by lia.
    change (0 =? 0) with true. cbv iota. reflexivity.
  Qed.
End StreamRT.

(* ---------- ops ---------- *)
Lemma op_tags_ok :
  P_OP_NODE < 256 /\ P_OP_KV < 256 /\ P_OP_SETMAX < 256 /\
  (P_OP_KV =? P_OP_NODE) = false /\ (P_OP_SETMAX =? P_OP_NODE) = false /\ (P_OP_SETMAX =? P_OP_KV) = false.
Proof. vm_compute. repeat split. Qed.

Lemma mstatus_code_rt s : mstatus_code s < 256 /\ mstatus_of_code (mstatus_code s) = Some s.
Proof. destruct s; vm_compute; split; reflexivity. Qed.

Definition kvm_ok (m : kvm) : Prop := str_ok (m_key m) /\ str_ok (m_val m) /\ u64_ok (m_ver m).
Definition op_ok (o : op) : Prop :=
  match o with
  | OpNode i gc from => id_ok i /\ u64_ok gc /\ u64_ok from
  | OpKV m => kvm_ok m
  | OpSetMax mx => u64_ok mx
  end.

Lemma get_op_put o r : op_ok o -> get_op (put_op o ++ r) = Some (o, r).
Proof.
  destruct op_tags_ok as (T1 & T2 & T3 & T4 & T5 & T6).
  destruct o as [i gc from|m|mx]; cbn [op_ok]; unfold get_op, put_op.
  - intros (Hi & Hg & Hf). rewrite <- !app_assoc. rewrite get_u8_put by exact T1. rewrite N.eqb_refl.
    rewrite get_id_put by exact Hi. rewrite !get_u64_put by assumption. reflexivity.
  - intros (Hk & Hv & Hver). unfold put_kvm. rewrite <- !app_assoc. rewrite get_u8_put by exact T2.
    rewrite T4, N.eqb_refl. rewrite !get_str_put by assumption. rewrite get_u64_put by exact Hver.
    destruct (mstatus_code_rt (m_st m)) as [Hc Hs]. rewrite get_u8_put by exact Hc. rewrite Hs.
    destruct m; reflexivity.
  - intros Hm. rewrite <- !app_assoc. rewrite get_u8_put by exact T3. rewrite T5, T6, N.eqb_refl.
    rewrite get_u64_put by exact Hm. reflexivity.
Qed.

Lemma put_op_nonempty o : exists b r, put_op o = b :: r.
Proof. destruct o; cbn [put_op put_u8 le_bytes app]; eauto. Qed.

Lemma length_put_op_pos o : (1 <= length (put_op o))%nat.
Proof. destruct (put_op_nonempty o) as (b & r & ->). cbn. lia. Qed.

Lemma get_ops_step f buf : buf <> [] ->
  get_ops (S f) buf = match get_op buf with
                      | None => None
                      | Some (o, r) => match get_ops f r with None => None | Some l => Some (o :: l) end
                      end.
Proof. destruct buf; [contradiction|reflexivity]. Qed.

Lemma get_ops_put ops : forall fuel, (length ops <= fuel)%nat -> Forall op_ok ops ->
  get_ops fuel (flat_map put_op ops) = Some ops.
Proof.
  induction ops as [|o ops IH]; intros fuel Hf Hok.
  - destruct fuel; reflexivity.
  - inversion Hok as [|? ? Ho Hok']; subst. cbn [flat_map].
    destruct fuel as [|f]; [cbn in Hf; lia|].
    rewrite get_ops_step.
    + rewrite get_op_put by exact Ho. rewrite IH; [reflexivity|cbn in Hf; lia|exact Hok'].
    + destruct (put_op_nonempty o) as (b & r & E). rewrite E. discriminate.
Qed.

Lemma length_flat_map_put_op ops : (length ops <= length (flat_map put_op ops))%nat.
Proof.
  induction ops as [|o ops IH]; cbn [flat_map length]; [lia|].
  rewrite app_length. pose proof (length_put_op_pos o). lia.
Qed.

(* ---------- the builder on normal-form deltas ---------- *)
(* what Delta::get_operations can represent: versions strictly ascending from 0, and when there are
   key-values the max version is the last one's (a SetMaxVersion is only emitted for an empty tail) *)
Definition nd_normal (nd : ndelta) : Prop :=
  asc_from 0 (d_kvs nd) /\ (d_kvs nd <> [] -> d_max nd = last_kv_ver 0 (d_kvs nd)).
Definition delta_normal (x : delta) : Prop :=
  NoDup (map d_id (nds x)) /\ Forall nd_normal (nds x).

Lemma b_apply_ops_app o1 : forall b o2,
  b_apply_ops b (o1 ++ o2) = match b_apply_ops b o1 with Some b' => b_apply_ops b' o2 | None => None end.
Proof.
  induction o1 as [|o r IH]; intros b o2; cbn [app b_apply_ops]; [reflexivity|].
  destruct (b_apply_op b o); [apply IH|reflexivity].
Qed.

Lemma b_apply_kvs i from gc seen done kvs : forall pre,
  asc_from (last_kv_ver 0 pre) kvs ->
  b_apply_ops (mkB seen done (Some (mkND i from gc pre (last_kv_ver 0 pre)))) (map OpKV kvs)
  = Some (mkB seen done (Some (mkND i from gc (pre ++ kvs) (last_kv_ver 0 (pre ++ kvs))))).
Proof.
  induction kvs as [|m kvs IH]; intros pre Ha; cbn [map b_apply_ops].
  - rewrite app_nil_r. reflexivity.
  - destruct Ha as [Hlt Ha]. cbn [b_apply_op b_cur d_max d_id d_from d_gc d_kvs b_seen b_done].
    apply N.ltb_lt in Hlt. rewrite Hlt.
    replace (m_ver m) with (last_kv_ver 0 (pre ++ [m])) at 1 by apply last_kv_ver_app.
    rewrite IH by (rewrite last_kv_ver_app; exact Ha).
    rewrite <- app_assoc. reflexivity.
Qed.

Lemma b_apply_nd nd b :
  nd_normal nd -> existsb (id_eqb (d_id nd)) (b_seen (b_flush b)) = false ->
  b_apply_ops b (nd_ops nd) = Some (mkB (d_id nd :: b_seen (b_flush b)) (b_done (b_flush b)) (Some nd)).
Proof.
  intros [Ha Hm] Hseen. unfold nd_ops. cbn [b_apply_ops b_apply_op]. rewrite Hseen.
  rewrite b_apply_ops_app.
  rewrite (b_apply_kvs (d_id nd) (d_from nd) (d_gc nd) _ _ (d_kvs nd) []) by exact Ha.
  cbn [app]. destruct nd as [i from gc kvs mx]. cbn [d_id d_from d_gc d_kvs d_max] in *.
  destruct kvs as [|m kvs].
  - cbn [last_kv_ver]. destruct (0 <? mx) eqn:E; cbn [b_apply_ops b_apply_op b_cur d_max d_id d_from d_gc d_kvs b_seen b_done].
    + assert (E2 : mx <? 0 = false) by (apply N.ltb_ge; lia). rewrite E2. reflexivity.
    + apply N.ltb_ge in E. assert (mx = 0) by lia. subst mx. reflexivity.
  - rewrite Hm by discriminate. reflexivity.
Qed.

Lemma b_apply_nds l : forall b,
  Forall nd_normal l -> NoDup (map d_id l) ->
  (forall nd, In nd l -> existsb (id_eqb (d_id nd)) (b_seen b) = false) ->
  exists b', b_apply_ops b (flat_map nd_ops l) = Some b' /\ b_done (b_flush b') = b_done (b_flush b) ++ l.
Proof.
  induction l as [|nd l IH]; intros b Hn Hd Hs; cbn [flat_map].
  - exists b. split; [reflexivity|]. rewrite app_nil_r. reflexivity.
  - inversion Hn as [|? ? Hnd Hn']; subst. inversion Hd as [|? ? Hnotin Hd']; subst.
    assert (Hfl : b_seen (b_flush b) = b_seen b) by (unfold b_flush; destruct (b_cur b); reflexivity).
    rewrite b_apply_ops_app, (b_apply_nd nd b Hnd) by (rewrite Hfl; apply Hs; left; reflexivity).
    destruct (IH (mkB (d_id nd :: b_seen (b_flush b)) (b_done (b_flush b)) (Some nd)) Hn' Hd') as (b' & Hb' & Hdone).
    + intros nd' Hin. cbn [b_seen existsb]. rewrite Hfl, (Hs nd') by (right; exact Hin).
      destruct (id_eqb (d_id nd') (d_id nd)) eqn:E; [|reflexivity].
      apply id_eqb_eq in E. exfalso. apply Hnotin. rewrite <- E. apply in_map. exact Hin.
    + exists b'. split; [exact Hb'|]. rewrite Hdone. cbn [b_flush b_cur b_done b_seen]. rewrite <- app_assoc. reflexivity.
Qed.

Lemma b_apply_delta_ops x l0 : delta_normal x ->
  exists b, b_apply_ops new_builder (delta_ops x) = Some b /\ b_finish b l0 = mkDelta (nds x) l0.
Proof.
  intros [Hd Hn]. destruct (b_apply_nds (nds x) new_builder Hn Hd) as (b & Hb & Hdone); [reflexivity|].
  exists b. split; [exact Hb|]. unfold b_finish. rewrite Hdone. reflexivity.
Qed.

(* ---------- deltas ---------- *)
Definition nd_ok (nd : ndelta) : Prop :=
  id_ok (d_id nd) /\ u64_ok (d_gc nd) /\ u64_ok (d_from nd) /\ u64_ok (d_max nd) /\ Forall kvm_ok (d_kvs nd).
Definition delta_ok (x : delta) : Prop := delta_normal x /\ Forall nd_ok (nds x).

Lemma nd_ops_ok nd : nd_ok nd -> Forall op_ok (nd_ops nd).
Proof.
  intros (Hi & Hg & Hf & Hm & Hk). unfold nd_ops. constructor; [cbn; auto|].
  apply Forall_app. split.
  - apply Forall_forall. intros o Ho. apply in_map_iff in Ho as (m & <- & Hin). cbn.
    rewrite Forall_forall in Hk. apply Hk. exact Hin.
  - destruct (d_kvs nd); [|constructor]. destruct (0 <? d_max nd); constructor; [exact Hm|constructor].
Qed.

Lemma delta_ops_ok x : Forall nd_ok (nds x) -> Forall op_ok (delta_ops x).
Proof.
  unfold delta_ops. induction 1 as [|nd l Hnd _ IH]; cbn [flat_map]; [constructor|].
  apply Forall_app. split; [apply nd_ops_ok; exact Hnd|exact IH].
Qed.

Lemma ser_threshold_ok : 0 < P_BLOCK_THRESHOLD_SER /\ P_BLOCK_THRESHOLD_SER <= u16_max.
Proof. vm_compute. split; [reflexivity|discriminate]. Qed.

Section DeltaRT.
  Variable zc : bytes -> option bytes.
  Variable zd : bytes -> option bytes.
  Hypothesis zc_len : forall b c, zc b = Some c -> len c <= len b.
  Hypothesis zd_zc : forall b c, zc b = Some c -> zd c = Some b.

  Lemma append_ops_winv ops : forall w all w',
    winv zd w all -> len (w_pend w) <= w_thr w -> append_ops zc w ops = Ok w' ->
    winv zd w' (all ++ flat_map put_op ops) /\ len (w_pend w') <= w_thr w'.
  Proof.
    induction ops as [|o ops IH]; intros w all w' Hw Hp; cbn [append_ops flat_map].
    - intros [= <-]. rewrite app_nil_r. auto.
    - destruct (append zc w (put_op o)) as [w1| |] eqn:E; cbn [rbind]; try discriminate.
      intros H. rewrite app_assoc.
      destruct (append_spec zc zc_len w (put_op o) w1 (proj1 Hw) E) as (_ & H2 & H3).
      apply (IH w1); [eapply append_winv; eauto|rewrite H3; exact H2|exact H].
  Qed.

  Theorem get_delta_put x p rest :
    delta_ok x -> put_delta zc x = Ok p -> get_delta zd (p ++ rest) = Some (x, rest).
  Proof.
    intros [Hnorm Hok]. unfold put_delta.
    destruct (append_ops zc (new_writer P_BLOCK_THRESHOLD_SER) (delta_ops x)) as [w| |] eqn:E; cbn [rbind]; try discriminate.
    destruct (len (finish zc w) =? dlen x) eqn:El; [|discriminate]. intros [= <-].
    apply N.eqb_eq in El. destruct ser_threshold_ok as [T1 T2].
    destruct (append_ops_winv (delta_ops x) _ [] w (new_writer_winv zd _ T1 T2) ltac:(cbn; lia) E) as [Hw Hp].
    cbn [app] in Hw. unfold get_delta.
    rewrite (read_stream_finish zc zd zc_len zd_zc w _ rest Hw Hp).
    rewrite get_ops_put; [|apply length_flat_map_put_op|apply delta_ops_ok; exact Hok].
    destruct (b_apply_delta_ops x (len (finish zc w ++ rest) - len rest) Hnorm) as (b & Hb & Hfin).
    rewrite Hb, Hfin. rewrite len_app. replace (len (finish zc w) + len rest - len rest) with (dlen x) by lia.
    destruct x; reflexivity.
  Qed.
End DeltaRT.

(* ---------- messages ---------- *)
Lemma header_consts_ok :
  P_MAGIC <= u16_max /\ P_PROTOCOL_VERSION < 256 /\
  P_TAG_SYN < 256 /\ P_TAG_SYNACK < 256 /\ P_TAG_ACK < 256 /\ P_TAG_BADCLUSTER < 256 /\
  (P_TAG_SYNACK =? P_TAG_SYN) = false /\ (P_TAG_ACK =? P_TAG_SYN) = false /\ (P_TAG_ACK =? P_TAG_SYNACK) = false /\
  (P_TAG_BADCLUSTER =? P_TAG_SYN) = false /\ (P_TAG_BADCLUSTER =? P_TAG_SYNACK) = false /\
  (P_TAG_BADCLUSTER =? P_TAG_ACK) = false.
Proof. vm_compute. repeat split; discriminate. Qed.

Definition msg_ok (m : message) : Prop :=
  match m with
  | Syn c d => str_ok c /\ digest_ok d
  | SynAck d x => digest_ok d /\ delta_ok x
  | Ack x => delta_ok x
  | BadCluster => True
  end.

Section MsgRT.
  Variable zc : bytes -> option bytes.
  Variable zd : bytes -> option bytes.
  Hypothesis zc_len : forall b c, zc b = Some c -> len c <= len b.
  Hypothesis zd_zc : forall b c, zc b = Some c -> zd c = Some b.

  Lemma decode_header tag body :
    tag < 256 ->
    decode zd (put_header tag ++ body) =
      if tag =? P_TAG_SYN then
        match get_digest body with
        | None => None
        | Some (d, r3) => match get_str r3 with None => None | Some (c, r4) => Some (Syn c d, r4) end
        end
      else if tag =? P_TAG_SYNACK then
        match get_digest body with
        | None => None
        | Some (d, r3) => match get_delta zd r3 with None => None | Some (x, r4) => Some (SynAck d x, r4) end
        end
      else if tag =? P_TAG_ACK then
        match get_delta zd body with None => None | Some (x, r3) => Some (Ack x, r3) end
      else if tag =? P_TAG_BADCLUSTER then Some (BadCluster, body)
      else None.
  Proof.
    intros Ht. destruct header_consts_ok as (M & V & _).
    unfold decode, put_header. rewrite <- !app_assoc.
    rewrite get_u16_put by exact M. rewrite N.eqb_refl. cbn [negb].
    rewrite get_u8_put by exact V. rewrite N.eqb_refl. cbn [negb].
    rewrite get_u8_put by exact Ht. reflexivity.
  Qed.

  Opaque put_header put_digest put_str.
  Theorem decode_encode_rest m b rest :
    msg_ok m -> encode zc m = Ok b -> decode zd (b ++ rest) = Some (m, rest).
  Proof.
    destruct header_consts_ok as (_ & _ & T1 & T2 & T3 & T4 & E1 & E2 & E3 & E4 & E5 & E6).
    destruct m as [c d|d x|x|]; cbn [msg_ok encode].
    - intros [Hc Hd] [= <-]. rewrite <- !app_assoc. rewrite decode_header by exact T1. rewrite N.eqb_refl.
      rewrite get_digest_put by exact Hd. rewrite get_str_put by exact Hc. reflexivity.
    - intros [Hd Hx]. destruct (put_delta zc x) as [p| |] eqn:E; cbn [rmap]; try discriminate.
      intros [= <-]. rewrite <- !app_assoc. rewrite decode_header by exact T2. rewrite E1, N.eqb_refl.
      rewrite get_digest_put by exact Hd.
      rewrite (get_delta_put zc zd zc_len zd_zc x p rest Hx E). reflexivity.
    - intros Hx. destruct (put_delta zc x) as [p| |] eqn:E; cbn [rmap]; try discriminate.
      intros [= <-]. rewrite <- !app_assoc. rewrite decode_header by exact T3. rewrite E2, E3, N.eqb_refl.
      rewrite (get_delta_put zc zd zc_len zd_zc x p rest Hx E). reflexivity.
    - intros _ [= <-]. rewrite decode_header by exact T4. rewrite E4, E5, E6, N.eqb_refl. reflexivity.
  Qed.

  Transparent put_header put_digest put_str.

  Theorem decode_encode m b : msg_ok m -> encode zc m = Ok b -> decode zd b = Some (m, []).
  Proof. intros Hm He. rewrite <- (app_nil_r b). apply decode_encode_rest; assumption. Qed.
End MsgRT.
