(* Codec_lemmas.v — decode ∘ encode = id for the wire format (C08): primitives, ids, digests,
   the block stream for any compressor with a left-inverse decompressor, ops, the builder on
   normal-form deltas, whole messages. *)
From Coq Require Import Lia.
From ChitchatModel Require Import Base SMap Ids Bytes Params NodeState Stream DeltaWire Message
  SMap_lemmas Stream_lemmas Builder_lemmas Wire_lemmas.

(* ---------- little-endian integers ---------- *)
Lemma b2n_byte_of_N v : b2n (byte_of_N v) = v mod 256.
Proof.
  unfold byte_of_N, b2n. destruct (Byte.of_N (v mod 256)) as [b|] eqn:E.
  - apply Byte.to_of_N. exact E.
  - apply Byte.of_N_None_iff in E. pose proof (N.mod_upper_bound v 256). lia.
Qed.

Lemma le_value_le_bytes n : forall v, v < 256 ^ N.of_nat n -> le_value (le_bytes n v) = v.
Proof.
  induction n as [|n IH]; intros v Hv.
  - cbn in *. lia.
  - cbn [le_bytes le_value]. rewrite b2n_byte_of_N, IH.
    + pose proof (N.div_mod v 256). lia.
    + rewrite Nat2N.inj_succ, N.pow_succ_r' in Hv. apply N.div_lt_upper_bound; lia.
Qed.

Lemma length_le_bytes n v : length (le_bytes n v) = n.
Proof. revert v. induction n as [|n IH]; intros v; cbn; auto. Qed.

Lemma take_bytes_app (a r : bytes) : take_bytes (length a) (a ++ r) = Some (a, r).
Proof.
  unfold take_bytes. rewrite app_length.
  assert (E : Nat.leb (length a) (length a + length r) = true) by (apply Nat.leb_le; lia).
  rewrite E. rewrite firstn_app, Nat.sub_diag, firstn_all, skipn_app, Nat.sub_diag, skipn_all. cbn.
  rewrite app_nil_r. reflexivity.
Qed.

Lemma get_le_put n v r : v < 256 ^ N.of_nat n -> get_le n (le_bytes n v ++ r) = Some (v, r).
Proof.
  intros Hv. unfold get_le.
  pose proof (take_bytes_app (le_bytes n v) r) as H. rewrite length_le_bytes in H. rewrite H.
  rewrite le_value_le_bytes by exact Hv. reflexivity.
Qed.

Definition u8_ok (v : N) : Prop := v < 256.
Definition u16_ok (v : N) : Prop := v <= u16_max.
Definition u64_ok (v : N) : Prop := v < 2 ^ 64.

Lemma get_u8_put v r : v < 256 -> get_u8 (put_u8 v ++ r) = Some (v, r).
Proof. intros H. apply (get_le_put 1). exact H. Qed.
Lemma get_u16_put v r : v <= u16_max -> get_u16 (put_u16 v ++ r) = Some (v, r).
Proof. intros H. apply (get_le_put 2). unfold u16_max in H. change (256 ^ N.of_nat 2) with 65536. lia. Qed.
Lemma get_u64_put v r : v < 2 ^ 64 -> get_u64 (put_u64 v ++ r) = Some (v, r).
Proof. intros H. apply (get_le_put 8). exact H. Qed.

(* ---------- strings ---------- *)
Definition str_ok (s : bytes) : Prop := len s <= u16_max /\ utf8_valid s = true.

Lemma get_str_put s r : str_ok s -> get_str (put_str s ++ r) = Some (s, r).
Proof.
  intros [Hl Hu]. unfold get_str, put_str. rewrite <- app_assoc, get_u16_put by exact Hl.
  unfold len. rewrite Nat2N.id, take_bytes_app, Hu. reflexivity.
Qed.

(* ---------- addresses and ids ---------- *)
Definition addr_ok (a : addr) : Prop :=
  match a with
  | V4 ip port => ip < 2 ^ 32 /\ port <= u16_max
  | V6 ip port => ip < 2 ^ 128 /\ port <= u16_max
  end.

Lemma be_value_be_bytes n v : v < 256 ^ N.of_nat n -> be_value (be_bytes n v) = v.
Proof. intros H. unfold be_value, be_bytes. rewrite rev_involutive. apply le_value_le_bytes. exact H. Qed.

Lemma length_be_bytes n v : length (be_bytes n v) = n.
Proof. unfold be_bytes. rewrite rev_length. apply length_le_bytes. Qed.

Lemma get_addr_put a r : addr_ok a -> get_addr (put_addr a ++ r) = Some (a, r).
Proof.
  destruct a as [ip port|ip port]; intros [Hi Hp]; unfold get_addr, put_addr; rewrite <- !app_assoc.
  - rewrite get_u8_put by lia. change (4 =? 4) with true. cbv iota.
    pose proof (take_bytes_app (be_bytes 4 ip) (put_u16 port ++ r)) as H. rewrite length_be_bytes in H. rewrite H.
    rewrite get_u16_put by exact Hp. rewrite be_value_be_bytes by exact Hi. reflexivity.
  - rewrite get_u8_put by lia. change (6 =? 4) with false. change (6 =? 6) with true. cbv iota.
    pose proof (take_bytes_app (be_bytes 16 ip) (put_u16 port ++ r)) as H. rewrite length_be_bytes in H. rewrite H.
    rewrite get_u16_put by exact Hp. rewrite be_value_be_bytes by exact Hi. reflexivity.
Qed.

Definition id_ok (i : id) : Prop := str_ok (i_name i) /\ u64_ok (i_gen i) /\ addr_ok (i_addr i).

Lemma get_id_put i r : id_ok i -> get_id (put_id i ++ r) = Some (i, r).
Proof.
  intros (Hn & Hg & Ha). unfold get_id, put_id. rewrite <- !app_assoc.
  rewrite get_str_put by exact Hn. rewrite get_u64_put by exact Hg. rewrite get_addr_put by exact Ha.
  destruct i; reflexivity.
Qed.

(* ---------- digests ---------- *)
Section InsertEnd.
  Context {K V : Type}.
  Variable cmp : K -> K -> comparison.
  Hypothesis cmp_eq : forall a b, cmp a b = Eq <-> a = b.
  Hypothesis cmp_antisym : forall a b, cmp b a = CompOpp (cmp a b).
  Hypothesis cmp_trans : forall a b c, cmp a b = Lt -> cmp b c = Lt -> cmp a c = Lt.

  Lemma sm_insert_end k v (m : smap K V) :
    (forall k' v', In (k', v') m -> cmp k' k = Lt) -> sm_insert cmp k v m = m ++ [(k, v)].
  Proof.
    induction m as [|[k0 v0] r IH]; intros H; cbn [sm_insert app]; [reflexivity|].
    assert (E : cmp k k0 = Gt).
    { rewrite cmp_antisym. rewrite (H k0 v0) by (left; reflexivity). reflexivity. }
    rewrite E. f_equal. apply IH. intros k' v' Hin. apply (H k' v'). right. exact Hin.
  Qed.

  Lemma sorted_app_below (a : smap K V) k v r :
    sm_sorted cmp (a ++ (k, v) :: r) -> forall k' v', In (k', v') a -> cmp k' k = Lt.
  Proof.
    induction a as [|[k0 v0] a IH]; intros Hs k' v' Hin; [destruct Hin|].
    change (((k0, v0) :: a) ++ (k, v) :: r) with ((k0, v0) :: (a ++ (k, v) :: r)) in Hs.
    apply (sorted_cons_iff cmp cmp_trans) in Hs as [Hab Hs].
    destruct Hin as [E|Hin].
    - injection E as -> ->. apply (Hab k v). apply in_or_app. right. left. reflexivity.
    - apply (IH Hs k' v' Hin).
  Qed.
End InsertEnd.

Definition ndigest_ok (g : ndigest) : Prop := u64_ok (g_hb g) /\ u64_ok (g_gc g) /\ u64_ok (g_max g).
Definition digest_ok (d : digest) : Prop :=
  sm_sorted id_cmp d /\ N.of_nat (length d) <= u16_max /\ Forall (fun e => id_ok (fst e) /\ ndigest_ok (snd e)) d.

Lemma get_digest_entries_put l : forall acc r,
  sm_sorted id_cmp (acc ++ l) -> Forall (fun e => id_ok (fst e) /\ ndigest_ok (snd e)) l ->
  get_digest_entries (length l) (flat_map (fun e => put_id (fst e) ++ put_ndigest (snd e)) l ++ r) acc
  = Some (acc ++ l, r).
Proof.
  induction l as [|[i g] l IH]; intros acc r Hs Hok; cbn [length get_digest_entries flat_map].
  - rewrite app_nil_r. reflexivity.
  - inversion Hok as [|? ? [Hi (H1 & H2 & H3)] Hok']; subst. cbn [fst snd] in *.
    unfold put_ndigest. rewrite <- !app_assoc.
    rewrite get_id_put by exact Hi. rewrite !get_u64_put by assumption.
    unfold dg_insert. rewrite (sm_insert_end id_cmp id_cmp_antisym).
    + replace (acc ++ (i, g) :: l) with ((acc ++ [(i, g)]) ++ l) in * by (rewrite <- app_assoc; reflexivity).
      destruct g as [hb gc mx]. cbn [g_hb g_gc g_max]. apply IH; assumption.
    + intros k' v' Hin. eapply (sorted_app_below id_cmp id_cmp_trans); eauto.
Qed.

Lemma get_digest_put d r : digest_ok d -> get_digest (put_digest d ++ r) = Some (d, r).
Proof.
  intros (Hs & Hl & Hok). unfold get_digest, put_digest. rewrite <- app_assoc.
  rewrite get_u16_put by exact Hl. rewrite Nat2N.id.
  apply (get_digest_entries_put d [] r); assumption.
Qed.
