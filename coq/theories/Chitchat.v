(* Chitchat.v — the Chitchat node (lib.rs:54-468): handshake, heartbeat reporting, liveness
   evaluation with watch channel, catch-up entry point. Model file. *)
From ChitchatModel Require Import Base SMap Ids Bytes Params NodeState Stream DeltaWire Message Cluster FD.

(* a small family of extra liveness predicates (ChitchatConfig::extra_liveness_predicate) *)
Inductive lpred :=
| PNone                       (* no predicate configured *)
| PHasEntry (k : bytes)       (* get_versioned(k).is_some() *)
| PVisible (k : bytes)        (* contains_key(k) *)
| PValueEq (k v : bytes)      (* get(k) == Some(v) *)
| PMaxEven.                   (* max_version() % 2 == 0 *)

Definition eval_pred (p : lpred) (c : copy) : bool :=
  match p with
  | PNone => true
  | PHasEntry k => match get_versioned c k with Some _ => true | None => false end
  | PVisible k => contains_key c k
  | PValueEq k v => match get c k with Some v' => bytes_eqb v v' | None => false end
  | PMaxEven => (c_max c mod 2 =? 0)%N
  end.

Record config := mkCfg {
  cf_id : id;
  cf_cluster : bytes;
  cf_fd : fdconfig;
  cf_grace : Z;        (* marked_for_deletion_grace_period *)
  cf_pred : lpred;
  cf_has_cb : bool     (* a catch-up callback is configured *)
}.

Definition pmap := smap id (N * bool).
Record node := mkNode {
  nd_cfg : config;
  nd_cs : cluster;
  nd_fd : fd;
  nd_prev : pmap;            (* previous_live_nodes *)
  nd_watch : smap id copy;   (* current value of the watch channel *)
  nd_sends : N;              (* number of values published on the watch channel *)
  nd_cb : N                  (* number of catch-up callback invocations *)
}.

Definition with_cs (n : node) (cs : cluster) : node :=
  mkNode (nd_cfg n) cs (nd_fd n) (nd_prev n) (nd_watch n) (nd_sends n) (nd_cb n).
Definition with_fd (n : node) (f : fd) : node :=
  mkNode (nd_cfg n) (nd_cs n) f (nd_prev n) (nd_watch n) (nd_sends n) (nd_cb n).

Definition self_id (n : node) : id := cf_id (nd_cfg n).

(* apply [f] to the copy of member [i], which must exist *)
Definition update_copy (cs : cluster) (i : id) (f : copy -> copy) : cluster :=
  match nm_get i (cs_nodes cs) with
  | Some c => mkCluster (nm_insert i (f c) (cs_nodes cs)) (cs_gcn cs)
  | None => cs
  end.

(* lib.rs:409-411 *)
Definition update_self_heartbeat (n : node) : node :=
  let cs := node_state_mut_or_init (nd_cs n) (self_id n) in
  with_cs n (update_copy cs (self_id n) inc_heartbeat).

(* lib.rs:65-92 *)
Fixpoint set_all (c : copy) (kvs : list (bytes * bytes)) : copy :=
  match kvs with
  | [] => c
  | (k, v) :: r => set_all (fst (set c k v)) r
  end.
Definition new_node (cfg : config) (initial : list (bytes * bytes)) : node :=
  let n0 := mkNode cfg new_cluster new_fd [] [] 0 0 in
  let n1 := update_self_heartbeat n0 in
  with_cs n1 (update_copy (nd_cs n1) (cf_id cfg) (fun c => set_all c initial)).

Definition own_copy (n : node) : copy :=
  match nm_get (self_id n) (cs_nodes (nd_cs n)) with Some c => c | None => new_copy end.

Definition scheduled (now : Z) (n : node) : list id :=
  fd_scheduled_for_deletion (cf_fd (nd_cfg n)) now (nd_fd n).

(* lib.rs:94-101 *)
Definition create_syn_message (now : Z) (n : node) : message :=
  Syn (cf_cluster (nd_cfg n)) (compute_digest (nd_cs n) (scheduled now n)).

(* lib.rs:183-205 *)
Definition report_heartbeat (now : Z) (n : node) (i : id) (hb : N) : node :=
  if id_eqb i (self_id n) then n
  else
    let should_init :=
      match last_heartbeat_if_deleted (nd_cs n) i with
      | Some last => (last <? hb)%N
      | None => true
      end in
    let cs := if should_init then node_state_mut_or_init (nd_cs n) i else nd_cs n in
    match nm_get i (cs_nodes cs) with
    | None => with_cs n cs
    | Some c =>
        let '(c', fresh) := try_set_heartbeat c hb in
        let n1 := with_cs n (mkCluster (nm_insert i c' (cs_nodes cs)) (cs_gcn cs)) in
        if fresh then with_fd n1 (fd_report_heartbeat (cf_fd (nd_cfg n)) now (nd_fd n1) i) else n1
    end.

(* lib.rs:105-109 *)
Definition report_heartbeats_in_digest (now : Z) (n : node) (d : digest) : node :=
  fold_left (fun acc e => report_heartbeat now acc (fst e) (g_hb (snd e))) d n.

(* lib.rs:111-119 *)
Definition process_delta (now : Z) (n : node) (x : delta) : result (node * list mevent) :=
  rmap (fun r => let '(cs, reset, evs) := r in
                 let n1 := with_cs n cs in
                 (if reset && cf_has_cb (nd_cfg n)
                  then mkNode (nd_cfg n1) (nd_cs n1) (nd_fd n1) (nd_prev n1) (nd_watch n1)
                              (nd_sends n1) (nd_cb n1 + 1)
                  else n1, evs))
       (cluster_apply_delta now (nd_cs n) x).

Section Proc.
  Variable zc : bytes -> option bytes.

  (* compute_partial_delta_respecting_mtu with the shuffle outcome [ord] (ids of the stale
     members in iteration order).  Err = [ord] is not a legal outcome of the shuffle. *)
  Definition compute_delta (cs : cluster) (dg : digest) (mtu : N) (sched : list id) (ord : list id)
    : result delta :=
    match arrange ord (stale_nodes cs dg sched) with
    | None => Err
    | Some ordered =>
        if staleness_desc ordered then compute_delta_ordered zc ordered mtu else Err
    end.

  (* lib.rs:121-174.  Panic = any abort (checked subtraction at :138 included). *)
  Definition process_message (now : Z) (n0 : node) (m : message) (ord : list id)
    : result (node * option message * list mevent) :=
    let n := update_self_heartbeat n0 in
    match m with
    | Syn cluster dg =>
        if negb (bytes_eqb cluster (cf_cluster (nd_cfg n))) then Ok (n, Some BadCluster, [])
        else
          let n1 := report_heartbeats_in_digest now n dg in
          let sched := scheduled now n1 in
          let self_digest := compute_digest (nd_cs n1) sched in
          let used := (P_RESERVE_SYNACK + digest_len self_digest)%N in
          if (P_MAX_UDP <? used)%N then Panic
          else
            rmap (fun x => (n1, Some (SynAck self_digest x), []))
                 (compute_delta (nd_cs n1) dg (P_MAX_UDP - used) sched ord)
    | SynAck dg x =>
        let n1 := report_heartbeats_in_digest now n dg in
        rbind (process_delta now n1 x) (fun r =>
          let '(n2, evs) := r in
          let sched := scheduled now n2 in
          rmap (fun y => (n2, Some (Ack y), evs))
               (compute_delta (nd_cs n2) dg (P_MAX_UDP - P_RESERVE_ACK) sched ord))
    | Ack x =>
        rmap (fun r => (fst r, None, snd r)) (process_delta now n x)
    | BadCluster => Ok (n, None, [])
    end.
End Proc.

(* lib.rs:176-179 *)
Definition gc_keys (now : Z) (n : node) : node :=
  with_cs n (cluster_gc now (cf_grace (nd_cfg n)) (nd_cs n)).

(* lib.rs:272-274 *)
Definition live_nodes (n : node) : list id := self_id n :: fd_live_nodes (nd_fd n).
Definition dead_nodes (n : node) : list id := fd_dead_nodes (nd_fd n).

Definition pm_insert := @sm_insert id (N * bool) id_cmp.
Definition pm_get := @sm_get id (N * bool) id_cmp.
Definition pentry_eqb (a b : id * (N * bool)) : bool :=
  id_eqb (fst a) (fst b) && (fst (snd a) =? fst (snd b))%N && Bool.eqb (snd (snd a)) (snd (snd b)).
Fixpoint pmap_eqb (a b : pmap) : bool :=
  match a, b with
  | [], [] => true
  | x :: a', y :: b' => pentry_eqb x y && pmap_eqb a' b'
  | _, _ => false
  end.

(* lib.rs:209-255.  [oracle] = the implementation's live set after the call (see FD.v). *)
Definition update_nodes_liveness (now : Z) (n : node) (oracle : option (list id)) : node :=
  let cfg := cf_fd (nd_cfg n) in
  let f1 := fold_left
              (fun f e =>
                 if id_eqb (fst e) (self_id n) then f
                 else fd_update_node_liveness cfg now f (fst e)
                        (match oracle with Some l => Some (in_ids (fst e) l) | None => None end))
              (cs_nodes (nd_cs n)) (nd_fd n) in
  let live := self_id n :: fd_live_nodes f1 in
  let current : pmap :=
    fold_left (fun m i => match nm_get i (cs_nodes (nd_cs n)) with
                          | Some c => pm_insert i (c_max c, eval_pred (cf_pred (nd_cfg n)) c) m
                          | None => m
                          end) live [] in
  let changed := negb (pmap_eqb (nd_prev n) current) in
  let prev := if changed then current else nd_prev n in
  let watch : smap id copy :=
    if changed then
      filter_map (fun e : id * (N * bool) =>
                    if snd (snd e)
                    then match nm_get (fst e) (cs_nodes (nd_cs n)) with
                         | Some c => Some (fst e, c)
                         | None => None
                         end
                    else None) current
    else nd_watch n in
  let sends := if changed then (nd_sends n + 1)%N else nd_sends n in
  let '(f2, collected) := fd_garbage_collect cfg now f1 in
  let cs := fold_left (fun cs i => if id_eqb i (self_id n) then cs else remove_node cs i)
                      collected (nd_cs n) in
  mkNode (nd_cfg n) cs f2 prev watch sends (nd_cb n).

(* lib.rs:337-407.  Panic = assert at :406 *)
Fixpoint set_many (c : copy) (kvs : list (bytes * vv)) (evs : list event) : copy * list event :=
  match kvs with
  | [] => (c, evs)
  | (k, v) :: r => let '(c', ev) := set_versioned_value c k v in set_many c' r (evs ++ ev)
  end.
Definition in_keys (k : bytes) (kvs : list (bytes * vv)) : bool :=
  existsb (fun e => bytes_eqb k (fst e)) kvs.
Definition reset_node_state_if_update (n : node) (i : id) (kvs : list (bytes * vv)) (mx gc : N)
  : result (node * list mevent) :=
  let should_init := match last_heartbeat_if_deleted (nd_cs n) i with None => true | Some _ => false end in
  let cs := if should_init then node_state_mut_or_init (nd_cs n) i else nd_cs n in
  match nm_get i (cs_nodes cs) with
  | None => Ok (with_cs n cs, [])
  | Some c =>
      if (mx <=? c_max c)%N then Ok (with_cs n cs, [])
      else if (mx <? c_gc c)%N then Ok (with_cs n cs, [])
      else
        let f := fd_get_or_create (nd_fd n) i in
        let '(c1, evs) := set_many c kvs [] in
        let kept := filter (fun e => in_keys (fst e) kvs) (c_kvs c1) in
        let c2 := mkCopy (c_hb c1) (N.max gc (c_gc c1)) (N.max mx (c_max c1)) kept in
        if lex_lt (monotonic_property c) (monotonic_property c2)
        then Ok (with_fd (with_cs n (mkCluster (nm_insert i c2 (cs_nodes cs)) (cs_gcn cs))) f,
                 map (fun e => (i, fst e, snd e)) evs)
        else Panic
  end.
