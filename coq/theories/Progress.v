(* Progress.v — handshake progress (C01).
   Part 1 (sender): when the header of the first stale member and its first operation fit the
   budget, the computed delta starts with a NON-EMPTY node delta for that member.
   Part 2 (receiver): a non-empty node delta computed against the receiver's own frontier is
   applied and strictly raises (GC watermark, max version) of that copy; no copy moves back.
   Part 3: composition over a complete SYN / SYN-ACK exchange between two nodes. *)
From Coq Require Import Lia ZifyBool ZifyNat ZifyN Permutation.
From ChitchatModel Require Import Base SMap Ids Bytes Params NodeState Stream DeltaWire Message Cluster
  FD Chitchat SMap_lemmas NodeState_lemmas Builder_lemmas Stream_lemmas Cluster_lemmas Agreement Inv
  DeltaRefine Compute_lemmas Prefix_lemmas NodeInv Chitchat_lemmas Codec_lemmas.

Lemma div_ceil_ge a t : 0 < t -> a <= div_ceil a t * t.
Proof.
  intros Ht. unfold div_ceil. pose proof (N.div_mod (a + t - 1) t ltac:(lia)) as H.
  pose proof (N.mod_upper_bound (a + t - 1) t ltac:(lia)) as Hm. nia.
Qed.

Lemma div_ceil_subadd a b t : 0 < t -> div_ceil (a + b) t <= div_ceil a t + div_ceil b t.
Proof.
  intros Ht. pose proof (div_ceil_ge a t Ht) as Ha. pose proof (div_ceil_ge b t Ht) as Hb.
  unfold div_ceil at 1. apply N.lt_succ_r. apply N.div_lt_upper_bound; [lia|]. nia.
Qed.

Section Sender.
  Variable zc : bytes -> option bytes.
  Hypothesis zc_len : forall b c, zc b = Some c -> len c <= len b.

  (* an operation whose announced upper bound is within the budget is accepted *)
  Lemma ds_try_add_op_fits s o b' ub :
    ds_ok zc s -> b_apply_op (ds_b s) o = Some b' ->
    upperbound_after (ds_w s) (op_len o) = Some ub -> ub <= ds_mtu s ->
    exists s', ds_try_add_op zc s o = Ok (s', true) /\ ds_ok zc s' /\ ds_b s' = b' /\ ds_mtu s' = ds_mtu s /\
      w_thr (ds_w s') = w_thr (ds_w s) /\
      phi (ds_w s') <= len (w_out (ds_w s)) + P_BLOCK_META_LEN * div_ceil (len (w_pend (ds_w s)) + op_len o) (w_thr (ds_w s))
                       + (len (w_pend (ds_w s)) + op_len o).
  Proof.
    intros Hok Hb Hub Hle.
    destruct (ds_try_add_op_spec zc zc_len s o b' Hok Hb) as (s1 & ok & Hrun & Hcase).
    unfold ds_try_add_op in Hrun. rewrite Hub in Hrun.
    assert (E : ds_mtu s <? ub = false) by (apply N.ltb_ge; exact Hle). rewrite E in Hrun.
    destruct (append zc (ds_w s) (put_op o)) as [w'| |] eqn:Ea; cbn [rbind] in Hrun; try discriminate.
    rewrite Hb in Hrun. injection Hrun as <- <-.
    destruct Hcase as [[Hf _]|(_ & Hok' & Hb' & Hm')]; [discriminate|].
    eexists. split; [unfold ds_try_add_op; rewrite Hub, E, Ea; cbn [rbind]; rewrite Hb; reflexivity|].
    split; [exact Hok'|]. split; [reflexivity|]. split; [reflexivity|]. cbn [ds_w].
    destruct Hok as (Ht & _).
    destruct (append_spec zc zc_len (ds_w s) (put_op o) w' Ht Ea) as (H1 & _ & H3).
    rewrite len_put_op in H1. split; [exact H3|exact H1].
  Qed.

  Definition s_init (mtu : N) : dser := mkDS mtu new_builder (new_writer (N.min P_BLOCK_THRESHOLD mtu)).

  Lemma s_init_ok mtu : P_MIN_MTU <= mtu -> mtu <= u16_max -> ds_ok zc (s_init mtu).
  Proof.
    intros Hmin Hmax. unfold ds_ok, s_init. cbn [ds_w ds_mtu new_writer w_thr w_pend].
    assert (0 < P_BLOCK_THRESHOLD) by (vm_compute; reflexivity).
    assert (0 < P_MIN_MTU) by (vm_compute; reflexivity).
    split; [lia|]. split; [cbn; lia|]. split; [|exact Hmax].
    rewrite (finish_new zc). assert (1 <= P_MIN_MTU) by (vm_compute; discriminate). lia.
  Qed.

  (* sizes of the member header and of the first operation that follows it *)
  Definition head_len (n : stale_node) : N := op_len (OpNode (sn_id n) (c_gc (sn_copy n)) (sn_from n)).
  Definition first_len (n : stale_node) : N :=
    match sorted_of n with
    | e :: _ => op_len (OpKV (kvm_of e))
    | [] => op_len (OpSetMax (c_max (sn_copy n)))
    end.
  (* "the member header and one key-value (or the SetMaxVersion op) fit what the digest left" *)
  Definition room (mtu : N) (n : stale_node) : Prop :=
    let thr := N.min P_BLOCK_THRESHOLD mtu in
    P_BLOCK_META_LEN * (div_ceil (head_len n) thr + div_ceil (first_len n) thr) + head_len n + first_len n + 1 <= mtu.

  Definition nonempty_piece (n : stale_node) (j : nat) (mv : bool) : Prop :=
    (sorted_of n <> [] /\ (1 <= j)%nat) \/ (sorted_of n = [] /\ mv = true).

  Theorem delta_loop_first n rest mtu :
    P_MIN_MTU <= mtu -> mtu <= u16_max ->
    NoDup (map sn_id (n :: rest)) -> (forall m, In m (n :: rest) -> node_ok m) ->
    room mtu n ->
    exists x j mv ps,
      delta_loop zc (s_init mtu) (n :: rest) = Ok x /\ dlen x <= mtu /\
      nds x = node_piece n j mv :: ps /\ (j <= length (sorted_of n))%nat /\ nonempty_piece n j mv /\
      pieces_of (n :: rest) (nds x).
  Proof.
    intros Hmin Hmax Hnd Hnok Hroom.
    pose proof (s_init_ok mtu Hmin Hmax) as Hok0.
    assert (Hthr : 0 < N.min P_BLOCK_THRESHOLD mtu).
    { assert (0 < P_BLOCK_THRESHOLD) by (vm_compute; reflexivity). assert (0 < P_MIN_MTU) by (vm_compute; reflexivity). lia. }
    pose proof meta_len_ok as Hmeta.
    set (thr := N.min P_BLOCK_THRESHOLD mtu) in *.
    unfold room in Hroom. fold thr in Hroom. cbv zeta in Hroom.
    cbn [delta_loop].
    set (o1 := OpNode (sn_id n) (c_gc (sn_copy n)) (sn_from n)).
    set (nd0 := mkND (sn_id n) (sn_from n) (c_gc (sn_copy n)) [] 0).
    assert (Hb1 : b_apply_op (ds_b (s_init mtu)) o1 = Some (mkB [sn_id n] [] (Some nd0))) by reflexivity.
    assert (Hpos1 : 1 <= head_len n) by apply op_len_pos.
    assert (Hub1 : upperbound_after (ds_w (s_init mtu)) (op_len o1)
                   = Some (P_BLOCK_META_LEN * div_ceil (head_len n) thr + head_len n + 1)).
    { unfold upperbound_after. change (op_len o1) with (head_len n). destruct (head_len n =? 0) eqn:E; [apply N.eqb_eq in E; lia|].
      cbn [s_init ds_w new_writer w_out w_pend w_thr]. fold thr. cbn [len length]. change (N.of_nat 0) with 0. rewrite !N.add_0_l. reflexivity. }
    destruct (ds_try_add_op_fits (s_init mtu) o1 _ _ Hok0 Hb1 Hub1) as (s1 & Hrun1 & Hok1 & Hbs1 & Hm1 & Ht1 & Hphi1).
    { cbn [s_init ds_mtu]. pose proof (div_ceil_pos (first_len n) thr Hthr). lia. }
    rewrite Hrun1. cbn [rbind negb].
    cbn [s_init ds_w new_writer w_out w_pend w_thr ds_mtu] in Hphi1, Ht1, Hm1. fold thr in Hphi1, Ht1.
    cbn [len length] in Hphi1. fold (head_len n) in Hphi1.
    rewrite !N.add_0_l in Hphi1.
    (* the upper bound announced for the NEXT operation of length l *)
    assert (Hnext : forall l, 1 <= l ->
              exists ub, upperbound_after (ds_w s1) l = Some ub /\
                         ub <= P_BLOCK_META_LEN * (div_ceil (head_len n) thr + div_ceil l thr) + head_len n + l + 1).
    { intros l Hl. unfold upperbound_after. destruct (l =? 0) eqn:E; [apply N.eqb_eq in E; lia|].
      eexists. split; [reflexivity|]. rewrite Ht1. unfold phi in Hphi1. rewrite Ht1 in Hphi1.
      pose proof (div_ceil_subadd (len (w_pend (ds_w s1))) l thr Hthr) as H.
      change (op_len o1) with (head_len n) in Hphi1.
      apply (N.mul_le_mono_l _ _ P_BLOCK_META_LEN) in H. rewrite N.mul_add_distr_l in H.
      rewrite N.mul_add_distr_l. lia. }
    fold (sorted_of n).
    assert (Hnd' : NoDup (map sn_id rest)) by (inversion Hnd; assumption).
    assert (Hnotin : ~ In (sn_id n) (map sn_id rest)) by (inversion Hnd; assumption).
    assert (Hpiece : forall j mv, (sorted_of n <> [] \/ mv = false) ->
              extend nd0 (map kvm_of (firstn j (sorted_of n))) = node_piece n j mv).
    { intros j mv Hcase. unfold extend, node_piece, nd0. cbn [d_id d_from d_gc d_kvs d_max app].
      f_equal. destruct (sorted_of n) eqn:Es.
      - destruct Hcase as [Hc| ->]; [congruence|]. destruct j; reflexivity.
      - reflexivity. }
    destruct (sorted_of n) as [|e kvs] eqn:Es.
    - (* nothing stale but the max version: SetMaxVersion must fit *)
      cbn [add_kvs rbind negb].
      set (o2 := OpSetMax (c_max (sn_copy n))).
      assert (Hcur1 : b_cur (ds_b s1) = Some nd0) by (rewrite Hbs1; reflexivity).
      assert (Hb2 : b_apply_op (ds_b s1) o2 = Some (mkB [sn_id n] [] (Some (mkND (sn_id n) (sn_from n) (c_gc (sn_copy n)) [] (c_max (sn_copy n)))))).
      { cbn [b_apply_op o2]. rewrite Hcur1. cbn [nd0 d_max d_id d_from d_gc d_kvs].
        assert (E : c_max (sn_copy n) <? 0 = false) by (apply N.ltb_ge; lia). rewrite E, Hbs1. reflexivity. }
      destruct (Hnext (op_len o2) (op_len_pos o2)) as (ub2 & Hub2 & Hle2).
      destruct (ds_try_add_op_fits s1 o2 _ _ Hok1 Hb2 Hub2) as (s2 & Hrun2 & Hok2 & Hbs2 & Hm2 & _).
      { rewrite Hm1. unfold first_len in Hroom. rewrite Es in Hroom. fold o2 in Hroom. lia. }
      rewrite Hrun2. cbn [rbind fst].
      destruct (delta_loop_spec zc zc_len rest s2 Hok2 Hnd') as (x & ps & Hx & Hlen & Hnds & Hps).
      { intros m Hm. rewrite Hbs2. cbn [b_seen]. intros [Heq|[]]. apply Hnotin. rewrite Heq. apply in_map. exact Hm. }
      { intros m Hm. apply Hnok. right. exact Hm. }
      exists x, 0%nat, true, ps. split; [exact Hx|]. split; [rewrite <- Hm1, <- Hm2; exact Hlen|].
      assert (Hnds' : nds x = node_piece n 0 true :: ps).
      { rewrite Hnds, Hbs2. unfold b_all. cbn [b_done b_cur app]. f_equal. unfold node_piece. rewrite Es. reflexivity. }
      split; [exact Hnds'|]. split; [cbn; lia|]. split; [right; split; [exact Es|reflexivity]|].
      rewrite Hnds'. apply po_cons; [cbn; lia|rewrite Es; cbn; lia|exact Hps].
    - (* the first stale key-value must fit *)
      cbn [add_kvs].
      set (o2 := OpKV (kvm_of e)).
      assert (Hcur1 : b_cur (ds_b s1) = Some nd0) by (rewrite Hbs1; reflexivity).
      assert (Hasc : asc_from 0 (map kvm_of (e :: kvs))).
      { rewrite <- Es. apply (Hnok n). left. reflexivity. }
      cbn [map asc_from] in Hasc. destruct Hasc as [Hlt Hasc].
      assert (Hb2 : b_apply_op (ds_b s1) o2 = Some (mkB [sn_id n] [] (Some (extend nd0 [kvm_of e])))).
      { cbn [b_apply_op o2]. rewrite Hcur1. cbn [nd0 d_max].
        assert (E : 0 <? m_ver (kvm_of e) = true) by (apply N.ltb_lt; exact Hlt). rewrite E, Hbs1. reflexivity. }
      destruct (Hnext (op_len o2) (op_len_pos o2)) as (ub2 & Hub2 & Hle2).
      destruct (ds_try_add_op_fits s1 o2 _ _ Hok1 Hb2 Hub2) as (s2 & Hrun2 & Hok2 & Hbs2 & Hm2 & _).
      { rewrite Hm1. unfold first_len in Hroom. rewrite Es in Hroom. fold o2 in Hroom. lia. }
      rewrite Hrun2. cbn [rbind].
      destruct (add_kvs_spec zc zc_len kvs s2 true (extend nd0 [kvm_of e]) Hok2) as
          (s3 & all & added & j & Hr3 & Hok3 & Hm3 & Hs3 & Hd3 & Hc3 & Hj & Hall & Hadd).
      { rewrite Hbs2. reflexivity. }
      { cbn [extend d_max last_kv_ver nd0]. exact Hasc. }
      rewrite Hr3. cbn [rbind].
      rewrite Hbs2 in Hs3, Hd3. cbn [b_seen b_done] in Hs3, Hd3.
      assert (Hc3' : b_cur (ds_b s3) = Some (node_piece n (S j) false)).
      { rewrite Hc3. f_equal. rewrite <- (Hpiece (S j) false) by (left; try rewrite Es; discriminate).
        try rewrite Es. unfold extend. cbn [d_id d_from d_gc d_kvs d_max firstn map last_kv_ver nd0 app].
        reflexivity. }
      assert (Hadd' : added = true) by (rewrite Hadd; reflexivity).
      destruct all.
      + cbn [negb]. rewrite Hadd'.
        assert (Hjl : j = length kvs) by (apply Hall; reflexivity).
        destruct (delta_loop_spec zc zc_len rest s3 Hok3 Hnd') as (x & ps & Hx & Hlen & Hnds & Hps).
        { intros m Hm. rewrite Hs3. intros [Heq|[]]. apply Hnotin. rewrite Heq. apply in_map. exact Hm. }
        { intros m Hm. apply Hnok. right. exact Hm. }
        exists x, (S j), false, ps. split; [exact Hx|]. split; [rewrite <- Hm1, <- Hm2, <- Hm3; exact Hlen|].
        assert (Hnds' : nds x = node_piece n (S j) false :: ps).
        { rewrite Hnds. unfold b_all. rewrite Hd3, Hc3'. reflexivity. }
        split; [exact Hnds'|]. split; [cbn [length]; lia|].
        split; [left; split; [rewrite Es; discriminate|lia]|].
        rewrite Hnds'. apply po_cons; [rewrite Es; cbn [length]; lia|rewrite Es; cbn [length]; lia|exact Hps].
      + cbn [negb]. destruct (ds_finish_spec zc s3) as [H1 H2].
        assert (Hjl : (j < length kvs)%nat).
        { destruct (Nat.eq_dec j (length kvs)) as [E|E]; [apply Hall in E; discriminate|lia]. }
        exists (ds_finish zc s3), (S j), false, []. split; [reflexivity|].
        split; [rewrite H2, <- Hm1, <- Hm2, <- Hm3; apply Hok3|].
        assert (Hnds' : nds (ds_finish zc s3) = [node_piece n (S j) false]).
        { rewrite H1. unfold b_all. rewrite Hd3, Hc3'. reflexivity. }
        split; [exact Hnds'|]. split; [cbn [length]; lia|].
        split; [left; split; [rewrite Es; discriminate|lia]|].
        rewrite Hnds'. apply po_cons; [rewrite Es; cbn [length]; lia|auto|constructor].
  Qed.
End Sender.

(* ================= Part 2: the receiver ================= *)
Definition frontier_lt (c c' : copy) : Prop := lex_lt_p (monotonic_property c) (monotonic_property c').
Definition frontier_le (c c' : copy) : Prop := lex_le_p (monotonic_property c) (monotonic_property c').

Lemma lex_lt_le_trans a b c : lex_lt_p a b -> lex_le_p b c -> lex_lt_p a c.
Proof. unfold lex_lt_p, lex_le_p. lia. Qed.

(* a node delta computed against the receiver's own frontier (gc, max of [r]) that carries at
   least one operation is applied, strictly raises r's frontier, and nothing else moves back *)
Theorem offer_applied_advances now nodes X s r j mv nd ps reset evs :
  nm_get X nodes = Some r ->
  mk_node_delta X s (c_gc r) (c_max r) j mv = Some nd ->
  (d_kvs nd <> [] \/ 0 < d_max nd) ->
  Forall nd_bounded ps ->
  exists nodes' reset' evs' r',
    cluster_apply_nds now nodes (nd :: ps) reset evs = Ok (nodes', reset', evs') /\
    nm_get X nodes' = Some r' /\ frontier_lt r r' /\
    (forall i c, nm_get i nodes = Some c -> exists c', nm_get i nodes' = Some c' /\ frontier_le c c').
Proof.
  intros Hget Hmk Hne Hps.
  assert (Hid : d_id nd = X).
  { unfold mk_node_delta in Hmk. destruct (c_max s <=? c_max r); [discriminate|]. injection Hmk as <-. reflexivity. }
  destruct (agreement_progress now X s r j mv nd Hmk) as (r1 & st & ev & Hok & Hprog).
  assert (Hst : st <> Reject).
  { intros ->. destruct (agreement_status X s r j mv nd Hmk) as (_ & _ & HR).
    assert (Hrej : check_delta_status r nd = Reject).
    { destruct (apply_delta_frontier now r nd (mk_node_delta_bounded _ _ _ _ _ _ _ Hmk))
        as (r1' & st' & ev' & Hok' & Hst' & _). rewrite Hok in Hok'. injection Hok' as _ <- _. symmetry. exact Hst'. }
    destruct (HR Hrej) as [Hk Hm]. destruct Hne as [Hne|Hne]; [contradiction|lia]. }
  specialize (Hprog Hst).
  cbn [cluster_apply_nds]. rewrite Hid, Hget, Hok.
  assert (Hle : lex_le (monotonic_property r) (monotonic_property r1) = true).
  { apply lex_le_iff. unfold lex_lt_p, lex_le_p in *. lia. }
  rewrite Hle.
  destruct (cluster_apply_nds_spec now ps (nm_insert X r1 nodes)
              (reset || match st with ApplyAfterReset => true | _ => false end)
              (evs ++ map (fun e => (X, fst e, snd e)) ev) Hps)
    as (nodes' & reset' & evs' & Hrun & Hnone & Hsome & _).
  destruct (Hsome X r1 (nm_get_insert_same _ _ _)) as (r' & Hr' & _ & Hle').
  exists nodes', reset', evs', r'. split; [exact Hrun|]. split; [exact Hr'|].
  split; [eapply lex_lt_le_trans; eauto|].
  intros i c Hc. destruct (id_dec X i) as [<-|Hne'].
  - rewrite Hget in Hc. injection Hc as <-. exists r'. split; [exact Hr'|].
    unfold frontier_le, lex_le_p. unfold lex_lt_p, lex_le_p in *. lia.
  - destruct (Hsome i c) as (c' & Hc' & _ & Hl); [rewrite nm_get_insert_other by exact Hne'; exact Hc|].
    exists c'. split; assumption.
Qed.

(* a non-empty piece carries an operation *)
Lemma nonempty_piece_has_op cs dg sched n j mv :
  In n (stale_nodes cs dg sched) -> nonempty_piece n j mv ->
  d_kvs (node_piece n j mv) <> [] \/ 0 < d_max (node_piece n j mv).
Proof.
  intros Hn [[Hne Hj]|[He ->]]; unfold node_piece; cbn [d_kvs d_max].
  - left. destruct (sorted_of n) as [|e l]; [congruence|]. destruct j; [lia|]. cbn. discriminate.
  - right. rewrite He. unfold stale_nodes in Hn. apply filter_map_in in Hn as ([i c] & _ & Hcand).
    destruct (stale_candidate_some _ _ _ _ Hcand) as (_ & Hcopy & _ & Hrest). cbn [fst snd] in *.
    destruct (match dg_get i dg with Some g => (g_gc g, g_max g) | None => (0, 0) end) as [dgc dmax].
    destruct Hrest as [Hlt _]. rewrite Hcopy. lia.
Qed.

(* ================= Part 3: a complete SYN / SYN-ACK exchange ================= *)
Section Handshake.
  Variable zc : bytes -> option bytes.
  Hypothesis zc_len : forall b c, zc b = Some c -> len c <= len b.

  (* what the initiator advertised about member X in its SYN digest: (watermark, max version),
     (0,0) when X is absent from the digest *)
  Definition advertised (dg : digest) (X : id) : N * N :=
    match dg_get X dg with Some g => (g_gc g, g_max g) | None => (0, 0) end.

  (* b answers a's SYN: the first stale member (in b's iteration order) whose header and first
     operation fit the budget gets a non-empty node delta at the head of the reply *)
  Theorem synack_offers_first_stale now b cluster dg ord b' dgb x evs n rest :
    node_inv b ->
    process_message zc now b (Syn cluster dg) ord = Ok (b', Some (SynAck dgb x), evs) ->
    let b1 := report_heartbeats_in_digest now (update_self_heartbeat b) dg in
    let sched := scheduled now b1 in
    let mtu := P_MAX_UDP - (P_RESERVE_SYNACK + digest_len (compute_digest (nd_cs b1) sched)) in
    arrange ord (stale_nodes (nd_cs b1) dg sched) = Some (n :: rest) ->
    P_MIN_MTU <= mtu -> room mtu n ->
    exists j mv ps dgc dmax,
      nds x = node_piece n j mv :: ps /\ nonempty_piece n j mv /\
      In n (stale_nodes (nd_cs b1) dg sched) /\
      advertised dg (sn_id n) = (dgc, dmax) /\
      mk_node_delta (sn_id n) (sn_copy n) dgc dmax j mv = Some (node_piece n j mv) /\
      Forall nd_bounded ps /\ dlen x <= mtu.
  Proof.
    intros Hinv Hrun b1 sched mtu Harr Hmin Hroom.
    unfold process_message in Hrun.
    destruct (negb (bytes_eqb cluster _)); [discriminate|].
    fold b1 in Hrun. fold sched in Hrun.
    destruct (P_MAX_UDP <? _) eqn:Eu; [discriminate|]. fold mtu in Hrun.
    unfold compute_delta in Hrun. rewrite Harr in Hrun.
    destruct (staleness_desc (n :: rest)); [|discriminate].
    unfold compute_delta_ordered, ds_with_mtu in Hrun.
    destruct (mtu <? P_MIN_MTU) eqn:Em; [apply N.ltb_lt in Em; lia|]. cbn [rbind] in Hrun.
    pose proof (update_self_heartbeat_inv b Hinv) as H0.
    pose proof (report_heartbeats_inv now dg _ H0) as H1. fold b1 in H1. destruct H1 as [Hs Hc].
    pose proof (arrange_perm _ _ _ Harr) as Hperm.
    assert (Hmax : mtu <= u16_max).
    { pose proof p_max_udp_le_u16. unfold mtu. lia. }
    assert (Hnd : NoDup (map sn_id (n :: rest))).
    { eapply Permutation_NoDup; [apply Permutation_map; exact Hperm|]. apply stale_nodes_nodup. exact Hs. }
    assert (Hnok : forall m, In m (n :: rest) -> node_ok m).
    { intros m Hm. unfold node_ok, sorted_of.
      apply (Permutation_in _ (Permutation_sym Hperm)) in Hm.
      unfold stale_nodes in Hm. apply filter_map_in in Hm as (e & He & Hcand).
      destruct (stale_candidate_some _ _ _ _ Hcand) as (_ & Hcopy & _).
      rewrite Hcopy. apply (asc_from_weaken (sn_from m)); [lia|].
      apply stale_sorted_strict. destruct e as [i c]. eapply Hc. exact He. }
    destruct (delta_loop_first zc zc_len n rest mtu Hmin Hmax Hnd Hnok Hroom)
      as (x0 & j & mv & ps & Hx0 & Hlen & Hnds & Hj & Hne & Hpieces).
    change (mkDS mtu new_builder (new_writer (N.min P_BLOCK_THRESHOLD mtu))) with (s_init mtu) in Hrun.
    rewrite Hx0 in Hrun. cbn [rmap] in Hrun. injection Hrun as _ _ <- _.
    assert (Hin : In n (stale_nodes (nd_cs b1) dg sched)).
    { apply (Permutation_in _ (Permutation_sym Hperm)). left. reflexivity. }
    destruct (node_piece_is_mk_node_delta (nd_cs b1) dg sched n j mv Hin) as (dgc & dmax & Hd & Hmk).
    exists j, mv, ps, dgc, dmax. split; [exact Hnds|]. split; [exact Hne|]. split; [exact Hin|].
    split; [exact Hd|]. split; [exact Hmk|]. split; [|exact Hlen].
    (* the remaining pieces are bounded *)
    assert (Hall : Forall nd_bounded (nds x0)).
    { apply Forall_forall. intros nd Hnd0.
      destruct (pieces_of_in _ _ Hpieces nd Hnd0) as (m & jm & mvm & Hm & -> & _).
      apply (Permutation_in _ (Permutation_sym Hperm)) in Hm.
      destruct (node_piece_is_mk_node_delta (nd_cs b1) dg sched m jm mvm Hm) as (g1 & g2 & _ & Hmk').
      eapply mk_node_delta_bounded. exact Hmk'. }
    rewrite Hnds in Hall. inversion Hall; assumption.
  Qed.

  (* a applies the SYN-ACK: if its copy of the offered member is as it advertised, that copy
     strictly advances and no copy of a moves back *)
  Theorem synack_applied_advances now a dgb x ord n j mv ps dgc dmax r :
    node_inv a -> delta_wf x ->
    let a1 := report_heartbeats_in_digest now (update_self_heartbeat a) dgb in
    nds x = node_piece n j mv :: ps ->
    mk_node_delta (sn_id n) (sn_copy n) dgc dmax j mv = Some (node_piece n j mv) ->
    (d_kvs (node_piece n j mv) <> [] \/ 0 < d_max (node_piece n j mv)) ->
    nm_get (sn_id n) (cs_nodes (nd_cs a1)) = Some r -> (c_gc r, c_max r) = (dgc, dmax) ->
    process_message zc now a (SynAck dgb x) ord = Err \/
    exists a' reply evs r',
      process_message zc now a (SynAck dgb x) ord = Ok (a', reply, evs) /\
      nm_get (sn_id n) (cs_nodes (nd_cs a')) = Some r' /\ frontier_lt r r' /\
      (forall i c, nm_get i (cs_nodes (nd_cs a1)) = Some c ->
                   exists c', nm_get i (cs_nodes (nd_cs a')) = Some c' /\ frontier_le c c').
  Proof.
    intros Hinv Hwf a1 Hnds Hmk Hop Hr Hadv. injection Hadv as <- <-.
    assert (Hps : Forall nd_bounded ps).
    { unfold delta_wf in Hwf. rewrite Hnds in Hwf. inversion Hwf as [|? ? _ Hw]; subst.
      eapply Forall_impl; [apply nd_wf_bounded|exact Hw]. }
    destruct (offer_applied_advances now (cs_nodes (nd_cs a1)) (sn_id n) (sn_copy n) r j mv _ ps false [] Hr Hmk Hop Hps)
      as (nodes' & reset' & evs' & r' & Hrun & Hr' & Hlt & Hmono).
    pose proof (update_self_heartbeat_inv a Hinv) as H0.
    pose proof (report_heartbeats_inv now dgb _ H0) as H1. fold a1 in H1.
    assert (Hpd : exists n2 evs2, process_delta now a1 x = Ok (n2, evs2) /\ cs_nodes (nd_cs n2) = nodes').
    { unfold process_delta, cluster_apply_delta. rewrite Hnds, Hrun. cbn [rmap].
      eexists _, _. split; [reflexivity|].
      destruct (reset' && cf_has_cb (nd_cfg a1)); reflexivity. }
    destruct Hpd as (n2 & evs2 & Hpd & Hnodes2).
    pose proof (process_delta_inv now a1 x n2 evs2 H1 Hwf Hpd) as H2.
    unfold process_message. fold a1. rewrite Hpd. cbn [rbind].
    pose proof p_max_udp_le_u16 as Hu.
    assert (Hmin : P_MIN_MTU <= P_MAX_UDP - P_RESERVE_ACK) by (vm_compute; discriminate).
    assert (Hbu : P_MAX_UDP - P_RESERVE_ACK <= u16_max) by (eapply N.le_trans; [apply N.le_sub_l|exact Hu]).
    destruct (compute_delta_spec zc zc_len (nd_cs n2) dgb (P_MAX_UDP - P_RESERVE_ACK) (scheduled now n2) ord H2 Hmin Hbu)
      as [He|(y & Hy & _)].
    - left. rewrite He. reflexivity.
    - right. rewrite Hy. cbn [rmap]. eexists _, _, _, r'. split; [reflexivity|].
      rewrite Hnodes2. auto.
  Qed.
  (* ---- the ACK direction: a answers the SYN-ACK with what b lacks ---- *)
  Theorem ack_offers_first_stale now a dgb x ord a' y evs n rest :
    node_inv a -> delta_wf x ->
    process_message zc now a (SynAck dgb x) ord = Ok (a', Some (Ack y), evs) ->
    let mtu := P_MAX_UDP - P_RESERVE_ACK in
    arrange ord (stale_nodes (nd_cs a') dgb (scheduled now a')) = Some (n :: rest) ->
    room mtu n ->
    exists j mv ps dgc dmax,
      nds y = node_piece n j mv :: ps /\ nonempty_piece n j mv /\
      In n (stale_nodes (nd_cs a') dgb (scheduled now a')) /\
      advertised dgb (sn_id n) = (dgc, dmax) /\
      mk_node_delta (sn_id n) (sn_copy n) dgc dmax j mv = Some (node_piece n j mv) /\
      Forall nd_bounded ps /\ dlen y <= mtu.
  Proof.
    intros Hinv Hwf Hrun mtu Harr Hroom.
    unfold process_message in Hrun.
    set (a1 := report_heartbeats_in_digest now (update_self_heartbeat a) dgb) in *.
    pose proof (update_self_heartbeat_inv a Hinv) as H0.
    pose proof (report_heartbeats_inv now dgb _ H0) as H1. fold a1 in H1.
    destruct (process_delta now a1 x) as [[a2 evs2]| |] eqn:Hpd; cbn [rbind] in Hrun; try discriminate.
    pose proof (process_delta_inv now a1 x a2 evs2 H1 Hwf Hpd) as H2.
    destruct (compute_delta zc (nd_cs a2) dgb (P_MAX_UDP - P_RESERVE_ACK) (scheduled now a2) ord) as [y0| |] eqn:Ey;
      cbn [rmap] in Hrun; try discriminate.
    injection Hrun as <- <- _.
    unfold compute_delta in Ey. rewrite Harr in Ey.
    destruct (staleness_desc (n :: rest)); [|discriminate].
    unfold compute_delta_ordered, ds_with_mtu in Ey.
    assert (Hmin : P_MIN_MTU <= P_MAX_UDP - P_RESERVE_ACK) by (vm_compute; discriminate).
    fold mtu in Ey, Hmin.
    destruct (mtu <? P_MIN_MTU) eqn:Em; [apply N.ltb_lt in Em; lia|]. cbn [rbind] in Ey.
    destruct H2 as [Hs Hc].
    pose proof (arrange_perm _ _ _ Harr) as Hperm.
    assert (Hmax : mtu <= u16_max) by (pose proof p_max_udp_le_u16; unfold mtu; lia).
    assert (Hnd : NoDup (map sn_id (n :: rest))).
    { eapply Permutation_NoDup; [apply Permutation_map; exact Hperm|]. apply stale_nodes_nodup. exact Hs. }
    assert (Hnok : forall m, In m (n :: rest) -> node_ok m).
    { intros m Hm. unfold node_ok, sorted_of.
      apply (Permutation_in _ (Permutation_sym Hperm)) in Hm.
      unfold stale_nodes in Hm. apply filter_map_in in Hm as (e & He & Hcand).
      destruct (stale_candidate_some _ _ _ _ Hcand) as (_ & Hcopy & _).
      rewrite Hcopy. apply (asc_from_weaken (sn_from m)); [lia|].
      apply stale_sorted_strict. destruct e as [i c]. eapply Hc. exact He. }
    destruct (delta_loop_first zc zc_len n rest mtu Hmin Hmax Hnd Hnok Hroom)
      as (x0 & j & mv & ps & Hx0 & Hlen & Hnds & Hj & Hne & Hpieces).
    change (mkDS mtu new_builder (new_writer (N.min P_BLOCK_THRESHOLD mtu))) with (s_init mtu) in Ey.
    rewrite Hx0 in Ey. injection Ey as <-.
    assert (Hin : In n (stale_nodes (nd_cs a2) dgb (scheduled now a2))).
    { apply (Permutation_in _ (Permutation_sym Hperm)). left. reflexivity. }
    destruct (node_piece_is_mk_node_delta (nd_cs a2) dgb (scheduled now a2) n j mv Hin) as (dgc & dmax & Hd & Hmk).
    exists j, mv, ps, dgc, dmax. split; [exact Hnds|]. split; [exact Hne|]. split; [exact Hin|].
    split; [exact Hd|]. split; [exact Hmk|]. split; [|exact Hlen].
    assert (Hall : Forall nd_bounded (nds x0)).
    { apply Forall_forall. intros nd Hnd0.
      destruct (pieces_of_in _ _ Hpieces nd Hnd0) as (m & jm & mvm & Hm & -> & _).
      apply (Permutation_in _ (Permutation_sym Hperm)) in Hm.
      destruct (node_piece_is_mk_node_delta (nd_cs a2) dgb (scheduled now a2) m jm mvm Hm) as (g1 & g2 & _ & Hmk').
      eapply mk_node_delta_bounded. exact Hmk'. }
    rewrite Hnds in Hall. inversion Hall; assumption.
  Qed.

  (* b applies the ACK: if its copy of the offered member is as its SYN-ACK digest advertised, that
     copy strictly advances and none moves back (an ACK is never answered) *)
  Theorem ack_applied_advances now b y n j mv ps dgc dmax r :
    delta_wf y ->
    let b0 := update_self_heartbeat b in
    nds y = node_piece n j mv :: ps ->
    mk_node_delta (sn_id n) (sn_copy n) dgc dmax j mv = Some (node_piece n j mv) ->
    (d_kvs (node_piece n j mv) <> [] \/ 0 < d_max (node_piece n j mv)) ->
    nm_get (sn_id n) (cs_nodes (nd_cs b0)) = Some r -> (c_gc r, c_max r) = (dgc, dmax) ->
    exists b' evs r',
      process_message zc now b (Ack y) [] = Ok (b', None, evs) /\
      nm_get (sn_id n) (cs_nodes (nd_cs b')) = Some r' /\ frontier_lt r r' /\
      (forall i c, nm_get i (cs_nodes (nd_cs b0)) = Some c ->
                   exists c', nm_get i (cs_nodes (nd_cs b')) = Some c' /\ frontier_le c c').
  Proof.
    intros Hwf b0 Hnds Hmk Hop Hr Hadv. injection Hadv as <- <-.
    assert (Hps : Forall nd_bounded ps).
    { unfold delta_wf in Hwf. rewrite Hnds in Hwf. inversion Hwf as [|? ? _ Hw]; subst.
      eapply Forall_impl; [apply nd_wf_bounded|exact Hw]. }
    destruct (offer_applied_advances now (cs_nodes (nd_cs b0)) (sn_id n) (sn_copy n) r j mv _ ps false [] Hr Hmk Hop Hps)
      as (nodes' & reset' & evs' & r' & Hrun & Hr' & Hlt & Hmono).
    unfold process_message. fold b0. unfold process_delta, cluster_apply_delta. rewrite Hnds, Hrun. cbn [rmap fst snd].
    eexists _, _, r'. split; [reflexivity|].
    destruct (reset' && cf_has_cb (nd_cfg b0)); cbn [nd_cs with_cs cs_nodes]; auto.
  Qed.
End Handshake.

(* ================= deliverability and the bounded measure ================= *)
(* b holds something deliverable for a digest exactly when some member it does not quarantine is
   ahead of what the digest advertises *)
Lemma stale_nodes_nonempty_iff cs dg sched :
  (exists n, In n (stale_nodes cs dg sched)) <->
  (exists X c, In (X, c) (cs_nodes cs) /\ in_ids X sched = false /\ snd (advertised dg X) < c_max c).
Proof.
  unfold stale_nodes, advertised. split.
  - intros (n & Hn). apply filter_map_in in Hn as ([i c] & He & Hcand).
    destruct (stale_candidate_some _ _ _ _ Hcand) as (_ & _ & Hs & Hrest). cbn [fst snd] in *.
    exists i, c. split; [exact He|]. split; [exact Hs|].
    destruct (dg_get i dg) as [g|]; cbn [snd]; destruct Hrest as [Hlt _]; exact Hlt.
  - intros (X & c & He & Hs & Hlt).
    assert (Hc : exists n, stale_candidate dg sched (X, c) = Some n).
    { unfold stale_candidate. rewrite Hs.
      destruct (dg_get X dg) as [g|]; cbn [snd] in Hlt.
      - assert (E : c_max c <=? g_max g = false) by (apply N.leb_gt; exact Hlt). rewrite E.
        unfold staleness_score.
        set (from := if (g_gc g <? c_gc c) && (g_max g <? c_gc c) then 0 else g_max g).
        assert (E2 : c_max c <=? from = false) by (apply N.leb_gt; unfold from; destruct (_ && _); lia).
        rewrite E2. eexists. reflexivity.
      - assert (E : c_max c <=? 0 = false) by (apply N.leb_gt; exact Hlt). rewrite E.
        unfold staleness_score.
        set (from := if (0 <? c_gc c) && (0 <? c_gc c) then 0 else 0).
        assert (E2 : c_max c <=? from = false) by (apply N.leb_gt; unfold from; destruct (_ && _); lia).
        rewrite E2. eexists. reflexivity. }
    destruct Hc as (n & Hn). exists n.
    clear - He Hn. induction (cs_nodes cs) as [|e l IH]; [destruct He|]. cbn [filter_map].
    destruct He as [->|He].
    + rewrite Hn. left. reflexivity.
    + destruct (stale_candidate dg sched e); [right|]; apply IH; exact He.
Qed.

(* the frontier as one number, for a bound V on versions *)
Definition frontier_measure (V : N) (c : copy) : N := c_gc c * (V + 1) + c_max c.

Lemma frontier_measure_lt V c c' :
  frontier_lt c c' -> c_max c <= V -> c_max c' <= V -> frontier_measure V c < frontier_measure V c'.
Proof. unfold frontier_lt, lex_lt_p, monotonic_property, frontier_measure. cbn [fst snd]. nia. Qed.

Lemma frontier_measure_le V c c' :
  frontier_le c c' -> c_max c <= V -> c_max c' <= V -> frontier_measure V c <= frontier_measure V c'.
Proof. unfold frontier_le, lex_le_p, monotonic_property, frontier_measure. cbn [fst snd]. nia. Qed.

Lemma frontier_measure_bound V c : c_gc c <= V -> c_max c <= V -> frontier_measure V c <= V * (V + 1) + V.
Proof. unfold frontier_measure. nia. Qed.

Lemma nd_normal_wf nd : Codec_lemmas.nd_normal nd -> nd_wf nd.
Proof.
  intros [Ha Hm]. split; [exact Ha|]. destruct (d_kvs nd) eqn:E; [cbn; lia|].
  rewrite Hm by discriminate. lia.
Qed.
