(* NodeInv.v — the cluster-state invariant (member map sorted, every copy well-formed) is preserved
   by every operation of a node; with it, message processing never aborts (C09) and replies fit
   the datagram (C07). *)
From Coq Require Import Lia Permutation.
From ChitchatModel Require Import Base SMap Ids Bytes Params NodeState Stream DeltaWire Message Cluster
  FD Chitchat World SMap_lemmas NodeState_lemmas Builder_lemmas Stream_lemmas Cluster_lemmas
  Chitchat_lemmas Agreement Inv DeltaRefine Compute_lemmas.

Definition node_inv (n : node) : Prop := cluster_inv (nd_cs n).

Lemma nm_insert_sorted i c m : nsorted m -> nsorted (nm_insert i c m).
Proof. apply (sm_insert_sorted id_cmp id_cmp_eq id_cmp_antisym id_cmp_trans). Qed.
Lemma nm_remove_sorted i m : nsorted m -> nsorted (nm_remove i m).
Proof. apply (sm_remove_sorted id_cmp id_cmp_trans). Qed.
Lemma in_nm_insert i c x m : In x (nm_insert i c m) -> x = (i, c) \/ In x m.
Proof. apply (in_sm_insert id_cmp). Qed.
Lemma nm_get_in i c m : nm_get i m = Some c -> In (i, c) m.
Proof. apply (sm_get_in id_cmp id_cmp_eq). Qed.

Lemma cluster_inv_insert cs i c :
  cluster_inv cs -> copy_inv c -> cluster_inv (mkCluster (nm_insert i c (cs_nodes cs)) (cs_gcn cs)).
Proof.
  intros [Hs Hc] Hi. split; cbn [cs_nodes].
  - apply nm_insert_sorted. exact Hs.
  - intros j d Hin. apply in_nm_insert in Hin as [E|Hin]; [injection E as -> ->; exact Hi|eauto].
Qed.

Lemma cluster_inv_gcn cs g : cluster_inv cs -> cluster_inv (mkCluster (cs_nodes cs) g).
Proof. intros [Hs Hc]. split; auto. Qed.

Lemma new_cluster_inv : cluster_inv new_cluster.
Proof. split; cbn; [exact I|intros i c []]. Qed.

Lemma node_state_mut_or_init_inv cs i : cluster_inv cs -> cluster_inv (node_state_mut_or_init cs i).
Proof.
  intros H. unfold node_state_mut_or_init. destruct (nm_get i (cs_nodes cs)); [exact H|].
  apply (cluster_inv_insert (mkCluster (cs_nodes cs) (lru_pop i (cs_gcn cs))));
    [apply cluster_inv_gcn; exact H|apply new_copy_inv].
Qed.

Lemma update_copy_inv cs i f :
  cluster_inv cs -> (forall c, copy_inv c -> copy_inv (f c)) -> cluster_inv (update_copy cs i f).
Proof.
  intros H Hf. unfold update_copy. destruct (nm_get i (cs_nodes cs)) as [c|] eqn:E; [|exact H].
  apply cluster_inv_insert; [exact H|]. apply Hf. eapply (cli_copies cs H). apply nm_get_in. exact E.
Qed.

Lemma update_self_heartbeat_inv n : node_inv n -> node_inv (update_self_heartbeat n).
Proof.
  intros H. unfold node_inv, update_self_heartbeat. cbn [nd_cs with_cs].
  apply update_copy_inv; [apply node_state_mut_or_init_inv; exact H|apply inc_heartbeat_inv].
Qed.

Lemma report_heartbeat_inv now n i hb : node_inv n -> node_inv (report_heartbeat now n i hb).
Proof.
  intros H. unfold report_heartbeat. destruct (id_eqb i (self_id n)); [exact H|].
  match goal with |- context [nm_get i (cs_nodes ?c0)] => set (cs := c0) end.
  assert (Hcs : cluster_inv cs).
  { unfold cs. destruct (match last_heartbeat_if_deleted (nd_cs n) i with Some _ => _ | None => _ end);
      [apply node_state_mut_or_init_inv; exact H|exact H]. }
  destruct (nm_get i (cs_nodes cs)) as [c|] eqn:E; [|exact Hcs].
  destruct (try_set_heartbeat c hb) as [c' fresh] eqn:Et.
  assert (Hn1 : cluster_inv (mkCluster (nm_insert i c' (cs_nodes cs)) (cs_gcn cs))).
  { apply cluster_inv_insert; [exact Hcs|]. change c' with (fst (c', fresh)). rewrite <- Et.
    apply try_set_heartbeat_inv. eapply (cli_copies cs Hcs). apply nm_get_in. exact E. }
  destruct fresh; exact Hn1.
Qed.

Lemma report_heartbeats_inv now d : forall n, node_inv n -> node_inv (report_heartbeats_in_digest now n d).
Proof.
  unfold report_heartbeats_in_digest. induction d as [|e d IH]; intros n H; cbn [fold_left]; [exact H|].
  apply IH. apply report_heartbeat_inv. exact H.
Qed.

Lemma cluster_apply_nds_inv now : forall l nodes reset evs nodes' reset' evs',
  nsorted nodes -> (forall i c, In (i, c) nodes -> copy_inv c) -> Forall nd_wf l ->
  cluster_apply_nds now nodes l reset evs = Ok (nodes', reset', evs') ->
  nsorted nodes' /\ (forall i c, In (i, c) nodes' -> copy_inv c).
Proof.
  induction l as [|nd r IH]; intros nodes reset evs nodes' reset' evs' Hs Hc Hwf; cbn [cluster_apply_nds].
  - intros [= <- _ _]. auto.
  - inversion Hwf as [|? ? Hnd Hr]; subst.
    destruct (nm_get (d_id nd) nodes) as [c|] eqn:E; [|apply IH; auto].
    destruct (apply_delta now c nd) as [[[c1 st] ev]| |] eqn:Ea; try discriminate.
    destruct (lex_le _ _); [|discriminate].
    apply IH; auto.
    + apply nm_insert_sorted. exact Hs.
    + intros j d Hin. apply in_nm_insert in Hin as [Eq|Hin]; [|eauto].
      injection Eq as -> ->. eapply apply_delta_inv; [|exact Hnd|exact Ea].
      eapply Hc. apply nm_get_in. exact E.
Qed.

Lemma process_delta_inv now n x n' evs :
  node_inv n -> delta_wf x -> process_delta now n x = Ok (n', evs) -> node_inv n'.
Proof.
  intros [Hs Hc] Hwf. unfold process_delta, cluster_apply_delta.
  destruct (cluster_apply_nds now (cs_nodes (nd_cs n)) (nds x) false []) as [[[nodes' reset'] evs']| |] eqn:E;
    cbn [rmap]; try discriminate.
  destruct (cluster_apply_nds_inv now _ _ _ _ _ _ _ Hs Hc Hwf E) as [Hs' Hc'].
  intros [= <- _]. unfold node_inv. destruct (reset' && cf_has_cb (nd_cfg n)); cbn [nd_cs with_cs]; split; assumption.
Qed.

Lemma map_values_sorted (f : id * copy -> copy) (m : nmap) :
  nsorted m -> nsorted (map (fun e => (fst e, f e)) m).
Proof.
  induction m as [|[k v] r IH]; [auto|]. intros Hs.
  destruct r as [|[k1 v1] r1]; [cbn; auto|].
  cbn in Hs |- *. destruct Hs as [H1 H2]. split; [exact H1|]. apply IH. exact H2.
Qed.

Lemma gc_keys_inv now n : node_inv n -> node_inv (gc_keys now n).
Proof.
  intros [Hs Hc]. unfold node_inv, gc_keys, cluster_gc. cbn [nd_cs with_cs]. split; cbn [cs_nodes].
  - apply (map_values_sorted (fun e => gc_keys_marked_for_deletion now (cf_grace (nd_cfg n)) (snd e))). exact Hs.
  - intros i c Hin. apply in_map_iff in Hin as ([j d] & Heq & Hin). cbn in Heq. injection Heq as <- <-.
    apply gc_inv. eauto.
Qed.

Lemma remove_node_inv cs i : cluster_inv cs -> cluster_inv (remove_node cs i).
Proof.
  intros [Hs Hc]. unfold remove_node. destruct (nm_get i (cs_nodes cs)); [|split; assumption].
  split; cbn [cs_nodes].
  - apply nm_remove_sorted. exact Hs.
  - intros j d Hin. apply (in_sm_remove id_cmp) in Hin. eauto.
Qed.

Lemma fold_remove_inv self (l : list id) : forall cs,
  cluster_inv cs ->
  cluster_inv (fold_left (fun cs i => if id_eqb i self then cs else remove_node cs i) l cs).
Proof.
  induction l as [|i r IH]; intros cs H; cbn [fold_left]; [exact H|].
  apply IH. destruct (id_eqb i self); [exact H|apply remove_node_inv; exact H].
Qed.

Lemma update_nodes_liveness_inv now n oracle : node_inv n -> node_inv (update_nodes_liveness now n oracle).
Proof.
  intros H. unfold node_inv, update_nodes_liveness. cbv zeta.
  destruct (fd_garbage_collect _ _ _) as [f2 collected]. cbn [nd_cs].
  apply fold_remove_inv. exact H.
Qed.

Lemma on_own_inv n f : node_inv n -> (forall c, copy_inv c -> copy_inv (fst (f c))) -> node_inv (fst (on_own n f)).
Proof.
  intros H Hf. unfold on_own.
  pose proof (node_state_mut_or_init_inv (nd_cs n) (self_id n) H) as H1.
  destruct (nm_get (self_id n) (cs_nodes (node_state_mut_or_init (nd_cs n) (self_id n)))) as [c|] eqn:E; [|exact H].
  destruct (f c) as [c' evs] eqn:Ef. cbn [fst]. unfold node_inv. cbn [nd_cs with_cs].
  apply cluster_inv_insert; [exact H1|]. change c' with (fst (c', evs)). rewrite <- Ef. apply Hf.
  eapply (cli_copies _ H1). apply nm_get_in. exact E.
Qed.

Lemma new_node_inv cfg initial : node_inv (new_node cfg initial).
Proof.
  unfold new_node. set (n0 := mkNode cfg new_cluster new_fd [] [] 0 0).
  assert (H0 : node_inv n0) by apply new_cluster_inv.
  pose proof (update_self_heartbeat_inv n0 H0) as H1.
  unfold node_inv. cbn [nd_cs with_cs]. apply update_copy_inv; [exact H1|].
  intros c. revert c. induction initial as [|[k v] r IH]; intros c Hc; cbn [set_all]; [exact Hc|].
  apply IH. apply set_inv. exact Hc.
Qed.

Definition msg_wf (m : message) : Prop :=
  match m with
  | SynAck _ x | Ack x => delta_wf x
  | _ => True
  end.

Lemma p_max_udp_le_u16 : P_MAX_UDP <= u16_max.
Proof. vm_compute. discriminate. Qed.

Section Proc.
  Variable zc : bytes -> option bytes.
  Hypothesis zc_len : forall b c, zc b = Some c -> len c <= len b.

  (* bytes taken by the header reserve and the node's own digest in a SYN-ACK *)
  Definition synack_used (now : Z) (n : node) (dg : digest) : N :=
    let n1 := report_heartbeats_in_digest now (update_self_heartbeat n) dg in
    P_RESERVE_SYNACK + digest_len (compute_digest (nd_cs n1) (scheduled now n1)).

  (* C09 / C07: for every well-formed node, every grammar-valid message and every shuffle
     outcome: no abort; the invariant is re-established; a reply delta stays within its budget.
     Premise for a same-cluster SYN: the own digest leaves at least P_MIN_MTU (=100) bytes. *)
  Theorem process_message_total now n m ord :
    node_inv n -> msg_wf m ->
    (forall c dg, m = Syn c dg -> c = cf_cluster (nd_cfg n) ->
                  synack_used now n dg + P_MIN_MTU <= P_MAX_UDP) ->
    process_message zc now n m ord = Err \/
    exists n' reply evs, process_message zc now n m ord = Ok (n', reply, evs) /\ node_inv n' /\
      match reply with
      | Some (SynAck d x) => P_RESERVE_SYNACK + digest_len d + dlen x <= P_MAX_UDP
      | Some (Ack x) => P_RESERVE_ACK + dlen x <= P_MAX_UDP
      | _ => True
      end.
  Proof.
    intros Hinv Hwf Hroom. unfold process_message.
    pose proof (update_self_heartbeat_inv n Hinv) as H0.
    pose proof p_max_udp_le_u16 as Hu.
    destruct m as [cluster dg|dg x|x|].
    - (* SYN *)
      destruct (negb (bytes_eqb cluster (cf_cluster (nd_cfg (update_self_heartbeat n))))) eqn:Ec.
      + right. eexists _, _, _. split; [reflexivity|]. split; [exact H0|exact I].
      + apply negb_false_iff in Ec. apply bytes_eqb_eq in Ec.
        pose proof (Hroom cluster dg eq_refl Ec) as Hr. unfold synack_used in Hr. cbv zeta in Hr.
        set (n1 := report_heartbeats_in_digest now (update_self_heartbeat n) dg) in *.
        pose proof (report_heartbeats_inv now dg _ H0) as H1. fold n1 in H1.
        set (used := P_RESERVE_SYNACK + digest_len (compute_digest (nd_cs n1) (scheduled now n1))) in *.
        assert (Hul : used <= P_MAX_UDP) by (eapply N.le_trans; [apply N.le_add_r|exact Hr]).
        assert (Eu : P_MAX_UDP <? used = false) by (apply N.ltb_ge; exact Hul).
        rewrite Eu.
        assert (Hmin : P_MIN_MTU <= P_MAX_UDP - used) by (apply N.le_add_le_sub_l; exact Hr).
        assert (Hbu : P_MAX_UDP - used <= u16_max) by (eapply N.le_trans; [apply N.le_sub_l|exact Hu]).
        destruct (compute_delta_spec zc zc_len (nd_cs n1) dg (P_MAX_UDP - used) (scheduled now n1) ord H1 Hmin Hbu)
          as [He|(x & Hx & Hsh)].
        * left. rewrite He. reflexivity.
        * right. rewrite Hx. cbn [rmap]. eexists _, _, _. split; [reflexivity|].
          split; [exact H1|]. destruct Hsh as [Hl _]. fold used.
          eapply N.le_trans; [apply N.add_le_mono_l; exact Hl|].
          rewrite N.add_comm. rewrite N.sub_add by exact Hul. apply N.le_refl.
    - (* SYN-ACK *)
      set (n1 := report_heartbeats_in_digest now (update_self_heartbeat n) dg).
      pose proof (report_heartbeats_inv now dg _ H0) as H1. fold n1 in H1.
      assert (Hb : Forall nd_bounded (nds x)) by (eapply Forall_impl; [apply nd_wf_bounded|exact Hwf]).
      destruct (process_delta_spec now n1 x Hb) as (n2 & evs & Hpd & _).
      rewrite Hpd. cbn [rbind].
      pose proof (process_delta_inv now n1 x n2 evs H1 Hwf Hpd) as H2.
      assert (Hmin : P_MIN_MTU <= P_MAX_UDP - P_RESERVE_ACK) by (vm_compute; discriminate).
      assert (Hbu : P_MAX_UDP - P_RESERVE_ACK <= u16_max) by (eapply N.le_trans; [apply N.le_sub_l|exact Hu]).
      destruct (compute_delta_spec zc zc_len (nd_cs n2) dg (P_MAX_UDP - P_RESERVE_ACK) (scheduled now n2) ord H2 Hmin Hbu)
        as [He|(y & Hy & Hsh)].
      + left. rewrite He. reflexivity.
      + right. rewrite Hy. cbn [rmap]. eexists _, _, _. split; [reflexivity|]. split; [exact H2|].
        destruct Hsh as [Hl _].
        assert (Hra : P_RESERVE_ACK <= P_MAX_UDP) by (vm_compute; discriminate).
        eapply N.le_trans; [apply N.add_le_mono_l; exact Hl|].
        rewrite N.add_comm. rewrite N.sub_add by exact Hra. apply N.le_refl.
    - (* ACK *)
      assert (Hb : Forall nd_bounded (nds x)) by (eapply Forall_impl; [apply nd_wf_bounded|exact Hwf]).
      destruct (process_delta_spec now (update_self_heartbeat n) x Hb) as (n2 & evs & Hpd & _).
      rewrite Hpd. cbn [rmap]. right. eexists _, _, _. split; [reflexivity|].
      split; [|exact I]. eapply process_delta_inv; eauto.
    - right. eexists _, _, _. split; [reflexivity|]. split; [exact H0|exact I].
  Qed.
End Proc.
