(* Listener_lemmas.v — the range scan of listener dispatch visits exactly the subscriptions whose
   prefix is a prefix of the key (C15). *)
From Coq Require Import Lia.
From ChitchatModel Require Import Base SMap Bytes Listener SMap_lemmas.

Lemma strip_prefix_app p s r : strip_prefix p s = Some r <-> s = p ++ r.
Proof.
  revert s. induction p as [|x p IH]; intros s; cbn.
  - split; [intros [= ->]; reflexivity|intros ->; reflexivity].
  - destruct s as [|y s]; [split; [discriminate|discriminate]|].
    destruct (b2n x =? b2n y) eqn:E.
    + apply N.eqb_eq in E. apply b2n_inj in E. subst y. rewrite IH. split; [intros ->; reflexivity|intros [= ->]; reflexivity].
    + split; [discriminate|]. intros [= -> _]. rewrite N.eqb_refl in E. discriminate.
Qed.

Lemma le_b_prefix p r : le_b p (p ++ r) = true.
Proof.
  unfold le_b. induction p as [|x p IH]; cbn; [destruct r; reflexivity|].
  rewrite N.compare_refl. exact IH.
Qed.

Lemma le_b_nonempty_nil x l : le_b (x :: l) [] = false.
Proof. reflexivity. Qed.

(* a string that holds its complete first character: true of every valid UTF-8 string *)
Definition complete_first_char (p : bytes) : Prop := (first_char_len p <= length p)%nat.

Lemma utf8_valid_complete_first_char p : utf8_valid p = true -> complete_first_char p.
Proof.
  unfold complete_first_char, first_char_len. destruct p as [|b0 r]; [cbn; lia|].
  cbn [utf8_valid length]. destruct (b2n b0 <? 128) eqn:E1; [lia|].
  unfold in_range. apply N.ltb_ge in E1.
  destruct ((194 <=? b2n b0) && (b2n b0 <=? 223)) eqn:E2.
  - apply andb_true_iff in E2 as [_ E2]. apply N.leb_le in E2.
    destruct (b2n b0 <? 224) eqn:E3; [|apply N.ltb_ge in E3; lia].
    destruct r as [|b1 r1]; [discriminate|]. cbn [length]. lia.
  - destruct ((224 <=? b2n b0) && (b2n b0 <=? 239)) eqn:E3.
    + apply andb_true_iff in E3 as [E3a E3b]. apply N.leb_le in E3a, E3b.
      destruct (b2n b0 <? 224) eqn:E4; [apply N.ltb_lt in E4; lia|].
      destruct (b2n b0 <? 240) eqn:E5; [|apply N.ltb_ge in E5; lia].
      destruct r as [|b1 [|b2 r2]]; try discriminate. cbn [length]. lia.
    + destruct ((240 <=? b2n b0) && (b2n b0 <=? 244)) eqn:E4; [|discriminate].
      apply andb_true_iff in E4 as [E4a E4b]. apply N.leb_le in E4a, E4b.
      destruct (b2n b0 <? 224) eqn:E5; [apply N.ltb_lt in E5; lia|].
      destruct (b2n b0 <? 240) eqn:E6; [apply N.ltb_lt in E6; lia|].
      destruct r as [|b1 [|b2 [|b3 r3]]]; try discriminate. cbn [length]. lia.
Qed.

Lemma first_char_len_app p r : p <> [] -> first_char_len (p ++ r) = first_char_len p.
Proof. destruct p; [congruence|reflexivity]. Qed.

(* the lower bound of the range scan is at most every non-empty prefix of the key *)
Lemma lower_bound_le_prefix p r :
  p <> [] -> complete_first_char p ->
  le_b (firstn (first_char_len (p ++ r)) (p ++ r)) p = true.
Proof.
  intros Hne Hc. rewrite first_char_len_app by exact Hne.
  unfold complete_first_char in Hc.
  rewrite firstn_app. replace (first_char_len p - length p)%nat with 0%nat by lia.
  cbn [firstn]. rewrite app_nil_r.
  pose proof (le_b_prefix (firstn (first_char_len p) p) (skipn (first_char_len p) p)) as H.
  rewrite firstn_skipn in H. exact H.
Qed.

Definition calls_of (key value : bytes) (e : bytes * list N) : list call :=
  match strip_prefix (fst e) key with
  | Some k' => map (fun i => (i, k', value)) (snd e)
  | None => []
  end.

Lemma expected_calls_eq m key value : expected_calls m key value = flat_map (calls_of key value) m.
Proof. reflexivity. Qed.

Definition prefixes_ok (m : lmap) : Prop := forall p ids, In (p, ids) m -> complete_first_char p.

Lemma get_nil_none (l : lmap) : (forall q i, In (q, i) l -> q <> []) -> lm_get [] l = None.
Proof.
  induction l as [|[q i] l IH]; intros Hall; [reflexivity|].
  unfold lm_get in *. cbn [sm_get].
  destruct q as [|y q]; [exfalso; eapply Hall; [left; reflexivity|reflexivity]|].
  cbn [bytes_cmp]. apply IH. intros q' i' Hin. eapply Hall. right. exact Hin.
Qed.

Lemma calls_nil_none value (l : lmap) :
  (forall q i, In (q, i) l -> q <> []) -> flat_map (calls_of [] value) l = [].
Proof.
  induction l as [|[q i] l IH]; intros Hall; [reflexivity|]. cbn [flat_map].
  rewrite IH by (intros ? ? H; eapply Hall; right; exact H).
  unfold calls_of. cbn. destruct q; [exfalso; eapply Hall; [left; reflexivity|reflexivity]|reflexivity].
Qed.

Lemma lm_get_nil_head (m : lmap) :
  sm_sorted bytes_cmp m ->
  match m with
  | ([], ids) :: r => lm_get [] m = Some ids /\ (forall p i, In (p, i) r -> p <> [])
  | _ => lm_get [] m = None /\ (forall p i, In (p, i) m -> p <> [])
  end.
Proof.
  intros Hs. destruct m as [|[p ids] r]; [split; [reflexivity|intros ? ? []]|].
  apply (sorted_cons_iff bytes_cmp bytes_cmp_trans) in Hs as [Hab Hs].
  destruct p as [|x p].
  - split; [reflexivity|]. intros q i Hin ->. specialize (Hab _ _ Hin). cbn in Hab. discriminate.
  - assert (Hall : forall q i, In (q, i) ((x :: p, ids) :: r) -> q <> []).
    { intros q i [E|Hin]; [injection E as <- _; discriminate|].
      intros ->. specialize (Hab _ _ Hin). cbn in Hab. discriminate. }
    split; [|exact Hall]. apply get_nil_none. exact Hall.
Qed.

(* the dispatch function on entries with a non-empty prefix *)
Lemma range_part_eq key value (l : lmap) :
  key <> [] ->
  (forall p i, In (p, i) l -> p <> [] /\ complete_first_char p) ->
  flat_map (fun e : bytes * list N =>
              if le_b (firstn (first_char_len key) key) (fst e) && le_b (fst e) key then
                match strip_prefix (fst e) key with
                | Some k' => map (fun i => (i, k', value)) (snd e)
                | None => []
                end
              else []) l
  = flat_map (calls_of key value) l.
Proof.
  intros Hk. induction l as [|[p ids] r IH]; intros Hall; [reflexivity|].
  cbn [flat_map fst snd]. rewrite IH by (intros q i Hin; apply (Hall q i); right; exact Hin). f_equal.
  unfold calls_of. cbn [fst snd].
  destruct (strip_prefix p key) as [k'|] eqn:Es; [|destruct (_ && _); reflexivity].
  apply strip_prefix_app in Es. subst key.
  destruct (Hall p ids (or_introl eq_refl)) as [Hne Hc].
  rewrite (lower_bound_le_prefix p k' Hne Hc), le_b_prefix. reflexivity.
Qed.

Lemma lower_bound_nonempty k0 k : le_b (firstn (first_char_len (k0 :: k)) (k0 :: k)) [] = false.
Proof.
  unfold first_char_len. destruct (b2n k0 <? 128); [reflexivity|].
  destruct (b2n k0 <? 224); [reflexivity|]. destruct (b2n k0 <? 240); reflexivity.
Qed.

(* C15: for every sorted subscription map whose prefixes are valid UTF-8 (hold their complete
   first character), every key and value: the calls made are exactly the expected ones — each
   subscription whose prefix is a prefix of the key once, with the key stripped, no other. *)
Theorem dispatch_exact m key value :
  sm_sorted bytes_cmp m -> prefixes_ok m ->
  trigger_event m key value = expected_calls m key value.
Proof.
  intros Hs Hok. rewrite expected_calls_eq. unfold trigger_event.
  pose proof (lm_get_nil_head m Hs) as Hhead.
  destruct key as [|k0 key'].
  - (* empty key: only the empty prefix matches *)
    destruct m as [|[p ids] r]; [reflexivity|]. destruct p as [|x p].
    + destruct Hhead as [Hg Hr]. rewrite Hg. cbn [flat_map]. unfold calls_of at 1. cbn [fst snd strip_prefix].
      rewrite (calls_nil_none value r Hr), app_nil_r. reflexivity.
    + destruct Hhead as [Hg Hr]. rewrite Hg. symmetry. apply calls_nil_none. exact Hr.
  - set (key := k0 :: key') in *.
    assert (Hk : key <> []) by discriminate.
    destruct m as [|[p ids] r]; [reflexivity|]. destruct p as [|x p].
    + destruct Hhead as [Hg Hr]. rewrite Hg. cbn [flat_map]. unfold calls_of at 1. cbn [fst snd strip_prefix].
      f_equal. cbn [fst]. unfold key at 1 2. rewrite lower_bound_nonempty. cbn [andb app].
      apply range_part_eq; [exact Hk|]. intros q i Hin. split; [eapply Hr; exact Hin|].
      eapply Hok. right. exact Hin.
    + destruct Hhead as [Hg Hr]. rewrite Hg. cbn [app].
      apply range_part_eq; [exact Hk|]. intros q i Hin. split; [eapply Hr; exact Hin|eapply Hok; exact Hin].
Qed.

(* subscriptions keep the map sorted and (for valid prefixes) well-formed *)
Lemma subscribe_sorted m p lid : sm_sorted bytes_cmp m -> sm_sorted bytes_cmp (subscribe m p lid).
Proof.
  intros Hs. unfold subscribe. destruct (lm_get p m);
    apply (sm_insert_sorted bytes_cmp bytes_cmp_eq bytes_cmp_antisym bytes_cmp_trans); exact Hs.
Qed.
Lemma unsubscribe_sorted m p lid : sm_sorted bytes_cmp m -> sm_sorted bytes_cmp (unsubscribe m p lid).
Proof.
  intros Hs. unfold unsubscribe. destruct (lm_get p m); [|exact Hs].
  apply (sm_insert_sorted bytes_cmp bytes_cmp_eq bytes_cmp_antisym bytes_cmp_trans); exact Hs.
Qed.
Lemma subscribe_prefixes_ok m p lid : prefixes_ok m -> complete_first_char p -> prefixes_ok (subscribe m p lid).
Proof.
  intros Hok Hp q ids Hin. unfold subscribe in Hin.
  destruct (lm_get p m); apply (in_sm_insert bytes_cmp) in Hin as [E|Hin];
    try (injection E as -> _; exact Hp); eapply Hok; exact Hin.
Qed.
Lemma unsubscribe_prefixes_ok m p lid : prefixes_ok m -> prefixes_ok (unsubscribe m p lid).
Proof.
  intros Hok q ids Hin. unfold unsubscribe in Hin. destruct (lm_get p m) as [l|] eqn:E; [|eapply Hok; exact Hin].
  apply (in_sm_insert bytes_cmp) in Hin as [E1|Hin]; [|eapply Hok; exact Hin].
  injection E1 as -> _. apply (sm_get_in bytes_cmp bytes_cmp_eq) in E. eapply Hok. exact E.
Qed.
