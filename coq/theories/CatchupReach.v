(* CatchupReach.v — the global relation extended with HONEST external catch-ups: besides every
   step of [gstep zc true] (Reach.v), a node may at any time be fed, through
   reset_node_state_if_update, a state of member X that some node could hold — a "snapshot":
   integral and exact relative to the truth ([snap_ok]).  Every copy any node holds in a reachable
   state is such a snapshot, and a snapshot stays one however long it is kept (the truth only
   grows), so "fetch the state from a peer, now or a while ago, and feed it" is covered.
   The invariants behind C02, C03 and C05 (GInvE: integrity, owner in sync, exactness of every
   copy and of every node delta in flight) hold in every state reachable this way. *)
From Coq Require Import Lia.
From ChitchatModel Require Import Base SMap Ids Bytes Params NodeState Stream DeltaWire Message Cluster
  FD Chitchat World Monitors SMap_lemmas NodeState_lemmas Builder_lemmas Cluster_lemmas Chitchat_lemmas
  Inv Compute_lemmas NodeInv Truth NodeTruth Weak Exact Quiet Catchup_lemmas Reach ReachExact.

(* ---- the two outcomes of the entry point when fed a snapshot ---- *)
Lemma catchup_node_cases n i s n' evs :
  reset_node_state_if_update n i (c_kvs s) (c_max s) (c_gc s) = Ok (n', evs) ->
  exists cs, (cs = nd_cs n \/ cs = node_state_mut_or_init (nd_cs n) i) /\
    ((n' = with_cs n cs /\ evs = []) \/
     exists c, nm_get i (cs_nodes cs) = Some c /\ c_max c < c_max s /\ c_gc c <= c_max s /\
       n' = with_fd (with_cs n (mkCluster (nm_insert i (catchup_copy c s) (cs_nodes cs)) (cs_gcn cs)))
                    (fd_get_or_create (nd_fd n) i)).
Proof.
  unfold reset_node_state_if_update.
  set (should_init := match last_heartbeat_if_deleted (nd_cs n) i with None => true | Some _ => false end).
  set (cs := if should_init then node_state_mut_or_init (nd_cs n) i else nd_cs n).
  intros Hrun. exists cs. split; [unfold cs; destruct should_init; auto|].
  destruct (nm_get i (cs_nodes cs)) as [c|] eqn:Ec; [|injection Hrun as <- <-; left; split; reflexivity].
  destruct (c_max s <=? c_max c) eqn:E1; [injection Hrun as <- <-; left; split; reflexivity|].
  destruct (c_max s <? c_gc c) eqn:E2; [injection Hrun as <- <-; left; split; reflexivity|].
  apply N.leb_gt in E1. apply N.ltb_ge in E2.
  destruct (set_many c (c_kvs s) []) as [c1 evs1] eqn:Es.
  destruct (lex_lt _ _); [|discriminate]. injection Hrun as <- _.
  right. exists c. split; [reflexivity|]. split; [exact E1|]. split; [exact E2|].
  unfold catchup_copy. rewrite Es. reflexivity.
Qed.

(* ---- per-node bundle: what GInvE says of one node ---- *)
Record NX (T : truth) (n : node) : Prop := mkNX {
  nx_ni : NI T n;
  nx_gc : own_gc_ok n;
  nx_exact : node_exact T n
}.

Lemma nx_mut_or_init T n i : t_wf T -> NX T n -> NX T (with_cs n (node_state_mut_or_init (nd_cs n) i)).
Proof.
  intros Hwf [[Hinv Hint (co & Hco & Hm & Hh)] Hgc Hex].
  assert (Hget : forall X c, nm_get X (cs_nodes (node_state_mut_or_init (nd_cs n) i)) = Some c ->
            nm_get X (cs_nodes (nd_cs n)) = Some c \/ c = new_copy).
  { intros X c Hc. rewrite mut_or_init_get in Hc. destruct (nm_get X (cs_nodes (nd_cs n))) as [c0|]; [left; exact Hc|].
    destruct (id_eqb X i); [injection Hc as <-; right; reflexivity|discriminate]. }
  assert (Hown : nm_get (self_id n) (cs_nodes (node_state_mut_or_init (nd_cs n) i)) = Some co).
  { rewrite mut_or_init_get, Hco. reflexivity. }
  split; [split| |].
  - unfold node_inv. cbn [nd_cs with_cs]. apply node_state_mut_or_init_inv. exact Hinv.
  - intros X c Hc. cbn [nd_cs with_cs] in Hc. destruct (Hget X c Hc) as [H| ->]; [apply (Hint X c H)|apply new_copy_int].
  - exists co. split; [exact Hown|]. split; assumption.
  - intros c Hc. unfold self_id in Hc. cbn [nd_cs with_cs nd_cfg] in Hc. fold (self_id n) in Hc. rewrite Hown in Hc. injection Hc as <-.
    apply (Hgc co Hco).
  - intros X c Hc. cbn [nd_cs with_cs] in Hc. destruct (Hget X c Hc) as [H| ->]; [apply (Hex X c H)|].
    split; [apply new_copy_hold|apply new_copy_compl; exact Hwf].
Qed.

Lemma nx_install T n i c s f :
  t_wf T -> NX T n -> nm_get i (cs_nodes (nd_cs n)) = Some c -> snap_ok T i s ->
  c_max c < c_max s -> c_gc c <= c_max s ->
  NX T (with_fd (with_cs n (mkCluster (nm_insert i (catchup_copy c s) (cs_nodes (nd_cs n))) (cs_gcn (nd_cs n)))) f).
Proof.
  intros Hwf [[Hinv Hint (co & Hco & Hm & Hh)] Hgc Hex] Hc Hs Hmx Hgcx.
  assert (Hcs : snap_ok T i c).
  { destruct (Hex i c Hc) as [A B]. split; [eapply (cli_copies _ Hinv); apply nm_get_in; exact Hc|apply (Hint i c Hc)|exact A|exact B]. }
  pose proof (catchup_copy_ok T i c s Hwf Hcs Hs Hmx Hgcx) as [Ri Rint Rh Rc].
  (* the member caught up is not the node itself: the owner is at least as advanced as any snapshot *)
  assert (Hne : i <> self_id n).
  { intros ->. rewrite Hco in Hc. injection Hc as <-. pose proof (cint_max T _ s (so_int _ _ _ Hs)). lia. }
  assert (Hown : nm_get (self_id n) (nm_insert i (catchup_copy c s) (cs_nodes (nd_cs n))) = Some co).
  { rewrite nm_get_insert_other by exact Hne. exact Hco. }
  split; [split| |].
  - unfold node_inv. cbn [nd_cs with_cs with_fd]. destruct Hinv as [Hsorted Hcop]. split; cbn [cs_nodes].
    + apply nm_insert_sorted. exact Hsorted.
    + intros j d Hin. apply in_nm_insert in Hin as [E|Hin]; [injection E as _ ->; exact Ri|eapply Hcop; exact Hin].
  - unfold node_int. cbn [nd_cs with_cs with_fd]. apply cluster_int_insert; assumption.
  - exists co. unfold self_id. cbn [nd_cs with_cs with_fd nd_cfg cs_nodes]. fold (self_id n). split; [exact Hown|]. split; assumption.
  - intros c0 Hc0. unfold self_id in Hc0. cbn [nd_cs with_cs with_fd nd_cfg cs_nodes] in Hc0. fold (self_id n) in Hc0.
    rewrite Hown in Hc0. injection Hc0 as <-. apply (Hgc co Hco).
  - intros X d Hd. cbn [nd_cs with_cs with_fd cs_nodes] in Hd. destruct (id_dec i X) as [<-|Hx].
    + rewrite nm_get_insert_same in Hd. injection Hd as <-. split; assumption.
    + rewrite nm_get_insert_other in Hd by exact Hx. apply (Hex X d Hd).
Qed.

Lemma nx_catchup T n i s n' evs :
  t_wf T -> NX T n -> snap_ok T i s ->
  reset_node_state_if_update n i (c_kvs s) (c_max s) (c_gc s) = Ok (n', evs) ->
  NX T n' /\ self_id n' = self_id n.
Proof.
  intros Hwf Hnx Hs Hrun.
  destruct (catchup_node_cases n i s n' evs Hrun) as (cs & Hcs & Hcase).
  assert (Hnx1 : NX T (with_cs n cs)).
  { destruct Hcs as [-> | ->]; [destruct n; exact Hnx|apply nx_mut_or_init; assumption]. }
  destruct Hcase as [[-> _]|(c & Hc & Hmx & Hgc & ->)]; [split; [exact Hnx1|reflexivity]|].
  split; [|reflexivity].
  apply (nx_install T (with_cs n cs) i c s (fd_get_or_create (nd_fd n) i) Hwf Hnx1); assumption.
Qed.

(* an honest catch-up about the node itself changes nothing (C05): the owner is at least as advanced
   as any snapshot of itself *)
Lemma catchup_about_self_is_noop T n s n' evs :
  NX T n -> snap_ok T (self_id n) s ->
  reset_node_state_if_update n (self_id n) (c_kvs s) (c_max s) (c_gc s) = Ok (n', evs) ->
  n' = n /\ evs = [].
Proof.
  intros [[Hinv Hint (co & Hco & Hm & Hh)] _ _] Hs Hrun.
  destruct (catchup_node_cases n (self_id n) s n' evs Hrun) as (cs & Hcs & Hcase).
  assert (E : cs = nd_cs n).
  { destruct Hcs as [->| ->]; [reflexivity|]. unfold node_state_mut_or_init. rewrite Hco. reflexivity. }
  subst cs. destruct Hcase as [[-> ->]|(c & Hc & Hmx & _)]; [split; [destruct n; reflexivity|reflexivity]|].
  exfalso. rewrite Hco in Hc. injection Hc as <-. pose proof (cint_max T _ s (so_int _ _ _ Hs)). lia.
Qed.

(* ---- the truth only grows along the gossip relation ---- *)
Section Grow.
  Variable zc : bytes -> option bytes.
  Hypothesis zc_len : forall b c, zc b = Some c -> len c <= len b.
  Variable strict : bool.

  Lemma gstep_truth_grows g g' : GInv2 g -> gstep zc strict g g' -> t_le (g_T g) (g_T g').
  Proof.
    intros [Hg Hgc] Hstep. destruct Hstep; cbn [g_T]; try apply t_le_refl; try apply t_le_bump.
    - (* join *)
      destruct (gi_support g Hg (cf_id cfg)) as (Hmax0 & Hhb0 & _). { intros a n Hn. eapply H; exact Hn. }
      pose proof (new_node_inv cfg initial) as Hninv.
      set (nn := new_node cfg initial) in *. set (own0 := set_all (inc_heartbeat new_copy) initial).
      assert (Hcs : nd_cs nn = mkCluster [(cf_id cfg, own0)] []) by apply new_node_cluster.
      assert (Hget : nm_get (cf_id cfg) (cs_nodes (nd_cs nn)) = Some own0).
      { rewrite Hcs. unfold nm_get. cbn [cs_nodes sm_get]. rewrite id_cmp_refl. reflexivity. }
      assert (Hown0 : own_copy nn = own0) by (apply own_copy_spec; exact Hget).
      rewrite Hown0.
      assert (Hci0 : copy_inv own0) by (eapply (cli_copies _ Hninv); apply nm_get_in; exact Hget).
      destruct (set_all_gc_hb initial (inc_heartbeat new_copy)) as [Hgc0 Hhb1]. fold own0 in Hgc0, Hhb1. cbn in Hgc0, Hhb1.
      assert (Hos : own_step new_copy own0).
      { split; cbn [new_copy c_kvs c_max c_hb c_gc].
        - intros k v Hin. right. apply (ci_range _ Hci0 k v Hin).
        - apply N.le_0_l.
        - apply N.le_0_l.
        - rewrite Hgc0. apply N.le_0_l. }
      apply (sync_truth_ok (g_T g) (cf_id cfg) new_copy own0 (gi_wf g Hg) (new_copy_int _ _)
               (eq_sym Hmax0) (eq_sym Hhb0) Hci0 Hos).
    - (* local write *)
      destruct (gi_nodes g Hg a n H) as [Hinv Hint (c & Hc & Hm & Hh)].
      pose proof (Hgc a n H c Hc) as Hgcc.
      assert (Hcinv : copy_inv c) by (eapply (cli_copies _ Hinv); apply nm_get_in; exact Hc).
      assert (Hfc : copy_inv (fst (f c)) /\ own_step c (fst (f c))).
      { destruct H0; cbn [fst]; split;
          first [apply set_inv|apply set_with_ttl_inv|apply delete_inv|apply delete_after_ttl_inv
                |apply own_step_set|apply own_step_set_ttl|apply own_step_delete|apply own_step_delete_ttl]; assumption. }
      destruct Hfc as [Hc'inv Hos].
      assert (Hshape : fst (on_own n f) = with_cs n (mkCluster (nm_insert (self_id n) (fst (f c)) (cs_nodes (nd_cs n))) (cs_gcn (nd_cs n)))).
      { unfold on_own, node_state_mut_or_init. rewrite Hc, Hc. destruct (f c). reflexivity. }
      assert (Hown' : nm_get (self_id n) (cs_nodes (nd_cs (fst (on_own n f)))) = Some (fst (f c))).
      { rewrite Hshape. cbn [nd_cs with_cs cs_nodes]. apply nm_get_insert_same. }
      assert (Hoc : own_copy (fst (on_own n f)) = fst (f c)).
      { apply own_copy_spec. rewrite self_id_on_own. exact Hown'. }
      rewrite Hoc.
      apply (sync_truth_ok (g_T g) (self_id n) c (fst (f c)) (gi_wf g Hg) (Hint _ _ Hc) Hm Hh Hc'inv Hos).
  Qed.
End Grow.

(* ---- the extended relation ---- *)
Section Catchup.
  Variable zc : bytes -> option bytes.
  Hypothesis zc_len : forall b c, zc b = Some c -> len c <= len b.

  Inductive cstep : gstate -> gstate -> Prop :=
  | CS_gossip g g' : gstep zc true g g' -> cstep g g'
  | CS_catchup g a n X s n' evs :
      node_at g a = Some n -> snap_ok (g_T g) X s ->
      reset_node_state_if_update n X (c_kvs s) (c_max s) (c_gc s) = Ok (n', evs) ->
      cstep g (mkG (with_nodes (g_w g) (set_nth (w_nodes (g_w g)) a n')) (g_sent g) (g_T g)).

  Inductive creachable : gstate -> Prop :=
  | CR_init : creachable g_init
  | CR_step g g' : creachable g -> cstep g g' -> creachable g'.

  Lemma nx_of_ginve g a n : GInvE g -> node_at g a = Some n -> NX (g_T g) n.
  Proof. intros [[Hg Hgc] Hn _] Ha. split; [apply (gi_nodes g Hg a n Ha)|apply (Hgc a n Ha)|apply (Hn a n Ha)]. Qed.

  Lemma catchup_step g a n X s n' evs :
    GInvE g -> node_at g a = Some n -> snap_ok (g_T g) X s ->
    reset_node_state_if_update n X (c_kvs s) (c_max s) (c_gc s) = Ok (n', evs) ->
    GInvE (mkG (with_nodes (g_w g) (set_nth (w_nodes (g_w g)) a n')) (g_sent g) (g_T g)).
  Proof.
    intros HE Ha Hs Hrun. pose proof HE as [[Hg Hgc] Hn Hsent].
    destruct (nx_catchup (g_T g) n X s n' evs (gi_wf g Hg) (nx_of_ginve g a n HE Ha) Hs Hrun) as [[Hni Hgc' Hex'] Hself].
    assert (Hbase : GInv2 (mkG (with_nodes (g_w g) (set_nth (w_nodes (g_w g)) a n')) (g_sent g) (g_T g))).
    { split.
      - apply (ginv_node_step g a n n' (g_T g) (g_sent g) Hg Ha Hself (t_le_refl _) (gi_wf g Hg)).
        + intros Y _. split; reflexivity.
        + intros Y _ w Hw. exact Hw.
        + exact Hni.
        + apply (gi_sent g Hg).
      - intros b m Hb. unfold node_at in Hb. cbn [g_w with_nodes w_nodes] in Hb.
        destruct (Nat.eq_dec a b) as [<-|Hne].
        + unfold node_at in Ha. rewrite (nth_set_nth_same _ _ _ _ Ha) in Hb. injection Hb as <-. exact Hgc'.
        + rewrite nth_set_nth_other in Hb by exact Hne. eapply Hgc. exact Hb. }
    apply (gie_node_step g a n n' (g_T g) (g_sent g) HE Ha (t_le_refl _) Hbase Hex'). exact Hsent.
  Qed.

  Lemma cstep_exact g g' : cstep g g' -> GInvE g -> GInvE g'.
  Proof.
    intros Hstep HE. destruct Hstep as [g g' Hs|g a n X s n' evs Ha Hs Hrun].
    - eapply (gstep_exact zc zc_len); eauto.
    - eapply catchup_step; eauto.
  Qed.

  Theorem creachable_exact : forall g, creachable g -> GInvE g.
  Proof. induction 1 as [|g g' Hr IH Hstep]; [apply ginve_init|eapply cstep_exact; eauto]. Qed.

  (* every copy a node holds is a snapshot ... *)
  Lemma held_copy_is_snapshot g b nb X c :
    GInvE g -> node_at g b = Some nb -> nm_get X (cs_nodes (nd_cs nb)) = Some c -> snap_ok (g_T g) X c.
  Proof.
    intros HE Hb Hc. destruct (nx_of_ginve g b nb HE Hb) as [[Hinv Hint _] _ Hex].
    destruct (Hex X c Hc) as [A B].
    split; [eapply (cli_copies _ Hinv); apply nm_get_in; exact Hc|apply (Hint X c Hc)|exact A|exact B].
  Qed.

  (* ... and stays one along every later step: a state fetched at any earlier moment may be fed *)
  Inductive csteps : gstate -> gstate -> Prop :=
  | CSS_refl g : csteps g g
  | CSS_step g g' g'' : csteps g g' -> cstep g' g'' -> csteps g g''.

  Lemma cstep_truth_grows g g' : GInvE g -> cstep g g' -> t_le (g_T g) (g_T g').
  Proof.
    intros [Hb _ _] Hstep. destruct Hstep as [g g' Hs|]; [|apply t_le_refl].
    eapply (gstep_truth_grows zc); eauto.
  Qed.

  Theorem snapshot_stays_honest g0 g X s :
    creachable g0 -> csteps g0 g -> snap_ok (g_T g0) X s -> creachable g /\ snap_ok (g_T g) X s.
  Proof.
    intros Hr Hss Hs. induction Hss as [g|g g' g'' Hss IH Hstep]; [auto|].
    destruct (IH Hr Hs) as [Hr' Hs']. split; [eapply CR_step; eauto|].
    pose proof (creachable_exact g' Hr') as HE.
    eapply snap_ok_mono; [eapply cstep_truth_grows; eauto|apply (gi_wf g' (gi2_inv g' (gie_base g' HE)))|exact Hs'].
  Qed.
End Catchup.
