(* FD.v — phi-accrual failure detector (failure_detector.rs) over exact integer arithmetic.
   Instants and durations are integer nanoseconds.  The code evaluates phi in f64; the model
   evaluates the same inequality exactly and exposes [phi_near] so that the correspondence
   check can skip verdict comparison inside a relative band around the threshold. Model file. *)
From ChitchatModel Require Import Base SMap Ids Params.
Local Open Scope Z_scope.

Record fdconfig := mkFdCfg {
  phi_num : Z; phi_den : Z;          (* phi_threshold = phi_num / phi_den, phi_den > 0 *)
  window_size : nat;                 (* sampling_window_size >= 1 *)
  max_interval : Z;
  initial_interval : Z;
  dead_grace : Z;                    (* dead_node_grace_period *)
  half_grace : Z                     (* dead_node_grace_period.div_f32(2.0), as computed by the code *)
}.

(* SamplingWindow: the accepted intervals since the last reset, most recent first, at most
   window_size of them (BoundedArrayStats keeps exactly the last [capacity] values and their sum) *)
Record window := mkWin { wd_vals : list Z; wd_last : option Z }.
Definition new_window : window := mkWin [] None.

(* failure_detector.rs:220-233 *)
Definition win_report (cfg : fdconfig) (now : Z) (w : window) : window :=
  match wd_last w with
  | Some last =>
      let interval := now - last in
      if interval <=? max_interval cfg
      then mkWin (firstn (window_size cfg) (interval :: wd_vals w)) (Some now)
      else mkWin (wd_vals w) (Some now)
  | None => mkWin (wd_vals w) (Some now)
  end.
(* failure_detector.rs:236-238 *)
Definition win_reset (w : window) : window := mkWin [] (wd_last w).

Definition zsum (l : list Z) : Z := fold_right Z.add 0 l.
Definition prior_weight : Z := Z.of_N P_PRIOR_WEIGHT.

(* failure_detector.rs:240-251 with phi <= threshold cross-multiplied:
   phi = elapsed / ((sum + w*prior) / (len + w));  alive iff phi <= num/den.
   Returns None when phi() is None, else Some (lhs, rhs) with alive iff 0 < rhs-part and lhs <= rhs *)
Definition phi_sides (cfg : fdconfig) (now : Z) (w : window) : option (Z * Z) :=
  match wd_vals w, wd_last w with
  | [], _ => None
  | _, None => None
  | vals, Some last =>
      let n := Z.of_nat (length vals) in
      let denom := zsum vals + prior_weight * initial_interval cfg in
      Some ((now - last) * (n + prior_weight) * phi_den cfg, phi_num cfg * denom)
  end.
Definition win_mean_num (cfg : fdconfig) (w : window) : Z :=
  zsum (wd_vals w) + prior_weight * initial_interval cfg.

(* exact verdict; mean = 0 gives phi = inf or NaN, never alive *)
Definition win_alive (cfg : fdconfig) (now : Z) (w : window) : bool :=
  match phi_sides cfg now w with
  | None => false
  | Some (lhs, rhs) => (0 <? win_mean_num cfg w) && (lhs <=? rhs)
  end.
(* |lhs - rhs| <= rhs / 2^20 : too close to the threshold for an f64 evaluation to be trusted *)
Definition phi_near (cfg : fdconfig) (now : Z) (w : window) : bool :=
  match phi_sides cfg now w with
  | None => false
  | Some (lhs, rhs) => Z.abs (lhs - rhs) * 1048576 <=? Z.abs rhs
  end.

Definition wmap := smap id window.
Definition wm_get := @sm_get id window id_cmp.
Definition wm_insert := @sm_insert id window id_cmp.
Definition wm_remove := @sm_remove id window id_cmp.
Definition dmap := smap id Z.
Definition dm_get := @sm_get id Z id_cmp.
Definition dm_insert := @sm_insert id Z id_cmp.
Definition dm_remove := @sm_remove id Z id_cmp.
Definition iset := smap id unit.
Definition is_mem := @sm_mem id unit id_cmp.
Definition is_insert (i : id) (s : iset) : iset := @sm_insert id unit id_cmp i tt s.
Definition is_remove := @sm_remove id unit id_cmp.

Record fd := mkFd { fd_samples : wmap; fd_live : iset; fd_dead : dmap }.
Definition new_fd : fd := mkFd [] [] [].

(* failure_detector.rs:34-47 *)
Definition fd_get_or_create (f : fd) (i : id) : fd :=
  match wm_get i (fd_samples f) with
  | Some _ => f
  | None => mkFd (wm_insert i new_window (fd_samples f)) (fd_live f) (fd_dead f)
  end.
(* failure_detector.rs:50-54 *)
Definition fd_report_heartbeat (cfg : fdconfig) (now : Z) (f : fd) (i : id) : fd :=
  let w := match wm_get i (fd_samples f) with Some w => w | None => new_window end in
  mkFd (wm_insert i (win_report cfg now w) (fd_samples f)) (fd_live f) (fd_dead f).

(* failure_detector.rs:57-78; [oracle] = the implementation's verdict, used only when the
   exact phi is within the band of [phi_near] *)
Definition fd_is_alive (cfg : fdconfig) (now : Z) (f : fd) (i : id) (oracle : option bool) : bool :=
  match wm_get i (fd_samples f) with
  | None => false
  | Some w =>
      if phi_near cfg now w
      then match oracle with Some b => b | None => win_alive cfg now w end
      else win_alive cfg now w
  end.
Definition fd_update_node_liveness (cfg : fdconfig) (now : Z) (f : fd) (i : id) (oracle : option bool) : fd :=
  if fd_is_alive cfg now f i oracle then
    mkFd (fd_samples f) (is_insert i (fd_live f)) (dm_remove i (fd_dead f))
  else
    mkFd (match wm_get i (fd_samples f) with
          | Some w => wm_insert i (win_reset w) (fd_samples f)
          | None => fd_samples f
          end)
         (is_remove i (fd_live f))
         (match dm_get i (fd_dead f) with
          | Some _ => fd_dead f
          | None => dm_insert i now (fd_dead f)
          end).

(* failure_detector.rs:81-94 *)
Definition fd_garbage_collect (cfg : fdconfig) (now : Z) (f : fd) : fd * list id :=
  let collected := map fst (filter (fun e => snd e + dead_grace cfg <=? now) (fd_dead f)) in
  (mkFd (fold_left (fun m i => wm_remove i m) collected (fd_samples f))
        (fd_live f)
        (fold_left (fun m i => dm_remove i m) collected (fd_dead f)),
   collected).

(* failure_detector.rs:107-121 *)
Definition fd_scheduled_for_deletion (cfg : fdconfig) (now : Z) (f : fd) : list id :=
  map fst (filter (fun e => snd e + half_grace cfg <? now) (fd_dead f)).

Definition fd_live_nodes (f : fd) : list id := map fst (fd_live f).
Definition fd_dead_nodes (f : fd) : list id := map fst (fd_dead f).
