(* Cluster.v — ClusterState (state.rs:505-840): member map, removed-member memory, digest,
   delta application and MTU-bounded delta computation. Model file. *)
From ChitchatModel Require Import Base SMap Ids Bytes Params NodeState Stream DeltaWire Message.

Definition nmap := smap id copy.
Definition nm_get := @sm_get id copy id_cmp.
Definition nm_insert := @sm_insert id copy id_cmp.
Definition nm_remove := @sm_remove id copy id_cmp.

(* lru::LruCache<ChitchatId, Heartbeat> with capacity GARBAGE_COLLECTED_NODE_HISTORY_SIZE:
   most recently used first *)
Definition lru := list (id * N).
Fixpoint lru_remove (k : id) (l : lru) : lru :=
  match l with
  | [] => []
  | (k0, v0) :: r => if id_eqb k k0 then r else (k0, v0) :: lru_remove k r
  end.
Fixpoint lru_peek (k : id) (l : lru) : option N :=
  match l with
  | [] => None
  | (k0, v0) :: r => if id_eqb k k0 then Some v0 else lru_peek k r
  end.
Definition lru_push (cap : nat) (k : id) (v : N) (l : lru) : lru :=
  match lru_peek k l with
  | Some _ => (k, v) :: lru_remove k l
  | None => (k, v) :: firstn (Nat.pred cap) l
  end.
Definition lru_pop (k : id) (l : lru) : lru := lru_remove k l.

Record cluster := mkCluster { cs_nodes : nmap; cs_gcn : lru }.
Definition new_cluster : cluster := mkCluster [] [].

Definition gc_history_cap : nat := N.to_nat P_GC_HISTORY.

(* state.rs:552-565 *)
Definition node_state_mut_or_init (cs : cluster) (i : id) : cluster :=
  match nm_get i (cs_nodes cs) with
  | Some _ => cs
  | None => mkCluster (nm_insert i new_copy (cs_nodes cs)) (lru_pop i (cs_gcn cs))
  end.

(* state.rs:584-590 *)
Definition remove_node (cs : cluster) (i : id) : cluster :=
  match nm_get i (cs_nodes cs) with
  | Some c => mkCluster (nm_remove i (cs_nodes cs)) (lru_push gc_history_cap i (c_hb c) (cs_gcn cs))
  | None => cs
  end.

Definition last_heartbeat_if_deleted (cs : cluster) (i : id) : option N := lru_peek i (cs_gcn cs).

Definition in_ids (i : id) (l : list id) : bool := existsb (id_eqb i) l.

Definition node_digest (c : copy) : ndigest := mkNDg (c_hb c) (c_gc c) (c_max c).

(* state.rs:612-621 *)
Definition compute_digest (cs : cluster) (sched : list id) : digest :=
  map (fun e => (fst e, node_digest (snd e)))
      (filter (fun e => negb (in_ids (fst e) sched)) (cs_nodes cs)).

(* state.rs:623-627 *)
Definition cluster_gc (now grace : Z) (cs : cluster) : cluster :=
  mkCluster (map (fun e => (fst e, gc_keys_marked_for_deletion now grace (snd e))) (cs_nodes cs))
            (cs_gcn cs).

Definition mevent := (id * bytes * bytes)%type.

(* state.rs:593-610; Panic = assert at :236 or :602 *)
Fixpoint cluster_apply_nds (now : Z) (nodes : nmap) (l : list ndelta) (reset : bool) (evs : list mevent)
  : result (nmap * bool * list mevent) :=
  match l with
  | [] => Ok (nodes, reset, evs)
  | nd :: r =>
      match nm_get (d_id nd) nodes with
      | None => cluster_apply_nds now nodes r reset evs
      | Some c =>
          match apply_delta now c nd with
          | Ok (c', st, ev) =>
              if lex_le (monotonic_property c) (monotonic_property c')
              then cluster_apply_nds now (nm_insert (d_id nd) c' nodes) r
                     (reset || match st with ApplyAfterReset => true | _ => false end)
                     (evs ++ map (fun e => (d_id nd, fst e, snd e)) ev)
              else Panic
          | Err => Err
          | Panic => Panic
          end
      end
  end.
Definition cluster_apply_delta (now : Z) (cs : cluster) (d : delta)
  : result (cluster * bool * list mevent) :=
  rmap (fun x => let '(nodes, reset, evs) := x in (mkCluster nodes (cs_gcn cs), reset, evs))
       (cluster_apply_nds now (cs_nodes cs) (nds d) false []).

(* ---------------- staleness: state.rs:711-783 ---------------- *)
Record staleness := mkSt { st_unknown : bool; st_max : N; st_num : N }.
Definition bool_cmp (a b : bool) : comparison :=
  match a, b with false, true => Lt | true, false => Gt | _, _ => Eq end.
Definition staleness_cmp (a b : staleness) : comparison :=
  cmp_then (bool_cmp (st_unknown a) (st_unknown b))
    (if st_unknown a then CompOpp (N.compare (st_max a) (st_max b))
     else N.compare (st_num a) (st_num b)).

Definition staleness_score (c : copy) (floor : N) : option staleness :=
  if c_max c <=? floor then None
  else
    let unknown := floor =? 0 in
    let num := if unknown then num_key_values c
               else N.of_nat (length (stale_key_values c floor)) in
    Some (mkSt unknown (c_max c) num).

Record stale_node := mkSN { sn_id : id; sn_copy : copy; sn_from : N; sn_score : staleness }.

(* state.rs:640-673 : candidates in member-map order *)
Definition stale_candidate (dg : digest) (sched : list id) (e : id * copy) : option stale_node :=
  let '(i, c) := e in
  if in_ids i sched then None
  else
    let '(dgc, dmax) := match dg_get i dg with
                        | Some g => (g_gc g, g_max g)
                        | None => (0, 0)
                        end in
    if c_max c <=? dmax then None
    else
      let should_reset := (dgc <? c_gc c) && (dmax <? c_gc c) in
      let from := if should_reset then 0 else dmax in
      match staleness_score c from with
      | None => None
      | Some s => Some (mkSN i c from s)
      end.
Fixpoint filter_map {A B} (f : A -> option B) (l : list A) : list B :=
  match l with
  | [] => []
  | x :: r => match f x with Some y => y :: filter_map f r | None => filter_map f r end
  end.
Definition stale_nodes (cs : cluster) (dg : digest) (sched : list id) : list stale_node :=
  filter_map (stale_candidate dg sched) (cs_nodes cs).

(* A legal iteration order of SortedStaleNodes::into_iter: some permutation of the candidates
   with non-increasing staleness (equal-staleness members are shuffled). *)
Fixpoint find_sn (i : id) (l : list stale_node) : option stale_node :=
  match l with
  | [] => None
  | n :: r => if id_eqb i (sn_id n) then Some n else find_sn i r
  end.
Fixpoint remove_sn (i : id) (l : list stale_node) : list stale_node :=
  match l with
  | [] => []
  | n :: r => if id_eqb i (sn_id n) then r else n :: remove_sn i r
  end.
(* Arrange the candidates: first the members named by [hint], in that order, then the remaining
   candidates by decreasing staleness and, among equals, decreasing header size.  Every legal
   shuffle outcome is obtained with [hint] = the complete order; a shorter hint (the members that
   made it into a reply) is completed in the way that is least likely to admit one more member.
   None if a hinted member is not a candidate. *)
Fixpoint take_hint (hint : list id) (cands : list stale_node)
  : option (list stale_node * list stale_node) :=
  match hint with
  | [] => Some ([], cands)
  | i :: r =>
      match find_sn i cands with
      | None => None
      | Some n =>
          match take_hint r (remove_sn i cands) with
          | None => None
          | Some (a, rest) => Some (n :: a, rest)
          end
      end
  end.
Definition sn_before (a b : stale_node) : bool :=
  match staleness_cmp (sn_score a) (sn_score b) with
  | Gt => true
  | Lt => false
  | Eq => id_len (sn_id b) <=? id_len (sn_id a)
  end.
Fixpoint insert_sn (n : stale_node) (l : list stale_node) : list stale_node :=
  match l with
  | [] => [n]
  | x :: r => if sn_before n x then n :: l else x :: insert_sn n r
  end.
Definition arrange (hint : list id) (cands : list stale_node) : option (list stale_node) :=
  match take_hint hint cands with
  | None => None
  | Some (a, rest) => Some (a ++ fold_right insert_sn [] rest)
  end.
Fixpoint staleness_desc (l : list stale_node) : bool :=
  match l with
  | [] => true
  | a :: r =>
      match r with
      | [] => true
      | b :: _ => match staleness_cmp (sn_score a) (sn_score b) with Lt => false | _ => true end
      end && staleness_desc r
  end.

Definition kvm_of (e : bytes * vv) : kvm :=
  mkKvm (fst e) (v_val (snd e)) (v_ver (snd e)) (to_mstatus (v_st (snd e))).

Section Delta.
  Variable zc : bytes -> option bytes.

  (* state.rs:686-691 : returns (serializer, all fitted?, added something?) *)
  Fixpoint add_kvs (s : dser) (kvs : list (bytes * vv)) (added : bool) : result (dser * bool * bool) :=
    match kvs with
    | [] => Ok (s, true, added)
    | e :: r =>
        rbind (ds_try_add_op zc s (OpKV (kvm_of e))) (fun sr =>
          let '(s', ok) := sr in
          if ok then add_kvs s' r true else Ok (s', false, added))
    end.

  (* state.rs:676-702 *)
  Fixpoint delta_loop (s : dser) (nodes : list stale_node) : result delta :=
    match nodes with
    | [] => Ok (ds_finish zc s)
    | n :: rest =>
        rbind (ds_try_add_op zc s (OpNode (sn_id n) (c_gc (sn_copy n)) (sn_from n))) (fun sr =>
          let '(s1, ok) := sr in
          if negb ok then Ok (ds_finish zc s1)
          else
            rbind (add_kvs s1 (stale_sorted (sn_copy n) (sn_from n)) false) (fun r =>
              let '(s2, all, added) := r in
              if negb all then Ok (ds_finish zc s2)
              else if added then delta_loop s2 rest
              else
                rbind (ds_try_add_op zc s2 (OpSetMax (c_max (sn_copy n)))) (fun sr2 =>
                  delta_loop (fst sr2) rest)))
    end.

  (* state.rs:632-703 with the iteration order made explicit *)
  Definition compute_delta_ordered (ordered : list stale_node) (mtu : N) : result delta :=
    rbind (ds_with_mtu mtu) (fun s => delta_loop s ordered).
End Delta.
