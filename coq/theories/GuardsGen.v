(* GuardsGen.v — GENERATED on every run by tools/guards.py from the decision guards in the Rust
   sources (see that file).  Do not edit: edit the sources or the site table. *)
From Coq Require Import NArith ZArith Bool.

(* state.rs, fn check_delta_status: node_delta.from_version_excluded > self.max_version *)
Definition rs_cds_future (dgc cgc cmax dmax dfrom : N) : bool := N.ltb (cmax) (dfrom).

(* state.rs, fn check_delta_status: node_delta.last_gc_version <= self.last_gc_version || node_delta.last_gc_version <= self.max_version() *)
Definition rs_cds_compat (dgc cgc cmax dmax dfrom : N) : bool := orb (N.leb (dgc) (cgc)) (N.leb (dgc) (cmax)).

(* state.rs, fn check_delta_status: node_delta.from_version_excluded != 0 *)
Definition rs_cds_from_nonzero (dgc cgc cmax dmax dfrom : N) : bool := negb (N.eqb (dfrom) (0%N)).

(* state.rs, fn check_delta_status: self.max_version() < node_delta.max_version *)
Definition rs_cds_newer (dgc cgc cmax dmax dfrom : N) : bool := N.ltb (cmax) (dmax).

(* state.rs, fn compute_partial_delta_respecting_mtu: digest_last_gc_version < node_state.last_gc_version && digest_max_version < node_state.last_gc_version *)
Definition rs_should_reset (dgc dmax sgc smax : N) : bool := andb (N.ltb (dgc) (sgc)) (N.ltb (dmax) (sgc)).

(* state.rs, fn try_set_heartbeat: self.heartbeat.0 == 0 *)
Definition rs_hb_first (hb nhb : N) : bool := N.eqb (hb) (0%N).

(* state.rs, fn try_set_heartbeat: heartbeat_new_value > self.heartbeat *)
Definition rs_hb_fresh (nhb hb : N) : bool := N.ltb (hb) (nhb).

(* failure_detector.rs, fn report_heartbeat: interval <= self.max_interval *)
Definition rs_fd_interval (interval maxi : Z) : bool := Z.leb (interval) (maxi).

(* failure_detector.rs, fn garbage_collect: now >= time_of_death + self.config.dead_node_grace_period *)
Definition rs_fd_gc (now tod grace : Z) : bool := Z.leb (Z.add (tod) (grace)) (now).

(* failure_detector.rs, fn scheduled_for_deletion_nodes: *time_of_death + half_dead_node_grace_period < now *)
Definition rs_fd_sched (now tod half : Z) : bool := Z.ltb (Z.add (tod) (half)) (now).

(* lib.rs, fn report_heartbeat: last_heartbeat < heartbeat *)
Definition rs_recreate (last hb : N) : bool := N.ltb (last) (hb).

(* lib.rs, fn reset_node_state_if_update: node_state.max_version() >= max_version *)
Definition rs_catchup_uptodate (cmax mx : N) : bool := N.leb (mx) (cmax).

(* lib.rs, fn reset_node_state_if_update: max_version < node_state.last_gc_version() *)
Definition rs_catchup_obsolete (mx cgc : N) : bool := N.ltb (mx) (cgc).

(* state.rs, fn gc_keys_marked_for_deletion: now < deleted_start_instant + grace_period *)
Definition rs_gc_keep (now t grace : Z) : bool := Z.ltb (now) (Z.add (t) (grace)).

(* state.rs, fn gc_keys_marked_for_deletion: versioned_value.version.max(max_deleted_version) *)
Definition rs_gc_watermark (ver acc cgc : N) : N := N.max (ver) (acc).

(* state.rs, fn set_versioned_value: versioned_value_update.version.max(self.max_version) *)
Definition rs_svv_max (ver cmax : N) : N := N.max (ver) (cmax).

(* state.rs, fn set_versioned_value: occupied_versioned_value.version >= versioned_value_update.version *)
Definition rs_svv_older (old ver : N) : bool := N.leb (ver) (old).

(* state.rs, fn apply_delta: key_value_mutation.version <= current_max_version *)
Definition rs_apply_known (ver cmax cgc : N) : bool := N.leb (ver) (cmax).

(* state.rs, fn apply_delta: key_value_mutation.version <= self.last_gc_version *)
Definition rs_apply_collected (ver cmax cgc : N) : bool := N.leb (ver) (cgc).

(* lib.rs, fn reset_node_state_if_update: last_gc_version.max(node_state.last_gc_version()) *)
Definition rs_catchup_new_gc (gc cgc mx cmax : N) : N := N.max (gc) (cgc).

(* lib.rs, fn reset_node_state_if_update: max_version.max(node_state.max_version()) *)
Definition rs_catchup_new_max (gc cgc mx cmax : N) : N := N.max (mx) (cmax).
