(* Select.v — peer selection of a gossip round (server.rs:358-440) with the random generator's
   answers as explicit arguments. Model file. *)
From ChitchatModel Require Import Base Ids Params.

Definition mem_addr (a : addr) (l : list addr) : bool := existsb (addr_eqb a) l.

Fixpoint distinct_addrs (l : list addr) : bool :=
  match l with
  | [] => true
  | a :: r => negb (mem_addr a r) && distinct_addrs r
  end.

(* IteratorRandom::sample(rng, k): min(k, |pool|) distinct elements of the pool *)
Definition valid_sample (pool sample : list addr) : bool :=
  (length sample =? Nat.min (N.to_nat P_GOSSIP_COUNT) (length pool))%nat
  && distinct_addrs sample && forallb (fun a => mem_addr a pool) sample.

(* IteratorRandom::choose(rng): an element iff the pool is not empty *)
Definition valid_choice (pool : list addr) (c : option addr) : bool :=
  match c with
  | Some a => mem_addr a pool
  | None => match pool with [] => true | _ => false end
  end.

(* a uniform draw in [0,1): numerator over 2^53 *)
Definition two53 : N := 9007199254740992.

Record oracle := mkOracle {
  or_sample : list addr;
  or_draws : list N;          (* successive f64 draws, as numerators over 2^53 *)
  or_dead : option addr;
  or_seed : option addr
}.

Record selection := mkSel {
  sel_nodes : list addr;
  sel_dead : option addr;
  sel_seed : option addr;
  sel_dead_decided : bool;     (* a dead peer is contacted (given a non-empty dead set) *)
  sel_seed_decided : bool;     (* a seed is contacted (given a non-empty seed set) *)
  sel_draws_used : nat
}.

(* server.rs:405-421: dead_count / (live_count + 1) > draw *)
Definition decide_dead (live_count dead_count draw : N) : bool :=
  draw * (live_count + 1) <? dead_count * two53.

(* server.rs:387-393, 423-440 *)
Definition try_seed (nodes seeds : list addr) (live_count : N) : bool :=
  negb (existsb (fun a => mem_addr a seeds) nodes) || (live_count <? N.of_nat (length seeds)).
Definition decide_seed (live_count dead_count seed_count draw : N) : bool :=
  if live_count =? 0 then true
  else draw * (live_count + dead_count) <=? seed_count * two53.

(* server.rs:358-440.  Sets are duplicate-free lists. *)
Definition select_nodes_for_gossip (peers live dead seeds : list addr) (o : oracle) : selection :=
  let live_count := N.of_nat (length live) in
  let dead_count := N.of_nat (length dead) in
  let seed_count := N.of_nat (length seeds) in
  let nodes := or_sample o in
  let dead_sel := decide_dead live_count dead_count (nth 0 (or_draws o) 0) in
  let ts := try_seed nodes seeds live_count in
  (* the seed draw is the second draw, and is only consumed when the short-circuit fails *)
  let seed_sel := ts && decide_seed live_count dead_count seed_count (nth 1 (or_draws o) 0) in
  mkSel nodes
        (if dead_sel then or_dead o else None)
        (if seed_sel then or_seed o else None)
        (dead_sel && match dead with [] => false | _ => true end)
        (seed_sel && match seeds with [] => false | _ => true end)
        (1 + (if ts && negb (live_count =? 0) then 1 else 0)).

Definition pool_of (peers live : list addr) : list addr :=
  match live with [] => peers | _ => live end.

Definition oracle_valid (peers live dead seeds : list addr) (o : oracle) : bool :=
  valid_sample (pool_of peers live) (or_sample o)
  && valid_choice dead (or_dead o) && valid_choice seeds (or_seed o)
  && forallb (fun d => d <? two53) (or_draws o).
