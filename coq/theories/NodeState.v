(* NodeState.v — one member's versioned key-value copy (state.rs:27-484, types.rs:60-190).
   Model file: executable definitions only, written function for function after the Rust. *)
From ChitchatModel Require Import Base SMap Ids.

(* types.rs:67-74 DeletionStatus; the instant is in integer nanoseconds *)
Inductive status := SSet | SDel (t : Z) | STtl (t : Z).
(* types.rs:142-148 DeletionStatusMutation *)
Inductive mstatus := MSet | MDel | MTtl.

Definition into_status (m : mstatus) (now : Z) : status :=
  match m with MSet => SSet | MDel => SDel now | MTtl => STtl now end.
Definition to_mstatus (s : status) : mstatus :=
  match s with SSet => MSet | SDel _ => MDel | STtl _ => MTtl end.
Definition mscheduled (m : mstatus) : bool :=
  match m with MSet => false | _ => true end.
Definition time_of_start_scheduled_for_deletion (s : status) : option Z :=
  match s with SSet => None | SDel t | STtl t => Some t end.

Record vv := mkVV { v_val : bytes; v_ver : N; v_st : status }.

(* types.rs:106-112 *)
Definition is_deleted (v : vv) : bool :=
  match v_st v with SDel _ => true | _ => false end.

Record copy := mkCopy { c_hb : N; c_gc : N; c_max : N; c_kvs : smap bytes vv }.

Definition kget := @sm_get bytes vv bytes_cmp.
Definition kinsert := @sm_insert bytes vv bytes_cmp.
Definition kremove := @sm_remove bytes vv bytes_cmp.

Definition new_copy : copy := mkCopy 0 0 0 [].

(* types.rs:133-139 KeyValueMutation *)
Record kvm := mkKvm { m_key : bytes; m_val : bytes; m_ver : N; m_st : mstatus }.
(* delta.rs:325-349 NodeDelta *)
Record ndelta := mkND { d_id : id; d_from : N; d_gc : N; d_kvs : list kvm; d_max : N }.

Inductive dstatus := Reject | Apply | ApplyAfterReset.

(* a listener event: (key, value) for the member the copy belongs to *)
Definition event := (bytes * bytes)%type.

(* state.rs:143-184 *)
Definition check_delta_status (c : copy) (d : ndelta) : dstatus :=
  if c_max c <? d_from d then Reject
  else
    let compatible_without_reset := (d_gc d <=? c_gc c) || (d_gc d <=? c_max c) in
    if negb compatible_without_reset then
      (if negb (d_from d =? 0) then Reject else ApplyAfterReset)
    else if c_max c <? d_max d then Apply else Reject.

(* state.rs:442-471 *)
Definition set_versioned_value (c : copy) (k : bytes) (v : vv) : copy * list event :=
  let mx := N.max (v_ver v) (c_max c) in
  let ev := if is_deleted v then [] else [(k, v_val v)] in
  match kget k (c_kvs c) with
  | Some old =>
      if v_ver v <=? v_ver old
      then (mkCopy (c_hb c) (c_gc c) mx (c_kvs c), [])
      else (mkCopy (c_hb c) (c_gc c) mx (kinsert k v (c_kvs c)), ev)
  | None => (mkCopy (c_hb c) (c_gc c) mx (kinsert k v (c_kvs c)), ev)
  end.

(* state.rs:191-199: NodeState::new (empty), the observed heartbeat carried over (fix F-7), then the
   watermark *)
Definition reset_node (hb gc : N) : copy := mkCopy hb gc 0 [].

(* loop body of state.rs:217-234 *)
Definition apply_kv (now : Z) (current_max : N) (acc : copy * list event) (m : kvm)
  : copy * list event :=
  let '(c, evs) := acc in
  if m_ver m <=? current_max then acc
  else if mscheduled (m_st m) && (m_ver m <=? c_gc c) then acc
  else
    let '(c', ev) := set_versioned_value c (m_key m)
                       (mkVV (m_val m) (m_ver m) (into_status (m_st m) now)) in
    (c', evs ++ ev).

(* state.rs:198-239; Panic = assert at :236 *)
Definition apply_delta (now : Z) (c : copy) (d : ndelta) : result (copy * dstatus * list event) :=
  match check_delta_status c d with
  | Reject => Ok (c, Reject, [])
  | st =>
      let c0 := match st with ApplyAfterReset => reset_node (c_hb c) (d_gc d) | _ => c end in
      let '(c1, evs) := fold_left (apply_kv now (c_max c0)) (d_kvs d) (c0, []) in
      if d_max d <? c_max c1 then Panic
      else Ok (mkCopy (c_hb c1) (c_gc c1) (d_max d) (c_kvs c1), st, evs)
  end.

(* ---------------- reads: state.rs:122-135, 241-275 ---------------- *)
Definition get_versioned (c : copy) (k : bytes) : option vv := kget k (c_kvs c).
Definition get (c : copy) (k : bytes) : option bytes :=
  match get_versioned c k with
  | Some v => if is_deleted v then None else Some (v_val v)
  | None => None
  end.
Definition contains_key (c : copy) (k : bytes) : bool :=
  match get c k with Some _ => true | None => false end.
Definition key_values_including_deleted (c : copy) : list (bytes * vv) := c_kvs c.
Definition key_values (c : copy) : list (bytes * bytes) :=
  map (fun kv => (fst kv, v_val (snd kv)))
      (filter (fun kv => negb (is_deleted (snd kv))) (c_kvs c)).
Definition num_key_values (c : copy) : N := N.of_nat (length (key_values c)).

(* BTreeMap::range((Included(prefix), Unbounded)) *)
Fixpoint range_from (p : bytes) (m : smap bytes vv) : smap bytes vv :=
  match m with
  | [] => []
  | (k, v) :: r => match bytes_cmp k p with Lt => range_from p r | _ => m end
  end.
Fixpoint take_while {A} (f : A -> bool) (l : list A) : list A :=
  match l with
  | [] => []
  | x :: r => if f x then x :: take_while f r else []
  end.
(* state.rs:242-252 *)
Definition iter_prefix (c : copy) (p : bytes) : list (bytes * vv) :=
  filter (fun kv => negb (is_deleted (snd kv)))
         (take_while (fun kv => is_prefix p (fst kv)) (range_from p (c_kvs c))).

(* ---------------- local write API: state.rs:282-359 ---------------- *)
Definition set (c : copy) (k v : bytes) : copy * list event :=
  let unchanged :=
    match get_versioned c k with
    | Some p => bytes_eqb (v_val p) v && match v_st p with SSet => true | _ => false end
    | None => false
    end in
  if unchanged then (c, [])
  else set_versioned_value c k (mkVV v (c_max c + 1) SSet).

Definition set_with_ttl (now : Z) (c : copy) (k v : bytes) : copy * list event :=
  let unchanged :=
    match get_versioned c k with
    | Some p => bytes_eqb (v_val p) v && match v_st p with STtl _ => true | _ => false end
    | None => false
    end in
  if unchanged then (c, [])
  else set_versioned_value c k (mkVV v (c_max c + 1) (STtl now)).

Definition delete (now : Z) (c : copy) (k : bytes) : copy :=
  match kget k (c_kvs c) with
  | None => c
  | Some _ =>
      let mx := c_max c + 1 in
      mkCopy (c_hb c) (c_gc c) mx (kinsert k (mkVV [] mx (SDel now)) (c_kvs c))
  end.

Definition delete_after_ttl (now : Z) (c : copy) (k : bytes) : copy :=
  match kget k (c_kvs c) with
  | None => c
  | Some p =>
      let mx := c_max c + 1 in
      mkCopy (c_hb c) (c_gc c) mx (kinsert k (mkVV (v_val p) mx (STtl now)) (c_kvs c))
  end.

(* ---------------- heartbeat: state.rs:361-383 ---------------- *)
Definition inc_heartbeat (c : copy) : copy := mkCopy (c_hb c + 1) (c_gc c) (c_max c) (c_kvs c).
Definition try_set_heartbeat (c : copy) (hb : N) : copy * bool :=
  if c_hb c =? 0 then (mkCopy hb (c_gc c) (c_max c) (c_kvs c), false)
  else if c_hb c <? hb then (mkCopy hb (c_gc c) (c_max c) (c_kvs c), true)
  else (c, false).

(* ---------------- tombstone GC: state.rs:393-415 ---------------- *)
Definition gc_collectable (now grace : Z) (v : vv) : bool :=
  match time_of_start_scheduled_for_deletion (v_st v) with
  | None => false
  | Some t => negb (now <? t + grace)%Z
  end.
Definition gc_keys_marked_for_deletion (now grace : Z) (c : copy) : copy :=
  let removed := filter (fun kv => gc_collectable now grace (snd kv)) (c_kvs c) in
  let max_deleted := fold_left (fun g kv => N.max (v_ver (snd kv)) g) removed (c_gc c) in
  mkCopy (c_hb c) max_deleted (c_max c)
         (filter (fun kv => negb (gc_collectable now grace (snd kv))) (c_kvs c)).

(* ---------------- sender side helpers: state.rs:429-436, 833-840 ---------------- *)
Definition stale_key_values (c : copy) (floor : N) : list (bytes * vv) :=
  filter (fun kv => floor <? v_ver (snd kv)) (c_kvs c).

Fixpoint insert_by_ver (e : bytes * vv) (l : list (bytes * vv)) : list (bytes * vv) :=
  match l with
  | [] => [e]
  | x :: r => if v_ver (snd e) <=? v_ver (snd x) then e :: l else x :: insert_by_ver e r
  end.
Definition sort_by_ver (l : list (bytes * vv)) : list (bytes * vv) :=
  fold_right insert_by_ver [] l.
(* StaleNode::stale_key_values: ascending versions (versions are distinct inside a copy) *)
Definition stale_sorted (c : copy) (floor : N) : list (bytes * vv) :=
  sort_by_ver (stale_key_values c floor).

Definition monotonic_property (c : copy) : N * N := (c_gc c, c_max c).
Definition lex_le (a b : N * N) : bool :=
  (fst a <? fst b) || ((fst a =? fst b) && (snd a <=? snd b)).
Definition lex_lt (a b : N * N) : bool :=
  (fst a <? fst b) || ((fst a =? fst b) && (snd a <? snd b)).
