(* Compute_lemmas.v — compute_partial_delta_respecting_mtu at the cluster level: for a
   well-formed cluster state, ANY digest, budget, scheduled set and (legal or illegal) shuffle
   outcome, it never aborts, stays within the budget, never names a scheduled member, and every
   node delta is a version-prefix of the member's stale entries (C07, C09, C14). *)
From Coq Require Import Lia Permutation.
From ChitchatModel Require Import Base SMap Ids Bytes Params NodeState Stream DeltaWire Message Cluster
  FD Chitchat SMap_lemmas NodeState_lemmas Builder_lemmas Stream_lemmas Agreement Inv DeltaRefine.

Definition nsorted (m : nmap) : Prop := sm_sorted id_cmp m.
Record cluster_inv (cs : cluster) : Prop := mkCLI {
  cli_sorted : nsorted (cs_nodes cs);
  cli_copies : forall i c, In (i, c) (cs_nodes cs) -> copy_inv c
}.

(* ---- candidates ---- *)
Lemma filter_map_in {A B} (f : A -> option B) l y : In y (filter_map f l) -> exists x, In x l /\ f x = Some y.
Proof.
  induction l as [|x r IH]; cbn; [intros []|].
  destruct (f x) eqn:E.
  - intros [<-|H]; [exists x; auto|]. destruct (IH H) as (x' & H1 & H2). exists x'. auto.
  - intros H. destruct (IH H) as (x' & H1 & H2). exists x'. auto.
Qed.

Lemma stale_candidate_some dg sched e n :
  stale_candidate dg sched e = Some n ->
  sn_id n = fst e /\ sn_copy n = snd e /\ in_ids (fst e) sched = false /\
  let '(dgc, dmax) := match dg_get (fst e) dg with Some g => (g_gc g, g_max g) | None => (0, 0) end in
  dmax < c_max (snd e) /\
  sn_from n = (if (dgc <? c_gc (snd e)) && (dmax <? c_gc (snd e)) then 0 else dmax).
Proof.
  destruct e as [i c]. unfold stale_candidate. cbn [fst snd].
  destruct (in_ids i sched); [discriminate|].
  destruct (dg_get i dg) as [g|].
  - destruct (c_max c <=? g_max g) eqn:E; [discriminate|]. apply N.leb_gt in E.
    destruct (staleness_score c _); [|discriminate]. intros [= <-]. cbn. auto.
  - destruct (c_max c <=? 0) eqn:E; [discriminate|]. apply N.leb_gt in E.
    destruct (staleness_score c _); [|discriminate]. intros [= <-]. cbn. auto.
Qed.

Lemma stale_nodes_ids cs dg sched :
  map sn_id (stale_nodes cs dg sched)
  = map fst (filter (fun e => match stale_candidate dg sched e with Some _ => true | None => false end) (cs_nodes cs)).
Proof.
  unfold stale_nodes. induction (cs_nodes cs) as [|e r IH]; cbn [filter_map filter map]; [reflexivity|].
  destruct (stale_candidate dg sched e) as [n|] eqn:E; [|exact IH].
  cbn [map]. rewrite IH. f_equal. apply (stale_candidate_some _ _ _ _ E).
Qed.

Lemma nodup_map_filter {A B} (g : A -> B) f (l : list A) : NoDup (map g l) -> NoDup (map g (filter f l)).
Proof.
  induction l as [|x r IH]; cbn; [auto|]. intros H. inversion H as [|? ? Hn Hr]; subst.
  destruct (f x); [|apply IH; exact Hr]. cbn. constructor; [|apply IH; exact Hr].
  intros Hin. apply Hn. apply in_map_iff in Hin as (y & Hy & Hin). apply filter_In in Hin as [Hin _].
  apply in_map_iff. exists y. auto.
Qed.

Lemma stale_nodes_nodup cs dg sched : nsorted (cs_nodes cs) -> NoDup (map sn_id (stale_nodes cs dg sched)).
Proof.
  intros Hs. rewrite stale_nodes_ids. apply nodup_map_filter.
  apply (sorted_nodup_keys id_cmp id_cmp_eq id_cmp_trans). exact Hs.
Qed.

(* ---- arrange yields a permutation of the candidates ---- *)
Lemma find_remove_perm i l n : find_sn i l = Some n -> Permutation l (n :: remove_sn i l).
Proof.
  induction l as [|x r IH]; cbn; [discriminate|].
  destruct (id_eqb i (sn_id x)).
  - intros [= ->]. apply Permutation_refl.
  - intros H. specialize (IH H). eapply perm_trans; [apply perm_skip; exact IH|apply perm_swap].
Qed.

Lemma take_hint_perm hint : forall cands a rest,
  take_hint hint cands = Some (a, rest) -> Permutation cands (a ++ rest).
Proof.
  induction hint as [|i r IH]; intros cands a rest; cbn.
  - intros [= <- <-]. apply Permutation_refl.
  - destruct (find_sn i cands) as [n|] eqn:Ef; [|discriminate].
    destruct (take_hint r (remove_sn i cands)) as [[a' rest']|] eqn:Et; [|discriminate].
    intros [= <- <-]. cbn. eapply perm_trans; [apply find_remove_perm; exact Ef|].
    apply perm_skip. apply IH. exact Et.
Qed.

Lemma insert_sn_perm n l : Permutation (insert_sn n l) (n :: l).
Proof.
  induction l as [|x r IH]; cbn; [apply Permutation_refl|].
  destruct (sn_before n x); [apply Permutation_refl|].
  eapply perm_trans; [apply perm_skip; exact IH|apply perm_swap].
Qed.

Lemma sort_sn_perm l : Permutation (fold_right insert_sn [] l) l.
Proof.
  induction l as [|x r IH]; cbn; [constructor|].
  eapply perm_trans; [apply insert_sn_perm|apply perm_skip; exact IH].
Qed.

Lemma arrange_perm hint cands l : arrange hint cands = Some l -> Permutation cands l.
Proof.
  unfold arrange. destruct (take_hint hint cands) as [[a rest]|] eqn:E; [|discriminate].
  intros [= <-]. eapply perm_trans; [apply (take_hint_perm hint); exact E|].
  apply Permutation_app_head. apply Permutation_sym. apply sort_sn_perm.
Qed.

Lemma asc_from_weaken lo lo' l : lo' <= lo -> asc_from lo l -> asc_from lo' l.
Proof. destruct l as [|m r]; cbn; [auto|]. intros H [H1 H2]. split; [lia|exact H2]. Qed.

Section Compute.
  Variable zc : bytes -> option bytes.
  Hypothesis zc_len : forall b c, zc b = Some c -> len c <= len b.

  (* what the computed delta looks like *)
  Record delta_shape (cs : cluster) (dg : digest) (sched : list id) (mtu : N) (x : delta) : Prop := mkDS' {
    dsh_len : dlen x <= mtu;
    dsh_pieces : exists ordered, Permutation (stale_nodes cs dg sched) ordered /\ pieces_of ordered (nds x)
  }.

  Theorem compute_delta_spec cs dg mtu sched ord :
    cluster_inv cs -> P_MIN_MTU <= mtu -> mtu <= u16_max ->
    compute_delta zc cs dg mtu sched ord = Err \/
    exists x, compute_delta zc cs dg mtu sched ord = Ok x /\ delta_shape cs dg sched mtu x.
  Proof.
    intros [Hs Hc] Hmin Hmax. unfold compute_delta.
    destruct (arrange ord (stale_nodes cs dg sched)) as [ordered|] eqn:Ea; [|left; reflexivity].
    destruct (staleness_desc ordered); [|left; reflexivity].
    right. unfold compute_delta_ordered, ds_with_mtu.
    destruct (mtu <? P_MIN_MTU) eqn:E; [apply N.ltb_lt in E; lia|]. cbn [rbind].
    pose proof (arrange_perm _ _ _ Ea) as Hperm.
    set (s0 := mkDS mtu new_builder (new_writer (N.min P_BLOCK_THRESHOLD mtu))).
    assert (Hok : ds_ok zc s0).
    { unfold ds_ok, s0. cbn [ds_w ds_mtu new_writer w_thr w_pend].
      assert (0 < P_BLOCK_THRESHOLD) by (vm_compute; reflexivity).
      assert (0 < P_MIN_MTU) by (vm_compute; reflexivity).
      split; [lia|]. split; [cbn; lia|]. split; [|exact Hmax].
      rewrite (finish_new zc). assert (1 <= P_MIN_MTU) by (vm_compute; discriminate). lia. }
    destruct (delta_loop_spec zc zc_len ordered s0 Hok) as (x & ps & Hx & Hlen & Hnds & Hps).
    - eapply Permutation_NoDup; [apply Permutation_map; exact Hperm|].
      apply stale_nodes_nodup. exact Hs.
    - intros n _ [].
    - intros n Hn. unfold node_ok, sorted_of.
      apply (Permutation_in _ (Permutation_sym Hperm)) in Hn.
      unfold stale_nodes in Hn. apply filter_map_in in Hn as (e & He & Hcand).
      destruct (stale_candidate_some _ _ _ _ Hcand) as (_ & Hcopy & _).
      rewrite Hcopy. apply (asc_from_weaken (sn_from n)); [lia|].
      apply stale_sorted_strict. destruct e as [i c]. eapply Hc. exact He.
    - exists x. split; [exact Hx|]. split; [exact Hlen|].
      exists ordered. split; [exact Hperm|]. cbn [s0 ds_b new_builder b_all b_done b_cur app] in Hnds.
      rewrite Hnds. exact Hps.
  Qed.
End Compute.

(* ---- from pieces to the statement of C07: version-prefix, nothing at or below the start ---- *)
Lemma asc_from_all_above lo l : asc_from lo l -> forall m, In m l -> lo < m_ver m.
Proof.
  revert lo. induction l as [|x r IH]; intros lo; cbn; [intros _ m []|].
  intros [H1 H2] m [<-|Hm]; [exact H1|]. specialize (IH _ H2 m Hm). lia.
Qed.

Lemma filter_all_above lo (l : list kvm) :
  (forall m, In m l -> lo < m_ver m) -> filter (fun m => m_ver m <=? lo) l = [].
Proof.
  induction l as [|x r IH]; intros H; [reflexivity|]. cbn [filter].
  assert (E : m_ver x <=? lo = false) by (apply N.leb_gt; apply H; left; reflexivity).
  rewrite E. apply IH. intros m Hm. apply H. right. exact Hm.
Qed.

Lemma firstn_asc_from lo (l : list kvm) j : asc_from lo l -> asc_from lo (firstn j l).
Proof.
  revert lo j. induction l as [|y r IHr]; intros v j; destruct j; cbn; auto.
  intros [H1 H2]. split; [assumption|]. apply IHr. assumption.
Qed.

Lemma filter_le_last lo (l : list kvm) j :
  asc_from lo l -> filter (fun m => m_ver m <=? last_kv_ver lo (firstn j l)) l = firstn j l.
Proof.
  revert lo j. induction l as [|x r IH]; intros lo j Ha; [destruct j; reflexivity|].
  destruct j as [|j].
  - cbn [firstn last_kv_ver]. apply filter_all_above. apply asc_from_all_above. exact Ha.
  - cbn [asc_from] in Ha. destruct Ha as [H1 H2].
    cbn [firstn last_kv_ver filter].
    pose proof (asc_from_lo (m_ver x) (firstn j r) (firstn_asc_from _ _ _ H2)) as Hge.
    assert (E : m_ver x <=? last_kv_ver (m_ver x) (firstn j r) = true) by (apply N.leb_le; exact Hge).
    rewrite E. f_equal. apply IH. exact H2.
Qed.
