(* Routed.v — the routed network of Isolation.v ([rstep]: packets have a sender and an addressee,
   a reply goes back to the sender) is simulated by the global relation of Reach.v ([gstep] with
   strict = false: any message ever sent may reach any node).  Every world reachable in the routed
   network is therefore the world of a [reachable] state whose sent-list contains every packet's
   message: every invariant proved over [reachable zc false] holds in the routed network too. *)
From Coq Require Import Lia.
From ChitchatModel Require Import Base SMap Ids Bytes Params NodeState Stream DeltaWire Message Cluster
  FD Chitchat World SMap_lemmas FD_lemmas Liveness_lemmas Reach ReachFD FdKnown Isolation.

Section Sim.
  Variable zc : bytes -> option bytes.

  Definition simulates (g : gstate) (r : rstate) : Prop :=
    g_w g = r_w r /\ forall pk, In pk (r_net r) -> In (p_msg pk) (g_sent g).

  Lemma rstep_simulated r r' g :
    rstep zc r r' -> simulates g r -> exists g', gstep zc false g g' /\ simulates g' r'.
  Proof.
    intros Hstep [Hw Hnet]. destruct g as [w sent T]. cbn [g_w g_sent] in *. subst w.
    destruct Hstep.
    - eexists. split; [apply (GS_join zc false (mkG (r_w r) sent T) cfg initial); exact H|].
      split; [reflexivity|exact Hnet].
    - eexists. split; [apply (GS_write zc false (mkG (r_w r) sent T) a n f); assumption|].
      split; [reflexivity|exact Hnet].
    - eexists. split; [apply (GS_gc zc false (mkG (r_w r) sent T) a n); assumption|].
      split; [reflexivity|exact Hnet].
    - eexists. split; [apply (GS_heartbeat zc false (mkG (r_w r) sent T) a n); assumption|].
      split; [reflexivity|exact Hnet].
    - eexists. split; [apply (GS_tick zc false (mkG (r_w r) sent T) dt)|].
      split; [reflexivity|exact Hnet].
    - eexists. split; [apply (GS_eval zc false (mkG (r_w r) sent T) a n oracle); assumption|].
      split; [reflexivity|exact Hnet].
    - eexists. split; [apply (GS_syn zc false (mkG (r_w r) sent T) a n); assumption|].
      split; [reflexivity|]. cbn [r_net g_sent p_msg]. intros pk [<-|Hpk]; [left; reflexivity|right; apply Hnet; exact Hpk].
    - eexists. split.
      + apply (GS_deliver zc false (mkG (r_w r) sent T) (p_dst pk) n (p_msg pk) ord n' reply evs);
          [assumption|apply Hnet; assumption|discriminate|assumption].
      + split; [reflexivity|]. cbn [r_net g_sent set_node]. intros pk' Hpk'.
        destruct reply as [m|]; cbn [opt_cons].
        * destruct Hpk' as [<-|Hpk']; [left; reflexivity|right; apply Hnet; exact Hpk'].
        * apply Hnet; exact Hpk'.
  Qed.

  Theorem rreachable_simulated : forall r, rreachable zc r -> exists g, reachable zc false g /\ simulates g r.
  Proof.
    induction 1 as [|r r' Hr [g [Hg Hsim]] Hstep].
    - exists (g_init). split; [apply R_init|]. split; [reflexivity|intros pk []].
    - destruct (rstep_simulated r r' g Hstep Hsim) as (g' & Hs & Hsim').
      exists g'. split; [eapply R_step; eauto|exact Hsim'].
  Qed.

  (* transfer: a property of every node of every [reachable zc false] state holds of every node of
     every state of the routed network *)
  Corollary routed_nodes_inherit (P : node -> Prop) :
    (forall g, reachable zc false g -> forall a n, node_at g a = Some n -> P n) ->
    forall r, rreachable zc r -> forall a n, rnode r a = Some n -> P n.
  Proof.
    intros HP r Hr a n Hn. destruct (rreachable_simulated r Hr) as (g & Hg & Hw & _).
    apply (HP g Hg a). unfold node_at. rewrite Hw. exact Hn.
  Qed.

  Hypothesis zc_len : forall b c, zc b = Some c -> len c <= len b.

  (* the detector of a node of the routed network says nothing about a member of another cluster:
     not live, not dead, no sampling window *)
  Theorem detector_names_only_own_cluster : forall r, rreachable zc r ->
    forall a b na nb, rnode r a = Some na -> rnode r b = Some nb -> cluster_of na <> cluster_of nb ->
      ~ In (self_id nb) (live_nodes na) /\ ~ In (self_id nb) (dead_nodes na) /\
      wm_get (self_id nb) (fd_samples (nd_fd na)) = None.
  Proof.
    intros r Hr a b na nb Ha Hb Hne.
    pose proof (two_clusters_isolated zc r Hr a b na nb Ha Hb Hne) as Hnone.
    pose proof (routed_nodes_inherit fd_known (reachable_fd_known zc zc_len false) r Hr a na Ha) as [_ Hk].
    pose proof (routed_nodes_inherit (fd_good) (reachable_fd_good zc zc_len false) r Hr a na Ha) as [[Hl Hd _] _].
    assert (Hnm : ~ mentions (nd_fd na) (self_id nb)).
    { intros Hm. apply Hk in Hm. apply Hm. exact Hnone. }
    split; [|split].
    - unfold live_nodes. intros [E|Hin].
      + destruct (rreachable_iso zc r Hr) as [Hids _ _]. assert (a = b) by (eapply Hids; eauto). subst b.
        rewrite Ha in Hb. injection Hb as <-. apply Hne. reflexivity.
      + apply Hnm. left. unfold fd_live_nodes in Hin. apply in_map_iff in Hin as ([j u] & <- & Hin). cbn [fst].
        unfold is_mem, sm_mem. rewrite (sorted_in_get id_cmp id_cmp_eq id_cmp_antisym id_cmp_trans _ _ _ Hl Hin). reflexivity.
    - unfold dead_nodes, fd_dead_nodes. intros Hin. apply Hnm. right; left.
      apply in_map_iff in Hin as ([j t] & <- & Hin). cbn [fst].
      unfold dm_get. rewrite (sorted_in_get id_cmp id_cmp_eq id_cmp_antisym id_cmp_trans _ _ _ Hd Hin). discriminate.
    - destruct (wm_get (self_id nb) (fd_samples (nd_fd na))) eqn:E; [|reflexivity].
      exfalso. apply Hnm. right; right. rewrite E. discriminate.
  Qed.
End Sim.
