(* FD_lemmas.v — phi-accrual detector over exact arithmetic: completeness with bounded delay,
   no liveness from fewer than two reports, steady heartbeats stay live (C10, C11). *)
From Coq Require Import Lia ZArith.
From ChitchatModel Require Import Base SMap Ids Params FD SMap_lemmas.
Local Open Scope Z_scope.

Definition cfg_ok (cfg : fdconfig) : Prop :=
  0 <= phi_num cfg /\ 0 < phi_den cfg /\ (1 <= window_size cfg)%nat /\
  0 <= max_interval cfg /\ 0 <= initial_interval cfg.

(* every stored interval was accepted: it is at most max_interval (and time does not run backwards) *)
Definition win_inv (cfg : fdconfig) (w : window) : Prop :=
  Forall (fun v => 0 <= v <= max_interval cfg) (wd_vals w) /\ (length (wd_vals w) <= window_size cfg)%nat.

Lemma new_window_inv cfg : win_inv cfg new_window.
Proof. split; [constructor|cbn; lia]. Qed.

Lemma Forall_firstn {A} (P : A -> Prop) n l : Forall P l -> Forall P (firstn n l).
Proof. revert l. induction n as [|n IH]; intros [|x r] H; cbn; try constructor; inversion H; subst; auto. Qed.

Lemma win_report_inv cfg now w :
  win_inv cfg w -> (forall t, wd_last w = Some t -> t <= now) -> win_inv cfg (win_report cfg now w).
Proof.
  intros [Hv Hl] Hmono. unfold win_report. destruct (wd_last w) as [last|] eqn:E; [|split; assumption].
  destruct (now - last <=? max_interval cfg) eqn:Ei; [|split; assumption].
  apply Z.leb_le in Ei. specialize (Hmono last eq_refl). split; cbn [wd_vals].
  - apply Forall_firstn. constructor; [lia|exact Hv].
  - rewrite firstn_length. lia.
Qed.

Lemma win_reset_inv cfg w : win_inv cfg w -> win_inv cfg (win_reset w).
Proof. intros _. split; [constructor|cbn; lia]. Qed.

Lemma zsum_bounds lo hi l : Forall (fun v => lo <= v <= hi) l ->
  lo * Z.of_nat (length l) <= zsum l <= hi * Z.of_nat (length l).
Proof.
  induction 1 as [|x r Hx Hr IH]; cbn [zsum fold_right length]; [lia|].
  fold (zsum r). rewrite Nat2Z.inj_succ. nia.
Qed.

Lemma prior_weight_pos : 0 < prior_weight.
Proof. vm_compute. reflexivity. Qed.

(* C10: silent for longer than threshold * max(max_interval, initial_interval) => not alive,
   whatever the earlier heartbeat pattern (the window's content). *)
Theorem silent_too_long_not_alive cfg now w last :
  cfg_ok cfg -> win_inv cfg w -> wd_last w = Some last ->
  phi_num cfg * Z.max (max_interval cfg) (initial_interval cfg) < (now - last) * phi_den cfg ->
  win_alive cfg now w = false.
Proof.
  intros (Hn & Hd & Hw & Hmi & Hii) [Hv _] Hlast Hsil.
  unfold win_alive, phi_sides, win_mean_num. rewrite Hlast.
  destruct (wd_vals w) as [|v0 r] eqn:Ev; [reflexivity|]. rewrite <- Ev in *.
  apply andb_false_iff. right. apply Z.leb_gt.
  pose proof (zsum_bounds 0 (max_interval cfg) (wd_vals w) Hv) as [_ Hs].
  pose proof prior_weight_pos as Hp.
  set (n := Z.of_nat (length (wd_vals w))) in *.
  set (M := Z.max (max_interval cfg) (initial_interval cfg)) in *.
  assert (Hn0 : 0 <= n) by (unfold n; lia).
  assert (HM1 : max_interval cfg <= M) by (unfold M; lia).
  assert (HM2 : initial_interval cfg <= M) by (unfold M; lia).
  (* rhs = num * (sum + w*prior) <= num * M * (n + w) < elapsed*den*(n+w) = lhs *)
  assert (H1 : max_interval cfg * n <= M * n) by (apply Z.mul_le_mono_nonneg_r; assumption).
  assert (H2 : prior_weight * initial_interval cfg <= prior_weight * M) by (apply Z.mul_le_mono_nonneg_l; lia).
  assert (H3 : zsum (wd_vals w) + prior_weight * initial_interval cfg <= M * (n + prior_weight)) by lia.
  assert (Hrhs : phi_num cfg * (zsum (wd_vals w) + prior_weight * initial_interval cfg)
                 <= phi_num cfg * (M * (n + prior_weight))) by (apply Z.mul_le_mono_nonneg_l; assumption).
  assert (Hpos : 0 < n + prior_weight) by lia.
  assert (Hlhs : phi_num cfg * M * (n + prior_weight) < (now - last) * phi_den cfg * (n + prior_weight))
    by (apply Z.mul_lt_mono_pos_r; assumption).
  lia.
Qed.

(* fewer than two reports since the window was created: no interval, phi undefined, not alive *)
Theorem no_interval_not_alive cfg now w : wd_vals w = [] -> win_alive cfg now w = false.
Proof. intros H. unfold win_alive, phi_sides. rewrite H. reflexivity. Qed.

Theorem first_report_gives_no_interval cfg t : wd_vals (win_report cfg t new_window) = [].
Proof. reflexivity. Qed.

Theorem never_reported_not_alive cfg now w : wd_last w = None -> win_alive cfg now w = false.
Proof. intros H. unfold win_alive, phi_sides. rewrite H. destruct (wd_vals w); reflexivity. Qed.

(* C11: intervals within [a,b], b <= max_interval, evaluated no later than b after the last
   report, threshold >= b / min(a, initial_interval)  =>  alive *)
Theorem steady_stays_alive cfg now w last a b :
  cfg_ok cfg -> wd_last w = Some last -> wd_vals w <> [] ->
  Forall (fun v => a <= v <= b) (wd_vals w) ->
  0 < Z.min a (initial_interval cfg) -> 0 <= now - last <= b ->
  b * phi_den cfg <= phi_num cfg * Z.min a (initial_interval cfg) ->
  win_alive cfg now w = true.
Proof.
  intros (Hn & Hd & Hw & Hmi & Hii) Hlast Hne Hv Hmin Hel Hthr.
  unfold win_alive, phi_sides, win_mean_num. rewrite Hlast.
  destruct (wd_vals w) as [|v0 r] eqn:Ev; [congruence|]. rewrite <- Ev in *.
  pose proof (zsum_bounds a b (wd_vals w) Hv) as [Hs _].
  pose proof prior_weight_pos as Hp.
  set (n := Z.of_nat (length (wd_vals w))) in *.
  assert (Hn1 : 1 <= n) by (unfold n; rewrite Ev; cbn [length]; lia).
  set (m := Z.min a (initial_interval cfg)) in *.
  assert (Hma : m <= a) by (unfold m; lia).
  assert (Hmi' : m <= initial_interval cfg) by (unfold m; lia).
  assert (Hn0 : 0 <= n) by lia.
  assert (G1 : m * n <= a * n) by (apply Z.mul_le_mono_nonneg_r; assumption).
  assert (G2 : prior_weight * m <= prior_weight * initial_interval cfg) by (apply Z.mul_le_mono_nonneg_l; lia).
  assert (Hmean : m * (n + prior_weight) <= zsum (wd_vals w) + prior_weight * initial_interval cfg) by lia.
  assert (Hpos : 0 < n + prior_weight) by lia.
  assert (Hmpos : 0 < m * (n + prior_weight)) by (apply Z.mul_pos_pos; assumption).
  apply andb_true_iff. split; [apply Z.ltb_lt; lia|]. apply Z.leb_le.
  assert (K1 : (now - last) * phi_den cfg <= b * phi_den cfg) by (apply Z.mul_le_mono_nonneg_r; lia).
  assert (K2 : (now - last) * phi_den cfg * (n + prior_weight) <= phi_num cfg * m * (n + prior_weight))
    by (apply Z.mul_le_mono_nonneg_r; lia).
  assert (K3 : phi_num cfg * (m * (n + prior_weight)) <= phi_num cfg * (zsum (wd_vals w) + prior_weight * initial_interval cfg))
    by (apply Z.mul_le_mono_nonneg_l; assumption).
  lia.
Qed.

Lemma id_dec_eq (a b : id) : {a = b} + {a <> b}.
Proof.
  destruct (id_cmp a b) eqn:E.
  - left. apply id_cmp_eq. exact E.
  - right. intros ->. rewrite id_cmp_refl in E. discriminate.
  - right. intros ->. rewrite id_cmp_refl in E. discriminate.
Qed.

(* ---------------- the detector's sets ---------------- *)
Definition iset_sorted (s : iset) : Prop := sm_sorted id_cmp s.
Definition dmap_sorted (d : dmap) : Prop := sm_sorted id_cmp d.

Record fd_inv (f : fd) : Prop := mkFDI {
  fdi_live : iset_sorted (fd_live f);
  fdi_dead : dmap_sorted (fd_dead f);
  fdi_disjoint : forall i, is_mem i (fd_live f) = true -> dm_get i (fd_dead f) = None
}.

Lemma new_fd_inv : fd_inv new_fd.
Proof. split; cbn; auto; intros i H; discriminate. Qed.

Section Gen.
  Context {V : Type}.
  Lemma get_remove_same (k : id) (m : smap id V) :
    sm_sorted id_cmp m -> sm_get id_cmp k (sm_remove id_cmp k m) = None.
  Proof.
    induction m as [|[k0 v0] r IH]; intros Hs; [reflexivity|].
    apply (sorted_cons_iff id_cmp id_cmp_trans) in Hs as [Hab Hs]. cbn [sm_remove].
    destruct (id_cmp k k0) eqn:E.
    - apply id_cmp_eq in E. subst k0.
      destruct (sm_get id_cmp k r) as [v|] eqn:G; [|reflexivity].
      apply (sm_get_in id_cmp id_cmp_eq) in G. specialize (Hab _ _ G). rewrite id_cmp_refl in Hab. discriminate.
    - cbn [sm_get]. rewrite E. apply IH. exact Hs.
    - cbn [sm_get]. rewrite E. apply IH. exact Hs.
  Qed.
  Lemma get_remove_other (k j : id) (m : smap id V) :
    k <> j -> sm_get id_cmp j (sm_remove id_cmp k m) = sm_get id_cmp j m.
  Proof.
    intros Hne. induction m as [|[k0 v0] r IH]; [reflexivity|]. cbn [sm_remove].
    destruct (id_cmp k k0) eqn:E.
    - apply id_cmp_eq in E. subst k0. cbn [sm_get].
      destruct (id_cmp j k) eqn:E2; [apply id_cmp_eq in E2; congruence|reflexivity|reflexivity].
    - cbn [sm_get]. rewrite IH. reflexivity.
    - cbn [sm_get]. rewrite IH. reflexivity.
  Qed.
End Gen.

Lemma is_mem_insert_same i s : is_mem i (is_insert i s) = true.
Proof. unfold is_mem, sm_mem, is_insert. rewrite (sm_get_insert_same id_cmp id_cmp_eq). reflexivity. Qed.
Lemma is_mem_insert_other i j s : i <> j -> is_mem j (is_insert i s) = is_mem j s.
Proof. intros H. unfold is_mem, sm_mem, is_insert. rewrite (sm_get_insert_other id_cmp id_cmp_eq) by exact H. reflexivity. Qed.
Lemma is_mem_remove_same i s : iset_sorted s -> is_mem i (is_remove i s) = false.
Proof. intros H. unfold is_mem, sm_mem, is_remove. rewrite get_remove_same by exact H. reflexivity. Qed.
Lemma is_mem_remove_other i j s : i <> j -> is_mem j (is_remove i s) = is_mem j s.
Proof. intros H. unfold is_mem, sm_mem, is_remove. rewrite get_remove_other by exact H. reflexivity. Qed.

(* one liveness update keeps the invariant and classifies [i] in exactly one set *)
Theorem fd_update_node_liveness_spec cfg now f i oracle :
  fd_inv f ->
  let f' := fd_update_node_liveness cfg now f i oracle in
  fd_inv f' /\
  (is_mem i (fd_live f') = true /\ dm_get i (fd_dead f') = None \/
   is_mem i (fd_live f') = false /\ dm_get i (fd_dead f') <> None) /\
  (forall j, j <> i -> is_mem j (fd_live f') = is_mem j (fd_live f) /\ dm_get j (fd_dead f') = dm_get j (fd_dead f)) /\
  (* the instant of death is the instant of the FIRST evaluation of the current dead phase *)
  (forall t, dm_get i (fd_dead f) = Some t -> dm_get i (fd_dead f') = Some t \/ dm_get i (fd_dead f') = None).
Proof.
  intros [Hl Hd Hdis]. cbn zeta. unfold fd_update_node_liveness.
  destruct (fd_is_alive cfg now f i oracle).
  - cbn [fd_live fd_dead]. split; [|split; [|split]].
    + split; cbn [fd_live fd_dead].
      * apply (sm_insert_sorted id_cmp id_cmp_eq id_cmp_antisym id_cmp_trans). exact Hl.
      * apply (sm_remove_sorted id_cmp id_cmp_trans). exact Hd.
      * intros j Hj. destruct (id_dec_eq i j) as [<-|Hne].
        -- unfold dm_get, dm_remove. apply get_remove_same. exact Hd.
        -- unfold dm_get, dm_remove. rewrite get_remove_other by exact Hne.
           apply Hdis. rewrite is_mem_insert_other in Hj by exact Hne. exact Hj.
    + left. split; [apply is_mem_insert_same|unfold dm_get, dm_remove; apply get_remove_same; exact Hd].
    + intros j Hne. split; [apply is_mem_insert_other; congruence|].
      unfold dm_get, dm_remove. apply get_remove_other. congruence.
    + intros t _. right. unfold dm_get, dm_remove. apply get_remove_same. exact Hd.
  - cbn [fd_live fd_dead].
    assert (Hdead' : dmap_sorted (match dm_get i (fd_dead f) with Some _ => fd_dead f | None => dm_insert i now (fd_dead f) end)).
    { destruct (dm_get i (fd_dead f)); [exact Hd|].
      apply (sm_insert_sorted id_cmp id_cmp_eq id_cmp_antisym id_cmp_trans). exact Hd. }
    split; [|split; [|split]].
    + split; cbn [fd_live fd_dead].
      * apply (sm_remove_sorted id_cmp id_cmp_trans). exact Hl.
      * exact Hdead'.
      * intros j Hj. destruct (id_dec_eq i j) as [<-|Hne].
        -- rewrite is_mem_remove_same in Hj by exact Hl. discriminate.
        -- rewrite is_mem_remove_other in Hj by exact Hne.
           destruct (dm_get i (fd_dead f)); [apply Hdis; exact Hj|].
           unfold dm_get, dm_insert. rewrite (sm_get_insert_other id_cmp id_cmp_eq) by exact Hne. apply Hdis. exact Hj.
    + right. split; [apply is_mem_remove_same; exact Hl|].
      destruct (dm_get i (fd_dead f)) as [t|] eqn:E; [rewrite E; discriminate|].
      unfold dm_get, dm_insert. rewrite (sm_get_insert_same id_cmp id_cmp_eq). discriminate.
    + intros j Hne. split; [apply is_mem_remove_other; congruence|].
      destruct (dm_get i (fd_dead f)); [reflexivity|].
      unfold dm_get, dm_insert. apply (sm_get_insert_other id_cmp id_cmp_eq). congruence.
    + intros t Ht. left. rewrite Ht. exact Ht.
Qed.

Lemma fd_update_verdict cfg now f i oracle :
  fd_inv f ->
  let f' := fd_update_node_liveness cfg now f i oracle in
  if fd_is_alive cfg now f i oracle
  then is_mem i (fd_live f') = true /\ dm_get i (fd_dead f') = None
  else is_mem i (fd_live f') = false /\ dm_get i (fd_dead f') <> None.
Proof.
  intros [Hl Hd Hdis]. cbn zeta. unfold fd_update_node_liveness.
  destruct (fd_is_alive cfg now f i oracle); cbn [fd_live fd_dead].
  - split; [apply is_mem_insert_same|unfold dm_get, dm_remove; apply get_remove_same; exact Hd].
  - split; [apply is_mem_remove_same; exact Hl|].
    destruct (dm_get i (fd_dead f)) as [t|] eqn:E; [rewrite E; discriminate|].
    unfold dm_get, dm_insert. rewrite (sm_get_insert_same id_cmp id_cmp_eq). discriminate.
Qed.

(* all windows of a detector are well-formed; reports never go back in time *)
Definition fd_windows_ok (cfg : fdconfig) (now : Z) (f : fd) : Prop :=
  forall i w, wm_get i (fd_samples f) = Some w ->
    win_inv cfg w /\ (forall t, wd_last w = Some t -> t <= now).
