(* Listener.v — prefix subscriptions and dispatch (listener.rs:80-130). Model file.
   BTreeMap<String, HashMap<usize, callback>>: a sorted map from prefix to the ids subscribed
   under it (the HashMap's iteration order is arbitrary: calls are compared as multisets). *)
From ChitchatModel Require Import Base SMap Bytes.

Definition lmap := smap bytes (list N).
Definition lm_get := @sm_get bytes (list N) bytes_cmp.
Definition lm_insert := @sm_insert bytes (list N) bytes_cmp.

(* listener.rs:87-95 *)
Definition subscribe (m : lmap) (prefix : bytes) (lid : N) : lmap :=
  match lm_get prefix m with
  | Some ids => lm_insert prefix (ids ++ [lid]) m
  | None => lm_insert prefix [lid] m
  end.

(* listener.rs:125-129 (ListenerHandle::drop) *)
Definition unsubscribe (m : lmap) (prefix : bytes) (lid : N) : lmap :=
  match lm_get prefix m with
  | Some ids => lm_insert prefix (filter (fun i => negb (i =? lid)) ids) m
  | None => m
  end.

Definition le_b (a b : bytes) : bool := match bytes_cmp a b with Gt => false | _ => true end.

(* a call: (listener id, key stripped of the prefix, value) *)
Definition call := (N * bytes * bytes)%type.

(* listener.rs:97-123.  The range scan from the key's first character (inclusive) to the key
   (inclusive) over a sorted map is the filter below. *)
Definition trigger_event (m : lmap) (key value : bytes) : list call :=
  let for_empty := match lm_get [] m with
                   | Some ids => map (fun i => (i, key, value)) ids
                   | None => []
                   end in
  match key with
  | [] => for_empty
  | _ =>
      let lo := firstn (first_char_len key) key in
      for_empty ++
      flat_map (fun e : bytes * list N =>
                  if le_b lo (fst e) && le_b (fst e) key then
                    match strip_prefix (fst e) key with
                    | Some k' => map (fun i => (i, k', value)) (snd e)
                    | None => []
                    end
                  else []) m
  end.

(* the specification: every subscription whose prefix is a prefix of the key, once *)
Definition expected_calls (m : lmap) (key value : bytes) : list call :=
  flat_map (fun e : bytes * list N =>
              match strip_prefix (fst e) key with
              | Some k' => map (fun i => (i, k', value)) (snd e)
              | None => []
              end) m.
