(* Stream_lemmas.v — the length upper bound of CompressedStreamWriter is sound for EVERY
   compressor that does not overrun its output buffer (C07).  No compression ratio is assumed. *)
From Coq Require Import Lia ZifyBool ZifyNat ZifyN.
From ChitchatModel Require Import Base Bytes Params Stream.
Ltac Zify.zify_post_hook ::= Z.div_mod_to_equations.

Lemma meta_len_ok : 3 <= P_BLOCK_META_LEN.
Proof. vm_compute. discriminate. Qed.

Lemma len_app (a b : bytes) : len (a ++ b) = len a + len b.
Proof. unfold len. rewrite app_length. lia. Qed.
Lemma len_nil : len [] = 0.
Proof. reflexivity. Qed.
Lemma len_le_bytes n v : len (le_bytes n v) = N.of_nat n.
Proof. unfold len. revert v. induction n as [|n IH]; intros v; cbn [le_bytes length]; [reflexivity|]. rewrite !Nat2N.inj_succ, IH. reflexivity. Qed.
Lemma len_put_u8 v : len (put_u8 v) = 1.
Proof. apply len_le_bytes. Qed.
Lemma len_put_u16 v : len (put_u16 v) = 2.
Proof. apply len_le_bytes. Qed.
Lemma len_put_u64 v : len (put_u64 v) = 8.
Proof. apply len_le_bytes. Qed.
Lemma len_firstn n (b : bytes) : len (firstn n b) = N.min (N.of_nat n) (len b).
Proof. unfold len. rewrite firstn_length. lia. Qed.
Lemma len_skipn n (b : bytes) : len (skipn n b) = len b - N.of_nat n.
Proof. unfold len. rewrite skipn_length. lia. Qed.

Lemma div_ceil_step a thr : 0 < thr -> thr < a -> div_ceil (a - thr) thr + 1 = div_ceil a thr.
Proof.
  intros Ht Ha. unfold div_ceil.
  replace (a + thr - 1) with ((a - thr + thr - 1) + 1 * thr) by lia.
  rewrite N.div_add by lia. lia.
Qed.
Lemma div_ceil_pos a thr : 0 < thr -> 0 < a -> 1 <= div_ceil a thr.
Proof.
  intros Ht Ha. unfold div_ceil.
  replace (a + thr - 1) with ((a - 1) + 1 * thr) by lia.
  rewrite N.div_add by lia. rewrite N.add_comm. apply N.le_add_r.
Qed.
Lemma div_ceil_zero thr : 0 < thr -> div_ceil 0 thr = 0.
Proof. intros Ht. unfold div_ceil. apply N.div_small. lia. Qed.

Section Bound.
  Variable zc : bytes -> option bytes.
  Hypothesis zc_len : forall b c, zc b = Some c -> len c <= len b.

  (* potential: bytes already emitted + worst case for what is still pending *)
  Definition phi (w : writer) : N :=
    len (w_out w) + P_BLOCK_META_LEN * div_ceil (len (w_pend w)) (w_thr w) + len (w_pend w).

  Lemma flush_block_big w :
    0 < w_thr w -> w_thr w < len (w_pend w) ->
    let w' := flush_block zc w in
    phi w' <= phi w /\ len (w_pend w') = len (w_pend w) - w_thr w /\ w_thr w' = w_thr w.
  Proof.
    intros Ht Hp. unfold flush_block.
    destruct (w_pend w) as [|b0 pend0] eqn:Epend; [cbn in Hp; lia|].
    rewrite <- Epend in *.
    assert (Hmin : N.min (len (w_pend w)) (w_thr w) = w_thr w) by lia.
    rewrite Hmin.
    set (n := N.to_nat (w_thr w)).
    assert (Hblk : len (firstn n (w_pend w)) = w_thr w).
    { rewrite len_firstn. unfold n. rewrite N2Nat.id. lia. }
    assert (Hrest : len (skipn n (w_pend w)) = len (w_pend w) - w_thr w).
    { rewrite len_skipn. unfold n. rewrite N2Nat.id. reflexivity. }
    pose proof meta_len_ok as Hm.
    pose proof (div_ceil_step (len (w_pend w)) (w_thr w) Ht Hp) as Hstep.
    destruct (zc (firstn n (w_pend w))) as [c|] eqn:Ez; cbn zeta; unfold phi; cbn [w_out w_pend w_thr].
    - apply zc_len in Ez. rewrite Hblk in Ez.
      rewrite !len_app, len_put_u8, len_put_u16, Hrest. split; [|split; reflexivity]. nia.
    - rewrite !len_app, len_put_u8, len_put_u16, Hblk, Hrest. split; [|split; reflexivity]. nia.
  Qed.

  Lemma flush_while_spec fuel : forall w,
    0 < w_thr w -> (length (w_pend w) <= fuel)%nat ->
    let w' := flush_while zc fuel w in
    phi w' <= phi w /\ len (w_pend w') <= w_thr w /\ w_thr w' = w_thr w.
  Proof.
    induction fuel as [|f IH]; intros w Ht Hf; cbn [flush_while].
    - assert (w_pend w = []) by (destruct (w_pend w); [reflexivity|cbn in Hf; lia]).
      cbn zeta. rewrite H. cbn. split; [lia|split; [lia|reflexivity]].
    - destruct (w_thr w <? len (w_pend w)) eqn:E.
      + apply N.ltb_lt in E.
        destruct (flush_block_big w Ht E) as (H1 & H2 & H3).
        specialize (IH (flush_block zc w)). cbn zeta in IH.
        destruct IH as (I1 & I2 & I3).
        * rewrite H3. exact Ht.
        * unfold len in H2. lia.
        * cbn zeta. rewrite H3 in *. split; [lia|split; [exact I2|exact I3]].
      + apply N.ltb_ge in E. cbn zeta. split; [lia|split; [exact E|reflexivity]].
  Qed.

  Lemma append_spec w item w' :
    0 < w_thr w -> append zc w item = Ok w' ->
    phi w' <= len (w_out w) + P_BLOCK_META_LEN * div_ceil (len (w_pend w) + len item) (w_thr w)
              + (len (w_pend w) + len item)
    /\ len (w_pend w') <= w_thr w /\ w_thr w' = w_thr w.
  Proof.
    intros Ht. unfold append. destruct (u16_max <? len item); [discriminate|].
    intros [= <-].
    set (w1 := mkW (w_out w) (w_pend w ++ item) (w_thr w)).
    destruct (flush_while_spec (length (w_pend w1)) w1 Ht (le_n _)) as (H1 & H2 & H3).
    cbn zeta in *. split; [|split; assumption].
    unfold phi in H1 at 2. cbn [w1 w_out w_pend w_thr] in H1. rewrite len_app in H1. exact H1.
  Qed.

  Lemma finish_len w :
    0 < w_thr w -> len (w_pend w) <= w_thr w -> len (finish zc w) <= phi w + 1.
  Proof.
    intros Ht Hp. unfold finish, flush_block, phi.
    pose proof meta_len_ok as Hm.
    destruct (w_pend w) as [|b0 pend0] eqn:Epend.
    - rewrite len_app, len_put_u8. cbn [len length]. lia.
    - rewrite <- Epend in *.
      assert (Hpos : 0 < len (w_pend w)) by (rewrite Epend; cbn; lia).
      pose proof (div_ceil_pos (len (w_pend w)) (w_thr w) Ht Hpos) as Hc.
      assert (Hmin : N.min (len (w_pend w)) (w_thr w) = len (w_pend w)) by lia.
      rewrite Hmin.
      assert (Hblk : firstn (N.to_nat (len (w_pend w))) (w_pend w) = w_pend w).
      { unfold len. rewrite Nat2N.id. apply firstn_all. }
      rewrite Hblk.
      destruct (zc (w_pend w)) as [c|] eqn:Ez; cbn [w_out].
      + apply zc_len in Ez. rewrite !len_app, len_put_u8, len_put_u16, len_put_u8. nia.
      + rewrite !len_app, len_put_u8, len_put_u16, len_put_u8. nia.
  Qed.

  (* The announced upper bound is an upper bound on what finish will emit after the append. *)
  Theorem upperbound_sound w item w' ub :
    0 < w_thr w -> len (w_pend w) <= w_thr w ->
    upperbound_after w (len item) = Some ub ->
    append zc w item = Ok w' ->
    len (finish zc w') <= ub /\ len (w_pend w') <= w_thr w' /\ w_thr w' = w_thr w.
  Proof.
    intros Ht Hp Hub Happ.
    destruct (append_spec w item w' Ht Happ) as (H1 & H2 & H3).
    unfold upperbound_after in Hub. destruct (len item =? 0); [discriminate|]. injection Hub as <-.
    assert (Ht' : 0 < w_thr w') by (rewrite H3; exact Ht).
    pose proof (finish_len w' Ht' ltac:(rewrite H3; exact H2)) as Hf.
    cbv zeta.
    split; [eapply N.le_trans; [exact Hf|]; apply N.add_le_mono_r; exact H1|]. split; [rewrite H3; exact H2|exact H3].
  Qed.

  Lemma finish_new thr : len (finish zc (new_writer thr)) = 1.
  Proof. unfold finish, flush_block, new_writer. cbn [w_pend w_out]. rewrite len_app, len_put_u8. reflexivity. Qed.
End Bound.
