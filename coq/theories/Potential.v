(* Potential.v — a per-node potential for convergence (C01): the sum over the copies a node holds
   of (frontier measure + 1).  Processing any message never lowers it, a productive exchange
   raises it by at least one, and it is bounded by (number of known members) * (V+1)^2 when no
   version exceeds V — so a node takes part in a bounded number of productive exchanges. *)
From Coq Require Import Lia Permutation.
From ChitchatModel Require Import Base SMap Ids Bytes Params NodeState Stream DeltaWire Message Cluster
  FD Chitchat SMap_lemmas NodeState_lemmas Builder_lemmas Cluster_lemmas Agreement Inv DeltaRefine
  Compute_lemmas Prefix_lemmas NodeInv Chitchat_lemmas Codec_lemmas Emit_lemmas Progress Quiet.

(* ---------- sums over member maps ---------- *)
Section Sum.
  Variable f : copy -> N.
  Fixpoint msum (m : nmap) : N := match m with [] => 0 | (_, c) :: r => f c + 1 + msum r end.

  Lemma msum_remove X c (m : nmap) : nm_get X m = Some c -> msum m = f c + 1 + msum (nm_remove X m).
  Proof.
    unfold nm_get, nm_remove. induction m as [|[k v] r IH]; cbn [sm_get sm_remove msum]; [discriminate|].
    destruct (id_cmp X k) eqn:E.
    - intros [= <-]. reflexivity.
    - intros H. cbn [msum]. rewrite (IH H). lia.
    - intros H. cbn [msum]. rewrite (IH H). lia.
  Qed.

  Lemma nm_get_remove_other X Y (m : nmap) : X <> Y -> nm_get Y (nm_remove X m) = nm_get Y m.
  Proof.
    intros Hne. unfold nm_get, nm_remove. induction m as [|[k v] r IH]; cbn [sm_get sm_remove]; [reflexivity|].
    destruct (id_cmp X k) eqn:E.
    - apply id_cmp_eq in E. subst k. destruct (id_cmp Y X) eqn:E2; [apply id_cmp_eq in E2; congruence|reflexivity|reflexivity].
    - cbn [sm_get]. destruct (id_cmp Y k); [reflexivity|exact IH|exact IH].
    - cbn [sm_get]. destruct (id_cmp Y k); [reflexivity|exact IH|exact IH].
  Qed.

  (* key superset with pointwise larger values: larger sum *)
  Lemma msum_mono (m : nmap) : forall m',
    NoDup (map fst m) ->
    (forall X c, In (X, c) m -> exists c', nm_get X m' = Some c' /\ f c <= f c') ->
    msum m <= msum m'.
  Proof.
    induction m as [|[X c] r IH]; intros m' Hnd H; cbn [msum]; [lia|].
    destruct (H X c (or_introl eq_refl)) as (c' & Hg & Hle).
    rewrite (msum_remove X c' m' Hg).
    inversion Hnd as [|? ? Hnotin Hnd']; subst.
    specialize (IH (nm_remove X m') Hnd').
    assert (IHH : msum r <= msum (nm_remove X m')).
    { apply IH. intros Y d Hin. destruct (H Y d (or_intror Hin)) as (d' & Hg' & Hle').
      exists d'. split; [|exact Hle']. rewrite nm_get_remove_other; [exact Hg'|].
      intros ->. apply Hnotin. apply in_map_iff. exists (Y, d). auto. }
    lia.
  Qed.

  (* ... and strictly larger if one value is strictly larger *)
  Lemma msum_strict (m : nmap) : forall m' X0 c0 c0',
    NoDup (map fst m) ->
    (forall X c, In (X, c) m -> exists c', nm_get X m' = Some c' /\ f c <= f c') ->
    In (X0, c0) m -> nm_get X0 m' = Some c0' -> f c0 < f c0' ->
    msum m < msum m'.
  Proof.
    induction m as [|[X c] r IH]; intros m' X0 c0 c0' Hnd H Hin0 Hg0 Hlt0; [destruct Hin0|]. cbn [msum].
    destruct (H X c (or_introl eq_refl)) as (c' & Hg & Hle).
    rewrite (msum_remove X c' m' Hg).
    inversion Hnd as [|? ? Hnotin Hnd']; subst.
    assert (Hrest : forall Y d, In (Y, d) r -> exists d', nm_get Y (nm_remove X m') = Some d' /\ f d <= f d').
    { intros Y d Hin. destruct (H Y d (or_intror Hin)) as (d' & Hg' & Hle').
      exists d'. split; [|exact Hle']. rewrite nm_get_remove_other; [exact Hg'|].
      intros ->. apply Hnotin. apply in_map_iff. exists (Y, d). auto. }
    destruct Hin0 as [E|Hin0].
    - injection E as -> ->. rewrite Hg0 in Hg. injection Hg as <-.
      pose proof (msum_mono r (nm_remove X0 m') Hnd' Hrest). lia.
    - assert (Hne : X <> X0) by (intros ->; apply Hnotin; apply in_map_iff; exists (X0, c0); auto).
      assert (Hg0' : nm_get X0 (nm_remove X m') = Some c0') by (rewrite nm_get_remove_other; assumption).
      pose proof (IH (nm_remove X m') X0 c0 c0' Hnd' Hrest Hin0 Hg0' Hlt0). lia.
  Qed.

  Lemma msum_bound (m : nmap) B : (forall X c, In (X, c) m -> f c <= B) -> msum m <= N.of_nat (length m) * (B + 1).
  Proof.
    induction m as [|[X c] r IH]; intros H; cbn [msum length]; [lia|].
    pose proof (H X c (or_introl eq_refl)). specialize (IH (fun Y d Hin => H Y d (or_intror Hin))). lia.
  Qed.
End Sum.

(* ---------- the potential of a node ---------- *)
Definition potential (V : N) (n : node) : N := msum (frontier_measure V) (cs_nodes (nd_cs n)).
Definition versions_below (V : N) (n : node) : Prop := forall X c, In (X, c) (cs_nodes (nd_cs n)) -> c_gc c <= V /\ c_max c <= V.

(* [n'] knows every member [n] knows, with a frontier at least as large *)
Definition node_le (n n' : node) : Prop :=
  forall X c, nm_get X (cs_nodes (nd_cs n)) = Some c -> exists c', nm_get X (cs_nodes (nd_cs n')) = Some c' /\ frontier_le c c'.

Lemma node_le_trans a b c : node_le a b -> node_le b c -> node_le a c.
Proof.
  intros H1 H2 X x Hx. destruct (H1 X x Hx) as (y & Hy & L1). destruct (H2 X y Hy) as (z & Hz & L2).
  exists z. split; [exact Hz|]. unfold frontier_le, lex_le_p in *. lia.
Qed.

Lemma potential_mono V n n' :
  node_inv n -> versions_below V n -> versions_below V n' -> node_le n n' -> potential V n <= potential V n'.
Proof.
  intros [Hs _] Hb Hb' Hle. unfold potential. apply msum_mono.
  - apply (sorted_nodup_keys id_cmp id_cmp_eq id_cmp_trans). exact Hs.
  - intros X c Hin. pose proof (sorted_in_get id_cmp id_cmp_eq id_cmp_antisym id_cmp_trans _ _ _ Hs Hin) as Hg.
    destruct (Hle X c Hg) as (c' & Hg' & Hl). exists c'. split; [exact Hg'|].
    apply frontier_measure_le; [exact Hl|apply (Hb X c Hin)|].
    apply (sm_get_in id_cmp id_cmp_eq) in Hg'. apply (Hb' X c' Hg').
Qed.

Lemma potential_strict V n n' X c c' :
  node_inv n -> versions_below V n -> versions_below V n' -> node_le n n' ->
  nm_get X (cs_nodes (nd_cs n)) = Some c -> nm_get X (cs_nodes (nd_cs n')) = Some c' -> frontier_lt c c' ->
  potential V n < potential V n'.
Proof.
  intros [Hs _] Hb Hb' Hle Hc Hc' Hlt. unfold potential.
  pose proof (sm_get_in id_cmp id_cmp_eq _ _ _ Hc) as Hin.
  apply (msum_strict (frontier_measure V) _ _ X c c').
  - apply (sorted_nodup_keys id_cmp id_cmp_eq id_cmp_trans). exact Hs.
  - intros Y d Hd. pose proof (sorted_in_get id_cmp id_cmp_eq id_cmp_antisym id_cmp_trans _ _ _ Hs Hd) as Hg.
    destruct (Hle Y d Hg) as (d' & Hg' & Hl). exists d'. split; [exact Hg'|].
    apply frontier_measure_le; [exact Hl|apply (Hb Y d Hd)|].
    apply (sm_get_in id_cmp id_cmp_eq) in Hg'. apply (Hb' Y d' Hg').
  - exact Hin.
  - exact Hc'.
  - apply frontier_measure_lt; [exact Hlt|apply (Hb X c Hin)|].
    apply (sm_get_in id_cmp id_cmp_eq) in Hc'. apply (Hb' X c' Hc').
Qed.

Lemma potential_bound V n :
  versions_below V n -> potential V n <= N.of_nat (length (cs_nodes (nd_cs n))) * (V + 1) * (V + 1).
Proof.
  intros Hb. unfold potential.
  pose proof (msum_bound (frontier_measure V) (cs_nodes (nd_cs n)) (V * (V + 1) + V)) as H.
  assert (Hall : forall X c, In (X, c) (cs_nodes (nd_cs n)) -> frontier_measure V c <= V * (V + 1) + V).
  { intros X c Hin. destruct (Hb X c Hin). apply frontier_measure_bound; assumption. }
  specialize (H Hall). nia.
Qed.

(* ---------- processing a message never lowers a copy ---------- *)
Lemma report_heartbeat_keeps now n i hb : node_le n (report_heartbeat now n i hb).
Proof.
  intros X c Hc. unfold report_heartbeat. destruct (id_eqb i (self_id n)).
  { exists c. split; [exact Hc|]. right. split; [reflexivity|cbn; lia]. }
  match goal with |- context [nm_get i (cs_nodes ?c0)] => set (cs := c0) end.
  assert (Hcs : nm_get X (cs_nodes cs) = Some c).
  { unfold cs. destruct (match last_heartbeat_if_deleted (nd_cs n) i with Some _ => _ | None => _ end); [|exact Hc].
    rewrite mut_or_init_get, Hc. reflexivity. }
  destruct (nm_get i (cs_nodes cs)) as [ci|] eqn:Ei.
  2:{ exists c. split; [exact Hcs|]. right. split; [reflexivity|cbn; lia]. }
  destruct (try_set_heartbeat ci hb) as [ci' fresh] eqn:Et.
  pose proof (try_set_heartbeat_frontier ci hb) as [F1 F2]. rewrite Et in F1, F2. cbn [fst] in F1, F2.
  assert (Hget : exists c', nm_get X (nm_insert i ci' (cs_nodes cs)) = Some c' /\ frontier_le c c').
  { destruct (id_dec i X) as [<-|Hne].
    - rewrite nm_get_insert_same. exists ci'. split; [reflexivity|]. rewrite Hcs in Ei. injection Ei as <-.
      unfold frontier_le, lex_le_p, monotonic_property. cbn [fst snd]. lia.
    - rewrite nm_get_insert_other by exact Hne. exists c. split; [exact Hcs|]. right. split; [reflexivity|cbn; lia]. }
  destruct fresh; exact Hget.
Qed.

Lemma report_heartbeats_keeps now dg : forall n, node_le n (report_heartbeats_in_digest now n dg).
Proof.
  unfold report_heartbeats_in_digest. induction dg as [|e r IH]; intros n; cbn [fold_left].
  - intros X c Hc. exists c. split; [exact Hc|]. right. split; [reflexivity|cbn; lia].
  - eapply node_le_trans; [apply report_heartbeat_keeps|apply IH].
Qed.

Lemma update_self_heartbeat_keeps n : node_le n (update_self_heartbeat n).
Proof.
  intros X c Hc. unfold update_self_heartbeat, update_copy. cbn [nd_cs with_cs].
  set (cs := node_state_mut_or_init (nd_cs n) (self_id n)).
  assert (Hcs : nm_get X (cs_nodes cs) = Some c) by (unfold cs; rewrite mut_or_init_get, Hc; reflexivity).
  destruct (nm_get (self_id n) (cs_nodes cs)) as [c0|] eqn:E0; cbn [cs_nodes].
  - destruct (id_dec (self_id n) X) as [<-|Hne].
    + rewrite nm_get_insert_same. rewrite Hcs in E0. injection E0 as <-. exists (inc_heartbeat c).
      split; [reflexivity|]. right. split; [reflexivity|cbn; lia].
    + rewrite nm_get_insert_other by exact Hne. exists c. split; [exact Hcs|]. right. split; [reflexivity|cbn; lia].
  - exists c. split; [exact Hcs|]. right. split; [reflexivity|cbn; lia].
Qed.

Lemma process_delta_keeps now n x n' evs :
  delta_wf x -> process_delta now n x = Ok (n', evs) -> node_le n n'.
Proof.
  intros Hwf Hpd X c Hc.
  assert (Hb : Forall nd_bounded (nds x)) by (eapply Forall_impl; [apply nd_wf_bounded|exact Hwf]).
  destruct (cluster_apply_nds_spec now (nds x) (cs_nodes (nd_cs n)) false [] Hb) as (nodes' & reset' & evs' & Hrun & _ & Hsome & _).
  unfold process_delta, cluster_apply_delta in Hpd. rewrite Hrun in Hpd. cbn [rmap] in Hpd. injection Hpd as <- _.
  destruct (Hsome X c Hc) as (c' & Hc' & _ & Hle). exists c'. split; [|exact Hle].
  destruct (reset' && cf_has_cb (nd_cfg n)); exact Hc'.
Qed.

Section Pot.
  Variable zc : bytes -> option bytes.
  Hypothesis zc_len : forall b c, zc b = Some c -> len c <= len b.

  (* whatever message a node processes, every copy it held is still there with a frontier at least
     as large *)
  Theorem process_message_keeps now n m ord n' reply evs :
    msg_wf m -> process_message zc now n m ord = Ok (n', reply, evs) -> node_le n n'.
  Proof.
    intros Hwf Hrun. unfold process_message in Hrun.
    pose proof (update_self_heartbeat_keeps n) as H0.
    destruct m as [cl dg|dg x|x|].
    - destruct (negb _); [injection Hrun as <- _ _; exact H0|].
      destruct (P_MAX_UDP <? _); [discriminate|].
      destruct (compute_delta zc _ dg _ _ ord); cbn [rmap] in Hrun; try discriminate.
      injection Hrun as <- _ _. eapply node_le_trans; [exact H0|apply report_heartbeats_keeps].
    - destruct (process_delta now _ x) as [[n2 evs2]| |] eqn:Hpd; cbn [rbind] in Hrun; try discriminate.
      destruct (compute_delta zc _ dg _ _ ord); cbn [rmap] in Hrun; try discriminate.
      injection Hrun as <- _ _.
      eapply node_le_trans; [exact H0|]. eapply node_le_trans; [apply report_heartbeats_keeps|].
      eapply process_delta_keeps; eauto.
    - destruct (process_delta now _ x) as [[n2 evs2]| |] eqn:Hpd; cbn [rmap] in Hrun; try discriminate.
      injection Hrun as <- _ _. cbn [fst]. eapply node_le_trans; [exact H0|]. eapply process_delta_keeps; eauto.
    - injection Hrun as <- _ _. exact H0.
  Qed.

  Theorem potential_never_decreases V now n m ord n' reply evs :
    node_inv n -> msg_wf m -> versions_below V n -> versions_below V n' ->
    process_message zc now n m ord = Ok (n', reply, evs) -> potential V n <= potential V n'.
  Proof.
    intros Hinv Hwf Hb Hb' Hrun. apply potential_mono; auto. eapply process_message_keeps; eauto.
  Qed.

  (* a quiet initiator's complete exchange with a responder holding deliverable data raises its
     potential by at least one *)
  Theorem potential_rises_on_exchange V now now' a b ord ord' b' dgb x evs n rest a' reply evs' :
    node_inv a -> node_inv b -> no_memory a -> scheduled now a = [] ->
    process_message zc now b (create_syn_message now a) ord = Ok (b', Some (SynAck dgb x), evs) ->
    let dg := compute_digest (nd_cs a) [] in
    let b1 := report_heartbeats_in_digest now (update_self_heartbeat b) dg in
    let sched := scheduled now b1 in
    let mtu := P_MAX_UDP - (P_RESERVE_SYNACK + digest_len (compute_digest (nd_cs b1) sched)) in
    arrange ord (stale_nodes (nd_cs b1) dg sched) = Some (n :: rest) ->
    P_MIN_MTU <= mtu -> room mtu n -> sn_id n <> self_id a ->
    process_message zc now' a (SynAck dgb x) ord' = Ok (a', reply, evs') ->
    versions_below V a -> versions_below V a' ->
    potential V a + 1 <= potential V a'.
  Proof.
    intros Ha Hb Hmem Hsched Hrun dg b1 sched mtu Harr Hmin Hroom Hns Hrun' HbV HbV'.
    destruct (quiet_exchange_progress zc zc_len now now' a b ord ord' b' dgb x evs n rest Ha Hb Hmem Hsched Hrun Harr Hmin Hroom Hns)
      as [He|(a2 & reply2 & evs2 & r' & Hok & Hr' & Hlt & Hmono)]; [congruence|].
    rewrite Hrun' in Hok. injection Hok as <- _ _.
    assert (Hle : node_le a a') by (intros X c Hc; exact (Hmono X c Hc)).
    destruct (nm_get (sn_id n) (cs_nodes (nd_cs a))) as [c|] eqn:Ec.
    - enough (potential V a < potential V a') by lia.
      eapply (potential_strict V a a' (sn_id n) c r'); eauto.
    - (* the member was unknown to a: a new copy, one more term in the sum *)
      destruct Ha as [Hs _]. unfold potential.
      rewrite (msum_remove (frontier_measure V) (sn_id n) r' _ Hr').
      enough (msum (frontier_measure V) (cs_nodes (nd_cs a)) <= msum (frontier_measure V) (nm_remove (sn_id n) (cs_nodes (nd_cs a')))) by lia.
      apply msum_mono.
      + apply (sorted_nodup_keys id_cmp id_cmp_eq id_cmp_trans). exact Hs.
      + intros X c Hin. pose proof (sorted_in_get id_cmp id_cmp_eq id_cmp_antisym id_cmp_trans _ _ _ Hs Hin) as Hg.
        destruct (Hle X c Hg) as (c' & Hg' & Hl). exists c'. split.
        * rewrite nm_get_remove_other; [exact Hg'|]. intros E. rewrite <- E in Hg. unfold nm_get in *. congruence.
        * apply frontier_measure_le; [exact Hl|apply (HbV X c Hin)|].
          apply (sm_get_in id_cmp id_cmp_eq) in Hg'. apply (HbV' X c' Hg').
  Qed.
End Pot.

(* ---------- bounded number of productive steps along any history of one node ---------- *)
Fixpoint rises (l : list N) : N :=
  match l with
  | a :: ((b :: _) as r) => (if a <? b then 1 else 0) + rises r
  | _ => 0
  end.
Fixpoint nondecreasing (l : list N) : Prop :=
  match l with
  | a :: ((b :: _) as r) => a <= b /\ nondecreasing r
  | _ => True
  end.

Lemma rises_bound l : nondecreasing l -> rises l + hd 0 l <= last l 0.
Proof.
  induction l as [|a r IH]; [cbn; lia|]. destruct r as [|b r']; [cbn; lia|].
  intros [Hab Hr]. specialize (IH Hr). cbn [rises hd] in *.
  change (last (a :: b :: r') 0) with (last (b :: r') 0).
  destruct (a <? b) eqn:E; [apply N.ltb_lt in E|]; lia.
Qed.

Section Trace.
  Variable zc : bytes -> option bytes.
  Hypothesis zc_len : forall b c, zc b = Some c -> len c <= len b.

  (* a history of one node: consecutive states related by the processing of some grammar-valid
     message (any message, any instant, any shuffle outcome) *)
  Inductive history : list node -> Prop :=
  | h_one n : history [n]
  | h_step n n' rest now m ord reply evs :
      msg_wf m -> process_message zc now n m ord = Ok (n', reply, evs) ->
      history (n' :: rest) -> history (n :: n' :: rest).

  Lemma history_potentials V l :
    history l -> Forall node_inv l -> Forall (versions_below V) l -> nondecreasing (map (potential V) l).
  Proof.
    induction 1 as [n|n n' rest now m ord reply evs Hwf Hrun Hh IH]; intros Hinv Hb; [exact I|].
    inversion Hinv as [|? ? Hi Hinv']; subst. inversion Hb as [|? ? Hbn Hb']; subst.
    cbn [map nondecreasing]. split.
    - inversion Hb' as [|? ? Hbn' _]; subst. eapply potential_never_decreases; eauto.
    - apply IH; assumption.
  Qed.

  (* however long the history, the number of steps that raise the node's potential — in
     particular the number of productive exchanges it takes part in — is at most
     (members it knows at the end) * (V+1)^2 *)
  Theorem productive_steps_bounded V l nlast :
    history l -> Forall node_inv l -> Forall (versions_below V) l -> last l nlast = nlast -> l <> [] ->
    rises (map (potential V) l) <= N.of_nat (length (cs_nodes (nd_cs nlast))) * (V + 1) * (V + 1).
  Proof.
    intros Hh Hinv Hb Hlast Hne.
    pose proof (rises_bound _ (history_potentials V l Hh Hinv Hb)) as H.
    assert (Hl : last (map (potential V) l) 0 = potential V nlast).
    { clear - Hlast Hne. induction l as [|a r IH]; [congruence|]. destruct r as [|b r'].
      - cbn in *. congruence.
      - change (last (map (potential V) (a :: b :: r')) 0) with (last (map (potential V) (b :: r')) 0).
        apply IH; [exact Hlast|discriminate]. }
    rewrite Hl in H.
    assert (Hbl : versions_below V nlast).
    { rewrite Forall_forall in Hb. apply Hb. rewrite <- Hlast. clear - Hne.
      induction l as [|a r IH]; [congruence|]. destruct r as [|b r']; [left; reflexivity|].
      right. apply IH. discriminate. }
    pose proof (potential_bound V nlast Hbl). lia.
  Qed.
End Trace.

(* ---------- behind a peer => the peer holds something deliverable ---------- *)
Definition node_same (n n' : node) : Prop :=
  forall X c, nm_get X (cs_nodes (nd_cs n)) = Some c -> exists c', nm_get X (cs_nodes (nd_cs n')) = Some c' /\ same_frontier c c'.

Lemma node_same_trans a b c : node_same a b -> node_same b c -> node_same a c.
Proof.
  intros H1 H2 X x Hx. destruct (H1 X x Hx) as (y & Hy & [A1 A2]). destruct (H2 X y Hy) as (z & Hz & [B1 B2]).
  exists z. split; [exact Hz|]. split; congruence.
Qed.

Lemma report_heartbeat_same now n i hb : node_same n (report_heartbeat now n i hb).
Proof.
  intros X c Hc. unfold report_heartbeat. destruct (id_eqb i (self_id n)).
  { exists c. split; [exact Hc|split; reflexivity]. }
  match goal with |- context [nm_get i (cs_nodes ?c0)] => set (cs := c0) end.
  assert (Hcs : nm_get X (cs_nodes cs) = Some c).
  { unfold cs. destruct (match last_heartbeat_if_deleted (nd_cs n) i with Some _ => _ | None => _ end); [|exact Hc].
    rewrite mut_or_init_get, Hc. reflexivity. }
  destruct (nm_get i (cs_nodes cs)) as [ci|] eqn:Ei.
  2:{ exists c. split; [exact Hcs|split; reflexivity]. }
  destruct (try_set_heartbeat ci hb) as [ci' fresh] eqn:Et.
  pose proof (try_set_heartbeat_frontier ci hb) as Hfr. rewrite Et in Hfr. cbn [fst] in Hfr.
  assert (Hget : exists c', nm_get X (nm_insert i ci' (cs_nodes cs)) = Some c' /\ same_frontier c c').
  { destruct (id_dec i X) as [<-|Hne].
    - rewrite nm_get_insert_same. exists ci'. split; [reflexivity|]. rewrite Hcs in Ei. injection Ei as <-. exact Hfr.
    - rewrite nm_get_insert_other by exact Hne. exists c. split; [exact Hcs|split; reflexivity]. }
  destruct fresh; exact Hget.
Qed.

Lemma report_heartbeats_same now dg : forall n, node_same n (report_heartbeats_in_digest now n dg).
Proof.
  unfold report_heartbeats_in_digest. induction dg as [|e r IH]; intros n; cbn [fold_left].
  - intros X c Hc. exists c. split; [exact Hc|split; reflexivity].
  - eapply node_same_trans; [apply report_heartbeat_same|apply IH].
Qed.

Lemma update_self_heartbeat_same n : node_same n (update_self_heartbeat n).
Proof.
  intros X c Hc. unfold update_self_heartbeat, update_copy. cbn [nd_cs with_cs].
  set (cs := node_state_mut_or_init (nd_cs n) (self_id n)).
  assert (Hcs : nm_get X (cs_nodes cs) = Some c) by (unfold cs; rewrite mut_or_init_get, Hc; reflexivity).
  destruct (nm_get (self_id n) (cs_nodes cs)) as [c0|] eqn:E0; cbn [cs_nodes].
  - destruct (id_dec (self_id n) X) as [<-|Hne].
    + rewrite nm_get_insert_same. rewrite Hcs in E0. injection E0 as <-. exists (inc_heartbeat c). split; [reflexivity|split; reflexivity].
    + rewrite nm_get_insert_other by exact Hne. exists c. split; [exact Hcs|split; reflexivity].
  - exists c. split; [exact Hcs|split; reflexivity].
Qed.

(* If b holds, for a member it does not quarantine, a copy whose max version is beyond what the
   quiet node a holds (or a does not know the member), then b has something deliverable for a's SYN:
   the list of stale members b computes when it answers is not empty. *)
Theorem behind_implies_deliverable now a b X cb :
  node_inv b ->
  nm_get X (cs_nodes (nd_cs b)) = Some cb ->
  let dg := compute_digest (nd_cs a) [] in
  let b1 := report_heartbeats_in_digest now (update_self_heartbeat b) dg in
  in_ids X (scheduled now b1) = false ->
  (match nm_get X (cs_nodes (nd_cs a)) with Some ca => c_max ca | None => 0 end) < c_max cb ->
  exists n, In n (stale_nodes (nd_cs b1) dg (scheduled now b1)).
Proof.
  intros Hb Hcb dg b1 Hsched Hlt.
  destruct (update_self_heartbeat_same b X cb Hcb) as (c0 & Hc0 & [_ M0]).
  destruct (report_heartbeats_same now dg (update_self_heartbeat b) X c0 Hc0) as (c1 & Hc1 & [_ M1]). fold b1 in Hc1.
  apply stale_nodes_nonempty_iff. exists X, c1. split; [apply (sm_get_in id_cmp id_cmp_eq); exact Hc1|]. split; [exact Hsched|].
  unfold dg. rewrite advertised_unquarantined. cbn [snd].
  destruct (nm_get X (cs_nodes (nd_cs a))) as [ca|]; cbn [snd]; lia.
Qed.
