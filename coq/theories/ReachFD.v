(* ReachFD.v — in every reachable state, on every node: the detector's live and dead sets are
   disjoint, the local node is in neither (it is always reported live) and is never removed (C12,
   the "always" part over schedules). *)
From Coq Require Import Lia ZArith.
From ChitchatModel Require Import Base SMap Ids Bytes Params NodeState Stream DeltaWire Message Cluster
  FD Chitchat World SMap_lemmas Cluster_lemmas Chitchat_lemmas FD_lemmas Inv Compute_lemmas NodeInv
  Liveness_lemmas Truth NodeTruth Weak Reach.

Definition fd_sets_same (n n' : node) : Prop :=
  fd_live (nd_fd n') = fd_live (nd_fd n) /\ fd_dead (nd_fd n') = fd_dead (nd_fd n).

Lemma report_heartbeat_fd_sets now n i hb : fd_sets_same n (report_heartbeat now n i hb).
Proof.
  unfold fd_sets_same, report_heartbeat. destruct (id_eqb i (self_id n)); [auto|].
  match goal with |- context [nm_get i (cs_nodes ?c0)] => destruct (nm_get i (cs_nodes c0)) as [c|] end; [|cbn; auto].
  destruct (try_set_heartbeat c hb) as [c' fresh]. destruct fresh; cbn; auto.
Qed.

Lemma report_heartbeats_fd_sets now dg : forall n, fd_sets_same n (report_heartbeats_in_digest now n dg).
Proof.
  unfold report_heartbeats_in_digest. induction dg as [|e r IH]; intros n; cbn [fold_left]; [split; reflexivity|].
  destruct (report_heartbeat_fd_sets now n (fst e) (g_hb (snd e))) as [A B].
  destruct (IH (report_heartbeat now n (fst e) (g_hb (snd e)))) as [C D]. split; congruence.
Qed.

Lemma process_delta_fd now n x n' evs : process_delta now n x = Ok (n', evs) -> nd_fd n' = nd_fd n /\ nd_cfg n' = nd_cfg n.
Proof.
  unfold process_delta. destruct (cluster_apply_delta now (nd_cs n) x) as [[[cs reset] evs0]| |]; cbn [rmap]; try discriminate.
  intros [= <- _]. destruct (reset && cf_has_cb (nd_cfg n)); auto.
Qed.

Section S.
  Variable zc : bytes -> option bytes.
  Hypothesis zc_len : forall b c, zc b = Some c -> len c <= len b.
  Variable strict : bool.

  Lemma process_message_fd_sets now n m ord n' reply evs :
    process_message zc now n m ord = Ok (n', reply, evs) -> fd_sets_same n n' /\ nd_cfg n' = nd_cfg n.
  Proof.
    unfold process_message. intros Hrun.
    assert (H0 : fd_sets_same n (update_self_heartbeat n) /\ nd_cfg (update_self_heartbeat n) = nd_cfg n) by (split; [split|]; reflexivity).
    destruct m as [cl dg|dg x|x|].
    - destruct (negb _); [injection Hrun as <- _ _; exact H0|].
      destruct (P_MAX_UDP <? _); [discriminate|].
      destruct (compute_delta zc _ dg _ _ ord); cbn [rmap] in Hrun; try discriminate.
      injection Hrun as <- _ _. destruct (report_heartbeats_fd_sets now dg (update_self_heartbeat n)) as [A B].
      destruct (report_heartbeats_fields now dg (update_self_heartbeat n)) as (C & _). cbv zeta in C.
      split; [split; [exact A|exact B]|exact C].
    - destruct (process_delta now _ x) as [[n2 evs2]| |] eqn:Hpd; cbn [rbind] in Hrun; try discriminate.
      destruct (compute_delta zc _ dg _ _ ord); cbn [rmap] in Hrun; try discriminate.
      injection Hrun as <- _ _. destruct (process_delta_fd _ _ _ _ _ Hpd) as [F G].
      destruct (report_heartbeats_fd_sets now dg (update_self_heartbeat n)) as [A B].
      destruct (report_heartbeats_fields now dg (update_self_heartbeat n)) as (C & _). cbv zeta in C.
      unfold fd_sets_same. rewrite F, G. split; [split; [exact A|exact B]|exact C].
    - destruct (process_delta now _ x) as [[n2 evs2]| |] eqn:Hpd; cbn [rmap] in Hrun; try discriminate.
      injection Hrun as <- _ _. cbn [fst]. destruct (process_delta_fd _ _ _ _ _ Hpd) as [F G].
      unfold fd_sets_same. rewrite F, G. exact H0.
    - injection Hrun as <- _ _. exact H0.
  Qed.

  Definition fd_good (n : node) : Prop := fd_inv (nd_fd n) /\ fd_self_free n.

  Lemma fd_good_same n n' : fd_sets_same n n' -> nd_cfg n' = nd_cfg n -> fd_good n -> fd_good n'.
  Proof.
    intros [A B] C [[H1 H2 H3] [S1 S2]]. unfold fd_good, fd_self_free, self_id. rewrite C.
    split; [split; rewrite ?A, ?B; assumption|]. rewrite A, B. auto.
  Qed.

  Lemma on_own_fd n f : nd_fd (fst (on_own n f)) = nd_fd n /\ nd_cfg (fst (on_own n f)) = nd_cfg n.
  Proof. unfold on_own. destruct (nm_get _ _) as [c|]; [|auto]. destruct (f c). auto. Qed.

  Theorem reachable_fd_good : forall g, reachable zc strict g ->
    forall a n, node_at g a = Some n -> fd_good n.
  Proof.
    induction 1 as [|g g' Hr IH Hstep]; [intros a n H; destruct a; discriminate|].
    destruct (reachable_inv zc zc_len strict g Hr) as [Hg _].
    assert (Hset : forall b m m' sent T, node_at g b = Some m -> fd_good m' ->
              forall a n, node_at (mkG (with_nodes (g_w g) (set_nth (w_nodes (g_w g)) b m')) sent T) a = Some n -> fd_good n).
    { intros b m m' sent T Hb Hm' a n Hn. unfold node_at in *. cbn [g_w with_nodes w_nodes] in Hn.
      destruct (Nat.eq_dec b a) as [->|Hne].
      - rewrite (nth_set_nth_same _ _ _ _ Hb) in Hn. injection Hn as <-. exact Hm'.
      - rewrite nth_set_nth_other in Hn by exact Hne. eapply IH; eauto. }
    destruct Hstep.
    - intros a n Hn. unfold node_at in Hn. cbn [g_w with_nodes w_nodes] in Hn.
      destruct (Nat.lt_ge_cases a (length (w_nodes (g_w g)))) as [Hlt|Hge].
      + rewrite nth_error_app1 in Hn by exact Hlt. eapply IH; eauto.
      + rewrite nth_error_app2 in Hn by exact Hge.
        destruct (a - length (w_nodes (g_w g)))%nat as [|k]; cbn in Hn; [|destruct k; discriminate].
        injection Hn as <-. split; [apply new_fd_inv|split; reflexivity].
    - apply (Hset a n); [exact H|]. destruct (on_own_fd n f) as [A B].
      apply (fd_good_same n); [split; rewrite A; reflexivity|exact B|eapply IH; eauto].
    - apply (Hset a n); [exact H|]. apply (fd_good_same n); [split; reflexivity|reflexivity|eapply IH; eauto].
    - apply (Hset a n); [exact H|]. apply (fd_good_same n); [split; reflexivity|reflexivity|eapply IH; eauto].
    - intros a n Hn. eapply IH; eauto.
    - apply (Hset a n); [exact H|]. destruct (IH a n H) as [Hf Hs].
      destruct (update_nodes_liveness_classifies (w_now (g_w g)) n oracle (ni_inv _ _ (gi_nodes g Hg a n H)) Hf Hs) as (A & B & _).
      split; assumption.
    - intros a0 n0 Hn. eapply IH; eauto.
    - apply (Hset a n); [exact H|]. destruct (process_message_fd_sets _ _ _ _ _ _ _ H2) as [A B].
      apply (fd_good_same n); [exact A|exact B|eapply IH; eauto].
  Qed.

  (* ---- the watch channel's shape is an invariant of every reachable state (C13) ---- *)
  Lemma process_delta_watch now n x n' evs : process_delta now n x = Ok (n', evs) -> nd_prev n' = nd_prev n /\ nd_watch n' = nd_watch n.
  Proof.
    unfold process_delta. destruct (cluster_apply_delta now (nd_cs n) x) as [[[cs reset] evs0]| |]; cbn [rmap]; try discriminate.
    intros [= <- _]. destruct (reset && cf_has_cb (nd_cfg n)); auto.
  Qed.

  Lemma process_message_watch now n m ord n' reply evs :
    process_message zc now n m ord = Ok (n', reply, evs) -> nd_prev n' = nd_prev n /\ nd_watch n' = nd_watch n.
  Proof.
    unfold process_message. intros Hrun.
    destruct m as [cl dg|dg x|x|].
    - destruct (negb _); [injection Hrun as <- _ _; auto|].
      destruct (P_MAX_UDP <? _); [discriminate|].
      destruct (compute_delta zc _ dg _ _ ord); cbn [rmap] in Hrun; try discriminate.
      injection Hrun as <- _ _. destruct (report_heartbeats_fields now dg (update_self_heartbeat n)) as (_ & A & B & _). auto.
    - destruct (process_delta now _ x) as [[n2 evs2]| |] eqn:Hpd; cbn [rbind] in Hrun; try discriminate.
      destruct (compute_delta zc _ dg _ _ ord); cbn [rmap] in Hrun; try discriminate.
      injection Hrun as <- _ _. destruct (process_delta_watch _ _ _ _ _ Hpd) as [F G].
      destruct (report_heartbeats_fields now dg (update_self_heartbeat n)) as (_ & A & B & _). cbv zeta in A, B.
      rewrite F, G. auto.
    - destruct (process_delta now _ x) as [[n2 evs2]| |] eqn:Hpd; cbn [rmap] in Hrun; try discriminate.
      injection Hrun as <- _ _. cbn [fst]. destruct (process_delta_watch _ _ _ _ _ Hpd) as [F G]. rewrite F, G. auto.
    - injection Hrun as <- _ _. auto.
  Qed.

  Lemma on_own_watch n f : nd_prev (fst (on_own n f)) = nd_prev n /\ nd_watch (fst (on_own n f)) = nd_watch n.
  Proof. unfold on_own. destruct (nm_get _ _) as [c|]; [|auto]. destruct (f c). auto. Qed.

  Theorem reachable_watch_shape : forall g, reachable zc strict g ->
    forall a n, node_at g a = Some n -> watch_shape (nd_prev n) (nd_watch n).
  Proof.
    induction 1 as [|g g' Hr IH Hstep]; [intros a n H; destruct a; discriminate|].
    assert (Hset : forall b m m' sent T, node_at g b = Some m -> watch_shape (nd_prev m') (nd_watch m') ->
              forall a n, node_at (mkG (with_nodes (g_w g) (set_nth (w_nodes (g_w g)) b m')) sent T) a = Some n -> watch_shape (nd_prev n) (nd_watch n)).
    { intros b m m' sent T Hb Hm' a n Hn. unfold node_at in *. cbn [g_w with_nodes w_nodes] in Hn.
      destruct (Nat.eq_dec b a) as [->|Hne].
      - rewrite (nth_set_nth_same _ _ _ _ Hb) in Hn. injection Hn as <-. exact Hm'.
      - rewrite nth_set_nth_other in Hn by exact Hne. eapply IH; eauto. }
    destruct Hstep.
    - intros a n Hn. unfold node_at in Hn. cbn [g_w with_nodes w_nodes] in Hn.
      destruct (Nat.lt_ge_cases a (length (w_nodes (g_w g)))) as [Hlt|Hge].
      + rewrite nth_error_app1 in Hn by exact Hlt. eapply IH; eauto.
      + rewrite nth_error_app2 in Hn by exact Hge.
        destruct (a - length (w_nodes (g_w g)))%nat as [|k]; cbn in Hn; [|destruct k; discriminate].
        injection Hn as <-. reflexivity.
    - apply (Hset a n); [exact H|]. destruct (on_own_watch n f) as [A B]. rewrite A, B. eapply IH; eauto.
    - apply (Hset a n); [exact H|]. apply (IH a n H).
    - apply (Hset a n); [exact H|]. apply (IH a n H).
    - intros a n Hn. eapply IH; eauto.
    - apply (Hset a n); [exact H|]. apply (update_nodes_liveness_watch (w_now (g_w g)) n oracle (IH a n H)).
    - intros a0 n0 Hn. eapply IH; eauto.
    - apply (Hset a n); [exact H|]. destruct (process_message_watch _ _ _ _ _ _ _ H2) as [A B]. rewrite A, B. eapply IH; eauto.
  Qed.
End S.
