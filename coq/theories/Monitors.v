(* Monitors.v — the boolean form of the property statements, evaluated by the driver on the
   states dumped from the IMPLEMENTATION (and on model states).  Model file: definitions only;
   Monitors_lemmas.v relates them to the Prop statements of the property files. *)
From ChitchatModel Require Import Base SMap Ids Bytes Params NodeState Stream DeltaWire Message Cluster.

(* ---- the ledger of a member's own effective writes (ground truth for C02/C03) ---- *)
Record lwrite := mkLW { lw_ver : N; lw_key : bytes; lw_val : bytes; lw_st : mstatus }.
Definition ledger := list lwrite.

Definition mstatus_eqb (a b : mstatus) : bool :=
  match a, b with MSet, MSet | MDel, MDel | MTtl, MTtl => true | _, _ => false end.

(* the most recent write on key [k] *)
Fixpoint cur (L : ledger) (k : bytes) (best : option lwrite) : option lwrite :=
  match L with
  | [] => best
  | w :: r =>
      if bytes_eqb (lw_key w) k
      then cur r k (match best with
                    | Some b => if lw_ver b <? lw_ver w then Some w else best
                    | None => Some w
                    end)
      else cur r k best
  end.
Definition ledger_max (L : ledger) : N := fold_left (fun m w => N.max m (lw_ver w)) L 0.

Definition entry_matches (v : vv) (w : lwrite) : bool :=
  (v_ver v =? lw_ver w) && bytes_eqb (v_val v) (lw_val w) && mstatus_eqb (to_mstatus (v_st v)) (lw_st w).

(* C02: for every key whose most recent write is at or below the copy's max version, the copy
   holds exactly that write, or the write is a tombstone at or below the watermark and the key is
   absent. *)
Definition c02_key_ok (L : ledger) (c : copy) (k : bytes) : bool :=
  match cur L k None with
  | None => true
  | Some w =>
      if lw_ver w <=? c_max c then
        match kget k (c_kvs c) with
        | Some v => entry_matches v w
        | None => mscheduled (lw_st w) && (lw_ver w <=? c_gc c)
        end
      else true
  end.
Definition c02_ok (L : ledger) (c : copy) : bool :=
  forallb (fun w => c02_key_ok L c (lw_key w)) L.

(* C03: every entry is a ledger write with that key, value, status and version; the copy is
   never ahead of the owner's max version. *)
Definition c03_entry_ok (L : ledger) (e : bytes * vv) : bool :=
  existsb (fun w => bytes_eqb (lw_key w) (fst e) && entry_matches (snd e) w) L.
Definition c03_ok (L : ledger) (c : copy) : bool :=
  forallb (c03_entry_ok L) (c_kvs c) && (c_max c <=? ledger_max L).

(* C04: frontier and stored versions between two observations of the same copy *)
Definition c04_copy_ok (before after : copy) : bool :=
  lex_le (monotonic_property before) (monotonic_property after)
  && ((c_gc before <? c_gc after)
      || forallb (fun e => match kget (fst e) (c_kvs after) with
                           | Some v => v_ver (snd e) <=? v_ver v
                           | None => (* removed by tombstone GC, which raises the watermark to at least its version *)
                                     mscheduled (to_mstatus (v_st (snd e))) && (v_ver (snd e) <=? c_gc after)
                           end) (c_kvs before)).

Fixpoint forall_copies (f : id -> copy -> bool) (m : nmap) : bool :=
  match m with
  | [] => true
  | (i, c) :: r => f i c && forall_copies f r
  end.

(* copies present before must not regress (a copy may disappear: member removal) *)
Definition c04_nodes_ok (before after : nmap) : bool :=
  forall_copies (fun i c => match nm_get i after with
                            | Some c' => c04_copy_ok c c'
                            | None => true
                            end) before.

(* C05: own key-values, versions and watermark untouched by a processed message *)
Definition vv_eqb (a b : vv) : bool :=
  bytes_eqb (v_val a) (v_val b) && (v_ver a =? v_ver b)
  && match v_st a, v_st b with
     | SSet, SSet => true
     | SDel t, SDel u | STtl t, STtl u => Z.eqb t u
     | _, _ => false
     end.
Fixpoint kvs_eqb (a b : smap bytes vv) : bool :=
  match a, b with
  | [], [] => true
  | (k, v) :: a', (k', v') :: b' => bytes_eqb k k' && vv_eqb v v' && kvs_eqb a' b'
  | _, _ => false
  end.
Definition c05_own_ok (before after : copy) : bool :=
  (c_gc before =? c_gc after) && (c_max before =? c_max after) && kvs_eqb (c_kvs before) (c_kvs after)
  && (c_hb after =? c_hb before + 1).

(* C07: a node delta is exactly the sender's entries with version in (from, max], ascending *)
Fixpoint asc_kvms (l : list kvm) (lo : N) : bool :=
  match l with
  | [] => true
  | m :: r => (lo <? m_ver m) && asc_kvms r (m_ver m)
  end.
Definition kvm_eqb (a b : kvm) : bool :=
  bytes_eqb (m_key a) (m_key b) && bytes_eqb (m_val a) (m_val b) && (m_ver a =? m_ver b)
  && mstatus_eqb (m_st a) (m_st b).
Fixpoint kvms_eqb (a b : list kvm) : bool :=
  match a, b with
  | [], [] => true
  | x :: a', y :: b' => kvm_eqb x y && kvms_eqb a' b'
  | _, _ => false
  end.
Definition c07_nd_ok (sender : copy) (nd : ndelta) : bool :=
  asc_kvms (d_kvs nd) (d_from nd)
  && kvms_eqb (d_kvs nd)
       (map kvm_of (filter (fun e => v_ver (snd e) <=? d_max nd) (stale_sorted sender (d_from nd))))
  && ((d_max nd =? 0) || (d_from nd <? d_max nd))
  && (d_max nd <=? c_max sender) && (d_gc nd =? c_gc sender).
Definition c07_delta_ok (nodes : nmap) (sched : list id) (x : delta) : bool :=
  forallb (fun nd => negb (in_ids (d_id nd) sched)
                     && match nm_get (d_id nd) nodes with
                        | Some c => c07_nd_ok c nd
                        | None => false
                        end) (nds x).
(* C14: the sender's reset decision, read off a computed node delta: it starts from 0 exactly when
   the peer's advertised watermark and max version are both below the sender's watermark, and
   otherwise from the peer's advertised max version *)
Definition c14_from_ok (dg : digest) (sender : copy) (nd : ndelta) : bool :=
  let '(dgc, dmax) := match dg_get (d_id nd) dg with Some g => (g_gc g, g_max g) | None => (0, 0) end in
  d_from nd =? (if (dgc <? c_gc sender) && (dmax <? c_gc sender) then 0 else dmax).
Definition c14_delta_ok (dg : digest) (nodes : nmap) (x : delta) : bool :=
  forallb (fun nd => match nm_get (d_id nd) nodes with Some c => c14_from_ok dg c nd | None => true end) (nds x).
Definition digest_excludes (sched : list id) (dg : digest) : bool :=
  forallb (fun e => negb (in_ids (fst e) sched)) dg.

(* C12: classification invariants *)
Definition disjoint_ids (a b : list id) : bool := forallb (fun i => negb (in_ids i b)) a.
Definition c12_sets_ok (self : id) (live dead : list id) : bool :=
  disjoint_ids live dead && in_ids self live && negb (in_ids self dead).
(* right after an evaluation every other known member is in exactly one of the two sets
   ([known] = members known when the evaluation started and not removed by it) *)
Definition c12_after_eval_ok (self : id) (known live dead : list id) : bool :=
  forallb (fun i => id_eqb i self || xorb (in_ids i live) (in_ids i dead)) known.

(* C13: the watch value lists exactly the live members that satisfy the predicate, each with
   the member's current max version.  [verdicts] = predicate verdict per live member copy. *)
Definition c13_watch_ok (expected : list (id * N)) (watch : list (id * N)) : bool :=
  (length expected =? length watch)%nat
  && forallb (fun e => existsb (fun w => id_eqb (fst e) (fst w) && (snd e =? snd w)) watch) expected.

(* C20: the callback counter moves by exactly one iff some copy was reset (its watermark was
   raised by the message: only a reset raises a watermark during message processing) *)
Definition any_reset (before after : nmap) : bool :=
  negb (forall_copies (fun i c' => match nm_get i before with
                                   | Some c => negb (c_gc c <? c_gc c')
                                   | None => c_gc c' =? 0   (* a copy created by this very message *)
                                   end) after).
Definition c20_ok (has_cb : bool) (before after : nmap) (cb_before cb_after : N) : bool :=
  if has_cb && any_reset before after then cb_after =? cb_before + 1 else cb_after =? cb_before.
