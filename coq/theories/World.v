(* World.v — a set of nodes under one clock and the step relation used by the property files.
   Messages are explicit arguments of [WProc]: an adversary may deliver any message to any node
   at any time (loss, duplication, reordering, mis-routing are all sequences of such steps).
   Model file. *)
From ChitchatModel Require Import Base SMap Ids Bytes Params NodeState Stream DeltaWire Message Cluster FD Chitchat.

Record world := mkWorld { w_now : Z; w_nodes : list node }.

Inductive wop :=
| WJoin (cfg : config) (initial : list (bytes * bytes))
| WSet (n : nat) (k v : bytes)
| WSetTtl (n : nat) (k v : bytes)
| WDel (n : nat) (k : bytes)
| WDelTtl (n : nat) (k : bytes)
| WGc (n : nat)
| WHeartbeat (n : nat)
| WTick (dt : Z)
| WProc (n : nat) (m : message) (ord : list id)
| WEval (n : nat) (oracle : option (list id))
| WCatchup (n : nat) (i : id) (kvs : list (bytes * vv)) (mx gc : N).

(* what a step lets the environment observe *)
Record obs := mkObs { o_reply : option message; o_events : list mevent }.
Definition no_obs : obs := mkObs None [].

Fixpoint set_nth {A} (l : list A) (n : nat) (x : A) : list A :=
  match l, n with
  | [], _ => []
  | _ :: r, O => x :: r
  | y :: r, S n' => y :: set_nth r n' x
  end.

Definition own_events (n : node) (evs : list event) : list mevent :=
  map (fun e => (self_id n, fst e, snd e)) evs.

(* apply [f] to the node's own copy *)
Definition on_own (n : node) (f : copy -> copy * list event) : node * list mevent :=
  let cs := node_state_mut_or_init (nd_cs n) (self_id n) in
  match nm_get (self_id n) (cs_nodes cs) with
  | Some c => let '(c', evs) := f c in
              (with_cs n (mkCluster (nm_insert (self_id n) c' (cs_nodes cs)) (cs_gcn cs)),
               own_events n evs)
  | None => (n, [])
  end.

Section Step.
  Variable zc : bytes -> option bytes.

  Definition with_node (w : world) (i : nat) (f : node -> result (node * obs)) : result (world * obs) :=
    match nth_error (w_nodes w) i with
    | None => Ok (w, no_obs)
    | Some n => rmap (fun r => (mkWorld (w_now w) (set_nth (w_nodes w) i (fst r)), snd r)) (f n)
    end.

  Definition step (w : world) (o : wop) : result (world * obs) :=
    let now := w_now w in
    match o with
    | WJoin cfg initial => Ok (mkWorld now (w_nodes w ++ [new_node cfg initial]), no_obs)
    | WSet i k v =>
        with_node w i (fun n => let '(n', evs) := on_own n (fun c => set c k v) in Ok (n', mkObs None evs))
    | WSetTtl i k v =>
        with_node w i (fun n => let '(n', evs) := on_own n (fun c => set_with_ttl now c k v) in
                                Ok (n', mkObs None evs))
    | WDel i k =>
        with_node w i (fun n => Ok (fst (on_own n (fun c => (delete now c k, []))), no_obs))
    | WDelTtl i k =>
        with_node w i (fun n => Ok (fst (on_own n (fun c => (delete_after_ttl now c k, []))), no_obs))
    | WGc i => with_node w i (fun n => Ok (gc_keys now n, no_obs))
    | WHeartbeat i => with_node w i (fun n => Ok (update_self_heartbeat n, no_obs))
    | WTick dt => Ok (mkWorld (now + Z.max 0 dt)%Z (w_nodes w), no_obs)
    | WProc i m ord =>
        with_node w i (fun n =>
          rmap (fun r => let '(n', reply, evs) := r in (n', mkObs reply evs))
               (process_message zc now n m ord))
    | WEval i oracle => with_node w i (fun n => Ok (update_nodes_liveness now n oracle, no_obs))
    | WCatchup i m kvs mx gc =>
        with_node w i (fun n =>
          rmap (fun r => (fst r, mkObs None (snd r))) (reset_node_state_if_update n m kvs mx gc))
    end.

  (* run a list of operations; a Panic/Err aborts the run *)
  Fixpoint run (w : world) (ops : list wop) : result world :=
    match ops with
    | [] => Ok w
    | o :: r => rbind (step w o) (fun wo => run (fst wo) r)
    end.
End Step.

Definition empty_world : world := mkWorld 0 [].

(* ---- a compact fingerprint of a world, used to compare the extracted (OCaml) evaluation of
        [World.run] with its evaluation by the kernel's vm_compute on the same operations ---- *)
Definition kv_sum (c : copy) : N :=
  fold_right (fun e acc => v_ver (snd e) + len (v_val (snd e)) + len (fst e)
                           + match v_st (snd e) with SSet => 0 | SDel _ => 1 | STtl _ => 2 end + acc) 0 (c_kvs c).
Definition world_digest (w : world) : list N :=
  flat_map (fun n => N.of_nat (length (cs_nodes (nd_cs n)))
                     :: flat_map (fun e => let c := snd e in
                                           [c_hb c; c_gc c; c_max c; N.of_nat (length (c_kvs c)); kv_sum c])
                                 (cs_nodes (nd_cs n))
                     ++ [nd_sends n; nd_cb n; N.of_nat (length (nd_watch n))])
           (w_nodes w).
