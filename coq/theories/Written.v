(* Written.v — what the MTU-bounded serializer has written is exactly the serialization of the
   delta it has built (C08): re-serializing a computed delta with Delta::serialize produces the
   same bytes, so the recorded length equals the payload length and the assert_eq! of
   delta.rs:227 cannot fire — although the two writers use different block thresholds
   (min(16384, mtu) vs 16384): below 16384 everything fits one block under both. *)
From Coq Require Import Lia ZifyBool ZifyNat ZifyN Permutation.
From ChitchatModel Require Import Base SMap Ids Bytes Params NodeState Stream DeltaWire Message Cluster
  FD Chitchat SMap_lemmas NodeState_lemmas Builder_lemmas Stream_lemmas Agreement Inv DeltaRefine
  Compute_lemmas Prefix_lemmas Codec_lemmas NodeInv Chitchat_lemmas Wire_lemmas.

Section Written.
  Variable zc : bytes -> option bytes.
  Hypothesis zc_len : forall b c, zc b = Some c -> len c <= len b.

  Lemma append_ops_app o1 : forall w o2,
    append_ops zc w (o1 ++ o2) = rbind (append_ops zc w o1) (fun w' => append_ops zc w' o2).
  Proof.
    induction o1 as [|o r IH]; intros w o2; cbn [app append_ops rbind]; [reflexivity|].
    destruct (append zc w (put_op o)); cbn [rbind]; [apply IH|reflexivity|reflexivity].
  Qed.

  (* the serializer's writer is the serialization of the operations of what its builder holds *)
  Definition wrote_b (s : dser) : Prop :=
    append_ops zc (new_writer (w_thr (ds_w s))) (flat_map nd_ops (b_all (ds_b s))) = Ok (ds_w s).

  (* no SetMaxVersion has been emitted for the member in progress *)
  Definition cur_open (b : builder) : Prop :=
    match b_cur b with Some nd => d_kvs nd = [] -> d_max nd = 0 | None => True end.
  Definition cur_fresh (b : builder) : Prop :=
    match b_cur b with Some nd => d_kvs nd = [] /\ d_max nd = 0 | None => False end.

  Lemma try_add_refused s o s' : ds_try_add_op zc s o = Ok (s', false) -> s' = s.
  Proof.
    unfold ds_try_add_op. destruct (upperbound_after _ _); [|discriminate].
    destruct (ds_mtu s <? n); [intros [= <-]; reflexivity|].
    destruct (append zc _ _); cbn [rbind]; try discriminate.
    destruct (b_apply_op _ _); discriminate.
  Qed.

  Lemma try_add_accepted s o s' :
    ds_try_add_op zc s o = Ok (s', true) ->
    exists ub w' b', upperbound_after (ds_w s) (op_len o) = Some ub /\ ub <= ds_mtu s /\
      append zc (ds_w s) (put_op o) = Ok w' /\ b_apply_op (ds_b s) o = Some b' /\ s' = mkDS (ds_mtu s) b' w'.
  Proof.
    unfold ds_try_add_op. destruct (upperbound_after _ _) as [ub|]; [|discriminate].
    destruct (ds_mtu s <? ub) eqn:E; [discriminate|]. apply N.ltb_ge in E.
    destruct (append zc _ _) as [w'| |]; cbn [rbind]; try discriminate.
    destruct (b_apply_op _ _) as [b'|]; [|discriminate]. intros [= <-].
    exists ub, w', b'. auto.
  Qed.

  Lemma append_thr w item w' : append zc w item = Ok w' -> w_thr w' = w_thr w.
  Proof.
    unfold append. destruct (u16_max <? len item); [discriminate|]. intros [= <-].
    generalize (length (w_pend w ++ item)). intros f.
    set (w1 := mkW (w_out w) (w_pend w ++ item) (w_thr w)). change (w_thr w) with (w_thr w1). generalize w1. clear.
    induction f as [|f IH]; intros w; cbn [flush_while]; [reflexivity|].
    destruct (w_thr w <? len (w_pend w)); [|reflexivity]. rewrite IH.
    unfold flush_block. destruct (w_pend w); [reflexivity|]. destruct (zc _); reflexivity.
  Qed.

  (* one accepted operation keeps the invariant, provided it is a canonical next operation *)
  Lemma try_add_wrote_b s o s' :
    wrote_b s -> ds_try_add_op zc s o = Ok (s', true) ->
    match o with
    | OpNode _ _ _ => True
    | OpKV _ => cur_open (ds_b s)
    | OpSetMax mx => cur_fresh (ds_b s) /\ 0 < mx
    end ->
    wrote_b s'.
  Proof.
    intros Hw Hrun Hcanon. destruct (try_add_accepted s o s' Hrun) as (ub & w' & b' & _ & _ & Ha & Hb & ->).
    unfold wrote_b in *. cbn [ds_w ds_b]. rewrite (append_thr _ _ _ Ha).
    assert (Hops : flat_map nd_ops (b_all b') = flat_map nd_ops (b_all (ds_b s)) ++ [o]).
    { destruct (b_flush_all (ds_b s)) as (Hfd & Hfc & Hfs).
      destruct o as [i gc from|m|mx]; cbn [b_apply_op] in Hb.
      - destruct (existsb _ _); [discriminate|]. injection Hb as <-. unfold b_all at 1. cbn [b_done b_cur].
        rewrite Hfd, flat_map_app. cbn [flat_map nd_ops d_kvs d_max d_id d_gc d_from map app].
        change (0 <? 0) with false. cbv iota. rewrite app_nil_r. reflexivity.
      - unfold cur_open in Hcanon. unfold b_all in *. destruct (b_cur (ds_b s)) as [nd|]; [|discriminate].
        destruct (d_max nd <? m_ver m); [|discriminate]. injection Hb as <-. cbn [b_done b_cur].
        rewrite !flat_map_app. cbn [flat_map]. rewrite !app_nil_r, <- app_assoc. f_equal.
        unfold nd_ops. cbn [d_id d_gc d_from d_kvs d_max]. rewrite map_app. cbn [map].
        destruct (d_kvs nd) as [|k0 ks] eqn:Ek.
        + rewrite (Hcanon eq_refl). change (0 <? 0) with false. cbn. reflexivity.
        + cbn [app]. rewrite !app_nil_r. reflexivity.
      - destruct Hcanon as [Hfresh Hpos]. unfold cur_fresh in Hfresh. unfold b_all in *.
        destruct (b_cur (ds_b s)) as [nd|]; [|contradiction]. destruct Hfresh as [Hk Hm].
        destruct (mx <? d_max nd); [discriminate|]. injection Hb as <-. cbn [b_done b_cur].
        rewrite !flat_map_app. cbn [flat_map]. rewrite !app_nil_r, <- app_assoc. f_equal.
        unfold nd_ops. cbn [d_id d_gc d_from d_kvs d_max]. rewrite Hk, Hm. cbn [map app].
        change (0 <? 0) with false. assert (E : 0 <? mx = true) by (apply N.ltb_lt; exact Hpos). rewrite E. reflexivity. }
    rewrite Hops, append_ops_app, Hw. cbn [rbind append_ops]. rewrite Ha. reflexivity.
  Qed.

  (* ---- when the budget is below the block threshold nothing is ever flushed ---- *)
  Definition noflush (s : dser) : Prop :=
    ds_mtu s <= w_thr (ds_w s) -> w_out (ds_w s) = [] /\ len (w_pend (ds_w s)) <= w_thr (ds_w s).

  Lemma flush_while_small fuel w : len (w_pend w) <= w_thr w -> flush_while zc fuel w = w.
  Proof.
    intros H. destruct fuel; cbn [flush_while]; [reflexivity|].
    assert (E : w_thr w <? len (w_pend w) = false) by (apply N.ltb_ge; exact H). rewrite E. reflexivity.
  Qed.

  Lemma try_add_noflush s o s' : noflush s -> ds_try_add_op zc s o = Ok (s', true) -> noflush s'.
  Proof.
    intros Hn Hrun. destruct (try_add_accepted s o s' Hrun) as (ub & w' & b' & Hub & Hle & Ha & _ & ->).
    unfold noflush in *. cbn [ds_mtu ds_w]. rewrite (append_thr _ _ _ Ha). intros Hm. destruct (Hn Hm) as [Ho Hp].
    unfold upperbound_after in Hub. destruct (op_len o =? 0); [discriminate|]. injection Hub as <-.
    rewrite Ho in Hle. cbn [len length] in Hle. change (N.of_nat 0) with 0 in Hle.
    unfold append in Ha. destruct (u16_max <? len (put_op o)); [discriminate|]. injection Ha as <-.
    assert (Hsmall : len (w_pend (ds_w s) ++ put_op o) <= w_thr (ds_w s)).
    { rewrite len_app, len_put_op. lia. }
    rewrite flush_while_small by (cbn [w_pend w_thr]; exact Hsmall). cbn [w_out w_pend]. auto.
  Qed.

  Lemma try_add_same s o s' ok : ds_try_add_op zc s o = Ok (s', ok) ->
    w_thr (ds_w s') = w_thr (ds_w s) /\ ds_mtu s' = ds_mtu s.
  Proof.
    destruct ok.
    - intros H. destruct (try_add_accepted s o s' H) as (ub & w' & b' & _ & _ & Ha & _ & ->).
      cbn [ds_w ds_mtu]. split; [apply (append_thr _ _ _ Ha)|reflexivity].
    - intros H. apply try_add_refused in H. subst. auto.
  Qed.

  (* the invariant carried through the loop *)
  Definition Wr (s : dser) : Prop := wrote_b s /\ noflush s.

  Lemma add_kvs_true kvs : forall s s' all added', add_kvs zc s kvs true = Ok (s', all, added') -> added' = true.
  Proof.
    induction kvs as [|e r IH]; intros s s' all added'; cbn [add_kvs]; [intros [= _ _ <-]; reflexivity|].
    destruct (ds_try_add_op zc s _) as [[s1 ok]| |]; cbn [rbind]; try discriminate.
    destruct ok; [apply IH|intros [= _ _ <-]; reflexivity].
  Qed.

  Lemma add_kvs_Wr kvs : forall s added s' all added',
    Wr s -> cur_open (ds_b s) -> b_cur (ds_b s) <> None ->
    add_kvs zc s kvs added = Ok (s', all, added') ->
    Wr s' /\ (added' = false -> s' = s) /\ w_thr (ds_w s') = w_thr (ds_w s) /\ ds_mtu s' = ds_mtu s.
  Proof.
    induction kvs as [|e r IH]; intros s added s' all added' HW Hopen Hcur; cbn [add_kvs].
    - intros [= <- _ _]. auto.
    - destruct (ds_try_add_op zc s (OpKV (kvm_of e))) as [[s1 ok]| |] eqn:E; cbn [rbind]; try discriminate.
      destruct ok.
      + intros H. destruct HW as [Hw Hn].
        destruct (try_add_accepted s _ s1 E) as (ub & w' & b' & _ & _ & _ & Hb & Es1).
        assert (Hb1 : ds_b s1 = b') by (rewrite Es1; reflexivity).
        cbn [b_apply_op] in Hb. destruct (b_cur (ds_b s)) as [nd|] eqn:Ec; [|contradiction].
        destruct (d_max nd <? m_ver (kvm_of e)); [|discriminate]. injection Hb as Hb.
        destruct (try_add_same _ _ _ _ E) as [T1 T2].
        destruct (IH s1 true s' all added') as (HW' & _ & T3 & T4); [| | |exact H|].
        * split; [eapply try_add_wrote_b; [exact Hw|exact E|exact Hopen]|eapply try_add_noflush; eauto].
        * rewrite Hb1, <- Hb. unfold cur_open. cbn [b_cur d_kvs]. intros Hk. destruct (d_kvs nd); discriminate.
        * rewrite Hb1, <- Hb. cbn [b_cur]. discriminate.
        * split; [exact HW'|]. split; [intros Hf; rewrite (add_kvs_true _ _ _ _ _ H) in Hf; discriminate|].
          split; congruence.
      + intros [= <- _ <-]. apply try_add_refused in E. subst s1. auto.
  Qed.

  Theorem delta_loop_Wr nodes : forall s x,
    Wr s -> (forall n, In n nodes -> 0 < c_max (sn_copy n)) ->
    delta_loop zc s nodes = Ok x ->
    exists sf, x = ds_finish zc sf /\ Wr sf /\ w_thr (ds_w sf) = w_thr (ds_w s) /\ ds_mtu sf = ds_mtu s.
  Proof.
    induction nodes as [|n rest IH]; intros s x HW Hpos; cbn [delta_loop].
    - intros [= <-]. exists s. auto.
    - destruct (ds_try_add_op zc s (OpNode (sn_id n) (c_gc (sn_copy n)) (sn_from n))) as [[s1 ok]| |] eqn:E1;
        cbn [rbind]; try discriminate.
      destruct ok; cbn [negb].
      2:{ intros [= <-]. apply try_add_refused in E1. subst s1. exists s. auto. }
      destruct HW as [Hw Hn].
      destruct (try_add_accepted s _ s1 E1) as (ub & w' & b' & _ & _ & _ & Hb & Es1).
      assert (Hb1 : ds_b s1 = b') by (rewrite Es1; reflexivity).
      cbn [b_apply_op] in Hb. destruct (existsb _ _); [discriminate|]. injection Hb as Hb.
      assert (HW1 : Wr s1) by (split; [eapply try_add_wrote_b; [exact Hw|exact E1|exact I]|eapply try_add_noflush; eauto]).
      assert (Hfresh1 : cur_fresh (ds_b s1)) by (rewrite Hb1, <- Hb; unfold cur_fresh; cbn; auto).
      destruct (try_add_same _ _ _ _ E1) as [T1 T2].
      destruct (add_kvs zc s1 (stale_sorted (sn_copy n) (sn_from n)) false) as [[[s2 all] added]| |] eqn:E2;
        cbn [rbind]; try discriminate.
      destruct (add_kvs_Wr (stale_sorted (sn_copy n) (sn_from n)) s1 false s2 all added HW1) as (HW2 & Hsame & T3 & T4); [| |exact E2|].
      { unfold cur_fresh in Hfresh1. unfold cur_open. destruct (b_cur (ds_b s1)); [tauto|exact I]. }
      { unfold cur_fresh in Hfresh1. destruct (b_cur (ds_b s1)); [discriminate|contradiction]. }
      destruct all; cbn [negb].
      2:{ intros [= <-]. exists s2. split; [reflexivity|]. split; [exact HW2|]. split; congruence. }
      assert (Hpos' : forall m, In m rest -> 0 < c_max (sn_copy m)) by (intros m Hm; apply Hpos; right; exact Hm).
      destruct added.
      + intros H. destruct (IH s2 x HW2 Hpos' H) as (sf & Hx & HWf & T5 & T6).
        exists sf. split; [exact Hx|]. split; [exact HWf|]. split; congruence.
      + specialize (Hsame eq_refl). subst s2.
        destruct (ds_try_add_op zc s1 (OpSetMax (c_max (sn_copy n)))) as [[s3 ok3]| |] eqn:E3; cbn [rbind fst]; try discriminate.
        intros H.
        assert (HW3 : Wr s3).
        { destruct ok3.
          - destruct HW1 as [Hw1 Hn1]. split; [eapply try_add_wrote_b; [exact Hw1|exact E3|]|eapply try_add_noflush; eauto].
            split; [exact Hfresh1|apply Hpos; left; reflexivity].
          - apply try_add_refused in E3. subst s3. exact HW1. }
        destruct (try_add_same _ _ _ _ E3) as [T7 T8].
        destruct (IH s3 x HW3 Hpos' H) as (sf & Hx & HWf & T5 & T6).
        exists sf. split; [exact Hx|]. split; [exact HWf|]. split; congruence.
  Qed.

  (* ---- if the final output is empty, nothing was ever flushed ---- *)
  Lemma flush_block_out w : exists suf, w_out (flush_block zc w) = w_out w ++ suf /\ (w_pend w <> [] -> suf <> []).
  Proof.
    unfold flush_block. destruct (w_pend w) as [|b0 p0] eqn:E.
    - exists []. rewrite app_nil_r. split; [reflexivity|congruence].
    - destruct (zc _); cbn [w_out]; eexists; (split; [reflexivity|intros _; cbn; discriminate]).
  Qed.

  Lemma flush_while_out fuel : forall w, exists suf, w_out (flush_while zc fuel w) = w_out w ++ suf.
  Proof.
    induction fuel as [|f IH]; intros w; cbn [flush_while]; [exists []; rewrite app_nil_r; reflexivity|].
    destruct (w_thr w <? len (w_pend w)); [|exists []; rewrite app_nil_r; reflexivity].
    destruct (IH (flush_block zc w)) as (s1 & H1). destruct (flush_block_out w) as (s0 & H0 & _).
    exists (s0 ++ s1). rewrite H1, H0, app_assoc. reflexivity.
  Qed.

  Lemma append_out_nil w item w' :
    append zc w item = Ok w' -> w_out w' = [] -> w_out w = [] /\ w_pend w' = w_pend w ++ item.
  Proof.
    unfold append. destruct (u16_max <? len item); [discriminate|]. intros [= <-].
    set (w1 := mkW (w_out w) (w_pend w ++ item) (w_thr w)).
    generalize (length (w_pend w ++ item)). intros fuel. destruct fuel as [|f]; cbn [flush_while]; [intros H; split; [exact H|reflexivity]|].
    destruct (w_thr w1 <? len (w_pend w1)) eqn:E; [|intros H; split; [exact H|reflexivity]].
    intros Hnil. exfalso.
    destruct (flush_while_out f (flush_block zc w1)) as (s1 & H1). destruct (flush_block_out w1) as (s0 & H0 & Hne).
    rewrite H1, H0 in Hnil. apply app_eq_nil in Hnil as [Hnil _]. apply app_eq_nil in Hnil as [_ Hnil].
    apply Hne; [|exact Hnil]. apply N.ltb_lt in E. intros Hp. rewrite Hp in E. cbn in E. lia.
  Qed.

  Lemma append_ops_out_nil ops : forall w w',
    append_ops zc w ops = Ok w' -> w_out w' = [] -> w_out w = [] /\ w_pend w' = w_pend w ++ flat_map put_op ops.
  Proof.
    induction ops as [|o r IH]; intros w w'; cbn [append_ops flat_map].
    - intros [= <-] H. rewrite app_nil_r. auto.
    - destruct (append zc w (put_op o)) as [w1| |] eqn:E; cbn [rbind]; try discriminate.
      intros H Hnil. destruct (IH w1 w' H Hnil) as [H1 H2].
      destruct (append_out_nil w _ w1 E H1) as [H3 H4]. split; [exact H3|]. rewrite H2, H4, app_assoc. reflexivity.
  Qed.

  Lemma append_ops_noflush ops : forall w,
    len (w_pend w) + len (flat_map put_op ops) <= w_thr w -> w_thr w <= u16_max ->
    append_ops zc w ops = Ok (mkW (w_out w) (w_pend w ++ flat_map put_op ops) (w_thr w)).
  Proof.
    induction ops as [|o r IH]; intros w Hl Hu; cbn [append_ops flat_map].
    - rewrite app_nil_r. destruct w; reflexivity.
    - cbn [flat_map] in Hl. rewrite len_app in Hl. unfold append.
      assert (E : u16_max <? len (put_op o) = false) by (apply N.ltb_ge; lia). rewrite E.
      rewrite flush_while_small by (cbn [w_pend w_thr]; rewrite len_app; lia). cbn [rbind].
      rewrite IH; cbn [w_out w_pend w_thr]; [rewrite app_assoc; reflexivity|rewrite len_app; lia|exact Hu].
  Qed.

  Lemma finish_one_block data t1 t2 :
    len data <= t1 -> len data <= t2 -> finish zc (mkW [] data t1) = finish zc (mkW [] data t2).
  Proof.
    intros H1 H2. unfold finish, flush_block. cbn [w_pend w_out w_thr]. destruct data as [|b0 d0] eqn:E; [reflexivity|].
    rewrite <- E in *.
    assert (K1 : N.to_nat (N.min (len data) t1) = length data) by (unfold len in *; lia).
    assert (K2 : N.to_nat (N.min (len data) t2) = length data) by (unfold len in *; lia).
    rewrite K1, K2. destruct (zc (firstn (length data) data)); reflexivity.
  Qed.

  Lemma thresholds_agree : P_BLOCK_THRESHOLD = P_BLOCK_THRESHOLD_SER /\ P_BLOCK_THRESHOLD_SER <= u16_max.
  Proof. vm_compute. split; [reflexivity|discriminate]. Qed.

  (* Delta::serialize of a computed delta writes exactly the bytes the MTU-bounded serializer
     measured: no assert fires and the recorded length is the payload length *)
  Theorem computed_delta_serializes cs dg mtu sched ord x :
    cluster_inv cs -> P_MIN_MTU <= mtu -> mtu <= u16_max ->
    compute_delta zc cs dg mtu sched ord = Ok x ->
    exists p, put_delta zc x = Ok p /\ len p = dlen x.
  Proof.
    intros [Hs Hc] Hmin Hmax Hx. unfold compute_delta in Hx.
    destruct (arrange ord (stale_nodes cs dg sched)) as [ordered|] eqn:Ea; [|discriminate].
    destruct (staleness_desc ordered); [|discriminate].
    unfold compute_delta_ordered, ds_with_mtu in Hx.
    destruct (mtu <? P_MIN_MTU) eqn:E; [apply N.ltb_lt in E; lia|]. cbn [rbind] in Hx.
    set (thr := N.min P_BLOCK_THRESHOLD mtu) in *.
    set (s0 := mkDS mtu new_builder (new_writer thr)) in *.
    assert (HW0 : Wr s0).
    { split; [reflexivity|]. intros _. cbn. split; [reflexivity|lia]. }
    pose proof (arrange_perm _ _ _ Ea) as Hperm.
    assert (Hpos : forall n, In n ordered -> 0 < c_max (sn_copy n)).
    { intros n Hn. apply (Permutation_in _ (Permutation_sym Hperm)) in Hn.
      unfold stale_nodes in Hn. apply filter_map_in in Hn as ([i c] & _ & Hcand).
      destruct (stale_candidate_some _ _ _ _ Hcand) as (_ & Hcopy & _ & Hrest). cbn [fst snd] in *.
      destruct (match dg_get i dg with Some g => (g_gc g, g_max g) | None => (0, 0) end) as [dgc dmax].
      destruct Hrest as [Hlt _]. rewrite Hcopy. lia. }
    destruct (delta_loop_Wr ordered s0 x HW0 Hpos Hx) as (sf & -> & [Hwf Hnf] & Ht & Hm).
    cbn [s0 ds_w ds_mtu new_writer w_thr] in Ht, Hm.
    destruct (ds_finish_spec zc sf) as [Hnds Hlen].
    unfold put_delta, delta_ops. rewrite Hnds, Hlen.
    unfold wrote_b in Hwf. rewrite Ht in Hwf.
    destruct thresholds_agree as [Teq Tu].
    destruct (N.le_gt_cases P_BLOCK_THRESHOLD mtu) as [Hbig|Hsmall].
    - (* same threshold: same writer *)
      assert (Ethr : thr = P_BLOCK_THRESHOLD_SER) by (unfold thr; lia).
      rewrite Ethr in Hwf. rewrite Hwf. cbn [rbind]. rewrite N.eqb_refl. eexists. split; reflexivity.
    - (* budget below the threshold: one block under both *)
      assert (Ethr : thr = mtu) by (unfold thr; lia). rewrite Ethr in *.
      destruct (Hnf ltac:(rewrite Hm, Ht; lia)) as [Hout Hpend]. rewrite Ht in Hpend.
      destruct (append_ops_out_nil _ _ _ Hwf Hout) as [_ Hdata]. cbn [new_writer w_pend app] in Hdata.
      set (data := flat_map put_op (flat_map nd_ops (b_all (ds_b sf)))) in *.
      rewrite Hdata in Hpend.
      rewrite (append_ops_noflush _ (new_writer P_BLOCK_THRESHOLD_SER)); cbn [new_writer w_out w_pend w_thr app];
        [|fold data; change (len []) with 0; lia|exact Tu].
      cbn [rbind]. fold data.
      assert (Hsf : ds_w sf = mkW [] data mtu) by (destruct (ds_w sf); cbn in *; congruence).
      rewrite Hsf. rewrite (finish_one_block data P_BLOCK_THRESHOLD_SER mtu) by lia.
      rewrite N.eqb_refl. eexists. split; reflexivity.
  Qed.

  Lemma compute_delta_ok_serializes cs dg mtu sched ord x :
    cluster_inv cs -> mtu <= u16_max -> compute_delta zc cs dg mtu sched ord = Ok x ->
    exists p, put_delta zc x = Ok p /\ len p = dlen x.
  Proof.
    intros Hinv Hu Hx. destruct (mtu <? P_MIN_MTU) eqn:E.
    - exfalso. unfold compute_delta in Hx. destruct (arrange ord _); [|discriminate].
      destruct (staleness_desc l); [|discriminate]. unfold compute_delta_ordered, ds_with_mtu in Hx.
      rewrite E in Hx. discriminate.
    - apply N.ltb_ge in E. eapply computed_delta_serializes; eauto.
  Qed.

  (* every reply a well-formed node computes can be serialized: no abort in Delta::serialize, and
     the bytes written are as many as announced *)
  Theorem reply_encodes now n m ord n' r evs :
    node_inv n -> msg_wf m -> process_message zc now n m ord = Ok (n', Some r, evs) ->
    exists b, encode zc r = Ok b /\ len b = serialized_len r.
  Proof.
    intros Hinv Hwf Hrun.
    assert (Hgoal : exists b, encode zc r = Ok b).
    { unfold process_message in Hrun.
      pose proof (update_self_heartbeat_inv n Hinv) as H0. pose proof p_max_udp_le_u16 as Hu.
      destruct m as [cluster dg|dg x|x|].
      - destruct (negb (bytes_eqb cluster _)); [injection Hrun as _ <- _; eexists; reflexivity|].
        set (n1 := report_heartbeats_in_digest now (update_self_heartbeat n) dg) in *.
        pose proof (report_heartbeats_inv now dg _ H0) as H1. fold n1 in H1.
        destruct (P_MAX_UDP <? _); [discriminate|].
        destruct (compute_delta zc (nd_cs n1) dg _ (scheduled now n1) ord) as [y| |] eqn:Ey; cbn [rmap] in Hrun; try discriminate.
        injection Hrun as _ <- _.
        destruct (compute_delta_ok_serializes _ _ _ _ _ _ H1 ltac:(eapply N.le_trans; [apply N.le_sub_l|exact Hu]) Ey) as (p & Hp & _).
        cbn [encode]. rewrite Hp. eexists. reflexivity.
      - set (n1 := report_heartbeats_in_digest now (update_self_heartbeat n) dg) in *.
        pose proof (report_heartbeats_inv now dg _ H0) as H1. fold n1 in H1.
        destruct (process_delta now n1 x) as [[n2 evs2]| |] eqn:Hpd; cbn [rbind] in Hrun; try discriminate.
        pose proof (process_delta_inv now n1 x n2 evs2 H1 Hwf Hpd) as H2.
        destruct (compute_delta zc (nd_cs n2) dg _ (scheduled now n2) ord) as [y| |] eqn:Ey; cbn [rmap] in Hrun; try discriminate.
        injection Hrun as _ <- _.
        destruct (compute_delta_ok_serializes _ _ _ _ _ _ H2 ltac:(eapply N.le_trans; [apply N.le_sub_l|exact Hu]) Ey) as (p & Hp & _).
        cbn [encode]. rewrite Hp. eexists. reflexivity.
      - destruct (process_delta now _ x) as [[n2 evs2]| |]; cbn [rmap] in Hrun; discriminate.
      - discriminate. }
    destruct Hgoal as (b & Hb). exists b. split; [exact Hb|]. apply (encode_len zc). exact Hb.
  Qed.
End Written.
