(* Monitors_sound.v — the deltas the MODEL computes pass the sender-side monitors (C14 start
   version, C12 quarantine), so these monitors cannot raise an alarm on an implementation that
   agrees with the model. *)
From Coq Require Import Lia Permutation.
From ChitchatModel Require Import Base SMap Ids Bytes Params NodeState Stream DeltaWire Message Cluster
  FD Chitchat Monitors SMap_lemmas NodeState_lemmas Builder_lemmas Stream_lemmas Agreement Inv DeltaRefine
  Compute_lemmas Prefix_lemmas.

Theorem computed_delta_passes_c14 cs dg sched mtu x :
  cluster_inv cs -> delta_shape cs dg sched mtu x -> c14_delta_ok dg (cs_nodes cs) x = true.
Proof.
  intros Hinv Hsh. unfold c14_delta_ok. apply forallb_forall. intros nd Hin.
  destruct (computed_delta_nodes cs dg sched mtu x Hinv Hsh nd Hin) as (n & j & mv & Hn & -> & _ & Hget & _).
  unfold node_piece at 1. cbn [d_id]. rewrite Hget. unfold c14_from_ok, node_piece. cbn [d_id d_from].
  unfold stale_nodes in Hn. apply filter_map_in in Hn as ([i c] & He & Hcand).
  destruct (stale_candidate_some _ _ _ _ Hcand) as (Hid & Hcopy & _ & Hrest). cbn [fst snd] in *.
  rewrite Hid. destruct (dg_get i dg) as [g|]; destruct Hrest as [_ Hfrom]; rewrite Hfrom, Hcopy; apply N.eqb_refl.
Qed.

Theorem computed_delta_names_no_quarantined_member cs dg sched mtu x :
  cluster_inv cs -> delta_shape cs dg sched mtu x ->
  forall nd, In nd (nds x) -> in_ids (d_id nd) sched = false.
Proof.
  intros Hinv Hsh nd Hin.
  destruct (computed_delta_nodes cs dg sched mtu x Hinv Hsh nd Hin) as (n & j & mv & _ & -> & Hs & _). exact Hs.
Qed.

(* ---- the version-prefix monitor (C07) ---- *)
Lemma kvm_eqb_refl m : kvm_eqb m m = true.
Proof.
  unfold kvm_eqb. rewrite !(proj2 (bytes_eqb_eq _ _) eq_refl), N.eqb_refl. destruct (m_st m); reflexivity.
Qed.
Lemma kvms_eqb_refl l : kvms_eqb l l = true.
Proof. induction l as [|m r IH]; cbn; [reflexivity|]. rewrite kvm_eqb_refl, IH. reflexivity. Qed.

Lemma asc_kvms_iff l : forall lo, asc_kvms l lo = true <-> asc_from lo l.
Proof.
  induction l as [|m r IH]; intros lo; cbn [asc_kvms asc_from]; [tauto|].
  rewrite andb_true_iff, N.ltb_lt, IH. tauto.
Qed.

Lemma asc_from_firstn' lo l : forall j, asc_from lo l -> asc_from lo (firstn j l).
Proof.
  revert lo. induction l as [|m r IH]; intros lo [|k]; cbn [firstn asc_from]; auto.
  intros [A B]. split; [exact A|apply IH; exact B].
Qed.

Lemma last_kv_ver_in lo l : l <> [] -> exists m, In m l /\ last_kv_ver lo l = m_ver m.
Proof.
  revert lo. induction l as [|a l IHl]; intros lo Hne; [congruence|]. cbn [last_kv_ver].
  destruct l as [|b l']; [exists a; split; [left; reflexivity|reflexivity]|].
  destruct (IHl (m_ver a) ltac:(discriminate)) as (m & Hm & E). exists m. split; [right; exact Hm|exact E].
Qed.

Theorem computed_delta_passes_c07 cs dg sched mtu x :
  cluster_inv cs -> delta_shape cs dg sched mtu x -> c07_delta_ok (cs_nodes cs) [] x = true.
Proof.
  intros Hinv Hsh. unfold c07_delta_ok. apply forallb_forall. intros nd Hin.
  destruct (computed_delta_nodes cs dg sched mtu x Hinv Hsh nd Hin) as (n & j & mv & Hn & Hnd & _ & Hget & Hkvs).
  cbn [in_ids existsb negb andb].
  assert (Hid : d_id nd = sn_id n) by (rewrite Hnd; reflexivity).
  rewrite Hid, Hget.
  pose proof Hn as Hn0. unfold stale_nodes in Hn0. apply filter_map_in in Hn0 as ([i c] & He & Hcand).
  destruct (stale_candidate_some _ _ _ _ Hcand) as (Hid' & Hcopy & _ & Hrest). cbn [fst snd] in *.
  assert (Hci : copy_inv (sn_copy n)) by (rewrite Hcopy; eapply (cli_copies _ Hinv); exact He).
  assert (Hasc : asc_from (sn_from n) (map kvm_of (sorted_of n))) by (apply stale_sorted_strict; exact Hci).
  assert (Hltmax : sn_from n < c_max (sn_copy n)).
  { destruct (match dg_get i dg with Some g => (g_gc g, g_max g) | None => (0, 0) end) as [dgc dmax].
    destruct Hrest as [Hlt Hf]. rewrite Hf, Hcopy. destruct (_ && _); lia. }
  (* the five conjuncts *)
  assert (C1 : asc_kvms (d_kvs nd) (d_from nd) = true).
  { rewrite Hnd. unfold node_piece. cbn [d_kvs d_from]. apply asc_kvms_iff. rewrite <- firstn_map.
    apply asc_from_firstn'. exact Hasc. }
  assert (C2 : kvms_eqb (d_kvs nd) (map kvm_of (filter (fun e => v_ver (snd e) <=? d_max nd) (stale_sorted (sn_copy n) (d_from nd)))) = true).
  { rewrite <- Hkvs. apply kvms_eqb_refl. }
  assert (C3 : (d_max nd =? 0) || (d_from nd <? d_max nd) = true).
  { rewrite Hnd. unfold node_piece. cbn [d_max d_from].
    destruct (sorted_of n) as [|e r] eqn:Es.
    - destruct mv; [|reflexivity]. apply orb_true_iff. right. apply N.ltb_lt. exact Hltmax.
    - destruct j as [|j]; [reflexivity|]. apply orb_true_iff. right. apply N.ltb_lt.
      cbn [firstn map last_kv_ver]. cbn [map asc_from] in Hasc. destruct Hasc as [H1 H2].
      assert (Hp : asc_from (m_ver (kvm_of e)) (map kvm_of (firstn j r))) by (rewrite <- firstn_map; apply asc_from_firstn'; exact H2).
      pose proof (asc_from_lo _ _ Hp). lia. }
  assert (C4 : d_max nd <=? c_max (sn_copy n) = true).
  { apply N.leb_le. rewrite Hnd. unfold node_piece. cbn [d_max].
    destruct (sorted_of n) as [|e r] eqn:Es; [destruct mv; lia|].
    destruct (map kvm_of (firstn j (e :: r))) as [|m0 r0] eqn:Ek; [cbn; lia|].
    destruct (last_kv_ver_in 0 (m0 :: r0) ltac:(discriminate)) as (m & Hm & ->).
    rewrite <- Ek in Hm. apply in_map_iff in Hm as (e0 & <- & Hin0). apply in_firstn in Hin0.
    rewrite <- Es in Hin0. unfold sorted_of in Hin0. apply in_stale_sorted in Hin0 as [_ Hin0].
    destruct e0 as [k0 v0]. destruct (ci_range _ Hci _ _ Hin0) as [_ Hle]. exact Hle. }
  assert (C5 : d_gc nd =? c_gc (sn_copy n) = true) by (rewrite Hnd; apply N.eqb_refl).
  unfold c07_nd_ok. rewrite C1, C2, C3, C4, C5. reflexivity.
Qed.
