(* Monitors_sound.v — the deltas the MODEL computes pass the sender-side monitors (C14 start
   version, C12 quarantine), so these monitors cannot raise an alarm on an implementation that
   agrees with the model. *)
From Coq Require Import Lia Permutation.
From ChitchatModel Require Import Base SMap Ids Bytes Params NodeState Stream DeltaWire Message Cluster
  FD Chitchat Monitors SMap_lemmas NodeState_lemmas Builder_lemmas Stream_lemmas Agreement Inv DeltaRefine
  Compute_lemmas Prefix_lemmas.

Theorem computed_delta_passes_c14 cs dg sched mtu x :
  cluster_inv cs -> delta_shape cs dg sched mtu x -> c14_delta_ok dg (cs_nodes cs) x = true.
Proof.
  intros Hinv Hsh. unfold c14_delta_ok. apply forallb_forall. intros nd Hin.
  destruct (computed_delta_nodes cs dg sched mtu x Hinv Hsh nd Hin) as (n & j & mv & Hn & -> & _ & Hget & _).
  unfold node_piece at 1. cbn [d_id]. rewrite Hget. unfold c14_from_ok, node_piece. cbn [d_id d_from].
  unfold stale_nodes in Hn. apply filter_map_in in Hn as ([i c] & He & Hcand).
  destruct (stale_candidate_some _ _ _ _ Hcand) as (Hid & Hcopy & _ & Hrest). cbn [fst snd] in *.
  rewrite Hid. destruct (dg_get i dg) as [g|]; destruct Hrest as [_ Hfrom]; rewrite Hfrom, Hcopy; apply N.eqb_refl.
Qed.

Theorem computed_delta_names_no_quarantined_member cs dg sched mtu x :
  cluster_inv cs -> delta_shape cs dg sched mtu x ->
  forall nd, In nd (nds x) -> in_ids (d_id nd) sched = false.
Proof.
  intros Hinv Hsh nd Hin.
  destruct (computed_delta_nodes cs dg sched mtu x Hinv Hsh nd Hin) as (n & j & mv & _ & -> & Hs & _). exact Hs.
Qed.
