(* ReachEmit.v — every message in flight in a reachable state has the emitted structure (C08). *)
From Coq Require Import Lia.
From ChitchatModel Require Import Base SMap Ids Bytes Params NodeState Stream DeltaWire Message Cluster
  FD Chitchat World SMap_lemmas Builder_lemmas Inv Compute_lemmas NodeInv Truth NodeTruth Weak Reach
  Codec_lemmas Emit_lemmas.

Section S.
  Variable zc : bytes -> option bytes.
  Hypothesis zc_len : forall b c, zc b = Some c -> len c <= len b.
  Variable strict : bool.

  Theorem sent_struct : forall g, reachable zc strict g -> forall m, In m (g_sent g) -> msg_struct m.
  Proof.
    induction 1 as [|g g' Hr IH Hstep]; [intros m []|].
    destruct (reachable_inv zc zc_len strict g Hr) as [Hg _].
    destruct Hstep; cbn [g_sent]; try exact IH.
    - intros m [<-|Hm]; [|apply IH; exact Hm].
      apply syn_struct. apply (gi_nodes g Hg a n H).
    - intros m0 Hm0. destruct reply as [r|]; cbn [opt_cons] in Hm0; [|apply IH; exact Hm0].
      destruct Hm0 as [<-|Hm0]; [|apply IH; exact Hm0].
      eapply (reply_struct zc zc_len); [apply (gi_nodes g Hg a n H)|apply (gi_sent g Hg m H0)|eassumption].
  Qed.
End S.
