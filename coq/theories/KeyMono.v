(* KeyMono.v — stored key versions only move forward along every step of the global relation
   (C04, second half): between two consecutive states, for every copy that is kept, either its GC
   watermark strictly rose (a reset, or a garbage collection), or every key it held is still there
   with a version at least as large, or the key was a tombstone collected at or below the new
   watermark.  This is exactly what the C04 monitor evaluates on the implementation's dumps. *)
From Coq Require Import Lia.
From ChitchatModel Require Import Base SMap Ids Bytes Params NodeState Stream DeltaWire Message Cluster
  FD Chitchat World SMap_lemmas NodeState_lemmas KV_lemmas Builder_lemmas Cluster_lemmas Chitchat_lemmas
  Inv Compute_lemmas NodeInv Liveness_lemmas Truth NodeTruth Weak Exact Reach Codec_lemmas Emit_lemmas
  Progress Quiet Potential ReachMono Monitors.

(* every key kept with a version at least as large *)
Definition keys_kept (c c' : copy) : Prop :=
  forall k o, kget k (c_kvs c) = Some o -> exists o', kget k (c_kvs c') = Some o' /\ v_ver o <= v_ver o'.
(* what message processing, heartbeats and local writes do to a copy *)
Definition kv_fwd (c c' : copy) : Prop := c_gc c < c_gc c' \/ (c_gc c = c_gc c' /\ keys_kept c c').
(* ... and with garbage collection included: the statement of the property *)
Definition key_versions_fwd (c c' : copy) : Prop :=
  c_gc c < c_gc c' \/
  forall k o, kget k (c_kvs c) = Some o ->
    (exists o', kget k (c_kvs c') = Some o' /\ v_ver o <= v_ver o') \/
    (kget k (c_kvs c') = None /\ mscheduled (to_mstatus (v_st o)) = true /\ v_ver o <= c_gc c').

Lemma keys_kept_refl c : keys_kept c c.
Proof. intros k o H. exists o. split; [exact H|lia]. Qed.
Lemma kv_fwd_refl c : kv_fwd c c.
Proof. right. split; [reflexivity|apply keys_kept_refl]. Qed.
Lemma kv_fwd_same_kvs c c' : c_gc c' = c_gc c -> c_kvs c' = c_kvs c -> kv_fwd c c'.
Proof. intros Hg Hk. right. split; [congruence|]. intros k o H. exists o. rewrite Hk. split; [exact H|lia]. Qed.
Lemma kv_fwd_trans a b c : kv_fwd a b -> kv_fwd b c -> kv_fwd a c.
Proof.
  intros [H1|[E1 K1]] [H2|[E2 K2]]; [left; lia|left; lia|left; lia|].
  right. split; [congruence|]. intros k o Ho. destruct (K1 k o Ho) as (o1 & Ho1 & L1). destruct (K2 k o1 Ho1) as (o2 & Ho2 & L2).
  exists o2. split; [exact Ho2|lia].
Qed.
Lemma kv_fwd_key_versions c c' : kv_fwd c c' -> key_versions_fwd c c'.
Proof. intros [H|[_ K]]; [left; exact H|]. right. intros k o Ho. left. exact (K k o Ho). Qed.

Definition node_fwd (n n' : node) : Prop :=
  forall X c, nm_get X (cs_nodes (nd_cs n)) = Some c -> exists c', nm_get X (cs_nodes (nd_cs n')) = Some c' /\ kv_fwd c c'.
Lemma node_fwd_refl n : node_fwd n n.
Proof. intros X c H. exists c. split; [exact H|apply kv_fwd_refl]. Qed.
Lemma node_fwd_trans a b c : node_fwd a b -> node_fwd b c -> node_fwd a c.
Proof.
  intros H1 H2 X x Hx. destruct (H1 X x Hx) as (y & Hy & F1). destruct (H2 X y Hy) as (z & Hz & F2).
  exists z. split; [exact Hz|eapply kv_fwd_trans; eauto].
Qed.

(* ---------- heartbeats ---------- *)
Lemma try_set_heartbeat_kvs c hb : c_gc (fst (try_set_heartbeat c hb)) = c_gc c /\ c_kvs (fst (try_set_heartbeat c hb)) = c_kvs c.
Proof. unfold try_set_heartbeat. destruct (c_hb c =? 0); [split; reflexivity|]. destruct (c_hb c <? hb); split; reflexivity. Qed.

Lemma report_heartbeat_fwd now n i hb : node_fwd n (report_heartbeat now n i hb).
Proof.
  intros X c Hc. unfold report_heartbeat. destruct (id_eqb i (self_id n)).
  { exists c. split; [exact Hc|apply kv_fwd_refl]. }
  match goal with |- context [nm_get i (cs_nodes ?c0)] => set (cs := c0) end.
  assert (Hcs : nm_get X (cs_nodes cs) = Some c).
  { unfold cs. destruct (match last_heartbeat_if_deleted (nd_cs n) i with Some _ => _ | None => _ end); [|exact Hc].
    rewrite mut_or_init_get, Hc. reflexivity. }
  destruct (nm_get i (cs_nodes cs)) as [ci|] eqn:Ei.
  2:{ exists c. split; [exact Hcs|apply kv_fwd_refl]. }
  destruct (try_set_heartbeat ci hb) as [ci' fresh] eqn:Et.
  pose proof (try_set_heartbeat_kvs ci hb) as [F1 F2]. rewrite Et in F1, F2. cbn [fst] in F1, F2.
  assert (Hget : exists c', nm_get X (nm_insert i ci' (cs_nodes cs)) = Some c' /\ kv_fwd c c').
  { destruct (id_dec i X) as [<-|Hne].
    - rewrite nm_get_insert_same. exists ci'. split; [reflexivity|]. rewrite Hcs in Ei. injection Ei as <-.
      apply kv_fwd_same_kvs; assumption.
    - rewrite nm_get_insert_other by exact Hne. exists c. split; [exact Hcs|apply kv_fwd_refl]. }
  destruct fresh; exact Hget.
Qed.

Lemma report_heartbeats_fwd now dg : forall n, node_fwd n (report_heartbeats_in_digest now n dg).
Proof.
  unfold report_heartbeats_in_digest. induction dg as [|e r IH]; intros n; cbn [fold_left]; [apply node_fwd_refl|].
  eapply node_fwd_trans; [apply report_heartbeat_fwd|apply IH].
Qed.

Lemma update_self_heartbeat_fwd n : node_fwd n (update_self_heartbeat n).
Proof.
  intros X c Hc. unfold update_self_heartbeat, update_copy. cbn [nd_cs with_cs].
  set (cs := node_state_mut_or_init (nd_cs n) (self_id n)).
  assert (Hcs : nm_get X (cs_nodes cs) = Some c) by (unfold cs; rewrite mut_or_init_get, Hc; reflexivity).
  destruct (nm_get (self_id n) (cs_nodes cs)) as [c0|] eqn:E0; cbn [cs_nodes].
  - destruct (id_dec (self_id n) X) as [<-|Hne].
    + rewrite nm_get_insert_same. rewrite Hcs in E0. injection E0 as <-. exists (inc_heartbeat c).
      split; [reflexivity|apply kv_fwd_same_kvs; reflexivity].
    + rewrite nm_get_insert_other by exact Hne. exists c. split; [exact Hcs|apply kv_fwd_refl].
  - exists c. split; [exact Hcs|apply kv_fwd_refl].
Qed.

(* ---------- deltas ---------- *)
Lemma apply_delta_fwd now c nd c1 st ev : nd_bounded nd -> apply_delta now c nd = Ok (c1, st, ev) -> kv_fwd c c1.
Proof.
  intros Hb Hok. destruct (apply_delta_frontier now c nd Hb) as (c1' & st' & ev' & Hok' & Hst & _ & HR & HA & HX).
  rewrite Hok in Hok'. injection Hok' as <- <- <-.
  destruct st.
  - destruct (HR eq_refl) as [-> _]. apply kv_fwd_refl.
  - destruct (HA eq_refl) as (Hg & _ & _ & _ & Hk). right. split; [congruence|exact Hk].
  - destruct (HX eq_refl) as (Hg & _). left. exact Hg.
Qed.

Lemma cluster_apply_nds_fwd now : forall l nodes reset evs nodes' reset' evs',
  Forall nd_bounded l -> cluster_apply_nds now nodes l reset evs = Ok (nodes', reset', evs') ->
  forall X c, nm_get X nodes = Some c -> exists c', nm_get X nodes' = Some c' /\ kv_fwd c c'.
Proof.
  induction l as [|nd r IH]; intros nodes reset evs nodes' reset' evs' Hall Hrun X c Hc; cbn [cluster_apply_nds] in Hrun.
  - injection Hrun as <- _ _. exists c. split; [exact Hc|apply kv_fwd_refl].
  - inversion Hall as [|? ? Hnd Hr]; subst.
    destruct (nm_get (d_id nd) nodes) as [c0|] eqn:Hget; [|eapply IH; eauto].
    destruct (apply_delta now c0 nd) as [[[c1 st] ev]| |] eqn:Hok; try discriminate.
    destruct (lex_le _ _); [|discriminate].
    destruct (id_dec (d_id nd) X) as [E|Hne].
    + subst X. rewrite Hget in Hc. injection Hc as <-.
      destruct (IH _ _ _ _ _ _ Hr Hrun (d_id nd) c1 (nm_get_insert_same _ _ _)) as (c' & Hc' & F).
      exists c'. split; [exact Hc'|]. eapply kv_fwd_trans; [eapply apply_delta_fwd; eauto|exact F].
    + apply (IH _ _ _ _ _ _ Hr Hrun X c). rewrite nm_get_insert_other by exact Hne. exact Hc.
Qed.

Lemma process_delta_fwd now n x n' evs : delta_wf x -> process_delta now n x = Ok (n', evs) -> node_fwd n n'.
Proof.
  intros Hwf Hpd X c Hc.
  assert (Hb : Forall nd_bounded (nds x)) by (eapply Forall_impl; [apply nd_wf_bounded|exact Hwf]).
  unfold process_delta, cluster_apply_delta in Hpd.
  destruct (cluster_apply_nds now (cs_nodes (nd_cs n)) (nds x) false []) as [[[nodes' reset'] evs']| |] eqn:Hrun; cbn [rmap] in Hpd; try discriminate.
  injection Hpd as <- _.
  destruct (cluster_apply_nds_fwd now _ _ _ _ _ _ _ Hb Hrun X c Hc) as (c' & Hc' & F). exists c'. split; [|exact F].
  destruct (reset' && cf_has_cb (nd_cfg n)); exact Hc'.
Qed.

Section KM.
  Variable zc : bytes -> option bytes.
  Hypothesis zc_len : forall b c, zc b = Some c -> len c <= len b.
  Variable strict : bool.

  Theorem process_message_fwd now n m ord n' reply evs :
    msg_wf m -> process_message zc now n m ord = Ok (n', reply, evs) -> node_fwd n n'.
  Proof.
    intros Hwf Hrun. unfold process_message in Hrun.
    pose proof (update_self_heartbeat_fwd n) as H0.
    destruct m as [cl dg|dg x|x|].
    - destruct (negb _); [injection Hrun as <- _ _; exact H0|].
      destruct (P_MAX_UDP <? _); [discriminate|].
      destruct (compute_delta zc _ dg _ _ ord); cbn [rmap] in Hrun; try discriminate.
      injection Hrun as <- _ _. eapply node_fwd_trans; [exact H0|apply report_heartbeats_fwd].
    - destruct (process_delta now _ x) as [[n2 evs2]| |] eqn:Hpd; cbn [rbind] in Hrun; try discriminate.
      destruct (compute_delta zc _ dg _ _ ord); cbn [rmap] in Hrun; try discriminate.
      injection Hrun as <- _ _.
      eapply node_fwd_trans; [exact H0|]. eapply node_fwd_trans; [apply report_heartbeats_fwd|].
      eapply process_delta_fwd; [|exact Hpd]. apply Hwf.
    - destruct (process_delta now _ x) as [[n2 evs2]| |] eqn:Hpd; cbn [rmap] in Hrun; try discriminate.
      injection Hrun as <- _ _. cbn [fst].
      eapply node_fwd_trans; [exact H0|]. eapply process_delta_fwd; [|exact Hpd]. apply Hwf.
    - injection Hrun as <- _ _. exact H0.
  Qed.
End KM.

(* ---------- local writes ---------- *)
Lemma on_own_fwd now n f : node_inv n -> lwrite_op now f -> node_fwd n (fst (on_own n f)).
Proof.
  intros Hinv Hf X c Hc. unfold on_own.
  set (cs := node_state_mut_or_init (nd_cs n) (self_id n)).
  assert (Hcs : nm_get X (cs_nodes cs) = Some c) by (unfold cs; rewrite mut_or_init_get, Hc; reflexivity).
  destruct (nm_get (self_id n) (cs_nodes cs)) as [c0|] eqn:E0; [|exists c; split; [exact Hc|apply kv_fwd_refl]].
  destruct (f c0) as [c0' evs] eqn:Ef. cbn [fst nd_cs with_cs cs_nodes].
  destruct (id_dec (self_id n) X) as [<-|Hne].
  - rewrite nm_get_insert_same. rewrite Hcs in E0. injection E0 as <-. exists c0'. split; [reflexivity|].
    assert (Hci : copy_inv c) by (eapply (cli_copies _ Hinv); apply nm_get_in; exact Hc).
    assert (Hws : write_shape c c0').
    { replace c0' with (fst (f c)) by (rewrite Ef; reflexivity).
      destruct Hf as [k v|k v|k|k]; cbn [fst].
      - exact (proj1 (lwrite_shape now c k v Hci)).
      - exact (proj1 (proj2 (lwrite_shape now c k v Hci))).
      - exact (proj1 (proj2 (proj2 (lwrite_shape now c k [] Hci)))).
      - exact (proj2 (proj2 (proj2 (lwrite_shape now c k [] Hci)))). }
    destruct Hws as [->|(k0 & v0 & Ek & _ & Eg & Ev & _)]; [apply kv_fwd_refl|].
    right. split; [congruence|]. intros k o Ho. rewrite Ek.
    destruct (bytes_eqb k0 k) eqn:Ekk.
    + apply bytes_eqb_eq in Ekk. subst k0. rewrite kget_kinsert_same. exists v0. split; [reflexivity|].
      destruct (ci_range c Hci k o (kget_in _ _ _ Ho)). lia.
    + rewrite kget_kinsert_other by (intros E; rewrite E, (proj2 (bytes_eqb_eq k k) eq_refl) in Ekk; discriminate).
      exists o. split; [exact Ho|lia].
  - rewrite nm_get_insert_other by exact Hne. exists c. split; [exact Hcs|apply kv_fwd_refl].
Qed.

(* ---------- tombstone garbage collection ---------- *)
Lemma gc_copy_fwd now grace c : copy_inv c -> key_versions_fwd c (gc_keys_marked_for_deletion now grace c).
Proof.
  intros Hci. destruct (gc_exact now grace c) as (Hin & Hcol & _ & Hle & _). cbv zeta in Hin, Hle.
  set (c' := gc_keys_marked_for_deletion now grace c) in *.
  right. intros k o Ho.
  destruct (gc_collectable now grace o) eqn:Ec.
  - right. split; [|split].
    + destruct (kget k (c_kvs c')) as [o'|] eqn:E'; [|reflexivity]. exfalso.
      apply kget_in in E'. apply Hin in E' as [E1 E2].
      rewrite (ksorted_in_get k o' (c_kvs c) (ci_sorted c Hci) E1) in Ho. injection Ho as ->. congruence.
    + apply Hcol in Ec as (t & [H|H] & _); rewrite H; reflexivity.
    + apply (Hle (k, o)). unfold collected. apply filter_In. split; [apply kget_in; exact Ho|exact Ec].
  - left. exists o. split; [|lia]. apply ksorted_in_get.
    + unfold c', gc_keys_marked_for_deletion. cbn [c_kvs]. apply kfilter_sorted. apply (ci_sorted c Hci).
    + apply Hin. split; [apply kget_in; exact Ho|exact Ec].
Qed.

(* ---------- the property over the global relation ---------- *)
Definition node_key_versions_fwd (n n' : node) : Prop :=
  forall X c, nm_get X (cs_nodes (nd_cs n)) = Some c ->
    nm_get X (cs_nodes (nd_cs n')) = None \/
    exists c', nm_get X (cs_nodes (nd_cs n')) = Some c' /\ frontier_le c c' /\ key_versions_fwd c c'.

Section KM2.
  Variable zc : bytes -> option bytes.
  Hypothesis zc_len : forall b c, zc b = Some c -> len c <= len b.
  Variable strict : bool.

  Lemma fwd_le_combine n n' : node_fwd n n' -> node_le n n' -> node_key_versions_fwd n n'.
  Proof.
    intros Hf Hl X c Hc. right. destruct (Hf X c Hc) as (c' & Hc' & F). destruct (Hl X c Hc) as (c'' & Hc'' & L).
    rewrite Hc' in Hc''. injection Hc'' as <-. exists c'. split; [exact Hc'|]. split; [exact L|apply kv_fwd_key_versions; exact F].
  Qed.

  Theorem key_versions_monotone_along_steps : forall g g',
    reachable zc strict g -> gstep zc strict g g' ->
    forall a n, node_at g a = Some n -> exists n', node_at g' a = Some n' /\ node_key_versions_fwd n n'.
  Proof.
    intros g g' Hr Hstep a n Ha.
    destruct (reachable_inv zc zc_len strict g Hr) as [Hg _].
    assert (Hset : forall b m m', node_at g b = Some m ->
              forall sent T, exists n', node_at (mkG (with_nodes (g_w g) (set_nth (w_nodes (g_w g)) b m')) sent T) a = Some n'
                                        /\ ((a = b /\ n' = m' /\ n = m) \/ (a <> b /\ n' = n))).
    { intros b m m' Hb sent T. unfold node_at in *. cbn [g_w with_nodes w_nodes].
      destruct (Nat.eq_dec b a) as [->|Hne].
      - exists m'. rewrite (nth_set_nth_same _ _ _ _ Hb). split; [reflexivity|]. left. rewrite Ha in Hb. injection Hb as <-. auto.
      - exists n. rewrite nth_set_nth_other by exact Hne. split; [exact Ha|]. right. auto. }
    assert (Hrefl : node_key_versions_fwd n n) by (apply fwd_le_combine; [apply node_fwd_refl|apply node_le_refl]).
    destruct Hstep.
    - exists n. split; [|exact Hrefl].
      unfold node_at in *. cbn [g_w with_nodes w_nodes]. rewrite nth_error_app1; [exact Ha|]. apply nth_error_Some. congruence.
    - destruct (Hset a0 n0 (fst (on_own n0 f)) H (g_sent g) (sync_truth (g_T g) (self_id n0) (own_copy (fst (on_own n0 f)))))
        as (n' & Hn' & Hcase). exists n'. split; [exact Hn'|].
      destruct Hcase as [(Ea & En & Em)|(Hne & En)]; subst; [|exact Hrefl].
      apply fwd_le_combine; [eapply on_own_fwd|eapply on_own_keeps]; try exact H0; apply (gi_nodes g Hg a0 n0 H).
    - destruct (Hset a0 n0 (gc_keys (w_now (g_w g)) n0) H (g_sent g) (g_T g)) as (n' & Hn' & Hcase). exists n'. split; [exact Hn'|].
      destruct Hcase as [(Ea & En & Em)|(Hne & En)]; subst; [|exact Hrefl].
      intros X c Hc. right. destruct (gc_keys_keeps (w_now (g_w g)) n0 X c Hc) as (c' & Hc' & L).
      exists c'. split; [exact Hc'|]. split; [exact L|].
      unfold gc_keys, cluster_gc in Hc'. cbn [nd_cs with_cs cs_nodes] in Hc'. rewrite nm_get_map_snd, Hc in Hc'. cbn [option_map] in Hc'.
      injection Hc' as <-. apply gc_copy_fwd.
      destruct (gi_nodes g Hg a0 n0 H) as [Hinv _ _]. eapply (cli_copies _ Hinv). apply nm_get_in. exact Hc.
    - destruct (Hset a0 n0 (update_self_heartbeat n0) H (g_sent g) (bump_hb (g_T g) (self_id n0))) as (n' & Hn' & Hcase). exists n'. split; [exact Hn'|].
      destruct Hcase as [(Ea & En & Em)|(Hne & En)]; subst; [|exact Hrefl].
      apply fwd_le_combine; [apply update_self_heartbeat_fwd|apply update_self_heartbeat_keeps].
    - exists n. split; [exact Ha|exact Hrefl].
    - destruct (Hset a0 n0 (update_nodes_liveness (w_now (g_w g)) n0 oracle) H (g_sent g) (g_T g)) as (n' & Hn' & Hcase). exists n'. split; [exact Hn'|].
      destruct Hcase as [(Ea & En & Em)|(Hne & En)]; subst; [|exact Hrefl].
      intros X c Hc. unfold update_nodes_liveness. cbv zeta. destruct (fd_garbage_collect _ _ _) as [f2 col]. cbn [nd_cs].
      rewrite fold_remove_node_get by (apply (gi_nodes g Hg a0 n0 H)).
      destruct (in_ids X col && negb (id_eqb X (self_id n0))); [left; reflexivity|].
      right. exists c. split; [exact Hc|]. split; [right; split; [reflexivity|cbn; lia]|apply kv_fwd_key_versions, kv_fwd_refl].
    - exists n. split; [exact Ha|exact Hrefl].
    - destruct (Hset a0 n0 n' H (opt_cons reply (g_sent g)) (bump_hb (g_T g) (self_id n0))) as (n'' & Hn'' & Hcase). exists n''. split; [exact Hn''|].
      destruct Hcase as [(Ea & En & Em)|(Hne & En)]; subst; [|exact Hrefl].
      apply fwd_le_combine.
      + eapply (process_message_fwd zc); [apply (gi_sent g Hg m H0)|exact H2].
      + eapply (process_message_keeps zc); [apply (gi_sent g Hg m H0)|exact H2].
  Qed.
End KM2.

(* ---------- the C04 monitor is implied: the model never fails it ---------- *)
Lemma c04_copy_ok_of_fwd c c' : copy_inv c -> frontier_le c c' -> key_versions_fwd c c' -> c04_copy_ok c c' = true.
Proof.
  intros Hci Hl Hk. unfold c04_copy_ok. apply andb_true_iff. split.
  - apply lex_le_iff. exact Hl.
  - apply orb_true_iff. destruct Hk as [Hk|Hk]; [left; apply N.ltb_lt; exact Hk|]. right.
    apply forallb_forall. intros [k o] Hin. cbn [fst snd].
    pose proof (ksorted_in_get k o (c_kvs c) (ci_sorted c Hci) Hin) as Ho.
    destruct (Hk k o Ho) as [(o' & Ho' & Hle)|(Hn & Hs & Hle)].
    + rewrite Ho'. apply N.leb_le. exact Hle.
    + rewrite Hn, Hs. apply N.leb_le. exact Hle.
Qed.

Section KM3.
  Variable zc : bytes -> option bytes.
  Hypothesis zc_len : forall b c, zc b = Some c -> len c <= len b.
  Variable strict : bool.

  (* every step of every reachable state passes the C04 monitor: a monitor failure on the
     implementation's dumps is therefore a genuine difference from the model *)
  Theorem steps_pass_c04_monitor : forall g g',
    reachable zc strict g -> gstep zc strict g g' ->
    forall a n, node_at g a = Some n -> exists n', node_at g' a = Some n' /\
      c04_nodes_ok (cs_nodes (nd_cs n)) (cs_nodes (nd_cs n')) = true.
  Proof.
    intros g g' Hr Hstep a n Ha.
    destruct (key_versions_monotone_along_steps zc zc_len strict g g' Hr Hstep a n Ha) as (n' & Hn' & Hf).
    exists n'. split; [exact Hn'|].
    destruct (reachable_inv zc zc_len strict g Hr) as [Hg _].
    destruct (gi_nodes g Hg a n Ha) as [Hinv _ _].
    unfold c04_nodes_ok.
    assert (Hall : forall i c, In (i, c) (cs_nodes (nd_cs n)) ->
              (match nm_get i (cs_nodes (nd_cs n')) with Some c' => c04_copy_ok c c' | None => true end) = true).
    { intros i c Hin.
      assert (Hget : nm_get i (cs_nodes (nd_cs n)) = Some c) by (apply (sorted_in_get id_cmp id_cmp_eq id_cmp_antisym id_cmp_trans _ _ _ (cli_sorted _ Hinv) Hin)).
      destruct (Hf i c Hget) as [->|(c' & -> & L & K)]; [reflexivity|].
      apply c04_copy_ok_of_fwd; [eapply (cli_copies _ Hinv); exact Hin|exact L|exact K]. }
    revert Hall. generalize (cs_nodes (nd_cs n)) as l. induction l as [|[i c] r IH]; intros Hall; cbn [forall_copies]; [reflexivity|].
    apply andb_true_iff. split; [apply (Hall i c); left; reflexivity|apply IH; intros j d Hj; apply Hall; right; exact Hj].
  Qed.
End KM3.
