(* NodeState_lemmas.v — frontier monotonicity of apply_delta (C04, C14 progress, C09). *)
From Coq Require Import Lia.
From ChitchatModel Require Import Base SMap Ids NodeState SMap_lemmas.

Lemma kget_kinsert_same k v m : kget k (kinsert k v m) = Some v.
Proof. apply (sm_get_insert_same bytes_cmp bytes_cmp_eq). Qed.
Lemma kget_kinsert_other k k' v m : k <> k' -> kget k' (kinsert k v m) = kget k' m.
Proof. apply (sm_get_insert_other bytes_cmp bytes_cmp_eq). Qed.

(* ---- set_versioned_value ---- *)
Lemma svv_gc c k v : c_gc (fst (set_versioned_value c k v)) = c_gc c.
Proof. unfold set_versioned_value. destruct (kget k (c_kvs c)) as [old|]; [destruct (v_ver v <=? v_ver old)|]; reflexivity. Qed.
Lemma svv_hb c k v : c_hb (fst (set_versioned_value c k v)) = c_hb c.
Proof. unfold set_versioned_value. destruct (kget k (c_kvs c)) as [old|]; [destruct (v_ver v <=? v_ver old)|]; reflexivity. Qed.
Lemma svv_max c k v : c_max (fst (set_versioned_value c k v)) = N.max (v_ver v) (c_max c).
Proof. unfold set_versioned_value. destruct (kget k (c_kvs c)) as [old|]; [destruct (v_ver v <=? v_ver old)|]; reflexivity. Qed.

(* a key's stored version never decreases through set_versioned_value *)
Lemma svv_key_mono c k v k' o :
  kget k' (c_kvs c) = Some o ->
  exists o', kget k' (c_kvs (fst (set_versioned_value c k v))) = Some o' /\ v_ver o <= v_ver o'.
Proof.
  intros Hg. unfold set_versioned_value.
  destruct (kget k (c_kvs c)) as [old|] eqn:Hk.
  - destruct (v_ver v <=? v_ver old) eqn:Hle; cbn.
    + exists o. split; [exact Hg|lia].
    + apply N.leb_gt in Hle.
      destruct (bytes_cmp k k') eqn:Hc.
      * apply bytes_cmp_eq in Hc. subst k'. rewrite kget_kinsert_same.
        rewrite Hk in Hg. injection Hg as <-. exists v. split; [reflexivity|lia].
      * rewrite kget_kinsert_other by (intros ->; rewrite bytes_cmp_refl in Hc; discriminate).
        exists o. split; [exact Hg|lia].
      * rewrite kget_kinsert_other by (intros ->; rewrite bytes_cmp_refl in Hc; discriminate).
        exists o. split; [exact Hg|lia].
  - cbn. destruct (bytes_cmp k k') eqn:Hc.
    + apply bytes_cmp_eq in Hc. subst k'. congruence.
    + rewrite kget_kinsert_other by (intros ->; rewrite bytes_cmp_refl in Hc; discriminate).
      exists o. split; [exact Hg|lia].
    + rewrite kget_kinsert_other by (intros ->; rewrite bytes_cmp_refl in Hc; discriminate).
      exists o. split; [exact Hg|lia].
Qed.

(* ---- the key-value loop of apply_delta ---- *)
Lemma apply_kv_gc now cm acc m : c_gc (fst (apply_kv now cm acc m)) = c_gc (fst acc).
Proof.
  unfold apply_kv. destruct acc as [c evs]. cbn [fst].
  destruct (m_ver m <=? cm); [reflexivity|].
  destruct (mscheduled (m_st m) && (m_ver m <=? c_gc c)); [reflexivity|].
  destruct (set_versioned_value c (m_key m) _) as [c' ev] eqn:Hs. cbn [fst].
  change c' with (fst (c', ev)). rewrite <- Hs. apply svv_gc.
Qed.
Lemma apply_kv_hb now cm acc m : c_hb (fst (apply_kv now cm acc m)) = c_hb (fst acc).
Proof.
  unfold apply_kv. destruct acc as [c evs]. cbn [fst].
  destruct (m_ver m <=? cm); [reflexivity|].
  destruct (mscheduled (m_st m) && (m_ver m <=? c_gc c)); [reflexivity|].
  destruct (set_versioned_value c (m_key m) _) as [c' ev] eqn:Hs. cbn [fst].
  change c' with (fst (c', ev)). rewrite <- Hs. apply svv_hb.
Qed.
Lemma apply_kv_max_bound now cm acc m B :
  m_ver m <= B -> c_max (fst acc) <= B -> c_max (fst (apply_kv now cm acc m)) <= B.
Proof.
  intros Hm Hc. unfold apply_kv. destruct acc as [c evs]. cbn [fst] in *.
  destruct (m_ver m <=? cm); [exact Hc|].
  destruct (mscheduled (m_st m) && (m_ver m <=? c_gc c)); [exact Hc|].
  destruct (set_versioned_value c (m_key m) _) as [c' ev] eqn:Hs. cbn [fst].
  change c' with (fst (c', ev)). rewrite <- Hs, svv_max. cbn [v_ver]. clear Hs. lia.
Qed.
Lemma apply_kv_max_ge now cm acc m : c_max (fst acc) <= c_max (fst (apply_kv now cm acc m)).
Proof.
  unfold apply_kv. destruct acc as [c evs]. cbn [fst].
  destruct (m_ver m <=? cm); [cbn [fst]; lia|].
  destruct (mscheduled (m_st m) && (m_ver m <=? c_gc c)); [cbn [fst]; lia|].
  destruct (set_versioned_value c (m_key m) _) as [c' ev] eqn:Hs. cbn [fst].
  change c' with (fst (c', ev)). rewrite <- Hs, svv_max. clear Hs. lia.
Qed.
Lemma apply_kv_key_mono now cm acc m k o :
  kget k (c_kvs (fst acc)) = Some o ->
  exists o', kget k (c_kvs (fst (apply_kv now cm acc m))) = Some o' /\ v_ver o <= v_ver o'.
Proof.
  intros Hg. unfold apply_kv. destruct acc as [c evs]. cbn [fst] in *.
  destruct (m_ver m <=? cm); [exists o; split; [exact Hg|lia]|].
  destruct (mscheduled (m_st m) && (m_ver m <=? c_gc c)); [exists o; split; [exact Hg|lia]|].
  destruct (set_versioned_value c (m_key m) _) as [c' ev] eqn:Hs. cbn [fst].
  change c' with (fst (c', ev)). rewrite <- Hs. apply svv_key_mono. exact Hg.
Qed.

Lemma fold_apply_kv_inv now cm kvs acc B :
  (forall m, In m kvs -> m_ver m <= B) -> c_max (fst acc) <= B ->
  let r := fold_left (apply_kv now cm) kvs acc in
  c_gc (fst r) = c_gc (fst acc) /\ c_hb (fst r) = c_hb (fst acc) /\
  c_max (fst r) <= B /\ c_max (fst acc) <= c_max (fst r).
Proof.
  revert acc. induction kvs as [|m kvs IH]; intros acc Hall Hc; cbn [fold_left].
  - repeat split; auto; lia.
  - specialize (IH (apply_kv now cm acc m)).
    destruct IH as (H1 & H2 & H3 & H4).
    + intros m' Hin. apply Hall. right; exact Hin.
    + apply apply_kv_max_bound; [apply Hall; left; reflexivity|exact Hc].
    + cbn zeta. rewrite H1, H2, apply_kv_gc, apply_kv_hb. repeat split; auto.
      pose proof (apply_kv_max_ge now cm acc m). lia.
Qed.

Lemma fold_apply_kv_key_mono now cm kvs acc k o :
  kget k (c_kvs (fst acc)) = Some o ->
  exists o', kget k (c_kvs (fst (fold_left (apply_kv now cm) kvs acc))) = Some o' /\ v_ver o <= v_ver o'.
Proof.
  revert acc o. induction kvs as [|m kvs IH]; intros acc o Hg; cbn [fold_left].
  - exists o. split; [exact Hg|lia].
  - destruct (apply_kv_key_mono now cm acc m k o Hg) as (o1 & Hg1 & Hle1).
    destruct (IH _ _ Hg1) as (o2 & Hg2 & Hle2). exists o2. split; [exact Hg2|lia].
Qed.

(* The decoder's grammar (DeltaBuilder) guarantees this for every node delta it emits. *)
Definition nd_bounded (d : ndelta) : Prop := forall m, In m (d_kvs d) -> m_ver m <= d_max d.

Definition lex_le_p (a b : N * N) : Prop := fst a < fst b \/ (fst a = fst b /\ snd a <= snd b).
Definition lex_lt_p (a b : N * N) : Prop := fst a < fst b \/ (fst a = fst b /\ snd a < snd b).
Lemma lex_le_iff a b : lex_le a b = true <-> lex_le_p a b.
Proof.
  unfold lex_le, lex_le_p. rewrite orb_true_iff, andb_true_iff, N.ltb_lt, N.eqb_eq, N.leb_le. tauto.
Qed.
Lemma lex_lt_iff a b : lex_lt a b = true <-> lex_lt_p a b.
Proof.
  unfold lex_lt, lex_lt_p. rewrite orb_true_iff, andb_true_iff, N.ltb_lt, N.eqb_eq, N.ltb_lt. tauto.
Qed.

(* C04 (frontier part), for EVERY copy and EVERY grammar-valid node delta, honest or not:
   no abort; the frontier does not decrease; it strictly increases when the delta is applied;
   the watermark strictly increases on a reset, and stored key versions only grow otherwise. *)
Theorem apply_delta_frontier : forall now c d, nd_bounded d ->
  exists c' st evs, apply_delta now c d = Ok (c', st, evs) /\
    st = check_delta_status c d /\
    lex_le_p (monotonic_property c) (monotonic_property c') /\
    (st = Reject -> c' = c /\ evs = []) /\
    (st = Apply -> c_gc c' = c_gc c /\ c_max c < c_max c' /\ c_max c' = d_max d /\ c_hb c' = c_hb c /\
                   forall k o, kget k (c_kvs c) = Some o ->
                     exists o', kget k (c_kvs c') = Some o' /\ v_ver o <= v_ver o') /\
    (st = ApplyAfterReset -> c_gc c < c_gc c' /\ c_gc c' = d_gc d /\ c_max c' = d_max d /\ c_hb c' = c_hb c).
Proof.
  intros now c d Hb. unfold apply_delta.
  destruct (check_delta_status c d) eqn:Hst.
  - exists c, Reject, []. repeat split; try discriminate; auto.
    unfold lex_le_p. right. split; [reflexivity|]. cbn. lia.
  - (* Apply *)
    assert (Hlt : c_max c < d_max d).
    { unfold check_delta_status in Hst.
      destruct (c_max c <? d_from d); [discriminate|].
      destruct (negb _); [destruct (negb _); discriminate|].
      destruct (c_max c <? d_max d) eqn:H; [apply N.ltb_lt in H; exact H|discriminate]. }
    pose proof (fold_apply_kv_inv now (c_max c) (d_kvs d) (c, []) (d_max d) Hb) as Hinv.
    cbn [fst] in Hinv. specialize (Hinv ltac:(lia)). cbn zeta in Hinv.
    destruct (fold_left (apply_kv now (c_max c)) (d_kvs d) (c, [])) as [c1 evs] eqn:Hf.
    cbn [fst] in Hinv. destruct Hinv as (Hgc & Hhb & Hmax & Hge).
    destruct (d_max d <? c_max c1) eqn:Hp; [apply N.ltb_lt in Hp; lia|].
    eexists _, Apply, evs. split; [reflexivity|]. split; [reflexivity|].
    cbn [monotonic_property c_gc c_max c_hb c_kvs]. repeat split; try discriminate; auto.
    + unfold lex_le_p. cbn. right. split; [symmetry; exact Hgc|lia].
    + intros k o Hg.
      pose proof (fold_apply_kv_key_mono now (c_max c) (d_kvs d) (c, []) k o Hg) as Hk.
      rewrite Hf in Hk. exact Hk.
  - (* ApplyAfterReset *)
    assert (Hgt : c_gc c < d_gc d).
    { unfold check_delta_status in Hst.
      destruct (c_max c <? d_from d); [discriminate|].
      destruct ((d_gc d <=? c_gc c) || (d_gc d <=? c_max c)) eqn:Hc; cbn [negb] in Hst.
      - destruct (c_max c <? d_max d); discriminate.
      - apply orb_false_iff in Hc as [H1 _]. apply N.leb_gt in H1. exact H1. }
    unfold reset_node. cbn [c_max].
    pose proof (fold_apply_kv_inv now 0 (d_kvs d) (mkCopy (c_hb c) (d_gc d) 0 [], []) (d_max d) Hb) as Hinv.
    cbn [fst c_max] in Hinv. specialize (Hinv ltac:(lia)). cbn zeta in Hinv.
    destruct (fold_left (apply_kv now 0) (d_kvs d) (mkCopy (c_hb c) (d_gc d) 0 [], [])) as [c1 evs] eqn:Hf.
    cbn [fst c_gc c_hb c_max] in Hinv. destruct Hinv as (Hgc & Hhb & Hmax & Hge).
    destruct (d_max d <? c_max c1) eqn:Hp; [apply N.ltb_lt in Hp; lia|].
    eexists _, ApplyAfterReset, evs. split; [reflexivity|]. split; [reflexivity|].
    cbn [monotonic_property c_gc c_max]. repeat split; try discriminate; auto; try lia.
    unfold lex_le_p. cbn. left. lia.
Qed.

