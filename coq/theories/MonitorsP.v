(* MonitorsP.v — proofs about the monitors of MonitorsD.v.  The C14 "offer" monitor: when the sender is ahead of the digest on some member it
   does not quarantine and every such member's header plus first operation fits the budget, the
   computed delta is not empty.  Proved here to hold of every delta the MODEL computes
   (computed_delta_passes_offer), so the monitor can only fail on a genuine difference. *)
From Coq Require Import Lia Permutation.
From ChitchatModel Require Import Base SMap Ids Bytes Params NodeState Stream DeltaWire Message Cluster
  FD Chitchat Monitors SMap_lemmas NodeState_lemmas Builder_lemmas Stream_lemmas Agreement Inv DeltaRefine
  Compute_lemmas Prefix_lemmas NodeInv Codec_lemmas Emit_lemmas Progress MonitorsD.

Theorem computed_delta_passes_agreement cs dg sched mtu x :
  cluster_inv cs -> delta_shape cs dg sched mtu x -> c14_agree_ok dg (cs_nodes cs) x = true.
Proof.
  intros Hinv Hsh. unfold c14_agree_ok. apply forallb_forall. intros nd Hin.
  destruct (computed_delta_nodes cs dg sched mtu x Hinv Hsh nd Hin) as (n & j & mv & Hn & -> & _ & Hget & _).
  destruct (node_piece_is_mk_node_delta cs dg sched n j mv Hn) as (dgc & dmax & Hd & Hmk).
  assert (Hid : d_id (node_piece n j mv) = sn_id n) by reflexivity.
  rewrite Hid, Hget. unfold c14_agree_one. rewrite Hid, Hd.
  set (r := mkCopy 0 dgc dmax []).
  destruct (agreement_status (sn_id n) (sn_copy n) r j mv (node_piece n j mv) Hmk) as (Hiff & _ & Hrej).
  cbn [r c_gc c_max] in Hiff.
  set (b := (dgc <? c_gc (sn_copy n)) && (dmax <? c_gc (sn_copy n))).
  assert (Hb : b = true <-> (dgc < c_gc (sn_copy n) /\ dmax < c_gc (sn_copy n))).
  { unfold b. rewrite andb_true_iff, !N.ltb_lt. reflexivity. }
  destruct (check_delta_status r (node_piece n j mv)) eqn:Est.
  - (* Reject *)
    destruct (Hrej eq_refl) as [E1 E2]. rewrite E1, E2. cbn [N.eqb]. rewrite andb_true_r.
    destruct b; [|reflexivity]. pose proof (proj2 Hiff (proj1 Hb eq_refl)). discriminate.
  - (* Apply *)
    destruct b; [|reflexivity]. pose proof (proj2 Hiff (proj1 Hb eq_refl)). discriminate.
  - apply Hb. apply Hiff. reflexivity.
Qed.

Section MP.
  Variable zc : bytes -> option bytes.
  Hypothesis zc_len : forall b c, zc b = Some c -> len c <= len b.

  Theorem computed_delta_passes_offer cs dg mtu sched ord x :
    cluster_inv cs -> compute_delta zc cs dg mtu sched ord = Ok x ->
    c14_offer_ok (cs_nodes cs) dg sched mtu x = true.
  Proof.
    intros [Hs Hc] Hrun. unfold c14_offer_ok.
    change (stale_nodes (mkCluster (cs_nodes cs) []) dg sched) with (stale_nodes cs dg sched).
    destruct (stale_nodes cs dg sched) as [|s0 srest] eqn:Est; [reflexivity|].
    destruct ((P_MIN_MTU <=? mtu) && (mtu <=? u16_max) && forallb (roomb_p mtu) (s0 :: srest)) eqn:Ec; [|reflexivity].
    apply andb_true_iff in Ec as [Ec Hroomall]. apply andb_true_iff in Ec as [Hmin Hmax].
    apply N.leb_le in Hmin, Hmax.
    unfold compute_delta in Hrun. rewrite Est in Hrun.
    destruct (arrange ord (s0 :: srest)) as [ordered|] eqn:Harr; [|discriminate].
    destruct (staleness_desc ordered); [|discriminate].
    pose proof (arrange_perm _ _ _ Harr) as Hperm.
    destruct ordered as [|n rest].
    { apply Permutation_sym, Permutation_nil in Hperm. discriminate. }
    unfold compute_delta_ordered, ds_with_mtu in Hrun.
    destruct (mtu <? P_MIN_MTU) eqn:Em; [apply N.ltb_lt in Em; lia|]. cbn [rbind] in Hrun.
    assert (Hnd : NoDup (map sn_id (n :: rest))).
    { eapply Permutation_NoDup; [apply Permutation_map; exact Hperm|]. rewrite <- Est. apply stale_nodes_nodup. exact Hs. }
    assert (Hnok : forall m, In m (n :: rest) -> node_ok m).
    { intros m Hm. unfold node_ok, sorted_of.
      apply (Permutation_in _ (Permutation_sym Hperm)) in Hm. rewrite <- Est in Hm.
      unfold stale_nodes in Hm. apply filter_map_in in Hm as (e & He & Hcand).
      destruct (stale_candidate_some _ _ _ _ Hcand) as (_ & Hcopy & _).
      rewrite Hcopy. apply (asc_from_weaken (sn_from m)); [lia|].
      apply stale_sorted_strict. destruct e as [i c]. eapply Hc. exact He. }
    assert (Hroom : room mtu n).
    { rewrite forallb_forall in Hroomall.
      assert (Hin : In n (s0 :: srest)) by (apply (Permutation_in _ (Permutation_sym Hperm)); left; reflexivity).
      specialize (Hroomall n Hin). unfold roomb_p in Hroomall. apply N.leb_le in Hroomall. exact Hroomall. }
    destruct (delta_loop_first zc zc_len n rest mtu Hmin Hmax Hnd Hnok Hroom)
      as (x0 & j & mv & ps & Hx0 & _ & Hnds & _).
    change (mkDS mtu new_builder (new_writer (N.min P_BLOCK_THRESHOLD mtu))) with (s_init mtu) in Hrun.
    rewrite Hx0 in Hrun. injection Hrun as <-. rewrite Hnds. reflexivity.
  Qed.
End MP.
