(* Emit_lemmas.v — the structure of every message a node emits (C08): digests are strictly
   sorted by ChitchatId, deltas are in the normal form Delta::get_operations can represent
   (distinct members; ascending versions; max version = last version when there are key-values). *)
From Coq Require Import Lia Permutation.
From ChitchatModel Require Import Base SMap Ids Bytes Params NodeState Stream DeltaWire Message Cluster
  FD Chitchat SMap_lemmas NodeState_lemmas Builder_lemmas Stream_lemmas Agreement Inv DeltaRefine
  Compute_lemmas Prefix_lemmas NodeInv Chitchat_lemmas Wire_lemmas Codec_lemmas.

Definition msg_struct (m : message) : Prop :=
  match m with
  | Syn _ d => sm_sorted id_cmp d
  | SynAck d x => sm_sorted id_cmp d /\ delta_normal x
  | Ack x => delta_normal x
  | BadCluster => True
  end.

(* ---- digests ---- *)
Lemma map_values_sorted_gen {V W} (f : id * V -> W) (m : smap id V) :
  sm_sorted id_cmp m -> sm_sorted id_cmp (map (fun e => (fst e, f e)) m).
Proof.
  induction m as [|[k v] r IH]; [auto|].
  destruct r as [|[k1 v1] r']; cbn [map sm_sorted fst]; [auto|].
  intros [H1 H2]. split; [exact H1|]. apply IH. exact H2.
Qed.

Lemma compute_digest_sorted cs sched : nsorted (cs_nodes cs) -> sm_sorted id_cmp (compute_digest cs sched).
Proof.
  intros Hs. unfold compute_digest.
  apply (map_values_sorted_gen (fun e => node_digest (snd e))).
  apply (filter_sorted id_cmp id_cmp_trans). exact Hs.
Qed.

(* ---- deltas ---- *)
Lemma asc_from_firstn lo l : forall j, asc_from lo l -> asc_from lo (firstn j l).
Proof.
  revert lo. induction l as [|m l IH]; intros lo [|j]; cbn [firstn asc_from]; auto.
  intros [H1 H2]. split; [exact H1|apply IH; exact H2].
Qed.

Lemma node_piece_normal n j mv : asc_from 0 (map kvm_of (sorted_of n)) -> nd_normal (node_piece n j mv).
Proof.
  intros Ha. unfold nd_normal, node_piece. cbn [d_kvs d_max]. split.
  - rewrite <- firstn_map. apply asc_from_firstn. exact Ha.
  - intros Hne. destruct (sorted_of n); [|reflexivity]. destruct j; cbn in Hne; congruence.
Qed.

Lemma pieces_of_ids ordered ps : pieces_of ordered ps ->
  exists rest, map sn_id ordered = map d_id ps ++ rest.
Proof.
  induction 1 as [nodes|n rest j mv ps Hj Hstop Hps (r & Hr)].
  - exists (map sn_id nodes). reflexivity.
  - exists r. cbn [map app]. rewrite Hr. reflexivity.
Qed.

Lemma nodup_app_l {A} (a b : list A) : NoDup (a ++ b) -> NoDup a.
Proof.
  induction a as [|x a IH]; [constructor|]. cbn. intros H. inversion H as [|? ? Hn Hd]; subst.
  constructor; [intros Hin; apply Hn; apply in_or_app; left; exact Hin|apply IH; exact Hd].
Qed.

Theorem computed_delta_normal cs dg sched mtu x :
  cluster_inv cs -> delta_shape cs dg sched mtu x -> delta_normal x.
Proof.
  intros Hinv Hsh. pose proof Hsh as [_ (ordered & Hperm & Hps)]. destruct Hinv as [Hs Hc]. split.
  - destruct (pieces_of_ids _ _ Hps) as (rest & Hr).
    apply (nodup_app_l _ rest). rewrite <- Hr.
    eapply Permutation_NoDup; [apply Permutation_map; exact Hperm|]. apply stale_nodes_nodup. exact Hs.
  - apply Forall_forall. intros nd Hin.
    destruct (pieces_of_in _ _ Hps nd Hin) as (n & j & mv & Hn & -> & Hj).
    apply (Permutation_in _ (Permutation_sym Hperm)) in Hn.
    apply node_piece_normal.
    unfold stale_nodes in Hn. apply filter_map_in in Hn as ([i c] & He & Hcand).
    destruct (stale_candidate_some _ _ _ _ Hcand) as (Hid & Hcopy & _). cbn [fst snd] in *.
    unfold sorted_of. rewrite Hcopy. apply (asc_from_weaken (sn_from n)); [lia|].
    apply stale_sorted_strict. eapply Hc. exact He.
Qed.

Section Emit.
  Variable zc : bytes -> option bytes.
  Hypothesis zc_len : forall b c, zc b = Some c -> len c <= len b.

  Lemma compute_delta_ok_normal cs dg mtu sched ord x :
    cluster_inv cs -> mtu <= u16_max -> compute_delta zc cs dg mtu sched ord = Ok x -> delta_normal x.
  Proof.
    intros Hinv Hu Hx. destruct (mtu <? P_MIN_MTU) eqn:E.
    - exfalso. unfold compute_delta in Hx. destruct (arrange ord _); [|discriminate].
      destruct (staleness_desc l); [|discriminate]. unfold compute_delta_ordered, ds_with_mtu in Hx.
      rewrite E in Hx. discriminate.
    - apply N.ltb_ge in E.
      destruct (compute_delta_spec zc zc_len cs dg mtu sched ord Hinv E Hu) as [He|(y & Hy & Hsh)]; [congruence|].
      rewrite Hy in Hx. injection Hx as <-. eapply computed_delta_normal; eauto.
  Qed.

  (* every reply a well-formed node produces has the emitted structure *)
  Theorem reply_struct now n m ord n' r evs :
    node_inv n -> msg_wf m -> process_message zc now n m ord = Ok (n', Some r, evs) -> msg_struct r.
  Proof.
    intros Hinv Hwf. unfold process_message.
    pose proof (update_self_heartbeat_inv n Hinv) as H0. pose proof p_max_udp_le_u16 as Hu.
    destruct m as [cluster dg|dg x|x|].
    - destruct (negb (bytes_eqb cluster _)); [intros [= <- <- <-]; exact I|].
      set (n1 := report_heartbeats_in_digest now (update_self_heartbeat n) dg).
      pose proof (report_heartbeats_inv now dg _ H0) as H1. fold n1 in H1.
      destruct (P_MAX_UDP <? _); [discriminate|].
      destruct (compute_delta zc (nd_cs n1) dg _ (scheduled now n1) ord) as [y| |] eqn:Ey; cbn [rmap]; try discriminate.
      intros [= <- <- <-]. split; [apply compute_digest_sorted; apply H1|].
      eapply compute_delta_ok_normal; [exact H1| |exact Ey]. eapply N.le_trans; [apply N.le_sub_l|exact Hu].
    - set (n1 := report_heartbeats_in_digest now (update_self_heartbeat n) dg).
      pose proof (report_heartbeats_inv now dg _ H0) as H1. fold n1 in H1.
      destruct (process_delta now n1 x) as [[n2 evs2]| |] eqn:Hpd; cbn [rbind]; try discriminate.
      pose proof (process_delta_inv now n1 x n2 evs2 H1 Hwf Hpd) as H2.
      destruct (compute_delta zc (nd_cs n2) dg _ (scheduled now n2) ord) as [y| |] eqn:Ey; cbn [rmap]; try discriminate.
      intros [= <- <- <-].
      eapply compute_delta_ok_normal; [exact H2| |exact Ey]. eapply N.le_trans; [apply N.le_sub_l|exact Hu].
    - destruct (process_delta now _ x) as [[n2 evs2]| |]; cbn [rmap]; discriminate.
    - discriminate.
  Qed.

  Lemma syn_struct now n : node_inv n -> msg_struct (create_syn_message now n).
  Proof. intros Hinv. unfold create_syn_message. cbn [msg_struct]. apply compute_digest_sorted. apply Hinv. Qed.
End Emit.

(* the byte-range conditions alone (what the Rust types u64 / u16 / String / SocketAddr guarantee,
   plus the documented limits: at most 65,535 digest entries, strings of at most 65,535 bytes) *)
Definition msg_bounds (m : message) : Prop :=
  match m with
  | Syn c d => str_ok c /\ N.of_nat (length d) <= u16_max /\ Forall (fun e => id_ok (fst e) /\ ndigest_ok (snd e)) d
  | SynAck d x => (N.of_nat (length d) <= u16_max /\ Forall (fun e => id_ok (fst e) /\ ndigest_ok (snd e)) d)
                  /\ Forall nd_ok (nds x)
  | Ack x => Forall nd_ok (nds x)
  | BadCluster => True
  end.

Lemma struct_bounds_ok m : msg_struct m -> msg_bounds m -> msg_ok m.
Proof.
  destruct m as [c d|d x|x|]; cbn [msg_struct msg_bounds msg_ok]; unfold digest_ok, delta_ok; tauto.
Qed.
