(* ReachLru.v — the removed-member memory never exceeds GARBAGE_COLLECTED_NODE_HISTORY_SIZE entries,
   in every reachable state, on every node (session 5; the chain mirrors MemInv.v / ReachMem.v with
   the size bound of LruBound.v as the leaf facts). *)
From Coq Require Import Lia.
From ChitchatModel Require Import Base SMap Ids Bytes Params NodeState Stream DeltaWire Message Cluster
  FD Chitchat World SMap_lemmas NodeState_lemmas Cluster_lemmas Chitchat_lemmas FD_lemmas Agreement Inv Compute_lemmas NodeInv
  Liveness_lemmas Truth NodeTruth Weak Exact Reach Revive MemInv LruBound.

Definition mem_bnd (cs : cluster) : Prop := (length (cs_gcn cs) <= gc_history_cap)%nat.

Lemma gc_history_cap_pos : (0 < gc_history_cap)%nat.
Proof. unfold gc_history_cap; vm_compute; lia. Qed.

Lemma new_cluster_bnd : mem_bnd new_cluster.
Proof. unfold mem_bnd, new_cluster. cbn [cs_gcn length]. lia. Qed.

Lemma mut_or_init_bnd cs i : mem_bnd cs -> mem_bnd (node_state_mut_or_init cs i).
Proof.
  unfold mem_bnd, node_state_mut_or_init. intros H. destruct (nm_get i (cs_nodes cs)); [exact H|].
  cbn [cs_gcn]. unfold lru_pop. pose proof (lru_remove_length i (cs_gcn cs)). lia.
Qed.

Lemma insert_present_bnd cs i (c0 c : copy) : mem_bnd cs -> nm_get i (cs_nodes cs) = Some c0 ->
  mem_bnd (mkCluster (nm_insert i c (cs_nodes cs)) (cs_gcn cs)).
Proof. intros H _. exact H. Qed.

Lemma remove_node_bnd cs i : mem_bnd cs -> mem_bnd (remove_node cs i).
Proof.
  unfold mem_bnd, remove_node. intros H. destruct (nm_get i (cs_nodes cs)); [|exact H].
  cbn [cs_gcn]. apply lru_push_length; [exact gc_history_cap_pos|exact H].
Qed.

(* ---------- nodes ---------- *)
Definition node_bnd (n : node) : Prop := mem_bnd (nd_cs n).

Lemma update_copy_bnd cs i f : mem_bnd cs -> mem_bnd (update_copy cs i f).
Proof.
  intros H. unfold update_copy. destruct (nm_get i (cs_nodes cs)) as [c|] eqn:E; [|exact H].
  eapply insert_present_bnd; eauto.
Qed.

Lemma update_self_heartbeat_bnd n : node_bnd n -> node_bnd (update_self_heartbeat n).
Proof.
  intros H. unfold node_bnd, update_self_heartbeat. cbn [nd_cs with_cs].
  apply update_copy_bnd. apply mut_or_init_bnd. exact H.
Qed.

Lemma report_heartbeat_bnd now n i hb : node_bnd n -> node_bnd (report_heartbeat now n i hb).
Proof.
  intros H. unfold report_heartbeat. destruct (id_eqb i (self_id n)); [exact H|].
  match goal with |- context [nm_get i (cs_nodes ?c0)] => set (cs := c0) end.
  assert (Hcs : mem_bnd cs).
  { unfold cs. destruct (match last_heartbeat_if_deleted (nd_cs n) i with Some _ => _ | None => _ end);
      [apply mut_or_init_bnd; exact H|exact H]. }
  destruct (nm_get i (cs_nodes cs)) as [c|] eqn:E; [|exact Hcs].
  destruct (try_set_heartbeat c hb) as [c' fresh].
  assert (Hres : mem_bnd (mkCluster (nm_insert i c' (cs_nodes cs)) (cs_gcn cs))) by (eapply insert_present_bnd; eauto).
  destruct fresh; exact Hres.
Qed.

Lemma report_heartbeats_bnd now dg : forall n, node_bnd n -> node_bnd (report_heartbeats_in_digest now n dg).
Proof.
  unfold report_heartbeats_in_digest. induction dg as [|e r IH]; intros n H; cbn [fold_left]; [exact H|].
  apply IH. apply report_heartbeat_bnd. exact H.
Qed.

Lemma cluster_apply_nds_bnd now : forall l nodes gcn reset evs nodes' reset' evs',
  mem_bnd (mkCluster nodes gcn) -> cluster_apply_nds now nodes l reset evs = Ok (nodes', reset', evs') ->
  mem_bnd (mkCluster nodes' gcn).
Proof.
  induction l as [|nd r IH]; intros nodes gcn reset evs nodes' reset' evs' H Hrun; cbn [cluster_apply_nds] in Hrun.
  - injection Hrun as <- _ _. exact H.
  - destruct (nm_get (d_id nd) nodes) as [c0|] eqn:Hget; [|eapply IH; eauto].
    destruct (apply_delta now c0 nd) as [[[c1 st] ev]| |]; try discriminate.
    destruct (lex_le _ _); [|discriminate].
    eapply IH; [|exact Hrun]. apply (insert_present_bnd (mkCluster nodes gcn) (d_id nd) c0 c1 H Hget).
Qed.

Lemma process_delta_bnd now n x n' evs : node_bnd n -> process_delta now n x = Ok (n', evs) -> node_bnd n'.
Proof.
  unfold process_delta, cluster_apply_delta, node_bnd. intros H Hpd.
  destruct (cluster_apply_nds now (cs_nodes (nd_cs n)) (nds x) false []) as [[[nodes' reset'] evs']| |] eqn:E; cbn [rmap] in Hpd; try discriminate.
  injection Hpd as <- _.
  assert (Hm : mem_bnd (mkCluster nodes' (cs_gcn (nd_cs n)))).
  { eapply cluster_apply_nds_bnd; [|exact E]. destruct (nd_cs n); exact H. }
  destruct (reset' && cf_has_cb (nd_cfg n)); exact Hm.
Qed.

Lemma on_own_bnd n f : node_bnd n -> node_bnd (fst (on_own n f)).
Proof.
  intros H. unfold on_own.
  pose proof (mut_or_init_bnd (nd_cs n) (self_id n) H) as H1.
  destruct (nm_get (self_id n) (cs_nodes (node_state_mut_or_init (nd_cs n) (self_id n)))) as [c|] eqn:E; [|exact H].
  destruct (f c) as [c' evs]. cbn [fst]. unfold node_bnd. cbn [nd_cs with_cs].
  eapply insert_present_bnd; eauto.
Qed.


Lemma gc_keys_bnd now n : node_bnd n -> node_bnd (gc_keys now n).
Proof. intros H. unfold node_bnd, mem_bnd, gc_keys, cluster_gc. cbn [nd_cs with_cs cs_gcn]. exact H. Qed.

Lemma fold_remove_bnd self (l : list id) : forall cs, mem_bnd cs ->
  mem_bnd (fold_left (fun cs i => if id_eqb i self then cs else remove_node cs i) l cs).
Proof.
  induction l as [|i r IH]; intros cs Hm; cbn [fold_left]; [exact Hm|].
  destruct (id_eqb i self); [apply IH; assumption|]. apply IH. apply remove_node_bnd. exact Hm.
Qed.

Lemma update_nodes_liveness_bnd now n oracle : node_bnd n -> node_bnd (update_nodes_liveness now n oracle).
Proof.
  intros H. unfold update_nodes_liveness, node_bnd. cbv zeta.
  destruct (fd_garbage_collect _ _ _) as [f2 col]. cbn [nd_cs]. apply fold_remove_bnd; assumption.
Qed.

Lemma new_node_bnd cfg initial : node_bnd (new_node cfg initial).
Proof.
  unfold new_node. cbv zeta. unfold node_bnd. cbn [nd_cs with_cs].
  apply update_copy_bnd. apply (update_self_heartbeat_bnd (mkNode cfg new_cluster new_fd [] [] 0 0)).
  exact new_cluster_bnd.
Qed.

Section MB.
  Variable zc : bytes -> option bytes.

  Theorem process_message_bnd now n m ord n' reply evs :
    node_bnd n -> process_message zc now n m ord = Ok (n', reply, evs) -> node_bnd n'.
  Proof.
    intros H Hrun. unfold process_message in Hrun.
    pose proof (update_self_heartbeat_bnd n H) as H0.
    destruct m as [cl dg|dg x|x|].
    - destruct (negb _); [injection Hrun as <- _ _; exact H0|].
      destruct (P_MAX_UDP <? _); [discriminate|].
      destruct (compute_delta zc _ dg _ _ ord); cbn [rmap] in Hrun; try discriminate.
      injection Hrun as <- _ _. apply report_heartbeats_bnd. exact H0.
    - destruct (process_delta now _ x) as [[n2 evs2]| |] eqn:Hpd; cbn [rbind] in Hrun; try discriminate.
      destruct (compute_delta zc _ dg _ _ ord); cbn [rmap] in Hrun; try discriminate.
      injection Hrun as <- _ _. eapply process_delta_bnd; [|exact Hpd]. apply report_heartbeats_bnd. exact H0.
    - destruct (process_delta now _ x) as [[n2 evs2]| |] eqn:Hpd; cbn [rmap] in Hrun; try discriminate.
      injection Hrun as <- _ _. cbn [fst]. eapply process_delta_bnd; [|exact Hpd]. exact H0.
    - injection Hrun as <- _ _. exact H0.
  Qed.
End MB.

Section RB.
  Variable zc : bytes -> option bytes.
  Hypothesis zc_len : forall b c, zc b = Some c -> len c <= len b.
  Variable strict : bool.

  Theorem reachable_memory_bounded : forall g, reachable zc strict g ->
    forall a n, node_at g a = Some n -> node_bnd n.
  Proof.
    induction 1 as [|g g' Hr IH Hstep]; [intros a n H; destruct a; discriminate|].
    assert (Hset : forall b m m' sent T, node_at g b = Some m -> node_bnd m' ->
              forall a n, node_at (mkG (with_nodes (g_w g) (set_nth (w_nodes (g_w g)) b m')) sent T) a = Some n -> node_bnd n).
    { intros b m m' sent T Hb Hm' a n Hn. unfold node_at in *. cbn [g_w with_nodes w_nodes] in Hn.
      destruct (Nat.eq_dec b a) as [->|Hne].
      - rewrite (nth_set_nth_same _ _ _ _ Hb) in Hn. injection Hn as <-. exact Hm'.
      - rewrite nth_set_nth_other in Hn by exact Hne. eapply IH; eauto. }
    destruct Hstep.
    - intros a n Hn. unfold node_at in Hn. cbn [g_w with_nodes w_nodes] in Hn.
      destruct (Nat.lt_ge_cases a (length (w_nodes (g_w g)))) as [Hlt|Hge].
      + rewrite nth_error_app1 in Hn by exact Hlt. eapply IH; eauto.
      + rewrite nth_error_app2 in Hn by exact Hge.
        destruct (a - length (w_nodes (g_w g)))%nat as [|k]; cbn in Hn; [|destruct k; discriminate].
        injection Hn as <-. apply new_node_bnd.
    - apply (Hset a n); [exact H|]. apply on_own_bnd. eapply IH; eauto.
    - apply (Hset a n); [exact H|]. apply gc_keys_bnd. eapply IH; eauto.
    - apply (Hset a n); [exact H|]. apply update_self_heartbeat_bnd. eapply IH; eauto.
    - intros a n Hn. eapply IH; eauto.
    - apply (Hset a n); [exact H|]. apply update_nodes_liveness_bnd. eapply IH; eauto.
    - intros a0 n0 Hn. eapply IH; eauto.
    - apply (Hset a n); [exact H|]. eapply (process_message_bnd zc); [|exact H2]. eapply IH; eauto.
  Qed.
End RB.
