(* Message.v — digest layout and message framing (digest.rs, message.rs). Model file. *)
From ChitchatModel Require Import Base SMap Ids Bytes Params NodeState Stream DeltaWire.

Record ndigest := mkNDg { g_hb : N; g_gc : N; g_max : N }.
Definition digest := smap id ndigest.

Definition dg_get := @sm_get id ndigest id_cmp.
Definition dg_insert := @sm_insert id ndigest id_cmp.

Inductive message :=
| Syn (cluster : bytes) (d : digest)
| SynAck (d : digest) (x : delta)
| Ack (x : delta)
| BadCluster.

(* digest.rs:13-34 *)
Definition put_ndigest (g : ndigest) : bytes := put_u64 (g_hb g) ++ put_u64 (g_gc g) ++ put_u64 (g_max g).

(* digest.rs:68-84 : the count is truncated by `as u16` *)
Definition put_digest (d : digest) : bytes :=
  put_u16 (N.of_nat (length d)) ++ flat_map (fun e => put_id (fst e) ++ put_ndigest (snd e)) d.
Definition digest_len (d : digest) : N :=
  2 + fold_right (fun e acc => id_len (fst e) + 24 + acc) 0 d.

(* digest.rs:86-97 *)
Fixpoint get_digest_entries (n : nat) (buf : bytes) (acc : digest) : option (digest * bytes) :=
  match n with
  | O => Some (acc, buf)
  | S n' =>
      match get_id buf with
      | None => None
      | Some (i, r) =>
          match get_u64 r with
          | None => None
          | Some (hb, r1) =>
              match get_u64 r1 with
              | None => None
              | Some (gc, r2) =>
                  match get_u64 r2 with
                  | None => None
                  | Some (mx, r3) => get_digest_entries n' r3 (dg_insert i (mkNDg hb gc mx) acc)
                  end
              end
          end
      end
  end.
Definition get_digest (buf : bytes) : option (digest * bytes) :=
  match get_u16 buf with
  | None => None
  | Some (n, r) => get_digest_entries (N.to_nat n) r []
  end.

Section Msg.
  Variable zc : bytes -> option bytes.
  Variable zd : bytes -> option bytes.

  Definition put_header (tag : N) : bytes := put_u16 P_MAGIC ++ put_u8 P_PROTOCOL_VERSION ++ put_u8 tag.

  (* message.rs:81-112; Panic propagates from Delta::serialize *)
  Definition encode (m : message) : result bytes :=
    match m with
    | Syn c d => Ok (put_header P_TAG_SYN ++ put_digest d ++ put_str c)
    | SynAck d x => rmap (fun p => put_header P_TAG_SYNACK ++ put_digest d ++ p) (put_delta zc x)
    | Ack x => rmap (fun p => put_header P_TAG_ACK ++ p) (put_delta zc x)
    | BadCluster => Ok (put_header P_TAG_BADCLUSTER)
    end.

  (* message.rs:114-130 *)
  Definition serialized_len (m : message) : N :=
    3 + match m with
        | Syn c d => 1 + str_len c + digest_len d
        | SynAck d x => 1 + digest_len d + dlen x
        | Ack x => 1 + dlen x
        | BadCluster => 1
        end.

  (* message.rs:133-176; returns the message and the unconsumed rest *)
  Definition decode (buf : bytes) : option (message * bytes) :=
    match get_u16 buf with
    | None => None
    | Some (magic, r) =>
        if negb (magic =? P_MAGIC) then None
        else
          match get_u8 r with
          | None => None
          | Some (ver, r1) =>
              if negb (ver =? P_PROTOCOL_VERSION) then None
              else
                match get_u8 r1 with
                | None => None
                | Some (tag, r2) =>
                    if tag =? P_TAG_SYN then
                      match get_digest r2 with
                      | None => None
                      | Some (d, r3) =>
                          match get_str r3 with
                          | None => None
                          | Some (c, r4) => Some (Syn c d, r4)
                          end
                      end
                    else if tag =? P_TAG_SYNACK then
                      match get_digest r2 with
                      | None => None
                      | Some (d, r3) =>
                          match get_delta zd r3 with
                          | None => None
                          | Some (x, r4) => Some (SynAck d x, r4)
                          end
                      end
                    else if tag =? P_TAG_ACK then
                      match get_delta zd r2 with
                      | None => None
                      | Some (x, r3) => Some (Ack x, r3)
                      end
                    else if tag =? P_TAG_BADCLUSTER then Some (BadCluster, r2)
                    else None
                end
          end
    end.
End Msg.
