(* Base.v — bytes, byte strings with Rust's String/&str ordering, outcomes.
   Model file: definitions only (proofs live in *_lemmas.v). *)
From Coq Require Export List NArith ZArith Bool.
From Coq.Strings Require Export Byte.
Export ListNotations.
Open Scope N_scope.

Definition bytes := list byte.

(* Outcome of an operation that can fail cleanly (anyhow::Error) or abort (panic). *)
Inductive result (A : Type) : Type :=
| Ok (a : A)
| Err
| Panic.
Arguments Ok {A} a.
Arguments Err {A}.
Arguments Panic {A}.

Definition rbind {A B} (r : result A) (f : A -> result B) : result B :=
  match r with Ok a => f a | Err => Err | Panic => Panic end.
Definition rmap {A B} (f : A -> B) (r : result A) : result B :=
  match r with Ok a => Ok (f a) | Err => Err | Panic => Panic end.

Definition b2n (b : byte) : N := Byte.to_N b.

(* Lexicographic comparison of byte strings = Ord for str / String / [u8]. *)
Fixpoint bytes_cmp (a b : bytes) : comparison :=
  match a, b with
  | [], [] => Eq
  | [], _ :: _ => Lt
  | _ :: _, [] => Gt
  | x :: a', y :: b' =>
      match N.compare (b2n x) (b2n y) with
      | Eq => bytes_cmp a' b'
      | c => c
      end
  end.

Definition bytes_eqb (a b : bytes) : bool :=
  match bytes_cmp a b with Eq => true | _ => false end.

(* str::starts_with on the byte level *)
Fixpoint is_prefix (p s : bytes) : bool :=
  match p, s with
  | [], _ => true
  | _ :: _, [] => false
  | x :: p', y :: s' => (b2n x =? b2n y) && is_prefix p' s'
  end.

(* str::strip_prefix on the byte level *)
Fixpoint strip_prefix (p s : bytes) : option bytes :=
  match p, s with
  | [], _ => Some s
  | _ :: _, [] => None
  | x :: p', y :: s' => if b2n x =? b2n y then strip_prefix p' s' else None
  end.

Definition len (b : bytes) : N := N.of_nat (length b).

Definition cmp_then (c d : comparison) : comparison :=
  match c with Eq => d | _ => c end.
