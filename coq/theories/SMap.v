(* SMap.v — BTreeMap as a strictly sorted association list (model file, no proofs). *)
From ChitchatModel Require Import Base.

Section SMap.
  Context {K V : Type}.
  Variable cmp : K -> K -> comparison.

  Definition smap := list (K * V).

  Fixpoint sm_get (k : K) (m : smap) : option V :=
    match m with
    | [] => None
    | (k0, v0) :: r => match cmp k k0 with Eq => Some v0 | _ => sm_get k r end
    end.

  Definition sm_mem (k : K) (m : smap) : bool :=
    match sm_get k m with Some _ => true | None => false end.

  (* BTreeMap::insert *)
  Fixpoint sm_insert (k : K) (v : V) (m : smap) : smap :=
    match m with
    | [] => [(k, v)]
    | (k0, v0) :: r =>
        match cmp k k0 with
        | Lt => (k, v) :: m
        | Eq => (k, v) :: r
        | Gt => (k0, v0) :: sm_insert k v r
        end
    end.

  (* BTreeMap::remove *)
  Fixpoint sm_remove (k : K) (m : smap) : smap :=
    match m with
    | [] => []
    | (k0, v0) :: r =>
        match cmp k k0 with Eq => r | _ => (k0, v0) :: sm_remove k r end
    end.

  Definition sm_keys (m : smap) : list K := map fst m.

  (* strictly ascending keys *)
  Fixpoint sm_sorted (m : smap) : Prop :=
    match m with
    | [] => True
    | (k0, _) :: r =>
        match r with
        | [] => True
        | (k1, _) :: _ => cmp k0 k1 = Lt
        end /\ sm_sorted r
    end.

  Fixpoint sm_sortedb (m : smap) : bool :=
    match m with
    | [] => true
    | (k0, _) :: r =>
        match r with
        | [] => true
        | (k1, _) :: _ => match cmp k0 k1 with Lt => true | _ => false end
        end && sm_sortedb r
    end.
End SMap.

Arguments smap : clear implicits.
