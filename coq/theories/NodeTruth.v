(* NodeTruth.v — one node against the truth: integrity of all its copies and "the owner is in
   sync with the truth about itself" are preserved by every node operation; replies have
   integrity; processing a message never changes the node's own namespace (C03, C05). *)
From Coq Require Import Lia Permutation.
From ChitchatModel Require Import Base SMap Ids Bytes Params NodeState Stream DeltaWire Message Cluster
  FD Chitchat World Monitors SMap_lemmas NodeState_lemmas Builder_lemmas Stream_lemmas Cluster_lemmas
  Chitchat_lemmas Inv Agreement DeltaRefine Compute_lemmas Prefix_lemmas NodeInv Truth.

Definition node_int (T : truth) (n : node) : Prop := cluster_int T (nd_cs n).

(* the node's own copy is exactly as advanced as the truth says its owner is *)
Definition owner_sync (T : truth) (n : node) : Prop :=
  exists c, nm_get (self_id n) (cs_nodes (nd_cs n)) = Some c /\
            c_max c = t_max T (self_id n) /\ c_hb c = t_hb T (self_id n).

Definition bump_hb (T : truth) (X : id) : truth :=
  mkT (t_wrote T) (t_max T) (fun Y => if id_eqb Y X then t_hb T Y + 1 else t_hb T Y).

Lemma t_le_bump T X : t_le T (bump_hb T X).
Proof.
  split; cbn; auto; try (intros; lia).
  - intros Y. destruct (id_eqb Y X); lia.
Qed.

Lemma bump_wf T X : t_wf T -> t_wf (bump_hb T X).
Proof. intros [H1 H2]. split; cbn; auto. Qed.

Lemma update_self_heartbeat_truth T n :
  node_int T n -> owner_sync T n ->
  node_int (bump_hb T (self_id n)) (update_self_heartbeat n) /\
  owner_sync (bump_hb T (self_id n)) (update_self_heartbeat n).
Proof.
  intros Hint (c & Hc & Hm & Hh).
  destruct (update_self_heartbeat_own n c Hc) as [Hown Hgcn].
  split.
  - intros Y d Hd. destruct (id_dec (self_id n) Y) as [<-|Hne].
    + rewrite Hown in Hd. injection Hd as <-.
      destruct (Hint _ _ Hc) as [A B C D]. split; cbn [bump_hb t_wrote t_max t_hb inc_heartbeat c_kvs c_max c_gc c_hb]; auto.
      rewrite id_eqb_refl. apply N.add_le_mono_r. exact D.
    + rewrite update_self_heartbeat_others in Hd by congruence.
      eapply copy_int_mono; [apply t_le_bump|]. apply Hint. exact Hd.
  - exists (inc_heartbeat c). split; [exact Hown|]. cbn [bump_hb t_max t_hb inc_heartbeat c_max c_hb].
    rewrite id_eqb_refl. split; [exact Hm|rewrite Hh; reflexivity].
Qed.

Lemma report_heartbeat_truth T now n i hb :
  node_int T n -> owner_sync T n -> hb <= t_hb T i ->
  node_int T (report_heartbeat now n i hb) /\ owner_sync T (report_heartbeat now n i hb)
  /\ self_id (report_heartbeat now n i hb) = self_id n
  /\ nm_get (self_id n) (cs_nodes (nd_cs (report_heartbeat now n i hb))) = nm_get (self_id n) (cs_nodes (nd_cs n)).
Proof.
  intros Hint Hown Hhb. unfold report_heartbeat.
  destruct (id_eqb i (self_id n)) eqn:Es; [auto|].
  assert (Hne : i <> self_id n) by (intros ->; rewrite id_eqb_refl in Es; discriminate).
  match goal with |- context [nm_get i (cs_nodes ?c0)] => set (cs := c0) end.
  assert (Hcs : cluster_int T cs /\ nm_get (self_id n) (cs_nodes cs) = nm_get (self_id n) (cs_nodes (nd_cs n))).
  { unfold cs. destruct (match last_heartbeat_if_deleted (nd_cs n) i with Some _ => _ | None => _ end); [|auto].
    unfold node_state_mut_or_init. destruct (nm_get i (cs_nodes (nd_cs n))); [auto|]. split.
    - apply (cluster_int_insert T (mkCluster (cs_nodes (nd_cs n)) (lru_pop i (cs_gcn (nd_cs n))))); [exact Hint|apply new_copy_int].
    - cbn [cs_nodes]. apply nm_get_insert_other. exact Hne. }
  destruct Hcs as [Hci Hself].
  destruct Hown as (co & Hco & Hm & Hh).
  destruct (nm_get i (cs_nodes cs)) as [c|] eqn:E.
  - destruct (try_set_heartbeat c hb) as [c' fresh] eqn:Et.
    assert (Hc' : copy_int T i c').
    { destruct (Hci i c E) as [A B C D]. unfold try_set_heartbeat in Et.
      destruct (c_hb c =? 0); [injection Et as <- _; split; auto|].
      destruct (c_hb c <? hb); injection Et as <- _; split; auto. }
    assert (H1 : node_int T (with_cs n (mkCluster (nm_insert i c' (cs_nodes cs)) (cs_gcn cs)))).
    { unfold node_int. cbn [nd_cs with_cs]. apply cluster_int_insert; assumption. }
    assert (H2 : owner_sync T (with_cs n (mkCluster (nm_insert i c' (cs_nodes cs)) (cs_gcn cs)))).
    { unfold owner_sync, self_id. cbn [nd_cs with_cs cs_nodes nd_cfg]. fold (self_id n). exists co.
      rewrite nm_get_insert_other by exact Hne. rewrite Hself. auto. }
    assert (H3 : nm_get (self_id n) (nm_insert i c' (cs_nodes cs)) = nm_get (self_id n) (cs_nodes (nd_cs n)))
      by (rewrite nm_get_insert_other by exact Hne; exact Hself).
    destruct fresh; cbn [with_fd nd_cs with_cs cs_nodes]; auto.
  - split; [exact Hci|]. split; [|split; [reflexivity|exact Hself]].
    unfold owner_sync, self_id. cbn [nd_cs with_cs nd_cfg]. fold (self_id n). exists co. rewrite Hself. auto.
Qed.

Lemma report_heartbeats_truth T now dg : forall n,
  node_int T n -> owner_sync T n -> digest_int T dg ->
  node_int T (report_heartbeats_in_digest now n dg) /\ owner_sync T (report_heartbeats_in_digest now n dg)
  /\ self_id (report_heartbeats_in_digest now n dg) = self_id n
  /\ nm_get (self_id n) (cs_nodes (nd_cs (report_heartbeats_in_digest now n dg))) = nm_get (self_id n) (cs_nodes (nd_cs n)).
Proof.
  unfold report_heartbeats_in_digest. induction dg as [|[i g] r IH]; intros n Hi Ho Hd; cbn [fold_left]; [auto|].
  destruct (report_heartbeat_truth T now n i (g_hb g) Hi Ho) as (H1 & H2 & H3 & H4).
  { apply (Hd i g). left; reflexivity. }
  destruct (IH _ H1 H2) as (A & B & C & D).
  { intros j h Hin. apply (Hd j h). right. exact Hin. }
  cbn [fst snd]. split; [exact A|]. split; [exact B|]. split; [congruence|].
  rewrite H3 in D. rewrite D. exact H4.
Qed.

(* ---- deltas ---- *)
Lemma cluster_apply_nds_truth T now : forall l nodes reset evs nodes' reset' evs',
  t_wf T ->
  (forall X c, nm_get X nodes = Some c -> copy_int T X c) -> Forall (nd_int T) l ->
  cluster_apply_nds now nodes l reset evs = Ok (nodes', reset', evs') ->
  (forall X c, nm_get X nodes' = Some c -> copy_int T X c) /\
  (* a copy as advanced as its owner is never touched: every delta about it is refused *)
  (forall X c, nm_get X nodes = Some c -> c_max c = t_max T X -> nm_get X nodes' = Some c).
Proof.
  induction l as [|nd r IH]; intros nodes reset evs nodes' reset' evs' Hwf Hint Hall; cbn [cluster_apply_nds].
  - intros [= <- _ _]. auto.
  - inversion Hall as [|? ? Hnd Hr]; subst.
    destruct (nm_get (d_id nd) nodes) as [c|] eqn:E; [|apply IH; auto].
    destruct (apply_delta now c nd) as [[[c1 st] ev]| |] eqn:Ea; try discriminate.
    destruct (lex_le _ _); [|discriminate]. intros Hrun.
    assert (Hint1 : forall X d, nm_get X (nm_insert (d_id nd) c1 nodes) = Some d -> copy_int T X d).
    { intros X d. destruct (id_dec (d_id nd) X) as [<-|Hne].
      - rewrite nm_get_insert_same. intros [= <-].
        eapply apply_delta_int; [exact Hwf|apply Hint; exact E|exact Hnd|reflexivity|exact Ea].
      - rewrite nm_get_insert_other by exact Hne. apply Hint. }
    destruct (IH _ _ _ _ _ _ Hwf Hint1 Hr Hrun) as [H1 H2]. split; [exact H1|].
    intros X d Hd Hmax. destruct (id_dec (d_id nd) X) as [<-|Hne].
    + rewrite E in Hd. injection Hd as <-.
      (* the delta about X is refused: its max version and watermark are at most the owner's *)
      assert (Hrej : check_delta_status c nd = Reject).
      { destruct Hnd as [_ Hn2 Hn3]. unfold check_delta_status.
        destruct (c_max c <? d_from nd); [reflexivity|].
        assert (Hc : (d_gc nd <=? c_gc c) || (d_gc nd <=? c_max c) = true).
        { apply orb_true_iff. right. apply N.leb_le. lia. }
        rewrite Hc. cbn [negb].
        assert (Hm : c_max c <? d_max nd = false) by (apply N.ltb_ge; lia). rewrite Hm. reflexivity. }
      unfold apply_delta in Ea. rewrite Hrej in Ea. injection Ea as <- _ _.
      apply H2; [apply nm_get_insert_same|exact Hmax].
    + apply H2; [rewrite nm_get_insert_other by exact Hne; exact Hd|exact Hmax].
Qed.

Lemma process_delta_truth T now n x n' evs :
  t_wf T -> node_int T n -> owner_sync T n -> Forall (nd_int T) (nds x) ->
  process_delta now n x = Ok (n', evs) ->
  node_int T n' /\ owner_sync T n' /\ self_id n' = self_id n /\
  nm_get (self_id n) (cs_nodes (nd_cs n')) = nm_get (self_id n) (cs_nodes (nd_cs n)).
Proof.
  intros Hwf Hint (co & Hco & Hm & Hh) Hall. unfold process_delta, cluster_apply_delta.
  destruct (cluster_apply_nds now (cs_nodes (nd_cs n)) (nds x) false []) as [[[nodes' reset'] evs']| |] eqn:E;
    cbn [rmap]; try discriminate.
  destruct (cluster_apply_nds_truth T now _ _ _ _ _ _ _ Hwf Hint Hall E) as [H1 H2].
  specialize (H2 _ _ Hco Hm).
  intros [= <- _].
  destruct (reset' && cf_has_cb (nd_cfg n)); unfold node_int, owner_sync; cbn [nd_cs with_cs cs_nodes self_id nd_cfg];
    fold (self_id n); (split; [exact H1|]); (split; [exists co; auto|]); (split; [reflexivity|]); rewrite H2; auto.
Qed.

(* ---- replies ---- *)
Lemma compute_delta_ok_shape zc (zc_len : forall b c, zc b = Some c -> len c <= len b) cs dg mtu sched ord x :
  cluster_inv cs -> mtu <= u16_max -> compute_delta zc cs dg mtu sched ord = Ok x ->
  delta_shape cs dg sched mtu x.
Proof.
  intros Hinv Hmax Hx.
  assert (Hmin : P_MIN_MTU <= mtu).
  { unfold compute_delta in Hx. destruct (arrange _ _); [|discriminate]. destruct (staleness_desc _); [|discriminate].
    unfold compute_delta_ordered, ds_with_mtu in Hx. destruct (mtu <? P_MIN_MTU) eqn:E; [discriminate|].
    apply N.ltb_ge in E. exact E. }
  destruct (compute_delta_spec zc zc_len cs dg mtu sched ord Hinv Hmin Hmax) as [He|(y & Hy & Hs)].
  - rewrite Hx in He. discriminate.
  - rewrite Hx in Hy. injection Hy as <-. exact Hs.
Qed.

Lemma node_piece_wf n j mv : node_ok n -> nd_wf (node_piece n j mv).
Proof.
  intros Hok. unfold node_ok in Hok. split; cbn [node_piece d_kvs d_max].
  - rewrite <- firstn_map. apply firstn_asc_from. exact Hok.
  - destruct (sorted_of n) eqn:Es; [cbn; destruct j; cbn; apply N.le_0_l|]. rewrite <- Es. apply N.le_refl.
Qed.

Lemma computed_delta_int T cs dg sched mtu x :
  t_wf T -> cluster_inv cs -> cluster_int T cs -> delta_shape cs dg sched mtu x ->
  Forall (nd_int T) (nds x) /\ delta_wf x.
Proof.
  intros Hwf Hinv Hint Hsh. split; apply Forall_forall; intros nd Hin;
    destruct (computed_delta_nodes cs dg sched mtu x Hinv Hsh nd Hin) as (n & j & mv & Hn & -> & _ & Hget & _).
  - apply node_piece_int; [exact Hwf|]. apply Hint. exact Hget.
  - apply node_piece_wf. unfold node_ok, sorted_of.
    apply (asc_from_weaken (sn_from n)); [apply N.le_0_l|]. apply stale_sorted_strict.
    eapply (cli_copies cs Hinv). apply nm_get_in. exact Hget.
Qed.

Section Proc.
  Variable zc : bytes -> option bytes.
  Hypothesis zc_len : forall b c, zc b = Some c -> len c <= len b.

  (* C03 + C05 for one processed message *)
  Theorem process_message_truth T now n m ord n' reply evs :
    t_wf T -> node_inv n -> node_int T n -> owner_sync T n -> msg_int T m -> msg_wf m ->
    process_message zc now n m ord = Ok (n', reply, evs) ->
    let T' := bump_hb T (self_id n) in
    node_inv n' /\ node_int T' n' /\ owner_sync T' n' /\ self_id n' = self_id n /\
    (match reply with Some r => msg_int T' r /\ msg_wf r | None => True end) /\
    (* single writer: the own copy is what it was, heartbeat + 1 *)
    (forall c, nm_get (self_id n) (cs_nodes (nd_cs n)) = Some c ->
               nm_get (self_id n) (cs_nodes (nd_cs n')) = Some (inc_heartbeat c)).
  Proof.
    intros Hwf Hinv Hint Hown Hm Hmwf Hrun. cbn zeta.
    set (T' := bump_hb T (self_id n)).
    pose proof (bump_wf T (self_id n) Hwf) as Hwf'.
    pose proof (t_le_bump T (self_id n)) as Hle.
    destruct (update_self_heartbeat_truth T n Hint Hown) as [Hint0 Hown0]. fold T' in Hint0, Hown0.
    pose proof (update_self_heartbeat_inv n Hinv) as Hinv0.
    pose proof (msg_int_mono T T' m Hle Hm) as Hm'.
    assert (Hself0 : self_id (update_self_heartbeat n) = self_id n) by reflexivity.
    assert (Hownc : forall c, nm_get (self_id n) (cs_nodes (nd_cs n)) = Some c ->
                    nm_get (self_id n) (cs_nodes (nd_cs (update_self_heartbeat n))) = Some (inc_heartbeat c))
      by (intros c Hc; apply (update_self_heartbeat_own n c Hc)).
    pose proof p_max_udp_le_u16 as Hu.
    unfold process_message in Hrun. destruct m as [cluster dg|dg x|x|].
    - destruct (negb _).
      + injection Hrun as <- <- <-.
        split; [exact Hinv0|]. split; [exact Hint0|]. split; [exact Hown0|]. split; [reflexivity|].
        split; [split; exact I|exact Hownc].
      + destruct (P_MAX_UDP <? _); [discriminate|].
        set (n1 := report_heartbeats_in_digest now (update_self_heartbeat n) dg) in *.
        destruct (report_heartbeats_truth T' now dg _ Hint0 Hown0 Hm') as (Hint1 & Hown1 & Hself1 & Hkeep1).
        fold n1 in Hint1, Hown1, Hself1, Hkeep1.
        pose proof (report_heartbeats_inv now dg _ Hinv0) as Hinv1. fold n1 in Hinv1.
        match type of Hrun with rmap _ ?cd = _ => destruct cd as [x| |] eqn:Ex; cbn [rmap] in Hrun; try discriminate end.
        injection Hrun as <- <- <-.
        pose proof (compute_delta_ok_shape zc zc_len _ _ _ _ _ _ Hinv1
                      (N.le_trans _ _ _ (N.le_sub_l _ _) Hu) Ex) as Hsh.
        destruct (computed_delta_int T' _ _ _ _ _ Hwf' Hinv1 Hint1 Hsh) as [Hdi Hdw].
        split; [exact Hinv1|]. split; [exact Hint1|]. split; [exact Hown1|]. split; [congruence|]. split.
        * split; [split; [|exact Hdi]|exact Hdw]. apply compute_digest_int; [exact Hint1|apply Hinv1].
        * intros c Hc. rewrite Hself0 in Hkeep1. rewrite Hkeep1. apply Hownc. exact Hc.
    - destruct Hm' as [Hdg Hx].
      set (n1 := report_heartbeats_in_digest now (update_self_heartbeat n) dg) in *.
      destruct (report_heartbeats_truth T' now dg _ Hint0 Hown0 Hdg) as (Hint1 & Hown1 & Hself1 & Hkeep1).
      fold n1 in Hint1, Hown1, Hself1, Hkeep1.
      pose proof (report_heartbeats_inv now dg _ Hinv0) as Hinv1. fold n1 in Hinv1.
      destruct (process_delta now n1 x) as [[n2 evs2]| |] eqn:Epd; cbn [rbind] in Hrun; try discriminate.
      destruct (process_delta_truth T' now n1 x n2 evs2 Hwf' Hint1 Hown1 Hx Epd) as (Hint2 & Hown2 & Hself2 & Hkeep2).
      pose proof (process_delta_inv now n1 x n2 evs2 Hinv1 Hmwf Epd) as Hinv2.
      match type of Hrun with rmap _ ?cd = _ => destruct cd as [y| |] eqn:Ey; cbn [rmap] in Hrun; try discriminate end.
      injection Hrun as <- <- <-.
      pose proof (compute_delta_ok_shape zc zc_len _ _ _ _ _ _ Hinv2
                    (N.le_trans _ _ _ (N.le_sub_l _ _) Hu) Ey) as Hsh.
      destruct (computed_delta_int T' _ _ _ _ _ Hwf' Hinv2 Hint2 Hsh) as [Hdi Hdw].
      split; [exact Hinv2|]. split; [exact Hint2|]. split; [exact Hown2|]. split; [congruence|].
      split; [split; assumption|].
      intros c Hc. rewrite Hself1 in Hkeep2. rewrite Hself0 in Hkeep2, Hkeep1. rewrite Hkeep2, Hkeep1.
      apply Hownc. exact Hc.
    - destruct (process_delta now (update_self_heartbeat n) x) as [[n2 evs2]| |] eqn:Epd; cbn [rmap] in Hrun; try discriminate.
      injection Hrun as <- <- <-. cbn [fst snd].
      destruct (process_delta_truth T' now _ x n2 evs2 Hwf' Hint0 Hown0 Hm' Epd) as (Hint2 & Hown2 & Hself2 & Hkeep2).
      pose proof (process_delta_inv now _ x n2 evs2 Hinv0 Hmwf Epd) as Hinv2.
      split; [exact Hinv2|]. split; [exact Hint2|]. split; [exact Hown2|]. split; [congruence|]. split; [exact I|].
      intros c Hc. rewrite Hself0 in Hkeep2. rewrite Hkeep2. apply Hownc. exact Hc.
    - injection Hrun as <- <- <-.
      split; [exact Hinv0|]. split; [exact Hint0|]. split; [exact Hown0|]. split; [reflexivity|].
      split; [exact I|exact Hownc].
  Qed.
End Proc.
