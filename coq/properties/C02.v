(* C02 — No resurrection: a copy is exact up to its version frontier.

   The truth [g_T g] is the ghost ledger of Reach.v: [t_wrote T X w] holds exactly for the writes
   (version, key, value, status) member X itself performed through its own API (GS_join's initial
   key-values, GS_write), and [latest T X k w] says w is X's most recent write on key k.

   Proved for every state reachable by the step relation [gstep zc true]: arbitrary joins, owner
   writes/deletes/TTL writes, tombstone GC of any node at any time, heartbeats, clock advances,
   liveness evaluation (which drops copies), SYN creation, and delivery of ANY message ever sent
   (so loss, duplication, reordering, arbitrary delay, relaying through stale peers), any
   compressor, any MTU truncation the code performs — EXCEPT deliveries that perform a "weak
   acceptance" (Weak.v), the known finding KF-1, for which [C02_refuted_by_weak_acceptance] gives
   a reachable counterexample. *)
From Coq Require Import Lia.
From ChitchatModel Require Import Base SMap Ids Bytes Params NodeState Stream DeltaWire Message Cluster
  FD Chitchat World Monitors SMap_lemmas NodeState_lemmas Inv Compute_lemmas NodeInv Truth NodeTruth Weak Exact
  Reach ReachExact GExec Monitors_lemmas Catchup_lemmas CatchupReach GuardsGen GuardTie.

Section C02.
  Variable zc : bytes -> option bytes.
  Hypothesis zc_len : forall b c, zc b = Some c -> len c <= len b.

  (* the statement, at full strength, for strict reachability *)
  Theorem C02_exact_up_to_frontier : forall g, reachable zc true g ->
    forall a n X c, node_at g a = Some n -> nm_get X (cs_nodes (nd_cs n)) = Some c ->
    forall k w, latest (g_T g) X k w -> lw_ver w <= c_max c ->
      (exists v, kget k (c_kvs c) = Some v /\ entry_of k v = w)
      \/ (mscheduled (lw_st w) = true /\ lw_ver w <= c_gc c /\ kget k (c_kvs c) = None).
  Proof.
    intros g Hr a n X c Hn Hc k w Hl Hle.
    destruct (reachable_exact zc zc_len g Hr) as [_ He _].
    destruct (He a n Hn X c Hc) as [Hh Hco].
    destruct (hold_compl_exact _ _ _ Hh Hco k w Hl Hle) as [(v & Hv & Hev)|H]; [left|right; exact H].
    destruct Hl as (_ & Hk & _). rewrite Hk in *. exists v. auto.
  Qed.

  (* "in particular": a key whose latest write is a deletion at a version the copy has passed is
     never shown as present *)
  Theorem C02_no_resurrection : forall g, reachable zc true g ->
    forall a n X c, node_at g a = Some n -> nm_get X (cs_nodes (nd_cs n)) = Some c ->
    forall k w, latest (g_T g) X k w -> lw_ver w <= c_max c -> lw_st w = MDel ->
      get c k = None.
  Proof.
    intros g Hr a n X c Hn Hc k w Hl Hle Hst.
    destruct (C02_exact_up_to_frontier g Hr a n X c Hn Hc k w Hl Hle) as [(v & Hv & Hev)|(_ & _ & Hnone)].
    - unfold get, get_versioned. fold kget. rewrite Hv. subst w. cbn [entry_of lw_st] in Hst.
      unfold is_deleted. destruct (v_st v); cbn in Hst; try discriminate. reflexivity.
    - unfold get, get_versioned. fold kget. rewrite Hnone. reflexivity.
  Qed.

  (* the invariant behind it also covers every message in flight (node deltas are exact up to
     their own frontier relative to the truth at any later time) *)
  Theorem C02_messages_in_flight_exact : forall g, reachable zc true g ->
    forall m, In m (g_sent g) -> msg_dinv (g_T g) m.
  Proof. intros g Hr. exact (gie_sent g (reachable_exact zc zc_len g Hr)). Qed.

  (* every run of the executable scheduler that performs no weak acceptance is covered *)
  Theorem C02_strict_runs_are_exact : forall ops g, grun zc true ops = Some g ->
    forall a n X c, node_at g a = Some n -> nm_get X (cs_nodes (nd_cs n)) = Some c ->
    exact_up_to_frontier (g_T g) X c.
  Proof.
    intros ops g Hrun a n X c Hn Hc.
    destruct (reachable_exact zc zc_len g (grun_reachable zc true ops g Hrun)) as [_ He _].
    destruct (He a n Hn X c Hc). apply hold_compl_exact; assumption.
  Qed.

  (* the same statement when, besides gossip, any node may at any time be fed — through the external
     catch-up entry point reset_node_state_if_update — a state of any member fetched from any node
     at any earlier moment ([creachable], CatchupReach.v; see C18) *)
  Theorem C02_exact_up_to_frontier_with_honest_catchups : forall g, creachable zc g ->
    forall a n X c, node_at g a = Some n -> nm_get X (cs_nodes (nd_cs n)) = Some c ->
    forall k w, latest (g_T g) X k w -> lw_ver w <= c_max c ->
      (exists v, kget k (c_kvs c) = Some v /\ entry_of k v = w)
      \/ (mscheduled (lw_st w) = true /\ lw_ver w <= c_gc c /\ kget k (c_kvs c) = None).
  Proof.
    intros g Hr a n X c Hn Hc k w Hl Hle.
    destruct (creachable_exact zc zc_len g Hr) as [_ He _].
    destruct (He a n Hn X c Hc) as [Hh Hco].
    destruct (hold_compl_exact _ _ _ Hh Hco k w Hl Hle) as [(v & Hv & Hev)|H]; [left|right; exact H].
    destruct Hl as (_ & Hk & _). rewrite Hk in *. exists v. auto.
  Qed.
End C02.

(* ---- the known finding KF-1: with weak acceptances allowed the statement is false ---- *)
  Definition zc0 : bytes -> option bytes := fun _ => None.      (* a compressor that never compresses *)
  Lemma zc0_len : forall b c, zc0 b = Some c -> len c <= len b.
  Proof. discriminate. Qed.
  Definition fdc := mkFdCfg 8 1 1000 10000 5000 100000 50000.
  Definition cfg (nm : byte) := mkCfg (mkId [nm] 0 (V4 1 1)) [x63] fdc 10 PNone false.
  Definition idA := mkId [x41] 0 (V4 1 1).
  Definition kj := [x6a].
  Definition kk := [x6b].
  (* a complete handshake initiated by node a with node b *)
  Definition hs (a b : nat) := [OSyn a; ODeliver b 0%nat []; ODeliver a 0%nat []; ODeliver b 0%nat []].
  (* A writes j@1, k@2; B syncs with A; A deletes k (version 3) ... *)
  Definition ops1 := [OJoin (cfg x41) []; OSet 0 kj [x31]; OSet 0 kk [x32]; OJoin (cfg x42) []] ++ hs 1 0 ++ [ODel 0 kk].
  (* ... the grace period passes, A collects the tombstone (watermark 3); a fresh node C syncs
     with A (copy (gc 3, max 1)), then with the stale B (accepts k@2: the weak acceptance), then
     with A again (SetMaxVersion 3) *)
  Definition ops2 := [OTick 11; OGc 0; OJoin (cfg x43) []] ++ hs 2 0 ++ hs 2 1 ++ hs 2 0.

  Definition wdel : lwrite := mkLW 3 kk [] MDel.
  Definition cA1 := mkCopy 3 0 3 [(kj, mkVV [x31] 1 SSet); (kk, mkVV [] 3 (SDel 0))].
  Definition cA := mkCopy 7 3 3 [(kj, mkVV [x31] 1 SSet)].
  Definition cC := mkCopy 6 3 3 [(kj, mkVV [x31] 1 SSet); (kk, mkVV [x32] 2 SSet)].

  Lemma run1 : option_map (fun g => (option_map self_id (node_at g 0), copy_at g 0 idA)) (grun zc0 false ops1)
               = Some (Some idA, Some cA1).
  Proof. vm_compute. reflexivity. Qed.
  Lemma run2 : option_map (fun g => (option_map self_id (node_at g 0), copy_at g 0 idA, copy_at g 2 idA))
                 (grun zc0 false (ops1 ++ ops2)) = Some (Some idA, Some cA, Some cC).
  Proof. vm_compute. reflexivity. Qed.
  (* the strict relation blocks exactly this history *)
  Lemma run_strict_blocked : grun zc0 true (ops1 ++ ops2) = None.
  Proof. vm_compute. reflexivity. Qed.

  (* generic in the operation lists, so that the kernel never unfolds the run while checking *)
  Lemma refuted_generic (o1 o2 : list gop) :
    option_map (fun g => (option_map self_id (node_at g 0), copy_at g 0 idA)) (grun zc0 false o1)
      = Some (Some idA, Some cA1) ->
    option_map (fun g => (option_map self_id (node_at g 0), copy_at g 0 idA, copy_at g 2 idA))
      (grun zc0 false (o1 ++ o2)) = Some (Some idA, Some cA, Some cC) ->
    exists g a n X c k w,
      reachable zc0 false g /\ node_at g a = Some n /\ nm_get X (cs_nodes (nd_cs n)) = Some c /\
      latest (g_T g) X k w /\ lw_ver w <= c_max c /\ lw_st w = MDel /\
      get c k = Some [x32] /\ ~ exact_up_to_frontier (g_T g) X c.
  Proof.
    intros R1 R2. unfold grun in R2. rewrite gfold_app in R2. unfold grun in R1.
    destruct (gfold zc0 false (g_init) o1) as [g1|] eqn:E1; [|discriminate].
    destruct (gfold zc0 false g1 o2) as [g|] eqn:E2; [|discriminate].
    cbn [option_map] in R1, R2. unfold copy_at in R1, R2.
    destruct (node_at g1 0) as [nA1|] eqn:EA1; [|discriminate]. cbn [option_map] in R1.
    injection R1 as RidA1 RcA1.
    destruct (node_at g 0) as [nA|] eqn:EA; [|discriminate].
    destruct (node_at g 2) as [nC|] eqn:EC; [|discriminate]. cbn [option_map] in R2.
    injection R2 as RidA RcA RcC.
    assert (Hr1 : reachable zc0 false g1) by (eapply gfold_reachable; [apply R_init|exact E1]).
    assert (Hr : reachable zc0 false g) by (eapply gfold_reachable; [exact Hr1|exact E2]).
    destruct (reachable_inv zc0 zc0_len false g1 Hr1) as [Hg1 _].
    destruct (reachable_inv zc0 zc0_len false g Hr) as [Hg _].
    (* the deletion is in the truth: A held it right after writing it, and the truth only grows *)
    assert (Hw1 : t_wrote (g_T g1) idA wdel).
    { destruct (gi_nodes g1 Hg1 0%nat nA1 EA1) as [_ Hint _].
      apply (cint_entries _ _ _ (Hint idA cA1 RcA1) kk (mkVV [] 3 (SDel 0))). cbn. auto. }
    assert (Hw : t_wrote (g_T g) idA wdel) by (eapply gfold_wrote_mono; [exact E2|exact Hw1]).
    (* nothing A wrote is above version 3 *)
    assert (Hmax : t_max (g_T g) idA = 3).
    { destruct (gi_nodes g Hg 0%nat nA EA) as [_ _ (c0 & Hc0 & Hm0 & _)]. rewrite RidA in Hc0, Hm0.
      rewrite RcA in Hc0. injection Hc0 as <-. symmetry. exact Hm0. }
    assert (Hl : latest (g_T g) idA kk wdel).
    { split; [exact Hw|]. split; [reflexivity|]. intros w' Hw' _.
      destruct (twf_range _ (gi_wf g Hg) idA w' Hw') as [_ Hle]. rewrite Hmax in Hle. exact Hle. }
    exists g, 2%nat, nC, idA, cC, kk, wdel.
    split; [exact Hr|]. split; [exact EC|]. split; [exact RcC|]. split; [exact Hl|].
    split; [cbn; lia|]. split; [reflexivity|]. split; [reflexivity|].
    intros Hex. destruct (Hex kk wdel Hl) as [(v & Hv & Hev)|(_ & _ & Hnone)]; [cbn; lia| |].
    - cbn in Hv. injection Hv as <-. discriminate Hev.
    - discriminate Hnone.
  Qed.

  Theorem C02_refuted_by_weak_acceptance :
    exists g a n X c k w,
      reachable zc0 false g /\ node_at g a = Some n /\ nm_get X (cs_nodes (nd_cs n)) = Some c /\
      latest (g_T g) X k w /\ lw_ver w <= c_max c /\ lw_st w = MDel /\
      get c k = Some [x32] /\                                  (* the deleted key is shown with its old value *)
      ~ exact_up_to_frontier (g_T g) X c.
  Proof. exact (refuted_generic ops1 ops2 run1 run2). Qed.

(* ---- non-vacuity: a strict-reachable state with a deletion, a GC and a late joiner, to which
        the theorem applies with a satisfiable hypothesis ---- *)
  (* as KF-1 but C never talks to the stale B: A deletes k, B learns it, both collect it, C joins *)
  Definition ops_nv := ops1 ++ hs 1 0 ++ [OTick 11; OGc 0; OGc 1; OJoin (cfg x43) []] ++ hs 2 0 ++ hs 2 1 ++ hs 1 2.
  Example strict_run_exists :
    option_map (fun g => (copy_at g 1 idA, copy_at g 2 idA)) (grun zc0 true ops_nv)
    = Some (Some (mkCopy 6 3 3 [(kj, mkVV [x31] 1 SSet)]), Some (mkCopy 6 3 3 [(kj, mkVV [x31] 1 SSet)])).
  Proof. vm_compute. reflexivity. Qed.

(* the boolean monitor evaluated on the implementation's copies (extract/monitor.ml: c02_ok, with the
   ledger of the owner's own API calls as the truth) is exactly the statement above *)
Theorem C02_monitor_is_the_statement : forall L c, versions_distinct L ->
  (c02_ok L c = true <->
   forall k w, ledger_latest L k w -> lw_ver w <= c_max c ->
     (exists v, kget k (c_kvs c) = Some v /\ entry_of k v = w) \/
     (mscheduled (lw_st w) = true /\ lw_ver w <= c_gc c /\ kget k (c_kvs c) = None)).
Proof. exact c02_ok_iff. Qed.

Print Assumptions C02_exact_up_to_frontier.
Print Assumptions C02_exact_up_to_frontier_with_honest_catchups.
Print Assumptions C02_monitor_is_the_statement.
Print Assumptions C02_no_resurrection.
Print Assumptions C02_messages_in_flight_exact.
Print Assumptions C02_strict_runs_are_exact.
Print Assumptions C02_refuted_by_weak_acceptance.

(* ---- the tie of the decision guards to the sources (GuardTie.v; see C14.v for the scheme) ---- *)
(* the watermark a GC pass leaves is the highest collected version (what makes a collected deletion
   "at or below the watermark"): the expression in the sources is the model's *)
Theorem C02_gc_watermark_is_the_source_expression :
  (forall ver acc cgc, rs_gc_watermark ver acc cgc = g_gc_watermark ver acc) /\
  ((forall now t grace, rs_gc_keep now t grace = g_gc_keep now t grace) \/
   (forall now t grace, rs_gc_keep now t grace = negb (g_gc_keep now t grace))).
Proof. exact (conj tie_gc_watermark tie_gc_keep). Qed.
Print Assumptions C02_gc_watermark_is_the_source_expression.
