(* C18 — External catch-up never regresses, corrupts or panics (reset_node_state_if_update). *)
From Coq Require Import Lia.
From ChitchatModel Require Import Base SMap Ids Bytes Params NodeState Stream DeltaWire Message Cluster
  FD Chitchat SMap_lemmas NodeState_lemmas Cluster_lemmas Chitchat_lemmas Inv NodeInv.

Lemma set_many_frontier : forall kvs c evs,
  c_gc (fst (set_many c kvs evs)) = c_gc c /\ c_max c <= c_max (fst (set_many c kvs evs))
  /\ c_hb (fst (set_many c kvs evs)) = c_hb c.
Proof.
  induction kvs as [|[k v] r IH]; intros c evs; cbn [set_many fst]; [repeat split; lia|].
  destruct (set_versioned_value c k v) as [c' ev] eqn:E.
  destruct (IH c' (evs ++ ev)) as (H1 & H2 & H3).
  assert (Hc : c' = fst (set_versioned_value c k v)) by (rewrite E; reflexivity).
  rewrite H1, H3. rewrite Hc at 1 3. rewrite svv_gc, svv_hb. repeat split; auto.
  assert (c_max c <= c_max c') by (rewrite Hc, svv_max; lia). lia.
Qed.

Lemma set_many_newer_wins : forall kvs c evs k o,
  kget k (c_kvs c) = Some o ->
  exists o', kget k (c_kvs (fst (set_many c kvs evs))) = Some o' /\ v_ver o <= v_ver o'.
Proof.
  induction kvs as [|[k1 v1] r IH]; intros c evs k o Hg; cbn [set_many fst]; [exists o; split; [exact Hg|lia]|].
  destruct (set_versioned_value c k1 v1) as [c' ev] eqn:E.
  destruct (svv_key_mono c k1 v1 k o Hg) as (o1 & Hg1 & Hle1). rewrite E in Hg1. cbn [fst] in Hg1.
  destruct (IH c' (evs ++ ev) k o1 Hg1) as (o2 & Hg2 & Hle2). exists o2. split; [exact Hg2|lia].
Qed.

(* For EVERY node, member, supplied key set, max_version and last_gc_version (consistent or not):
   never an abort; the outcome is "copy unchanged" or "key set replaced"; in both cases the
   copy's (GC watermark, max version) does not decrease; detector sets, watch channel and callback
   counter are untouched (the call makes nobody live); a member present in the removed-member
   memory and absent from the map is not re-created. *)
Theorem C18_catchup_spec : forall n i kvs mx gc,
  exists n' evs,
    reset_node_state_if_update n i kvs mx gc = Ok (n', evs) /\
    fd_live (nd_fd n') = fd_live (nd_fd n) /\ fd_dead (nd_fd n') = fd_dead (nd_fd n) /\
    nd_watch n' = nd_watch n /\ nd_prev n' = nd_prev n /\ nd_cb n' = nd_cb n /\
    (* other members are untouched *)
    (forall j, j <> i -> nm_get j (cs_nodes (nd_cs n')) = nm_get j (cs_nodes (nd_cs n))) /\
    (* garbage-collected member: not re-created *)
    (last_heartbeat_if_deleted (nd_cs n) i <> None -> nm_get i (cs_nodes (nd_cs n)) = None ->
       nm_get i (cs_nodes (nd_cs n')) = None) /\
    (* the copy: unchanged, or its key set is the supplied one (newer version of a common key kept)
       and its frontier strictly increased *)
    (forall c, nm_get i (cs_nodes (nd_cs n)) = Some c ->
       exists c', nm_get i (cs_nodes (nd_cs n')) = Some c' /\
         (c' = c \/
          (lex_lt_p (monotonic_property c) (monotonic_property c') /\
           c_gc c <= c_gc c' /\ c_max c' = N.max mx (c_max (fst (set_many c kvs []))) /\
           (forall k o', kget k (c_kvs c') = Some o' -> in_keys k kvs = true) /\
           (forall k o, kget k (c_kvs c) = Some o -> in_keys k kvs = true ->
              exists o', kget k (c_kvs (fst (set_many c kvs []))) = Some o' /\ v_ver o <= v_ver o')))).
Proof.
  intros n i kvs mx gc. unfold reset_node_state_if_update.
  set (should_init := match last_heartbeat_if_deleted (nd_cs n) i with None => true | Some _ => false end).
  set (cs := if should_init then node_state_mut_or_init (nd_cs n) i else nd_cs n).
  assert (Hother : forall j, j <> i -> nm_get j (cs_nodes cs) = nm_get j (cs_nodes (nd_cs n))).
  { intros j Hj. unfold cs. destruct should_init; [|reflexivity]. unfold node_state_mut_or_init.
    destruct (nm_get i (cs_nodes (nd_cs n))); [reflexivity|]. cbn [cs_nodes].
    apply nm_get_insert_other. congruence. }
  assert (Hsame : forall c, nm_get i (cs_nodes (nd_cs n)) = Some c -> nm_get i (cs_nodes cs) = Some c).
  { intros c Hc. unfold cs. destruct should_init; [|exact Hc]. unfold node_state_mut_or_init. rewrite Hc. exact Hc. }
  assert (Hgcd : last_heartbeat_if_deleted (nd_cs n) i <> None -> nm_get i (cs_nodes (nd_cs n)) = None ->
                 nm_get i (cs_nodes cs) = None).
  { intros Hm Hnone. unfold cs, should_init. destruct (last_heartbeat_if_deleted (nd_cs n) i); [exact Hnone|congruence]. }
  destruct (nm_get i (cs_nodes cs)) as [c0|] eqn:E0.
  2:{ eexists _, []. split; [reflexivity|]. cbn [nd_fd nd_watch nd_prev nd_cb nd_cs with_cs].
      repeat split; auto. intros c Hc. discriminate (Hsame c Hc). }
  destruct (mx <=? c_max c0) eqn:E1.
  { eexists _, []. split; [reflexivity|]. cbn [nd_fd nd_watch nd_prev nd_cb nd_cs with_cs].
    repeat split; auto.
    - intros Hm Hnone. discriminate (Hgcd Hm Hnone).
    - intros c Hc. pose proof (Hsame c Hc) as Hx. injection Hx as <-. exists c0. split; [exact E0|left; reflexivity]. }
  destruct (mx <? c_gc c0) eqn:E2.
  { eexists _, []. split; [reflexivity|]. cbn [nd_fd nd_watch nd_prev nd_cb nd_cs with_cs].
    repeat split; auto.
    - intros Hm Hnone. discriminate (Hgcd Hm Hnone).
    - intros c Hc. pose proof (Hsame c Hc) as Hx. injection Hx as <-. exists c0. split; [exact E0|left; reflexivity]. }
  apply N.leb_gt in E1. apply N.ltb_ge in E2.
  destruct (set_many c0 kvs []) as [c1 evs] eqn:Es.
  destruct (set_many_frontier kvs c0 []) as (Hg1 & Hm1 & Hh1). rewrite Es in Hg1, Hm1, Hh1. cbn [fst] in *.
  set (c2 := mkCopy (c_hb c1) (N.max gc (c_gc c1)) (N.max mx (c_max c1))
                    (filter (fun e => in_keys (fst e) kvs) (c_kvs c1))).
  assert (Hlt : lex_lt (monotonic_property c0) (monotonic_property c2) = true).
  { apply lex_lt_iff. unfold lex_lt_p, monotonic_property, c2. cbn [fst snd c_gc c_max].
    destruct (N.lt_ge_cases (c_gc c0) (N.max gc (c_gc c1))) as [H|H]; [left; exact H|].
    right. split; lia. }
  rewrite Hlt. eexists _, _. split; [reflexivity|]. cbn [nd_fd nd_watch nd_prev nd_cb nd_cs with_cs with_fd].
  split; [unfold fd_get_or_create; destruct (wm_get i (fd_samples (nd_fd n))); reflexivity|].
  split; [unfold fd_get_or_create; destruct (wm_get i (fd_samples (nd_fd n))); reflexivity|].
  split; [reflexivity|]. split; [reflexivity|]. split; [reflexivity|]. cbn [cs_nodes]. split; [|split].
  - intros j Hj. rewrite nm_get_insert_other by congruence. apply Hother. exact Hj.
  - intros Hm Hnone. discriminate (Hgcd Hm Hnone).
  - intros c Hc. pose proof (Hsame c Hc) as Hx. injection Hx as <-. exists c2. split; [apply nm_get_insert_same|].
    right. split; [apply lex_lt_iff; exact Hlt|]. split; [unfold c2; cbn [c_gc]; lia|].
    split; [unfold c2; cbn [c_max]; rewrite Es; reflexivity|]. split.
    + intros k o' Hk. unfold c2 in Hk. cbn [c_kvs] in Hk.
      apply (sm_get_in bytes_cmp bytes_cmp_eq) in Hk. apply filter_In in Hk as [_ Hf]. exact Hf.
    + intros k o Hk _. destruct (set_many_newer_wins kvs c0 [] k o Hk) as (o' & H1 & H2).
      exists o'. rewrite Es in H1. rewrite Es. auto.
Qed.
Print Assumptions C18_catchup_spec.

(* ---- "... replaces its key set with the supplied one (keeping the newer version of a key present in
        both)", entry by entry: when the catch-up goes through and the supplied keys are distinct,
        EVERY supplied key is in the copy afterwards, holding the supplied entry, or the copy's own
        previous entry when that one is at least as recent; nothing else is (C18_catchup_spec).
        This is what the C18 key-set monitor evaluates on the implementation's dumps. ---- *)
Definition merged (c : copy) (k : bytes) (v : vv) : vv :=
  match kget k (c_kvs c) with
  | Some old => if v_ver v <=? v_ver old then old else v
  | None => v
  end.

Lemma svv_get_same c k v : kget k (c_kvs (fst (set_versioned_value c k v))) = Some (merged c k v).
Proof.
  unfold set_versioned_value, merged. destruct (kget k (c_kvs c)) as [old|] eqn:E.
  - destruct (v_ver v <=? v_ver old); cbn [fst c_kvs]; [exact E|apply kget_kinsert_same].
  - cbn [fst c_kvs]. apply kget_kinsert_same.
Qed.
Lemma svv_get_other c k v k' : k <> k' -> kget k' (c_kvs (fst (set_versioned_value c k v))) = kget k' (c_kvs c).
Proof.
  intros Hne. unfold set_versioned_value. destruct (kget k (c_kvs c)) as [old|].
  - destruct (v_ver v <=? v_ver old); cbn [fst c_kvs]; [reflexivity|apply kget_kinsert_other; exact Hne].
  - cbn [fst c_kvs]. apply kget_kinsert_other. exact Hne.
Qed.
Lemma svv_sorted c k v : ksorted (c_kvs c) -> ksorted (c_kvs (fst (set_versioned_value c k v))).
Proof.
  intros Hs. unfold set_versioned_value. destruct (kget k (c_kvs c)) as [old|].
  - destruct (v_ver v <=? v_ver old); cbn [fst c_kvs]; [exact Hs|apply Inv.kinsert_sorted; exact Hs].
  - cbn [fst c_kvs]. apply Inv.kinsert_sorted. exact Hs.
Qed.

Lemma set_many_sorted : forall kvs c evs, ksorted (c_kvs c) -> ksorted (c_kvs (fst (set_many c kvs evs))).
Proof.
  induction kvs as [|[k v] r IH]; intros c evs Hs; cbn [set_many fst]; [exact Hs|].
  destruct (set_versioned_value c k v) as [c' ev] eqn:E. apply IH.
  replace c' with (fst (set_versioned_value c k v)) by (rewrite E; reflexivity). apply svv_sorted. exact Hs.
Qed.

Lemma set_many_get : forall kvs c evs k v,
  NoDup (map fst kvs) -> In (k, v) kvs -> kget k (c_kvs (fst (set_many c kvs evs))) = Some (merged c k v).
Proof.
  induction kvs as [|[k1 v1] r IH]; intros c evs k v Hnd Hin; [destruct Hin|].
  cbn [set_many fst]. destruct (set_versioned_value c k1 v1) as [c' ev] eqn:E.
  cbn [map fst] in Hnd. apply NoDup_cons_iff in Hnd as [Hni Hr].
  assert (Hc' : c' = fst (set_versioned_value c k1 v1)) by (rewrite E; reflexivity).
  destruct Hin as [Heq|Hin].
  - injection Heq as -> ->.
    (* the remaining supplied keys differ from k: the entry stays *)
    assert (Hstay : forall r0 c0 evs0, ~ In k (map fst r0) -> kget k (c_kvs (fst (set_many c0 r0 evs0))) = kget k (c_kvs c0)).
    { induction r0 as [|[k2 v2] r0 IH0]; intros c0 evs0 Hn; cbn [set_many fst]; [reflexivity|].
      destruct (set_versioned_value c0 k2 v2) as [c0' ev0] eqn:E0.
      rewrite IH0 by (intros H; apply Hn; right; exact H).
      replace c0' with (fst (set_versioned_value c0 k2 v2)) by (rewrite E0; reflexivity).
      apply svv_get_other. intros ->. apply Hn. left. reflexivity. }
    rewrite Hstay by exact Hni. rewrite Hc'. apply svv_get_same.
  - rewrite (IH c' (evs ++ ev) k v Hr Hin). unfold merged.
    assert (Hne : k1 <> k) by (intros ->; apply Hni; apply (in_map fst) in Hin; exact Hin).
    rewrite Hc', (svv_get_other c k1 v1 k Hne). reflexivity.
Qed.

Lemma kget_filter_keep (f : bytes * vv -> bool) m k v :
  ksorted m -> kget k m = Some v -> f (k, v) = true -> kget k (filter f m) = Some v.
Proof.
  intros Hs Hg Hf. apply Inv.ksorted_in_get; [apply Inv.kfilter_sorted; exact Hs|].
  apply filter_In. split; [apply Inv.kget_in; exact Hg|exact Hf].
Qed.

Theorem C18_catchup_installs_every_supplied_key : forall n i kvs mx gc c n' evs,
  node_inv n -> NoDup (map fst kvs) ->
  nm_get i (cs_nodes (nd_cs n)) = Some c -> c_max c < mx -> c_gc c <= mx ->
  reset_node_state_if_update n i kvs mx gc = Ok (n', evs) ->
  exists c', nm_get i (cs_nodes (nd_cs n')) = Some c' /\
    (forall k v, In (k, v) kvs -> kget k (c_kvs c') = Some (merged c k v)) /\
    (forall k o, kget k (c_kvs c') = Some o -> in_keys k kvs = true).
Proof.
  intros n i kvs mx gc c n' evs Hinv Hnd Hc Hmx Hgc Hrun. unfold reset_node_state_if_update in Hrun.
  set (should_init := match last_heartbeat_if_deleted (nd_cs n) i with None => true | Some _ => false end) in Hrun.
  set (cs := if should_init then node_state_mut_or_init (nd_cs n) i else nd_cs n) in Hrun.
  assert (Hsame : nm_get i (cs_nodes cs) = Some c).
  { unfold cs. destruct should_init; [|exact Hc]. unfold node_state_mut_or_init. rewrite Hc. exact Hc. }
  rewrite Hsame in Hrun.
  assert (E1 : (mx <=? c_max c) = false) by (apply N.leb_gt; exact Hmx). rewrite E1 in Hrun.
  assert (E2 : (mx <? c_gc c) = false) by (apply N.ltb_ge; exact Hgc). rewrite E2 in Hrun.
  destruct (set_many c kvs []) as [c1 evs1] eqn:Es.
  destruct (lex_lt _ _); [|discriminate]. injection Hrun as <- _.
  cbn [nd_cs with_cs with_fd cs_nodes]. eexists. split; [apply nm_get_insert_same|]. cbn [c_kvs]. split.
  - intros k v Hin.
    assert (Hci : ksorted (c_kvs c)).
    { destruct Hinv as [_ Hcop]. apply (ci_sorted c). eapply Hcop. apply nm_get_in. exact Hc. }
    pose proof (set_many_get kvs c [] k v Hnd Hin) as Hg. rewrite Es in Hg. cbn [fst] in Hg.
    apply kget_filter_keep; [|exact Hg|].
    + pose proof (set_many_sorted kvs c [] Hci) as Hs. rewrite Es in Hs. exact Hs.
    + cbn [fst]. unfold in_keys. apply existsb_exists. exists (k, v). split; [exact Hin|]. apply bytes_eqb_eq. reflexivity.
  - intros k o Hk. apply (sm_get_in bytes_cmp bytes_cmp_eq) in Hk. apply filter_In in Hk as [_ Hf]. exact Hf.
Qed.
Print Assumptions C18_catchup_installs_every_supplied_key.

(* "... and never makes a member live by itself": a catch-up carries no heartbeat information.  The
   sampling windows of the failure detector are exactly what they were — for every member a window
   that existed is untouched (neither reported to nor cleared), and at most one EMPTY window is
   created, for the member caught up.  An empty window never makes a member alive
   (C10_needs_two_reports), and a window that is untouched gives the same verdict at the next
   evaluation as it would have given without the catch-up. *)
Theorem C18_catchup_leaves_the_sampling_windows : forall n i kvs mx gc n' evs,
  reset_node_state_if_update n i kvs mx gc = Ok (n', evs) ->
  forall j, wm_get j (fd_samples (nd_fd n')) = wm_get j (fd_samples (nd_fd n)) \/
            (j = i /\ wm_get j (fd_samples (nd_fd n)) = None /\ wm_get j (fd_samples (nd_fd n')) = Some new_window).
Proof.
  intros n i kvs mx gc n' evs Hrun j. unfold reset_node_state_if_update in Hrun.
  set (cs := if match last_heartbeat_if_deleted (nd_cs n) i with None => true | Some _ => false end
             then node_state_mut_or_init (nd_cs n) i else nd_cs n) in Hrun.
  destruct (nm_get i (cs_nodes cs)) as [c|]; [|injection Hrun as <- _; left; reflexivity].
  destruct (mx <=? c_max c); [injection Hrun as <- _; left; reflexivity|].
  destruct (mx <? c_gc c); [injection Hrun as <- _; left; reflexivity|].
  destruct (set_many c kvs []) as [c1 evs1].
  destruct (lex_lt _ _); [|discriminate]. injection Hrun as <- _.
  cbn [nd_fd with_fd with_cs]. unfold fd_get_or_create.
  destruct (wm_get i (fd_samples (nd_fd n))) as [w|] eqn:E; [left; reflexivity|]. cbn [fd_samples].
  destruct (id_dec i j) as [<-|Hne].
  - right. split; [reflexivity|]. split; [exact E|]. apply (sm_get_insert_same id_cmp id_cmp_eq).
  - left. apply (sm_get_insert_other id_cmp id_cmp_eq); exact Hne.
Qed.
Print Assumptions C18_catchup_leaves_the_sampling_windows.

Example C18_nonvacuous :
  (* the follow-up of a gossip reset: copy at (gc 10, max 5), fetched state (gc 10, max 10) with
     no newer key: accepted, frontier becomes (10, 10), no abort *)
  let i := mkId [x78] 0 (V4 1 1) in
  let c := mkCopy 1 10 5 [([x61], mkVV [x31] 5 SSet)] in
  let cfg := mkCfg (mkId [x6e] 0 (V4 2 2)) [x63] (mkFdCfg 8 1 10 1 1 1 1) 1 PNone false in
  let n := mkNode cfg (mkCluster [(i, c)] []) new_fd [] [] 0 0 in
  exists n' evs, reset_node_state_if_update n i [([x61], mkVV [x31] 5 SSet)] 10 10 = Ok (n', evs) /\
    nm_get i (cs_nodes (nd_cs n')) = Some (mkCopy 1 10 10 [([x61], mkVV [x31] 5 SSet)]).
Proof. eexists _, _. split; vm_compute; reflexivity. Qed.
